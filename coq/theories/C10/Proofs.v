(* C10/Proofs.v — lemmas and invariants for the HA election / failover model *)
From OV Require Import Common.Base C10.Model.
From Coq Require Import ZifyBool ZifyNat ZifyN.
Local Open Scope Z_scope.

(* ------------------------------------------------------------------ election *)
Definition wins_raw (id : list N) (eff pp : Z) (pid : list N) : bool :=
  if negb (eff =? pp) then pp <? eff else str_ltb id pid.

(* Go string order is a strict total order *)
Lemma str_ltb_antisym a : forall b, a <> b -> str_ltb b a = negb (str_ltb a b).
Proof.
  induction a as [|x a IH]; intros [|y b] Hne; cbn; try reflexivity; [congruence|].
  destruct (N.ltb_spec x y), (N.ltb_spec y x); cbn; try reflexivity; try lia.
  assert (x = y) by lia. subst y. apply IH. congruence.
Qed.
Lemma str_ltb_irrefl a : str_ltb a a = false.
Proof. induction a as [|x a IH]; cbn; [reflexivity|]. rewrite N.ltb_irrefl. exact IH. Qed.

Lemma wins_eq c n pid : wins c n pid = wins_raw (c_id c) (n_eff n) (n_pprio n) pid.
Proof. reflexivity. Qed.

Lemma wins_raw_antisym ida idb ea eb :
  ida <> idb -> wins_raw idb eb ea ida = negb (wins_raw ida ea eb idb).
Proof.
  intros Hne. unfold wins_raw.
  destruct (Z.eqb_spec ea eb) as [E|E]; destruct (Z.eqb_spec eb ea) as [E'|E']; try lia; cbn [negb].
  - apply str_ltb_antisym; exact Hne.
  - destruct (Z.ltb_spec eb ea), (Z.ltb_spec ea eb); cbn; try reflexivity; lia.
Qed.

(* winsElection on the true priorities is antisymmetric when the node ids differ *)
Lemma wins_antisym : forall ca cb na nb,
  c_id ca <> c_id cb ->
  n_pprio na = n_eff nb -> n_pprio nb = n_eff na ->
  wins ca na (c_id cb) = negb (wins cb nb (c_id ca)).
Proof.
  intros ca cb na nb Hne Hpa Hpb. rewrite !wins_eq, Hpa, Hpb.
  rewrite (wins_raw_antisym (c_id ca) (c_id cb)) by exact Hne. now rewrite Bool.negb_involutive.
Qed.

Definition one_active (sa sb : sst) : bool := xorb (is_active sa) (is_active sb).

(* two nodes in READY that know each other's true priority elect exactly one ACTIVE *)
Lemma elect_exactly_one : forall ca cb na nb,
  c_id ca <> c_id cb -> n_st na = Ready -> n_st nb = Ready ->
  n_pprio na = n_eff nb -> n_pprio nb = n_eff na ->
  let sa := n_st (fst (elect ca na (c_id cb))) in
  let sb := n_st (fst (elect cb nb (c_id ca))) in
  (sa = Active /\ sb = Standby) \/ (sa = Standby /\ sb = Active).
Proof.
  intros ca cb na nb Hne Ha Hb Hpa Hpb. cbn zeta.
  unfold elect. rewrite Ha, Hb. rewrite (wins_antisym ca cb na nb Hne Hpa Hpb).
  destruct (wins cb nb (c_id ca)); cbn [negb]; unfold transition_to; rewrite ?Ha, ?Hb; cbn; auto.
Qed.

(* ------------------------------------------------------------------ handlePeerHeartbeat, finite core *)
Definition upd_core (v : variant) (pre : bool) (st mst : sst) (w : bool) : sst :=
  if pre && sst_eqb st Standby && w then Active
  else if sst_eqb st Active && (sst_eqb mst Active || (fix_fc v && sst_eqb mst ActiveSolo)) && negb w then Standby
  else if fix_hb v && sst_eqb st Standby && sst_eqb mst Standby && w then Active
  else st.

Definition hb_core (v : variant) (pre first : bool) (st mst : sst) (w : bool) : sst :=
  if first || sst_eqb st Waiting || sst_eqb st ActiveSolo || (fix_sa v && sst_eqb st StandbyAlone) then
    match st with
    | Waiting | ActiveSolo | StandbyAlone | Ready => if w then Active else Standby
    | _ => if fix_fc v then upd_core v pre st mst w else st
    end
  else upd_core v pre st mst w.

(* the behaviour of handlePeerHeartbeat depends on the priorities and node ids only through
   the outcome of winsElection on the priority carried by the heartbeat *)
Lemma handle_hb_spec v c n m :
  fst (handle_hb v c n m) =
  mkNode (hb_core v (c_preempt c) (negb (n_pknown n)) (n_st n) (h_st m)
                  (wins_raw (c_id c) (n_eff n) (h_prio m) (h_id m)))
         (n_eff n) (h_prio m) (Some (h_st m)) (nonempty (h_id m)) (n_cnt n) (n_down n).
Proof.
  destruct n as [st eff pp ps pk cnt dn], m as [mid mst mp mreq], v as [fh fi ff fs fa].
  unfold handle_hb, hb_core, upd_core.
  destruct st, pk; cbn;
    unfold peer_discovered, elect, hb_update, transition_to, wins, wins_raw, set_pknown, set_peer, set_st;
    cbn [n_st n_eff n_pprio n_pst n_pknown n_cnt n_down h_id h_st h_prio h_req fix_hb fix_if fix_fc fix_sa fix_ia];
    set (W := if negb (eff =? mp) then mp <? eff else str_ltb (c_id c) mid);
    destruct (c_preempt c), fh, ff, fs, mst, W; reflexivity.
Qed.

(* ------------------------------------------------------------------ exchanges on the finite abstraction *)
(* (state A, peer-known A, state B, peer-known B) *)
Definition astate := (sst * bool * sst * bool)%type.
Definition absn (ab : node * node) : astate :=
  (n_st (fst ab), n_pknown (fst ab), n_st (snd ab), n_pknown (snd ab)).

(* wa = "A wins the election on the true priorities"; B's answer is its negation *)
Definition cxchg (v : variant) (pa pb wa : bool) (w : who) (x : astate) : astate :=
  let '(sa, ka, sb, kb) := x in
  match w with
  | A => let sb' := hb_core v pb (negb kb) sb sa (negb wa) in
         let sa' := hb_core v pa (negb ka) sa sb' wa in (sa', true, sb', true)
  | B => let sa' := hb_core v pa (negb ka) sa sb wa in
         let sb' := hb_core v pb (negb kb) sb sa' (negb wa) in (sa', true, sb', true)
  end.
Definition ccrossed (v : variant) (pa pb wa : bool) (x : astate) : astate :=
  let '(sa, ka, sb, kb) := x in
  (hb_core v pa (negb ka) sa sb wa, true, hb_core v pb (negb kb) sb sa (negb wa), true).
Fixpoint cxchgs (v : variant) (pa pb wa : bool) (ws : list who) (x : astate) : astate :=
  match ws with [] => x | w :: r => cxchgs v pa pb wa r (cxchg v pa pb wa w x) end.

Definition a_wins (cs : cfgs) (ab : node * node) : bool :=
  wins_raw (c_id (fst cs)) (n_eff (fst ab)) (n_eff (snd ab)) (c_id (snd cs)).

Definition ids_ok (cs : cfgs) : Prop :=
  c_id (fst cs) <> c_id (snd cs) /\ nonempty (c_id (fst cs)) = true /\ nonempty (c_id (snd cs)) = true.

Lemma xchg_abs v cs w ab :
  ids_ok cs ->
  absn (xchg v cs w ab) = cxchg v (c_preempt (fst cs)) (c_preempt (snd cs)) (a_wins cs ab) w (absn ab)
  /\ n_eff (fst (xchg v cs w ab)) = n_eff (fst ab) /\ n_eff (snd (xchg v cs w ab)) = n_eff (snd ab).
Proof.
  intros (Hne & Hea & Heb). destruct ab as [a b], cs as [ca cb]. unfold xchg, absn, cxchg, a_wins, snapshot.
  cbn [fst snd] in Hne, Hea, Heb.
  destruct w; rewrite !handle_hb_spec;
    cbn [fst snd n_st n_eff n_pprio n_pst n_pknown n_cnt n_down h_id h_st h_prio h_req];
    rewrite ?Hea, ?Heb;
    rewrite (wins_raw_antisym (c_id ca) (c_id cb) (n_eff a) (n_eff b) Hne); auto.
Qed.

Lemma xchg_crossed_abs v cs ab :
  ids_ok cs ->
  absn (xchg_crossed v cs ab) = ccrossed v (c_preempt (fst cs)) (c_preempt (snd cs)) (a_wins cs ab) (absn ab).
Proof.
  intros (Hne & Hea & Heb). destruct ab as [a b], cs as [ca cb]. unfold xchg_crossed, absn, ccrossed, a_wins, snapshot.
  cbn [fst snd] in Hne, Hea, Heb.
  rewrite !handle_hb_spec;
    cbn [fst snd n_st n_eff n_pprio n_pst n_pknown n_cnt n_down h_id h_st h_prio h_req];
    rewrite ?Hea, ?Heb;
    rewrite (wins_raw_antisym (c_id ca) (c_id cb) (n_eff a) (n_eff b) Hne); auto.
Qed.

Lemma xchgs_abs v cs ws : forall ab,
  ids_ok cs ->
  absn (xchgs v cs ws ab) = cxchgs v (c_preempt (fst cs)) (c_preempt (snd cs)) (a_wins cs ab) ws (absn ab).
Proof.
  induction ws as [|w r IH]; intros ab Hne; cbn [xchgs cxchgs]; [reflexivity|].
  destruct (xchg_abs v cs w ab Hne) as (H1 & H2 & H3).
  rewrite IH by exact Hne. rewrite H1. unfold a_wins. now rewrite H2, H3.
Qed.

Definition settled (s : sst) : bool := match s with Init | Ready => false | _ => true end.
Definition a_one_active (x : astate) : bool := let '(sa, _, sb, _) := x in one_active sa sb.
Definition a_states (x : astate) : sst * sst := let '(sa, _, sb, _) := x in (sa, sb).

(* dual active resolves within ONE exchange (either initiator, or crossed) *)
Lemma core_dual_active v pa pb wa sa ka sb kb :
  fix_fc v = true -> is_active sa = true -> is_active sb = true ->
  a_one_active (cxchg v pa pb wa A (sa, ka, sb, kb)) = true /\
  a_one_active (cxchg v pa pb wa B (sa, ka, sb, kb)) = true /\
  a_one_active (ccrossed v pa pb wa (sa, ka, sb, kb)) = true.
Proof.
  destruct v as [fh fi ff fs fa]; cbn [fix_fc]; intros -> Ha Hb.
  destruct sa; try discriminate Ha; destruct sb; try discriminate Hb;
    destruct ka, kb, pa, pb, wa, fh, fs; cbn; auto.
Qed.

(* before b0a3819: the pairs that are still dual-active after one exchange exist *)
Lemma core_dual_active_current_code :
  a_one_active (cxchg Defective false false true A (ActiveSolo, false, Active, true)) = false /\
  a_one_active (cxchg Defective false false false B (Active, false, ActiveSolo, false)) = false.
Proof. split; reflexivity. Qed.

(* ... but two exchanges always suffice, also for the original code *)
Lemma core_dual_active_two v pa pb wa sa ka sb kb w1 w2 :
  is_active sa = true -> is_active sb = true ->
  a_one_active (cxchgs v pa pb wa [w1; w2] (sa, ka, sb, kb)) = true.
Proof.
  destruct v as [fh fi ff fs fa]; intros Ha Hb.
  destruct sa; try discriminate Ha; destruct sb; try discriminate Hb;
    destruct ka, kb, pa, pb, wa, fh, ff, fs, w1, w2; reflexivity.
Qed.

(* ------------------------------------------------------------------ no stable headless pair *)
(* finite quantification by evaluation *)
Definition all_bool (f : bool -> bool) : bool := f true && f false.
Definition all_who (f : who -> bool) : bool := f A && f B.
Definition all_settled (f : sst -> bool) : bool :=
  forallb f [Waiting; Active; Standby; ActiveSolo; StandbyAlone].
Lemma all_bool_ok f : all_bool f = true -> forall b, f b = true.
Proof. unfold all_bool; intros H b; apply andb_prop in H; destruct b; tauto. Qed.
Lemma all_who_ok f : all_who f = true -> forall w, f w = true.
Proof. unfold all_who; intros H w; apply andb_prop in H; destruct w; tauto. Qed.
Lemma all_settled_ok f : all_settled f = true -> forall s, settled s = true -> f s = true.
Proof.
  unfold all_settled; intros H s Hs. rewrite forallb_forall in H. apply H.
  destruct s; try discriminate Hs; cbn; tauto.
Qed.

Definition astate_eqb (x y : astate) : bool :=
  let '(a, b, c, d) := x in let '(a', b', c', d') := y in
  sst_eqb a a' && Bool.eqb b b' && sst_eqb c c' && Bool.eqb d d'.
Lemma sst_eqb_eq x y : sst_eqb x y = true -> x = y.
Proof. destruct x, y; cbn; intros H; try reflexivity; discriminate H. Qed.
Lemma astate_eqb_eq x y : astate_eqb x y = true -> x = y.
Proof.
  destruct x as [[[a b] c] d], y as [[[a' b'] c'] d']; cbn.
  intros H. repeat (apply andb_prop in H; destruct H as [H ?]).
  apply sst_eqb_eq in H. apply sst_eqb_eq in H1. apply Bool.eqb_prop in H0. apply Bool.eqb_prop in H2.
  now subst.
Qed.

(* a started node; STANDBY_ALONE is only ever held by a node that has lost its peer
   (peerNodeID = ""): invariant [run_wf] below *)
Definition okn (s : sst) (k : bool) : bool := settled s && negb (sst_eqb s StandbyAlone && k).

(* precondition on one node: with fix_sa any started node, without it STANDBY_ALONE must not know its peer *)
Definition pre_ok (fs : bool) (s : sst) (k : bool) : bool := if fs then settled s else okn s k.

Definition conv_check (fi ff fs fa pa pb wa : bool) (sa : sst) (ka : bool) (sb : sst) (kb : bool) (w1 w2 w3 : who) : bool :=
  let v := mkVariant true fi ff fs fa in
  let r := cxchgs v pa pb wa [w1; w2; w3] (sa, ka, sb, kb) in
  implb (pre_ok fs sa ka && pre_ok fs sb kb)
    (a_one_active r && astate_eqb (cxchg v pa pb wa A r) r && astate_eqb (cxchg v pa pb wa B r) r).
Definition conv_all : bool :=
  all_bool (fun fi => all_bool (fun ff => all_bool (fun fs => all_bool (fun fa =>
  all_bool (fun pa => all_bool (fun pb => all_bool (fun wa =>
  all_settled (fun sa => all_bool (fun ka => all_settled (fun sb => all_bool (fun kb =>
  all_who (fun w1 => all_who (fun w2 => all_who (fun w3 =>
    conv_check fi ff fs fa pa pb wa sa ka sb kb w1 w2 w3)))))))))))))).
Lemma conv_all_true : conv_all = true.
Proof. vm_compute. reflexivity. Qed.

Lemma pre_ok_settled fs s k : pre_ok fs s k = true -> settled s = true.
Proof. unfold pre_ok, okn. destruct fs; [auto|]. intros H; apply andb_prop in H; tauto. Qed.

(* with the dual-standby repair: from ANY pair of started nodes, three fresh exchanges (any
   initiators) reach a pair with exactly one active node that further exchanges do not move *)
Lemma core_converges v pa pb wa sa ka sb kb w1 w2 w3 :
  fix_hb v = true -> pre_ok (fix_sa v) sa ka = true -> pre_ok (fix_sa v) sb kb = true ->
  let r := cxchgs v pa pb wa [w1; w2; w3] (sa, ka, sb, kb) in
  a_one_active r = true /\ cxchg v pa pb wa A r = r /\ cxchg v pa pb wa B r = r.
Proof.
  destruct v as [fh fi ff fs fa]; cbn [fix_hb fix_sa]; intros -> Ha0 Hb0.
  pose proof (pre_ok_settled _ _ _ Ha0) as Ha. pose proof (pre_ok_settled _ _ _ Hb0) as Hb.
  pose proof conv_all_true as H. unfold conv_all in H.
  apply all_bool_ok with (b := fi) in H. apply all_bool_ok with (b := ff) in H.
  apply all_bool_ok with (b := fs) in H. apply all_bool_ok with (b := fa) in H.
  apply all_bool_ok with (b := pa) in H. apply all_bool_ok with (b := pb) in H.
  apply all_bool_ok with (b := wa) in H.
  apply all_settled_ok with (s := sa) in H; [|exact Ha]. apply all_bool_ok with (b := ka) in H.
  apply all_settled_ok with (s := sb) in H; [|exact Hb]. apply all_bool_ok with (b := kb) in H.
  apply all_who_ok with (w := w1) in H. apply all_who_ok with (w := w2) in H.
  apply all_who_ok with (w := w3) in H.
  unfold conv_check in H. cbn zeta in *. rewrite Ha0, Hb0 in H. cbn [andb implb] in H.
  apply andb_prop in H; destruct H as [H H3]. apply andb_prop in H; destruct H as [H1 H2].
  split; [exact H1|]. split; apply astate_eqb_eq; assumption.
Qed.

(* a pair in contact whose states are not moved by fresh exchanges has exactly one active node *)
Lemma core_fixpoint_has_active v pa pb wa sa sb :
  fix_hb v = true -> pre_ok (fix_sa v) sa true = true -> pre_ok (fix_sa v) sb true = true ->
  a_states (cxchg v pa pb wa A (sa, true, sb, true)) = (sa, sb) ->
  a_states (cxchg v pa pb wa B (sa, true, sb, true)) = (sa, sb) ->
  one_active sa sb = true.
Proof.
  destruct v as [fh fi ff fs fa]; cbn [fix_hb fix_sa]; intros -> Ha Hb.
  destruct fs; destruct sa; try discriminate Ha; destruct sb; try discriminate Hb;
    destruct pa, pb, wa, ff; cbn; intros H1 H2; try reflexivity; try discriminate H1; try discriminate H2.
Qed.

(* the original code (before 8396862): STANDBY/STANDBY without preempt is a fix-point of both exchanges *)
Lemma core_dual_standby_current_code wa :
  cxchg Defective false false wa A (Standby, true, Standby, true) = (Standby, true, Standby, true) /\
  cxchg Defective false false wa B (Standby, true, Standby, true) = (Standby, true, Standby, true).
Proof. destruct wa; split; reflexivity. Qed.

(* ------------------------------------------------------------------ lifting to nodes *)
Definition n_ok (v : variant) (n : node) : bool := pre_ok (fix_sa v) (n_st n) (n_pknown n).
Definition pair_one_active (ab : node * node) : bool := one_active (n_st (fst ab)) (n_st (snd ab)).

Lemma a_one_active_absn ab : a_one_active (absn ab) = pair_one_active ab.
Proof. reflexivity. Qed.

Lemma dual_active_resolves v cs a b :
  fix_fc v = true -> ids_ok cs ->
  is_active (n_st a) = true -> is_active (n_st b) = true ->
  pair_one_active (xchg v cs A (a, b)) = true /\
  pair_one_active (xchg v cs B (a, b)) = true /\
  pair_one_active (xchg_crossed v cs (a, b)) = true.
Proof.
  intros Hf Hne Ha Hb. rewrite <- !a_one_active_absn.
  rewrite (proj1 (xchg_abs v cs A (a, b) Hne)), (proj1 (xchg_abs v cs B (a, b) Hne)),
    (xchg_crossed_abs v cs (a, b) Hne).
  apply core_dual_active; assumption.
Qed.

Lemma dual_active_resolves_two v cs a b w1 w2 :
  ids_ok cs ->
  is_active (n_st a) = true -> is_active (n_st b) = true ->
  pair_one_active (xchgs v cs [w1; w2] (a, b)) = true.
Proof.
  intros Hne Ha Hb. rewrite <- a_one_active_absn, (xchgs_abs v cs [w1; w2] (a, b) Hne).
  apply core_dual_active_two; assumption.
Qed.

Lemma converges v cs a b w1 w2 w3 :
  fix_hb v = true -> ids_ok cs -> n_ok v a = true -> n_ok v b = true ->
  let r := xchgs v cs [w1; w2; w3] (a, b) in
  pair_one_active r = true /\ absn (xchg v cs A r) = absn r /\ absn (xchg v cs B r) = absn r.
Proof.
  intros Hf Hne Ha Hb r.
  pose proof (core_converges v (c_preempt (fst cs)) (c_preempt (snd cs)) (a_wins cs (a, b))
                (n_st a) (n_pknown a) (n_st b) (n_pknown b) w1 w2 w3 Hf Ha Hb) as H.
  cbn zeta in H. destruct H as (H1 & H2 & H3).
  assert (Hr : absn r = cxchgs v (c_preempt (fst cs)) (c_preempt (snd cs)) (a_wins cs (a, b)) [w1; w2; w3] (absn (a, b)))
    by (apply xchgs_abs; exact Hne).
  assert (Hw : a_wins cs r = a_wins cs (a, b)).
  { unfold r. cbn [xchgs].
    destruct (xchg_abs v cs w1 (a, b) Hne) as (_ & E1 & E1').
    destruct (xchg_abs v cs w2 (xchg v cs w1 (a, b)) Hne) as (_ & E2 & E2').
    destruct (xchg_abs v cs w3 (xchg v cs w2 (xchg v cs w1 (a, b))) Hne) as (_ & E3 & E3').
    unfold a_wins. now rewrite E3, E3', E2, E2', E1, E1'. }
  split; [rewrite <- a_one_active_absn, Hr; exact H1|].
  rewrite (proj1 (xchg_abs v cs A r Hne)), (proj1 (xchg_abs v cs B r Hne)), Hw, Hr.
  split; assumption.
Qed.

Lemma fixpoint_has_active v cs a b :
  fix_hb v = true -> ids_ok cs ->
  n_ok v a = true -> n_ok v b = true -> n_pknown a = true -> n_pknown b = true ->
  (forall w, n_st (fst (xchg v cs w (a, b))) = n_st a /\ n_st (snd (xchg v cs w (a, b))) = n_st b) ->
  pair_one_active (a, b) = true.
Proof.
  intros Hf Hne Ha Hb Ka Kb Hfix. unfold n_ok in Ha, Hb. rewrite Ka in Ha. rewrite Kb in Hb.
  apply (core_fixpoint_has_active v (c_preempt (fst cs)) (c_preempt (snd cs)) (a_wins cs (a, b)) _ _ Hf Ha Hb).
  - destruct (Hfix A) as [E1 E2]. pose proof (proj1 (xchg_abs v cs A (a, b) Hne)) as H.
    unfold absn in H. cbn [fst snd] in H. rewrite Ka, Kb in H. rewrite <- H. unfold a_states. rewrite E1, E2. reflexivity.
  - destruct (Hfix B) as [E1 E2]. pose proof (proj1 (xchg_abs v cs B (a, b) Hne)) as H.
    unfold absn in H. cbn [fst snd] in H. rewrite Ka, Kb in H. rewrite <- H. unfold a_states. rewrite E1, E2. reflexivity.
Qed.

(* ------------------------------------------------------------------ events *)
Lemma run_snoc v cs es : forall s e, run v cs s (es ++ [e]) = fst (step v cs (run v cs s es) e).
Proof. induction es as [|x r IH]; intros s e; cbn [run app]; [reflexivity | apply IH]. Qed.

Lemma node_of_set_node w w' s n :
  node_of w (set_node w' s n) = if who_eqb w w' then n else node_of w s.
Proof. destruct w, w'; reflexivity. Qed.
Lemma node_of_set_queue w w' s q : node_of w (set_queue w' s q) = node_of w s.
Proof. destruct w, w'; reflexivity. Qed.
Lemma queue_to_set_queue w s q : queue_to w (set_queue w s q) = q.
Proof. destruct w; reflexivity. Qed.

(* what one event does to the node of w *)
Definition step_node_fn (v : variant) (cs : cfgs) (s : pair) (e : ev) (w : who) : node :=
  let n := node_of w s in
  let c := cfg_of w cs in
  match e with
  | EStart w' => if who_eqb w w' then fst (sm_start n) else n
  | ESend _ | EDrop _ _ => n
  | EDeliver w' i =>
      if who_eqb w w' then
        match nth_error (queue_to w s) (i mod length (queue_to w s))%nat with
        | Some m => fst (handle_hb v c n m)
        | None => n
        end
      else n
  | EPeerLost w' => if who_eqb w w' then fst (handle_peer_lost n) else n
  | EIf w' k d => if who_eqb w w' then fst (handle_if v c n k d) else n
  | ESwLocal w' f => if who_eqb w w' then fst (switchover n f) else n
  | ESwRemote w' => if who_eqb w w' then fst (switchover n false) else n
  | ETouch w' i =>
      if who_eqb w w' then
        match nth_error (queue_to w s) (i mod length (queue_to w s))%nat with
        | Some m => set_pknown n (nonempty (h_id m))
        | None => n
        end
      else n
  | EStale _ _ => n
  end.

Lemma step_node v cs s e w : node_of w (fst (step v cs s e)) = step_node_fn v cs s e w.
Proof.
  unfold step, step_node_fn. destruct e as [w'|w'|w' i|w' i|w'|w' k d|w' f|w'|w' i|w' i].
  - destruct (sm_start (node_of w' s)) as [n t] eqn:E. cbn [fst]. rewrite node_of_set_node.
    destruct w, w'; cbn [who_eqb]; try reflexivity; now rewrite E.
  - cbn [fst]. now rewrite node_of_set_queue.
  - destruct w, w'; cbn [who_eqb];
      (destruct (nth_error _ _) as [m|]; [|reflexivity]);
      rewrite ?node_of_set_queue;
      match goal with |- context [handle_hb ?a ?b ?c ?d] => destruct (handle_hb a b c d) as [n t] eqn:E end;
      destruct (h_req m); cbn [fst]; rewrite ?node_of_set_queue, ?node_of_set_node; cbn [who_eqb];
      try reflexivity;
      destruct s; cbn in *; rewrite ?E; reflexivity.
  - destruct (queue_to w' s); cbn [fst]; [reflexivity | now rewrite node_of_set_queue].
  - destruct (handle_peer_lost (node_of w' s)) as [n t] eqn:E. cbn [fst]. rewrite node_of_set_node.
    destruct w, w'; cbn [who_eqb]; try reflexivity; now rewrite E.
  - destruct (handle_if v (cfg_of w' cs) (node_of w' s) k d) as [n t] eqn:E. cbn [fst]. rewrite node_of_set_node.
    destruct w, w'; cbn [who_eqb]; try reflexivity; now rewrite E.
  - destruct (switchover (node_of w' s) f) as [n t] eqn:E. cbn [fst]. rewrite node_of_set_node.
    destruct w, w'; cbn [who_eqb]; try reflexivity; now rewrite E.
  - destruct (switchover (node_of w' s) false) as [n t] eqn:E. cbn [fst]. rewrite node_of_set_node.
    destruct w, w'; cbn [who_eqb]; try reflexivity; now rewrite E.
  - destruct w, w'; cbn [who_eqb];
      (destruct (nth_error _ _) as [m|]; [|reflexivity]);
      destruct (h_req m); cbn [fst]; rewrite ?node_of_set_queue, ?node_of_set_node; cbn [who_eqb];
      rewrite ?node_of_set_queue; reflexivity.
  - destruct (nth_error _ _) as [m|]; [|reflexivity].
    destruct (h_req m); cbn [fst]; rewrite ?node_of_set_queue; reflexivity.
Qed.

(* ------------------------------------------------------------------ handlers, node level *)
Definition same_track (n n' : node) : Prop :=
  n_eff n' = n_eff n /\ n_cnt n' = n_cnt n /\ n_down n' = n_down n.

Lemma start_facts n :
  let n' := fst (sm_start n) in
  same_track n n' /\ n_pknown n' = n_pknown n /\
  n_st n' = match n_st n with Init => Waiting | s => s end.
Proof. destruct n as [st e p ps k c d]; destruct st; cbn; unfold same_track; cbn; auto. Qed.

Lemma switchover_facts n f :
  let n' := fst (switchover n f) in
  same_track n n' /\ n_pknown n' = n_pknown n /\
  n_st n' = match n_st n with
            | Active => Standby | Standby => Active
            | StandbyAlone => if f then Active else StandbyAlone
            | s => s end.
Proof. destruct n as [st e p ps k c d]; destruct st, f; cbn; unfold same_track; cbn; auto. Qed.

Lemma peer_lost_facts n :
  let n' := fst (handle_peer_lost n) in
  same_track n n' /\ n_pknown n' = false /\
  n_st n' = match n_st n with
            | Active => ActiveSolo
            | Standby => if 0 <? n_cnt n then ActiveSolo else StandbyAlone
            | Ready => Waiting
            | Waiting => ActiveSolo
            | s => s end.
Proof.
  destruct n as [st e p ps k c d]; destruct st; cbn; unfold same_track; cbn; auto.
  destruct (0 <? c); cbn; auto.
Qed.

Lemma hb_facts v c n m :
  let n' := fst (handle_hb v c n m) in
  same_track n n' /\ n_pknown n' = nonempty (h_id m).
Proof. cbn zeta. rewrite handle_hb_spec. unfold same_track; cbn; auto. Qed.

Lemma handle_if_eq v c n k d :
  handle_if v c n k d =
  if negb (tracked c k) then (n, []) else
  let n2 := adjust_or_skip c n (track_update v n k d) (if_delta c (track_update v n k d)) in
  if d && sst_eqb (n_st n2) StandbyAlone then tracker_promote n2 else (n2, []).
Proof. reflexivity. Qed.

Lemma adjust_or_skip_frame c n0 n1 delta :
  n_st (adjust_or_skip c n0 n1 delta) = n_st n1 /\ n_pknown (adjust_or_skip c n0 n1 delta) = n_pknown n1 /\
  n_cnt (adjust_or_skip c n0 n1 delta) = n_cnt n1 /\ n_down (adjust_or_skip c n0 n1 delta) = n_down n1.
Proof. unfold adjust_or_skip. destruct (c_coalesce c && (n_cnt n1 =? n_cnt n0)); cbn; auto. Qed.

Lemma track_update_st v n k d :
  n_st (track_update v n k d) = n_st n /\ n_pknown (track_update v n k d) = n_pknown n.
Proof.
  unfold track_update. destruct (fix_if v), (Bool.eqb d (mem_nat k (n_down n))), d, (0 <? n_cnt n); cbn; auto.
Qed.

Lemma if_facts v c n k d :
  let n' := fst (handle_if v c n k d) in
  n_pknown n' = n_pknown n /\
  n_st n' = (if tracked c k && d && sst_eqb (n_st n) StandbyAlone then ActiveSolo else n_st n) /\
  (tracked c k = false -> n' = n) /\
  (tracked c k = true ->
   let n1 := track_update v n k d in
   n_cnt n' = n_cnt n1 /\ n_down n' = n_down n1 /\
   n_eff n' = n_eff (adjust_or_skip c n n1 (if_delta c n1))).
Proof.
  cbn zeta. rewrite handle_if_eq. destruct (tracked c k); cbn [negb andb fst].
  2:{ repeat split; auto; discriminate. }
  destruct (track_update_st v n k d) as [Hs Hk].
  set (n1 := track_update v n k d) in *.
  destruct (adjust_or_skip_frame c n n1 (if_delta c n1)) as (F1 & F2 & F3 & F4).
  assert (Hst : n_st (adjust_or_skip c n n1 (if_delta c n1)) = n_st n) by (rewrite F1; exact Hs).
  assert (Hpk : n_pknown (adjust_or_skip c n n1 (if_delta c n1)) = n_pknown n) by (rewrite F2; exact Hk).
  rewrite Hst. destruct d; cbn [andb].
  - destruct (n_st n) eqn:E; cbn [sst_eqb];
      unfold tracker_promote; rewrite ?Hst; cbn [fst];
      try (repeat split; auto; discriminate).
    unfold transition_to. rewrite Hst. cbn. repeat split; auto; discriminate.
  - cbn [fst]. repeat split; auto; discriminate.
Qed.

(* ------------------------------------------------------------------ reachable nodes are well formed *)
(* fs = fix_sa: with it STANDBY_ALONE may know its peer (a heartbeat for another group of the Manager, or
   interleaved calls, can produce that) because handlePeerHeartbeat re-discovers from STANDBY_ALONE anyway *)
Definition wf_node (fs : bool) (n : node) : bool :=
  negb (sst_eqb (n_st n) Ready) && (fs || negb (sst_eqb (n_st n) StandbyAlone && n_pknown n)).

Definition is_touch (e : ev) : bool := match e with ETouch _ _ => true | _ => false end.
Definition no_touch (es : list ev) : bool := forallb (fun e => negb (is_touch e)) es.

Lemma hb_core_wf v pre k st mst w :
  negb (sst_eqb st Ready) && (fix_sa v || negb (sst_eqb st StandbyAlone && k)) = true ->
  let s' := hb_core v pre (negb k) st mst w in
  sst_eqb s' Ready = false /\ sst_eqb s' StandbyAlone = false.
Proof.
  destruct v as [fh fi ff fs fa]. destruct st, k, fs; cbn; try discriminate; intros _;
    destruct pre, fh, ff, mst, w; cbn; auto.
Qed.

Lemma step_wf v cs s e w :
  fix_sa v = true \/ is_touch e = false ->
  wf_node (fix_sa v) (node_of w s) = true -> wf_node (fix_sa v) (step_node_fn v cs s e w) = true.
Proof.
  intros Ht H. unfold step_node_fn.
  destruct e as [w'|w'|w' i|w' i|w'|w' k d|w' f|w'|w' i|w' i]; try exact H; destruct (who_eqb w w'); try exact H.
  - destruct (start_facts (node_of w s)) as (_ & Hk & Hs). unfold wf_node in *. rewrite Hk, Hs.
    destruct (n_st (node_of w s)); cbn in *; auto.
  - destruct (nth_error _ _) as [m|]; [|exact H]. rewrite handle_hb_spec. unfold wf_node in *. cbn [n_st n_pknown].
    destruct (hb_core_wf v (c_preempt (cfg_of w cs)) (n_pknown (node_of w s)) (n_st (node_of w s)) (h_st m)
                (wins_raw (c_id (cfg_of w cs)) (n_eff (node_of w s)) (h_prio m) (h_id m)) H) as [E1 E2].
    cbn zeta in E1, E2. rewrite E1, E2. cbn. now rewrite Bool.orb_true_r.
  - destruct (peer_lost_facts (node_of w s)) as (_ & Hk & Hs). unfold wf_node in *. rewrite Hk, Hs.
    rewrite Bool.andb_false_r. cbn [negb]. rewrite Bool.orb_true_r, Bool.andb_true_r.
    destruct (n_st (node_of w s)); cbn in *; auto; try discriminate.
    destruct (0 <? n_cnt (node_of w s)); reflexivity.
  - destruct (if_facts v (cfg_of w cs) (node_of w s) k d) as (Hk & Hs & _). unfold wf_node in *. rewrite Hk, Hs.
    destruct (tracked (cfg_of w cs) k && d && sst_eqb (n_st (node_of w s)) StandbyAlone);
      [cbn; now rewrite Bool.orb_true_r | exact H].
  - destruct (switchover_facts (node_of w s) f) as (_ & Hk & Hs). unfold wf_node in *. rewrite Hk, Hs.
    destruct (n_st (node_of w s)), f, (fix_sa v), (n_pknown (node_of w s)); cbn in *; auto.
  - destruct (switchover_facts (node_of w s) false) as (_ & Hk & Hs). unfold wf_node in *. rewrite Hk, Hs.
    destruct (n_st (node_of w s)), (fix_sa v), (n_pknown (node_of w s)); cbn in *; auto.
  - destruct Ht as [Ht | Ht]; [|discriminate Ht].
    destruct (nth_error _ _) as [m|]; [|exact H]. unfold wf_node in *. rewrite Ht in *. cbn [n_st set_pknown] in *.
    cbn [orb] in *. exact H.
Qed.

Lemma run_wf v cs es w :
  fix_sa v = true \/ no_touch es = true ->
  wf_node (fix_sa v) (node_of w (run v cs (init_pair cs) es)) = true.
Proof.
  induction es as [|e es IH] using rev_ind; intros Ht.
  - destruct w; cbn; now rewrite Bool.orb_true_r.
  - rewrite run_snoc, step_node. apply step_wf.
    + destruct Ht as [Ht|Ht]; [now left | right]. unfold no_touch in Ht. rewrite forallb_app in Ht.
      apply andb_prop in Ht. destruct Ht as [_ Ht]. cbn in Ht. rewrite Bool.andb_true_r in Ht.
      now apply Bool.negb_true_iff in Ht.
    + apply IH. destruct Ht as [Ht|Ht]; [now left | right]. unfold no_touch in *. rewrite forallb_app in Ht.
      apply andb_prop in Ht. tauto.
Qed.

Lemma hb_core_not_ready v pre first st mst w : st <> Ready -> hb_core v pre first st mst w <> Ready.
Proof.
  destruct v as [fh fi ff fs fa]. intros H.
  destruct st; try congruence; destruct first, pre, fh, ff, fs, mst, w; cbn; discriminate.
Qed.

Lemma coarse_not_ready v cs p e w :
  n_st (node_of w p) <> Ready -> n_st (step_node_fn v cs p e w) <> Ready.
Proof.
  intros H. unfold step_node_fn.
  destruct e as [w'|w'|w' i|w' i|w'|w' k d|w' f|w'|w' i|w' i]; try exact H; destruct (who_eqb w w'); try exact H.
  - destruct (start_facts (node_of w p)) as (_ & _ & Hs). rewrite Hs. destruct (n_st (node_of w p)); congruence.
  - destruct (nth_error _ _) as [m|]; [|exact H]. rewrite handle_hb_spec. cbn [n_st]. now apply hb_core_not_ready.
  - destruct (peer_lost_facts (node_of w p)) as (_ & _ & Hs). rewrite Hs.
    destruct (n_st (node_of w p)); try congruence. destruct (0 <? _); discriminate.
  - destruct (if_facts v (cfg_of w cs) (node_of w p) k d) as (_ & Hs & _). rewrite Hs.
    destruct (_ && _ && _); [discriminate | exact H].
  - destruct (switchover_facts (node_of w p) f) as (_ & _ & Hs). rewrite Hs.
    destruct (n_st (node_of w p)), f; congruence.
  - destruct (switchover_facts (node_of w p) false) as (_ & _ & Hs). rewrite Hs.
    destruct (n_st (node_of w p)); congruence.
  - destruct (nth_error _ _) as [m|]; exact H.
Qed.

(* READY is never observable between two (atomic) calls: every variant, also with heartbeats for other groups *)
Lemma ready_is_transient v cs es w : n_st (node_of w (run v cs (init_pair cs) es)) <> Ready.
Proof.
  induction es as [|e es IH] using rev_ind.
  - destruct w; cbn; discriminate.
  - rewrite run_snoc, step_node. now apply coarse_not_ready.
Qed.

Lemma run_started_ok v cs es w :
  fix_sa v = true \/ no_touch es = true ->
  n_st (node_of w (run v cs (init_pair cs) es)) <> Init -> n_ok v (node_of w (run v cs (init_pair cs) es)) = true.
Proof.
  intros Ht. pose proof (run_wf v cs es w Ht) as H. unfold wf_node, n_ok, pre_ok, okn in *. intros Hi.
  destruct (fix_sa v), (n_st _); cbn in *; try congruence; auto.
Qed.

(* ------------------------------------------------------------------ interface tracking *)
Definition b2z (b : bool) : Z := if b then 1 else 0.

Lemma down_after_snoc w k es : forall e cur,
  down_after w k (es ++ [e]) cur =
  match e with
  | EIf w' k' d => if who_eqb w w' && Nat.eqb k k' then d else down_after w k es cur
  | _ => down_after w k es cur
  end.
Proof.
  induction es as [|x r IH]; intros e cur.
  - destruct e; reflexivity.
  - cbn [app down_after]. destruct x; apply IH.
Qed.

Lemma count_down_bounds w es n : 0 <= count_down w es n <= Z.of_nat n.
Proof. induction n; cbn [count_down]; [lia|]. destruct (down_after w n es false); lia. Qed.

Lemma count_down_nil w n : count_down w [] n = 0.
Proof. induction n; cbn; auto. Qed.

Lemma count_down_ext w es1 es2 n :
  (forall k, (k < n)%nat -> down_after w k es1 false = down_after w k es2 false) ->
  count_down w es1 n = count_down w es2 n.
Proof.
  induction n; intros H; cbn [count_down]; [reflexivity|].
  rewrite (H n) by lia. rewrite IHn; [reflexivity|]. intros k Hk; apply H; lia.
Qed.

Lemma count_down_snoc_if w es k d n :
  count_down w (es ++ [EIf w k d]) n =
  count_down w es n + (if (k <? n)%nat then b2z d - b2z (down_after w k es false) else 0).
Proof.
  induction n; cbn [count_down]; [reflexivity|].
  rewrite IHn, down_after_snoc. replace (who_eqb w w) with true by (destruct w; reflexivity). cbn [andb].
  destruct (Nat.eqb_spec n k) as [E|E].
  - subst k. replace (n <? S n)%nat with true by (symmetry; apply Nat.ltb_lt; lia).
    replace (n <? n)%nat with false by (symmetry; apply Nat.ltb_ge; lia).
    destruct d, (down_after w n es false); cbn [b2z]; lia.
  - destruct (Nat.ltb_spec k n), (Nat.ltb_spec k (S n)); try lia.
Qed.

Lemma i32_id z : -2147483648 <= z < 2147483648 -> i32 z = z.
Proof. intros H. unfold i32. rewrite Z.mod_small by lia. lia. Qed.

Lemma mem_nat_cons k x l : mem_nat k (x :: l) = Nat.eqb k x || mem_nat k l.
Proof. reflexivity. Qed.
Lemma mem_nat_remove k x l : mem_nat k (remove_nat x l) = negb (Nat.eqb x k) && mem_nat k l.
Proof.
  unfold mem_nat, remove_nat.
  induction l as [|y r IH]; cbn [filter existsb]; [now rewrite Bool.andb_false_r|].
  destruct (Nat.eqb_spec x y) as [E|E]; cbn [negb existsb]; rewrite IH.
  - subst y. destruct (Nat.eqb_spec k x), (Nat.eqb_spec x k); cbn; try reflexivity; lia.
  - destruct (Nat.eqb_spec k y), (Nat.eqb_spec x k); cbn; try reflexivity; lia.
Qed.

Definition spec_cnt (c : cfg) (w : who) (es : list ev) : Z :=
  if c_dec c =? 0 then 0 else count_down w es (c_nifs c).

(* the configuration does not overflow the int32 arithmetic of handleInterfaceEvent *)
Definition cfg_small (c : cfg) : Prop :=
  0 <= c_prio c < 2147483648 /\ 0 <= c_dec c /\ c_dec c * Z.of_nat (c_nifs c) < 2147483648.

Definition track_inv (c : cfg) (w : who) (es : list ev) (n : node) : Prop :=
  (forall k, mem_nat k (n_down n) = tracked c k && down_after w k es false) /\
  n_cnt n = spec_cnt c w es /\ n_eff n = spec_eff c w es.

Lemma spec_eff_cnt c w es :
  spec_eff c w es = if c_dec c =? 0 then c_prio c else Z.max 0 (c_prio c - c_dec c * spec_cnt c w es).
Proof. unfold spec_eff, spec_cnt. destruct (c_dec c =? 0); reflexivity. Qed.

Lemma track_inv_frame c w es e n n' :
  (forall k d, e <> EIf w k d) -> same_track n n' ->
  track_inv c w es n -> track_inv c w (es ++ [e]) n'.
Proof.
  intros Hne (He & Hc & Hd) (I1 & I2 & I3).
  assert (Hda : forall k, down_after w k (es ++ [e]) false = down_after w k es false).
  { intros k. rewrite down_after_snoc. destruct e; try reflexivity.
    destruct (who_eqb w w0) eqn:Ew; [|reflexivity].
    destruct (Nat.eqb_spec k k0); [|reflexivity]. subst. exfalso. apply (Hne k0 down).
    destruct w, w0; try discriminate Ew; reflexivity. }
  assert (Hcd : count_down w (es ++ [e]) (c_nifs c) = count_down w es (c_nifs c))
    by (apply count_down_ext; intros; apply Hda).
  unfold track_inv. rewrite He, Hc, Hd. repeat split.
  - intros k. rewrite Hda. apply I1.
  - rewrite I2. unfold spec_cnt. now rewrite Hcd.
  - rewrite I3. unfold spec_eff. now rewrite Hcd.
Qed.

Lemma who_eqb_refl w : who_eqb w w = true.
Proof. destruct w; reflexivity. Qed.

Lemma cfg_small_b c : cfg_small c -> cfg_smallb c = true.
Proof.
  intros ((H1 & H2) & H3 & H4). unfold cfg_smallb.
  destruct (Z.leb_spec 0 (c_prio c)); [|lia]. destruct (Z.ltb_spec (c_prio c) 2147483648); [|lia].
  destruct (Z.leb_spec 0 (c_dec c)); [|lia].
  destruct (Z.ltb_spec (c_dec c * Z.of_nat (c_nifs c)) 2147483648); [reflexivity | lia].
Qed.

Lemma adjust_small c n cnt :
  cfg_small c -> c_dec c <> 0 -> (1 <= c_nifs c)%nat -> 0 <= cnt <= Z.of_nat (c_nifs c) -> n_cnt n = cnt ->
  n_eff (adjust_priority c n (if_delta c n)) = Z.max 0 (c_prio c - c_dec c * cnt).
Proof.
  intros Hsm Hnz Hnif Hc Hn. unfold adjust_priority, if_delta. cbn [n_eff set_eff].
  rewrite (cfg_small_b c Hsm). destruct Hsm as (Hp & Hd & Hm). rewrite Hn.
  assert (Hn1 : 1 <= Z.of_nat (c_nifs c)) by lia.
  assert (Hdn : c_dec c * 1 <= c_dec c * Z.of_nat (c_nifs c)) by (apply Z.mul_le_mono_nonneg_l; lia).
  assert (Hdc : c_dec c * cnt <= c_dec c * Z.of_nat (c_nifs c)) by (apply Z.mul_le_mono_nonneg_l; lia).
  assert (Hdc0 : 0 <= c_dec c * cnt) by (apply Z.mul_nonneg_nonneg; lia).
  assert (Hnn : 1 * Z.of_nat (c_nifs c) <= c_dec c * Z.of_nat (c_nifs c)) by (apply Z.mul_le_mono_nonneg_r; lia).
  rewrite (i32_id (c_dec c)) by lia. rewrite (i32_id (- c_dec c)) by lia.
  rewrite (i32_id cnt) by lia.
  replace (- c_dec c * cnt) with (- (c_dec c * cnt)) by ring.
  rewrite (i32_id (- (c_dec c * cnt))) by lia. rewrite (i32_id (c_prio c)) by lia.
  rewrite (i32_id (c_prio c + - (c_dec c * cnt))) by lia.
  destruct (Z.ltb_spec (c_prio c + - (c_dec c * cnt)) 0); lia.
Qed.

Lemma track_inv_if v c w es n k d :
  fix_if v = true -> cfg_small c ->
  track_inv c w es n -> track_inv c w (es ++ [EIf w k d]) (fst (handle_if v c n k d)).
Proof.
  intros Hf Hsm (I1 & I2 & I3).
  assert (Hda : forall k', down_after w k' (es ++ [EIf w k d]) false =
                           if Nat.eqb k' k then d else down_after w k' es false).
  { intros k'. rewrite down_after_snoc, who_eqb_refl. reflexivity. }
  destruct (if_facts v c n k d) as (_ & _ & Hun & Htr). cbn zeta in *.
  destruct (tracked c k) eqn:T.
  - (* tracked interface *)
    destruct (Htr eq_refl) as (Hc & Hd & He). clear Hun Htr.
    assert (Hdec : c_dec c <> 0).
    { unfold tracked in T. destruct (Z.eqb_spec (c_dec c) 0); [discriminate T | assumption]. }
    assert (Hk : (k < c_nifs c)%nat).
    { unfold tracked in T. apply andb_prop in T. destruct T as [_ T]. now apply Nat.ltb_lt. }
    pose proof (I1 k) as Hmem. rewrite T in Hmem. cbn [andb] in Hmem.
    set (was := down_after w k es false) in *.
    assert (Hcnt1 : n_cnt (track_update v n k d) = spec_cnt c w (es ++ [EIf w k d])).
    { unfold spec_cnt in *. destruct (Z.eqb_spec (c_dec c) 0); [contradiction|].
      rewrite count_down_snoc_if. replace (k <? c_nifs c)%nat with true by (symmetry; now apply Nat.ltb_lt).
      fold was. unfold track_update. rewrite Hf, Hmem.
      destruct d, was; cbn [Bool.eqb set_track n_cnt b2z]; lia. }
    assert (Hdn1 : forall k', mem_nat k' (n_down (track_update v n k d)) =
                              tracked c k' && (if Nat.eqb k' k then d else down_after w k' es false)).
    { intros k'. unfold track_update. rewrite Hf, Hmem.
      destruct (Nat.eqb_spec k' k) as [E|E].
      - subst k'. rewrite T. cbn [andb].
        destruct d, was eqn:Ew; cbn [Bool.eqb set_track n_down]; try exact Hmem.
        + rewrite mem_nat_cons, Nat.eqb_refl. reflexivity.
        + rewrite mem_nat_remove, Nat.eqb_refl. reflexivity.
      - destruct d, was eqn:Ew; cbn [Bool.eqb set_track n_down]; try apply I1.
        + rewrite mem_nat_cons. destruct (Nat.eqb_spec k' k); [contradiction|]. cbn [orb]. apply I1.
        + rewrite mem_nat_remove. destruct (Nat.eqb_spec k k'); [congruence|]. cbn [negb andb]. apply I1. }
    unfold track_inv. repeat split.
    + intros k'. rewrite Hd, Hda. apply Hdn1.
    + now rewrite Hc.
    + rewrite He. unfold adjust_or_skip.
      destruct (c_coalesce c && (n_cnt (track_update v n k d) =? n_cnt n)) eqn:Q.
      * (* coalesced: the count did not move, neither does the specification *)
        apply andb_prop in Q. destruct Q as [_ Q]. apply Z.eqb_eq in Q.
        assert (Heff : n_eff (track_update v n k d) = n_eff n).
        { unfold track_update. destruct (fix_if v), (Bool.eqb d (mem_nat k (n_down n))), d, (0 <? n_cnt n); reflexivity. }
        rewrite Heff, I3, !spec_eff_cnt. now rewrite <- Hcnt1, Q, I2.
      * rewrite spec_eff_cnt. destruct (Z.eqb_spec (c_dec c) 0); [contradiction|].
        apply adjust_small; auto; [lia|].
        unfold spec_cnt. destruct (c_dec c =? 0); [lia|].
        apply count_down_bounds.
  - (* untracked interface: ignored *)
    rewrite (Hun eq_refl). clear Hun Htr.
    assert (Hcd : spec_cnt c w (es ++ [EIf w k d]) = spec_cnt c w es).
    { unfold spec_cnt. destruct (Z.eqb_spec (c_dec c) 0); [reflexivity|].
      rewrite count_down_snoc_if.
      unfold tracked in T. destruct (Z.eqb_spec (c_dec c) 0); [contradiction|]. cbn [negb andb] in T.
      rewrite T. lia. }
    unfold track_inv. repeat split.
    + intros k'. rewrite Hda. destruct (Nat.eqb_spec k' k) as [E|E]; [|apply I1].
      subst k'. rewrite T. cbn [andb]. rewrite I1, T. reflexivity.
    + now rewrite Hcd.
    + rewrite I3, !spec_eff_cnt, Hcd. reflexivity.
Qed.

Lemma track_inv_init c w : 0 <= c_prio c -> track_inv c w [] (init_node c).
Proof.
  intros Hp. unfold track_inv, init_node, spec_cnt, spec_eff. cbn [n_down n_cnt n_eff mem_nat existsb down_after].
  rewrite count_down_nil. repeat split.
  - intros k. now rewrite Bool.andb_false_r.
  - destruct (c_dec c =? 0); reflexivity.
  - destruct (c_dec c =? 0); lia.
Qed.

Lemma run_track_inv v cs w es :
  fix_if v = true -> cfg_small (cfg_of w cs) ->
  track_inv (cfg_of w cs) w es (node_of w (run v cs (init_pair cs) es)).
Proof.
  intros Hf Hsm. induction es as [|e es IH] using rev_ind.
  - destruct w; cbn [run node_of init_pair p_a p_b cfg_of] in *; apply track_inv_init; destruct Hsm; lia.
  - rewrite run_snoc, step_node. set (s := run v cs (init_pair cs) es) in *.
    unfold step_node_fn.
    destruct e as [w'|w'|w' i|w' i|w'|w' k d|w' f|w'|w' i|w' i].
    + apply track_inv_frame with (n := node_of w s); [discriminate| |exact IH].
      destruct (who_eqb w w'); [apply start_facts | unfold same_track; auto].
    + apply track_inv_frame with (n := node_of w s); [discriminate|unfold same_track; auto|exact IH].
    + apply track_inv_frame with (n := node_of w s); [discriminate| |exact IH].
      destruct (who_eqb w w'); [|unfold same_track; auto].
      destruct (nth_error _ _); [apply hb_facts | unfold same_track; auto].
    + apply track_inv_frame with (n := node_of w s); [discriminate|unfold same_track; auto|exact IH].
    + apply track_inv_frame with (n := node_of w s); [discriminate| |exact IH].
      destruct (who_eqb w w'); [apply peer_lost_facts | unfold same_track; auto].
    + destruct (who_eqb w w') eqn:Ew.
      * assert (w' = w) by (destruct w, w'; try discriminate Ew; reflexivity). subst w'.
        apply track_inv_if; assumption.
      * apply track_inv_frame with (n := node_of w s); [|unfold same_track; auto|exact IH].
        intros k' d' E. inversion E; subst. rewrite who_eqb_refl in Ew. discriminate Ew.
    + apply track_inv_frame with (n := node_of w s); [discriminate| |exact IH].
      destruct (who_eqb w w'); [apply switchover_facts | unfold same_track; auto].
    + apply track_inv_frame with (n := node_of w s); [discriminate| |exact IH].
      destruct (who_eqb w w'); [apply switchover_facts | unfold same_track; auto].
    + apply track_inv_frame with (n := node_of w s); [discriminate| |exact IH].
      destruct (who_eqb w w'); [|unfold same_track; auto].
      destruct (nth_error _ _); unfold same_track; auto.
    + apply track_inv_frame with (n := node_of w s); [discriminate|unfold same_track; auto|exact IH].
Qed.

Lemma effective_priority v cs w es :
  fix_if v = true -> cfg_small (cfg_of w cs) ->
  n_eff (node_of w (run v cs (init_pair cs) es)) = spec_eff (cfg_of w cs) w es.
Proof. intros Hf Hsm. apply (run_track_inv v cs w es Hf Hsm). Qed.

(* ------------------------------------------------------------------ no self promotion *)
Lemma who_eqb_true w w' : who_eqb w w' = true -> w' = w.
Proof. destruct w, w'; intros H; try discriminate H; reflexivity. Qed.

(* a heartbeat makes a STANDBY / STANDBY_ALONE group active only when it wins the election against the
   priority carried by THAT heartbeat (and, from STANDBY, only with preempt or against a STANDBY peer) *)
Lemma hb_core_promotes v pre first st mst w :
  st = Standby \/ st = StandbyAlone -> is_active (hb_core v pre first st mst w) = true ->
  w = true /\ (st = Standby -> pre = true \/ (fix_hb v = true /\ mst = Standby)).
Proof.
  destruct v as [fh fi ff fs fa]. intros [-> | ->]; destruct first, pre, fh, ff, fs, mst, w; cbn;
    intros H; try discriminate H; split; auto; intros; try discriminate; auto.
Qed.

Definition promotion_cause (v : variant) (cs : cfgs) (s : pair) (w : who) (e : ev) : Prop :=
  let st := n_st (node_of w s) in
  match e with
  | ESwLocal w' f => w' = w /\ (st = StandbyAlone -> f = true)
  | ESwRemote w' => w' = w /\ st = Standby
  | EIf w' k d => w' = w /\ d = true /\ tracked (cfg_of w cs) k = true /\ st = StandbyAlone
  | EPeerLost w' => w' = w /\ st = Standby /\ 0 < n_cnt (node_of w s)
  | EDeliver w' i =>
      w' = w /\ exists m, nth_error (queue_to w s) (i mod length (queue_to w s))%nat = Some m /\
                         wins_raw (c_id (cfg_of w cs)) (n_eff (node_of w s)) (h_prio m) (h_id m) = true /\
                         (st = Standby -> c_preempt (cfg_of w cs) = true \/ (fix_hb v = true /\ h_st m = Standby))
  | _ => False
  end.

Lemma promotion_justified v cs s e w :
  (n_st (node_of w s) = Standby \/ n_st (node_of w s) = StandbyAlone) ->
  is_active (n_st (node_of w (fst (step v cs s e)))) = true ->
  promotion_cause v cs s w e.
Proof.
  rewrite step_node. intros Hst Hact.
  assert (Hna : is_active (n_st (node_of w s)) = false) by (destruct Hst as [E|E]; rewrite E; reflexivity).
  unfold step_node_fn in Hact. unfold promotion_cause.
  destruct e as [w'|w'|w' i|w' i|w'|w' k d|w' f|w'|w' i|w' i]; try congruence;
    (destruct (who_eqb w w') eqn:Ew; [apply who_eqb_true in Ew; subst w' | congruence]).
  - destruct (start_facts (node_of w s)) as (_ & _ & Hs). rewrite Hs in Hact.
    destruct Hst as [E|E]; rewrite E in Hact; discriminate Hact.
  - split; [reflexivity|].
    destruct (nth_error (queue_to w s) (i mod length (queue_to w s))%nat) as [m|]; [|congruence].
    exists m. split; [reflexivity|]. rewrite handle_hb_spec in Hact. cbn [n_st] in Hact.
    apply (hb_core_promotes _ _ _ _ _ _ Hst Hact).
  - destruct (peer_lost_facts (node_of w s)) as (_ & _ & Hs). rewrite Hs in Hact.
    destruct Hst as [E|E]; rewrite E in Hact; [|discriminate Hact].
    split; [reflexivity|]. split; [exact E|].
    destruct (Z.ltb_spec 0 (n_cnt (node_of w s))); [assumption | discriminate Hact].
  - destruct (if_facts v (cfg_of w cs) (node_of w s) k d) as (_ & Hs & _). rewrite Hs in Hact.
    destruct (tracked (cfg_of w cs) k), d; cbn [andb] in Hact; try congruence.
    destruct Hst as [E|E]; rewrite E in Hact; cbn in Hact; [discriminate Hact|]. auto.
  - destruct (switchover_facts (node_of w s) f) as (_ & _ & Hs). rewrite Hs in Hact.
    split; [reflexivity|]. intros E. rewrite E in Hact. destruct f; [reflexivity | discriminate Hact].
  - destruct (switchover_facts (node_of w s) false) as (_ & _ & Hs). rewrite Hs in Hact.
    split; [reflexivity|]. destruct Hst as [E|E]; [exact E|]. rewrite E in Hact. discriminate Hact.
  - destruct (nth_error _ _); cbn [n_st set_pknown] in Hact; congruence.
Qed.

(* a STANDBY node that loses its peer: STANDBY_ALONE, or ACTIVE_SOLO when a tracked interface is down *)
Lemma standby_peer_lost v cs s w :
  n_st (node_of w s) = Standby ->
  n_st (node_of w (fst (step v cs s (EPeerLost w)))) =
  if 0 <? n_cnt (node_of w s) then ActiveSolo else StandbyAlone.
Proof.
  intros E. rewrite step_node. unfold step_node_fn. rewrite who_eqb_refl.
  destruct (peer_lost_facts (node_of w s)) as (_ & _ & Hs). now rewrite Hs, E.
Qed.

Lemma cnt_is_down_interfaces v cs w es :
  fix_if v = true -> cfg_small (cfg_of w cs) ->
  n_cnt (node_of w (run v cs (init_pair cs) es)) = spec_cnt (cfg_of w cs) w es.
Proof. intros Hf Hsm. apply (run_track_inv v cs w es Hf Hsm). Qed.

(* ------------------------------------------------------------------ an exchange is three events *)
Lemma xchg_is_events v cs w s :
  q_a s = [] -> q_b s = [] ->
  let s' := run v cs s [ESend w; EDeliver (other w) 0; EDeliver w 0] in
  (p_a s', p_b s') = xchg v cs w (p_a s, p_b s) /\ q_a s' = [] /\ q_b s' = [].
Proof.
  destruct s as [a b qa qb], cs as [ca cb]. cbn [q_a q_b p_a p_b]. intros -> ->.
  destruct w; cbn -[handle_hb].
  - destruct (handle_hb v cb b _) as [b' tb] eqn:Eb. cbn -[handle_hb].
    destruct (handle_hb v ca a _) as [a' ta] eqn:Ea. cbn. auto.
  - destruct (handle_hb v ca a _) as [a' ta] eqn:Ea. cbn -[handle_hb].
    destruct (handle_hb v cb b _) as [b' tb] eqn:Eb. cbn. auto.
Qed.

Lemma standby_peer_lost_spec v cs es w :
  fix_if v = true -> cfg_small (cfg_of w cs) ->
  let s := run v cs (init_pair cs) es in
  n_st (node_of w s) = Standby ->
  n_st (node_of w (fst (step v cs s (EPeerLost w)))) =
  if 0 <? spec_cnt (cfg_of w cs) w es then ActiveSolo else StandbyAlone.
Proof.
  intros Hf Hsm s E. rewrite (standby_peer_lost v cs s w E). unfold s.
  now rewrite (cnt_is_down_interfaces v cs w es Hf Hsm).
Qed.

Lemma no_self_promotion_run v cs es e w :
  let s := run v cs (init_pair cs) es in
  (n_st (node_of w s) = Standby \/ n_st (node_of w s) = StandbyAlone) ->
  is_active (n_st (node_of w (fst (step v cs s e)))) = true ->
  promotion_cause v cs s w e.
Proof. intros s. apply promotion_justified. Qed.

Lemma converges_run v cs es w1 w2 w3 :
  fix_hb v = true -> ids_ok cs -> fix_sa v = true \/ no_touch es = true ->
  let s := run v cs (init_pair cs) es in
  n_st (p_a s) <> Init -> n_st (p_b s) <> Init ->
  let r := xchgs v cs [w1; w2; w3] (p_a s, p_b s) in
  pair_one_active r = true /\ absn (xchg v cs A r) = absn r /\ absn (xchg v cs B r) = absn r.
Proof.
  intros Hf Hne Ht s Ha Hb. apply converges; auto.
  - apply (run_started_ok v cs es A Ht Ha).
  - apply (run_started_ok v cs es B Ht Hb).
Qed.

(* ------------------------------------------------------------------ stale views *)
(* whatever each side believed before (stale, never heard, ...): after ONE fresh exchange both hold the
   other's current priority, so the antisymmetry hypotheses hold and exactly one of them wins *)
Lemma exchange_refreshes_views v cs w a b :
  let r := xchg v cs w (a, b) in
  n_eff (fst r) = n_eff a /\ n_eff (snd r) = n_eff b /\
  n_pprio (fst r) = n_eff (snd r) /\ n_pprio (snd r) = n_eff (fst r).
Proof.
  destruct cs as [ca cb]. unfold xchg, snapshot. destruct w; rewrite !handle_hb_spec; cbn; auto.
Qed.

Lemma antisym_after_exchange v cs w a b :
  c_id (fst cs) <> c_id (snd cs) ->
  let r := xchg v cs w (a, b) in
  wins (fst cs) (fst r) (c_id (snd cs)) = negb (wins (snd cs) (snd r) (c_id (fst cs))).
Proof.
  intros Hne r. destruct (exchange_refreshes_views v cs w a b) as (_ & _ & H1 & H2).
  apply wins_antisym; assumption.
Qed.

(* ------------------------------------------------------------------ staleness filter (Stale.v) *)
From OV Require Import C10.Stale.

(* whatever the filter lets through to a handler was built after the receiver's last peer-loss detection
   (fix_sl) and is not older than anything handled since (fix_so) *)
Lemma sdecide_sound f t p e w i :
  (fst (sdecide f t p e) = EDeliver w i \/ fst (sdecide f t p e) = ETouch w i) ->
  (e = EDeliver w i \/ e = ETouch w i) /\
  forall tag, nth_error (tags_to w t) (i mod length (queue_to w p))%nat = Some tag ->
    (fix_sl f = true -> (lost_of w t < tag)%nat) /\ (fix_so f = true -> (last_of w t <= tag)%nat).
Proof.
  assert (Htags : forall x, tags_to x (tick t) = tags_to x t) by (destruct x; reflexivity).
  assert (Hlost : forall x, lost_of x (tick t) = lost_of x t) by (destruct x; reflexivity).
  assert (Hlast : forall x, last_of x (tick t) = last_of x t) by (destruct x; reflexivity).
  unfold sdecide. destruct e as [w'|w'|w' j|w' j|w'|w' k d|w' g|w'|w' j|w' j]; cbn [fst];
    try (intros [H|H]; discriminate H).
  - rewrite Htags. destruct (nth_error (tags_to w' t) _) as [tag|] eqn:E.
    + destruct (is_stale f (tick t) w' tag) eqn:S; cbn [fst]; intros [H|H]; inversion H; subst.
      split; [now left|]. intros tag' E'. rewrite E in E'. inversion E'; subst tag'.
      unfold is_stale in S. rewrite Hlost, Hlast in S. apply Bool.orb_false_iff in S. destruct S as [S1 S2].
      split; intros Hf; rewrite Hf in *; cbn [andb] in *.
      * apply Nat.leb_gt in S2. exact S2.
      * apply Nat.ltb_ge in S1. exact S1.
    + cbn [fst]. intros [H|H]; inversion H; subst. split; [now left|]. intros tag' E'. rewrite E in E'. discriminate E'.
  - rewrite Htags. destruct (nth_error (tags_to w' t) _) as [tag|] eqn:E.
    + destruct (is_stale f (tick t) w' tag) eqn:S; cbn [fst]; intros [H|H]; inversion H; subst.
      split; [now right|]. intros tag' E'. rewrite E in E'. inversion E'; subst tag'.
      unfold is_stale in S. rewrite Hlost, Hlast in S. apply Bool.orb_false_iff in S. destruct S as [S1 S2].
      split; intros Hf; rewrite Hf in *; cbn [andb] in *.
      * apply Nat.leb_gt in S2. exact S2.
      * apply Nat.ltb_ge in S1. exact S1.
    + cbn [fst]. intros [H|H]; inversion H; subst. split; [now right|]. intros tag' E'. rewrite E in E'. discriminate E'.
Qed.

(* the wrapped int32 computation of /repo d2827a3 is one admissible overflow policy *)
Lemma head_overflow_policy c n :
  c_over c = over_int32 (c_prio c) (c_dec c) ->
  n_eff (adjust_priority c n (if_delta c n)) = over_int32 (c_prio c) (c_dec c) (n_cnt n).
Proof.
  intros H. unfold adjust_priority, if_delta, over_int32. cbn [n_eff set_eff].
  destruct (cfg_smallb c); [reflexivity|]. rewrite H. reflexivity.
Qed.

(* ------------------------------------------------------------------ timer ticks (Timer.v) *)
From OV Require Import C10.Timer.

Lemma tick_calls_le2 i st : (tick_calls i st <= 2)%nat.
Proof. unfold tick_calls. destruct (t_conn i), (t_upexp i), (t_hbold i), (t_skew i), (sst_eqb st Waiting || t_otherw i); cbn; lia. Qed.

(* a connected peer with a recent heartbeat and a tolerable clock skew: the tick does nothing *)
Lemma tick_quiet v cs s w i :
  t_conn i = true -> t_hbold i = false -> t_skew i = false -> run_tick v cs s w i = s.
Proof. intros H1 H2 H3. unfold run_tick, tick_events, tick_calls. now rewrite H1, H2, H3. Qed.

Lemma peer_lost_step v cs s w :
  node_of w (fst (step v cs s (EPeerLost w))) = fst (handle_peer_lost (node_of w s)).
Proof. rewrite step_node. unfold step_node_fn. now rewrite who_eqb_refl. Qed.

(* start-up: a WAITING group whose peer never connected comes up alone exactly when the timeout has expired *)
Lemma tick_startup v cs s w i :
  n_st (node_of w s) = Waiting -> t_conn i = false ->
  n_st (node_of w (run_tick v cs s w i)) = if t_upexp i then ActiveSolo else Waiting.
Proof.
  intros Hst Hc. unfold run_tick, tick_events, tick_calls. rewrite Hc, Hst. cbn [negb sst_eqb orb andb].
  destruct (t_upexp i); cbn [andb repeat run]; [|exact Hst].
  rewrite peer_lost_step. destruct (peer_lost_facts (node_of w s)) as (_ & _ & H). now rewrite H, Hst.
Qed.

(* no tick, whatever it sees, turns a STANDBY group into anything but STANDBY_ALONE -- or ACTIVE_SOLO when a
   tracked interface is down (the documented trigger) *)
Lemma tick_standby v cs s w i :
  n_st (node_of w s) = Standby ->
  let st' := n_st (node_of w (run_tick v cs s w i)) in
  st' = Standby \/ st' = StandbyAlone \/ (st' = ActiveSolo /\ 0 < n_cnt (node_of w s)).
Proof.
  intros Hst. cbn zeta. unfold run_tick, tick_events.
  pose proof (tick_calls_le2 i (n_st (node_of w s))) as Hle.
  destruct (tick_calls i (n_st (node_of w s))) as [|[|[|k]]]; [| | |lia]; cbn [repeat run].
  - now left.
  - rewrite peer_lost_step. destruct (peer_lost_facts (node_of w s)) as (_ & _ & H). rewrite H, Hst.
    destruct (Z.ltb_spec 0 (n_cnt (node_of w s))); auto.
  - rewrite peer_lost_step.
    destruct (peer_lost_facts (node_of w (fst (step v cs s (EPeerLost w))))) as (_ & _ & H2). rewrite H2.
    rewrite peer_lost_step. destruct (peer_lost_facts (node_of w s)) as (_ & _ & H). rewrite H, Hst.
    destruct (Z.ltb_spec 0 (n_cnt (node_of w s))); auto.
Qed.
