From OV Require Import Common.Base C10.Model.
From Coq Require Import ZifyBool ZifyNat ZifyN.
Local Open Scope Z_scope.

(* winsElection on the true priorities is antisymmetric when the node ids differ *)
Lemma wins_antisym : forall ida idb ea eb : _,
  ida <> idb ->
  forall ca cb na nb,
  c_id ca = ida -> c_id cb = idb ->
  n_eff na = ea -> n_eff nb = eb -> n_pprio na = eb -> n_pprio nb = ea ->
  wins ca na idb = negb (wins cb nb ida).
Proof.
  intros ida idb ea eb Hne ca cb na nb Ha Hb Hea Heb Hpa Hpb.
  unfold wins. rewrite Ha, Hb, Hea, Heb, Hpa, Hpb.
  destruct (Z.eqb_spec ea eb) as [E|E]; destruct (Z.eqb_spec eb ea) as [E'|E']; try lia; cbn [negb].
  - destruct (N.ltb_spec ida idb), (N.ltb_spec idb ida); cbn; try reflexivity; lia.
  - destruct (Z.ltb_spec eb ea), (Z.ltb_spec ea eb); cbn; try reflexivity; lia.
Qed.
