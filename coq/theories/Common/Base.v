(* Common/Base.v — shared executable helpers.  No axioms, no proofs that matter
   for a property live here; only small total functions and their basic lemmas. *)
From Coq Require Export List ZArith NArith Bool Lia Arith.
Export ListNotations.

(* Result of a Go call that may panic or (in the model) run out of fuel. *)
Inductive result (A : Type) : Type :=
| Ok (a : A)
| Err (code : N)        (* the Go function returned an error; small enum *)
| Panic                 (* Go would panic (slice out of range, nil deref, ...) *)
| OutOfFuel.            (* model ran out of fuel: the real loop may not terminate *)
Arguments Ok {A} a.
Arguments Err {A} code.
Arguments Panic {A}.
Arguments OutOfFuel {A}.

Definition rbind {A B} (r : result A) (f : A -> result B) : result B :=
  match r with
  | Ok a => f a
  | Err c => Err c
  | Panic => Panic
  | OutOfFuel => OutOfFuel
  end.
Notation "x <- r ;; k" := (rbind r (fun x => k))
  (at level 61, r at next level, right associativity).

Definition is_ok {A} (r : result A) : bool :=
  match r with Ok _ => true | _ => false end.
Definition is_crash {A} (r : result A) : bool :=
  match r with Panic | OutOfFuel => true | _ => false end.

(* Go slice expression l[lo:hi] on a slice whose len = cap = length l. *)
Definition slice {A} (lo hi : nat) (l : list A) : result (list A) :=
  if (lo <=? hi)%nat && (hi <=? length l)%nat
  then Ok (firstn (hi - lo) (skipn lo l))
  else Panic.
Definition slice_from {A} (lo : nat) (l : list A) : result (list A) :=
  slice lo (length l) l.
Definition index {A} (i : nat) (l : list A) : result A :=
  match nth_error l i with Some x => Ok x | None => Panic end.

Lemma slice_length {A} lo hi (l r : list A) :
  slice lo hi l = Ok r -> length r = (hi - lo)%nat.
Proof.
  unfold slice. destruct (Nat.leb_spec lo hi) as [H1|H1]; simpl; [|discriminate].
  destruct (Nat.leb_spec hi (length l)) as [H2|H2]; simpl; [|discriminate].
  intros H3; inversion H3; subst. rewrite firstn_length, skipn_length. lia.
Qed.

(* Big-endian helpers on byte lists (bytes are N < 256). *)
Definition be16 (hi lo : N) : N := (hi * 256 + lo)%N.
Definition be32 (a b c d : N) : N := (((a * 256 + b) * 256 + c) * 256 + d)%N.
Definition byte_of (n : N) : N := (n mod 256)%N.
Definition put16 (n : N) : list N := [byte_of (n / 256); byte_of n]%N.
Definition put32 (n : N) : list N :=
  [byte_of (n / 16777216); byte_of (n / 65536); byte_of (n / 256); byte_of n]%N.

Definition u8  (z : Z) : Z := (z mod 256)%Z.
Definition u16 (z : Z) : Z := (z mod 65536)%Z.
Definition u32 (z : Z) : Z := (z mod 4294967296)%Z.
Definition u64 (z : Z) : Z := (z mod 18446744073709551616)%Z.

(* fold over an operation list, stopping at the first rejected step *)
Fixpoint run_opt {S O} (step : S -> O -> option S) (s : S) (ops : list O) : option S :=
  match ops with
  | [] => Some s
  | o :: os => match step s o with Some s' => run_opt step s' os | None => None end
  end.

Lemma run_opt_inv {S O} (step : S -> O -> option S) (Inv : S -> Prop) :
  (forall s o s', Inv s -> step s o = Some s' -> Inv s') ->
  forall ops s s', Inv s -> run_opt step s ops = Some s' -> Inv s'.
Proof.
  intros Hstep ops; induction ops as [|o os IH]; simpl; intros s s' Hi Hr.
  - inversion Hr; subst; exact Hi.
  - destruct (step s o) as [s1|] eqn:E; [|discriminate].
    eapply IH; [eapply Hstep; eauto | exact Hr].
Qed.
