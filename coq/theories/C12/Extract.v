From Coq Require Import Extraction ExtrOcamlBasic.
From OV Require Import Common.Base C12.Model C12.OWModel C12.SQModel.
Extraction Language OCaml.
Extraction "C12_model.ml" init step free_of effective repaired before_fixes ow_init ow_step sq_init sq_step.
