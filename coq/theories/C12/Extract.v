From Coq Require Import Extraction ExtrOcamlBasic.
From OV Require Import Common.Base C12.Model C12.OWModel.
Extraction Language OCaml.
Extraction "C12_model.ml" init step free_of repaired today ow_init ow_step.
