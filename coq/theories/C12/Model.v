(* C12/Model.v — executable model of the checkpoint / release / restart machinery of
     internal/ipoe/restore.go     checkpointSession, checkpointSessionSync, deleteSessionCheckpoint,
                                  restoreSessions, isSessionExpired
     internal/ipoe/setup.go       setupSessionRestore, installInMemoryState
     internal/ipoe/mutation.go    handleSubscriberTerminate (the release path driven by the harness)
     internal/pppoe/component.go  checkpointSession, deleteSessionCheckpoint, restoreSessions,
                                  installInMemoryState, isSessionExpired, handleSubscriberTerminate
     internal/pppoe/setup.go      setupSessionRestore;  internal/pppoe/session.go terminate
     pkg/opdb/store.go            Store (Put / Delete / Load), one operation = one atomic step
     pkg/allocator/registry.go    ReserveIP/IANA/PD, ReleaseIP/IANAByIP/PDByPrefix, Allocate*FromProfile
                                  (abstracted to the lease map; the choice of Allocate is an observation)
   Definitions only; proofs are in Proofs.v.

   A session is identified by a number (the harness maps it to SessionID, MAC, VLANs, PPPoE id).
   An address is a code  3*index + family  (family 0 = IPv4 pool, 1 = IANA pool, 2 = PD pool); an index
   at or above the pool size is an address outside every pool (AAA-assigned static address).
   Time is in seconds relative to the start of the case. *)
From OV Require Import Common.Base.
Open Scope N_scope.

(* ---- association lists keyed by N (first match wins; aput removes older bindings) ---- *)
Section Assoc.
  Context {V : Type}.
  Fixpoint aget (k : N) (l : list (N * V)) : option V :=
    match l with
    | [] => None
    | (k', v) :: r => if N.eqb k k' then Some v else aget k r
    end.
  Fixpoint aremove (k : N) (l : list (N * V)) : list (N * V) :=
    match l with
    | [] => []
    | (k', v) :: r => if N.eqb k k' then aremove k r else (k', v) :: aremove k r
    end.
  Definition aput (k : N) (v : V) (l : list (N * V)) : list (N * V) := (k, v) :: aremove k l.
  Definition amem (k : N) (l : list (N * V)) : bool :=
    match aget k l with Some _ => true | None => false end.
End Assoc.

Definition nmem (k : N) (l : list N) : bool := existsb (N.eqb k) l.

(* insertion sort without duplicates (the fake store's Load iterates in key order) *)
Fixpoint ins (x : N) (l : list N) : list N :=
  match l with
  | [] => [x]
  | y :: r => if N.ltb x y then x :: l else if N.eqb x y then l else y :: ins x r
  end.
Definition isort (l : list N) : list N := fold_right ins [] l.

(* ---- configuration ---- *)
Inductive proto := IPoE | PPPoE.

Record cfg := {
  c_proto : proto;
  c_ordered : bool;   (* true: checkpoint writes and deletes of one session take effect in issue order
                         (/repo HEAD since 657fd59); false: an asynchronous Put applies whenever it completes (before the fix) *)
  c_reserve : bool;   (* true: PPPoE installInMemoryState re-reserves addresses (HEAD since 7da5674); IPoE always does *)
  c_delretry : bool;  (* true: a checkpoint Delete that fails with a Store error is repeated in the background
                         (/repo HEAD since f3eb7c5, OrderedWriter.DeleteEventually); false: only logged (before) *)
  c_delforever : bool; (* true: the background repetition never gives up (/repo HEAD since 384ff3e); false: it stopped
                          after 6 failed attempts (before) *)
  c_n4 : N; c_n6 : N; c_npd : N }.

Definition code (f a : N) : N := 3 * a + f.
Definition fam_size (c : cfg) (f : N) : N :=
  match f with 0 => c_n4 c | 1 => c_n6 c | _ => c_npd c end.
Definition inpool (c : cfg) (ad : N) : bool := (ad / 3) <? fam_size c (ad mod 3).

(* ---- session records (the JSON image is the record itself) ---- *)
Record sess := {
  s_id : N;
  s_bound : bool;       (* IPoE: State == "bound";  PPPoE: Phase == PhaseOpen *)
  s_rel4 : bool;        (* IPoE: State == "released" — the DHCPv4 lease was released while DHCPv6 is still bound
                           (unified session mode keeps the session and re-checkpoints it) *)
  s_appr : bool;        (* IPoE AAAApproved *)
  s_crea : bool;        (* IPoE IPoESessionCreated *)
  s_v6b : bool;         (* IPoE IPv6Bound *)
  s_v4 : option N; s_v6 : option N; s_pd : option N;       (* address indexes *)
  s_l4 : N; s_b4 : option Z;                               (* LeaseTime, BoundAt (None = zero time) *)
  s_l6 : N; s_b6 : option Z;                               (* IPv6LeaseTime, IPv6BoundAt *)
  s_stamp : option N;   (* ticket of the checkpoint call that produced this image *)
  s_swif : N }.         (* IPoESwIfIndex / SwIfIndex *)

Definition set_stamp (r : sess) (t : N) : sess :=
  {| s_id := s_id r; s_bound := s_bound r; s_rel4 := s_rel4 r; s_appr := s_appr r; s_crea := s_crea r; s_v6b := s_v6b r;
     s_v4 := s_v4 r; s_v6 := s_v6 r; s_pd := s_pd r; s_l4 := s_l4 r; s_b4 := s_b4 r; s_l6 := s_l6 r;
     s_b6 := s_b6 r; s_stamp := Some t; s_swif := s_swif r |}.
Definition set_appr (r : sess) (b : bool) : sess :=
  {| s_id := s_id r; s_bound := s_bound r; s_rel4 := s_rel4 r; s_appr := b; s_crea := s_crea r; s_v6b := s_v6b r;
     s_v4 := s_v4 r; s_v6 := s_v6 r; s_pd := s_pd r; s_l4 := s_l4 r; s_b4 := s_b4 r; s_l6 := s_l6 r;
     s_b6 := s_b6 r; s_stamp := s_stamp r; s_swif := s_swif r |}.
Definition set_prog (r : sess) (sw : N) : sess :=    (* dataplane session (re)created *)
  {| s_id := s_id r; s_bound := s_bound r; s_rel4 := s_rel4 r; s_appr := s_appr r; s_crea := true; s_v6b := s_v6b r;
     s_v4 := s_v4 r; s_v6 := s_v6 r; s_pd := s_pd r; s_l4 := s_l4 r; s_b4 := s_b4 r; s_l6 := s_l6 r;
     s_b6 := s_b6 r; s_stamp := s_stamp r; s_swif := sw |}.

Definition optc (f : N) (o : option N) : list N := match o with Some a => [code f a] | None => [] end.
Definition addrs (r : sess) : list N := optc 0 (s_v4 r) ++ optc 1 (s_v6 r) ++ optc 2 (s_pd r).

(* ---- dataplane (fake southbound) ---- *)
Record dpe := { d_swif : N; d_v4 : option N; d_v6 : option N; d_pd : option N }.
Definition swif_base : N := 100.

(* ---- log tokens produced by the fakes ---- *)
Inductive tok :=
| TA (i sw : N) | TAF (i : N) | TU (i : N) | TV (i : N)
| T4 (i : N) (a : N) | T6 (i : N) (a : N) | TP (i : N) (a : N)
| TR (i cause : N) | TL (i : N) | TDEL (i : N) | TSP (i : N) | TSD (i : N) | TSPF (i : N) | TCKSERR | TSDF (i : N) | TPROG | TLA (i : N) | T4Q (sw : N).

(* ---- state ---- *)
Record st := {
  store : list (N * sess);          (* the durable image: namespace of this protocol *)
  pend : list (N * sess);           (* asynchronous Puts in flight: ticket -> image *)
  tick : N;                         (* next ticket *)
  applied : list (N * N);           (* session -> ticket of the last write that took effect (ordered variant) *)
  live : list (N * sess);           (* in-memory session index of the running incarnation *)
  leases : list (N * N);            (* allocator: address code -> owner session *)
  dp : list (N * dpe);
  dpnext : N;
  released : list N;                (* ghost: sessions released so far *)
  used : list N;                    (* ghost: session identities ever created (identities are never reused) *)
  poison : list (N * bool);         (* fault plan: ticket -> its Put returns a transient Store error (true: always) *)
  completed : list (N * N);
  delpend : list (N * bool) }.      (* sessions released in memory whose checkpoint Delete failed and has not taken effect
                                       yet: session -> the background repetition has given up *)       (* history record: (session, stamp) of every checkpoint image that took effect in
                                       the store (synchronous checkpoint, or completed effective asynchronous Put) *)

Definition init : st :=
  {| store := []; pend := []; tick := 0; applied := []; live := []; leases := []; dp := [];
     dpnext := swif_base; released := []; used := []; poison := []; completed := []; delpend := [] |}.

(* ---- allocator ---- *)
(* Registry.Reserve*: only a pool that contains the address records it; a lease held by another owner is a
   conflict (logged, nothing changes) *)
Definition reserve (c : cfg) (own : N) (ls : list (N * N)) (ad : N) : list (N * N) :=
  if inpool c ad then
    match aget ad ls with
    | Some _ => ls
    | None => aput ad own ls
    end
  else ls.
(* Registry.Release*: PoolAllocator.Release drops the lease whoever owns it *)
Definition release_all (ls : list (N * N)) (ads : list N) : list (N * N) :=
  fold_left (fun l ad => aremove ad l) ads ls.
Definition reserve_all (c : cfg) (own : N) (ls : list (N * N)) (ads : list N) : list (N * N) :=
  fold_left (reserve c own) ads ls.

Definition nrange (n : N) : list N := map N.of_nat (seq 0 (N.to_nat n)).

(* a fresh allocation: which free address is returned is the implementation's choice (observation o);
   None = pool exhausted, admissible only when every pool address is leased *)
Definition alloc_ok (c : cfg) (ls : list (N * N)) (f : N) (o : option N) : bool :=
  match o with
  | Some a => (a <? fam_size c f) && negb (amem (code f a) ls)
  | None => forallb (fun a => amem (code f a) ls) (nrange (fam_size c f))
  end.

Inductive aspec := ANone | AAlloc | AStatic (k : N).
Definition static_base : N := 1000.

(* returns the address index (if any) and the new lease map; None = inadmissible observation *)
Definition take_addr (c : cfg) (own : N) (ls : list (N * N)) (f : N) (sp : aspec) (o : option N)
  : option (option N * list (N * N)) :=
  match sp with
  | ANone => Some (None, ls)
  | AStatic k => Some (Some (static_base + k), ls)
  | AAlloc => if alloc_ok c ls f o then
                match o with
                | Some a => Some (Some a, aput (code f a) own ls)
                | None => Some (None, ls)
                end
              else None
  end.

(* ---- dataplane helpers ---- *)
Definition dp_add (k : N) (d : list (N * dpe)) (nx : N) : N * list (N * dpe) * N :=
  match aget k d with
  | Some e => (d_swif e, d, nx)
  | None => (nx, aput k {| d_swif := nx; d_v4 := None; d_v6 := None; d_pd := None |} d, nx + 1)
  end.
Definition ormerge (new old : option N) : option N := match new with Some _ => new | None => old end.
(* program the addresses the session has (families it lacks are left untouched) *)
Definition dp_prog (k : N) (r : sess) (d : list (N * dpe)) : list (N * dpe) :=
  match aget k d with
  | Some e => aput k {| d_swif := d_swif e; d_v4 := ormerge (s_v4 r) (d_v4 e);
                        d_v6 := ormerge (s_v6 r) (d_v6 e); d_pd := ormerge (s_pd r) (d_pd e) |} d
  | None => d
  end.

(* ---- operations ---- *)
Record newspec := {
  n_id : N; n_bound : bool; n_rel4 : bool; n_appr : bool; n_crea : bool; n_v6b : bool;
  n_a4 : aspec; n_a6 : aspec; n_apd : aspec;
  n_l4 : N; n_b4 : option Z; n_l6 : N; n_b6 : option Z }.

Inductive op :=
| New (n : newspec) (o4 o6 opd : option N)    (* bring-up simulated by the harness; o* = allocator answers *)
| Ck (i : N)                                  (* checkpointSession: asynchronous Put *)
| Cks (i : N)                                 (* checkpointSessionSync *)
| Rel (i : N)                                 (* handleSubscriberTerminate *)
| Done (t : N) (retried : bool)               (* the asynchronous Put with ticket t completes; retried = observation:
                                                 after a Store error the implementation repeated the write
                                                 (admissible only in the write's original slot, so the ticket
                                                 simply stays pending) *)
| Poison (t : N) (always : bool)              (* fault plan: the Put with ticket t will return a Store error *)
| CksF (i : N)                                (* checkpointSessionSync whose Store.Put returns an error *)
| RelF (i : N)                                (* release whose checkpoint Delete returns a Store error *)
| DelRetry (i : N) (ok : bool)                (* a background repetition of that Delete succeeds / fails again *)
| GiveUp (i : N)                              (* the repetition stops after its last failed attempt *)
| Bind4 (i lease : N) (o : option N)          (* IPoE handleAck: the DHCPv4 ACK of the provider binds (o = the allocator's
                                                 answer for a session without IPv4 address) or renews the lease:
                                                 State := bound, IPv4, LeaseTime, BoundAt := now, dataplane
                                                 binding, then checkpointSession *)
| Flip                                        (* Registry.SetAllocDirection flips (HA: this node lost the SRG election):
                                                 every pool rebuilds its free list; leases and reservations stay *)
| Crash (preserved : bool) (fail : option N) (now : Z)    (* stop; new incarnation restores from the store *)
| RelStop (i : N) (putdone : bool) (preserved : bool) (fail : option N) (now : Z).
    (* stop IN THE MIDDLE of the release of session i: the in-memory part has run (of it only the dataplane delete
       outlives the stop), the checkpoint Delete has been issued but has not taken effect — it waits behind the
       write that is at the Store, which has (putdone) or has not yet completed, or it is at the Store itself.
       The release has not completed: the session does not count as released. *)

Inductive out :=
| ONew (a4 a6 apd : option N) (x4 x6 xpd : bool)   (* x* : that pool was asked and is exhausted *)
| OSkip | OCk (t : N) (lg : list tok) | OCks (t : N) (lg : list tok) | ORel (lg : list tok) | ODone (retry : bool) | ONote (n : N) (lg : list tok)
| OBind (a : option N) (t : N) (lg : list tok) | OBindX
| OCrash (lg : list tok).

Definition upd_store s v := {| store := v; pend := pend s; tick := tick s; applied := applied s; live := live s;
  leases := leases s; dp := dp s; dpnext := dpnext s; released := released s; used := used s; poison := poison s; completed := completed s; delpend := delpend s |}.

Definition is_some {A} (o : option A) : bool := match o with Some _ => true | None => false end.
Definition is_alloc (a : aspec) : bool := match a with AAlloc => true | _ => false end.

Definition do_new (c : cfg) (s : st) (n : newspec) (o4 o6 opd : option N) : option (st * out) :=
  if nmem (n_id n) (used s) then Some (s, OSkip) else
  match take_addr c (n_id n) (leases s) 0 (n_a4 n) o4 with
  | None => None
  | Some (a4, l1) =>
    match take_addr c (n_id n) l1 1 (n_a6 n) o6 with
    | None => None
    | Some (a6, l2) =>
      match take_addr c (n_id n) l2 2 (n_apd n) opd with
      | None => None
      | Some (apd, l3) =>
        let ip := match c_proto c with IPoE => true | PPPoE => false end in
        let r0 := {| s_id := n_id n; s_bound := n_bound n; s_rel4 := ip && n_rel4 n && negb (n_bound n);
                     s_appr := ip && n_appr n; s_crea := n_crea n;
                     s_v6b := ip && n_v6b n; s_v4 := a4; s_v6 := a6; s_pd := apd; s_l4 := n_l4 n;
                     s_b4 := n_b4 n; s_l6 := n_l6 n; s_b6 := n_b6 n; s_stamp := None; s_swif := 0 |} in
        let '(r, d, nx) :=
          if n_crea n then
            let '(sw, d1, nx1) := dp_add (n_id n) (dp s) (dpnext s) in
            (set_prog r0 sw, dp_prog (n_id n) r0 d1, nx1)
          else (r0, dp s, dpnext s) in
        Some ({| store := store s; pend := pend s; tick := tick s; applied := applied s;
                 live := aput (n_id n) r (live s); leases := l3; dp := d; dpnext := nx;
                 released := released s; used := n_id n :: used s; poison := poison s; completed := completed s; delpend := delpend s |},
              ONew a4 a6 apd (is_alloc (n_a4 n) && negb (is_some a4)) (is_alloc (n_a6 n) && negb (is_some a6))
                   (is_alloc (n_apd n) && negb (is_some apd)))
      end
    end
  end.

Definition do_ck (s : st) (i : N) : st * out :=
  match aget i (live s) with
  | None => (s, OSkip)
  | Some r =>
    let t := tick s in
    let r' := set_stamp r t in
    ({| store := store s; pend := pend s ++ [(t, r')]; tick := t + 1; applied := applied s;
        live := aput i r' (live s); leases := leases s; dp := dp s; dpnext := dpnext s;
        released := released s; used := used s; poison := poison s; completed := completed s; delpend := delpend s |}, OCk t [])
  end.

Definition do_cks (s : st) (i : N) : st * out :=
  match aget i (live s) with
  | None => (s, OSkip)
  | Some r =>
    let t := tick s in
    let r' := set_stamp r t in
    ({| store := aput i r' (store s); pend := pend s; tick := t + 1; applied := aput i t (applied s);
        live := aput i r' (live s); leases := leases s; dp := dp s; dpnext := dpnext s;
        released := released s; used := used s; poison := poison s; completed := (i, t) :: completed s; delpend := delpend s |},
     OCks t [TSP i])
  end.

Definition do_rel (s : st) (i : N) : st * out :=
  match aget i (live s) with
  | None => (s, OSkip)
  | Some r =>
    let t := tick s in
    let hasdp := negb (s_swif r =? 0) in
    ({| store := aremove i (store s); pend := pend s; tick := t + 1; applied := aput i t (applied s);
        live := aremove i (live s); leases := release_all (leases s) (addrs r);
        dp := if hasdp then aremove i (dp s) else dp s; dpnext := dpnext s;
        released := i :: released s; used := used s; poison := poison s; completed := completed s; delpend := delpend s |},
     ORel ((if hasdp then [TDEL i] else []) ++ [TSD i; TL i]))
  end.

(* does the write with ticket t for session i still take effect? *)
Definition effective (c : cfg) (s : st) (i t : N) : bool :=
  if c_ordered c then match aget i (applied s) with Some a => a <? t | None => true end else true.

Definition set_pend_poison (s : st) (pd : list (N * sess)) (po : list (N * bool)) : st :=
  {| store := store s; pend := pd; tick := tick s; applied := applied s; live := live s; leases := leases s;
     dp := dp s; dpnext := dpnext s; released := released s; used := used s; poison := po; completed := completed s; delpend := delpend s |}.

Definition do_done_core (c : cfg) (s : st) (t : N) (retried : bool) : st * out :=
  match aget t (pend s) with
  | None => (s, ODone false)
  | Some r =>
    match aget t (poison s) with
    | Some always =>
      (* the Store returns an error: nothing is written; the write is dropped, or repeated in its own slot *)
      if retried then (set_pend_poison s (pend s) (if always then poison s else aremove t (poison s)), ODone true)
      else (set_pend_poison s (aremove t (pend s)) (aremove t (poison s)), ODone false)
    | None =>
      let i := s_id r in
      if effective c s i t then
        ({| store := aput i r (store s); pend := aremove t (pend s); tick := tick s;
            applied := aput i t (applied s); live := live s; leases := leases s; dp := dp s;
            dpnext := dpnext s; released := released s; used := used s; poison := poison s;
            completed := match s_stamp r with Some ts => (i, ts) :: completed s | None => completed s end;
            delpend := delpend s |},
         ODone false)
      else
        ({| store := store s; pend := aremove t (pend s); tick := tick s; applied := applied s;
            live := live s; leases := leases s; dp := dp s; dpnext := dpnext s; released := released s;
            used := used s; poison := poison s; completed := completed s; delpend := delpend s |}, ODone false)
    end
  end.

Definition do_poison (s : st) (t : N) (always : bool) : st * out :=
  match aget t (pend s) with
  | None => (s, OSkip)
  | Some _ => (set_pend_poison s (pend s) (aput t always (poison s)), ODone false)
  end.

(* an ordered write reaches the Store only after every earlier-issued write of the same session has finished:
   under the harness' schedule those Puts are let through (applied, or failed by the fault plan) in issue order *)
Definition flush (c : cfg) (s : st) (i bound : N) : st :=
  fold_left (fun s0 t => fst (do_done_core c s0 t false))
            (map fst (filter (fun tr => (s_id (snd tr) =? i) && (fst tr <? bound)) (pend s))) s.

(* Done t.  Whether the write succeeds is only visible when it is at the Store, i.e. after the earlier writes of its
   session: for a write that fails (fault plan) those earlier ones have taken effect first.  (For a write that
   succeeds the order is immaterial: it supersedes them.) *)
Definition do_done (c : cfg) (s : st) (t : N) (retried : bool) : st * out :=
  match aget t (pend s), aget t (poison s) with
  | Some r, Some _ => do_done_core c (if c_ordered c then flush c s (s_id r) t else s) t retried
  | _, _ => do_done_core c s t retried
  end.

(* the synchronous checkpoint's Put fails: the in-memory stamp moves on, the ticket is spent, the store is not
   touched by this write *)
Definition do_cksf (c : cfg) (s : st) (i : N) : st * out :=
  match aget i (live s) with
  | None => (s, OSkip)
  | Some r =>
    let s1 := if c_ordered c then flush c s i (tick s) else s in
    let t := tick s1 in
    let r' := set_stamp r t in
    ({| store := store s1; pend := pend s1; tick := t + 1; applied := applied s1;
        live := aput i r' (live s1); leases := leases s1; dp := dp s1; dpnext := dpnext s1;
        released := released s1; used := used s1; poison := poison s1; completed := completed s1; delpend := delpend s1 |}, OCks t [TSPF i; TCKSERR])
  end.

(* ---- IPoE DHCPv4 bind / renew (internal/ipoe/dhcpv4.go handleAck) ---- *)
(* the in-memory update of handleAck; the image is stamped by the checkpoint that follows *)
Definition set_bind4 (r : sess) (a lease : N) : sess :=
  {| s_id := s_id r; s_bound := true; s_rel4 := false; s_appr := s_appr r; s_crea := s_crea r; s_v6b := s_v6b r;
     s_v4 := Some a; s_v6 := s_v6 r; s_pd := s_pd r; s_l4 := lease; s_b4 := Some 0%Z; s_l6 := s_l6 r;
     s_b6 := s_b6 r; s_stamp := None; s_swif := s_swif r |}.

(* the dataplane entry that carries a given sw_if_index (the southbound addresses the binding by interface index; after
   a restart with a failed add the in-memory index can be stale and belong to nobody — or to another session) *)
Fixpoint dp_find_swif (sw : N) (d : list (N * dpe)) : option N :=
  match d with
  | [] => None
  | (k, e) :: r => if d_swif e =? sw then Some k else dp_find_swif sw r
  end.
Definition dp_set4 (k a : N) (d : list (N * dpe)) : list (N * dpe) :=
  match aget k d with
  | Some e => aput k {| d_swif := d_swif e; d_v4 := Some a; d_v6 := d_v6 e; d_pd := d_pd e |} d
  | None => d
  end.

Definition upd_live (s : st) (i : N) (r : sess) (ls : list (N * N)) (d : list (N * dpe)) : st :=
  {| store := store s; pend := pend s; tick := tick s; applied := applied s; live := aput i r (live s);
     leases := ls; dp := d; dpnext := dpnext s; released := released s; used := used s; poison := poison s;
     completed := completed s; delpend := delpend s |}.

Definition do_bind4 (c : cfg) (s : st) (i lease : N) (o : option N) : option (st * out) :=
  match c_proto c, aget i (live s) with
  | IPoE, Some r =>
    let go (a : N) (ls : list (N * N)) (fresh : bool) :=
      let r2 := set_bind4 r a lease in
      let hasdp := negb (s_swif r =? 0) in
      let tgt := if hasdp then dp_find_swif (s_swif r) (dp s) else None in
      let s1 := upd_live s i r2 ls (match tgt with Some k => dp_set4 k a (dp s) | None => dp s end) in
      let t := tick s1 in
      Some (fst (do_ck s1 i),
            OBind (if fresh then Some a else None) t
              ((if hasdp then [match tgt with Some k => T4 k a | None => T4Q (s_swif r) end; TPROG] else []) ++ [TLA i])) in
    match s_v4 r with
    | Some a => go a (leases s) false                               (* renew *)
    | None =>
      if alloc_ok c (leases s) 0 o then
        match o with
        | Some a => go a (aput (code 0 a) i (leases s)) true
        | None => Some (s, OBindX)                                   (* pool exhausted: no ACK *)
        end
      else None
    end
  | _, _ => Some (s, OSkip)
  end.

(* the lowest pending ticket of session i that can still take effect: under an ordering writer that is the write
   at the Store (entries superseded by a later write that took effect are only bookkeeping) *)
Fixpoint first_of (c : cfg) (s : st) (i : N) (pd : list (N * sess)) : option N :=
  match pd with
  | [] => None
  | (t, r) :: rest => if (s_id r =? i) && effective c s i t then Some t else first_of c s i rest
  end.

(* release whose Delete fails.  The Delete has waited for the write that was at the Store (it takes effect), the
   queued Puts issued before it are skipped as obsolete, then the Store returns an error.  deleteSessionCheckpoint
   returns, the release COMPLETES in memory (addresses freed, dataplane session deleted, released event published),
   but the image is still in the store: the session is in [delpend], not in [released].
   OrderedWriter.DeleteEventually repeats the Delete on a background goroutine ([DelRetry], after 50 ms, 100 ms, ...)
   and, before 384ff3e, gave up after 6 failures ([GiveUp]; HEAD never gives up).  Before f3eb7c5 nothing was repeated
   (given up at once). *)
Definition do_relf (c : cfg) (s : st) (i : N) : st * out :=
  match aget i (live s) with
  | None => (s, OSkip)
  | Some r =>
    let s1 := if c_ordered c then
                match first_of c s i (pend s) with Some t0 => fst (do_done_core c s t0 false) | None => s end
              else s in
    let t := tick s1 in
    let hasdp := negb (s_swif r =? 0) in
    ({| store := store s1;
        pend := pend s1; tick := t + 1; applied := aput i t (applied s1);
        live := aremove i (live s1); leases := release_all (leases s1) (addrs r);
        dp := if hasdp then aremove i (dp s1) else dp s1; dpnext := dpnext s1;
        released := released s1; used := used s1; poison := poison s1; completed := completed s1;
        delpend := aput i (negb (c_delretry c)) (delpend s1) |},
     ORel ((if hasdp then [TDEL i] else []) ++ [TSDF i; TL i]))
  end.

Definition set_delpend (s : st) (d : list (N * bool)) : st :=
  {| store := store s; pend := pend s; tick := tick s; applied := applied s; live := live s; leases := leases s;
     dp := dp s; dpnext := dpnext s; released := released s; used := used s; poison := poison s;
     completed := completed s; delpend := d |}.

(* one background repetition of a failed checkpoint Delete: it succeeds (the image is gone, the release is durable:
   the session is now [released]) or fails again.  ONote 0: nothing pending, 1: failed again, 2: succeeded *)
Definition do_delretry (s : st) (i : N) (ok : bool) : st * out :=
  match aget i (delpend s) with
  | Some false =>
    if ok then
      ({| store := aremove i (store s); pend := pend s; tick := tick s + 1; applied := aput i (tick s) (applied s);
          live := live s; leases := leases s; dp := dp s; dpnext := dpnext s; released := i :: released s;
          used := used s; poison := poison s; completed := completed s; delpend := aremove i (delpend s) |},
       ONote 2 [TSD i])
    else (s, ONote 1 [])
  | _ => (s, ONote 0 [])
  end.

(* the repetition ends without success.  ONote 0: nothing pending, 1: gave up (the image stays for good), 2: keeps
   retrying (c_delforever) *)
Definition do_giveup (c : cfg) (s : st) (i : N) : st * out :=
  match aget i (delpend s) with
  | Some false => if c_delforever c then (s, ONote 2 []) else (set_delpend s (aput i true (delpend s)), ONote 1 [])
  | _ => (s, ONote 0 [])
  end.

(* ---- restore ---- *)
Definition zlt (a b : Z) : bool := Z.ltb a b.
Definition expired (c : cfg) (now : Z) (r : sess) : bool :=
  match c_proto c with
  | IPoE =>
    s_bound r &&
    ((is_some (s_v4 r) && (0 <? s_l4 r) &&
      match s_b4 r with Some b => zlt (b + Z.of_N (s_l4 r)) now | None => false end)
     || (s_v6b r && (0 <? s_l6 r) &&
         match s_b6 r with Some b => zlt (b + Z.of_N (s_l6 r)) now | None => false end))
  | PPPoE =>
    s_bound r && match s_b4 r with Some b => zlt 86400 (now - b) | None => false end
  end.

(* sessions the restore path replays into the dataplane *)
Definition replayed (c : cfg) (r : sess) : bool :=
  match c_proto c with
  | IPoE => negb (s_appr r && negb (s_crea r))
  | PPPoE => s_bound r && is_some (s_v4 r)
  end.

Definition prog_log (c : cfg) (k sw : N) (r : sess) : list tok :=
  let l4 := match s_v4 r with Some a => [T4 k a] | None => [] end in
  let l6 := match s_v6 r with Some a => [T6 k a] | None => [] end in
  let lp := match s_pd r with Some a => [TP k a] | None => [] end in
  match c_proto c with
  | IPoE => [TA k sw; TU k] ++ l4 ++ l6 ++ lp ++ [TV k]
  | PPPoE => [TA k sw] ++ l4 ++ [TV k] ++ l6 ++ lp ++ [TU k]
  end.

Definition install (c : cfg) (s : st) (k : N) (r : sess) : st :=
  let res := match c_proto c with IPoE => true | PPPoE => c_reserve c end in
  {| store := store s; pend := pend s; tick := tick s; applied := applied s; live := aput k r (live s);
     leases := if res then reserve_all c k (leases s) (addrs r) else leases s;
     dp := dp s; dpnext := dpnext s; released := released s; used := used s; poison := poison s; completed := completed s; delpend := delpend s |}.

Definition restore_one (c : cfg) (now : Z) (fail : option N) (cause : N) (store0 : list (N * sess))
           (acc : st * list tok) (k : N) : st * list tok :=
  let '(s, lg) := acc in
  match aget k store0 with
  | None => acc
  | Some r =>
    if expired c now r then (upd_store s (aremove k (store s)), lg ++ [TSD k])
    else
      let half := match c_proto c with IPoE => s_appr r && negb (s_crea r) | PPPoE => false end in
      if half then
        let r' := set_appr r false in
        (install c (upd_store s (aput k r' (store s))) k r', lg ++ [TSP k])
      else
        let s1 := install c s k r in
        if replayed c r then
          if match fail with Some f => f =? k | None => false end then (s1, lg ++ [TAF k])
          else
            let '(sw, d1, nx1) := dp_add k (dp s1) (dpnext s1) in
            let r' := set_prog r sw in
            let t := tick s1 in
            ({| store := store s1; pend := pend s1 ++ [(t, r')]; tick := t + 1; applied := applied s1;
                live := aput k r' (live s1); leases := leases s1; dp := dp_prog k r d1; dpnext := nx1;
                released := released s1; used := used s1; poison := poison s1; completed := completed s1; delpend := delpend s1 |},
             lg ++ prog_log c k sw r ++ [TR k cause])
        else (s1, lg)
  end.

Definition do_crash (c : cfg) (s : st) (preserved : bool) (fail : option N) (now : Z) : st * out :=
  let d := if preserved then dp s else [] in
  let nx := if preserved then dpnext s else swif_base in
  let cause := match d with [] => 1 | _ => 0 end in      (* 0 osvbngd_restart, 1 vpp_recovery *)
  let s0 := {| store := store s; pend := []; tick := tick s; applied := applied s; live := [];
               leases := []; dp := d; dpnext := nx; released := released s; used := used s; poison := []; completed := completed s; delpend := [] |} in
  let '(s1, lg) := fold_left (restore_one c now fail cause (store s)) (isort (map fst (store s))) (s0, []) in
  (s1, OCrash lg).

Definition set_dp (s : st) (d : list (N * dpe)) : st :=
  {| store := store s; pend := pend s; tick := tick s; applied := applied s; live := live s; leases := leases s;
     dp := d; dpnext := dpnext s; released := released s; used := used s; poison := poison s;
     completed := completed s; delpend := delpend s |}.

Definition do_relstop (c : cfg) (s : st) (i : N) (putdone preserved : bool) (fail : option N) (now : Z) : st * out :=
  let s1 := if putdone && c_ordered c then
              match first_of c s i (pend s) with Some t0 => fst (do_done_core c s t0 false) | None => s end
            else s in
  let hasdp := match aget i (live s) with Some r => negb (s_swif r =? 0) | None => false end in
  let s2 := if hasdp then set_dp s1 (aremove i (dp s1)) else s1 in
  match do_crash c s2 preserved fail now with
  | (s3, OCrash lg) => (s3, OCrash ((if hasdp then [TDEL i] else []) ++ lg))
  | x => x
  end.

Definition step (c : cfg) (s : st) (o : op) : option (st * out) :=
  match o with
  | New n o4 o6 opd => do_new c s n o4 o6 opd
  | Ck i => Some (do_ck s i)
  | Cks i => Some (do_cks s i)
  | Rel i => Some (do_rel s i)
  | Done t rt => Some (do_done c s t rt)
  | Poison t al => Some (do_poison s t al)
  | CksF i => Some (do_cksf c s i)
  | RelF i => Some (do_relf c s i)
  | DelRetry i ok => Some (do_delretry s i ok)
  | GiveUp i => Some (do_giveup c s i)
  | Bind4 i l o => do_bind4 c s i l o
  | Flip => Some (s, ODone false)
  | Crash p f now => Some (do_crash c s p f now)
  | RelStop i pd p f now => Some (do_relstop c s i pd p f now)
  end.

(* run a history; None = some allocator observation was inadmissible *)
Fixpoint run (c : cfg) (s : st) (ops : list op) : option st :=
  match ops with
  | [] => Some s
  | o :: r => match step c s o with Some (s', _) => run c s' r | None => None end
  end.

(* free addresses of a pool, as the final drain of the harness reports them *)
Definition free_of (c : cfg) (s : st) (f : N) : list N :=
  filter (fun a => negb (amem (code f a) (leases s))) (nrange (fam_size c f)).

Definition repaired (p : proto) (n4 n6 npd : N) : cfg :=
  {| c_proto := p; c_ordered := true; c_reserve := true; c_delretry := true; c_delforever := true; c_n4 := n4; c_n6 := n6; c_npd := npd |}.
(* the behaviour before the three fixes (657fd59, 7da5674, f3eb7c5); only used by the _refuted witnesses *)
Definition before_fixes (p : proto) (n4 n6 npd : N) : cfg :=
  {| c_proto := p; c_ordered := false; c_reserve := false; c_delretry := false; c_delforever := false; c_n4 := n4; c_n6 := n6; c_npd := npd |}.
