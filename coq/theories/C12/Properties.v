(* C12/Properties.v — the property theorems only.  Each is closed by [exact] of a lemma from Proofs.v
   (or by vm_compute for the concrete witnesses) and followed by Print Assumptions.

   Reading guide.  [run c init ops = Some s] : the history [ops] — bring-ups, asynchronous and synchronous
   checkpoints, releases, completions [Done t] of ANY parked checkpoint write in ANY order, and crashes followed by
   the restore of a new incarnation, each at ANY position — is executed by the model with configuration [c]
   ([None] only when an allocator answer supplied with a [New] is not a free pool address).
   Configuration flags (variants): [c_ordered] — writes and deletes of one session take effect in issue order
   (/repo HEAD since 657fd59, pkg/opdb/ordered.go); [c_reserve] — PPPoE restore re-reserves addresses (HEAD since
   7da5674); [c_delretry] — a checkpoint Delete that fails is repeated in the background (HEAD since f3eb7c5,
   OrderedWriter.DeleteEventually); [c_delforever] — the repetition never gives up (HEAD since 384ff3e).
   /repo HEAD = [repaired] = all four true; no C12 finding is open.  The false values are the behaviour before the
   respective fix and are kept only for the _refuted witnesses ([before_fixes], [gave_up_cfg]). *)
From OV Require Import Common.Base C12.Model C12.Proofs C12.Window C12.OWModel C12.OWProofs C12.SQModel.
Open Scope N_scope.

(* Released sessions stay gone: for every history, every completion order of the checkpoint writes and every crash
   point (a crash may occur anywhere in [ops], and one more is appended here), a session released at any earlier
   point is neither in the in-memory index nor in the store — before and after the restart. *)
Theorem C12_released_stay_gone :
  forall c ops s, c_ordered c = true -> run c init ops = Some s ->
  (forall i, In i (released s) -> aget i (live s) = None /\ aget i (store s) = None) /\
  (forall p f now i, In i (released s) ->
     let s' := fst (do_crash c s p f now) in
     In i (released s') /\ aget i (live s') = None /\ aget i (store s') = None).
Proof. exact released_stay_gone. Qed.
Print Assumptions C12_released_stay_gone.

Definition est (i : N) : newspec :=
  {| n_id := i; n_bound := true; n_rel4 := false; n_appr := true; n_crea := true; n_v6b := false; n_a4 := AAlloc; n_a6 := ANone;
     n_apd := ANone; n_l4 := 3600; n_b4 := Some (-10)%Z; n_l6 := 0; n_b6 := None |}.
(* [ops] ranges over every fault pattern as well: [Poison t always] makes the Put with ticket t return a transient
   Store error (once, or on every attempt), [Done t retried] completes it with either reaction the write-order
   contract admits (dropped, or repeated in its ORIGINAL slot = the ticket stays pending), [CksF i] is a synchronous
   checkpoint whose Put fails.  Concrete instance: the in-flight checkpoint of session 0 fails after the release was
   issued and is retried twice — session 0 stays gone. *)
Example C12_released_stay_gone_faults :
  exists s, run (repaired IPoE 4 4 2) init
     [New (est 0) (Some 0) None None; Ck 0; Poison 0 false; Rel 0; Done 0 true; Done 0 true; Done 0 false;
      Crash true None 0%Z] = Some s /\
   In 0 (released s) /\ aget 0 (live s) = None /\ aget 0 (store s) = None.
Proof. eexists. split; [vm_compute; reflexivity|]. cbn. auto. Qed.
Print Assumptions C12_released_stay_gone_faults.

(* the code before 657fd59 violated it: the Put of a checkpoint completes after the Delete of the same session *)
Theorem C12_released_stay_gone_refuted :
  exists p ops s, run (before_fixes p 4 4 2) init ops = Some s /\ In 0 (released s) /\ aget 0 (live s) <> None /\
                  aget 0 (store s) <> None.
Proof.
  exists IPoE, [New (est 0) (Some 0) None None; Ck 0; Rel 0; Done 0 false; Crash true None 0%Z].
  eexists. split; [vm_compute; reflexivity|]. cbn. repeat split; auto; discriminate.
Qed.
Print Assumptions C12_released_stay_gone_refuted.

(* "Released" in the theorem above means: the release has completed AND its checkpoint Delete has taken effect in the
   store.  A Delete that the Store refuses is a fault of the store, not an ordering of writes; what the code does then
   is modelled step by step: [RelF i] — the release completes in memory (addresses freed, event published) although
   the Delete failed: the session is in [delpend], NOT in [released], its image is still in the store;
   [DelRetry i ok] — one background repetition (OrderedWriter.DeleteEventually, 50 ms, 100 ms, ... later);
   [GiveUp i] — before 384ff3e the repetition stopped after 6 failed attempts ([c_delforever = false]).
   THE RESIDUAL WINDOW, exactly: from the failed Delete until a repetition succeeds, a stop restores the session
   ([C12_delete_pending_window], [_witness]); a successful repetition closes it ([C12_delete_retry_closes]); before
   384ff3e the window never closed once the repetitions had given up ([C12_delete_gaveup_refuted], historical). *)
Theorem C12_delete_retry_closes :
  forall s i, aget i (delpend s) = Some false ->
  let s' := fst (do_delretry s i true) in
  In i (released s') /\ aget i (store s') = None /\ aget i (delpend s') = None.
Proof. exact delete_retry_closes. Qed.
Print Assumptions C12_delete_retry_closes.

Theorem C12_delete_pending_window :
  forall c ops s, c_ordered c = true -> run c init ops = Some s ->
  forall i g, aget i (delpend s) = Some g ->
  aget i (live s) = None /\
  (forall r (p : bool) f now, aget i (store s) = Some r -> expired c now r = false ->
     exists r', aget i (live (fst (do_crash c s p f now))) = Some r' /\ same_core r r').
Proof. exact delete_pending_window. Qed.
Print Assumptions C12_delete_pending_window.

Example C12_delete_pending_witness :
  (* a stop while the failed Delete is still being repeated restores the session ... *)
  (exists s r, run (repaired PPPoE 4 4 2) init
       [New (est 0) (Some 0) None None; Cks 0; RelF 0; DelRetry 0 false; Crash true None 0%Z] = Some s /\
     aget 0 (live s) = Some r /\ released s = []) /\
  (* ... once a repetition has succeeded it does not *)
  (exists s, run (repaired PPPoE 4 4 2) init
       [New (est 0) (Some 0) None None; Cks 0; RelF 0; DelRetry 0 false; DelRetry 0 true; Crash true None 0%Z] = Some s /\
     aget 0 (live s) = None /\ released s = [0]).
Proof.
  split.
  - eexists. eexists. split; [vm_compute; reflexivity|]. split; reflexivity.
  - eexists. split; [vm_compute; reflexivity|]. split; reflexivity.
Qed.
Print Assumptions C12_delete_pending_witness.

(* Before 384ff3e the repetition gave up after six failures: later the store works again, but nothing repeats the
   Delete any more — the released session is restored by every later restart.  With [c_delforever] (/repo HEAD) the
   same history ends with the session gone. *)
Definition gave_up_cfg (p : proto) : cfg :=
  {| c_proto := p; c_ordered := true; c_reserve := true; c_delretry := true; c_delforever := false;
     c_n4 := 4; c_n6 := 4; c_npd := 2 |}.
Definition gaveup_ops : list op :=
  [New (est 0) (Some 0) None None; Cks 0; RelF 0; DelRetry 0 false; DelRetry 0 false; DelRetry 0 false;
   DelRetry 0 false; DelRetry 0 false; DelRetry 0 false; GiveUp 0; DelRetry 0 true; Crash true None 0%Z].
Theorem C12_delete_gaveup_refuted :
  (exists s r, run (gave_up_cfg IPoE) init gaveup_ops = Some s /\ aget 0 (live s) = Some r /\ aget 0 (store s) <> None) /\
  (exists s, run (repaired IPoE 4 4 2) init gaveup_ops = Some s /\ aget 0 (live s) = None /\ released s = [0]).
Proof.
  split.
  - eexists. eexists. split; [vm_compute; reflexivity|]. split; [reflexivity|discriminate].
  - eexists. split; [vm_compute; reflexivity|]. split; reflexivity.
Qed.
Print Assumptions C12_delete_gaveup_refuted.

(* non-vacuity of the hypotheses (here for the configuration without [c_delforever]; [repaired] = /repo HEAD a fortiori): a history with releases, reordered completions, a
   failed Put, a stop inside a release and restarts (and, for [delok], no failing Delete) satisfies them *)
Example C12_head_hypotheses_nonvacuous :
  let ops := [New (est 0) (Some 0) None None; New (est 1) (Some 1) None None; Ck 0; Ck 1; Poison 1 false; Rel 0;
              Done 1 false; Done 0 false; Cks 1; RelStop 1 true true None 0%Z; Crash false None 0%Z] in
  c_ordered (gave_up_cfg IPoE) = true /\ Forall (delok (gave_up_cfg IPoE)) ops /\ reserves (gave_up_cfg IPoE) /\
  pools_small (gave_up_cfg IPoE) /\
  exists s, run (gave_up_cfg IPoE) init ops = Some s /\ released s = [0] /\ aget 0 (live s) = None /\
            (exists r, aget 1 (live s) = Some r /\ s_v4 r = Some 1).
Proof.
  cbn zeta. split; [reflexivity|]. split; [repeat constructor|]. split; [left; reflexivity|].
  split; [unfold pools_small, static_base; cbn; repeat split; discriminate|].
  eexists. split; [vm_compute; reflexivity|]. repeat split. eexists. split; reflexivity.
Qed.
Print Assumptions C12_head_hypotheses_nonvacuous.

(* The real bind path is part of the model: [Bind4 i lease o] transcribes IPoE handleAck (DHCPv4 ACK: State := bound,
   IPv4 := the allocator's answer or the address being renewed, LeaseTime, BoundAt := now, dataplane binding,
   checkpointSession).  It is an operation of every history theorem in this file (released-stay-gone,
   established-has-image, reserved-before-alloc: a session's addresses may now GROW after bring-up, the invariant
   "store images hold a subset of the in-memory addresses" replaces equality).  What the bind itself guarantees:
   unless it is a no-op (unknown session, PPPoE, pool exhausted) the in-memory image is bound with that lease and an
   IPv4 address and carries a fresh stamp whose checkpoint Put is pending with exactly that image — so "established by
   the real bind path" enters [C12_established_has_image] through [C12_window_closed_by_done]. *)
Theorem C12_bind_issues_checkpoint :
  forall c s i l o s' out,
  inv1 s -> do_bind4 c s i l o = Some (s', out) ->
  s' = s \/
  exists r', aget i (live s') = Some r' /\ s_stamp r' = Some (tick s) /\ s_bound r' = true /\ s_l4 r' = l /\
             is_some (s_v4 r') = true /\ aget (tick s) (pend s') = Some r'.
Proof. exact bind4_checkpoints. Qed.
Print Assumptions C12_bind_issues_checkpoint.

(* non-vacuity, end to end: bring-up without IPv4, bind through handleAck, its checkpoint completes, stop, restart:
   restored bound with the address, which is reserved; a renew with a longer lease keeps a session alive that the
   first lease would have expired *)
Definition unbound (i : N) : newspec :=
  {| n_id := i; n_bound := false; n_rel4 := false; n_appr := true; n_crea := true; n_v6b := false; n_a4 := ANone;
     n_a6 := ANone; n_apd := ANone; n_l4 := 0; n_b4 := None; n_l6 := 0; n_b6 := None |}.
Example C12_bind_nonvacuous :
  (exists s r, run (repaired IPoE 4 4 2) init
       [New (unbound 0) None None None; Bind4 0 3600 (Some 2); Done 0 false; Crash false None 100%Z] = Some s /\
     aget 0 (live s) = Some r /\ s_bound r = true /\ s_v4 r = Some 2 /\ aget (code 0 2) (leases s) = Some 0 /\
     In (0, 0) (completed s)) /\
  (exists s, run (repaired IPoE 4 4 2) init
       [New (unbound 0) None None None; Bind4 0 600 (Some 2); Done 0 false; Crash false None 1000%Z] = Some s /\
     aget 0 (live s) = None) /\
  (exists s r, run (repaired IPoE 4 4 2) init
       [New (unbound 0) None None None; Bind4 0 600 (Some 2); Done 0 false; Bind4 0 3600 None; Done 1 false;
        Crash false None 1000%Z] = Some s /\
     aget 0 (live s) = Some r /\ s_l4 r = 3600).
Proof.
  split; [|split].
  - eexists. eexists. split; [vm_compute; reflexivity|]. repeat split. left. reflexivity.
  - eexists. split; [vm_compute; reflexivity|]. reflexivity.
  - eexists. eexists. split; [vm_compute; reflexivity|]. split; reflexivity.
Qed.
Print Assumptions C12_bind_nonvacuous.

(* Stop points inside a release.  [Rel i] is the completed release (in-memory part, then the checkpoint Delete has
   taken effect).  [RelStop i putdone p f now] is a stop in the middle: the in-memory part has run, the Delete has
   been issued but has not taken effect — it is at the Store or waits behind the write that is at the Store, which
   has completed ([putdone]: "Put applied, Delete not yet") or not.  Because [RelStop] is an operation of the
   history, [C12_released_stay_gone], [C12_reserved_before_alloc] and [C12_established_has_image] quantify over these
   stop points as well.  What happens to the session itself: it does not count as released (the release never
   completed, no event was published), and it is restored exactly from what the store holds at that point. *)
Theorem C12_stop_during_release :
  forall c s i putdone (p : bool) f now,
  released (fst (do_relstop c s i putdone p f now)) = released s /\
  (forall k r, aget k (store (relstop_pre c s i putdone)) = Some r -> expired c now r = false ->
     exists r', aget k (live (fst (do_relstop c s i putdone p f now))) = Some r' /\ same_core r r').
Proof. exact stop_during_release. Qed.
Print Assumptions C12_stop_during_release.

(* the stop "Put applied, Delete not yet": the session is back, with the image of that Put; a completed release is not *)
Example C12_stop_during_release_witness :
  (exists s r, run (repaired PPPoE 4 4 2) init
       [New (est 0) (Some 0) None None; Ck 0; RelStop 0 true true None 0%Z] = Some s /\
     aget 0 (live s) = Some r /\ s_stamp r = Some 0 /\ released s = []) /\
  (exists s, run (repaired PPPoE 4 4 2) init
       [New (est 0) (Some 0) None None; Ck 0; RelStop 0 false true None 0%Z] = Some s /\ aget 0 (live s) = None) /\
  (exists s, run (repaired PPPoE 4 4 2) init
       [New (est 0) (Some 0) None None; Ck 0; Rel 0; Done 0 false; Crash true None 0%Z] = Some s /\
     aget 0 (live s) = None /\ released s = [0]).
Proof.
  split; [|split].
  - eexists. eexists. split; [vm_compute; reflexivity|]. repeat split.
  - eexists. split; [vm_compute; reflexivity|]. reflexivity.
  - eexists. split; [vm_compute; reflexivity|]. split; reflexivity.
Qed.
Print Assumptions C12_stop_during_release_witness.

(* An ESTABLISHED session has its image in the store.  [completed s] is the history record of the checkpoint images
   that took effect: (i, t) enters it exactly when the checkpoint call stamped t of session i is a synchronous
   checkpoint ([C12_window_closed_by_sync]) or its asynchronous Put completes, effective and not failed by the fault
   plan ([C12_window_closed_by_done]); it never shrinks.  For every history: if the image the session has in memory
   (stamp t) is such a completed checkpoint, the store holds an image with the same identity, addresses, lease data
   and stamp — at this and, until the session is checkpointed again or released, at every later stop point — and a
   restart (any dataplane, any injected add failure) restores the session from it unless its lease has expired.
   THE LOSS WINDOW is the complement, stated exactly by [C12_loss_window]: a session in the index is either never
   checkpointed (between bring-up and the first checkpoint call), or its latest checkpoint has not taken effect
   (Put pending, failed, or dropped by a stop), or it has its image.  [C12_loss_window_witness] shows both kinds of
   loss are real: a stop inside the window loses the session. *)
Theorem C12_established_has_image :
  forall c ops s,
  c_ordered c = true -> run c init ops = Some s ->
  forall i r t, aget i (live s) = Some r -> s_stamp r = Some t -> In (i, t) (completed s) ->
  (exists r0, aget i (store s) = Some r0 /\ same_core r0 r) /\
  (forall (p : bool) f now, expired c now r = false ->
     exists r', aget i (live (fst (do_crash c s p f now))) = Some r' /\ same_core r r').
Proof. exact established_has_image. Qed.
Print Assumptions C12_established_has_image.

Theorem C12_window_closed_by_sync :
  forall s i r, aget i (live s) = Some r ->
  In (i, tick s) (completed (fst (do_cks s i))) /\
  exists r', aget i (live (fst (do_cks s i))) = Some r' /\ s_stamp r' = Some (tick s).
Proof. exact completed_by_sync. Qed.
Print Assumptions C12_window_closed_by_sync.

Theorem C12_window_closed_by_done :
  forall c s t rp ts,
  aget t (pend s) = Some rp -> aget t (poison s) = None -> effective c s (s_id rp) t = true ->
  s_stamp rp = Some ts -> In (s_id rp, ts) (completed (fst (do_done c s t false))).
Proof. exact completed_by_done. Qed.
Print Assumptions C12_window_closed_by_done.

(* ... and a completed checkpoint stays recorded by every later operation, stops and restarts included: together with
   the two theorems above, [(i, t) ∈ completed s] reads at trace level as "some earlier step of the history was
   [Cks i] issuing stamp t, or the effective, non-failing [Done] of the Put stamped t". *)
Theorem C12_completed_monotone :
  forall c s o s' out x, step c s o = Some (s', out) -> In x (completed s) -> In x (completed s').
Proof. exact completed_mono. Qed.
Print Assumptions C12_completed_monotone.

Theorem C12_loss_window :
  forall c ops s,
  c_ordered c = true -> run c init ops = Some s ->
  forall i r, aget i (live s) = Some r ->
  s_stamp r = None \/
  (exists t, s_stamp r = Some t /\ ~ In (i, t) (completed s)) \/
  (exists r0, aget i (store s) = Some r0 /\ same_core r0 r).
Proof.
  intros c ops s O R i r G. destruct (s_stamp r) as [t|] eqn:ST; auto. right.
  assert (DEC : forall a b : N * N, {a = b} + {a <> b}) by (decide equality; apply N.eq_dec).
  destruct (in_dec DEC (i, t) (completed s)) as [IN|NI].
  - right. apply (established_has_image c ops s O R i r t G ST IN).
  - left. eauto.
Qed.
Print Assumptions C12_loss_window.

Theorem C12_loss_window_witness :
  (exists s, run (repaired IPoE 4 4 2) init [New (est 0) (Some 0) None None; Crash true None 0%Z] = Some s /\
             aget 0 (live s) = None) /\
  (exists s, run (repaired IPoE 4 4 2) init [New (est 0) (Some 0) None None; Ck 0; Crash true None 0%Z] = Some s /\
             aget 0 (live s) = None) /\
  (exists s, run (repaired IPoE 4 4 2) init
               [New (est 0) (Some 0) None None; Ck 0; Poison 0 false; Done 0 false; Crash true None 0%Z] = Some s /\
             aget 0 (live s) = None) /\
  (exists s r, run (repaired IPoE 4 4 2) init
               [New (est 0) (Some 0) None None; Ck 0; Done 0 false; Crash true None 0%Z] = Some s /\
             aget 0 (live s) = Some r /\ s_v4 r = Some 0).
Proof.
  split; [|split; [|split]].
  - eexists. split; [vm_compute; reflexivity|]. reflexivity.
  - eexists. split; [vm_compute; reflexivity|]. reflexivity.
  - eexists. split; [vm_compute; reflexivity|]. reflexivity.
  - eexists. eexists. split; [vm_compute; reflexivity|]. split; reflexivity.
Qed.
Print Assumptions C12_loss_window_witness.

(* Established sessions are restored: whatever state [s] the control plane stops in, every image [r] in the surviving
   store whose lease has not expired is back in the session index of the new incarnation with the same identity,
   addresses, lease data and checkpoint stamp; if it is one the restore path replays (IPoE: not half-established;
   PPPoE: open with an IPv4 address) and the dataplane accepts it, the programming log contains the session add, the
   unnumbered / uRPF bindings and every address it holds, the dataplane entry carries exactly these addresses, the
   restored-session event is published, and with a preserved dataplane the session keeps its interface index. *)
Theorem C12_established_restored :
  forall c s (p : bool) f now k r,
  aget k (store s) = Some r -> expired c now r = false ->
  let dp0 := if p then dp s else [] in
  let cause := match dp0 with [] => 1 | _ => 0 end in
  exists lg, snd (do_crash c s p f now) = OCrash lg /\
             restoredQ c f cause dp0 k r (fst (do_crash c s p f now)) lg.
Proof. exact established_restored. Qed.
Print Assumptions C12_established_restored.

(* Partially released sessions.  In IPoE [State] is the DHCPv4 state only: a dual-stack session whose IPv4 lease was
   released while DHCPv6 (IA_NA / IA_PD) is still bound lives on with State = "released" and is re-checkpointed; the
   converse (DHCPv6 released, IPv4 bound) is an ordinary bound image without IPv6 fields.  The expiry filter looks at
   bound / open images only, so an image that is not in that state — in particular the State = "released" image — is
   never filtered out: it is restored with identity, remaining addresses, dataplane programming and event exactly as
   [C12_established_restored] says (and [C12_reserved_before_alloc] reserves its IA_NA address and prefix). *)
Theorem C12_not_bound_restored :
  forall c s (p : bool) f now k r,
  aget k (store s) = Some r -> s_bound r = false ->
  let dp0 := if p then dp s else [] in
  let cause := match dp0 with [] => 1 | _ => 0 end in
  exists lg, snd (do_crash c s p f now) = OCrash lg /\
             restoredQ c f cause dp0 k r (fst (do_crash c s p f now)) lg.
Proof. exact not_bound_restored. Qed.
Print Assumptions C12_not_bound_restored.

(* ... and only those: an image the expiry filter rejects (bound / open with an elapsed lease) is neither in the index
   nor in the store after the restart.  Together: restored iff not expired. *)
Theorem C12_expired_not_restored :
  forall c s (p : bool) f now k r,
  (forall k r, aget k (store s) = Some r -> s_id r = k) ->
  aget k (store s) = Some r -> expired c now r = true ->
  aget k (live (fst (do_crash c s p f now))) = None /\ aget k (store (fst (do_crash c s p f now))) = None.
Proof. exact expired_not_restored. Qed.
Print Assumptions C12_expired_not_restored.

(* non-vacuity for the two theorems above: a State = "released" image holding an IA_NA address and a prefix is
   restored (addresses programmed and reserved); a bound image with an elapsed IPv4 lease is dropped *)
Definition v6only_released : newspec :=
  {| n_id := 0; n_bound := false; n_rel4 := true; n_appr := true; n_crea := true; n_v6b := true; n_a4 := ANone;
     n_a6 := AAlloc; n_apd := AAlloc; n_l4 := 3600; n_b4 := Some (-100)%Z; n_l6 := 600; n_b6 := Some (-5000)%Z |}.
Definition v4_elapsed : newspec :=
  {| n_id := 1; n_bound := true; n_rel4 := false; n_appr := true; n_crea := true; n_v6b := false; n_a4 := AAlloc;
     n_a6 := ANone; n_apd := ANone; n_l4 := 600; n_b4 := Some (-5000)%Z; n_l6 := 0; n_b6 := None |}.
Example C12_partial_release_nonvacuous :
  exists s, run (repaired IPoE 4 4 2) init
              [New v6only_released None (Some 2) (Some 1); New v4_elapsed (Some 0) None None; Cks 0; Cks 1] = Some s /\
    (exists r, aget 0 (store s) = Some r /\ s_bound r = false /\ s_rel4 r = true) /\
    (exists r, aget 1 (store s) = Some r /\ expired (repaired IPoE 4 4 2) 0 r = true) /\
    let s' := fst (do_crash (repaired IPoE 4 4 2) s false None 0) in
    (exists r', aget 0 (live s') = Some r' /\ s_rel4 r' = true /\ s_v6 r' = Some 2 /\ s_pd r' = Some 1) /\
    aget (code 1 2) (leases s') = Some 0 /\ aget (code 2 1) (leases s') = Some 0 /\
    aget 1 (live s') = None /\ aget 1 (store s') = None.
Proof.
  eexists. split; [vm_compute; reflexivity|]. split; [eexists; vm_compute; repeat split|].
  split; [eexists; vm_compute; repeat split|].
  vm_compute. repeat split. eexists. repeat split.
Qed.
Print Assumptions C12_partial_release_nonvacuous.

(* The mechanism the repaired write order rests on: pkg/opdb/ordered.go (model OWModel.v, one key).  For every
   sequence of issues (PutAsync / Put / Delete take their slot when issued) and completions of the write that is at
   the Store — in any interleaving, each completion succeeding or failing (fault pattern) — the effects that reached
   the Store are in strictly increasing issue order (log is newest first), the stored value is the effect of the
   latest of them, and consequently a Put issued before a Delete never takes effect after it. *)
Theorem C12_writer_issue_order :
  forall evs, let w := ow_run evs in
  desc (map fst (q_log w)) /\
  q_val w = match q_log w with [] => None | (_, WPut v) :: _ => Some v | (_, WDel) :: _ => None end /\
  (forall d s v, In (d, WDel) (q_log w) -> In (s, WPut v) (q_log w) -> (s < d)%N ->
     exists l1 l2 l3, q_log w = l1 ++ (d, WDel) :: l2 ++ (s, WPut v) :: l3).
Proof. exact writer_issue_order. Qed.
Print Assumptions C12_writer_issue_order.

(* non-vacuity: checkpoint v1 in flight, v2 and a Delete queued, v1 fails: v2 is skipped as obsolete, the Delete is the
   only effect; then a fresh Put lands *)
Example C12_writer_nonvacuous :
  let w := ow_run [OIssue (WPut 1); OIssue (WPut 2); OIssue WDel; OComplete false false; OComplete true false;
                   OIssue (WPut 3); OComplete true false] in
  q_log w = [(3, WPut 3); (2, WDel)]%N /\ q_val w = Some 3%N /\ q_infl w = None /\
  q_res w = [(0, false); (1, true); (2, true); (3, true)]%N.
Proof. vm_compute. repeat split. Qed.
Print Assumptions C12_writer_nonvacuous.

(* what the writer does with a Store error is a free choice within the contract: give the write up (/repo HEAD,
   PutAsync) or repeat it INSIDE its slot ([OComplete false true]).  [C12_writer_issue_order] quantifies over both; here
   a failed Put is repeated, lands, and only then the Delete queued behind it runs *)
Example C12_writer_retry_nonvacuous :
  let w := ow_run [OIssue (WPut 1); OIssue WDel; OComplete false true; OComplete true false; OComplete true false] in
  q_log w = [(1, WDel); (0, WPut 1)]%N /\ q_val w = None /\ q_infl w = None /\
  q_res w = [(0, true); (1, true)]%N.
Proof. vm_compute. repeat split. Qed.
Print Assumptions C12_writer_retry_nonvacuous.

(* Write order = call order is also an assumption about the CALLERS: [Ck] marshals the image and takes the write slot
   in one step.  internal/ipoe checkpointSession before 27a2839 (finding concurrent-checkpoint-reorder/ipoe, fixed)
   marshalled under sess.mu but took the slot after unlocking, so two concurrent checkpoints of one session can take
   their slots in the reverse order of their images; the writer then faithfully makes the OLDER image (1) the final
   one although the newer image (2) was marshalled later.  Reproduced on the real code by the `race` harness. *)
Theorem C12_concurrent_checkpoint_refuted :
  let w := ow_run [OIssue (WPut 2); OIssue (WPut 1); OComplete true false; OComplete true false] in
  q_val w = Some 1%N /\ q_log w = [(1, WPut 1); (0, WPut 2)]%N.
Proof. vm_compute. split; reflexivity. Qed.
Print Assumptions C12_concurrent_checkpoint_refuted.

(* The Store contract every theorem above takes for granted (one store operation = one atomic step that either takes
   effect and reports success, or reports an error and changes nothing) — made explicit for the sqlite store: even
   with the database write lock held by another connection for some or all of the retry attempts, a data operation
   that returns nil has taken effect and one that returns an error has left the data unchanged.  Tied to the real
   pkg/opdb/sqlite store by the `sq` harness (temp-file database, second connection holding BEGIN IMMEDIATE). *)
Theorem C12_store_contract :
  forall s o s' r, sq_step s o = (s', r) ->
  match r with
  | Some true => sq_data s' = sq_effect o (sq_data s)
  | Some false => sq_data s' = sq_data s
  | None => sq_data s' = sq_data s
  end.
Proof. exact sq_contract. Qed.
Print Assumptions C12_store_contract.

Example C12_store_contract_nonvacuous :
  let run := fold_left (fun a o => let '(s, rs) := a in let '(s', r) := sq_step s o in (s', rs ++ [r])) in
  let '(s, rs) := run [SPut 1 7; SLock; SDel 1; SPut 2 9; SDelR 1; SLock; SUnlock; SPut 2 9] (sq_init, []) in
  rs = [Some true; None; Some false; Some false; Some true; None; None; Some true] /\ sq_data s = [(2, 9)]%N.
Proof. vm_compute. split; reflexivity. Qed.
Print Assumptions C12_store_contract_nonvacuous.

(* Addresses are reserved again before any new subscriber can be allocated one.  For every history (any completion
   order, crashes and restores anywhere — so in particular in the state right after a restart and at every later
   point) under the repaired write order, for IPoE or for PPPoE with the reservation in installInMemoryState:
   (1) every in-pool address of every session in the index is leased to that very session in the allocator;
   (2) hence no admissible answer of a fresh allocation (a free address of the pool) is an address of any session
       in the index — restored or not;
   (3) no two sessions in the index hold the same in-pool address.
   [pools_small]: the model's "static" addresses (index >= 1000) lie outside every pool. *)
Theorem C12_reserved_before_alloc :
  forall c ops s,
  c_ordered c = true -> Forall (delok c) ops -> reserves c -> pools_small c -> run c init ops = Some s ->
  (forall k r ad, aget k (live s) = Some r -> In ad (addrs r) -> inpool c ad = true ->
                  aget ad (leases s) = Some k) /\
  (forall fam a, fam < 3 -> alloc_ok c (leases s) fam (Some a) = true ->
                 forall k r, aget k (live s) = Some r -> ~ In (code fam a) (addrs r)) /\
  (forall k k' r r' ad, aget k (live s) = Some r -> aget k' (live s) = Some r' ->
                 In ad (addrs r) -> In ad (addrs r') -> inpool c ad = true -> k = k').
Proof. exact reserved_before_alloc. Qed.
Print Assumptions C12_reserved_before_alloc.

(* [Forall (delok c) ops]: the history contains no failing checkpoint Delete.  With one, the released session's
   addresses are free again while its image is still in the store (the residual window above): another subscriber can
   be given the address and be checkpointed, and a stop before the Delete lands restores BOTH — the reservation of
   the second one hits a conflict that is only logged. *)
Example C12_reserved_window_witness :
  exists s r0 r1, run (repaired IPoE 4 4 2) init
     [New (est 0) (Some 0) None None; Cks 0; RelF 0; New (est 1) (Some 0) None None; Cks 1; Crash true None 0%Z] = Some s /\
   aget 0 (live s) = Some r0 /\ aget 1 (live s) = Some r1 /\ s_v4 r0 = Some 0 /\ s_v4 r1 = Some 0.
Proof. eexists. eexists. eexists. split; [vm_compute; reflexivity|]. repeat split. Qed.
Print Assumptions C12_reserved_window_witness.

(* the restore step on its own, from ANY stopped state (not only reachable ones): if the store images of different
   sessions share no in-pool address, the restart leaves every restored session's in-pool addresses leased to it *)
Theorem C12_reserved_by_restore :
  forall c s (p : bool) f now,
  reserves c -> disjoint_images c (store s) ->
  let s' := fst (do_crash c s p f now) in
  (forall k r ad, aget k (live s') = Some r -> In ad (addrs r) -> inpool c ad = true ->
                  aget ad (leases s') = Some k) /\
  (forall fam a, fam < 3 -> alloc_ok c (leases s') fam (Some a) = true ->
                 forall k r, aget k (live s') = Some r -> ~ In (code fam a) (addrs r)).
Proof. exact reserved_after_restore. Qed.
Print Assumptions C12_reserved_by_restore.

(* before 7da5674 the PPPoE restore never re-reserved: after the restart the allocator may hand session 1 the address of the
   restored session 0 (write ordering repaired, so this is the second defect alone) *)
Definition pp_no_reserve : cfg :=
  {| c_proto := PPPoE; c_ordered := true; c_reserve := false; c_delretry := true; c_delforever := true; c_n4 := 4; c_n6 := 4; c_npd := 2 |}.
Theorem C12_reserved_before_alloc_refuted :
  exists ops s r0 r1, run pp_no_reserve init ops = Some s /\
    aget 0 (live s) = Some r0 /\ aget 1 (live s) = Some r1 /\ s_v4 r0 = Some 0 /\ s_v4 r1 = Some 0.
Proof.
  exists [New (est 0) (Some 0) None None; Ck 0; Done 0 false; Crash true None 0%Z; New (est 1) (Some 0) None None].
  eexists. eexists. eexists. split; [vm_compute; reflexivity|]. cbn. repeat split.
Qed.
Print Assumptions C12_reserved_before_alloc_refuted.

(* the unordered write discipline (before 657fd59) also lets an older image overwrite a newer one: the restored session carries the stamp
   of checkpoint 0 although checkpoint 1 had completed *)
Theorem C12_latest_image_refuted :
  exists ops s r, run (before_fixes IPoE 4 4 2) init ops = Some s /\ aget 0 (live s) = Some r /\ s_stamp r = Some 0.
Proof.
  exists [New (est 0) (Some 0) None None; Ck 0; Ck 0; Done 1 false; Done 0 false; Crash true None 0%Z].
  eexists. eexists. split; [vm_compute; reflexivity|]. cbn. split; reflexivity.
Qed.
Print Assumptions C12_latest_image_refuted.

(* non-vacuity: under the repaired discipline the overtaken Put is dropped, session 0 stays gone while session 1 is
   restored with its address reserved; the hypotheses of the three theorems are met by this history *)
Definition ex_ops : list op :=
  [New (est 0) (Some 0) None None; New (est 1) (Some 1) None None; Ck 0; Ck 1; Rel 0; Done 1 false; Done 0 false].
Example C12_nonvacuous :
  exists s, run (repaired PPPoE 4 4 2) init ex_ops = Some s /\ In 0 (released s) /\
    (exists r, aget 1 (store s) = Some r /\ expired (repaired PPPoE 4 4 2) 0 r = false /\
               replayed (repaired PPPoE 4 4 2) r = true) /\
    disjoint_images (repaired PPPoE 4 4 2) (store s) /\ reserves (repaired PPPoE 4 4 2) /\
    pools_small (repaired PPPoE 4 4 2) /\ c_ordered (repaired PPPoE 4 4 2) = true /\
    let s' := fst (do_crash (repaired PPPoE 4 4 2) s true None 0) in
    aget 0 (live s') = None /\ (exists r', aget 1 (live s') = Some r' /\ s_v4 r' = Some 1 /\ s_swif r' = 101) /\
    aget (code 0 1) (leases s') = Some 1 /\
    alloc_ok (repaired PPPoE 4 4 2) (leases s') 0 (Some 1) = false /\
    alloc_ok (repaired PPPoE 4 4 2) (leases s') 0 (Some 0) = true.
Proof.
  eexists. split; [vm_compute; reflexivity|]. split; [cbn; auto|]. split.
  { eexists. split; [vm_compute; reflexivity|]. split; vm_compute; reflexivity. }
  split.
  { intros k k' r r' ad G G'. cbn in G, G'.
    destruct (k =? 1) eqn:E; [|discriminate]. destruct (k' =? 1) eqn:E'; [|discriminate].
    apply N.eqb_eq in E, E'. congruence. }
  split; [right; reflexivity|].
  split; [unfold pools_small, static_base; cbn; repeat split; discriminate|]. split; [reflexivity|].
  vm_compute. repeat split; try reflexivity. eexists. repeat split.
Qed.
Print Assumptions C12_nonvacuous.
