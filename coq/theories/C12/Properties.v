From OV Require Import Common.Base C12.Model C12.Proofs.
Example C12_placeholder : init = init. Proof. reflexivity. Qed.
Print Assumptions C12_placeholder.
