(* C12/OWProofs.v — the order in which effects reach the Store is the issue order *)
From OV Require Import Common.Base C12.OWModel.
From Coq Require Import Sorting.Sorted ZifyBool ZifyNat ZifyN.
Open Scope N_scope.

(* seqs of a waiting queue are consecutive from lo *)
Fixpoint consec (lo : N) (q : list (N * wkind)) : Prop :=
  match q with
  | [] => True
  | (s, _) :: r => s = lo /\ consec (lo + 1) r
  end.

Lemma consec_snoc q : forall lo s op, consec lo q -> s = lo + N.of_nat (length q) -> consec lo (q ++ [(s, op)]).
Proof.
  induction q as [|[s0 o0] q IH]; intros lo s op C E; cbn [app consec length] in *.
  - split; auto. lia.
  - destruct C as (E0 & C). split; auto. apply IH; auto. lia.
Qed.

Definition desc (l : list N) : Prop := StronglySorted (fun a b => b < a) l.

Record owinv (w : owk) : Prop := {
  v_log_sorted : desc (map fst (q_log w));
  v_log_bound : Forall (fun s => s < q_serving w) (map fst (q_log w));
  v_infl : match q_infl w with
           | Some (s, _) => s = q_serving w /\ consec (q_serving w + 1) (q_queue w) /\
                            q_next w = q_serving w + 1 + N.of_nat (length (q_queue w))
           | None => q_queue w = [] /\ q_next w = q_serving w
           end;
  v_val : q_val w = match q_log w with
                    | [] => None | (_, WPut v) :: _ => Some v | (_, WDel) :: _ => None end }.

Lemma advance_spec ds : forall q sv res sv' q' infl res',
  consec sv q -> advance ds sv q res = (sv', q', infl, res') ->
  sv <= sv' /\
  match infl with
  | Some (s, _) => s = sv' /\ consec (sv' + 1) q' /\ sv' + 1 + N.of_nat (length q') = sv + N.of_nat (length q)
  | None => q' = [] /\ sv' = sv + N.of_nat (length q)
  end.
Proof.
  induction q as [|[s op] q IH]; intros sv res sv' q' infl res' C H; cbn [advance] in H.
  - inversion H; subst. split; [lia|]. split; auto. cbn. lia.
  - destruct C as (E & C). subst s. destruct (obsolete ds sv op).
    + apply IH in H; auto. destruct H as (L & H). split; [lia|].
      destruct infl as [[s o]|]; cbn [length]; [destruct H as (A & B & D)|destruct H as (A & B)]; repeat split; auto; lia.
    + inversion H; subst. split; [lia|]. repeat split; auto. cbn [length]. lia.
Qed.

Lemma owinv_init : owinv ow_init.
Proof. constructor; cbn; auto; constructor. Qed.

Lemma Forall_lt_mono (l : list N) a b : a <= b -> Forall (fun s => s < a) l -> Forall (fun s => s < b) l.
Proof. intros L F. eapply Forall_impl; [|exact F]. cbn. intros; lia. Qed.

Lemma ow_step_inv w e : owinv w -> owinv (ow_step w e).
Proof.
  intros [LS LB IF VV]. destruct e as [op|ok rt]; cbn [ow_step].
  - destruct (q_infl w) as [[s o]|] eqn:EI.
    + destruct IF as (E & C & NX). constructor; cbn [q_log q_serving q_infl q_queue q_next q_val]; auto.
      split; auto. split; [apply consec_snoc; auto; lia|]. rewrite app_length. cbn [length]. lia.
    + destruct IF as (EQ & NX). rewrite EQ. cbn [app].
      destruct (advance _ (q_serving w) [(q_next w, op)] (q_res w)) as [[[sv q] infl] res] eqn:AD.
      apply advance_spec in AD; [|cbn; split; auto; lia]. destruct AD as (L & AD).
      constructor; cbn [q_log q_serving q_infl q_queue q_next q_val]; auto.
      * eapply Forall_lt_mono; eauto.
      * destruct infl as [[s o]|]; cbn [length] in AD; [destruct AD as (A & B & D)|destruct AD as (A & B)];
          repeat split; auto; lia.
  - destruct (negb ok && rt); [constructor; auto|].
    destruct (q_infl w) as [[s o]|] eqn:EI; [|constructor; auto; rewrite EI; auto].
    destruct IF as (E & C & NX). subst s.
    destruct (advance (q_delseq w) (q_serving w + 1) (q_queue w) (q_res w ++ [(q_serving w, ok)]))
      as [[[sv q] infl] res] eqn:AD.
    apply advance_spec in AD; auto. destruct AD as (L & AD).
    constructor; cbn [q_log q_serving q_infl q_queue q_next q_val].
    + destruct ok; cbn [map fst]; auto. constructor; auto.
    + destruct ok; cbn [map fst].
      * constructor; [lia|]. eapply Forall_lt_mono; [|exact LB]. lia.
      * eapply Forall_lt_mono; [|exact LB]. lia.
    + destruct infl as [[s o']|]; [destruct AD as (A & B & D)|destruct AD as (A & B)]; repeat split; auto; lia.
    + destruct ok; auto.
Qed.

Lemma ow_run_inv evs : owinv (ow_run evs).
Proof.
  unfold ow_run. assert (H : forall w, owinv w -> owinv (fold_left ow_step evs w)).
  { induction evs as [|e evs IH]; intros w I; cbn [fold_left]; auto. apply IH, ow_step_inv; auto. }
  apply H, owinv_init.
Qed.

(* effects reach the store in issue order, and the stored value is the effect of the latest of them *)
Lemma writer_issue_order evs :
  let w := ow_run evs in
  desc (map fst (q_log w)) /\
  q_val w = match q_log w with [] => None | (_, WPut v) :: _ => Some v | (_, WDel) :: _ => None end /\
  (forall d s v, In (d, WDel) (q_log w) -> In (s, WPut v) (q_log w) -> s < d ->
     exists l1 l2 l3, q_log w = l1 ++ (d, WDel) :: l2 ++ (s, WPut v) :: l3).
Proof.
  intros w. destruct (ow_run_inv evs) as [LS LB IF VV]. fold w in LS, LB, IF, VV. split; auto. split; auto.
  intros d s v ID IS LT. apply in_split in ID. destruct ID as (l1 & l2 & E). exists l1.
  rewrite E in IS. apply in_app_or in IS. destruct IS as [IS|[IS|IS]].
  - (* the put would be newer than the delete: contradicts sortedness *)
    exfalso. rewrite E in LS. unfold desc in LS. rewrite map_app in LS. cbn [map fst] in LS.
    apply in_split in IS. destruct IS as (a & b & E1). subst l1. rewrite map_app in LS. cbn [map fst] in LS.
    rewrite <- app_assoc in LS. cbn [app] in LS.
    assert (SS : forall (x : list N) y, StronglySorted (fun a b => b < a) (x ++ y) -> StronglySorted (fun a b => b < a) y).
    { induction x; cbn; auto. intros y H. inversion H; auto. }
    apply SS in LS. apply StronglySorted_inv in LS. destruct LS as (_ & FA). rewrite Forall_forall in FA.
    assert (IN : In d (map fst b ++ d :: map fst l2)) by (apply in_or_app; right; left; auto).
    apply FA in IN. lia.
  - inversion IS.
  - apply in_split in IS. destruct IS as (a & b & E1). exists a, b. subst l2. auto.
Qed.
