(* C12/Window.v — an established session has its image in the store: invariant 3 over histories *)
From OV Require Import Common.Base C12.Model C12.Proofs.
From Coq Require Import ZifyBool ZifyNat ZifyN.
Open Scope N_scope.

Lemma same_core_sym a b : same_core a b -> same_core b a.
Proof. unfold same_core. intuition congruence. Qed.
Lemma same_core_trans a b c : same_core a b -> same_core b c -> same_core a c.
Proof. unfold same_core. intuition congruence. Qed.
Lemma same_core_stamp a b : same_core a b -> s_stamp b = s_stamp a.
Proof. unfold same_core. intuition. Qed.
Lemma same_core_set_stamp a b t : same_core a b -> same_core (set_stamp a t) (set_stamp b t).
Proof. unfold same_core. cbn. intuition. Qed.

Ltac d1 H := destruct H as [i_store_id0 i_live_id0 i_pend_tick0 i_appl_tick0 i_rel_used0 i_store_used0
                              i_live_used0 i_pend_used0 i_gone0].

Record inv3 (s : st) : Prop := {
  m_sync : forall i r t, aget i (live s) = Some r -> s_stamp r = Some t -> In (i, t) (completed s) ->
             exists r0, aget i (store s) = Some r0 /\ same_core r0 r;
  m_done : forall i t, In (i, t) (completed s) -> exists a, aget i (applied s) = Some a /\ t <= a;
  m_same : forall tn rp rl t, aget tn (pend s) = Some rp -> aget (s_id rp) (live s) = Some rl ->
             s_stamp rp = Some t -> s_stamp rl = Some t -> same_core rp rl;
  m_ord : forall tn rp rl t, aget tn (pend s) = Some rp -> aget (s_id rp) (live s) = Some rl ->
             s_stamp rl = Some t -> s_stamp rp = Some t \/ tn < t;
  m_pst : forall tn rp t, aget tn (pend s) = Some rp -> s_stamp rp = Some t -> t <= tn;
  m_lst : forall i r t, aget i (live s) = Some r -> s_stamp r = Some t -> t < tick s;
  m_sst : forall i r t, aget i (store s) = Some r -> s_stamp r = Some t -> t < tick s }.

Ltac d3 H := destruct H as [m_sync0 m_done0 m_same0 m_ord0 m_pst0 m_lst0 m_sst0].

Lemma inv3_init : inv3 init.
Proof. constructor; cbn; intros; try discriminate; contradiction. Qed.

(* ---- New ---- *)
Lemma do_new_shape c s n o4 o6 opd s' o :
  do_new c s n o4 o6 opd = Some (s', o) ->
  s' = s \/
  (exists r, s_stamp r = None /\ ~ In (n_id n) (used s) /\ live s' = aput (n_id n) r (live s) /\
     store s' = store s /\ pend s' = pend s /\ applied s' = applied s /\ completed s' = completed s /\
     tick s' = tick s).
Proof.
  intros H. unfold do_new in H.
  destruct (nmem (n_id n) (used s)) eqn:U; [inversion H; auto|].
  destruct (take_addr c (n_id n) (leases s) 0 (n_a4 n) o4) as [[a4 l1]|]; try discriminate.
  destruct (take_addr c (n_id n) l1 1 (n_a6 n) o6) as [[a6 l2]|]; try discriminate.
  destruct (take_addr c (n_id n) l2 2 (n_apd n) opd) as [[apd l3]|]; try discriminate.
  assert (NU : ~ In (n_id n) (used s)) by (rewrite <- nmem_In; congruence).
  right. destruct (n_crea n).
  - destruct (dp_add (n_id n) (dp s) (dpnext s)) as [[sw d1] nx1]. inversion H; subst s' o; clear H.
    eexists. cbn [live store pend applied completed tick]. repeat split; eauto.
  - inversion H; subst s' o; clear H.
    eexists. cbn [live store pend applied completed tick]. repeat split; eauto.
Qed.

Lemma do_new_inv3 c s n o4 o6 opd s' o :
  inv1 s -> inv3 s -> do_new c s n o4 o6 opd = Some (s', o) -> inv3 s'.
Proof.
  intros I1 I3 H. apply do_new_shape in H. destruct H as [->|(r & ST & NU & EL & ES & EP & EA & EC & ET)]; auto.
  d1 I1. d3 I3. constructor; rewrite ?EL, ?ES, ?EP, ?EA, ?EC, ?ET; auto.
  - intros i r0 t. rewrite aget_aput. eqb_case i (n_id n); [intros H; inversion H; subst; congruence|eauto].
  - intros tn rp rl t G. rewrite aget_aput_neq; eauto. intro E. apply NU. rewrite <- E. eauto.
  - intros tn rp rl t G. rewrite aget_aput_neq; eauto. intro E. apply NU. rewrite <- E. eauto.
  - intros i r0 t. rewrite aget_aput. eqb_case i (n_id n); [intros H; inversion H; subst; congruence|eauto].
Qed.

(* ---- Ck / Cks / CksF tails ---- *)
Lemma do_ck_inv3 s i : inv1 s -> inv3 s -> inv3 (fst (do_ck s i)).
Proof.
  intros I1 I3. unfold do_ck. destruct (aget i (live s)) as [r|] eqn:L; auto. d1 I1. d3 I3.
  constructor; cbn [fst store live pend tick applied completed].
  - intros j r0 t. rewrite aget_aput. eqb_case j i; [|eauto].
    intros H ST IN. inversion H; subst. cbn in ST. inversion ST; subst.
    destruct (m_done0 _ _ IN) as (a & A & LE). apply i_appl_tick0 in A. lia.
  - auto.
  - intros tn rp rl t G. apply aget_snoc in G. destruct G as [G|[E1 E2]].
    + rewrite aget_aput. eqb_case (s_id rp) i; [|eauto]. intros H SP SL. inversion H; subst. cbn in SL.
      inversion SL; subst. pose proof (m_pst0 _ _ _ G SP). apply i_pend_tick0 in G. lia.
    + subst. rewrite set_stamp_id, (i_live_id0 _ _ L), aget_aput_eq. intros H _ _. inversion H; subst.
      apply same_core_refl.
  - intros tn rp rl t G. apply aget_snoc in G. destruct G as [G|[E1 E2]].
    + rewrite aget_aput. eqb_case (s_id rp) i; [|eauto]. intros H SL. inversion H; subst. cbn in SL.
      inversion SL; subst. right. eauto.
    + subst. rewrite set_stamp_id, (i_live_id0 _ _ L), aget_aput_eq. intros H SL. inversion H; subst. auto.
  - intros tn rp t G. apply aget_snoc in G. destruct G as [G|[E1 E2]]; eauto. subst. cbn. intros H; inversion H; lia.
  - intros j r0 t. rewrite aget_aput. eqb_case j i.
    + intros H ST. inversion H; subst. cbn in ST. inversion ST; lia.
    + intros H ST. pose proof (m_lst0 _ _ _ H ST). lia.
  - intros j r0 t H ST. pose proof (m_sst0 _ _ _ H ST). lia.
Qed.

Lemma do_cks_inv3 s i : inv1 s -> inv3 s -> inv3 (fst (do_cks s i)).
Proof.
  intros I1 I3. unfold do_cks. destruct (aget i (live s)) as [r|] eqn:L; auto. d1 I1. d3 I3.
  constructor; cbn [fst store live pend tick applied completed].
  - intros j r0 t. rewrite !aget_aput. eqb_case j i.
    + intros H _ _. inversion H; subst. eexists. split; eauto. apply same_core_refl.
    + intros H ST [EQ|IN]; [inversion EQ; subst; congruence|eauto].
  - intros j t [EQ|IN].
    + inversion EQ; subst. rewrite aget_aput_eq. eexists. split; eauto. lia.
    + destruct (m_done0 _ _ IN) as (a & A & LE). rewrite aget_aput. eqb_case j i; eauto.
      apply i_appl_tick0 in A. eexists. split; eauto. lia.
  - intros tn rp rl t G. rewrite aget_aput. eqb_case (s_id rp) i; [|eauto]. intros H SP SL. inversion H; subst.
    cbn in SL. inversion SL; subst. pose proof (m_pst0 _ _ _ G SP). apply i_pend_tick0 in G. lia.
  - intros tn rp rl t G. rewrite aget_aput. eqb_case (s_id rp) i; [|eauto]. intros H SL. inversion H; subst.
    cbn in SL. inversion SL; subst. right. eauto.
  - auto.
  - intros j r0 t. rewrite aget_aput. eqb_case j i.
    + intros H ST. inversion H; subst. cbn in ST. inversion ST; lia.
    + intros H ST. pose proof (m_lst0 _ _ _ H ST). lia.
  - intros j r0 t. rewrite aget_aput. eqb_case j i.
    + intros H ST. inversion H; subst. cbn in ST. inversion ST; lia.
    + intros H ST. pose proof (m_sst0 _ _ _ H ST). lia.
Qed.

Lemma cksf_tail_inv3 s1 i r :
  inv1 s1 -> inv3 s1 -> aget i (live s1) = Some r ->
  inv3 {| store := store s1; pend := pend s1; tick := tick s1 + 1; applied := applied s1;
          live := aput i (set_stamp r (tick s1)) (live s1); leases := leases s1; dp := dp s1; dpnext := dpnext s1;
          released := released s1; used := used s1; poison := poison s1; completed := completed s1; delpend := delpend s1 |}.
Proof.
  intros I1 I3 L. d1 I1. d3 I3. constructor; cbn [store live pend tick applied completed].
  - intros j r0 t. rewrite aget_aput. eqb_case j i; [|eauto].
    intros H ST IN. inversion H; subst. cbn in ST. inversion ST; subst.
    destruct (m_done0 _ _ IN) as (a & A & LE). apply i_appl_tick0 in A. lia.
  - auto.
  - intros tn rp rl t G. rewrite aget_aput. eqb_case (s_id rp) i; [|eauto]. intros H SP SL. inversion H; subst.
    cbn in SL. inversion SL; subst. pose proof (m_pst0 _ _ _ G SP). apply i_pend_tick0 in G. lia.
  - intros tn rp rl t G. rewrite aget_aput. eqb_case (s_id rp) i; [|eauto]. intros H SL. inversion H; subst.
    cbn in SL. inversion SL; subst. right. eauto.
  - auto.
  - intros j r0 t. rewrite aget_aput. eqb_case j i.
    + intros H ST. inversion H; subst. cbn in ST. inversion ST; lia.
    + intros H ST. pose proof (m_lst0 _ _ _ H ST). lia.
  - intros j r0 t H ST. pose proof (m_sst0 _ _ _ H ST). lia.
Qed.

Lemma do_rel_inv3 s i : inv1 s -> inv3 s -> inv3 (fst (do_rel s i)).
Proof.
  intros I1 I3. unfold do_rel. destruct (aget i (live s)) as [r|] eqn:L; auto. d1 I1. d3 I3.
  constructor; cbn [fst store live pend tick applied completed].
  - intros j r0 t. rewrite !aget_aremove. eqb_case j i; [discriminate|eauto].
  - intros j t IN. destruct (m_done0 _ _ IN) as (a & A & LE). rewrite aget_aput. eqb_case j i; eauto.
    apply i_appl_tick0 in A. eexists. split; eauto. lia.
  - intros tn rp rl t G. rewrite aget_aremove. eqb_case (s_id rp) i; [discriminate|eauto].
  - intros tn rp rl t G. rewrite aget_aremove. eqb_case (s_id rp) i; [discriminate|eauto].
  - auto.
  - intros j r0 t. rewrite aget_aremove. eqb_case j i; [discriminate|]. intros H ST.
    pose proof (m_lst0 _ _ _ H ST). lia.
  - intros j r0 t. rewrite aget_aremove. eqb_case j i; [discriminate|]. intros H ST.
    pose proof (m_sst0 _ _ _ H ST). lia.
Qed.

Lemma inv3_pend_sub s pd po :
  inv3 s -> (forall t r, aget t pd = Some r -> aget t (pend s) = Some r) -> inv3 (set_pend_poison s pd po).
Proof. intros I3 SUB. d3 I3. constructor; cbn [set_pend_poison store live pend tick applied completed]; eauto. Qed.

Lemma do_done_core_inv3 c s t rt : c_ordered c = true -> inv1 s -> inv3 s -> inv3 (fst (do_done_core c s t rt)).
Proof.
  intros O I1 I3. unfold do_done_core. destruct (aget t (pend s)) as [rp|] eqn:P; auto.
  assert (SUB : forall t' r', aget t' (aremove t (pend s)) = Some r' -> aget t' (pend s) = Some r').
  { intros t' r'. rewrite aget_aremove. destruct (N.eqb t' t); [discriminate|auto]. }
  destruct (aget t (poison s)) as [al|] eqn:PO.
  { destruct rt; cbn [fst]; apply inv3_pend_sub; auto. }
  destruct (effective c s (s_id rp) t) eqn:EF; cbn [fst].
  2:{ d3 I3. constructor; cbn [store live pend tick applied completed]; eauto. }
  rewrite effective_ord in EF by auto. d1 I1. d3 I3.
  assert (TT : t < tick s) by eauto.
  constructor; cbn [store live pend tick applied completed].
  - intros j rl tj GL SL IN. rewrite aget_aput. eqb_case j (s_id rp); [|].
    + eexists. split; eauto.
      assert (OLD : In (s_id rp, tj) (completed s) -> same_core rp rl).
      { intros IN0. destruct (m_done0 _ _ IN0) as (a & A & LE). rewrite A in EF. apply N.ltb_lt in EF.
        destruct (m_ord0 _ _ _ _ P GL SL) as [SP|LT]; [eapply m_same0; eauto|lia]. }
      destruct (s_stamp rp) as [ts|] eqn:SP; auto. destruct IN as [EQ|IN]; auto.
      inversion EQ; subst. eapply m_same0; eauto.
    + apply (m_sync0 _ _ _ GL SL). destruct (s_stamp rp); auto. destruct IN as [EQ|IN]; auto. inversion EQ; congruence.
  - intros j tj IN.
    assert (OLD : In (j, tj) (completed s) -> exists a, aget j (aput (s_id rp) t (applied s)) = Some a /\ tj <= a).
    { intros IN0. destruct (m_done0 _ _ IN0) as (a & A & LE). rewrite aget_aput. eqb_case j (s_id rp); eauto.
      rewrite A in EF. apply N.ltb_lt in EF. eexists. split; eauto. lia. }
    destruct (s_stamp rp) as [ts|] eqn:SP; auto. destruct IN as [EQ|IN]; auto. inversion EQ; subst.
    rewrite aget_aput_eq. eexists. split; eauto.
  - intros tn r1 rl tj G. apply SUB in G. eauto.
  - intros tn r1 rl tj G. apply SUB in G. eauto.
  - intros tn r1 tj G. apply SUB in G. eauto.
  - auto.
  - intros j r0 tj. rewrite aget_aput. eqb_case j (s_id rp); [|eauto]. intros H ST. inversion H; subst.
    pose proof (m_pst0 _ _ _ P ST). lia.
Qed.

Lemma flush_inv13 c ts : forall s, c_ordered c = true -> inv1 s -> inv3 s ->
  inv1 (fold_left (fun s0 t => fst (do_done_core c s0 t false)) ts s) /\
  inv3 (fold_left (fun s0 t => fst (do_done_core c s0 t false)) ts s).
Proof.
  induction ts as [|t ts IH]; intros s O I1 I3; cbn [fold_left]; auto.
  apply IH; auto. apply do_done_core_inv1; auto. apply do_done_core_inv3; auto.
Qed.

Lemma do_done_inv3 c s t rt : c_ordered c = true -> inv1 s -> inv3 s -> inv3 (fst (do_done c s t rt)).
Proof.
  intros O I1 I3. unfold do_done. destruct (aget t (pend s)) as [r|]; [|apply do_done_core_inv3; auto].
  destruct (aget t (poison s)); [|apply do_done_core_inv3; auto]. rewrite O.
  destruct (flush_inv13 c (map fst (filter (fun tr => (s_id (snd tr) =? s_id r) && (fst tr <? t)) (pend s))) s O I1 I3).
  apply do_done_core_inv3; auto.
Qed.

Lemma do_poison_inv3 s t al : inv3 s -> inv3 (fst (do_poison s t al)).
Proof. intros I. unfold do_poison. destruct (aget t (pend s)); auto. cbn [fst]. apply inv3_pend_sub; auto. Qed.

Lemma do_cksf_inv3 c s i : c_ordered c = true -> inv1 s -> inv3 s -> inv3 (fst (do_cksf c s i)).
Proof.
  intros O I1 I3. unfold do_cksf. destruct (aget i (live s)) as [r|] eqn:L; auto. rewrite O. cbn [fst].
  destruct (flush_inv13 c (map fst (filter (fun tr => (s_id (snd tr) =? i) && (fst tr <? tick s)) (pend s))) s O I1 I3)
    as (J1 & J3).
  destruct (flush_inv1 c (map fst (filter (fun tr => (s_id (snd tr) =? i) && (fst tr <? tick s)) (pend s))) s O I1) as (_ & B).
  fold (flush c s i (tick s)) in J1, J3, B. apply cksf_tail_inv3; auto. rewrite B. auto.
Qed.

Lemma relf_tail_inv3 s1 i r ls d dl :
  inv1 s1 -> inv3 s1 -> aget i (live s1) = Some r ->
  inv3 {| store := store s1; pend := pend s1; tick := tick s1 + 1; applied := aput i (tick s1) (applied s1);
          live := aremove i (live s1); leases := ls; dp := d; dpnext := dpnext s1; released := released s1;
          used := used s1; poison := poison s1; completed := completed s1; delpend := dl |}.
Proof.
  intros I1 I3 L. d1 I1. d3 I3. constructor; cbn [store live pend tick applied completed].
  - intros j r0 t. rewrite aget_aremove. eqb_case j i; [discriminate|eauto].
  - intros j t IN. destruct (m_done0 _ _ IN) as (a & A & LE). rewrite aget_aput. eqb_case j i; eauto.
    apply i_appl_tick0 in A. eexists. split; eauto. lia.
  - intros tn rp rl t G. rewrite aget_aremove. eqb_case (s_id rp) i; [discriminate|eauto].
  - intros tn rp rl t G. rewrite aget_aremove. eqb_case (s_id rp) i; [discriminate|eauto].
  - auto.
  - intros j r0 t. rewrite aget_aremove. eqb_case j i; [discriminate|]. intros H ST.
    pose proof (m_lst0 _ _ _ H ST). lia.
  - intros j r0 t H ST. pose proof (m_sst0 _ _ _ H ST). lia.
Qed.

Lemma do_relf_inv3 c s i : c_ordered c = true -> inv1 s -> inv3 s -> inv3 (fst (do_relf c s i)).
Proof.
  intros O I1 I3. unfold do_relf. destruct (aget i (live s)) as [r|] eqn:L; auto. fold (relf_pre c s i). cbn [fst].
  apply (relf_tail_inv3 (relf_pre c s i) i r).
  - apply relf_pre_inv1; auto.
  - unfold relf_pre. rewrite O. destruct (first_of c s i (pend s)); auto. apply do_done_core_inv3; auto.
  - rewrite relf_pre_live. auto.
Qed.

Lemma do_delretry_inv3 s i ok : inv1 s -> inv4 s -> inv3 s -> inv3 (fst (do_delretry s i ok)).
Proof.
  intros I1 I4 I3. unfold do_delretry. destruct (aget i (delpend s)) as [[|]|] eqn:G; auto. destruct ok; auto.
  pose proof (d_live s I4 i false G) as LN. d1 I1. d3 I3.
  constructor; cbn [fst store live pend tick applied completed].
  - intros j r0 t GL ST IN. rewrite aget_aremove_neq; eauto. intro; subst. congruence.
  - intros j t IN. destruct (m_done0 _ _ IN) as (a & A & LE). rewrite aget_aput. eqb_case j i; eauto.
    apply i_appl_tick0 in A. eexists. split; eauto. lia.
  - auto.
  - auto.
  - auto.
  - intros j r0 t H ST. pose proof (m_lst0 _ _ _ H ST). lia.
  - intros j r0 t. rewrite aget_aremove. eqb_case j i; [discriminate|]. intros H ST.
    pose proof (m_sst0 _ _ _ H ST). lia.
Qed.

Lemma set_delpend_inv3 s d : inv3 s -> inv3 (set_delpend s d).
Proof. intros I. d3 I. constructor; cbn [set_delpend store live pend tick applied completed]; auto. Qed.

Lemma do_giveup_inv3 c s i : inv3 s -> inv3 (fst (do_giveup c s i)).
Proof.
  intros I. unfold do_giveup. destruct (aget i (delpend s)) as [[|]|]; auto. destruct (c_delforever c); auto.
  apply set_delpend_inv3; auto.
Qed.

(* ---- crash + restore ---- *)
(* loop invariant of the restore w.r.t. the surviving store image store0 *)
Record xinv (c : cfg) (now : Z) (store0 : list (N * sess)) (s : st) : Prop := {
  x_live : forall k rl, aget k (live s) = Some rl ->
             exists r0 rc, aget k store0 = Some r0 /\ expired c now r0 = false /\ same_core r0 rl /\
                           aget k (store s) = Some rc /\ same_core rc rl;
  x_store : forall k rc, aget k (store s) = Some rc -> exists r0, aget k store0 = Some r0 /\ same_core r0 rc;
  x_keep : forall k r0, aget k store0 = Some r0 -> expired c now r0 = false ->
             exists rc, aget k (store s) = Some rc /\ same_core r0 rc;
  x_pend : forall tn rp, aget tn (pend s) = Some rp ->
             exists rl, aget (s_id rp) (live s) = Some rl /\ same_core rp rl /\
                        (forall ts, s_stamp rp = Some ts -> ts <= tn) /\ tn < tick s }.

Lemma restore_one_xinv c now f cause store0 s lg k :
  (forall k r, aget k store0 = Some r -> s_id r = k) ->
  (forall k r t, aget k store0 = Some r -> s_stamp r = Some t -> t < tick s) ->
  xinv c now store0 s ->
  xinv c now store0 (fst (restore_one c now f cause store0 (s, lg) k)) /\
  tick s <= tick (fst (restore_one c now f cause store0 (s, lg) k)) /\
  applied (fst (restore_one c now f cause store0 (s, lg) k)) = applied s /\
  completed (fst (restore_one c now f cause store0 (s, lg) k)) = completed s.
Proof.
  intros IDS STT XI. unfold restore_one.
  destruct (aget k store0) as [r|] eqn:G; [|cbn [fst]; split; [auto|split; [lia|auto]]].
  destruct XI as [XL XS XK XP].
  destruct (expired c now r) eqn:EX.
  { cbn [fst upd_store]. split; [|split; [cbn; lia|split; reflexivity]]. constructor; cbn [upd_store store live pend tick].
    - intros k0 rl GL. destruct (XL _ _ GL) as (r0 & rc & A & B & C & D & E). exists r0, rc. split; [auto|split; [auto|split; [auto|split; [|auto]]]].
      rewrite aget_aremove_neq; auto. intro; subst. congruence.
    - intros k0 rc. rewrite aget_aremove. destruct (N.eqb k0 k); [discriminate|auto].
    - intros k0 r0 G0 E0. rewrite aget_aremove_neq; auto. intro; subst. congruence.
    - auto. }
  (* common tail: the session is (re)installed from an image rX with the core of r *)
  assert (INST : forall (rS rL : sess) (st' : list (N * sess)) pd' tk' lv' ls d nx,
             (forall k0, aget k0 lv' = aget k0 (aput k rL (live s))) ->
             same_core r rS -> same_core r rL ->
             (st' = store s \/ st' = aput k rS (store s)) ->
             (pd' = pend s /\ tk' = tick s \/ pd' = pend s ++ [(tick s, rL)] /\ tk' = tick s + 1) ->
             xinv c now store0
               {| store := st'; pend := pd'; tick := tk'; applied := applied s; live := lv';
                  leases := ls; dp := d; dpnext := nx; released := released s; used := used s;
                  poison := poison s; completed := completed s; delpend := delpend s |}).
  { intros rS rL st' pd' tk' lv' ls d nx HL CS CL HS HP.
    assert (SK : exists rc, aget k st' = Some rc /\ same_core r rc).
    { destruct HS as [->| ->]; [apply XK; auto | rewrite aget_aput_eq; eauto]. }
    assert (SO : forall k0, k0 <> k -> aget k0 st' = aget k0 (store s)).
    { intros k0 NE. destruct HS as [->| ->]; auto. apply aget_aput_neq; auto. }
    constructor; cbn [store live pend tick].
    - intros k0 rl. rewrite HL, aget_aput. eqb_case k0 k.
      + intros H. inversion H; subst. destruct SK as (rc & A & B). exists r, rc.
        split; [auto|split; [auto|split; [auto|split; [auto|]]]].
        eapply same_core_trans; [apply same_core_sym; eauto|auto].
      + intros GL. destruct (XL _ _ GL) as (r0 & rc & A & B & C & D & E0). exists r0, rc. rewrite SO; auto 10.
    - intros k0 rc. destruct (N.eq_dec k0 k) as [->|NE].
      + intros H. destruct SK as (rc' & A & B). exists r. split; auto. congruence.
      + rewrite SO; auto.
    - intros k0 r0 G0 E0. destruct (N.eq_dec k0 k) as [->|NE].
      + rewrite G in G0. inversion G0; subst. auto.
      + rewrite SO; auto.
    - intros tn rp GP.
      assert (OLD : aget tn (pend s) = Some rp ->
               exists rl, aget (s_id rp) lv' = Some rl /\ same_core rp rl /\
                          (forall ts, s_stamp rp = Some ts -> ts <= tn) /\ tn < tk').
      { intros G0. destruct (XP _ _ G0) as (rl & A & B & C & D). rewrite HL, aget_aput. eqb_case (s_id rp) k.
        - exists rL. split; [auto|split; [|split; [auto|destruct HP as [(_ & ->)|(_ & ->)]; lia]]].
          destruct (XL _ _ A) as (r0 & rc & A1 & A2 & A3 & A4 & A5). rewrite G in A1.
          assert (r0 = r) by congruence. subst r0.
          apply (same_core_trans _ rl); [exact B|]. apply (same_core_trans _ r); [apply same_core_sym; exact A3|exact CL].
        - exists rl. split; [auto|split; [auto|split; [auto|destruct HP as [(_ & ->)|(_ & ->)]; lia]]]. }
      destruct HP as [(-> & ->)|(-> & ->)]; auto.
      apply aget_snoc in GP. destruct GP as [GP|[E1 E2]]; auto. subst.
      assert (IDL : s_id rL = k). { destruct CL as (A & _). rewrite A. apply IDS; auto. }
      rewrite HL, IDL, aget_aput_eq. exists rL. split; [auto|split; [apply same_core_refl|split; [|lia]]].
      intros ts ST. rewrite (same_core_stamp _ _ CL) in ST. pose proof (STT _ _ _ G ST). lia. }
  destruct (match c_proto c with IPoE => s_appr r && negb (s_crea r) | PPPoE => false end).
  { cbn [fst install upd_store]. split; [|split; [cbn; lia|split; reflexivity]].
    apply (INST (set_appr r false) (set_appr r false)); auto using same_core_appr. }
  destruct (replayed c r).
  2:{ cbn [fst install]. split; [|split; [cbn; lia|split; reflexivity]].
      apply (INST r r); auto using same_core_refl. }
  destruct (match f with Some f0 => f0 =? k | None => false end).
  { cbn [fst install]. split; [|split; [cbn; lia|split; reflexivity]]. apply (INST r r); auto using same_core_refl. }
  destruct (dp_add k (dp (install c s k r)) (dpnext (install c s k r))) as [[sw d1] nx1].
  cbn [fst install store pend tick applied live completed]. split; [|split; [cbn; lia|split; reflexivity]].
  apply (INST r (set_prog r sw)); auto using same_core_refl, same_core_prog.
  intros k0. rewrite !aget_aput. destruct (N.eqb k0 k); auto.
Qed.

Lemma restore_fold_xinv c now f cause store0 ks : forall s lg,
  (forall k r, aget k store0 = Some r -> s_id r = k) ->
  (forall k r t, aget k store0 = Some r -> s_stamp r = Some t -> t < tick s) ->
  xinv c now store0 s ->
  xinv c now store0 (fst (fold_left (restore_one c now f cause store0) ks (s, lg))) /\
  tick s <= tick (fst (fold_left (restore_one c now f cause store0) ks (s, lg))) /\
  applied (fst (fold_left (restore_one c now f cause store0) ks (s, lg))) = applied s /\
  completed (fst (fold_left (restore_one c now f cause store0) ks (s, lg))) = completed s.
Proof.
  induction ks as [|k ks IH]; intros s lg IDS STT XI; cbn [fold_left].
  - cbn [fst]. split; [auto|split; [lia|auto]].
  - destruct (restore_one_xinv c now f cause store0 s lg k IDS STT XI) as (X1 & T1 & A1 & C1).
    destruct (restore_one c now f cause store0 (s, lg) k) as [s1 lg1]. cbn [fst] in *.
    destruct (IH s1 lg1 IDS) as (X2 & T2 & A2 & C2); auto.
    + intros k0 r t G ST. pose proof (STT _ _ _ G ST). lia.
    + split; [auto|split; [lia|split; congruence]].
Qed.

Lemma do_crash_inv3 c s (p : bool) f now : inv1 s -> inv3 s -> inv3 (fst (do_crash c s p f now)).
Proof.
  intros I1 I3. d1 I1. d3 I3. unfold do_crash.
  match goal with |- context [fold_left (restore_one c now f ?CA (store s)) ?L (?S0, ?LG)] =>
    pose proof (restore_fold_xinv c now f CA (store s) L S0 LG i_store_id0) as HX end.
  destruct (fold_left _ _ _) as [s1 lg]. cbn [fst tick applied completed] in *.
  destruct HX as ([XL XS XK XP] & TK & AP & CO).
  { intros k r t G ST. eauto. }
  { constructor; cbn [store live pend tick]; intros; try discriminate; eauto using same_core_refl. }
  constructor.
  - intros k rl t GL _ _. destruct (XL _ _ GL) as (r0 & rc & A & B & C & D & E). eauto.
  - rewrite AP, CO. auto.
  - intros tn rp rl t GP GL _ _. destruct (XP _ _ GP) as (rl' & A & B & _). congruence.
  - intros tn rp rl t GP GL SL. left. destruct (XP _ _ GP) as (rl' & A & B & _).
    assert (rl' = rl) by congruence. subst. rewrite <- (same_core_stamp _ _ B). auto.
  - intros tn rp t GP ST. destruct (XP _ _ GP) as (rl' & A & B & C & D). auto.
  - intros k rl t GL ST. destruct (XL _ _ GL) as (r0 & rc & A & B & C & D & E).
    rewrite (same_core_stamp _ _ C) in ST. pose proof (m_sst0 _ _ _ A ST). lia.
  - intros k rc t G ST. destruct (XS _ _ G) as (r0 & A & B).
    rewrite (same_core_stamp _ _ B) in ST. pose proof (m_sst0 _ _ _ A ST). lia.
Qed.

Lemma set_dp_inv3 s d : inv3 s -> inv3 (set_dp s d).
Proof. intros I. d3 I. constructor; cbn [set_dp store live pend tick applied completed]; auto. Qed.

Lemma do_relstop_inv3 c s i pd (p : bool) f now :
  c_ordered c = true -> inv1 s -> inv3 s -> inv3 (fst (do_relstop c s i pd p f now)).
Proof.
  intros O I1 I3. rewrite do_relstop_fst. apply do_crash_inv3.
  - apply relstop_pre_inv1; auto.
  - unfold relstop_pre.
    assert (J : inv3 (if pd && c_ordered c then
                match first_of c s i (pend s) with Some t0 => fst (do_done_core c s t0 false) | None => s end else s)).
    { destruct (pd && c_ordered c); auto. destruct (first_of c s i (pend s)); auto. apply do_done_core_inv3; auto. }
    destruct (match aget i (live s) with Some r => negb (s_swif r =? 0) | None => false end); auto.
    apply set_dp_inv3; auto.
Qed.

(* the in-memory update of a bind: the image is unstamped until the checkpoint that follows stamps it *)
Lemma upd_live_inv3 s i r r2 ls d :
  inv1 s -> inv3 s -> aget i (live s) = Some r -> s_stamp r2 = None -> inv3 (upd_live s i r2 ls d).
Proof.
  intros I1 I3 L ST. d1 I1. d3 I3. constructor; cbn [upd_live store live pend tick applied completed]; auto.
  - intros j r0 t. rewrite aget_aput. eqb_case j i; [intros H; inversion H; subst; congruence|eauto].
  - intros tn rp rl t G. rewrite aget_aput. eqb_case (s_id rp) i; [intros H; inversion H; subst; congruence|eauto].
  - intros tn rp rl t G. rewrite aget_aput. eqb_case (s_id rp) i; [intros H; inversion H; subst; congruence|eauto].
  - intros j r0 t. rewrite aget_aput. eqb_case j i; [intros H; inversion H; subst; congruence|eauto].
Qed.

Lemma do_bind4_inv3 c s i l o s' out :
  inv1 s -> inv3 s -> do_bind4 c s i l o = Some (s', out) -> inv3 s'.
Proof.
  intros I1 I3 H. apply do_bind4_shape in H. destruct H as [->|(r & a & ls & d & L & -> & _)]; auto.
  apply do_ck_inv3; [eapply upd_live_inv1; eauto|eapply upd_live_inv3; eauto].
Qed.

Lemma step_inv13 c s o s' out :
  c_ordered c = true ->
  (inv1 s /\ inv4 s) /\ inv3 s -> step c s o = Some (s', out) -> (inv1 s' /\ inv4 s') /\ inv3 s'.
Proof.
  intros O ((I1 & I4) & I3) H. split; [eapply step_inv14; eauto|].
  destruct o; cbn [step] in H.
  - eapply do_new_inv3; eauto.
  - inversion H. change s' with (fst (s', out)). rewrite <- H1. apply do_ck_inv3; auto.
  - inversion H. change s' with (fst (s', out)). rewrite <- H1. apply do_cks_inv3; auto.
  - inversion H. change s' with (fst (s', out)). rewrite <- H1. apply do_rel_inv3; auto.
  - inversion H. change s' with (fst (s', out)). rewrite <- H1. apply do_done_inv3; auto.
  - inversion H. change s' with (fst (s', out)). rewrite <- H1. apply do_poison_inv3; auto.
  - inversion H. change s' with (fst (s', out)). rewrite <- H1. apply do_cksf_inv3; auto.
  - inversion H. change s' with (fst (s', out)). rewrite <- H1. apply do_relf_inv3; auto.
  - inversion H. change s' with (fst (s', out)). rewrite <- H1. apply do_delretry_inv3; auto.
  - inversion H. change s' with (fst (s', out)). rewrite <- H1. apply do_giveup_inv3; auto.
  - eapply do_bind4_inv3; eauto.
  - inversion H; subst; auto.
  - inversion H. change s' with (fst (s', out)). rewrite <- H1. apply do_crash_inv3; auto.
  - inversion H. change s' with (fst (s', out)). rewrite <- H1. apply do_relstop_inv3; auto.
Qed.

(* an established session whose latest checkpoint took effect has its image in the store *)
Lemma established_has_image c ops s :
  c_ordered c = true -> run c init ops = Some s ->
  forall i r t, aget i (live s) = Some r -> s_stamp r = Some t -> In (i, t) (completed s) ->
  (exists r0, aget i (store s) = Some r0 /\ same_core r0 r) /\
  (forall (p : bool) f now, expired c now r = false ->
     exists r', aget i (live (fst (do_crash c s p f now))) = Some r' /\ same_core r r').
Proof.
  intros O R i r t GL ST IN.
  assert (I : inv1 s /\ inv3 s).
  { assert (J : (inv1 s /\ inv4 s) /\ inv3 s); [|tauto].
    eapply (run_inv (fun s => (inv1 s /\ inv4 s) /\ inv3 s) c); eauto.
    - intros. eapply step_inv13; eauto.
    - split; [split; [apply inv1_init|apply inv4_init]|apply inv3_init]. }
  destruct I as (I1 & I3). destruct (m_sync s I3 i r t GL ST IN) as (r0 & G0 & SC).
  split; [eauto|]. intros p f now EX.
  assert (EX0 : expired c now r0 = false).
  { unfold expired in *. destruct SC as (_ & B & _ & V4 & _ & _ & _ & L4 & B4 & L6 & B6 & V6B).
    rewrite <- B, <- V4, <- L4, <- B4, <- L6, <- B6, <- V6B. auto. }
  destruct (established_restored c s p f now i r0 G0 EX0) as (lg & _ & r' & GL' & SC' & _).
  exists r'. split; auto. eapply same_core_trans; [apply same_core_sym; eauto|auto].
Qed.

(* how a pair enters [completed]: a synchronous checkpoint, or the completion of an effective asynchronous Put that
   the fault plan does not fail; and it never leaves *)
Lemma completed_by_sync s i r :
  aget i (live s) = Some r -> In (i, tick s) (completed (fst (do_cks s i))) /\
  exists r', aget i (live (fst (do_cks s i))) = Some r' /\ s_stamp r' = Some (tick s).
Proof.
  intros L. unfold do_cks. rewrite L. cbn [fst completed live]. split; [left; auto|].
  rewrite aget_aput_eq. eexists. split; eauto.
Qed.

Lemma completed_by_done c s t rp ts :
  aget t (pend s) = Some rp -> aget t (poison s) = None -> effective c s (s_id rp) t = true ->
  s_stamp rp = Some ts -> In (s_id rp, ts) (completed (fst (do_done c s t false))).
Proof.
  intros P PO EF ST. unfold do_done. rewrite P, PO. unfold do_done_core. rewrite P, PO, EF. cbn [fst completed].
  rewrite ST. left. auto.
Qed.

(* a stop in the middle of a release: the session is not counted as released; it is restored iff its image is (still)
   in the store — in particular when the write that was at the Store completed and the Delete queued behind it did not *)
Lemma stop_during_release c s i pd (p : bool) f now :
  released (fst (do_relstop c s i pd p f now)) = released s /\
  (forall k r, aget k (store (relstop_pre c s i pd)) = Some r -> expired c now r = false ->
     exists r', aget k (live (fst (do_relstop c s i pd p f now))) = Some r' /\ same_core r r').
Proof.
  rewrite do_relstop_fst. split.
  - assert (R0 : released (relstop_pre c s i pd) = released s).
    { unfold relstop_pre.
      assert (R1 : released (if pd && c_ordered c then
                match first_of c s i (pend s) with Some t0 => fst (do_done_core c s t0 false) | None => s end else s)
                = released s).
      { destruct (pd && c_ordered c); auto. destruct (first_of c s i (pend s)); auto.
        unfold do_done_core. destruct (aget n (pend s)); auto. destruct (aget n (poison s)); [destruct false; auto|].
        destruct (effective c s (s_id s0) n); auto. }
      destruct (match aget i (live s) with Some r => negb (s_swif r =? 0) | None => false end); auto. }
    rewrite <- R0. unfold do_crash.
    match goal with |- context [fold_left (restore_one c now f ?CA ?ST) ?L (?S0, ?LG)] =>
      assert (G : forall ks a, released (fst (fold_left (restore_one c now f CA ST) ks a)) = released (fst a)) end.
    { induction ks as [|k ks IH]; intros [s0 lg0]; cbn [fold_left]; auto. rewrite IH. cbn [fst].
      unfold restore_one. destruct (aget k (store (relstop_pre c s i pd))); auto. destruct (expired c now s1); auto.
      destruct (match c_proto c with IPoE => s_appr s1 && negb (s_crea s1) | PPPoE => false end); auto.
      destruct (replayed c s1); auto. destruct (match f with Some f0 => f0 =? k | None => false end); auto.
      destruct (dp_add k (dp (install c s0 k s1)) (dpnext (install c s0 k s1))) as [[sw d1] nx1]. auto. }
    destruct (fold_left _ _ _) as [s4 lg] eqn:E. cbn [fst].
    change s4 with (fst (s4, lg)). rewrite <- E, G. reflexivity.
  - intros k r G EX.
    destruct (established_restored c (relstop_pre c s i pd) p f now k r G EX) as (lg & _ & r' & GL & SC & _). eauto.
Qed.

(* ---- the residual window of a failed checkpoint Delete ---- *)
(* a successful repetition makes the release durable *)
Lemma delete_retry_closes s i :
  aget i (delpend s) = Some false ->
  let s' := fst (do_delretry s i true) in
  In i (released s') /\ aget i (store s') = None /\ aget i (delpend s') = None.
Proof.
  intros G s'. unfold s', do_delretry. rewrite G. cbn [fst released store delpend].
  rewrite !aget_aremove_eq. repeat split; auto. left; auto.
Qed.

(* while it is outstanding the session is not (yet) released, and a stop restores it from the image that is still there *)
Lemma delete_pending_window c ops s :
  c_ordered c = true -> run c init ops = Some s ->
  forall i g, aget i (delpend s) = Some g ->
  aget i (live s) = None /\
  (forall r (p : bool) f now, aget i (store s) = Some r -> expired c now r = false ->
     exists r', aget i (live (fst (do_crash c s p f now))) = Some r' /\ same_core r r').
Proof.
  intros O R i g G.
  assert (J : inv1 s /\ inv4 s).
  { eapply (run_inv (fun s => inv1 s /\ inv4 s) c); eauto.
    - intros. eapply step_inv14; eauto.
    - split; [apply inv1_init|apply inv4_init]. }
  destruct J as (_ & I4). split; [eapply d_live; eauto|].
  intros r p f now GS EX.
  destruct (established_restored c s p f now i r GS EX) as (lg & _ & r' & GL & SC & _). eauto.
Qed.

(* ---- [completed] only grows ---- *)
Lemma do_done_core_completed c s t rt x : In x (completed s) -> In x (completed (fst (do_done_core c s t rt))).
Proof.
  intros IN. unfold do_done_core. destruct (aget t (pend s)); auto. destruct (aget t (poison s)); [destruct rt; auto|].
  destruct (effective c s (s_id s0) t); auto. cbn [fst completed]. destruct (s_stamp s0); auto. right; auto.
Qed.

Lemma fold_done_completed c ts x : forall s, In x (completed s) ->
  In x (completed (fold_left (fun s0 t => fst (do_done_core c s0 t false)) ts s)).
Proof. induction ts as [|t ts IH]; intros s IN; cbn [fold_left]; auto. apply IH, do_done_core_completed; auto. Qed.

Lemma restore_one_completed c now f cause store0 s lg k :
  completed (fst (restore_one c now f cause store0 (s, lg) k)) = completed s.
Proof.
  unfold restore_one. destruct (aget k store0) as [r|]; auto. destruct (expired c now r); auto.
  destruct (match c_proto c with IPoE => s_appr r && negb (s_crea r) | PPPoE => false end); auto.
  destruct (replayed c r); auto. destruct (match f with Some f0 => f0 =? k | None => false end); auto.
  destruct (dp_add k (dp (install c s k r)) (dpnext (install c s k r))) as [[sw d1] nx1]. auto.
Qed.

Lemma do_crash_completed c s p f now : completed (fst (do_crash c s p f now)) = completed s.
Proof.
  unfold do_crash.
  match goal with |- context [fold_left (restore_one c now f ?CA ?ST) ?L (?S0, ?LG)] =>
    assert (G : forall ks a, completed (fst (fold_left (restore_one c now f CA ST) ks a)) = completed (fst a)) end.
  { induction ks as [|k ks IH]; intros [s0 lg0]; cbn [fold_left]; auto. rewrite IH. apply restore_one_completed. }
  destruct (fold_left _ _ _) as [s4 lg] eqn:E. cbn [fst]. change s4 with (fst (s4, lg)). rewrite <- E, G. reflexivity.
Qed.

Lemma relf_pre_completed c s i x : In x (completed s) -> In x (completed (relf_pre c s i)).
Proof.
  intros IN. unfold relf_pre. destruct (c_ordered c); auto. destruct (first_of c s i (pend s)); auto.
  apply do_done_core_completed; auto.
Qed.

(* a completed checkpoint stays recorded by every operation, stops included *)
Lemma completed_mono c s o s' out x : step c s o = Some (s', out) -> In x (completed s) -> In x (completed s').
Proof.
  intros H IN. destruct o; cbn [step] in H.
  - apply do_new_shape in H. destruct H as [->|(r & _ & _ & _ & _ & _ & _ & EC & _)]; auto. rewrite EC. auto.
  - inversion H. change s' with (fst (s', out)). rewrite <- H1. unfold do_ck. destruct (aget i (live s)); auto.
  - inversion H. change s' with (fst (s', out)). rewrite <- H1. unfold do_cks. destruct (aget i (live s)); auto. right; auto.
  - inversion H. change s' with (fst (s', out)). rewrite <- H1. unfold do_rel. destruct (aget i (live s)); auto.
  - inversion H. change s' with (fst (s', out)). rewrite <- H1. unfold do_done. destruct (aget t (pend s)) as [r|]; [|apply do_done_core_completed; auto].
    destruct (aget t (poison s)); [|apply do_done_core_completed; auto].
    apply do_done_core_completed. destruct (c_ordered c); auto. unfold flush. apply fold_done_completed; auto.
  - inversion H. change s' with (fst (s', out)). rewrite <- H1. unfold do_poison. destruct (aget t (pend s)); auto.
  - inversion H. change s' with (fst (s', out)). rewrite <- H1. unfold do_cksf. destruct (aget i (live s)); auto. cbn [fst completed].
    destruct (c_ordered c); auto. unfold flush. apply fold_done_completed; auto.
  - inversion H. change s' with (fst (s', out)). rewrite <- H1. unfold do_relf. destruct (aget i (live s)); auto. cbn [fst completed].
    apply (relf_pre_completed c s i x IN).
  - inversion H. change s' with (fst (s', out)). rewrite <- H1. unfold do_delretry. destruct (aget i (delpend s)) as [[|]|]; auto. destruct ok; auto.
  - inversion H. change s' with (fst (s', out)). rewrite <- H1. unfold do_giveup. destruct (aget i (delpend s)) as [[|]|]; auto. destruct (c_delforever c); auto.
  - apply do_bind4_shape in H. destruct H as [->|(r & a & ls & d & L & -> & _)]; auto.
    unfold do_ck. cbn [upd_live live]. rewrite aget_aput_eq. cbn [fst completed]. auto.
  - inversion H; subst; auto.
  - inversion H. change s' with (fst (s', out)). rewrite <- H1, do_crash_completed. auto.
  - inversion H. change s' with (fst (s', out)). rewrite <- H1, do_relstop_fst, do_crash_completed.
    unfold relstop_pre.
    assert (J : In x (completed (if putdone && c_ordered c then
                match first_of c s i (pend s) with Some t0 => fst (do_done_core c s t0 false) | None => s end else s))).
    { destruct (putdone && c_ordered c); auto. destruct (first_of c s i (pend s)); auto.
      apply do_done_core_completed; auto. }
    destruct (match aget i (live s) with Some r => negb (s_swif r =? 0) | None => false end); auto.
Qed.

(* the real bind path issues the checkpoint: after a bind / renew (anything but the no-op cases: unknown session, PPPoE,
   pool exhausted) the in-memory image carries a fresh stamp whose Put is pending with exactly that image *)
Lemma bind4_checkpoints c s i l o s' out :
  inv1 s -> do_bind4 c s i l o = Some (s', out) ->
  s' = s \/
  exists r', aget i (live s') = Some r' /\ s_stamp r' = Some (tick s) /\ s_bound r' = true /\ s_l4 r' = l /\
             is_some (s_v4 r') = true /\ aget (tick s) (pend s') = Some r'.
Proof.
  intros I1 H. apply do_bind4_shape in H. destruct H as [->|(r & a & ls & d & L & -> & _)]; auto. right.
  unfold do_ck. cbn [upd_live live]. rewrite aget_aput_eq. cbn [fst live pend tick]. rewrite aget_aput_eq.
  eexists. split; [reflexivity|]. cbn [set_stamp set_bind4 s_stamp s_bound s_l4 s_v4 is_some].
  repeat split; auto. rewrite aget_app. cbn [upd_live pend tick]. destruct (aget (tick s) (pend s)) eqn:P.
  - apply (i_pend_tick s I1) in P. lia.
  - cbn [aget]. rewrite N.eqb_refl. reflexivity.
Qed.
