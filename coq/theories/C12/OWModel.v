(* C12/OWModel.v — executable model of pkg/opdb/ordered.go (OrderedWriter), one key.
   Keys are independent in the implementation (one orderedKey each, one shared mutex only for the bookkeeping);
   the correspondence harness runs several keys at once and compares each with its own instance of this model.

     issue      : seq := next; next++; a Delete sets deleteSeq := seq+1
     perform    : waits until serving = seq; a Put with seq+1 < deleteSeq is obsolete and skipped;
                  otherwise the Store operation runs (it may succeed or fail); then serving++ and the next
                  slot is woken
   Put, PutAsync and Delete differ only in which goroutine waits; the order slots are the same.
   The bookkeeping entry of an idle key is deleted in the implementation (counters restart at 0); the model keeps
   counting, which is observationally the same (a fresh Put is never obsolete either way). *)
From OV Require Import Common.Base.
Open Scope N_scope.

Inductive wkind := WPut (v : N) | WDel.

Record owk := {
  q_next : N;                       (* sequence number of the next write to be issued *)
  q_serving : N;                    (* sequence number whose turn it is *)
  q_delseq : N;                     (* 1 + sequence number of the latest issued Delete *)
  q_queue : list (N * wkind);       (* issued writes waiting for their turn, oldest first *)
  q_infl : option (N * wkind);      (* the write that is at the Store *)
  q_val : option N;                 (* value of the key in the Store *)
  q_log : list (N * wkind);         (* effects that reached the Store, NEWEST FIRST *)
  q_res : list (N * bool) }.        (* result returned for each finished write: seq -> no error *)

Definition ow_init : owk :=
  {| q_next := 0; q_serving := 0; q_delseq := 0; q_queue := []; q_infl := None; q_val := None; q_log := [];
     q_res := [] |}.

Definition obsolete (delseq seq : N) (op : wkind) : bool :=
  match op with WPut _ => seq + 1 <? delseq | WDel => false end.

(* hand the turn on: skip obsolete Puts (they return nil), stop at the first write that goes to the Store *)
Fixpoint advance (delseq serving : N) (q : list (N * wkind)) (res : list (N * bool))
  : N * list (N * wkind) * option (N * wkind) * list (N * bool) :=
  match q with
  | [] => (serving, [], None, res)
  | (seq, op) :: r =>
    if obsolete delseq seq op then advance delseq (serving + 1) r (res ++ [(seq, true)])
    else (serving, r, Some (seq, op), res)
  end.

(* OComplete ok retried: the Store operation of the write whose turn it is returns.  On an error the writer may give
   the write up (its slot ends, the caller gets the error) or repeat it — admissible only INSIDE the slot: the write
   stays the one at the Store and nothing else of the key moves ([retried] is an observation of the implementation's
   choice; /repo HEAD never repeats). *)
Inductive oev := OIssue (op : wkind) | OComplete (ok : bool) (retried : bool).

Definition ow_step (w : owk) (e : oev) : owk :=
  match e with
  | OIssue op =>
    let seq := q_next w in
    let ds := match op with WDel => seq + 1 | WPut _ => q_delseq w end in
    match q_infl w with
    | Some _ =>
      {| q_next := seq + 1; q_serving := q_serving w; q_delseq := ds; q_queue := q_queue w ++ [(seq, op)];
         q_infl := q_infl w; q_val := q_val w; q_log := q_log w; q_res := q_res w |}
    | None =>
      let '(sv, q, infl, res) := advance ds (q_serving w) (q_queue w ++ [(seq, op)]) (q_res w) in
      {| q_next := seq + 1; q_serving := sv; q_delseq := ds; q_queue := q; q_infl := infl; q_val := q_val w;
         q_log := q_log w; q_res := res |}
    end
  | OComplete ok retried =>
    if negb ok && retried then w else
    match q_infl w with
    | None => w
    | Some (seq, op) =>
      let v := if ok then match op with WPut x => Some x | WDel => None end else q_val w in
      let lg := if ok then (seq, op) :: q_log w else q_log w in
      let '(sv, q, infl, res) := advance (q_delseq w) (q_serving w + 1) (q_queue w) (q_res w ++ [(seq, ok)]) in
      {| q_next := q_next w; q_serving := sv; q_delseq := q_delseq w; q_queue := q; q_infl := infl; q_val := v;
         q_log := lg; q_res := res |}
    end
  end.

Definition ow_run (evs : list oev) : owk := fold_left ow_step evs ow_init.
