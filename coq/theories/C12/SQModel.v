(* C12/SQModel.v — the opdb.Store contract the restart model relies on (pkg/opdb/store.go, implemented by
   pkg/opdb/sqlite/sqlite.go: execRetry repeats a statement while SQLite reports busy/locked and returns the last
   error when every attempt was busy).  One namespace; the database write lock can be held by another connection. *)
From OV Require Import Common.Base C12.Model.
Open Scope N_scope.

Inductive sqop :=
| SPut (k v : N) | SDel (k : N) | SClear
| SLock | SUnlock
| SPutR (k v : N) | SDelR (k : N).   (* the lock (if held) is released while the store is retrying *)

Record sq := { sq_data : list (N * N); sq_locked : bool }.
Definition sq_init : sq := {| sq_data := []; sq_locked := false |}.

(* what the operation does to the data when it takes effect *)
Definition sq_effect (o : sqop) (d : list (N * N)) : list (N * N) :=
  match o with
  | SPut k v | SPutR k v => aput k v d
  | SDel k | SDelR k => aremove k d
  | SClear => []
  | SLock | SUnlock => d
  end.

(* result: None for lock / unlock, Some ok for data operations *)
Definition sq_step (s : sq) (o : sqop) : sq * option bool :=
  match o with
  | SLock => ({| sq_data := sq_data s; sq_locked := true |}, None)
  | SUnlock => ({| sq_data := sq_data s; sq_locked := false |}, None)
  | SPut _ _ | SDel _ | SClear =>
    if sq_locked s then (s, Some false)                    (* busy on every attempt: error, nothing changes *)
    else ({| sq_data := sq_effect o (sq_data s); sq_locked := false |}, Some true)
  | SPutR _ _ | SDelR _ =>
    ({| sq_data := sq_effect o (sq_data s); sq_locked := false |}, Some true)   (* a later attempt succeeds *)
  end.

Lemma sq_contract s o s' r :
  sq_step s o = (s', r) ->
  match r with
  | Some true => sq_data s' = sq_effect o (sq_data s)      (* nil returned: the operation has taken effect *)
  | Some false => sq_data s' = sq_data s                   (* it could not take effect: error, store unchanged *)
  | None => sq_data s' = sq_data s
  end.
Proof.
  destruct o; cbn [sq_step]; try (destruct (sq_locked s)); intros H; inversion H; subst; reflexivity.
Qed.
