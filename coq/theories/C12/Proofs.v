From OV Require Import Common.Base C12.Model.
