(* C12/Proofs.v — invariants and lemmas for the restart model *)
From OV Require Import Common.Base C12.Model.
From Coq Require Import ZifyBool ZifyNat ZifyN.
Open Scope N_scope.

(* ---------------------------------------------------------------- association lists *)
Section AssocLemmas.
  Context {V : Type}.
  Implicit Types l : list (N * V).

  Lemma aget_aremove_eq k l : aget k (aremove k l) = None.
  Proof.
    induction l as [|[k' v] l IH]; cbn [aremove aget]; auto.
    destruct (N.eqb k k') eqn:E; auto. cbn [aget]. rewrite E. auto.
  Qed.
  Lemma aget_aremove_neq k k' l : k <> k' -> aget k (aremove k' l) = aget k l.
  Proof.
    intros H. induction l as [|[k2 v] l IH]; cbn [aremove aget]; auto.
    destruct (N.eqb k' k2) eqn:E.
    - apply N.eqb_eq in E. subst. destruct (N.eqb k k2) eqn:E2; auto. apply N.eqb_eq in E2. congruence.
    - cbn [aget]. rewrite IH. auto.
  Qed.
  Lemma aget_aput_eq k v l : aget k (aput k v l) = Some v.
  Proof. unfold aput. cbn [aget]. rewrite N.eqb_refl. auto. Qed.
  Lemma aget_aput_neq k k' v l : k <> k' -> aget k (aput k' v l) = aget k l.
  Proof.
    intros H. unfold aput. cbn [aget]. destruct (N.eqb k k') eqn:E.
    - apply N.eqb_eq in E. congruence.
    - apply aget_aremove_neq; auto.
  Qed.
  Lemma aget_aput k k' v l : aget k (aput k' v l) = if N.eqb k k' then Some v else aget k l.
  Proof.
    destruct (N.eqb k k') eqn:E.
    - apply N.eqb_eq in E. subst. apply aget_aput_eq.
    - apply aget_aput_neq. intro. subst. rewrite N.eqb_refl in E. discriminate.
  Qed.
  Lemma aget_aremove k k' l : aget k (aremove k' l) = if N.eqb k k' then None else aget k l.
  Proof.
    destruct (N.eqb k k') eqn:E.
    - apply N.eqb_eq in E. subst. apply aget_aremove_eq.
    - apply aget_aremove_neq. intro. subst. rewrite N.eqb_refl in E. discriminate.
  Qed.
  Lemma aget_app k l1 l2 : aget k (l1 ++ l2) = match aget k l1 with Some v => Some v | None => aget k l2 end.
  Proof.
    induction l1 as [|[k' v] l1 IH]; cbn [app aget]; auto. destruct (N.eqb k k'); auto.
  Qed.
  Lemma aget_In k v l : aget k l = Some v -> In k (map fst l).
  Proof.
    induction l as [|[k' v'] l IH]; cbn [aget map fst]; try discriminate.
    destruct (N.eqb k k') eqn:E; intros H.
    - apply N.eqb_eq in E. subst. left. auto.
    - right. auto.
  Qed.
End AssocLemmas.

Lemma nmem_In k l : nmem k l = true <-> In k l.
Proof.
  unfold nmem. rewrite existsb_exists. split.
  - intros [x [H E]]. apply N.eqb_eq in E. subst. auto.
  - intros H. exists k. split; auto. apply N.eqb_refl.
Qed.
Lemma nmem_cons k x l : nmem k (x :: l) = N.eqb k x || nmem k l.
Proof. reflexivity. Qed.

Lemma ins_In x y l : In x (ins y l) <-> x = y \/ In x l.
Proof.
  induction l as [|z l IH]; cbn [ins].
  - cbn. intuition.
  - destruct (N.ltb y z) eqn:E1.
    + cbn. intuition.
    + destruct (N.eqb y z) eqn:E2.
      * apply N.eqb_eq in E2. subst. cbn. intuition.
      * cbn [In]. rewrite IH. intuition.
Qed.
Lemma isort_In x l : In x (isort l) <-> In x l.
Proof.
  induction l as [|y l IH]; cbn [isort fold_right]; [tauto|].
  fold (isort l). rewrite ins_In, IH. cbn. intuition.
Qed.

(* ---------------------------------------------------------------- invariant 1: identities, tickets, released sessions *)
Record inv1 (s : st) : Prop := {
  i_store_id : forall k r, aget k (store s) = Some r -> s_id r = k;
  i_live_id : forall k r, aget k (live s) = Some r -> s_id r = k;
  i_pend_tick : forall t r, aget t (pend s) = Some r -> t < tick s;
  i_appl_tick : forall i a, aget i (applied s) = Some a -> a < tick s;
  i_rel_used : forall i, In i (released s) -> In i (used s);
  i_store_used : forall k r, aget k (store s) = Some r -> In k (used s);
  i_live_used : forall k r, aget k (live s) = Some r -> In k (used s);
  i_pend_used : forall t r, aget t (pend s) = Some r -> In (s_id r) (used s);
  i_gone : forall i, In i (released s) ->
           aget i (store s) = None /\ aget i (live s) = None /\
           exists a, aget i (applied s) = Some a /\
                     forall t r, aget t (pend s) = Some r -> s_id r = i -> t < a }.

Lemma inv1_init : inv1 init.
Proof. constructor; cbn; intros; try discriminate; try contradiction. Qed.

Lemma set_stamp_id r t : s_id (set_stamp r t) = s_id r. Proof. reflexivity. Qed.
Lemma set_appr_id r b : s_id (set_appr r b) = s_id r. Proof. reflexivity. Qed.
Lemma set_prog_id r sw : s_id (set_prog r sw) = s_id r. Proof. reflexivity. Qed.
Lemma set_stamp_addrs r t : addrs (set_stamp r t) = addrs r. Proof. reflexivity. Qed.
Lemma set_appr_addrs r b : addrs (set_appr r b) = addrs r. Proof. reflexivity. Qed.
Lemma set_prog_addrs r sw : addrs (set_prog r sw) = addrs r. Proof. reflexivity. Qed.

Ltac eqb_case k k' :=
  let E := fresh "E" in
  destruct (N.eqb k k') eqn:E; [apply N.eqb_eq in E; subst | apply N.eqb_neq in E].

Lemma aget_snoc {V} t t0 (v : V) l r :
  aget t (l ++ [(t0, v)]) = Some r -> aget t l = Some r \/ (t = t0 /\ r = v).
Proof.
  rewrite aget_app. destruct (aget t l); auto. cbn [aget].
  destruct (N.eqb t t0) eqn:E; try discriminate. apply N.eqb_eq in E. intros H. inversion H. auto.
Qed.

Lemma do_new_inv1 c s n o4 o6 opd s' o :
  inv1 s -> do_new c s n o4 o6 opd = Some (s', o) -> inv1 s'.
Proof.
  intros I H. unfold do_new in H.
  destruct (nmem (n_id n) (used s)) eqn:U; [inversion H; subst; auto|].
  destruct (take_addr c (n_id n) (leases s) 0 (n_a4 n) o4) as [[a4 l1]|]; try discriminate.
  destruct (take_addr c (n_id n) l1 1 (n_a6 n) o6) as [[a6 l2]|]; try discriminate.
  destruct (take_addr c (n_id n) l2 2 (n_apd n) opd) as [[apd l3]|]; try discriminate.
  assert (NU : ~ In (n_id n) (used s)) by (rewrite <- nmem_In; congruence).
  destruct I.
  destruct (n_crea n) eqn:CR.
  - destruct (dp_add (n_id n) (dp s) (dpnext s)) as [[sw d1] nx1]. inversion H; subst s' o; clear H.
    constructor; cbn [store live pend tick applied released used completed]; auto.
    + intros k r. rewrite aget_aput. eqb_case k (n_id n); [intros H; inversion H; auto | auto].
    + intros i Hi. right. auto.
    + intros k r Hk. right. eauto.
    + intros k r. rewrite aget_aput. eqb_case k (n_id n); [left; auto | right; eauto].
    + intros t r Hk. right. eauto.
    + intros i Hi. destruct (i_gone0 i Hi) as (A & B & C). repeat split; auto.
      rewrite aget_aput_neq; auto. intro; subst. apply NU. auto.
  - inversion H; subst s' o; clear H.
    constructor; cbn [store live pend tick applied released used completed]; auto.
    + intros k r. rewrite aget_aput. eqb_case k (n_id n); [intros H; inversion H; auto | auto].
    + intros i Hi. right. auto.
    + intros k r Hk. right. eauto.
    + intros k r. rewrite aget_aput. eqb_case k (n_id n); [left; auto | right; eauto].
    + intros t r Hk. right. eauto.
    + intros i Hi. destruct (i_gone0 i Hi) as (A & B & C). repeat split; auto.
      rewrite aget_aput_neq; auto. intro; subst. apply NU. auto.
Qed.

Lemma do_ck_inv1 s i : inv1 s -> inv1 (fst (do_ck s i)).
Proof.
  intros I. unfold do_ck. destruct (aget i (live s)) as [r|] eqn:L; auto. destruct I.
  assert (NR : ~ In i (released s)).
  { intros Hi. destruct (i_gone0 i Hi) as (_ & B & _). congruence. }
  constructor; cbn [fst store live pend tick applied released used]; auto.
  - intros k r0. rewrite aget_aput. eqb_case k i; [intros H; inversion H; cbn; eauto | auto].
  - intros t r0 H. apply aget_snoc in H. destruct H as [H|[H _]]; [apply i_pend_tick0 in H|]; lia.
  - intros j a H. apply i_appl_tick0 in H. lia.
  - intros k r0. rewrite aget_aput. eqb_case k i; eauto.
  - intros t r0 H. apply aget_snoc in H. destruct H as [H|[_ H]]; eauto. subst.
    rewrite set_stamp_id. rewrite (i_live_id0 _ _ L). eauto.
  - intros j Hj. destruct (i_gone0 j Hj) as (A & B & a & C & D). repeat split; auto.
    + rewrite aget_aput_neq; auto. intro; subst. auto.
    + exists a. split; auto. intros t r0 H E. apply aget_snoc in H. destruct H as [H|[_ H]]; eauto.
      subst. rewrite set_stamp_id, (i_live_id0 _ _ L) in *. subst. contradiction.
Qed.

Lemma do_cks_inv1 s i : inv1 s -> inv1 (fst (do_cks s i)).
Proof.
  intros I. unfold do_cks. destruct (aget i (live s)) as [r|] eqn:L; auto. destruct I.
  assert (NR : ~ In i (released s)).
  { intros Hi. destruct (i_gone0 i Hi) as (_ & B & _). congruence. }
  constructor; cbn [fst store live pend tick applied released used]; auto.
  - intros k r0. rewrite aget_aput. eqb_case k i; [intros H; inversion H; cbn; eauto | auto].
  - intros k r0. rewrite aget_aput. eqb_case k i; [intros H; inversion H; cbn; eauto | auto].
  - intros t r0 H. apply i_pend_tick0 in H. lia.
  - intros j a. rewrite aget_aput. eqb_case j i; [intros H; inversion H; lia|]. intros H. apply i_appl_tick0 in H. lia.
  - intros k r0. rewrite aget_aput. eqb_case k i; eauto.
  - intros k r0. rewrite aget_aput. eqb_case k i; eauto.
  - intros j Hj. destruct (i_gone0 j Hj) as (A & B & a & C & D).
    assert (j <> i) by (intro; subst; auto).
    rewrite !aget_aput_neq; auto; repeat split; eauto.
Qed.

Lemma do_rel_inv1 s i : inv1 s -> inv1 (fst (do_rel s i)).
Proof.
  intros I. unfold do_rel. destruct (aget i (live s)) as [r|] eqn:L; auto. destruct I.
  constructor; cbn [fst store live pend tick applied released used]; auto.
  - intros k r0. rewrite aget_aremove. eqb_case k i; [discriminate|auto].
  - intros k r0. rewrite aget_aremove. eqb_case k i; [discriminate|auto].
  - intros t r0 H. apply i_pend_tick0 in H. lia.
  - intros j a. rewrite aget_aput. eqb_case j i; [intros H; inversion H; lia|]. intros H. apply i_appl_tick0 in H. lia.
  - intros j [Hj|Hj]; subst; eauto.
  - intros k r0. rewrite aget_aremove. eqb_case k i; [discriminate|eauto].
  - intros k r0. rewrite aget_aremove. eqb_case k i; [discriminate|eauto].
  - intros j [Hj|Hj].
    + subst j. rewrite !aget_aremove_eq, aget_aput_eq. repeat split; auto.
      exists (tick s). split; auto. intros t r0 H _. eauto.
    + destruct (i_gone0 j Hj) as (A & B & a & C & D).
      assert (j <> i) by (intro; subst; congruence).
      rewrite !aget_aremove_neq, aget_aput_neq; auto; repeat split; eauto.
Qed.

Lemma inv1_pend_sub s pd po :
  inv1 s -> (forall t r, aget t pd = Some r -> aget t (pend s) = Some r) -> inv1 (set_pend_poison s pd po).
Proof.
  intros [] SUB. constructor; cbn [set_pend_poison store live pend tick applied released used]; eauto.
  intros i Hi. destruct (i_gone0 i Hi) as (A & B & a & C & D). repeat split; auto. exists a. split; eauto.
Qed.

Lemma do_poison_inv1 s t al : inv1 s -> inv1 (fst (do_poison s t al)).
Proof. intros I. unfold do_poison. destruct (aget t (pend s)); auto. cbn [fst]. apply inv1_pend_sub; auto. Qed.

Lemma do_done_core_inv1 c s t rt : c_ordered c = true -> inv1 s -> inv1 (fst (do_done_core c s t rt)).
Proof.
  intros O I. unfold do_done_core. destruct (aget t (pend s)) as [r|] eqn:P; auto.
  assert (SUB : forall t' r', aget t' (aremove t (pend s)) = Some r' -> aget t' (pend s) = Some r').
  { intros t' r'. rewrite aget_aremove. destruct (N.eqb t' t); [discriminate|auto]. }
  destruct (aget t (poison s)) as [al|] eqn:PO.
  { destruct rt; cbn [fst]; apply inv1_pend_sub; auto. }
  destruct I.
  destruct (effective c s (s_id r) t) eqn:EF; cbn [fst].
  - assert (NR : ~ In (s_id r) (released s)).
    { intros Hi. destruct (i_gone0 _ Hi) as (_ & _ & a & C & D).
      unfold effective in EF. rewrite O, C in EF. specialize (D _ _ P eq_refl). lia. }
    constructor; cbn [store live pend tick applied released used completed]; auto.
    + intros k r0. rewrite aget_aput. eqb_case k (s_id r); [intros H; inversion H; auto | auto].
    + intros t' r' H. eauto.
    + intros j a. rewrite aget_aput. eqb_case j (s_id r); [intros H; inversion H; subst; eauto|eauto].
    + intros k r0. rewrite aget_aput. eqb_case k (s_id r); eauto.
    + intros t' r' H. eauto.
    + intros j Hj. destruct (i_gone0 j Hj) as (A & B & a & C & D).
      assert (j <> s_id r) by (intro; subst; auto).
      rewrite !aget_aput_neq; auto; repeat split; auto; exists a; split; auto; intros; eauto.
  - constructor; cbn [store live pend tick applied released used completed]; auto.
    + intros t' r' H. eauto.
    + intros t' r' H. eauto.
    + intros j Hj. destruct (i_gone0 j Hj) as (A & B & a & C & D). repeat split; auto.
      exists a. split; auto. intros; eauto.
Qed.

Lemma do_done_core_live c s t rt : live (fst (do_done_core c s t rt)) = live s.
Proof.
  unfold do_done_core. destruct (aget t (pend s)); auto. destruct (aget t (poison s)); [destruct rt; auto|].
  destruct (effective c s (s_id s0) t); auto.
Qed.

Lemma flush_inv1 c ts : forall s, c_ordered c = true -> inv1 s ->
  inv1 (fold_left (fun s0 t => fst (do_done_core c s0 t false)) ts s) /\
  live (fold_left (fun s0 t => fst (do_done_core c s0 t false)) ts s) = live s.
Proof.
  induction ts as [|t ts IH]; intros s O I; cbn [fold_left]; auto.
  destruct (IH (fst (do_done_core c s t false)) O (do_done_core_inv1 c s t false O I)) as (A & B).
  split; auto. rewrite B. apply do_done_core_live.
Qed.

Lemma cksf_tail_inv1 s1 i r :
  inv1 s1 -> aget i (live s1) = Some r ->
  inv1 {| store := store s1; pend := pend s1; tick := tick s1 + 1; applied := applied s1;
          live := aput i (set_stamp r (tick s1)) (live s1); leases := leases s1; dp := dp s1; dpnext := dpnext s1;
          released := released s1; used := used s1; poison := poison s1; completed := completed s1; delpend := delpend s1 |}.
Proof.
  intros I L. destruct I.
  assert (NR : ~ In i (released s1)).
  { intros Hi. destruct (i_gone0 i Hi) as (_ & B & _). congruence. }
  constructor; cbn [store live pend tick applied released used completed]; auto.
  - intros k r0. rewrite aget_aput. eqb_case k i; [intros H; inversion H; cbn; eauto | auto].
  - intros t r0 H. apply i_pend_tick0 in H. lia.
  - intros j a H. apply i_appl_tick0 in H. lia.
  - intros k r0. rewrite aget_aput. eqb_case k i; eauto.
  - intros j Hj. destruct (i_gone0 j Hj) as (A & B & a & C & D). repeat split; auto.
    + rewrite aget_aput_neq; auto. intro; subst. auto.
    + exists a. split; auto.
Qed.

Lemma do_cksf_inv1 c s i : c_ordered c = true -> inv1 s -> inv1 (fst (do_cksf c s i)).
Proof.
  intros O I. unfold do_cksf. destruct (aget i (live s)) as [r|] eqn:L; auto. rewrite O. cbn [fst].
  destruct (flush_inv1 c (map fst (filter (fun tr => (s_id (snd tr) =? i) && (fst tr <? tick s)) (pend s))) s O I) as (A & B).
  apply cksf_tail_inv1; auto. unfold flush. rewrite B. auto.
Qed.

(* ---- the restore loop keeps invariant 1 ---- *)
Lemma inv1_rm_store s k : inv1 s -> inv1 (upd_store s (aremove k (store s))).
Proof.
  intros []. constructor; cbn [upd_store store live pend tick applied released used]; auto.
  - intros k0 r. rewrite aget_aremove. destruct (N.eqb k0 k); [discriminate|auto].
  - intros k0 r. rewrite aget_aremove. destruct (N.eqb k0 k); [discriminate|eauto].
  - intros i Hi. destruct (i_gone0 i Hi) as (A & B & C). repeat split; auto.
    rewrite aget_aremove. destruct (N.eqb i k); auto.
Qed.

Lemma inv1_put_store s k r :
  inv1 s -> s_id r = k -> In k (used s) -> ~ In k (released s) -> inv1 (upd_store s (aput k r (store s))).
Proof.
  intros [] ID U NR. subst k. constructor; cbn [upd_store store live pend tick applied released used]; auto.
  - intros k0 r0. rewrite aget_aput. eqb_case k0 (s_id r); [intros H; inversion H; auto|auto].
  - intros k0 r0. rewrite aget_aput. eqb_case k0 (s_id r); eauto.
  - intros i Hi. destruct (i_gone0 i Hi) as (A & B & C). repeat split; auto.
    rewrite aget_aput_neq; auto. intro; subst; auto.
Qed.

Lemma inv1_install c s k r :
  inv1 s -> s_id r = k -> In k (used s) -> ~ In k (released s) -> inv1 (install c s k r).
Proof.
  intros [] ID U NR. constructor; cbn [install store live pend tick applied released used]; auto.
  - intros k0 r0. rewrite aget_aput. eqb_case k0 k; [intros H; inversion H; subst; auto|auto].
  - intros k0 r0. rewrite aget_aput. eqb_case k0 k; eauto.
  - intros i Hi. destruct (i_gone0 i Hi) as (A & B & C). repeat split; auto.
    rewrite aget_aput_neq; auto. intro; subst; auto.
Qed.

Lemma inv1_replay s k r' ls d nx :
  inv1 s -> s_id r' = k -> In k (used s) -> ~ In k (released s) ->
  inv1 {| store := store s; pend := pend s ++ [(tick s, r')]; tick := tick s + 1; applied := applied s;
          live := aput k r' (live s); leases := ls; dp := d; dpnext := nx;
          released := released s; used := used s; poison := poison s; completed := completed s; delpend := delpend s |}.
Proof.
  intros [] ID U NR. constructor; cbn [store live pend tick applied released used completed]; auto.
  - intros k0 r0. rewrite aget_aput. eqb_case k0 k; [intros H; inversion H; subst; auto|auto].
  - intros t r0 H. apply aget_snoc in H. destruct H as [H|[H _]]; [apply i_pend_tick0 in H|]; lia.
  - intros j a H. apply i_appl_tick0 in H. lia.
  - intros k0 r0. rewrite aget_aput. eqb_case k0 k; eauto.
  - intros t r0 H. apply aget_snoc in H. destruct H as [H|[_ H]]; eauto. subst. auto.
  - intros i Hi. destruct (i_gone0 i Hi) as (A & B & a & C & D). repeat split; auto.
    + rewrite aget_aput_neq; auto. intro; subst; auto.
    + exists a. split; auto. intros t r0 H E. apply aget_snoc in H. destruct H as [H|[_ H]]; eauto.
      subst. contradiction.
Qed.

Definition ghost_eq (s s' : st) : Prop := used s' = used s /\ released s' = released s.

Lemma restore_one_inv1 c now fail cause store0 s lg k :
  (forall k r, aget k store0 = Some r -> s_id r = k /\ In k (used s) /\ ~ In k (released s)) ->
  inv1 s ->
  inv1 (fst (restore_one c now fail cause store0 (s, lg) k)) /\
  ghost_eq s (fst (restore_one c now fail cause store0 (s, lg) k)).
Proof.
  intros H0 I. unfold restore_one, ghost_eq.
  destruct (aget k store0) as [r|] eqn:G; [|cbn; auto].
  destruct (H0 _ _ G) as (ID & U & NR).
  destruct (expired c now r).
  { cbn [fst]. split; [apply inv1_rm_store; auto | cbn; auto]. }
  destruct (match c_proto c with IPoE => s_appr r && negb (s_crea r) | PPPoE => false end).
  { cbn [fst]. split; [|cbn; auto].
    apply inv1_install; cbn [upd_store used released]; auto. apply inv1_put_store; auto. }
  assert (I1 : inv1 (install c s k r)) by (apply inv1_install; auto).
  destruct (replayed c r); [|cbn; auto].
  destruct (match fail with Some f => f =? k | None => false end); [cbn; auto|].
  destruct (dp_add k (dp (install c s k r)) (dpnext (install c s k r))) as [[sw d1] nx1].
  cbn [fst]. split; [|cbn; auto].
  apply (inv1_replay (install c s k r) k (set_prog r sw)); auto.
Qed.

Lemma restore_fold_inv1 c now fail cause store0 ks : forall s lg,
  (forall k r, aget k store0 = Some r -> s_id r = k /\ In k (used s) /\ ~ In k (released s)) ->
  inv1 s ->
  inv1 (fst (fold_left (restore_one c now fail cause store0) ks (s, lg))) /\
  ghost_eq s (fst (fold_left (restore_one c now fail cause store0) ks (s, lg))).
Proof.
  induction ks as [|k ks IH]; intros s lg H0 I; cbn [fold_left].
  - cbn. unfold ghost_eq. auto.
  - destruct (restore_one_inv1 c now fail cause store0 s lg k H0 I) as (I' & GU & GR).
    destruct (restore_one c now fail cause store0 (s, lg) k) as [s1 lg1] eqn:E. cbn [fst] in *.
    destruct (IH s1 lg1) as (I2 & GU2 & GR2); auto.
    + intros k0 r0 G. rewrite GU, GR. auto.
    + split; auto. unfold ghost_eq. rewrite GU2, GR2. auto.
Qed.

Lemma do_crash_inv1 c s p f now : inv1 s -> inv1 (fst (do_crash c s p f now)).
Proof.
  intros I. unfold do_crash.
  set (s0 := {| store := store s; pend := []; tick := tick s; applied := applied s; live := [];
                leases := []; dp := if p then dp s else []; dpnext := if p then dpnext s else swif_base;
                released := released s; used := used s; poison := []; completed := completed s; delpend := [] |}).
  assert (I0 : inv1 s0).
  { destruct I. constructor; cbn [s0 store live pend tick applied released used]; auto;
      try (intros; discriminate).
    intros i Hi. destruct (i_gone0 i Hi) as (A & B & a & C & D). repeat split; auto.
    exists a. split; auto. intros; discriminate. }
  destruct (restore_fold_inv1 c now f (match (if p then dp s else []) with [] => 1 | _ => 0 end)
              (store s) (isort (map fst (store s))) s0 []) as (I2 & _); auto.
  { intros k r G. destruct I. cbn [s0 used released]. repeat split; eauto.
    intros Hi. destruct (i_gone0 k Hi) as (A & _). congruence. }
  destruct (fold_left _ _ _) as [s1 lg]. cbn [fst] in *. auto.
Qed.

Lemma do_done_inv1 c s t rt : c_ordered c = true -> inv1 s -> inv1 (fst (do_done c s t rt)).
Proof.
  intros O I. unfold do_done. destruct (aget t (pend s)) as [r|]; [|apply do_done_core_inv1; auto].
  destruct (aget t (poison s)); [|apply do_done_core_inv1; auto]. rewrite O.
  apply do_done_core_inv1; auto. unfold flush. apply flush_inv1; auto.
Qed.

Definition relf_pre (c : cfg) (s : st) (i : N) : st :=
  if c_ordered c then match first_of c s i (pend s) with Some t0 => fst (do_done_core c s t0 false) | None => s end else s.

Lemma relf_pre_live c s i : live (relf_pre c s i) = live s.
Proof. unfold relf_pre. destruct (c_ordered c); auto. destruct (first_of c s i (pend s)); auto. apply do_done_core_live. Qed.

Lemma relf_pre_inv1 c s i : c_ordered c = true -> inv1 s -> inv1 (relf_pre c s i).
Proof.
  intros O I. unfold relf_pre. rewrite O. destruct (first_of c s i (pend s)); auto. apply do_done_core_inv1; auto.
Qed.

(* the in-memory part of a release + a write slot consumed, the store and [released] untouched *)
Lemma relf_tail_inv1 s1 i r ls d dl :
  inv1 s1 -> aget i (live s1) = Some r ->
  inv1 {| store := store s1; pend := pend s1; tick := tick s1 + 1; applied := aput i (tick s1) (applied s1);
          live := aremove i (live s1); leases := ls; dp := d; dpnext := dpnext s1; released := released s1;
          used := used s1; poison := poison s1; completed := completed s1; delpend := dl |}.
Proof.
  intros I L. destruct I.
  constructor; cbn [store live pend tick applied released used completed]; auto.
  - intros k r0. rewrite aget_aremove. eqb_case k i; [discriminate|auto].
  - intros t r0 H. apply i_pend_tick0 in H. lia.
  - intros j a. rewrite aget_aput. eqb_case j i; [intros H; inversion H; lia|]. intros H. apply i_appl_tick0 in H. lia.
  - intros k r0. rewrite aget_aremove. eqb_case k i; [discriminate|eauto].
  - intros j Hj. destruct (i_gone0 j Hj) as (A & B & a & C & D).
    assert (j <> i) by (intro; subst; congruence).
    rewrite aget_aremove_neq, aget_aput_neq; auto; repeat split; eauto.
Qed.

Lemma do_relf_inv1 c s i : c_ordered c = true -> inv1 s -> inv1 (fst (do_relf c s i)).
Proof.
  intros O I. unfold do_relf. destruct (aget i (live s)) as [r|] eqn:L; auto. fold (relf_pre c s i). cbn [fst].
  apply (relf_tail_inv1 (relf_pre c s i) i r); [apply relf_pre_inv1; auto|]. rewrite relf_pre_live. auto.
Qed.

(* ---- invariant 4: sessions whose checkpoint Delete is outstanding are not in the index ---- *)
Record inv4 (s : st) : Prop := {
  d_live : forall i g, aget i (delpend s) = Some g -> aget i (live s) = None;
  d_used : forall i g, aget i (delpend s) = Some g -> In i (used s) }.

Lemma inv4_init : inv4 init.
Proof. constructor; cbn; intros; discriminate. Qed.

(* frame: an operation that leaves [delpend] and [used] alone and only puts sessions that were already in the index *)
Lemma inv4_frame s s' :
  inv4 s -> delpend s' = delpend s -> used s' = used s ->
  (forall i, aget i (live s) = None -> aget i (live s') = None) -> inv4 s'.
Proof. intros [] ED EU HL. constructor; rewrite ?ED, ?EU; eauto. Qed.

Lemma do_done_core_delpend c s t rt :
  delpend (fst (do_done_core c s t rt)) = delpend s /\ used (fst (do_done_core c s t rt)) = used s.
Proof.
  unfold do_done_core. destruct (aget t (pend s)); auto. destruct (aget t (poison s)); [destruct rt; auto|].
  destruct (effective c s (s_id s0) t); auto.
Qed.

Lemma do_done_core_inv4 c s t rt : inv4 s -> inv4 (fst (do_done_core c s t rt)).
Proof.
  intros I. destruct (do_done_core_delpend c s t rt) as (A & B).
  apply (inv4_frame s); auto. intros i. rewrite do_done_core_live. auto.
Qed.

Lemma flush_inv4 c ts : forall s, inv4 s -> inv4 (fold_left (fun s0 t => fst (do_done_core c s0 t false)) ts s).
Proof. induction ts as [|t ts IH]; intros s I; cbn [fold_left]; auto. apply IH, do_done_core_inv4; auto. Qed.

Lemma relf_pre_inv4 c s i : inv4 s -> inv4 (relf_pre c s i).
Proof.
  intros I. unfold relf_pre. destruct (c_ordered c); auto. destruct (first_of c s i (pend s)); auto.
  apply do_done_core_inv4; auto.
Qed.

Lemma do_relf_inv4 c s i : inv1 s -> inv4 s -> inv4 (fst (do_relf c s i)).
Proof.
  intros I1 I4. unfold do_relf. destruct (aget i (live s)) as [r|] eqn:L; auto. fold (relf_pre c s i). cbn [fst].
  pose proof (relf_pre_inv4 c s i I4) as [DL DU].
  assert (U : In i (used (relf_pre c s i))).
  { unfold relf_pre. destruct (c_ordered c); [|eapply i_live_used; eauto].
    destruct (first_of c s i (pend s)); [|eapply i_live_used; eauto].
    destruct (do_done_core_delpend c s n false) as (_ & E). rewrite E. eapply i_live_used; eauto. }
  constructor; cbn [delpend live used].
  - intros j g. rewrite aget_aput, aget_aremove. eqb_case j i; auto. eauto.
  - intros j g. rewrite aget_aput. eqb_case j i; auto. eauto.
Qed.

Lemma do_delretry_inv1 s i ok : inv1 s -> inv4 s -> inv1 (fst (do_delretry s i ok)).
Proof.
  intros I1 I4. unfold do_delretry. destruct (aget i (delpend s)) as [[|]|] eqn:G; auto. destruct ok; auto.
  pose proof (d_live s I4 i false G) as LN. pose proof (d_used s I4 i false G) as UI. destruct I1.
  constructor; cbn [fst store live pend tick applied released used completed]; auto.
  - intros k r0. rewrite aget_aremove. eqb_case k i; [discriminate|auto].
  - intros t r0 H. apply i_pend_tick0 in H. lia.
  - intros j a. rewrite aget_aput. eqb_case j i; [intros H; inversion H; lia|]. intros H. apply i_appl_tick0 in H. lia.
  - intros j [Hj|Hj]; subst; eauto.
  - intros k r0. rewrite aget_aremove. eqb_case k i; [discriminate|eauto].
  - intros j [Hj|Hj].
    + subst j. rewrite aget_aremove_eq, aget_aput_eq. repeat split; auto.
      exists (tick s). split; auto. intros t r0 H _. eauto.
    + destruct (N.eq_dec j i) as [->|NE].
      * rewrite aget_aremove_eq, aget_aput_eq. repeat split; auto.
        exists (tick s). split; auto. intros t r0 H _. eauto.
      * destruct (i_gone0 j Hj) as (A & B & a & C & D).
        rewrite aget_aremove_neq, aget_aput_neq; auto; repeat split; eauto.
Qed.

Lemma do_delretry_inv4 s i ok : inv4 s -> inv4 (fst (do_delretry s i ok)).
Proof.
  intros I4. unfold do_delretry. destruct (aget i (delpend s)) as [[|]|] eqn:G; auto. destruct ok; auto.
  destruct I4. constructor; cbn [fst delpend live used].
  - intros j g. rewrite aget_aremove. eqb_case j i; [discriminate|eauto].
  - intros j g. rewrite aget_aremove. eqb_case j i; [discriminate|eauto].
Qed.

Lemma set_delpend_inv1 s d : inv1 s -> inv1 (set_delpend s d).
Proof. intros []. constructor; cbn [set_delpend store live pend tick applied released used]; auto. Qed.

Lemma do_giveup_inv1 c s i : inv1 s -> inv1 (fst (do_giveup c s i)).
Proof.
  intros I. unfold do_giveup. destruct (aget i (delpend s)) as [[|]|]; auto. destruct (c_delforever c); auto.
  apply set_delpend_inv1; auto.
Qed.

Lemma do_giveup_inv4 c s i : inv4 s -> inv4 (fst (do_giveup c s i)).
Proof.
  intros I. unfold do_giveup. destruct (aget i (delpend s)) as [[|]|] eqn:G; auto. destruct (c_delforever c); auto.
  destruct I. constructor; cbn [fst set_delpend delpend live used].
  - intros j g. rewrite aget_aput. eqb_case j i; eauto.
  - intros j g. rewrite aget_aput. eqb_case j i; eauto.
Qed.

(* ---- stop in the middle of a release ---- *)
Definition relstop_pre (c : cfg) (s : st) (i : N) (putdone : bool) : st :=
  let s1 := if putdone && c_ordered c then
              match first_of c s i (pend s) with Some t0 => fst (do_done_core c s t0 false) | None => s end
            else s in
  if match aget i (live s) with Some r => negb (s_swif r =? 0) | None => false end
  then set_dp s1 (aremove i (dp s1)) else s1.

Lemma do_relstop_fst c s i pd p f now :
  fst (do_relstop c s i pd p f now) = fst (do_crash c (relstop_pre c s i pd) p f now).
Proof.
  unfold do_relstop. fold (relstop_pre c s i pd).
  destruct (do_crash c (relstop_pre c s i pd) p f now) as [s3 o] eqn:E.
  unfold do_crash in E. destruct (fold_left _ _ _) as [s4 lg] in E. inversion E. reflexivity.
Qed.

Lemma set_dp_inv1 s d : inv1 s -> inv1 (set_dp s d).
Proof. intros []. constructor; cbn [set_dp store live pend tick applied released used]; auto. Qed.

Lemma relstop_pre_inv1 c s i pd : c_ordered c = true -> inv1 s -> inv1 (relstop_pre c s i pd).
Proof.
  intros O I. unfold relstop_pre.
  assert (J : inv1 (if pd && c_ordered c then
              match first_of c s i (pend s) with Some t0 => fst (do_done_core c s t0 false) | None => s end else s)).
  { destruct (pd && c_ordered c); auto. destruct (first_of c s i (pend s)); auto. apply do_done_core_inv1; auto. }
  destruct (match aget i (live s) with Some r => negb (s_swif r =? 0) | None => false end); auto.
  apply set_dp_inv1; auto.
Qed.

Lemma do_relstop_inv1 c s i pd p f now : c_ordered c = true -> inv1 s -> inv1 (fst (do_relstop c s i pd p f now)).
Proof. intros O I. rewrite do_relstop_fst. apply do_crash_inv1. apply relstop_pre_inv1; auto. Qed.

(* ---- invariant 4 for the remaining operations ---- *)
Lemma do_new_inv4 c s n o4 o6 opd s' o :
  inv4 s -> do_new c s n o4 o6 opd = Some (s', o) -> inv4 s'.
Proof.
  intros I H. unfold do_new in H.
  destruct (nmem (n_id n) (used s)) eqn:U; [inversion H; subst; auto|].
  destruct (take_addr c (n_id n) (leases s) 0 (n_a4 n) o4) as [[a4 l1]|]; try discriminate.
  destruct (take_addr c (n_id n) l1 1 (n_a6 n) o6) as [[a6 l2]|]; try discriminate.
  destruct (take_addr c (n_id n) l2 2 (n_apd n) opd) as [[apd l3]|]; try discriminate.
  assert (NU : ~ In (n_id n) (used s)) by (rewrite <- nmem_In; congruence).
  destruct I as [DL DU].
  assert (R : forall (r : sess) d nx,
            inv4 {| store := store s; pend := pend s; tick := tick s; applied := applied s;
                    live := aput (n_id n) r (live s); leases := l3; dp := d; dpnext := nx;
                    released := released s; used := n_id n :: used s; poison := poison s;
                    completed := completed s; delpend := delpend s |}).
  { intros r d nx. constructor; cbn [delpend live used].
    - intros j g G. rewrite aget_aput_neq; eauto. intro; subst. apply NU. eauto.
    - intros j g G. right. eauto. }
  destruct (n_crea n).
  - destruct (dp_add (n_id n) (dp s) (dpnext s)) as [[sw d1] nx1]. inversion H; subst s' o. apply R.
  - inversion H; subst s' o. apply R.
Qed.

Lemma inv4_put_live s i r r' ls d nx st' pd' tk' ap' po' co' :
  inv4 s -> aget i (live s) = Some r ->
  inv4 {| store := st'; pend := pd'; tick := tk'; applied := ap'; live := aput i r' (live s); leases := ls;
          dp := d; dpnext := nx; released := released s; used := used s; poison := po'; completed := co';
          delpend := delpend s |}.
Proof.
  intros [DL DU] L. constructor; cbn [delpend live used]; eauto.
  intros j g G. rewrite aget_aput. eqb_case j i; eauto. rewrite (DL _ _ G) in L. discriminate.
Qed.

Lemma do_ck_inv4 s i : inv4 s -> inv4 (fst (do_ck s i)).
Proof. intros I. unfold do_ck. destruct (aget i (live s)) eqn:L; auto. eapply inv4_put_live; eauto. Qed.
Lemma do_cks_inv4 s i : inv4 s -> inv4 (fst (do_cks s i)).
Proof. intros I. unfold do_cks. destruct (aget i (live s)) eqn:L; auto. eapply inv4_put_live; eauto. Qed.
Lemma do_rel_inv4 s i : inv4 s -> inv4 (fst (do_rel s i)).
Proof.
  intros I. unfold do_rel. destruct (aget i (live s)) eqn:L; auto. destruct I as [DL DU].
  constructor; cbn [fst delpend live used]; eauto.
  intros j g G. rewrite aget_aremove. destruct (N.eqb j i); eauto.
Qed.
Lemma do_done_inv4 c s t rt : inv4 s -> inv4 (fst (do_done c s t rt)).
Proof.
  intros I. unfold do_done. destruct (aget t (pend s)) as [r|]; [|apply do_done_core_inv4; auto].
  destruct (aget t (poison s)); [|apply do_done_core_inv4; auto].
  apply do_done_core_inv4. destruct (c_ordered c); auto. unfold flush. apply flush_inv4; auto.
Qed.
Lemma do_poison_inv4 s t al : inv4 s -> inv4 (fst (do_poison s t al)).
Proof.
  intros I. unfold do_poison. destruct (aget t (pend s)); auto. destruct I. constructor; cbn; eauto.
Qed.
Lemma fold_done_live c ts : forall s, live (fold_left (fun s0 t => fst (do_done_core c s0 t false)) ts s) = live s.
Proof. induction ts as [|t ts IH]; intros s; cbn [fold_left]; auto. rewrite IH. apply do_done_core_live. Qed.

Lemma do_cksf_inv4 c s i : inv4 s -> inv4 (fst (do_cksf c s i)).
Proof.
  intros I. unfold do_cksf. destruct (aget i (live s)) as [r|] eqn:L; auto. cbn [fst].
  set (s1 := if c_ordered c then flush c s i (tick s) else s).
  assert (I1 : inv4 s1) by (unfold s1; destruct (c_ordered c); auto; unfold flush; apply flush_inv4; auto).
  assert (L1 : live s1 = live s).
  { unfold s1. destruct (c_ordered c); auto. unfold flush. apply fold_done_live. }
  eapply inv4_put_live; eauto. rewrite L1. eauto.
Qed.

(* ---- IPoE DHCPv4 bind / renew ---- *)
Lemma upd_live_inv1 s i r r2 ls d :
  inv1 s -> aget i (live s) = Some r -> s_id r2 = s_id r -> inv1 (upd_live s i r2 ls d).
Proof.
  intros I L ID. destruct I. constructor; cbn [upd_live store live pend tick applied released used]; auto.
  - intros k r0. rewrite aget_aput. eqb_case k i; [intros H; inversion H; subst; rewrite ID; eauto|auto].
  - intros k r0. rewrite aget_aput. eqb_case k i; eauto.
  - intros j Hj. destruct (i_gone0 j Hj) as (A & B & C). repeat split; auto.
    rewrite aget_aput_neq; auto. intro; subst. congruence.
Qed.

Lemma upd_live_inv4 s i r r2 ls d : inv4 s -> aget i (live s) = Some r -> inv4 (upd_live s i r2 ls d).
Proof. intros I L. unfold upd_live. eapply inv4_put_live; eauto. Qed.

Lemma do_bind4_shape c s i l o s' out :
  do_bind4 c s i l o = Some (s', out) ->
  s' = s \/
  exists r a ls d, aget i (live s) = Some r /\
    s' = fst (do_ck (upd_live s i (set_bind4 r a l) ls d) i) /\
    ((s_v4 r = Some a /\ ls = leases s) \/
     (s_v4 r = None /\ alloc_ok c (leases s) 0 (Some a) = true /\ ls = aput (code 0 a) i (leases s))).
Proof.
  unfold do_bind4. destruct (c_proto c); [|intros H; inversion H; auto].
  destruct (aget i (live s)) as [r|] eqn:L; [|intros H; inversion H; auto].
  destruct (s_v4 r) as [a|] eqn:V.
  - intros H. inversion H; subst. right. exists r, a. eexists. eexists. split; [auto|split; [reflexivity|left; auto]].
  - destruct (alloc_ok c (leases s) 0 o) eqn:OK; try discriminate. destruct o as [a|].
    + intros H. inversion H; subst. right. exists r, a. eexists. eexists. split; [auto|split; [reflexivity|right; auto]].
    + intros H. inversion H; auto.
Qed.

Lemma do_bind4_inv14 c s i l o s' out :
  inv1 s /\ inv4 s -> do_bind4 c s i l o = Some (s', out) -> inv1 s' /\ inv4 s'.
Proof.
  intros (I1 & I4) H. apply do_bind4_shape in H. destruct H as [->|(r & a & ls & d & L & -> & _)]; auto. split.
  - apply do_ck_inv1. eapply upd_live_inv1; eauto.
  - apply do_ck_inv4. eapply upd_live_inv4; eauto.
Qed.

Lemma restore_one_delpend c now f cause store0 s lg k :
  delpend (fst (restore_one c now f cause store0 (s, lg) k)) = delpend s.
Proof.
  unfold restore_one. destruct (aget k store0) as [r|]; auto. destruct (expired c now r); auto.
  destruct (match c_proto c with IPoE => s_appr r && negb (s_crea r) | PPPoE => false end); auto.
  destruct (replayed c r); auto. destruct (match f with Some f0 => f0 =? k | None => false end); auto.
  destruct (dp_add k (dp (install c s k r)) (dpnext (install c s k r))) as [[sw d1] nx1]. auto.
Qed.

Lemma do_crash_inv4 c s p f now : inv4 (fst (do_crash c s p f now)).
Proof.
  unfold do_crash.
  match goal with |- context [fold_left (restore_one c now f ?CA ?ST) ?L (?S0, ?LG)] =>
    assert (G : forall ks a, delpend (fst (fold_left (restore_one c now f CA ST) ks a)) = delpend (fst a)) end.
  { induction ks as [|k ks IH]; intros [s0 lg0]; cbn [fold_left]; auto. rewrite IH. apply restore_one_delpend. }
  destruct (fold_left _ _ _) as [s4 lg] eqn:E. cbn [fst].
  assert (D : delpend s4 = []). { change s4 with (fst (s4, lg)). rewrite <- E, G. reflexivity. }
  constructor; rewrite D; cbn; intros; discriminate.
Qed.

Lemma do_relstop_inv4 c s i pd p f now : inv4 (fst (do_relstop c s i pd p f now)).
Proof. rewrite do_relstop_fst. apply do_crash_inv4. Qed.

(* histories without a failing checkpoint Delete (only needed for the allocator theorem, see there) *)
Definition delok (c : cfg) (o : op) : Prop :=
  match o with RelF _ | DelRetry _ _ | GiveUp _ => False | _ => True end.

Lemma step_inv14 c s o s' out :
  c_ordered c = true -> inv1 s /\ inv4 s -> step c s o = Some (s', out) -> inv1 s' /\ inv4 s'.
Proof.
  intros O (I & I4) H. destruct o; cbn [step] in H.
  - split; [eapply do_new_inv1; eauto|eapply do_new_inv4; eauto].
  - inversion H. change s' with (fst (s', out)). rewrite <- H1. split; [apply do_ck_inv1|apply do_ck_inv4]; auto.
  - inversion H. change s' with (fst (s', out)). rewrite <- H1. split; [apply do_cks_inv1|apply do_cks_inv4]; auto.
  - inversion H. change s' with (fst (s', out)). rewrite <- H1. split; [apply do_rel_inv1|apply do_rel_inv4]; auto.
  - inversion H. change s' with (fst (s', out)). rewrite <- H1. split; [apply do_done_inv1|apply do_done_inv4]; auto.
  - inversion H. change s' with (fst (s', out)). rewrite <- H1. split; [apply do_poison_inv1|apply do_poison_inv4]; auto.
  - inversion H. change s' with (fst (s', out)). rewrite <- H1. split; [apply do_cksf_inv1|apply do_cksf_inv4]; auto.
  - inversion H. change s' with (fst (s', out)). rewrite <- H1. split; [apply do_relf_inv1|apply do_relf_inv4]; auto.
  - inversion H. change s' with (fst (s', out)). rewrite <- H1. split; [apply do_delretry_inv1|apply do_delretry_inv4]; auto.
  - inversion H. change s' with (fst (s', out)). rewrite <- H1. split; [apply do_giveup_inv1|apply do_giveup_inv4]; auto.
  - eapply do_bind4_inv14; eauto.
  - inversion H; subst; auto.
  - inversion H. change s' with (fst (s', out)). rewrite <- H1. split; [apply do_crash_inv1; auto|apply do_crash_inv4].
  - inversion H. change s' with (fst (s', out)). rewrite <- H1. split; [apply do_relstop_inv1; auto|apply do_relstop_inv4].
Qed.

Lemma step_inv1 c s o s' out :
  c_ordered c = true -> inv1 s /\ inv4 s -> step c s o = Some (s', out) -> inv1 s'.
Proof. intros O I H. eapply step_inv14; eauto. Qed.

Lemma run_inv_ok (P : st -> Prop) (okop : op -> Prop) c :
  (forall s o s' out, okop o -> P s -> step c s o = Some (s', out) -> P s') ->
  forall ops s s', Forall okop ops -> P s -> run c s ops = Some s' -> P s'.
Proof.
  intros HS. induction ops as [|o ops IH]; intros s s' F I H; cbn [run] in H.
  - inversion H; subst; auto.
  - destruct (step c s o) as [[s1 out]|] eqn:E; try discriminate. inversion F; subst.
    apply (IH s1 s'); auto. apply (HS s o s1 out); auto.
Qed.

Lemma run_inv (P : st -> Prop) c :
  (forall s o s' out, P s -> step c s o = Some (s', out) -> P s') ->
  forall ops s s', P s -> run c s ops = Some s' -> P s'.
Proof.
  intros HS. induction ops as [|o ops IH]; intros s s' I H; cbn [run] in H.
  - inversion H; subst; auto.
  - destruct (step c s o) as [[s1 out]|] eqn:E; try discriminate.
    apply (IH s1 s'); auto. apply (HS s o s1 out); auto.
Qed.

Lemma run_app c ops1 : forall ops2 s s1, run c s ops1 = Some s1 -> run c s (ops1 ++ ops2) = run c s1 ops2.
Proof.
  induction ops1 as [|o ops1 IH]; intros ops2 s s1 H; cbn [run app] in *.
  - inversion H; auto.
  - destruct (step c s o) as [[s2 out]|]; try discriminate. auto.
Qed.

(* T1 *)
Lemma released_stay_gone c ops s :
  c_ordered c = true -> run c init ops = Some s ->
  (forall i, In i (released s) -> aget i (live s) = None /\ aget i (store s) = None) /\
  (forall p f now i, In i (released s) ->
     let s' := fst (do_crash c s p f now) in
     In i (released s') /\ aget i (live s') = None /\ aget i (store s') = None).
Proof.
  intros O R.
  assert (I : inv1 s).
  { assert (J : inv1 s /\ inv4 s); [|tauto].
    eapply (run_inv (fun s => inv1 s /\ inv4 s) c); eauto.
    - intros. eapply step_inv14; eauto.
    - split; [apply inv1_init|apply inv4_init]. }
  split.
  - intros i Hi. destruct (i_gone s I i Hi) as (A & B & _). auto.
  - intros p f now i Hi s'.
    assert (I' : inv1 s') by (apply do_crash_inv1; auto).
    assert (G : released s' = released s).
    { unfold s', do_crash.
      destruct (restore_fold_inv1 c now f (match (if p then dp s else []) with [] => 1 | _ => 0 end)
              (store s) (isort (map fst (store s)))
              {| store := store s; pend := []; tick := tick s; applied := applied s; live := [];
                 leases := []; dp := if p then dp s else []; dpnext := if p then dpnext s else swif_base;
                 released := released s; used := used s; poison := []; completed := completed s; delpend := [] |} []) as (_ & _ & GR).
      - intros k r G. destruct I. cbn [used released]. repeat split; eauto.
        intros Hk. destruct (i_gone0 k Hk) as (A & _). congruence.
      - destruct I. constructor; cbn [store live pend tick applied released used completed]; auto;
          try (intros; discriminate).
        intros j Hj. destruct (i_gone0 j Hj) as (A & B & a & C & D). repeat split; auto.
        exists a. split; auto. intros; discriminate.
      - destruct (fold_left _ _ _) as [s1 lg]. cbn [fst] in *. auto. }
    assert (Hi' : In i (released s')) by (rewrite G; auto).
    destruct (i_gone s' I' i Hi') as (A & B & _). auto.
Qed.

(* ---------------------------------------------------------------- T2: established sessions are restored *)
Definition same_core (r r' : sess) : Prop :=
  s_id r' = s_id r /\ s_bound r' = s_bound r /\ s_rel4 r' = s_rel4 r /\ s_v4 r' = s_v4 r /\ s_v6 r' = s_v6 r /\ s_pd r' = s_pd r /\
  s_stamp r' = s_stamp r /\ s_l4 r' = s_l4 r /\ s_b4 r' = s_b4 r /\ s_l6 r' = s_l6 r /\ s_b6 r' = s_b6 r /\
  s_v6b r' = s_v6b r.

Lemma same_core_refl r : same_core r r. Proof. repeat split. Qed.
Lemma same_core_prog r sw : same_core r (set_prog r sw). Proof. repeat split. Qed.
Lemma same_core_appr r b : same_core r (set_appr r b). Proof. repeat split. Qed.

Definition fails (f : option N) (k : N) : bool := match f with Some x => x =? k | None => false end.

(* what the restore of session k (image r) must have produced *)
Definition restoredQ (c : cfg) (f : option N) (cause : N) (dp0 : list (N * dpe)) (k : N) (r : sess)
           (s : st) (lg : list tok) : Prop :=
  exists r', aget k (live s) = Some r' /\ same_core r r' /\
    (replayed c r = true -> fails f k = false ->
       exists sw, r' = set_prog r sw /\
         In (TA k sw) lg /\ In (TR k cause) lg /\ In (TU k) lg /\ In (TV k) lg /\
         (forall a, s_v4 r = Some a -> In (T4 k a) lg) /\
         (forall a, s_v6 r = Some a -> In (T6 k a) lg) /\
         (forall a, s_pd r = Some a -> In (TP k a) lg) /\
         (exists e, aget k (dp s) = Some e /\ d_swif e = sw /\
                    (forall a, s_v4 r = Some a -> d_v4 e = Some a) /\
                    (forall a, s_v6 r = Some a -> d_v6 e = Some a) /\
                    (forall a, s_pd r = Some a -> d_pd e = Some a)) /\
         (forall e0, aget k dp0 = Some e0 -> sw = d_swif e0)).

Definition dpinv (dp0 : list (N * dpe)) (k : N) (s : st) : Prop :=
  forall e0, aget k dp0 = Some e0 -> exists e, aget k (dp s) = Some e /\ d_swif e = d_swif e0.

Lemma dp_add_spec k d nx sw d1 nx1 :
  dp_add k d nx = (sw, d1, nx1) ->
  (exists e, aget k d1 = Some e /\ d_swif e = sw) /\
  (forall e0, aget k d = Some e0 -> sw = d_swif e0) /\
  (forall k', k' <> k -> aget k' d1 = aget k' d).
Proof.
  unfold dp_add. destruct (aget k d) as [e|] eqn:G; intros H; inversion H; subst; clear H.
  - repeat split; eauto. intros e0 H. inversion H; auto.
  - repeat split.
    + rewrite aget_aput_eq. eexists; split; eauto.
    + intros; discriminate.
    + intros k' N. apply aget_aput_neq; auto.
Qed.

Lemma dp_prog_spec k r d e :
  aget k d = Some e ->
  (exists e', aget k (dp_prog k r d) = Some e' /\ d_swif e' = d_swif e /\
     (forall a, s_v4 r = Some a -> d_v4 e' = Some a) /\
     (forall a, s_v6 r = Some a -> d_v6 e' = Some a) /\
     (forall a, s_pd r = Some a -> d_pd e' = Some a)) /\
  (forall k', k' <> k -> aget k' (dp_prog k r d) = aget k' d).
Proof.
  intros G. unfold dp_prog. rewrite G. split.
  - rewrite aget_aput_eq. eexists. split; eauto. cbn. repeat split; intros a H; rewrite H; auto.
  - intros k' N. apply aget_aput_neq; auto.
Qed.

Lemma In_app_l {A} (x : A) l1 l2 : In x l1 -> In x (l1 ++ l2). Proof. intros; apply in_or_app; auto. Qed.

Lemma prog_log_In c k sw r :
  In (TA k sw) (prog_log c k sw r) /\ In (TU k) (prog_log c k sw r) /\ In (TV k) (prog_log c k sw r) /\
  (forall a, s_v4 r = Some a -> In (T4 k a) (prog_log c k sw r)) /\
  (forall a, s_v6 r = Some a -> In (T6 k a) (prog_log c k sw r)) /\
  (forall a, s_pd r = Some a -> In (TP k a) (prog_log c k sw r)).
Proof.
  unfold prog_log. destruct (c_proto c); repeat split; try (intros a H; rewrite H);
    repeat (rewrite ?in_app_iff; cbn [In]); auto 12.
Qed.

Lemma restore_one_other c now f cause store0 s lg k k2 :
  k2 <> k ->
  aget k (live (fst (restore_one c now f cause store0 (s, lg) k2))) = aget k (live s) /\
  aget k (dp (fst (restore_one c now f cause store0 (s, lg) k2))) = aget k (dp s) /\
  (forall x, In x lg -> In x (snd (restore_one c now f cause store0 (s, lg) k2))).
Proof.
  intros NE. unfold restore_one.
  destruct (aget k2 store0) as [r|]; [|repeat split; auto].
  destruct (expired c now r). { cbn [fst snd upd_store live dp]. repeat split; auto. intros; apply In_app_l; auto. }
  destruct (match c_proto c with IPoE => s_appr r && negb (s_crea r) | PPPoE => false end).
  { cbn [fst snd install upd_store live dp]. rewrite aget_aput_neq; auto. repeat split; auto.
    intros; apply In_app_l; auto. }
  destruct (replayed c r).
  2:{ cbn [fst snd install upd_store live dp]. rewrite aget_aput_neq; auto. }
  destruct (match f with Some f0 => f0 =? k2 | None => false end).
  { cbn [fst snd install upd_store live dp]. rewrite aget_aput_neq; auto. repeat split; auto.
    intros; apply In_app_l; auto. }
  destruct (dp_add k2 (dp (install c s k2 r)) (dpnext (install c s k2 r))) as [[sw d1] nx1] eqn:DA.
  apply dp_add_spec in DA. destruct DA as ((e & G & _) & _ & OTH).
  destruct (dp_prog_spec k2 r d1 e G) as (_ & OTH2).
  cbn [fst snd live dp]. rewrite !aget_aput_neq, OTH2, OTH; auto. cbn [install live dp].
  rewrite aget_aput_neq; auto. repeat split; auto.
  intros; apply In_app_l; auto.
Qed.

Lemma restore_replay_self c f cause dp0 s lg k r :
  replayed c r = true -> fails f k = false -> dpinv dp0 k s ->
  forall sw d1 nx1, dp_add k (dp (install c s k r)) (dpnext (install c s k r)) = (sw, d1, nx1) ->
  let s' := {| store := store (install c s k r);
               pend := pend (install c s k r) ++ [(tick (install c s k r), set_prog r sw)];
               tick := tick (install c s k r) + 1; applied := applied (install c s k r);
               live := aput k (set_prog r sw) (live (install c s k r)); leases := leases (install c s k r);
               dp := dp_prog k r d1; dpnext := nx1; released := released (install c s k r);
               used := used (install c s k r); poison := poison (install c s k r); completed := completed (install c s k r); delpend := delpend (install c s k r) |} in
  restoredQ c f cause dp0 k r s' (lg ++ prog_log c k sw r ++ [TR k cause]) /\ dpinv dp0 k s'.
Proof.
  intros RP FL DI sw d1 nx1 DA s'.
  apply dp_add_spec in DA. destruct DA as ((e & Ge & SW) & PRES & _).
  destruct (dp_prog_spec k r d1 e Ge) as ((e' & Ge' & SW' & P4 & P6 & PP) & _).
  cbn [install dp] in PRES.
  split.
  - exists (set_prog r sw). unfold s'. cbn [live]. rewrite aget_aput_eq. split; auto.
    split; [apply same_core_prog|]. intros _ _. exists sw. split; auto.
    destruct (prog_log_In c k sw r) as (LA & LU & LV & L4 & L6 & LP).
    assert (M : forall x, In x (prog_log c k sw r) -> In x (lg ++ prog_log c k sw r ++ [TR k cause])).
    { intros x H. apply in_or_app. right. apply in_or_app. auto. }
    split; [auto|]. split; [apply in_or_app; right; apply in_or_app; right; cbn; auto|].
    split; [auto|]. split; [auto|]. split; [intros; auto|]. split; [intros; auto|]. split; [intros; auto|].
    split.
    + cbn [dp]. exists e'. rewrite SW', SW. repeat split; auto.
    + intros e0 H0. destruct (DI e0 H0) as (e1 & G1 & S1). rewrite (PRES e1 G1). auto.
  - intros e0 H0. destruct (DI e0 H0) as (e1 & G1 & S1). unfold s'. cbn [dp].
    exists e'. split; auto. rewrite SW', SW, (PRES e1 G1). auto.
Qed.

Lemma restore_one_self c now f cause store0 dp0 s lg k r :
  aget k store0 = Some r -> expired c now r = false -> dpinv dp0 k s ->
  restoredQ c f cause dp0 k r (fst (restore_one c now f cause store0 (s, lg) k))
            (snd (restore_one c now f cause store0 (s, lg) k)) /\
  dpinv dp0 k (fst (restore_one c now f cause store0 (s, lg) k)).
Proof.
  intros G EX DI. unfold restore_one. rewrite G, EX.
  destruct (match c_proto c with IPoE => s_appr r && negb (s_crea r) | PPPoE => false end) eqn:HALF.
  { cbn [fst snd]. split; [|exact DI]. exists (set_appr r false). cbn [install live]. rewrite aget_aput_eq.
    split; auto. split; [apply same_core_appr|]. intros RP. exfalso. unfold replayed in RP.
    destruct (c_proto c); [rewrite HALF in RP|]; discriminate. }
  destruct (replayed c r) eqn:RP.
  2:{ cbn [fst snd]. split; [|exact DI]. exists r. cbn [install live]. rewrite aget_aput_eq.
      split; auto. split; [apply same_core_refl|]. intros RP'. congruence. }
  destruct (match f with Some f0 => f0 =? k | None => false end) eqn:FL.
  { cbn [fst snd]. split; [|exact DI]. exists r. cbn [install live]. rewrite aget_aput_eq.
    split; auto. split; [apply same_core_refl|]. unfold fails. rewrite FL. discriminate. }
  destruct (dp_add k (dp (install c s k r)) (dpnext (install c s k r))) as [[sw d1] nx1] eqn:DA.
  cbn [fst snd].
  apply (restore_replay_self c f cause dp0 s lg k r RP FL); auto.
Qed.

Lemma restoredQ_other c now f cause store0 dp0 s lg k r k2 :
  k2 <> k -> restoredQ c f cause dp0 k r s lg -> dpinv dp0 k s ->
  restoredQ c f cause dp0 k r (fst (restore_one c now f cause store0 (s, lg) k2))
            (snd (restore_one c now f cause store0 (s, lg) k2)) /\
  dpinv dp0 k (fst (restore_one c now f cause store0 (s, lg) k2)).
Proof.
  intros NE Q DI. destruct (restore_one_other c now f cause store0 s lg k k2 NE) as (L & D & LG).
  split.
  - destruct Q as (r' & GL & SC & REST). exists r'. rewrite L. split; auto. split; auto.
    intros RP FL. destruct (REST RP FL) as (sw & E & A1 & A2 & A3 & A4 & A5 & A6 & A7 & (e & Ge & Pe) & A9).
    exists sw. split; auto. repeat split; auto. exists e. rewrite D. auto.
  - intros e0 H0. rewrite D. auto.
Qed.

Lemma restore_fold_Q c now f cause store0 dp0 k r ks : forall s lg,
  aget k store0 = Some r -> expired c now r = false -> dpinv dp0 k s ->
  (restoredQ c f cause dp0 k r s lg \/ In k ks) ->
  restoredQ c f cause dp0 k r (fst (fold_left (restore_one c now f cause store0) ks (s, lg)))
            (snd (fold_left (restore_one c now f cause store0) ks (s, lg))).
Proof.
  induction ks as [|k0 ks IH]; intros s lg G EX DI H; cbn [fold_left].
  - destruct H as [H|H]; [auto|destruct H].
  - destruct (N.eq_dec k0 k) as [E|NE].
    + subst k0. destruct (restore_one_self c now f cause store0 dp0 s lg k r G EX DI) as (Q & DI').
      destruct (restore_one c now f cause store0 (s, lg) k) as [s1 lg1]. apply IH; auto.
    + destruct H as [Q|[E|IN]]; [|contradiction|].
      * destruct (restoredQ_other c now f cause store0 dp0 s lg k r k0 NE Q DI) as (Q' & DI').
        destruct (restore_one c now f cause store0 (s, lg) k0) as [s1 lg1]. apply IH; auto.
      * destruct (restore_one_other c now f cause store0 s lg k k0 NE) as (L & D & LG).
        assert (DI' : dpinv dp0 k (fst (restore_one c now f cause store0 (s, lg) k0))).
        { intros e0 H0. rewrite D. auto. }
        destruct (restore_one c now f cause store0 (s, lg) k0) as [s1 lg1]. apply IH; auto.
Qed.

(* T2 *)
Lemma established_restored c s (p : bool) f now k r :
  aget k (store s) = Some r -> expired c now r = false ->
  let dp0 := if p then dp s else [] in
  let cause := match dp0 with [] => 1 | _ => 0 end in
  exists lg, snd (do_crash c s p f now) = OCrash lg /\
             restoredQ c f cause dp0 k r (fst (do_crash c s p f now)) lg.
Proof.
  intros G EX dp0 cause. unfold do_crash. fold dp0. fold cause.
  match goal with |- context [fold_left ?F ?L ?A] => set (FL := fold_left F L A) end.
  assert (Q : restoredQ c f cause dp0 k r (fst FL) (snd FL)).
  { unfold FL. apply restore_fold_Q; auto.
    - intros e0 H0. cbn [dp]. eauto.
    - right. apply isort_In. eapply aget_In; eauto. }
  destruct FL as [s1 lg]. cbn [fst snd] in *. exists lg. auto.
Qed.

(* ---------------------------------------------------------------- T3 (restore level): addresses are reserved again *)
Definition reserves (c : cfg) : Prop := c_proto c = IPoE \/ c_reserve c = true.

(* images of different sessions do not share an in-pool address *)
Definition disjoint_images (c : cfg) (store0 : list (N * sess)) : Prop :=
  forall k k' r r' ad, aget k store0 = Some r -> aget k' store0 = Some r' ->
    In ad (addrs r) -> In ad (addrs r') -> inpool c ad = true -> k = k'.

Lemma restore_one_shape c now f cause store0 s lg k :
  reserves c ->
  let s' := fst (restore_one c now f cause store0 (s, lg) k) in
  (live s' = live s /\ leases s' = leases s) \/
  (exists r0 rX, aget k store0 = Some r0 /\ addrs rX = addrs r0 /\ aget k (live s') = Some rX /\
     (forall k', k' <> k -> aget k' (live s') = aget k' (live s)) /\
     leases s' = reserve_all c k (leases s) (addrs r0)).
Proof.
  intros RS s'. unfold s', restore_one.
  destruct (aget k store0) as [r|] eqn:G; [|left; auto].
  destruct (expired c now r). { left. auto. }
  assert (LS : forall s0 rX, addrs rX = addrs r ->
           leases (install c s0 k rX) = reserve_all c k (leases s0) (addrs r)).
  { intros s0 rX E. cbn [install leases]. rewrite E.
    destruct RS as [RS|RS]; rewrite RS; auto. destruct (c_proto c); auto. }
  destruct (match c_proto c with IPoE => s_appr r && negb (s_crea r) | PPPoE => false end).
  { right. exists r, (set_appr r false). cbn [fst]. rewrite LS; auto. cbn [install live upd_store leases].
    rewrite aget_aput_eq. repeat split; auto. intros; apply aget_aput_neq; auto. }
  destruct (replayed c r).
  2:{ right. exists r, r. cbn [fst]. rewrite LS; auto. cbn [install live]. rewrite aget_aput_eq.
      repeat split; auto. intros; apply aget_aput_neq; auto. }
  destruct (match f with Some f0 => f0 =? k | None => false end).
  { right. exists r, r. cbn [fst]. rewrite LS; auto. cbn [install live]. rewrite aget_aput_eq.
    repeat split; auto. intros; apply aget_aput_neq; auto. }
  destruct (dp_add k (dp (install c s k r)) (dpnext (install c s k r))) as [[sw d1] nx1].
  right. exists r, (set_prog r sw). cbn [fst live leases]. rewrite LS; auto. rewrite aget_aput_eq.
  repeat split; auto. intros k' NE. rewrite aget_aput_neq; auto. cbn [install live]. apply aget_aput_neq; auto.
Qed.

Lemma reserve_spec c k ls ad :
  (forall o, aget ad ls = Some o -> o = k) ->
  let ls' := reserve c k ls ad in
  (inpool c ad = true -> aget ad ls' = Some k) /\
  (forall x o, aget x ls = Some o -> aget x ls' = Some o) /\
  (forall x o, aget x ls' = Some o -> aget x ls = Some o \/ (o = k /\ x = ad /\ inpool c ad = true)).
Proof.
  intros OWN ls'. unfold ls', reserve. destruct (inpool c ad) eqn:IP.
  - destruct (aget ad ls) as [o|] eqn:G.
    + rewrite (OWN o eq_refl) in *. repeat split; auto.
    + repeat split.
      * intros _. apply aget_aput_eq.
      * intros x o H. rewrite aget_aput. eqb_case x ad; [congruence|auto].
      * intros x o. rewrite aget_aput. eqb_case x ad; [intros H; inversion H; auto|auto].
  - repeat split; auto. discriminate.
Qed.

Lemma reserve_all_spec c k ads : forall ls,
  (forall ad o, In ad ads -> aget ad ls = Some o -> o = k) ->
  let ls' := reserve_all c k ls ads in
  (forall ad, In ad ads -> inpool c ad = true -> aget ad ls' = Some k) /\
  (forall x o, aget x ls = Some o -> aget x ls' = Some o) /\
  (forall x o, aget x ls' = Some o -> aget x ls = Some o \/ (o = k /\ In x ads /\ inpool c x = true)).
Proof.
  induction ads as [|a ads IH]; intros ls OWN; cbn [reserve_all fold_left].
  - repeat split; auto. intros ad [].
  - destruct (reserve_spec c k ls a) as (A1 & A2 & A3). { intros o H. eapply OWN; eauto. left; auto. }
    destruct (IH (reserve c k ls a)) as (B1 & B2 & B3).
    { intros ad o IN H. destruct (A3 _ _ H) as [H'|(E & _)]; auto. eapply OWN; eauto. right; auto. }
    fold (reserve_all c k (reserve c k ls a) ads). repeat split.
    + intros ad [E|IN] IP; [subst; apply B2; auto | apply B1; auto].
    + intros x o H. apply B2, A2. auto.
    + intros x o H. destruct (B3 _ _ H) as [H'|(E & IN & IP)].
      * destruct (A3 _ _ H') as [H2|(E & E2 & IP)]; auto. subst. right. repeat split; auto. left; auto.
      * right. repeat split; auto. right; auto.
Qed.

Record linv (c : cfg) (store0 : list (N * sess)) (s : st) : Prop := {
  l_live : forall k r', aget k (live s) = Some r' -> exists r0, aget k store0 = Some r0 /\ addrs r' = addrs r0;
  l_lease : forall ad k, aget ad (leases s) = Some k ->
              exists r0, aget k store0 = Some r0 /\ In ad (addrs r0) /\ inpool c ad = true;
  l_own : forall k r' ad, aget k (live s) = Some r' -> In ad (addrs r') -> inpool c ad = true ->
            aget ad (leases s) = Some k }.

Lemma restore_one_linv c now f cause store0 s lg k :
  reserves c -> disjoint_images c store0 -> linv c store0 s ->
  linv c store0 (fst (restore_one c now f cause store0 (s, lg) k)).
Proof.
  intros RS DJ LI.
  destruct (restore_one_shape c now f cause store0 s lg k RS) as [(E1 & E2)|(r0 & rX & G & EA & GL & OTH & LS)].
  { destruct LI. constructor; rewrite ?E1, ?E2; auto. }
  destruct LI.
  destruct (reserve_all_spec c k (addrs r0) (leases s)) as (B1 & B2 & B3).
  { intros ad o IN H. destruct (l_lease0 _ _ H) as (r1 & G1 & IN1 & IP). eapply DJ; eauto. }
  constructor.
  - intros k0 r'. destruct (N.eq_dec k0 k) as [E|NE].
    + subst. rewrite GL. intros H. inversion H; subst. eauto.
    + rewrite OTH; auto.
  - intros ad k0. rewrite LS. intros H. destruct (B3 _ _ H) as [H'|(E & IN & IP)]; auto. subst. eauto.
  - intros k0 r' ad. rewrite LS. destruct (N.eq_dec k0 k) as [E|NE].
    + subst. rewrite GL. intros H IN IP. inversion H; subst. apply B1; auto. rewrite <- EA. auto.
    + rewrite OTH; auto. intros H IN IP. apply B2. eauto.
Qed.

Lemma restore_fold_linv c now f cause store0 ks : forall s lg,
  reserves c -> disjoint_images c store0 -> linv c store0 s ->
  linv c store0 (fst (fold_left (restore_one c now f cause store0) ks (s, lg))).
Proof.
  induction ks as [|k ks IH]; intros s lg RS DJ LI; cbn [fold_left]; auto.
  pose proof (restore_one_linv c now f cause store0 s lg k RS DJ LI) as LI'.
  destruct (restore_one c now f cause store0 (s, lg) k) as [s1 lg1]. apply IH; auto.
Qed.

Lemma code_inpool c f a : f < 3 -> a < fam_size c f -> inpool c (code f a) = true.
Proof.
  intros F A. unfold inpool, code.
  assert (E1 : (3 * a + f) / 3 = a) by (symmetry; apply (N.div_unique (3 * a + f) 3 a f); lia).
  assert (E2 : (3 * a + f) mod 3 = f) by (symmetry; apply (N.mod_unique (3 * a + f) 3 a f); lia).
  rewrite E1, E2. apply N.ltb_lt. auto.
Qed.

(* T3, restore level *)
Lemma reserved_after_restore c s (p : bool) f now :
  reserves c -> disjoint_images c (store s) ->
  let s' := fst (do_crash c s p f now) in
  (forall k r ad, aget k (live s') = Some r -> In ad (addrs r) -> inpool c ad = true ->
                  aget ad (leases s') = Some k) /\
  (forall fam a, fam < 3 -> alloc_ok c (leases s') fam (Some a) = true ->
                 forall k r, aget k (live s') = Some r -> ~ In (code fam a) (addrs r)).
Proof.
  intros RS DJ s'.
  assert (LI : linv c (store s) s').
  { unfold s', do_crash.
    match goal with |- context [fold_left (restore_one c now f ?CA (store s)) ?L (?S0, ?LG)] =>
      pose proof (restore_fold_linv c now f CA (store s) L S0 LG RS DJ) as H end.
    destruct (fold_left _ _ _) as [s1 lg]. cbn [fst] in *. apply H.
    constructor; cbn [live leases]; intros; discriminate. }
  split.
  - intros k r ad. apply (l_own _ _ _ LI).
  - intros fam a F OK k r G IN. unfold alloc_ok in OK. apply andb_prop in OK. destruct OK as (A & B).
    apply N.ltb_lt in A. pose proof (l_own _ _ _ LI k r _ G IN (code_inpool c fam a F A)) as L.
    unfold amem in B. rewrite L in B. discriminate.
Qed.

(* ---------------------------------------------------------------- T3 in full: invariant 2 over histories *)
Definition pools_small (c : cfg) : Prop :=
  c_n4 c <= static_base /\ c_n6 c <= static_base /\ c_npd c <= static_base.

Record inv2 (c : cfg) (s : st) : Prop := {
  j_own : forall k r ad, aget k (live s) = Some r -> In ad (addrs r) -> inpool c ad = true ->
            aget ad (leases s) = Some k;
  k_store : forall k r, aget k (store s) = Some r ->
            exists r', aget k (live s) = Some r' /\ incl (addrs r) (addrs r');
  k_pend : forall t r, aget t (pend s) = Some r -> effective c s (s_id r) t = true ->
            exists r', aget (s_id r) (live s) = Some r' /\ incl (addrs r) (addrs r') }.

Lemma inv2_init c : inv2 c init.
Proof. constructor; cbn; intros; discriminate. Qed.

Lemma effective_eq c s s' i t :
  aget i (applied s') = aget i (applied s) -> effective c s' i t = effective c s i t.
Proof. unfold effective. intros ->. auto. Qed.

Lemma release_all_notin ads : forall ls x, ~ In x ads -> aget x (release_all ls ads) = aget x ls.
Proof.
  induction ads as [|a ads IH]; intros ls x NI; cbn [release_all fold_left]; auto.
  fold (release_all (aremove a ls) ads). rewrite IH.
  - apply aget_aremove_neq. intro; subst. apply NI. left; auto.
  - intro. apply NI. right; auto.
Qed.

Lemma static_not_inpool c f k : pools_small c -> f < 3 -> inpool c (code f (static_base + k)) = false.
Proof.
  intros (P4 & P6 & PD) F. unfold inpool, code.
  assert (E1 : (3 * (static_base + k) + f) / 3 = static_base + k)
    by (symmetry; apply (N.div_unique (3 * (static_base + k) + f) 3 (static_base + k) f); lia).
  assert (E2 : (3 * (static_base + k) + f) mod 3 = f)
    by (symmetry; apply (N.mod_unique (3 * (static_base + k) + f) 3 (static_base + k) f); lia).
  rewrite E1, E2. apply N.ltb_ge. unfold fam_size.
  destruct f as [|[p|p|]]; lia.
Qed.

Lemma take_addr_spec c own ls f sp o a ls' :
  pools_small c -> f < 3 -> take_addr c own ls f sp o = Some (a, ls') ->
  (forall x o', aget x ls = Some o' -> aget x ls' = Some o') /\
  (forall x o', aget x ls' = Some o' -> aget x ls = Some o' \/ o' = own) /\
  (forall a', a = Some a' -> inpool c (code f a') = true -> aget (code f a') ls' = Some own).
Proof.
  intros PS F H. unfold take_addr in H. destruct sp.
  - inversion H; subst. repeat split; auto. intros; discriminate.
  - destruct (alloc_ok c ls f o) eqn:OK; try discriminate. destruct o as [a0|].
    + inversion H; subst; clear H. unfold alloc_ok in OK. apply andb_prop in OK. destruct OK as (_ & NM).
      unfold amem in NM. destruct (aget (code f a0) ls) eqn:G; try discriminate.
      repeat split.
      * intros x o' H. rewrite aget_aput. eqb_case x (code f a0); [congruence|auto].
      * intros x o'. rewrite aget_aput. eqb_case x (code f a0); [intros H; inversion H; auto|auto].
      * intros a' E _. inversion E; subst. apply aget_aput_eq.
    + inversion H; subst. repeat split; auto. intros; discriminate.
  - assert (EA : a = Some (static_base + k)) by congruence. assert (EL : ls' = ls) by congruence.
    clear H. subst a ls'. repeat split; auto. intros a' E IP.
    assert (E' : a' = static_base + k) by congruence. subst a'.
    rewrite static_not_inpool in IP; auto. discriminate.
Qed.

Lemma In_addrs r ad :
  In ad (addrs r) ->
  (exists a, s_v4 r = Some a /\ ad = code 0 a) \/ (exists a, s_v6 r = Some a /\ ad = code 1 a) \/
  (exists a, s_pd r = Some a /\ ad = code 2 a).
Proof.
  unfold addrs, optc. intros H. rewrite !in_app_iff in H.
  destruct (s_v4 r), (s_v6 r), (s_pd r); cbn in H; intuition eauto.
Qed.

Lemma do_new_inv2 c s n o4 o6 opd s' o :
  pools_small c -> inv1 s -> inv2 c s -> do_new c s n o4 o6 opd = Some (s', o) -> inv2 c s'.
Proof.
  intros PS I1 I2 H. unfold do_new in H.
  destruct (nmem (n_id n) (used s)) eqn:U; [inversion H; subst; auto|].
  destruct (take_addr c (n_id n) (leases s) 0 (n_a4 n) o4) as [[a4 l1]|] eqn:T4; try discriminate.
  destruct (take_addr c (n_id n) l1 1 (n_a6 n) o6) as [[a6 l2]|] eqn:T6; try discriminate.
  destruct (take_addr c (n_id n) l2 2 (n_apd n) opd) as [[apd l3]|] eqn:TP; try discriminate.
  assert (NU : ~ In (n_id n) (used s)) by (rewrite <- nmem_In; congruence).
  apply take_addr_spec in T4; [|auto|lia]. apply take_addr_spec in T6; [|auto|lia].
  apply take_addr_spec in TP; [|auto|lia].
  destruct T4 as (M4 & _ & O4). destruct T6 as (M6 & _ & O6). destruct TP as (MP & _ & OP).
  set (r0 := {| s_id := n_id n; s_bound := n_bound n;
                s_rel4 := match c_proto c with IPoE => true | PPPoE => false end && n_rel4 n && negb (n_bound n);
                s_appr := match c_proto c with IPoE => true | PPPoE => false end && n_appr n;
                s_crea := n_crea n;
                s_v6b := match c_proto c with IPoE => true | PPPoE => false end && n_v6b n;
                s_v4 := a4; s_v6 := a6; s_pd := apd; s_l4 := n_l4 n; s_b4 := n_b4 n; s_l6 := n_l6 n;
                s_b6 := n_b6 n; s_stamp := None; s_swif := 0 |}) in *.
  assert (OWN : forall r, addrs r = addrs r0 -> forall ad, In ad (addrs r) -> inpool c ad = true ->
                aget ad l3 = Some (n_id n)).
  { intros r E ad IN IP. rewrite E in IN. apply In_addrs in IN. cbn [r0 s_v4 s_v6 s_pd] in IN.
    destruct IN as [(a & E1 & E2)|[(a & E1 & E2)|(a & E1 & E2)]]; subst ad.
    - apply MP, M6, O4; auto.
    - apply MP, O6; auto.
    - apply OP; auto. }
  assert (REST : forall (r : sess) d nx, addrs r = addrs r0 ->
            inv2 c {| store := store s; pend := pend s; tick := tick s; applied := applied s;
                      live := aput (n_id n) r (live s); leases := l3; dp := d; dpnext := nx;
                      released := released s; used := n_id n :: used s; poison := poison s; completed := completed s; delpend := delpend s |}).
  { intros r d nx EA. destruct I1, I2. constructor; cbn [store live pend leases applied].
    - intros k r1 ad. rewrite aget_aput. eqb_case k (n_id n).
      + intros H1. inversion H1; subst. apply OWN; auto.
      + intros H1 IN IP. apply MP, M6, M4. eauto.
    - intros k r1 G. destruct (k_store0 _ _ G) as (r' & GL & E). exists r'. split; auto.
      rewrite aget_aput_neq; auto. intro; subst. apply NU. eauto.
    - intros t r1 G EF. erewrite effective_eq in EF by reflexivity.
      destruct (k_pend0 _ _ G EF) as (r' & GL & E). exists r'. split; auto.
      rewrite aget_aput_neq; auto. intro E2. apply NU. rewrite <- E2. eauto. }
  destruct (n_crea n).
  - destruct (dp_add (n_id n) (dp s) (dpnext s)) as [[sw d1] nx1]. inversion H; subst s' o; clear H.
    apply REST. reflexivity.
  - inversion H; subst s' o; clear H. apply REST. reflexivity.
Qed.

Lemma do_ck_inv2 c s i : inv1 s -> inv2 c s -> inv2 c (fst (do_ck s i)).
Proof.
  intros I1 I2. unfold do_ck. destruct (aget i (live s)) as [r|] eqn:L; auto. destruct I1, I2.
  constructor; cbn [fst store live pend leases applied].
  - intros k r1 ad. rewrite aget_aput. eqb_case k i; [|eauto].
    intros H. inversion H; subst. rewrite set_stamp_addrs. eauto.
  - intros k r1 G. destruct (k_store0 _ _ G) as (r' & GL & E). rewrite aget_aput. eqb_case k i; [|eauto].
    rewrite L in GL. inversion GL; subst. eexists; split; [eauto|exact E].
  - intros t r1 G EF. erewrite effective_eq in EF by reflexivity. apply aget_snoc in G.
    destruct G as [G|[_ G]].
    + destruct (k_pend0 _ _ G EF) as (r' & GL & E). rewrite aget_aput. eqb_case (s_id r1) i; [|eauto].
      rewrite L in GL. inversion GL; subst. eexists; split; [eauto|exact E].
    + subst r1. rewrite set_stamp_id, (i_live_id0 _ _ L), aget_aput_eq. eexists; split; [reflexivity|apply incl_refl].
Qed.

Lemma effective_ord c s i t :
  c_ordered c = true ->
  effective c s i t = match aget i (applied s) with Some a => a <? t | None => true end.
Proof. intros O. unfold effective. rewrite O. auto. Qed.

Lemma do_cks_inv2 c s i : c_ordered c = true -> inv1 s -> inv2 c s -> inv2 c (fst (do_cks s i)).
Proof.
  intros O I1 I2. unfold do_cks. destruct (aget i (live s)) as [r|] eqn:L; auto. destruct I1, I2.
  constructor; cbn [fst store live pend leases applied].
  - intros k r1 ad. rewrite aget_aput. eqb_case k i; [|eauto].
    intros H. inversion H; subst. rewrite set_stamp_addrs. eauto.
  - intros k r1. rewrite !aget_aput. eqb_case k i; [intros H; inversion H; eexists; split; [reflexivity|apply incl_refl]|eauto].
  - intros t r1 G EF. destruct (N.eq_dec (s_id r1) i) as [E|NE].
    + exfalso. rewrite effective_ord in EF by auto. cbn [applied] in EF. rewrite E, aget_aput_eq in EF.
      apply i_pend_tick0 in G. apply N.ltb_lt in EF. lia.
    + erewrite effective_eq in EF by (cbn [applied]; apply aget_aput_neq; auto).
      destruct (k_pend0 _ _ G EF) as (r' & GL & E). rewrite aget_aput_neq; eauto.
Qed.

Lemma do_rel_inv2 c s i : c_ordered c = true -> inv1 s -> inv2 c s -> inv2 c (fst (do_rel s i)).
Proof.
  intros O I1 I2. unfold do_rel. destruct (aget i (live s)) as [r|] eqn:L; auto. destruct I1, I2.
  constructor; cbn [fst store live pend leases applied].
  - intros k r1 ad. rewrite aget_aremove. eqb_case k i; [discriminate|]. intros G IN IP.
    rewrite release_all_notin; eauto. intros IN2.
    pose proof (j_own0 _ _ _ L IN2 IP) as A. pose proof (j_own0 _ _ _ G IN IP) as B. congruence.
  - intros k r1. rewrite !aget_aremove. eqb_case k i; [discriminate|eauto].
  - intros t r1 G EF. destruct (N.eq_dec (s_id r1) i) as [E|NE].
    + exfalso. rewrite effective_ord in EF by auto. cbn [applied] in EF. rewrite E, aget_aput_eq in EF.
      apply i_pend_tick0 in G. apply N.ltb_lt in EF. lia.
    + erewrite effective_eq in EF by (cbn [applied]; apply aget_aput_neq; auto).
      destruct (k_pend0 _ _ G EF) as (r' & GL & E). rewrite aget_aremove_neq; eauto.
Qed.

Lemma inv2_pend_sub c s pd po :
  inv2 c s -> (forall t r, aget t pd = Some r -> aget t (pend s) = Some r) -> inv2 c (set_pend_poison s pd po).
Proof.
  intros [] SUB. constructor; cbn [set_pend_poison store live pend leases applied]; eauto.
Qed.

Lemma do_poison_inv2 c s t al : inv2 c s -> inv2 c (fst (do_poison s t al)).
Proof. intros I. unfold do_poison. destruct (aget t (pend s)); auto. cbn [fst]. apply inv2_pend_sub; auto. Qed.

Lemma do_done_core_inv2 c s t rt : c_ordered c = true -> inv1 s -> inv2 c s -> inv2 c (fst (do_done_core c s t rt)).
Proof.
  intros O I1 I2. unfold do_done_core. destruct (aget t (pend s)) as [r|] eqn:P; auto.
  assert (SUB : forall t' r', aget t' (aremove t (pend s)) = Some r' -> aget t' (pend s) = Some r' /\ t' <> t).
  { intros t' r'. rewrite aget_aremove. eqb_case t' t; [discriminate|auto]. }
  destruct (aget t (poison s)) as [al|] eqn:PO.
  { destruct rt; cbn [fst]; apply inv2_pend_sub; auto. intros t' r' H. apply SUB in H. tauto. }
  destruct I1, I2.
  destruct (effective c s (s_id r) t) eqn:EF; cbn [fst].
  - constructor; cbn [store live pend leases applied]; auto.
    + intros k r1. rewrite aget_aput. eqb_case k (s_id r); [|eauto]. intros H. inversion H; subst. eauto.
    + intros t' r1 G EF'. apply SUB in G. destruct G as (G & NE). apply (k_pend0 _ _ G).
      rewrite effective_ord in * by auto. cbn [applied] in EF'. rewrite aget_aput in EF'.
      eqb_case (s_id r1) (s_id r); [|auto]. rewrite E. destruct (aget (s_id r) (applied s)); auto.
      apply N.ltb_lt in EF, EF'. apply N.ltb_lt. lia.
  - constructor; cbn [store live pend leases applied]; auto.
    intros t' r1 G EF'. apply SUB in G. destruct G as (G & NE). apply (k_pend0 _ _ G).
    erewrite effective_eq in EF' by reflexivity. auto.
Qed.

Lemma flush_inv12 c ts : forall s, c_ordered c = true -> inv1 s -> inv2 c s ->
  inv1 (fold_left (fun s0 t => fst (do_done_core c s0 t false)) ts s) /\
  inv2 c (fold_left (fun s0 t => fst (do_done_core c s0 t false)) ts s).
Proof.
  induction ts as [|t ts IH]; intros s O I1 I2; cbn [fold_left]; auto.
  apply IH; auto. apply do_done_core_inv1; auto. apply do_done_core_inv2; auto.
Qed.

Lemma do_cksf_inv2 c s i : c_ordered c = true -> inv1 s -> inv2 c s -> inv2 c (fst (do_cksf c s i)).
Proof.
  intros O I1 I2. unfold do_cksf. destruct (aget i (live s)) as [r|] eqn:L; auto. rewrite O. cbn [fst].
  destruct (flush_inv12 c (map fst (filter (fun tr => (s_id (snd tr) =? i) && (fst tr <? tick s)) (pend s))) s O I1 I2) as (J1 & J2).
  destruct (flush_inv1 c (map fst (filter (fun tr => (s_id (snd tr) =? i) && (fst tr <? tick s)) (pend s))) s O I1) as (_ & B).
  fold (flush c s i (tick s)) in J1, J2, B. set (s1 := flush c s i (tick s)) in *.
  assert (L1 : aget i (live s1) = Some r) by (rewrite B; auto).
  destruct J1, J2.
  constructor; cbn [store live pend leases applied].
  - intros k r1 ad. rewrite aget_aput. eqb_case k i; [|eauto].
    intros H. inversion H; subst. rewrite set_stamp_addrs. eauto.
  - intros k r1 G. destruct (k_store0 _ _ G) as (r' & GL & E). rewrite aget_aput. eqb_case k i; [|eauto].
    rewrite L1 in GL. inversion GL; subst. eexists; split; eauto.
  - intros t r1 G EF. erewrite effective_eq in EF by reflexivity.
    destruct (k_pend0 _ _ G EF) as (r' & GL & E). rewrite aget_aput. eqb_case (s_id r1) i; [|eauto].
    rewrite L1 in GL. inversion GL; subst. eexists; split; eauto.
Qed.

(* ---- effect of one restore step on store / pend / live ---- *)
Lemma amem_aput {V} k k' (v : V) l : amem k l = true -> amem k (aput k' v l) = true.
Proof. unfold amem. rewrite aget_aput. destruct (N.eqb k k'); auto. Qed.
Lemma amem_aput_eq {V} k (v : V) l : amem k (aput k v l) = true.
Proof. unfold amem. rewrite aget_aput_eq. auto. Qed.

Lemma restore_one_effect c now f cause store0 s lg k :
  (forall k r, aget k store0 = Some r -> s_id r = k) ->
  let s' := fst (restore_one c now f cause store0 (s, lg) k) in
  (aget k store0 = None -> s' = s) /\
  (forall k', k' <> k -> aget k' (store s') = aget k' (store s)) /\
  (forall r0 r, aget k store0 = Some r0 -> aget k (store s') = Some r ->
     amem k (live s') = true /\ (aget k (store s) = Some r \/ addrs r = addrs r0)) /\
  (forall t r, aget t (pend s') = Some r ->
     aget t (pend s) = Some r \/
     (exists r0, aget k store0 = Some r0 /\ addrs r = addrs r0 /\ s_id r = k /\ amem k (live s') = true)) /\
  (forall k', amem k' (live s) = true -> amem k' (live s') = true).
Proof.
  intros IDS s'. unfold s', restore_one.
  destruct (aget k store0) as [r|] eqn:G.
  2:{ cbn [fst]. repeat split; auto; intros; discriminate. }
  split; [discriminate|].
  destruct (expired c now r).
  { cbn [fst upd_store store pend live]. repeat split; auto.
    - intros; apply aget_aremove_neq; auto.
    - rewrite aget_aremove_eq in H0. discriminate.
    - rewrite aget_aremove_eq in H0. discriminate. }
  destruct (match c_proto c with IPoE => s_appr r && negb (s_crea r) | PPPoE => false end).
  { cbn [fst install upd_store store pend live]. repeat split; auto.
    - intros; apply aget_aput_neq; auto.
    - apply amem_aput_eq.
    - rewrite aget_aput_eq in H0. inversion H; subst. inversion H0; subst. right. auto.
    - intros; apply amem_aput; auto. }
  destruct (replayed c r).
  2:{ cbn [fst install store pend live]. repeat split; auto.
      - apply amem_aput_eq.
      - intros; apply amem_aput; auto. }
  destruct (match f with Some f0 => f0 =? k | None => false end).
  { cbn [fst install store pend live]. repeat split; auto.
    - apply amem_aput_eq.
    - intros; apply amem_aput; auto. }
  destruct (dp_add k (dp (install c s k r)) (dpnext (install c s k r))) as [[sw d1] nx1].
  cbn [fst install store pend live]. repeat split; auto.
  - apply amem_aput_eq.
  - intros t r1 H. apply aget_snoc in H. destruct H as [H|[_ H]]; auto. right. subst r1.
    exists r. rewrite set_prog_addrs, set_prog_id. repeat split; auto. apply amem_aput_eq.
  - intros; apply amem_aput, amem_aput; auto.
Qed.

Record rinv (store0 : list (N * sess)) (ks : list N) (s : st) : Prop := {
  r_store : forall k r, aget k (store s) = Some r -> exists r0, aget k store0 = Some r0 /\ addrs r = addrs r0;
  r_pend : forall t r, aget t (pend s) = Some r ->
             exists r0, aget (s_id r) store0 = Some r0 /\ addrs r = addrs r0 /\ amem (s_id r) (live s) = true;
  r_cover : forall k r, aget k (store s) = Some r -> amem k (live s) = true \/ In k ks }.

Lemma restore_fold_rinv c now f cause store0 ks : forall s lg,
  (forall k r, aget k store0 = Some r -> s_id r = k) ->
  rinv store0 ks s ->
  rinv store0 [] (fst (fold_left (restore_one c now f cause store0) ks (s, lg))).
Proof.
  induction ks as [|k ks IH]; intros s lg IDS RI; cbn [fold_left]; auto.
  destruct (restore_one_effect c now f cause store0 s lg k IDS) as (E0 & E1 & E2 & E3 & E4).
  destruct (restore_one c now f cause store0 (s, lg) k) as [s1 lg1] eqn:R1. cbn [fst] in *.
  apply IH; auto. destruct RI. constructor.
  - intros k0 r G. destruct (N.eq_dec k0 k) as [E|NE].
    + subst k0. destruct (aget k store0) as [r0|] eqn:G0.
      * destruct (E2 r0 r eq_refl G) as (_ & [H|H]); eauto. destruct (r_store0 _ _ H) as (r0' & A & B).
        rewrite G0 in A. inversion A; subst. eauto.
      * rewrite (E0 eq_refl) in G. destruct (r_store0 _ _ G) as (r0' & A & B). congruence.
    + rewrite E1 in G; auto.
  - intros t r G. destruct (E3 _ _ G) as [H|(r0 & A & B & C & D)].
    + destruct (r_pend0 _ _ H) as (r0 & A & B & C). eauto.
    + subst k. eauto.
  - intros k0 r G. destruct (N.eq_dec k0 k) as [E|NE].
    + subst k0. destruct (aget k store0) as [r0|] eqn:G0.
      * destruct (E2 r0 r eq_refl G) as (M & _). auto.
      * rewrite (E0 eq_refl) in G. destruct (r_store0 _ _ G) as (r0' & A & B). congruence.
    + rewrite E1 in G; auto. destruct (r_cover0 _ _ G) as [H|[H|H]]; auto; congruence.
Qed.

Lemma inv2_disjoint c s : inv2 c s -> disjoint_images c (store s).
Proof.
  intros [] k k' r r' ad G G' IN IN' IP.
  destruct (k_store0 _ _ G) as (r1 & L1 & E1). destruct (k_store0 _ _ G') as (r2 & L2 & E2).
  apply E1 in IN. apply E2 in IN'.
  pose proof (j_own0 _ _ _ L1 IN IP). pose proof (j_own0 _ _ _ L2 IN' IP). congruence.
Qed.

Lemma do_crash_inv2 c s (p : bool) f now :
  reserves c -> inv1 s -> inv2 c s -> inv2 c (fst (do_crash c s p f now)).
Proof.
  intros RS I1 I2. pose proof (inv2_disjoint c s I2) as DJ.
  assert (IDS : forall k r, aget k (store s) = Some r -> s_id r = k) by (destruct I1; auto).
  unfold do_crash.
  match goal with |- context [fold_left (restore_one c now f ?CA (store s)) ?L (?S0, ?LG)] =>
    pose proof (restore_fold_linv c now f CA (store s) L S0 LG RS DJ) as HL;
    pose proof (restore_fold_rinv c now f CA (store s) L S0 LG IDS) as HR end.
  destruct (fold_left _ _ _) as [s1 lg]. cbn [fst] in *.
  assert (LI : linv c (store s) s1).
  { apply HL. constructor; cbn [live leases]; intros; discriminate. }
  assert (RI : rinv (store s) [] s1).
  { apply HR. constructor; cbn [store pend live].
    - intros k r G. eauto.
    - intros; discriminate.
    - intros k r G. right. apply isort_In. eapply aget_In; eauto. }
  clear HL HR. destruct LI, RI. constructor.
  - auto.
  - intros k r G. destruct (r_store0 _ _ G) as (r0 & A & B).
    destruct (r_cover0 _ _ G) as [M|[]]. unfold amem in M.
    destruct (aget k (live s1)) as [r'|] eqn:GL; try discriminate.
    destruct (l_live0 _ _ GL) as (r0' & A' & B'). exists r'. split; auto. congruence.
  - intros t r G _. destruct (r_pend0 _ _ G) as (r0 & A & B & M). unfold amem in M.
    destruct (aget (s_id r) (live s1)) as [r'|] eqn:GL; try discriminate.
    destruct (l_live0 _ _ GL) as (r0' & A' & B'). exists r'. split; auto. congruence.
Qed.

Lemma do_done_inv2 c s t rt : c_ordered c = true -> inv1 s -> inv2 c s -> inv2 c (fst (do_done c s t rt)).
Proof.
  intros O I1 I2. unfold do_done. destruct (aget t (pend s)) as [r|]; [|apply do_done_core_inv2; auto].
  destruct (aget t (poison s)); [|apply do_done_core_inv2; auto]. rewrite O.
  destruct (flush_inv12 c (map fst (filter (fun tr => (s_id (snd tr) =? s_id r) && (fst tr <? t)) (pend s))) s O I1 I2).
  apply do_done_core_inv2; auto.
Qed.

Lemma do_bind4_inv2 c s i l o s' out :
  inv1 s -> inv2 c s -> do_bind4 c s i l o = Some (s', out) -> inv2 c s'.
Proof.
  intros I1 I2 H. apply do_bind4_shape in H. destruct H as [->|(r & a & ls & d & L & -> & CASE)]; auto.
  apply do_ck_inv2; [eapply upd_live_inv1; eauto|].
  assert (INC : incl (addrs r) (addrs (set_bind4 r a l))).
  { intros ad IN. apply In_addrs in IN. unfold addrs, optc. cbn [set_bind4 s_v4 s_v6 s_pd].
    destruct IN as [(x & E1 & E2)|[(x & E1 & E2)|(x & E1 & E2)]]; subst ad.
    - destruct CASE as [(V & _)|(V & _)]; rewrite V in E1; inversion E1; subst. left. auto.
    - rewrite E1. apply in_or_app. right. apply in_or_app. left. left. auto.
    - rewrite E1. apply in_or_app. right. apply in_or_app. right. left. auto. }
  destruct I1, I2. constructor; cbn [upd_live store live pend leases applied].
  - intros k r1 ad. rewrite aget_aput. eqb_case k i.
    + intros H IN IP. inversion H; subst r1. apply In_addrs in IN. cbn [set_bind4 s_v4 s_v6 s_pd] in IN.
      assert (OLD : forall ad', In ad' (addrs r) -> inpool c ad' = true -> aget ad' ls = Some i).
      { intros ad' IN' IP'. pose proof (j_own0 _ _ _ L IN' IP') as G.
        destruct CASE as [(_ & ->)|(_ & OK & ->)]; auto.
        rewrite aget_aput. eqb_case ad' (code 0 a); auto. }
      destruct IN as [(x & E1 & E2)|[(x & E1 & E2)|(x & E1 & E2)]]; subst ad.
      * inversion E1; subst x. destruct CASE as [(V & ->)|(_ & OK & ->)].
        -- apply (j_own0 _ _ _ L); auto. unfold addrs, optc. rewrite V. left. auto.
        -- apply aget_aput_eq.
      * apply OLD; auto. unfold addrs, optc. rewrite E1. apply in_or_app. right. apply in_or_app. left. left. auto.
      * apply OLD; auto. unfold addrs, optc. rewrite E1. apply in_or_app. right. apply in_or_app. right. left. auto.
    + intros H IN IP. pose proof (j_own0 _ _ _ H IN IP) as G.
      destruct CASE as [(_ & ->)|(_ & OK & ->)]; auto.
      rewrite aget_aput. eqb_case ad (code 0 a); auto.
      unfold alloc_ok in OK. apply andb_prop in OK. destruct OK as (_ & NM). unfold amem in NM. rewrite G in NM. discriminate.
  - intros k r1 G. destruct (k_store0 _ _ G) as (r' & GL & E). rewrite aget_aput. eqb_case k i; [|eauto].
    rewrite L in GL. inversion GL; subst. eexists. split; [reflexivity|]. eapply incl_tran; eauto.
  - intros t r1 G EF. erewrite effective_eq in EF by reflexivity.
    destruct (k_pend0 _ _ G EF) as (r' & GL & E). rewrite aget_aput. eqb_case (s_id r1) i; [|eauto].
    rewrite L in GL. inversion GL; subst. eexists. split; [reflexivity|]. eapply incl_tran; eauto.
Qed.

Lemma set_dp_inv2 c s d : inv2 c s -> inv2 c (set_dp s d).
Proof. intros []. constructor; cbn [set_dp store live pend leases applied]; auto. Qed.

Lemma relstop_pre_inv2 c s i pd : c_ordered c = true -> inv1 s -> inv2 c s -> inv2 c (relstop_pre c s i pd).
Proof.
  intros O I1 I2. unfold relstop_pre.
  assert (J : inv2 c (if pd && c_ordered c then
              match first_of c s i (pend s) with Some t0 => fst (do_done_core c s t0 false) | None => s end else s)).
  { destruct (pd && c_ordered c); auto. destruct (first_of c s i (pend s)); auto. apply do_done_core_inv2; auto. }
  destruct (match aget i (live s) with Some r => negb (s_swif r =? 0) | None => false end); auto.
  apply set_dp_inv2; auto.
Qed.

Lemma do_relstop_inv2 c s i pd (p : bool) f now :
  c_ordered c = true -> reserves c -> inv1 s -> inv2 c s -> inv2 c (fst (do_relstop c s i pd p f now)).
Proof.
  intros O RS I1 I2. rewrite do_relstop_fst. apply do_crash_inv2; auto.
  - apply relstop_pre_inv1; auto.
  - apply relstop_pre_inv2; auto.
Qed.

Lemma step_inv12 c s o s' out :
  c_ordered c = true -> delok c o -> reserves c -> pools_small c ->
  (inv1 s /\ inv4 s) /\ inv2 c s -> step c s o = Some (s', out) -> (inv1 s' /\ inv4 s') /\ inv2 c s'.
Proof.
  intros O DR RS PS ((I1 & I4) & I2) H. split; [eapply step_inv14; eauto|].
  destruct o; cbn [step] in H; try (destruct DR; fail).
  - eapply do_new_inv2; eauto.
  - inversion H. change s' with (fst (s', out)). rewrite <- H1. apply do_ck_inv2; auto.
  - inversion H. change s' with (fst (s', out)). rewrite <- H1. apply do_cks_inv2; auto.
  - inversion H. change s' with (fst (s', out)). rewrite <- H1. apply do_rel_inv2; auto.
  - inversion H. change s' with (fst (s', out)). rewrite <- H1. apply do_done_inv2; auto.
  - inversion H. change s' with (fst (s', out)). rewrite <- H1. apply do_poison_inv2; auto.
  - inversion H. change s' with (fst (s', out)). rewrite <- H1. apply do_cksf_inv2; auto.
  - eapply do_bind4_inv2; eauto.
  - inversion H; subst; auto.
  - inversion H. change s' with (fst (s', out)). rewrite <- H1. apply do_crash_inv2; auto.
  - inversion H. change s' with (fst (s', out)). rewrite <- H1. apply do_relstop_inv2; auto.
Qed.

(* T3 in full *)
Lemma reserved_before_alloc c ops s :
  c_ordered c = true -> Forall (delok c) ops -> reserves c -> pools_small c -> run c init ops = Some s ->
  (forall k r ad, aget k (live s) = Some r -> In ad (addrs r) -> inpool c ad = true ->
                  aget ad (leases s) = Some k) /\
  (forall fam a, fam < 3 -> alloc_ok c (leases s) fam (Some a) = true ->
                 forall k r, aget k (live s) = Some r -> ~ In (code fam a) (addrs r)) /\
  (forall k k' r r' ad, aget k (live s) = Some r -> aget k' (live s) = Some r' ->
                 In ad (addrs r) -> In ad (addrs r') -> inpool c ad = true -> k = k').
Proof.
  intros O DR RS PS R.
  assert (I : inv1 s /\ inv2 c s).
  { assert (J : (inv1 s /\ inv4 s) /\ inv2 c s); [|tauto].
    eapply (run_inv_ok (fun s => (inv1 s /\ inv4 s) /\ inv2 c s) (delok c) c); eauto.
    - intros. eapply step_inv12; eauto.
    - split; [split; [apply inv1_init|apply inv4_init]|apply inv2_init]. }
  destruct I as (I1 & I2). split; [|split].
  - apply (j_own _ _ I2).
  - intros fam a F OK k r G IN. unfold alloc_ok in OK. apply andb_prop in OK. destruct OK as (A & B).
    apply N.ltb_lt in A. pose proof (j_own _ _ I2 k r _ G IN (code_inpool c fam a F A)) as L.
    unfold amem in B. rewrite L in B. discriminate.
  - intros k k' r r' ad G G' IN IN' IP.
    pose proof (j_own _ _ I2 _ _ _ G IN IP). pose proof (j_own _ _ I2 _ _ _ G' IN' IP). congruence.
Qed.

(* ---------------------------------------------------------------- restored iff not expired *)
Lemma not_bound_not_expired c now r : s_bound r = false -> expired c now r = false.
Proof. unfold expired. intros ->. destruct (c_proto c); auto. Qed.

(* IPoE image of a session whose DHCPv4 lease was released while DHCPv6 stays bound (State = "released"), or any
   other image that is not in the bound / open state: never filtered out, hence restored *)
Lemma not_bound_restored c s (p : bool) f now k r :
  aget k (store s) = Some r -> s_bound r = false ->
  let dp0 := if p then dp s else [] in
  let cause := match dp0 with [] => 1 | _ => 0 end in
  exists lg, snd (do_crash c s p f now) = OCrash lg /\
             restoredQ c f cause dp0 k r (fst (do_crash c s p f now)) lg.
Proof. intros G B. apply established_restored; auto. apply not_bound_not_expired; auto. Qed.

Lemma restore_one_expired_self c now f cause store0 s lg k r :
  aget k store0 = Some r -> expired c now r = true ->
  aget k (live (fst (restore_one c now f cause store0 (s, lg) k))) = aget k (live s) /\
  aget k (store (fst (restore_one c now f cause store0 (s, lg) k))) = None.
Proof.
  intros G EX. unfold restore_one. rewrite G, EX. cbn [fst upd_store live store]. split; auto.
  apply aget_aremove_eq.
Qed.

Lemma restore_fold_expired c now f cause store0 k r ks : forall s lg,
  (forall k r, aget k store0 = Some r -> s_id r = k) ->
  aget k store0 = Some r -> expired c now r = true ->
  aget k (live s) = None -> (aget k (store s) = None \/ In k ks) ->
  aget k (live (fst (fold_left (restore_one c now f cause store0) ks (s, lg)))) = None /\
  aget k (store (fst (fold_left (restore_one c now f cause store0) ks (s, lg)))) = None.
Proof.
  induction ks as [|k0 ks IH]; intros s lg IDS G EX L H; cbn [fold_left].
  - destruct H as [H|[]]. auto.
  - destruct (N.eq_dec k0 k) as [E|NE].
    + subst k0. destruct (restore_one_expired_self c now f cause store0 s lg k r G EX) as (A & B).
      destruct (restore_one c now f cause store0 (s, lg) k) as [s1 lg1]. cbn [fst] in *.
      apply IH; auto. congruence.
    + destruct (restore_one_other c now f cause store0 s lg k k0 NE) as (A & _ & _).
      destruct (restore_one_effect c now f cause store0 s lg k0 IDS) as (_ & E1 & _).
      destruct (restore_one c now f cause store0 (s, lg) k0) as [s1 lg1]. cbn [fst] in *.
      apply IH; auto; [congruence|]. rewrite E1; auto. destruct H as [H|[H|H]]; auto. congruence.
Qed.

Lemma expired_not_restored c s (p : bool) f now k r :
  (forall k r, aget k (store s) = Some r -> s_id r = k) ->
  aget k (store s) = Some r -> expired c now r = true ->
  aget k (live (fst (do_crash c s p f now))) = None /\ aget k (store (fst (do_crash c s p f now))) = None.
Proof.
  intros IDS G EX. unfold do_crash.
  match goal with |- context [fold_left (restore_one c now f ?CA (store s)) ?L (?S0, ?LG)] =>
    pose proof (restore_fold_expired c now f CA (store s) k r L S0 LG IDS G EX) as H end.
  destruct (fold_left _ _ _) as [s1 lg]. cbn [fst] in *. apply H; auto.
  right. apply isort_In. eapply aget_In; eauto.
Qed.
