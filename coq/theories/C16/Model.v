(* C16/Model.v — executable model of
     pkg/l2tp/control_channel.go   NewControlChannel, SetPeerWindow, SendSession, driveSend,
                                   recomputeNextRTO, Recv, ackThrough, growCwndOnAck,
                                   scheduleZLB, Tick, seqLess
     internal/l2tp/dispatch.go     the rule by which inbound control messages reach the channel
                                   (ZLB -> RecvZLB, every other message -> Recv, then its handler)
     internal/l2tp/runner.go       the runner's timer (runner_next) and the advertised window
                                   applied at establishment (apply_peer_window)
   and of a pair of such endpoints joined by a network that may drop, duplicate,
   delay and reorder.  Definitions only; proofs are in Proofs.v.

   Numbers are Z.  uint16 fields are kept reduced mod 2^16 (u16).  Times are
   milliseconds; a Go zero time.Time is None.  A message body is an opaque
   number (the channel never looks inside); a ZLB has body None. *)
From OV Require Import Common.Base.
Open Scope Z_scope.

(* ---------- seqLess (control_channel.go:369) ---------- *)
(* uint16(a-b)&0x8000 != 0 *)
Definition seq_less (a b : Z) : bool := negb (Z.land (u16 (a - b)) 32768 =? 0).

(* ---------- data ---------- *)
Record pending := mkP { p_body : Z; p_sid : Z; p_ns : Z; p_att : Z; p_dl : Z }.
Record pkt := mkK { k_body : option Z; k_sid : Z; k_ns : Z; k_nr : Z }.

(* constant per channel *)
Record conf := mkF { f_rto_init : Z; f_rto_max : Z; f_maxr : Z; f_zlb : Z }.

Record chan := mkC {
  c_ns : Z; c_nr : Z;
  c_cwnd : Z; c_ssth : Z; c_pw : Z;
  c_q : list pending;
  c_rto : option Z;       (* nextRTO *)
  c_zlb : option Z }.     (* zlbDeadline *)

(* NewControlChannel: zero config values take the defaults (ms) *)
Definition dflt (v d : Z) : Z := if v =? 0 then d else v.
Definition new_conf (rto_init rto_max maxr zlb : Z) : conf :=
  mkF (dflt rto_init 1000) (dflt rto_max 8000) (dflt maxr 5) (dflt zlb 200).
Definition new_chan (rws : Z) : chan :=
  let w := dflt rws 4 in mkC 0 0 1 w w [] None None.
(* the harness sets the two sequence origins in-package *)
Definition with_origin (c : chan) (ns nr : Z) : chan :=
  mkC (u16 ns) (u16 nr) (c_cwnd c) (c_ssth c) (c_pw c) (c_q c) (c_rto c) (c_zlb c).

(* SetPeerWindow *)
Definition set_peer_window (c : chan) (rws0 : Z) : chan :=
  let rws := if rws0 <? 1 then 1 else rws0 in
  mkC (c_ns c) (c_nr c)
      (if rws <? c_cwnd c then rws else c_cwnd c)
      (if rws <? c_ssth c then rws else c_ssth c)
      rws (c_q c) (c_rto c) (c_zlb c).

(* ---------- driveSend ---------- *)
Fixpoint count_inflight (q : list pending) : Z :=
  match q with
  | [] => 0
  | p :: r => (if 0 <? p_att p then 1 else 0) + count_inflight r
  end.

(* second loop of driveSend; [infl] is the running in-flight count.
   [fj] is the send-callback fault of this call: Some j = the (j+1)-th write of this driveSend returns an
   error (the entry has already been marked attempts = 1 with its deadline; the loop returns at once),
   None = every write succeeds.  Result: queue, packets written successfully, the packet whose write failed. *)
Fixpoint drive_q (cwnd nr dl infl : Z) (fj : option nat) (q : list pending)
  : list pending * list pkt * option pkt :=
  match q with
  | [] => ([], [], None)
  | p :: r =>
      if 0 <? p_att p then
        let '(r', o, e) := drive_q cwnd nr dl infl fj r in (p :: r', o, e)
      else if cwnd <=? infl then (q, [], None)                       (* break *)
      else
        let p' := mkP (p_body p) (p_sid p) (p_ns p) 1 dl in
        let pk := mkK (Some (p_body p)) (p_sid p) (p_ns p) nr in
        match fj with
        | Some O => (p' :: r, [], Some pk)                           (* return err *)
        | _ =>
          let fj' := match fj with Some (S k) => Some k | _ => None end in
          let '(r', o, e) := drive_q cwnd nr dl (infl + 1) fj' r in
          (p' :: r', pk :: o, e)
        end
  end.

(* recomputeNextRTO *)
Fixpoint next_rto (q : list pending) (acc : option Z) : option Z :=
  match q with
  | [] => acc
  | p :: r =>
      if p_att p =? 0 then next_rto r acc
      else next_rto r (match acc with
                       | None => Some (p_dl p)
                       | Some a => if p_dl p <? a then Some (p_dl p) else Some a
                       end)
  end.

Definition is_nil {A} (l : list A) : bool := match l with [] => true | _ => false end.

(* on a failed write driveSend returns before recomputeNextRTO: nextRTO keeps its old value *)
Definition drive_send (f : conf) (c : chan) (now : Z) (fj : option nat) : chan * list pkt * option pkt :=
  let '(q', o, e) := drive_q (c_cwnd c) (c_nr c) (now + f_rto_init f) (count_inflight (c_q c)) fj (c_q c) in
  (mkC (c_ns c) (c_nr c) (c_cwnd c) (c_ssth c) (c_pw c) q'
       (match e with None => next_rto q' None | Some _ => c_rto c end)
       (if is_nil o then c_zlb c else None), o, e).

(* SendSession *)
Definition send_session (f : conf) (c : chan) (body sid now : Z) (fj : option nat)
  : chan * list pkt * option pkt :=
  let m := mkP body (u16 sid) (c_ns c) 0 0 in
  drive_send f (mkC (u16 (c_ns c + 1)) (c_nr c) (c_cwnd c) (c_ssth c) (c_pw c)
                    (c_q c ++ [m]) (c_rto c) (c_zlb c)) now fj.

(* ---------- ackThrough / growCwndOnAck ---------- *)
Definition grow_cwnd (cwnd ssth pw : Z) : Z :=
  let c1 := if cwnd <? ssth then cwnd + 1 else cwnd + 1 in
  if pw <? c1 then pw else c1.

(* pops acknowledged heads; returns remaining queue, new cwnd, progressed *)
Fixpoint ack_q (ack cwnd ssth pw : Z) (q : list pending) : list pending * Z * bool :=
  match q with
  | [] => ([], cwnd, false)
  | p :: r =>
      if p_att p =? 0 then (q, cwnd, false)
      else if seq_less (p_ns p) ack then
        let '(q', cw, _) := ack_q ack (grow_cwnd cwnd ssth pw) ssth pw r in (q', cw, true)
      else (q, cwnd, false)
  end.

(* ---------- choices the property leaves to the implementation ----------
   r_ig: an Nr that is AHEAD of our own next Ns acknowledges messages we never sent; no honest peer produces it
         (C16_honest_ack_never_ahead).  The implementation may process it like any Nr (/repo HEAD, r_ig = false) or
         ignore the acknowledgement part of the message (r_ig = true).
   r_zd: the deadline of the delayed acknowledgement armed by a received message: any time not later than
         now + zlbDelay (/repo HEAD: exactly now + zlbDelay, r_zd = None; keeping an earlier pending deadline is
         admissible too).  A value outside the bound falls back to now + zlbDelay. *)
Record rchoice := mkR { r_ig : bool; r_zd : option Z }.
Definition head_choice : rchoice := mkR false None.
Definition zlb_choice (f : conf) (now : Z) (zd : option Z) : Z :=
  match zd with
  | Some d => if d <=? now + f_zlb f then d else now + f_zlb f
  | None => now + f_zlb f
  end.

(* the error of the driveSend inside ackThrough is swallowed (`_ = c.driveSend(now)`) *)
Definition ack_through (f : conf) (c : chan) (ack now : Z) (fj : option nat) (ig : bool)
  : chan * list pkt * option pkt :=
  if ig && seq_less (c_ns c) ack then (c, [], None) else
  let '(q', cw, progressed) := ack_q ack (c_cwnd c) (c_ssth c) (c_pw c) (c_q c) in
  let c1 := mkC (c_ns c) (c_nr c) cw (c_ssth c) (c_pw c) q' (c_rto c) (c_zlb c) in
  if progressed then drive_send f c1 now fj else (c1, [], None).

(* ---------- Recv ---------- *)
Definition recv (f : conf) (c : chan) (ns nr now : Z) (fj : option nat) (rc : rchoice)
  : chan * list pkt * option pkt * bool :=
  let '(c1, o, e) := ack_through f c nr now fj (r_ig rc) in
  if negb (ns =? c_nr c1) then
    (mkC (c_ns c1) (c_nr c1) (c_cwnd c1) (c_ssth c1) (c_pw c1) (c_q c1) (c_rto c1)
         (Some (zlb_choice f now (r_zd rc))), o, e, false)
  else
    (mkC (c_ns c1) (u16 (c_nr c1 + 1)) (c_cwnd c1) (c_ssth c1) (c_pw c1) (c_q c1) (c_rto c1)
         (Some (zlb_choice f now (r_zd rc))), o, e, true).

(* ---------- Tick ---------- *)
Definition pow2 (k : Z) : Z := if k <? 0 then 1 else 2 ^ k.

(* the retransmit loop; None for the queue = the dead callback fired and the loop returned *)
Fixpoint tick_q (f : conf) (now nr cwnd ssth : Z) (q : list pending)
  : option (list pending) * Z * Z * list pkt :=
  match q with
  | [] => (Some [], cwnd, ssth, [])
  | p :: r =>
      if (p_att p =? 0) || (now <? p_dl p) then
        let '(r', cw, ss, o) := tick_q f now nr cwnd ssth r in
        (option_map (cons p) r', cw, ss, o)
      else
        let att := p_att p + 1 in
        if f_maxr f <? att then (None, cwnd, ssth, [])
        else
          let ss0 := Z.quot cwnd 2 in
          let ss1 := if ss0 <? 1 then 1 else ss0 in
          let rto0 := f_rto_init f * pow2 (att - 1) in
          let rto := if f_rto_max f <? rto0 then f_rto_max f else rto0 in
          let p' := mkP (p_body p) (p_sid p) (p_ns p) att (now + rto) in
          let '(r', cw, ss, o) := tick_q f now nr 1 ss1 r in
          (option_map (cons p') r', cw, ss, mkK (Some (p_body p)) (p_sid p) (p_ns p) nr :: o)
  end.

Definition earliest (a b : option Z) : option Z :=
  match b with
  | None => a
  | Some z => match a with
              | None => Some z
              | Some x => if z <? x then Some z else Some x
              end
  end.

(* returns: channel, packets, dead callback fired, returned time *)
Definition tick (f : conf) (c : chan) (now : Z) : chan * list pkt * bool * option Z :=
  let '(oq, cw, ss, o) := tick_q f now (c_nr c) (c_cwnd c) (c_ssth c) (c_q c) in
  match oq with
  | None => (mkC (c_ns c) (c_nr c) cw ss (c_pw c) [] None (c_zlb c), o, true, None)
  | Some q' =>
      let rto := next_rto q' None in
      let fire := match c_zlb c with Some d => negb (now <? d) | None => false end in
      let o2 := if fire then [mkK None 0 (c_ns c) (c_nr c)] else [] in
      let z' := if fire then None else c_zlb c in
      (mkC (c_ns c) (c_nr c) cw ss (c_pw c) q' rto z', o ++ o2, false, earliest rto z')
  end.

(* ---------- the dispatch rule (internal/l2tp/dispatch.go:72-90) ---------- *)
(* zlb_recv = false: what /repo HEAD does (since 96f9f16): a ZLB only acknowledges (RecvZLB = ackThrough)
   zlb_recv = true : the rule before that fix — a ZLB went through Recv like any message and was dropped
                     afterwards; kept only for the historical refuted theorem, not used by the correspondence
   last component: the message is handed to the protocol machine *)
Definition dispatch (zlb_recv : bool) (f : conf) (c : chan) (p : pkt) (now : Z) (fj : option nat) (rc : rchoice)
  : chan * list pkt * option pkt * bool :=
  match k_body p with
  | Some _ => recv f c (k_ns p) (k_nr p) now fj rc
  | None =>
      if zlb_recv then let '(c', o, e, _) := recv f c (k_ns p) (k_nr p) now fj rc in (c', o, e, false)
      else let '(c', o, e) := ack_through f c (k_nr p) now fj (r_ig rc) in (c', o, e, false)
  end.

(* ---------- an endpoint with its logs ---------- *)
Record endpoint := mkE {
  e_f : conf;
  e_ch : chan;
  e_sent : list pkt;       (* every packet passed to the send callback, in order *)
  e_sub : list Z;          (* bodies accepted for sending (SendSession calls), in order *)
  e_del : list Z;          (* bodies handed to this side's protocol machine, in order *)
  e_acked : list nat;      (* indices into e_sub of messages removed from the queue by an acknowledgement *)
  e_dead : nat;            (* number of dead callbacks *)
  e_wmax : Z }.            (* largest peer window this side was ever told *)

Definition new_endpoint (rto_init rto_max maxr zlb rws ns0 nr0 : Z) : endpoint :=
  let c := with_origin (new_chan rws) ns0 nr0 in
  mkE (new_conf rto_init rto_max maxr zlb) c [] [] [] [] 0 (c_pw c).

Definition acked_range (e : endpoint) (qlen' : nat) : list nat :=
  seq (length (e_sub e) - length (c_q (e_ch e))) (length (c_q (e_ch e)) - qlen').

(* observation of one operation, printed by both sides of the correspondence *)
Inductive obs :=
| ONone                                         (* operation did not apply *)
| OSubmit (o : list pkt) (failed : option pkt)               (* failed: the write that returned an error *)
| ODeliver (handed : bool) (o : list pkt) (failed : option pkt)
| OTick (ret : option Z) (o : list pkt) (dead : bool)        (* o: every write attempted, failed ones included *)
| OWin
| ORefused.                                      (* a submission refused by a channel that has declared dead *)

(* e_sent logs the packets whose write succeeded (only those can reach the peer) *)
Definition ep_submit (e : endpoint) (body sid now : Z) (fj : option nat) : endpoint * obs :=
  let '(c', o, er) := send_session (e_f e) (e_ch e) body sid now fj in
  (mkE (e_f e) c' (e_sent e ++ o) (e_sub e ++ [body]) (e_del e) (e_acked e) (e_dead e) (e_wmax e),
   OSubmit o er).

Definition ep_deliver (zlb_recv : bool) (e : endpoint) (p : pkt) (now : Z) (fj : option nat) (rc : rchoice)
  : endpoint * obs :=
  let '(c', o, er, handed) := dispatch zlb_recv (e_f e) (e_ch e) p now fj rc in
  (mkE (e_f e) c' (e_sent e ++ o) (e_sub e)
       (match k_body p with Some b => if handed then e_del e ++ [b] else e_del e | None => e_del e end)
       (e_acked e ++ acked_range e (length (c_q c'))) (e_dead e) (e_wmax e),
   ODeliver handed o er).

(* Tick ignores write errors (`_ = c.send(...)`): the channel state does not depend on them; [drops] are the
   positions, among the writes of this Tick, that fail and therefore never reach the network *)
Fixpoint keep_ok (drops : list nat) (i : nat) (o : list pkt) : list pkt :=
  match o with
  | [] => []
  | p :: r => if existsb (Nat.eqb i) drops then keep_ok drops (S i) r else p :: keep_ok drops (S i) r
  end.

Definition ep_tick (e : endpoint) (now : Z) (drops : list nat) : endpoint * obs :=
  let '(c', o, dead, ret) := tick (e_f e) (e_ch e) now in
  (mkE (e_f e) c' (e_sent e ++ keep_ok drops 0 o) (e_sub e) (e_del e) (e_acked e)
       (if dead then S (e_dead e) else e_dead e) (e_wmax e),
   OTick ret o dead).

Definition ep_setwin (e : endpoint) (rws : Z) : endpoint * obs :=
  let c' := set_peer_window (e_ch e) rws in
  (mkE (e_f e) c' (e_sent e) (e_sub e) (e_del e) (e_acked e) (e_dead e) (Z.max (e_wmax e) (c_pw c')),
   OWin).

(* ---------- the pair ---------- *)
Inductive side := SA | SB.
Record sys := mkS { s_a : endpoint; s_b : endpoint }.
Definition ep (s : sys) (x : side) : endpoint := match x with SA => s_a s | SB => s_b s end.
Definition peer (x : side) : side := match x with SA => SB | SB => SA end.
Definition set_ep (s : sys) (x : side) (e : endpoint) : sys :=
  match x with SA => mkS e (s_b s) | SB => mkS (s_a s) e end.

Inductive event :=
(* fj / drops: which writes of the send callback fail during this operation (None / [] = none) *)
| Submit (x : side) (body sid now : Z) (fj : option nat) (rf : bool)
                                             (* x's protocol machine sends a message.  rf: the implementation's choice,
                                                admissible only after x has fired its dead callback, to refuse it
                                                (no sequence number consumed, nothing queued or written); what a dead
                                                channel does with further submissions is not constrained by the property
                                                (/repo HEAD accepts them: rf = false) *)
| Deliver (x : side) (idx : nat) (now : Z) (fj : option nat) (rc : rchoice) (* the network hands x the idx-th packet its peer
                                              ever wrote successfully; never = drop, twice = duplicate, any order = reorder/delay *)
| Inject (x : side) (p : pkt) (now : Z) (fj : option nat) (rc : rchoice)   (* a packet the peer never sent (hostile network) *)
| Tick (x : side) (now : Z) (drops : list nat)
| SetWin (x : side) (rws : Z).

Definition step (zlb_recv : bool) (s : sys) (ev : event) : sys * obs :=
  match ev with
  | Submit x body sid now fj rf =>
      if rf && (0 <? e_dead (ep s x))%nat then (s, ORefused)
      else let '(e, o) := ep_submit (ep s x) body sid now fj in (set_ep s x e, o)
  | Deliver x idx now fj rc =>
      match nth_error (e_sent (ep s (peer x))) idx with
      | Some p => let '(e, o) := ep_deliver zlb_recv (ep s x) p now fj rc in (set_ep s x e, o)
      | None => (s, ONone)
      end
  | Inject x p now fj rc => let '(e, o) := ep_deliver zlb_recv (ep s x) p now fj rc in (set_ep s x e, o)
  | Tick x now drops => let '(e, o) := ep_tick (ep s x) now drops in (set_ep s x e, o)
  | SetWin x rws => let '(e, o) := ep_setwin (ep s x) rws in (set_ep s x e, o)
  end.

Fixpoint run (zlb_recv : bool) (s : sys) (evs : list event) : sys :=
  match evs with
  | [] => s
  | ev :: r => run zlb_recv (fst (step zlb_recv s ev)) r
  end.

(* both sides agree on the two origins: A numbers its messages from oa, B from ob *)
Definition init_sys (fa fb : Z * Z * Z * Z * Z) (oa ob : Z) : sys :=
  let '(ai, am, ar, az, aw) := fa in
  let '(bi, bm, br, bz, bw) := fb in
  mkS (new_endpoint ai am ar az aw oa ob) (new_endpoint bi bm br bz bw ob oa).

Definition is_inject (ev : event) : bool := match ev with Inject _ _ _ _ _ => true | _ => false end.
Definition honest (evs : list event) : bool := forallb (fun e => negb (is_inject e)) evs.

(* ---------- the whole dispatch rule for one tunnel (dispatch.go Dispatch, after parsing) ----------
   tunnel lookup; ZLB -> RecvZLB; any other message -> Recv, and only then — if accepted — the handler
   of its message type.  What a handler does is left arbitrary: all the channel can notice of it is
   which messages it submits (m_replies: body, session id) and whether it unregisters the tunnel
   (m_removes, e.g. StopCCN).  Session lookups, FSM errors etc. happen inside the handler, i.e. after
   the receive step. *)
Record node := mkN { n_known : bool;       (* the tunnel is registered *)
                     n_ep : endpoint }.
Record inmsg := mkM { m_rc : rchoice;      (* the implementation's free choices for this message *)
                      m_tid_ok : bool;     (* the header's tunnel id names this tunnel (and it is not an SCCRQ) *)
                      m_pkt : pkt;
                      m_replies : list (Z * Z);
                      m_removes : bool }.

Definition ep_submits (e : endpoint) (rs : list (Z * Z)) (now : Z) : endpoint :=
  fold_left (fun e r => fst (ep_submit e (fst r) (snd r) now None)) rs e.

(* FlushAck (control_channel.go, e462f04): emit the owed ZLB now; the write's error is ignored *)
Definition flush_ack (c : chan) : chan * list pkt :=
  match c_zlb c with
  | None => (c, [])
  | Some _ => (mkC (c_ns c) (c_nr c) (c_cwnd c) (c_ssth c) (c_pw c) (c_q c) (c_rto c) None,
               [mkK None 0 (c_ns c) (c_nr c)])
  end.
Definition ep_flush (e : endpoint) (drops : list nat) : endpoint :=
  let '(c', o) := flush_ack (e_ch e) in
  mkE (e_f e) c' (e_sent e ++ keep_ok drops 0 o) (e_sub e) (e_del e) (e_acked e) (e_dead e) (e_wmax e).

(* a handler that unregisters the tunnel (HandleStopCCN, lns.go) first flushes the acknowledgement, because the
   runner is stopped with it and nobody ticks the channel again *)
Definition node_dispatch (n : node) (m : inmsg) (now : Z) : node :=
  if n_known n && m_tid_ok m then
    let '(e1, ob) := ep_deliver false (n_ep n) (m_pkt m) now None (m_rc m) in
    match ob with
    | ODeliver true _ _ =>
        let e2 := ep_submits e1 (m_replies m) now in
        mkN (negb (m_removes m)) (if m_removes m then ep_flush e2 [] else e2)
    | _ => mkN true e1
    end
  else n.

(* NSend: a message the local side originates on its own (the Hello scheduler, runner.go:67-72; session
   set-up from the LAC side), with any write fault *)
Inductive nevent := NMsg (m : inmsg) (now : Z) | NTick (now : Z) | NSend (body sid now : Z) (fj : option nat).
Definition node_step (n : node) (ev : nevent) : node :=
  match ev with
  | NMsg m now => node_dispatch n m now
  | NTick now => if n_known n then mkN true (fst (ep_tick (n_ep n) now [])) else n   (* runner stopped with the tunnel *)
  | NSend body sid now fj => if n_known n then mkN true (fst (ep_submit (n_ep n) body sid now fj)) else n
  end.
Definition node_run (n : node) (evs : list nevent) : node := fold_left node_step evs n.

(* the peer's advertised Receive Window Size applied at establishment (fixes/C16_peer_rws.patch,
   applyPeerReceiveWindow: AVP value, 4 when the AVP is absent, SetPeerWindow clamps to >= 1) *)
Definition advertised (adv : option Z) : Z := match adv with Some w => w | None => 4 end.
Definition apply_peer_window (e : endpoint) (adv : option Z) : endpoint :=
  let c' := set_peer_window (e_ch e) (advertised adv) in
  mkE (e_f e) c' (e_sent e) (e_sub e) (e_del e) (e_acked e) (e_dead e) (c_pw c').

(* ---------- the tunnel runner's timer (internal/l2tp/runner.go loop) ----------
   after a Tick at [now] that returned [ret] the next Tick happens at: *)
(* [poll] is the idle poll period: free, as long as it is positive (/repo HEAD: 500 ms) *)
Definition runner_next (poll : Z) (ret : option Z) (now : Z) : Z :=
  match ret with
  | None => now + poll                                  (* nothing pending: poll again, never park *)
  | Some t => now + (if t - now <? 50 then 50 else t - now)
  end.

(* ---------- SCCRQ demultiplexing (dispatch.go dispatchSCCRQ) ----------
   An SCCRQ cannot be looked up by our tunnel id (it carries none): the control connection is identified by the
   peer's address and its Assigned Tunnel ID.  Per such key: never seen / a tunnel is registered / the tunnel was
   torn down less than a retransmission cycle ago (RFC 2661 5.7 keeps the state that long). *)
Inductive conn := CNone | CLive | CClosed.
Inductive cev := CSccrq (* any copy of the SCCRQ *) | CTeardown (* StopCCN or dead *) | COther.
(* returns the new state and whether the SCCRQ handler runs (a tunnel is opened, an SCCRP is produced);
   [linger] = true is /repo HEAD (closed-connection record, 1a77bf9); false is the rule before that fix, kept
   only for the historical refuted theorem *)
Definition conn_step (linger : bool) (st : conn) (e : cev) : conn * bool :=
  match e, st with
  | CSccrq, CNone => (CLive, true)
  | CSccrq, CLive => (CLive, false)            (* handed to the existing channel: a duplicate *)
  | CSccrq, CClosed => if linger then (CClosed, false) else (CLive, true)
  | CTeardown, CLive => (CClosed, false)
  | _, _ => (st, false)
  end.
Fixpoint conn_opens (linger : bool) (st : conn) (evs : list cev) : nat :=
  match evs with
  | [] => O
  | e :: r => let '(st', o) := conn_step linger st e in (if o then 1 else 0)%nat + conn_opens linger st' r
  end.
