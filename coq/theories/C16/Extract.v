From Coq Require Import Extraction ExtrOcamlBasic.
From OV Require Import Common.Base C16.Model.
Extraction Language OCaml.
Extraction "C16_model.ml" seq_less new_endpoint init_sys step run ep_submit ep_deliver ep_tick ep_setwin dispatch node_dispatch node_step node_run runner_next apply_peer_window flush_ack ep_flush conn_step conn_opens head_choice.
