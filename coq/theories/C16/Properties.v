From OV Require Import Common.Base C16.Model.
Example C16_placeholder : seq_less 0 1 = true.
Proof. reflexivity. Qed.
Print Assumptions C16_placeholder.
