(* C16/Properties.v — the property theorems only.  Each is closed by [exact] of a lemma from
   Proofs.v and followed by Print Assumptions.

   Dispatch rule: zlb_recv = false is what /repo HEAD implements (a ZLB only acknowledges, since 96f9f16);
   zlb_recv = true is the rule before that fix, kept only for the historical refuted witness.
   All six C16 findings are fixed in /repo (96f9f16 3558639 63cd1b1 e6d010e e462f04 1a77bf9).
   Events carry the send-callback faults of the operation: [fj] (which write of a driveSend fails) and
   [drops] (which writes of a Tick fail); theorems quantify over all of them unless stated.
   Events also carry the implementation's FREE CHOICES [rc : rchoice]: whether an Nr ahead of our own Ns is
   ignored (r_ig) and which deadline <= now + zlbDelay the delayed acknowledgement gets (r_zd); the runner's idle
   poll period is the parameter [poll > 0]; a Submit carries [rf]: after its dead callback a side may refuse further
   submissions (what a dead channel does with them is not constrained).  Every theorem below holds for every such
   choice; /repo HEAD is head_choice / poll = 500 / rf = false. *)
From OV Require Import Common.Base C16.Model C16.Proofs.
Open Scope Z_scope.

(* seqLess (transcribed as uint16(a-b)&0x8000 != 0) is RFC 1982 serial-number "less than" on 16 bits:
   b is between 1 and 2^15 steps ahead of a.  For all integers a b (the model reduces mod 2^16). *)
Theorem C16_seq_less :
  forall a b, seq_less a b = true <-> 1 <= (b - a) mod 65536 <= 32768.
Proof. exact seq_less_serial. Qed.
Print Assumptions C16_seq_less.

(* from any origin o, on any window of fewer than 2^15 consecutive sequence numbers seqLess is exactly
   the order of the offsets — this is what makes the wrap-around harmless *)
Theorem C16_seq_less_window :
  forall o i k, 0 <= i < 32768 -> 0 <= k < 32768 ->
  seq_less (u16 (o + i)) (u16 (o + k)) = (i <? k).
Proof. exact seq_less_window. Qed.
Print Assumptions C16_seq_less_window.

(* EXACTLY ONCE, IN ORDER (repaired dispatch rule).
   For every configuration, every pair of origins oa ob (so also across 0xffff -> 0), and every
   execution [evs] made of: submissions on either side; delivery to either side of ANY packet its peer
   ever passed to the send callback, any number of times, in any order, or never (drop / duplicate /
   delay / reorder); Ticks at arbitrary times (including retransmissions and the dead callback);
   window changes; any pattern of failing send-callback writes — as long as fewer than 2^15 messages were
   submitted per direction:
     - the messages handed to B's protocol machine are a prefix of A's submissions, and vice versa
       (nothing invented, nothing duplicated, nothing out of order, nothing skipped);
     - every message a side removed from its retransmission queue because of an acknowledgement
       (index i of its submissions) had been handed to the peer's protocol machine. *)
Theorem C16_exactly_once_in_order :
  forall ai am ar az aw bi bm br bz bw oa ob evs,
  honest evs = true ->
  let s := run false (init_sys (ai, am, ar, az, aw) (bi, bm, br, bz, bw) oa ob) evs in
  Z.of_nat (length (e_sub (s_a s))) < 32768 -> Z.of_nat (length (e_sub (s_b s))) < 32768 ->
  (exists rest, e_sub (s_a s) = e_del (s_b s) ++ rest) /\
  (exists rest, e_sub (s_b s) = e_del (s_a s) ++ rest) /\
  (forall i, In i (e_acked (s_a s)) -> (i < length (e_del (s_b s)))%nat) /\
  (forall i, In i (e_acked (s_b s)) -> (i < length (e_del (s_a s)))%nat).
Proof. exact exactly_once_in_order. Qed.
Print Assumptions C16_exactly_once_in_order.

(* non-vacuity: a run starting at Ns = 0xffff / 0x7fff with a lost packet, a retransmission, a duplicate,
   a reordered stale copy and a ZLB: everything is delivered once, in order, and acknowledged *)
Example C16_exactly_once_nonvacuous :
  let s := run false (init_sys (100, 400, 3, 50, 1) (100, 400, 3, 50, 1) 65535 32767) wrap_run in
  honest wrap_run = true /\
  e_del (s_b s) = [100; 101] /\ e_del (s_a s) = [200] /\ e_acked (s_a s) = [0%nat; 1%nat] /\
  c_ns (e_ch (s_a s)) = 1 /\ c_nr (e_ch (s_b s)) = 1 /\ c_nr (e_ch (s_a s)) = 32768.
Proof. exact wrap_run_ok. Qed.
Print Assumptions C16_exactly_once_nonvacuous.

(* HISTORICAL: THE RULE BEFORE FIX 96f9f16 (ZLB through Recv) VIOLATED IT: in this 8-event honest execution B's only
   message (200) is removed from B's queue as acknowledged, B is not dead, and A's protocol machine
   never received it. *)
Theorem C16_exactly_once_refuted :
  let s := run true (init_sys witness_cfg witness_cfg 0 0) witness in
  honest witness = true /\
  e_sub (s_b s) = [200] /\ e_del (s_a s) = [] /\ e_acked (s_b s) = [0%nat] /\
  c_q (e_ch (s_b s)) = [] /\ e_dead (s_b s) = 0%nat.
Proof. exact pre_96f9f16_rule_loses_message. Qed.
Print Assumptions C16_exactly_once_refuted.

(* the same execution under the repaired rule delivers both messages *)
Example C16_witness_repaired :
  let s := run false (init_sys witness_cfg witness_cfg 0 0) witness in
  e_del (s_a s) = [200] /\ e_del (s_b s) = [100] /\ e_acked (s_b s) = [0%nat] /\ e_acked (s_a s) = [0%nat].
Proof. exact repaired_delivers_witness. Qed.
Print Assumptions C16_witness_repaired.

(* WINDOW under later resizing, and RETRANSMISSION BOUND (secondary; the statement about the ADVERTISED window
   is C16_window_advertised below).  e_wmax is bookkeeping of the model: the configured window and every
   later SetPeerWindow value, maximum of them — a shrinking SetPeerWindow cannot un-send what is in flight.
   For both dispatch rules and every execution, including packets the
   peer never sent (Inject): a side never has more messages in flight (transmitted, unacknowledged) than
   the largest receive window its peer advertised (e_wmax: the configured PeerRWS and every later
   SetPeerWindow value), and no queued message has been transmitted more than MaxRetries times. *)
Theorem C16_window :
  forall z ai am ar az aw bi bm br bz bw oa ob evs,
  1 <= dflt ar 5 -> 1 <= dflt aw 4 -> 1 <= dflt br 5 -> 1 <= dflt bw 4 ->
  let s := run z (init_sys (ai, am, ar, az, aw) (bi, bm, br, bz, bw) oa ob) evs in
  forall x, count_inflight (c_q (e_ch (ep s x))) <= e_wmax (ep s x) /\
            (forall p, In p (c_q (e_ch (ep s x))) -> 0 <= p_att p <= f_maxr (e_f (ep s x))).
Proof. exact window_and_retries. Qed.
Print Assumptions C16_window.

(* without SetPeerWindow the bound is the configured window itself *)
Theorem C16_window_const :
  forall z ai am ar az aw bi bm br bz bw oa ob evs,
  1 <= dflt ar 5 -> 1 <= dflt aw 4 -> 1 <= dflt br 5 -> 1 <= dflt bw 4 ->
  forallb (fun e => negb (is_setwin e)) evs = true ->
  let s := run z (init_sys (ai, am, ar, az, aw) (bi, bm, br, bz, bw) oa ob) evs in
  count_inflight (c_q (e_ch (s_a s))) <= dflt aw 4 /\
  count_inflight (c_q (e_ch (s_b s))) <= dflt bw 4.
Proof. exact window_const. Qed.
Print Assumptions C16_window_const.

(* DEAD.  Tick fires the dead callback exactly when some in-flight message whose deadline has passed
   has already been transmitted MaxRetries times (with C16_window: attempts never exceed MaxRetries,
   so a message is transmitted at most MaxRetries times and the next expiry declares the tunnel dead). *)
Theorem C16_dead_iff :
  forall f c now, snd (fst (tick f c now)) = true <-> existsb (expired_last f now) (c_q c) = true.
Proof. exact tick_dead_iff. Qed.
Print Assumptions C16_dead_iff.

(* ACKNOWLEDGEMENTS ARE OWED UNTIL SENT.  For both dispatch rules and every execution in which the writes
   issued by Tick succeed (Tick ignores write errors and clears zlbDeadline, so a ZLB whose write fails is
   forgotten until the peer retransmits; failing writes of Send / the ACK path are allowed): whenever an
   endpoint's Nr differs from the Nr in the last packet it sent (it has accepted something the peer
   has not been told about), its ZLB timer is armed ... *)
Theorem C16_ack_owed :
  forall z ai am ar az aw bi bm br bz bw oa ob evs,
  forallb tick_faultless evs = true ->
  let s := run z (init_sys (ai, am, ar, az, aw) (bi, bm, br, bz, bw) oa ob) evs in
  ack_ok (u16 ob) (s_a s) /\ ack_ok (u16 oa) (s_b s).
Proof. exact ack_owed. Qed.
Print Assumptions C16_ack_owed.

(* ... and a Tick at or after the armed deadline that does not declare the tunnel dead sends a packet
   carrying the current Nr and disarms the timer. *)
Theorem C16_tick_sends_owed_ack :
  forall f c now dl c' o ret,
  c_zlb c = Some dl -> dl <= now -> tick f c now = (c', o, false, ret) ->
  o <> [] /\ (forall p, In p o -> k_nr p = c_nr c) /\ c_zlb c' = None /\ c_nr c' = c_nr c.
Proof. exact tick_sends_owed_ack. Qed.
Print Assumptions C16_tick_sends_owed_ack.

(* every real (non-ZLB) message that reaches the channel — accepted, duplicate or out of window —
   arms the ZLB timer for some deadline not later than now + zlbDelay (the exact deadline is the implementation's
   choice), under both dispatch rules *)
Theorem C16_data_arms_ack :
  forall z f c p b now fj rc c' o e h,
  k_body p = Some b -> dispatch z f c p now fj rc = (c', o, e, h) ->
  exists d, c_zlb c' = Some d /\ d <= now + f_zlb f.
Proof. exact data_arms_ack. Qed.
Print Assumptions C16_data_arms_ack.

(* BOUNDED RETRANSMISSION on an abstract schedule (the statement for the runner's own schedule is
   C16_dead_under_runner).  If the oldest queued message p has been transmitted p_att >= 1 times and no
   acknowledgement arrives, then MaxRetries - p_att + 1 Ticks — the first at or after its deadline, the
   following ones at least rtoMax apart — are enough for the dead callback to fire (possibly earlier
   because of another message).  With C16_window (attempts <= MaxRetries, one transmission per attempt)
   this is "the sender declares the tunnel dead after its bounded retransmissions". *)
Theorem C16_dead_after_max :
  forall f n c p r t ts,
  c_q c = p :: r -> 1 <= p_att p -> Z.of_nat n = f_maxr f - p_att p -> p_dl p <= t ->
  spaced (f_rto_max f) t ts -> length ts = n ->
  dead_within f c (t :: ts) = true.
Proof. exact dead_after_max. Qed.
Print Assumptions C16_dead_after_max.

(* non-vacuity: MaxRetries 3, one message sent at 0 (deadline 100): dead at the third expiry, not at the second *)
Example C16_dead_nonvacuous :
  (exists p r, c_q ex_chan = p :: r /\ p_att p = 1 /\ p_dl p = 100) /\
  dead_within ex_conf ex_chan [100; 500; 900] = true /\
  dead_within ex_conf ex_chan [100; 500] = false /\
  length (snd (fst (fst (tick ex_conf ex_chan 100)))) = 1%nat.
Proof. exact dead_example. Qed.
Print Assumptions C16_dead_nonvacuous.

(* THE DISPATCH RULE ACKNOWLEDGES EVERYTHING IT RECEIVES.  In ANY node state [n] (hence in every state
   reachable by any message sequence), every non-ZLB control message whose header names the registered tunnel
   passes through the receive step — first delivery or retransmission, any message type and session id,
   and whatever the message's handler does afterwards (arbitrary replies; session lookups and FSM errors
   live in the handler): Nr moves exactly by the in-order rule, and
   - if the message is accepted and its handler unregisters the tunnel (StopCCN: the runner stops with it),
     a packet carrying the new Nr has been written IN THIS STEP and the ZLB timer is disarmed
     ([flushed_since]; FlushAck, e462f04) — no timer is relied upon;
   - otherwise the ZLB timer is armed for now + zlbDelay or a packet written after the receive step already
     carries the new Nr ([acked_since]); the runner then reaches the deadline (the C16_runner theorems). *)
Theorem C16_dispatch_acks_everything :
  forall n m now b,
  n_known n = true -> m_tid_ok m = true -> k_body (m_pkt m) = Some b ->
  let n' := node_dispatch n m now in
  let c := e_ch (n_ep n) in
  c_nr (e_ch (n_ep n')) = (if k_ns (m_pkt m) =? c_nr c then u16 (c_nr c + 1) else c_nr c) /\
  (if (k_ns (m_pkt m) =? c_nr c) && m_removes m
   then flushed_since (e_sent (n_ep n)) (n_ep n')
   else acked_since (e_f (n_ep n)) now (e_sent (n_ep n)) (n_ep n')).
Proof. exact dispatch_acks_everything. Qed.
Print Assumptions C16_dispatch_acks_everything.

(* non-vacuity of the teardown branch: the StopCCN is acknowledged (ZLB Ns=1 Nr=2) without any Tick, the tunnel
   is gone and a later Tick event does nothing *)
Example C16_stopccn_flushed :
  let n := node_run (mkN true (new_endpoint 0 0 0 0 16 0 0)) stop_msgs in
  n_known n = false /\ c_zlb (e_ch (n_ep n)) = None /\
  map (fun p => (k_body p, k_ns p, k_nr p)) (e_sent (n_ep n)) = [(Some 7, 0, 1); (None, 1, 2)].
Proof. exact stop_example. Qed.
Print Assumptions C16_stopccn_flushed.

(* ZLBs and messages that do not belong to a registered tunnel never move Nr *)
Theorem C16_dispatch_nr_unchanged :
  forall n m now,
  (n_known n && m_tid_ok m = false \/ k_body (m_pkt m) = None) ->
  c_nr (e_ch (n_ep (node_dispatch n m now))) = c_nr (e_ch (n_ep n)).
Proof. exact dispatch_nr_unchanged. Qed.
Print Assumptions C16_dispatch_nr_unchanged.

(* non-vacuity: a message and its retransmission (whose handler replies and removes the tunnel) are each
   acknowledged by a ZLB carrying Nr = 1 *)
Example C16_dispatch_nonvacuous :
  let n0 := mkN true (new_endpoint 120 240 5 60 16 0 0) in
  map (fun p => (k_body p, k_nr p)) (e_sent (n_ep (node_run n0 full_msgs))) = [(None, 1); (None, 1)].
Proof. exact full_example. Qed.
Print Assumptions C16_dispatch_nonvacuous.

(* WITHIN THE ADVERTISED WINDOW.  [apply_peer_window e adv] is what establishment does once the peer's
   SCCRQ / SCCRP is known (SetPeerWindow with the Receive Window Size AVP, 4 when absent).  If at that moment at
   most one message is outstanding (LNS: none; LAC: its SCCRQ) then after EVERY later sequence of inbound
   messages (any type, accepted or not, any handler replies), locally originated messages (NSend: Hellos, session
   set-up; with any write fault) and Ticks: the number of transmitted,
   unacknowledged messages is at most the advertised window (clamped to >= 1), the channel's window field
   still equals it and cwnd never exceeds it.  No bookkeeping field in the statement. *)
Theorem C16_window_advertised :
  forall e adv evs known,
  1 <= f_maxr (e_f e) -> att_ok (f_maxr (e_f e)) (c_q (e_ch e)) -> count_inflight (c_q (e_ch e)) <= 1 ->
  let W := Z.max 1 (advertised adv) in
  let n := node_run (mkN known (apply_peer_window e adv)) evs in
  count_inflight (c_q (e_ch (n_ep n))) <= W /\ c_pw (e_ch (n_ep n)) = W /\ c_cwnd (e_ch (n_ep n)) <= W.
Proof. exact window_advertised. Qed.
Print Assumptions C16_window_advertised.

(* non-vacuity / tightness: peer advertises 2; after its acknowledgements opened the congestion window, four
   replies are submitted without being acknowledged: exactly 2 are outstanding, 2 wait in the queue *)
Example C16_window_reached :
  let n := node_run (mkN true (apply_peer_window (new_endpoint 0 0 0 0 16 0 0) (Some 2))) win_msgs in
  count_inflight (c_q (e_ch (n_ep n))) = 2 /\ length (c_q (e_ch (n_ep n))) = 4%nat /\
  c_pw (e_ch (n_ep n)) = 2.
Proof. exact window_reached. Qed.
Print Assumptions C16_window_reached.

(* DELIVERED, STILL QUEUED, OR DEAD.  For every execution and EVERY pattern of failing send-callback writes
   (HEAD's dispatch rule, no forged packets, < 2^15
   submissions per direction), every side x and every submission index i of x: message i was handed to the
   peer's protocol machine, or it is still among the last |queue| submissions of x (queued / in flight, with
   attempts <= MaxRetries by C16_window), or x has fired its dead callback.  Nothing leaves a queue silently. *)
Theorem C16_delivered_queued_or_dead :
  forall ai am ar az aw bi bm br bz bw oa ob evs,
  honest evs = true ->
  let s := run false (init_sys (ai, am, ar, az, aw) (bi, bm, br, bz, bw) oa ob) evs in
  Z.of_nat (length (e_sub (s_a s))) < 32768 -> Z.of_nat (length (e_sub (s_b s))) < 32768 ->
  forall x i, (i < length (e_sub (ep s x)))%nat ->
    (i < length (e_del (ep s (peer x))))%nat \/
    (length (e_sub (ep s x)) - length (c_q (e_ch (ep s x))) <= i)%nat \/
    (0 < e_dead (ep s x))%nat.
Proof. exact delivered_queued_or_dead. Qed.
Print Assumptions C16_delivered_queued_or_dead.

(* ... hence at any point where a sender's queue is empty and it never declared dead, the peer's machine has
   received exactly the sender's submissions — all of them, once, in order (the C16_exactly_once_nonvacuous
   run ends in such a state). *)
Theorem C16_quiescent_all_delivered :
  forall ai am ar az aw bi bm br bz bw oa ob evs,
  honest evs = true ->
  let s := run false (init_sys (ai, am, ar, az, aw) (bi, bm, br, bz, bw) oa ob) evs in
  Z.of_nat (length (e_sub (s_a s))) < 32768 -> Z.of_nat (length (e_sub (s_b s))) < 32768 ->
  forall x, c_q (e_ch (ep s x)) = [] -> e_dead (ep s x) = 0%nat ->
  e_del (ep s (peer x)) = e_sub (ep s x).
Proof. exact quiescent_all_delivered. Qed.
Print Assumptions C16_quiescent_all_delivered.

(* PROGRESS UNDER FAIR LOSS, step 1.  In any state satisfying the pair invariant (every reachable one, see
   Proofs.run_inv) with S not dead: if ANY ONE transmission of the message at the head of S's queue reaches R,
   that message has been handed to R's machine (now or before). *)
Theorem C16_head_delivery_progress :
  forall o S R p r pk b now fj rc R' ob,
  dir_inv o S R -> Z.of_nat (length (e_sub S)) < 32768 -> e_dead S = 0%nat ->
  c_q (e_ch S) = p :: r -> k_body pk = Some b -> k_ns pk = p_ns p ->
  ep_deliver false R pk now fj rc = (R', ob) ->
  (length (e_sub S) - length (c_q (e_ch S)) < length (e_del R'))%nat.
Proof. exact head_delivery_progress. Qed.
Print Assumptions C16_head_delivery_progress.

(* step 2: once handed over, ANY ONE packet R sends afterwards (data, retransmission or ZLB: all carry R's
   current Nr, C16_ack_owed says one is owed) that reaches S removes the head from S's queue.
   Together with C16_dead_after_max (no acknowledgement => dead after MaxRetries expiries) this is the
   dichotomy under the explicit fair-loss assumption "of the <= MaxRetries transmissions of the head and the
   acknowledgements they trigger, one of each gets through, or none does": delivered and dequeued, or dead. *)
Theorem C16_head_ack_progress :
  forall o S R p r pk now fj rc S' ob,
  dir_inv o S R -> Z.of_nat (length (e_sub S)) < 32768 ->
  c_q (e_ch S) = p :: r -> 0 < p_att p ->
  (length (e_sub S) - length (c_q (e_ch S)) < length (e_del R))%nat ->
  k_nr pk = c_nr (e_ch R) ->
  ep_deliver false S pk now fj rc = (S', ob) ->
  (length (c_q (e_ch S')) < length (c_q (e_ch S)))%nat.
Proof. exact head_ack_progress. Qed.
Print Assumptions C16_head_ack_progress.

(* NO ACCEPTED MESSAGE IS EVER STRANDED.  For both dispatch rules, every execution (forged packets included)
   and EVERY pattern of send-callback failures — first transmission from Send or from inside the ACK path
   (where the error is swallowed), retransmissions, ZLBs: a non-empty queue always has its head in flight
   (attempts >= 1), the in-flight messages are a prefix of the queue, and cwnd >= 1.  So a message that Send
   accepted can never sit at attempts = 0 with nothing in flight ahead of it, out of reach of Tick: the head
   is retransmitted and, if never acknowledged, C16_dead_after_max fires the dead callback (Tick's state
   does not depend on write errors).  With C16_delivered_queued_or_dead: delivered, or queued behind a head
   that Tick is working on, or dead — for every send-fault pattern. *)
Theorem C16_no_stranded_message :
  forall z ai am ar az aw bi bm br bz bw oa ob evs,
  1 <= dflt aw 4 -> 1 <= dflt bw 4 ->
  let s := run z (init_sys (ai, am, ar, az, aw) (bi, bm, br, bz, bw) oa ob) evs in
  forall x, head_live (c_q (e_ch (ep s x))) /\ flight_sorted (c_q (e_ch (ep s x))) = true /\
            1 <= c_cwnd (e_ch (ep s x)).
Proof. exact no_stranded_message. Qed.
Print Assumptions C16_no_stranded_message.

(* THE RUNNER'S TIMER (runner.go loop, runner_next) NEVER PARKS: after every Tick another one is scheduled,
   one idle poll period later (any poll > 0; /repo HEAD: 500 ms) when the channel reported nothing pending (so a ZLB
   deadline armed by a Recv in between — which transmits nothing — is found within one period), otherwise at the reported time but not sooner than 50 ms. *)
Theorem C16_runner_never_parks :
  forall poll ret now, 0 < poll ->
  now < runner_next poll ret now /\
  match ret with
  | None => runner_next poll ret now = now + poll
  | Some t => runner_next poll ret now = Z.max t (now + 50)
  end.
Proof. exact runner_next_bounds. Qed.
Print Assumptions C16_runner_never_parks.

(* ... and it reaches every armed ZLB deadline: a Tick at t1 < d leaves the timer armed for d, reports a time
   <= d, and the next Tick is at t2 with t1 + 50 <= t2 <= max d (t1 + 50).  Iterating, some Tick happens in
   [d, d + 50] and sends the acknowledgement (C16_tick_sends_owed_ack). *)
Theorem C16_runner_reaches_zlb :
  forall poll f c t1 d c' o ret,
  0 < poll -> c_zlb c = Some d -> t1 < d -> tick f c t1 = (c', o, false, ret) ->
  let t2 := runner_next poll ret t1 in
  t1 + 50 <= t2 <= Z.max d (t1 + 50) /\ c_zlb c' = Some d.
Proof. exact runner_reaches_zlb. Qed.
Print Assumptions C16_runner_reaches_zlb.

(* DEAD UNDER THE RUNNER'S OWN SCHEDULE (runner.go loop = runner_next).  [runner_dead f g c t fuel] runs the loop:
   Tick at t; if not dead, anything that leaves the queue head alone may happen ([g k]: submissions with or
   without write faults, duplicates, messages acknowledging nothing new — see C16_runner_interference), then the
   next Tick at runner_next ret t.  If the queue head p is in flight (1 <= attempts <= MaxRetries) and no
   acknowledgement for it arrives, the dead callback fires at some Tick of that schedule, at a time
       td <= max t (deadline p + 50) + (MaxRetries - attempts p) * (max rtoMax 50 + 50)
   (fuel only has to cover that span at the loop's minimum pace of 50 ms).  No spacing assumption: the Ticks
   are exactly those the runner produces (back-off deadlines rtoInit<<k capped by rtoMax, ZLB deadlines, the 50 ms
   floor).  Together with C16_no_stranded_message (a non-empty queue always has such a head, for every write-fault
   pattern) and C16_head_delivery/ack_progress + C16_reachable_inv: delivered and dequeued, or dead by td. *)
Theorem C16_dead_under_runner :
  forall poll f g, 0 < poll -> (forall k, keeps_head (g k)) ->
  forall fuel c t p r,
  c_q c = p :: r -> 1 <= p_att p <= f_maxr f ->
  Z.max t (p_dl p + 50) + (f_maxr f - p_att p) * rstep f - t < Z.of_nat fuel * 50 ->
  exists td, runner_dead poll f g c t fuel = Some td /\
             t <= td <= Z.max t (p_dl p + 50) + (f_maxr f - p_att p) * rstep f.
Proof. exact dead_under_runner. Qed.
Print Assumptions C16_dead_under_runner.

(* admissible interference: a submission with any write fault; an inbound message whose Nr does not acknowledge the head *)
Theorem C16_runner_interference :
  (forall f body sid now fj, keeps_head (fun c => fst (fst (send_session f c body sid now fj)))) /\
  (forall f ns nr now fj rc c p r, c_q c = p :: r -> 1 <= p_att p -> seq_less (p_ns p) nr = false ->
     exists r', c_q (fst (fst (fst (recv f c ns nr now fj rc)))) = p :: r').
Proof. split; [exact submit_keeps_head|exact recv_keeps_head]. Qed.
Print Assumptions C16_runner_interference.

(* non-vacuity: RTO 100/400, MaxRetries 3, one message sent at 0: the runner's own Ticks are at 100, 300, 700
   (not rtoMax apart) and the third declares dead, with or without a submission between every two Ticks *)
Example C16_dead_under_runner_nonvacuous :
  runner_dead 500 ex_conf (fun _ c => c) ex_chan 100 30 = Some 700 /\
  runner_dead 500 ex_conf (fun k c => fst (fst (send_session ex_conf c (Z.of_nat k) 0 0 None))) ex_chan 100 30 = Some 700.
Proof. exact runner_dead_example. Qed.
Print Assumptions C16_dead_under_runner_nonvacuous.

(* every state reached by an honest run (any write faults) satisfies the pair invariant the progress theorems
   C16_head_delivery_progress / C16_head_ack_progress are conditional on *)
Theorem C16_reachable_inv :
  forall ai am ar az aw bi bm br bz bw oa ob evs,
  honest evs = true ->
  let s := run false (init_sys (ai, am, ar, az, aw) (bi, bm, br, bz, bw) oa ob) evs in
  Z.of_nat (length (e_sub (s_a s))) < 32768 -> Z.of_nat (length (e_sub (s_b s))) < 32768 ->
  dir_inv oa (s_a s) (s_b s) /\ dir_inv ob (s_b s) (s_a s).
Proof. exact reachable_inv. Qed.
Print Assumptions C16_reachable_inv.

(* non-vacuity of the accounting / quiescence theorems: the wrap_run execution ends with A quiescent (everything
   delivered) and B's message handed over but still queued, in flight, unacknowledged *)
Example C16_accounting_nonvacuous :
  let s := run false (init_sys (100, 400, 3, 50, 1) (100, 400, 3, 50, 1) 65535 32767) wrap_run in
  c_q (e_ch (s_a s)) = [] /\ e_dead (s_a s) = 0%nat /\ e_del (s_b s) = e_sub (s_a s) /\
  map p_att (c_q (e_ch (s_b s))) = [1] /\ e_sub (s_b s) = [200] /\ e_del (s_a s) = [200] /\ e_acked (s_b s) = [].
Proof. exact accounting_example. Qed.
Print Assumptions C16_accounting_nonvacuous.

(* non-vacuity of C16_runner_reaches_zlb: ZLB armed for 250, Tick at 200 sends nothing and reports 250, the runner
   comes back at 250 and that Tick sends the acknowledgement *)
Example C16_runner_zlb_nonvacuous :
  let c := fst (fst (fst (recv ex_conf (new_chan 1) 0 0 200 None head_choice))) in
  c_zlb c = Some 250 /\
  (let '(c', o, d, ret) := tick ex_conf c 200 in o = [] /\ d = false /\ ret = Some 250 /\ runner_next 500 ret 200 = 250) /\
  (let '(c', o, d, ret) := tick ex_conf c 250 in map k_nr o = [1] /\ c_zlb c' = None).
Proof. exact runner_zlb_example. Qed.
Print Assumptions C16_runner_zlb_nonvacuous.

(* ONE CONTROL CONNECTION = ONE TUNNEL.  For every sequence of events on one (peer, Assigned Tunnel ID) key — copies
   of the SCCRQ at any point (retransmitted, duplicated, delayed past the SCCCN, past the teardown), teardowns,
   anything else — the SCCRQ handler runs at most once: at most one tunnel is opened and one SCCRP produced.  This is
   the rule of /repo HEAD (closed-connection record, 1a77bf9); before that fix ([linger] = false) a copy delayed past
   the teardown opened a second tunnel (historical witness C16_sccrq_once_refuted_pre_1a77bf9). *)
Theorem C16_sccrq_once : forall evs, (conn_opens true CNone evs <= 1)%nat.
Proof. exact sccrq_once. Qed.
Print Assumptions C16_sccrq_once.

Theorem C16_sccrq_once_refuted_pre_1a77bf9 : conn_opens false CNone [CSccrq; COther; CTeardown; CSccrq] = 2%nat.
Proof. exact sccrq_twice_without_linger. Qed.
Print Assumptions C16_sccrq_once_refuted_pre_1a77bf9.

(* THE FREE CHOICES.  (1) Between honest endpoints (any reachable state of an honest run, < 2^15 submissions) the Nr of
   every packet the peer ever wrote is not ahead of our own next Ns: ignoring "acknowledgements from the future"
   (r_ig) changes nothing on honest runs — it only concerns forged packets, about which the property says nothing.
   (2) Both delayed-acknowledgement policies — re-arm at now + zlbDelay (/repo HEAD), keep an earlier pending
   deadline — are instances of r_zd; every theorem above holds for all of them. *)
Theorem C16_honest_ack_never_ahead :
  forall o S R pk,
  dir_inv o S R -> Z.of_nat (length (e_sub S)) < 32768 -> In pk (e_sent R) ->
  seq_less (c_ns (e_ch S)) (k_nr pk) = false.
Proof. exact honest_ack_never_ahead. Qed.
Print Assumptions C16_honest_ack_never_ahead.

Example C16_zlb_policies_admissible :
  forall f now prev,
  zlb_choice f now None = now + f_zlb f /\
  zlb_choice f now (Some (Z.min prev (now + f_zlb f))) = Z.min prev (now + f_zlb f).
Proof. exact zlb_policies_admissible. Qed.
Print Assumptions C16_zlb_policies_admissible.

(* END TO END (non-vacuity of C16_exactly_once_in_order + C16_quiescent_all_delivered on the real protocol): the L2TP
   bring-up SCCRQ / SCCRP / SCCCN+ICRQ / ICRP / ICCN between a LAC (A) and an LNS (B) with the first SCCRP lost, the SCCRQ
   retransmitted and the ICRQ duplicated by the network: every message reaches the peer's protocol machine exactly once,
   in order, both queues drain, nobody declares dead.  The `e2e` case kind runs this exchange between two real Components
   under every single and many double faults and compares with this model driven by runner_next. *)
Example C16_bringup_end_to_end :
  let s := run false (init_sys (0, 0, 0, 0, 16) (0, 0, 0, 0, 16) 0 0) bringup in
  honest bringup = true /\
  e_del (s_b s) = [1; 3; 4; 6] /\ e_sub (s_a s) = [1; 3; 4; 6] /\ e_del (s_a s) = [2; 5] /\ e_sub (s_b s) = [2; 5] /\
  c_q (e_ch (s_a s)) = [] /\ c_q (e_ch (s_b s)) = [] /\ e_dead (s_a s) = 0%nat /\ e_dead (s_b s) = 0%nat.
Proof. exact bringup_example. Qed.
Print Assumptions C16_bringup_end_to_end.

(* ONE WRITE = ONE ATTEMPT.  [att_incs q q'] lists, in queue order, the entries whose attempts went up by exactly one and
   is defined only if nothing else about the entries' identity or attempts changed.  driveSend (from Send and from the
   ACK path, with any write fault): the writes it attempts — the successful ones and the failing one — are exactly the
   entries it marks 0 -> 1.  Tick (not declaring dead): the retransmissions it writes are exactly the entries whose attempts
   it increments.  No other operation writes a sequenced message or touches attempts, so a queued message's attempts is the
   number of times it has been passed to the send callback, and with C16_window (attempts <= MaxRetries) a message is
   written at most MaxRetries times. *)
Theorem C16_drive_writes_are_attempts :
  forall cwnd nr dl q infl fj q' o e,
  (forall p, In p q -> 0 <= p_att p) ->
  drive_q cwnd nr dl infl fj q = (q', o, e) ->
  att_incs q q' = Some (map pkey (o ++ opt_list e)).
Proof. exact drive_q_writes. Qed.
Print Assumptions C16_drive_writes_are_attempts.

Theorem C16_tick_writes_are_attempts :
  forall f now nr q cwnd ssth q' cw ss o,
  tick_q f now nr cwnd ssth q = (Some q', cw, ss, o) ->
  att_incs q q' = Some (map pkey o).
Proof. exact tick_q_writes. Qed.
Print Assumptions C16_tick_writes_are_attempts.

(* EXACTLY ONCE, IN ORDER — HISTORIES OF ANY LENGTH.  The bound "< 2^15 submissions per direction" of
   C16_exactly_once_in_order is replaced by the PACKET-LIFETIME hypothesis [fresh_run]: every packet is fresh at the
   moment the network delivers it (Proofs.fresh_data / fresh_ack):
     data packet  — among the sender's submissions there is one with the packet's Ns (mod 2^16) and body whose index is
                    less than 2^15 away from the receiver's next expected index;
     any packet   — its Nr (mod 2^16) denotes some k <= what its writer has been handed that is less than 2^15 away from
                    every message still in the acknowledged side's queue.
   I.e. no packet older than 2^15 submissions is still in the network and fewer than 2^15 messages are queued
   unacknowledged.  Then for every configuration, origins, write faults, free choices and every honest execution — any
   number of submissions, any number of wrap-arounds of the sequence space: prefix property both ways, acknowledged =>
   handed over, and a side that never declared dead has lost nothing (everything that left its queue was handed to the
   peer's machine).  C16_bounded_runs_are_fresh: every run covered by the old theorem satisfies the hypothesis.
   Not machine-checked: a concrete fresh run longer than 2^15 submissions (the witness in each fresh_* is the packet's
   true index, which exists as long as the packet is younger than 2^15 submissions). *)
Theorem C16_exactly_once_unbounded :
  forall ai am ar az aw bi bm br bz bw oa ob evs,
  honest evs = true ->
  fresh_run oa ob (init_sys (ai, am, ar, az, aw) (bi, bm, br, bz, bw) oa ob) evs ->
  let s := run false (init_sys (ai, am, ar, az, aw) (bi, bm, br, bz, bw) oa ob) evs in
  (exists rest, e_sub (s_a s) = e_del (s_b s) ++ rest) /\
  (exists rest, e_sub (s_b s) = e_del (s_a s) ++ rest) /\
  (forall i, In i (e_acked (s_a s)) -> (i < length (e_del (s_b s)))%nat) /\
  (forall i, In i (e_acked (s_b s)) -> (i < length (e_del (s_a s)))%nat) /\
  (forall x, e_dead (ep s x) = 0%nat ->
     (length (e_sub (ep s x)) - length (c_q (e_ch (ep s x))) <= length (e_del (ep s (peer x))))%nat).
Proof. exact exactly_once_unbounded. Qed.
Print Assumptions C16_exactly_once_unbounded.

(* the hypothesis is not vacuous and strictly weaker than the old bound: every honest run with fewer than 2^15
   submissions per direction (e.g. wrap_run, bringup) is a fresh run *)
Theorem C16_bounded_runs_are_fresh :
  forall oa ob evs s,
  sys_inv oa ob s -> honest evs = true -> bounded (run false s evs) -> fresh_run oa ob s evs.
Proof. exact bounded_run_is_fresh. Qed.
Print Assumptions C16_bounded_runs_are_fresh.
