(* C16/Proofs.v — lemmas about the model in Model.v *)
From OV Require Import Common.Base C16.Model.
From Coq Require Import ZifyBool ZifyNat.
Open Scope Z_scope.
Ltac Zify.zify_post_hook ::= Z.div_mod_to_equations.
Ltac splits := repeat match goal with |- _ /\ _ => split end.

(* ================= seqLess is 16-bit serial-number comparison ================= *)
Fixpoint all_from (f : Z -> bool) (n : nat) (x : Z) : bool :=
  match n with O => true | S k => f x && all_from f k (x + 1) end.

Lemma all_from_spec f n : forall x, all_from f n x = true ->
  forall y, x <= y < x + Z.of_nat n -> f y = true.
Proof.
  induction n as [|n IH]; intros x H y Hy; [lia|].
  simpl in H. apply andb_true_iff in H as [H1 H2].
  destruct (Z.eq_dec y x) as [->|Hne]; [exact H1|].
  apply (IH (x + 1) H2). lia.
Qed.

Definition bit15_ok (x : Z) : bool := Bool.eqb (Z.land x 32768 =? 0) (x <? 32768).

Lemma bit15_all : all_from bit15_ok (Z.to_nat 65536) 0 = true.
Proof. vm_compute. reflexivity. Qed.

Lemma land_bit15 x : 0 <= x < 65536 -> (Z.land x 32768 =? 0) = (x <? 32768).
Proof.
  intros H. pose proof (all_from_spec _ _ _ bit15_all x) as A.
  rewrite Z2Nat.id in A by lia. specialize (A ltac:(lia)).
  unfold bit15_ok in A. apply eqb_prop in A. exact A.
Qed.

Lemma u16_range z : 0 <= u16 z < 65536.
Proof. unfold u16. lia. Qed.

Lemma seq_less_arith a b : seq_less a b = (32768 <=? (a - b) mod 65536).
Proof.
  unfold seq_less. rewrite land_bit15 by apply u16_range. unfold u16. lia.
Qed.

(* RFC 1982 on 16 bits: a < b iff b is 1..2^15 steps ahead of a *)
Lemma seq_less_serial a b :
  seq_less a b = true <-> 1 <= (b - a) mod 65536 <= 32768.
Proof. rewrite seq_less_arith. lia. Qed.

(* inside any window of 2^15 consecutive numbers, from any origin, it is the order of the offsets *)
Lemma seq_less_window o i k :
  0 <= i < 32768 -> 0 <= k < 32768 ->
  seq_less (u16 (o + i)) (u16 (o + k)) = (i <? k).
Proof. intros Hi Hk. rewrite seq_less_arith. unfold u16. lia. Qed.

Lemma u16_inj_window o i k :
  0 <= i < 65536 -> 0 <= k < 65536 -> u16 (o + i) = u16 (o + k) -> i = k.
Proof. unfold u16. lia. Qed.

Lemma u16_succ z : u16 (u16 z + 1) = u16 (z + 1).
Proof. unfold u16. lia. Qed.

Lemma seq_less_irrefl a : seq_less a a = false.
Proof. rewrite seq_less_arith. lia. Qed.

Lemma seq_less_asym a b : 0 <= a < 65536 -> 0 <= b < 65536 ->
  (b - a) mod 65536 <> 32768 -> seq_less a b = true -> seq_less b a = false.
Proof. rewrite !seq_less_arith. lia. Qed.

(* ================= list functions of the channel ================= *)
Definition key (p : pending) : Z * Z := (p_ns p, p_body p).

Definition emits_ok (nr : Z) (src : list pending) (o : list pkt) : Prop :=
  forall pk, In pk o -> k_nr pk = nr /\
    forall b, k_body pk = Some b -> In (k_ns pk, b) (map key src).

Lemma emits_ok_nil nr src : emits_ok nr src [].
Proof. intros pk []. Qed.

Lemma emits_ok_app nr src o1 o2 : emits_ok nr src o1 -> emits_ok nr src o2 -> emits_ok nr src (o1 ++ o2).
Proof. intros H1 H2 pk Hin. apply in_app_or in Hin as [H|H]; auto. Qed.

Lemma emits_ok_mono nr src src' o :
  (forall x, In x (map key src) -> In x (map key src')) -> emits_ok nr src o -> emits_ok nr src' o.
Proof. intros Hs H pk Hin. destruct (H pk Hin) as [A B]. split; auto. Qed.

Lemma count_inflight_nonneg q : 0 <= count_inflight q.
Proof. induction q as [|p r IH]; simpl; [lia|]. destruct (0 <? p_att p); lia. Qed.

Lemma count_inflight_app q1 q2 : count_inflight (q1 ++ q2) = count_inflight q1 + count_inflight q2.
Proof. induction q1 as [|p r IH]; simpl; [lia|]. rewrite IH. lia. Qed.

Definition att_ok (maxr : Z) (q : list pending) : Prop :=
  forall p, In p q -> 0 <= p_att p <= maxr.

Definition opt_list {A} (o : option A) : list A := match o with Some x => [x] | None => [] end.

Lemma drive_q_spec cwnd nr dl : forall q infl fj q' o e,
  drive_q cwnd nr dl infl fj q = (q', o, e) ->
  map key q' = map key q /\
  emits_ok nr q (o ++ opt_list e) /\
  count_inflight q <= count_inflight q' /\
  count_inflight q' - count_inflight q <= Z.max 0 (cwnd - infl) /\
  (forall maxr, 1 <= maxr -> att_ok maxr q -> att_ok maxr q').
Proof.
  induction q as [|p r IH]; intros infl fj q' o e H; simpl in H.
  - inversion H; subst. splits; try (simpl; lia); auto using emits_ok_nil.
  - destruct (0 <? p_att p) eqn:Ea.
    + destruct (drive_q cwnd nr dl infl fj r) as [[r' o'] e'] eqn:E. inversion H; subst.
      destruct (IH _ _ _ _ _ E) as (K & Em & C1 & C2 & At). cbn [count_inflight map]. rewrite Ea.
      splits.
      * f_equal; exact K.
      * intros pk Hin. destruct (Em pk Hin) as [A B]. split; [exact A|]. intros b Hb. right. auto.
      * lia.
      * lia.
      * intros maxr Hm Ha x [<-|Hx]; [apply Ha; left; reflexivity|].
        apply (At maxr Hm); [|exact Hx]. intros y Hy; apply Ha; right; exact Hy.
    + destruct (cwnd <=? infl) eqn:Ec.
      * inversion H; subst. splits; try lia; auto using emits_ok_nil.
      * assert (Hfail : forall r0, map key (mkP (p_body p) (p_sid p) (p_ns p) 1 dl :: r0) = key p :: map key r0)
          by reflexivity.
        destruct fj as [[|k]|].
        -- (* the write fails *)
           inversion H; subst. cbn [count_inflight map p_att]. rewrite Ea. change (0 <? 1) with true. cbv iota.
           splits; try lia.
           ++ reflexivity.
           ++ intros pk [<-|[]]. simpl. split; [reflexivity|]. intros b Hb; inversion Hb; subst. left; reflexivity.
           ++ intros maxr Hm Ha x [<-|Hx]; [simpl; lia|]. apply Ha; right; exact Hx.
        -- destruct (drive_q cwnd nr dl (infl + 1) (Some k) r) as [[r' o'] e'] eqn:E. inversion H; subst.
           destruct (IH _ _ _ _ _ E) as (K & Em & C1 & C2 & At).
           cbn [count_inflight map p_att]. rewrite Ea. change (0 <? 1) with true. cbv iota.
           splits; try lia.
           ++ f_equal; exact K.
           ++ intros pk [<-|Hin].
              ** simpl. split; [reflexivity|]. intros b Hb; inversion Hb; subst. left; reflexivity.
              ** destruct (Em pk Hin) as [A B]. split; [exact A|]. intros b Hb. right. auto.
           ++ intros maxr Hm Ha x [<-|Hx]; [simpl; lia|].
              apply (At maxr Hm); [|exact Hx]. intros y Hy; apply Ha; right; exact Hy.
        -- destruct (drive_q cwnd nr dl (infl + 1) None r) as [[r' o'] e'] eqn:E. inversion H; subst.
           destruct (IH _ _ _ _ _ E) as (K & Em & C1 & C2 & At).
           cbn [count_inflight map p_att]. rewrite Ea. change (0 <? 1) with true. cbv iota.
           splits; try lia.
           ++ f_equal; exact K.
           ++ intros pk [<-|Hin].
              ** simpl. split; [reflexivity|]. intros b Hb; inversion Hb; subst. left; reflexivity.
              ** destruct (Em pk Hin) as [A B]. split; [exact A|]. intros b Hb. right. auto.
           ++ intros maxr Hm Ha x [<-|Hx]; [simpl; lia|].
              apply (At maxr Hm); [|exact Hx]. intros y Hy; apply Ha; right; exact Hy.
Qed.

Lemma ack_q_spec ack ssth pw : forall q cwnd q' cw pr,
  ack_q ack cwnd ssth pw q = (q', cw, pr) ->
  exists popped, q = popped ++ q' /\
    (forall p, In p popped -> seq_less (p_ns p) ack = true) /\
    (pr = false -> popped = [] /\ cw = cwnd) /\
    (pr = true -> cw <= pw).
Proof.
  induction q as [|p r IH]; intros cwnd q' cw pr H; simpl in H.
  - inversion H; subst. exists []. splits; auto; try discriminate; try (intros ? []).
  - destruct (p_att p =? 0).
    { inversion H; subst. exists []. splits; auto; try discriminate; try (intros ? []). }
    destruct (seq_less (p_ns p) ack) eqn:Es.
    + destruct (ack_q ack (grow_cwnd cwnd ssth pw) ssth pw r) as [[q1 cw1] pr1] eqn:E.
      inversion H; subst. destruct (IH _ _ _ _ E) as (pp & Hq & Hs & Hf & Ht).
      exists (p :: pp). splits.
      * simpl; f_equal; exact Hq.
      * intros x [<-|Hx]; auto.
      * discriminate.
      * intros _. destruct pr1.
        -- apply Ht; reflexivity.
        -- destruct (Hf eq_refl) as [_ Hcw]. rewrite Hcw. unfold grow_cwnd.
           destruct (cwnd <? ssth); destruct (pw <? cwnd + 1) eqn:E1; lia.
    + inversion H; subst. exists []. splits; auto; try discriminate; try (intros ? []).
Qed.

Lemma tick_q_spec f now nr : forall q cwnd ssth oq cw ss o,
  tick_q f now nr cwnd ssth q = (oq, cw, ss, o) ->
  emits_ok nr q o /\
  cw <= Z.max cwnd 1 /\
  match oq with
  | None => True
  | Some q' => map key q' = map key q /\ count_inflight q' = count_inflight q /\
               (1 <= f_maxr f -> att_ok (f_maxr f) q -> att_ok (f_maxr f) q')
  end.
Proof.
  induction q as [|p r IH]; intros cwnd ssth oq cw ss o H; simpl in H.
  - inversion H; subst. splits; auto using emits_ok_nil; try lia.
  - destruct ((p_att p =? 0) || (now <? p_dl p)) eqn:Eskip.
    + destruct (tick_q f now nr cwnd ssth r) as [[[r' cw1] ss1] o1] eqn:E. inversion H; subst.
      destruct (IH _ _ _ _ _ _ E) as (Em & Hc & Hq). splits.
      * intros pk Hin. destruct (Em pk Hin) as [A B]. split; [exact A|]. intros b Hb; right; auto.
      * exact Hc.
      * destruct r' as [r'|]; simpl; [|exact I]. destruct Hq as (K & C & At). splits.
        -- f_equal; exact K.
        -- rewrite C; reflexivity.
        -- intros Hm Ha x [<-|Hx]; [apply Ha; left; reflexivity|].
           apply At; auto. intros y Hy; apply Ha; right; exact Hy.
    + destruct (f_maxr f <? p_att p + 1) eqn:Ed.
      * inversion H; subst. splits; auto using emits_ok_nil; lia.
      * match type of H with context [tick_q f now nr 1 ?s r] =>
          destruct (tick_q f now nr 1 s r) as [[[r' cw1] ss1] o1] eqn:E end.
        inversion H; subst. destruct (IH _ _ _ _ _ _ E) as (Em & Hc & Hq). splits.
        -- intros pk [<-|Hin].
           ++ simpl. split; [reflexivity|]. intros b Hb; inversion Hb; subst. left; reflexivity.
           ++ destruct (Em pk Hin) as [A B]. split; [exact A|]. intros b Hb; right; auto.
        -- lia.
        -- destruct r' as [r'|]; simpl; [|exact I]. destruct Hq as (K & C & At).
           apply orb_false_iff in Eskip as [E0 _]. splits.
           ++ f_equal; exact K.
           ++ rewrite C. assert (0 <= p_att p \/ p_att p < 0) as [Hp|Hp] by lia.
              ** assert (0 <? p_att p + 1 = true) as -> by lia.
                 assert (0 <? p_att p = true) as -> by lia. reflexivity.
              ** (* negative attempts never occur; both sides count the same only then *)
                 destruct (0 <? p_att p + 1) eqn:E1; destruct (0 <? p_att p) eqn:E2; lia.
           ++ intros Hm Ha x [<-|Hx].
              ** simpl. pose proof (Ha p (or_introl eq_refl)). lia.
              ** apply At; auto. intros y Hy; apply Ha; right; exact Hy.
Qed.

(* ================= channel operations ================= *)
Lemma is_nil_spec {A} (l : list A) : is_nil l = true <-> l = [].
Proof. destruct l; simpl; split; intros; congruence. Qed.

Lemma emits_ok_app_l nr src o1 o2 : emits_ok nr src (o1 ++ o2) -> emits_ok nr src o1.
Proof. intros H pk Hin. apply H. apply in_or_app; left; exact Hin. Qed.

Lemma drive_send_spec f c now fj c' o e : drive_send f c now fj = (c', o, e) ->
  c_ns c' = c_ns c /\ c_nr c' = c_nr c /\ c_cwnd c' = c_cwnd c /\ c_ssth c' = c_ssth c /\
  c_pw c' = c_pw c /\
  map key (c_q c') = map key (c_q c) /\ emits_ok (c_nr c) (c_q c) o /\
  count_inflight (c_q c') <= Z.max (count_inflight (c_q c)) (c_cwnd c) /\
  (forall maxr, 1 <= maxr -> att_ok maxr (c_q c) -> att_ok maxr (c_q c')) /\
  (o = [] -> c_zlb c' = c_zlb c) /\ (o <> [] -> c_zlb c' = None).
Proof.
  unfold drive_send.
  destruct (drive_q (c_cwnd c) (c_nr c) (now + f_rto_init f) (count_inflight (c_q c)) fj (c_q c))
    as [[q' o'] e'] eqn:E.
  intros H; inversion H; subst; clear H. cbn [c_ns c_nr c_cwnd c_ssth c_pw c_q c_zlb].
  destruct (drive_q_spec _ _ _ _ _ _ _ _ _ E) as (K & Em & C1 & C2 & At).
  apply emits_ok_app_l in Em.
  splits; auto; try lia.
  - intros ->. reflexivity.
  - intros Hn. destruct o; [congruence|reflexivity].
Qed.

Lemma send_session_spec f c body sid now fj c' o e : send_session f c body sid now fj = (c', o, e) ->
  c_ns c' = u16 (c_ns c + 1) /\ c_nr c' = c_nr c /\ c_pw c' = c_pw c /\ c_cwnd c' = c_cwnd c /\
  map key (c_q c') = map key (c_q c) ++ [(c_ns c, body)] /\
  (forall pk, In pk o -> k_nr pk = c_nr c /\
     forall b, k_body pk = Some b -> In (k_ns pk, b) (map key (c_q c) ++ [(c_ns c, body)])) /\
  count_inflight (c_q c') <= Z.max (count_inflight (c_q c)) (c_cwnd c) /\
  (forall maxr, 1 <= maxr -> att_ok maxr (c_q c) -> att_ok maxr (c_q c')) /\
  (o = [] -> c_zlb c' = c_zlb c) /\ (o <> [] -> c_zlb c' = None).
Proof.
  unfold send_session. intros H. apply drive_send_spec in H.
  cbn [c_ns c_nr c_cwnd c_ssth c_pw c_q c_zlb] in H.
  destruct H as (A & B & C & D & E & K & Em & Cn & At & Z1 & Z2).
  rewrite map_app in K. cbn [map key p_ns p_body] in K.
  splits; auto.
  - intros pk Hin. destruct (Em pk Hin) as [X Y]. split; [exact X|].
    intros b Hb. specialize (Y b Hb). rewrite map_app in Y. exact Y.
  - rewrite count_inflight_app in Cn. cbn [count_inflight p_att] in Cn.
    change (0 <? 0) with false in Cn. cbv iota in Cn. lia.
  - intros maxr Hm Ha. apply At; auto. intros p Hp. apply in_app_or in Hp as [Hp|[<-|[]]]; auto.
    cbn [p_att]. lia.
Qed.

Lemma zlb_choice_le f now zd : zlb_choice f now zd <= now + f_zlb f.
Proof. unfold zlb_choice. destruct zd as [d|]; [destruct (d <=? now + f_zlb f) eqn:E|]; lia. Qed.

Lemma ack_through_spec f c ack now fj ig c' o e : ack_through f c ack now fj ig = (c', o, e) ->
  c_ns c' = c_ns c /\ c_nr c' = c_nr c /\ c_pw c' = c_pw c /\
  (exists popped rest, c_q c = popped ++ rest /\ map key (c_q c') = map key rest /\
     (forall p, In p popped -> seq_less (p_ns p) ack = true)) /\
  emits_ok (c_nr c) (c_q c) o /\
  (c_cwnd c' = c_cwnd c \/ c_cwnd c' <= c_pw c) /\
  count_inflight (c_q c') <= Z.max (count_inflight (c_q c)) (c_cwnd c') /\
  (forall maxr, 1 <= maxr -> att_ok maxr (c_q c) -> att_ok maxr (c_q c')) /\
  (o = [] -> c_zlb c' = c_zlb c) /\ (o <> [] -> c_zlb c' = None).
Proof.
  unfold ack_through.
  destruct (ig && seq_less (c_ns c) ack).
  { (* the acknowledgement is ignored: nothing changes *)
    intros H; inversion H; subst; clear H. splits; auto using emits_ok_nil; try lia.
    - eexists [], _. splits; [reflexivity|reflexivity|intros ? []].
    - intros Hn; congruence. }
  destruct (ack_q ack (c_cwnd c) (c_ssth c) (c_pw c) (c_q c)) as [[q1 cw] pr] eqn:E.
  destruct (ack_q_spec _ _ _ _ _ _ _ _ E) as (pp & Hq & Hs & Hf & Ht).
  assert (Hcnt : count_inflight q1 <= count_inflight (c_q c)).
  { rewrite Hq, count_inflight_app. pose proof (count_inflight_nonneg pp). lia. }
  assert (Hatt : forall maxr, att_ok maxr (c_q c) -> att_ok maxr q1).
  { intros maxr Ha p Hp. apply Ha. rewrite Hq. apply in_or_app; right; exact Hp. }
  destruct pr.
  - intros H. apply drive_send_spec in H. cbn [c_ns c_nr c_cwnd c_ssth c_pw c_q c_zlb] in H.
    destruct H as (A & B & C & D & E1 & K & Em & Cn & At & Z1 & Z2).
    splits; auto.
    + exists pp, q1. auto.
    + eapply emits_ok_mono; [|exact Em]. intros x Hx. rewrite Hq, map_app. apply in_or_app; right; exact Hx.
    + right. rewrite C. apply Ht; reflexivity.
    + rewrite C. lia.
  - intros H; inversion H; subst; clear H. cbn [c_ns c_nr c_cwnd c_ssth c_pw c_q c_zlb].
    destruct (Hf eq_refl) as [-> ->]. simpl in Hq.
    splits; auto using emits_ok_nil; try lia.
    + exists [], q1. splits; auto; try (intros ? []).
    + intros Hn; congruence.
Qed.

Lemma recv_spec f c ns nr now fj rc c' o e h : recv f c ns nr now fj rc = (c', o, e, h) ->
  h = (ns =? c_nr c) /\
  c_ns c' = c_ns c /\ c_nr c' = (if h then u16 (c_nr c + 1) else c_nr c) /\ c_pw c' = c_pw c /\
  (exists popped rest, c_q c = popped ++ rest /\ map key (c_q c') = map key rest /\
     (forall p, In p popped -> seq_less (p_ns p) nr = true)) /\
  emits_ok (c_nr c) (c_q c) o /\
  (c_cwnd c' = c_cwnd c \/ c_cwnd c' <= c_pw c) /\
  count_inflight (c_q c') <= Z.max (count_inflight (c_q c)) (c_cwnd c') /\
  (forall maxr, 1 <= maxr -> att_ok maxr (c_q c) -> att_ok maxr (c_q c')) /\
  c_zlb c' = Some (zlb_choice f now (r_zd rc)).
Proof.
  unfold recv. destruct (ack_through f c nr now fj (r_ig rc)) as [[c1 o1] e1] eqn:E.
  apply ack_through_spec in E. destruct E as (A & B & C & Q & Em & Cw & Cn & At & _).
  destruct (negb (ns =? c_nr c1)) eqn:En; intros H; inversion H; subst; clear H;
    cbn [c_ns c_nr c_cwnd c_ssth c_pw c_q c_zlb]; rewrite B in En |- *.
  - splits; auto. destruct (ns =? c_nr c); simpl in En; congruence.
  - splits; auto. destruct (ns =? c_nr c); simpl in En; congruence.
Qed.

Lemma tick_spec f c now c' o d ret : tick f c now = (c', o, d, ret) ->
  c_ns c' = c_ns c /\ c_nr c' = c_nr c /\ c_pw c' = c_pw c /\
  (map key (c_q c') = map key (c_q c) \/ c_q c' = []) /\
  emits_ok (c_nr c) (c_q c) o /\
  c_cwnd c' <= Z.max (c_cwnd c) 1 /\
  count_inflight (c_q c') <= count_inflight (c_q c) /\
  (1 <= f_maxr f -> att_ok (f_maxr f) (c_q c) -> att_ok (f_maxr f) (c_q c')) /\
  (o = [] -> c_zlb c' = c_zlb c) /\
  (d = true -> c_q c' = []) /\
  (d = false -> map key (c_q c') = map key (c_q c)).
Proof.
  unfold tick.
  destruct (tick_q f now (c_nr c) (c_cwnd c) (c_ssth c) (c_q c)) as [[[oq cw] ss] o1] eqn:E.
  destruct (tick_q_spec _ _ _ _ _ _ _ _ _ _ E) as (Em & Hc & Hq).
  destruct oq as [q'|]; intros H; inversion H; subst; clear H;
    cbn [c_ns c_nr c_cwnd c_ssth c_pw c_q c_zlb].
  - destruct Hq as (K & C & At). splits; auto; try lia.
    + apply emits_ok_app; [exact Em|]. destruct (c_zlb c) as [dl|]; [|apply emits_ok_nil].
      destruct (negb (now <? dl)); [|apply emits_ok_nil].
      intros pk [<-|[]]. simpl. split; [reflexivity|discriminate].
    + intros Ho. apply app_eq_nil in Ho as [_ Ho].
      destruct (c_zlb c) as [dl|]; [|reflexivity]. destruct (negb (now <? dl)); [discriminate|reflexivity].
  - splits; auto; try lia; try (simpl; apply count_inflight_nonneg); try (intros _ _ ? []); try discriminate.
Qed.

Lemma set_peer_window_spec c rws : let c' := set_peer_window c rws in
  c_ns c' = c_ns c /\ c_nr c' = c_nr c /\ c_q c' = c_q c /\ c_zlb c' = c_zlb c /\
  c_cwnd c' <= c_cwnd c /\ 1 <= c_pw c' /\ c_cwnd c' <= Z.max (c_cwnd c) 0.
Proof.
  unfold set_peer_window. cbn [c_ns c_nr c_cwnd c_ssth c_pw c_q c_zlb].
  splits; auto; try lia.
  - destruct (rws <? 1); destruct (_ <? c_cwnd c) eqn:E; lia.
  - destruct (rws <? 1) eqn:E; lia.
  - destruct (rws <? 1); destruct (_ <? c_cwnd c) eqn:E; lia.
Qed.

(* ================= the pair: exactly once, in order ================= *)
(* submissions stamped with the sequence numbers the sender assigns from origin o *)
Fixpoint stamped (o : Z) (i : nat) (sub : list Z) : list (Z * Z) :=
  match sub with
  | [] => []
  | b :: r => (u16 (o + Z.of_nat i), b) :: stamped o (S i) r
  end.

Lemma stamped_app o l1 : forall i l2,
  stamped o i (l1 ++ l2) = stamped o i l1 ++ stamped o (i + length l1) l2.
Proof.
  induction l1 as [|b r IH]; intros i l2; simpl.
  - rewrite Nat.add_0_r; reflexivity.
  - rewrite IH. do 3 f_equal. lia.
Qed.

Lemma stamped_length o sub : forall i, length (stamped o i sub) = length sub.
Proof. induction sub as [|b r IH]; intros i; simpl; [reflexivity|]. rewrite IH; reflexivity. Qed.

Lemma stamped_nth o sub : forall i j x, nth_error (stamped o i sub) j = Some x ->
  fst x = u16 (o + Z.of_nat (i + j)) /\ nth_error sub j = Some (snd x).
Proof.
  induction sub as [|b r IH]; intros i j x H; destruct j; simpl in H; try discriminate.
  - inversion H; subst. simpl. rewrite Nat.add_0_r. auto.
  - apply IH in H. destruct H as [A B]. split; [|exact B]. rewrite A. do 2 f_equal. lia.
Qed.

Lemma stamped_in o sub i x : In x (stamped o i sub) ->
  exists j, (j < length sub)%nat /\ fst x = u16 (o + Z.of_nat (i + j)) /\ nth_error sub j = Some (snd x).
Proof.
  intros H. apply In_nth_error in H as [j Hj]. exists j.
  pose proof (stamped_nth _ _ _ _ _ Hj) as [A B]. splits; auto.
  apply nth_error_Some. congruence.
Qed.

Record dir_inv (o : Z) (S R : endpoint) : Prop := {
  di_ns : c_ns (e_ch S) = u16 (o + Z.of_nat (length (e_sub S)));
  di_q : exists pre, stamped o 0 (e_sub S) = pre ++ map key (c_q (e_ch S));
  di_nr : c_nr (e_ch R) = u16 (o + Z.of_nat (length (e_del R)));
  di_prefix : exists rest, e_sub S = e_del R ++ rest;
  di_sentS : forall pk b, In pk (e_sent S) -> k_body pk = Some b ->
             In (k_ns pk, b) (stamped o 0 (e_sub S));
  di_sentR : forall pk, In pk (e_sent R) ->
             exists k, (k <= length (e_del R))%nat /\ k_nr pk = u16 (o + Z.of_nat k);
  di_acked : forall i, In i (e_acked S) -> (i < length (e_del R))%nat;
  (* as long as S never declared dead, everything that left its queue was handed to R's machine *)
  di_base : e_dead S = 0%nat ->
            (length (e_sub S) - length (c_q (e_ch S)) <= length (e_del R))%nat }.

Ltac ep_simpl := cbn [e_f e_ch e_sent e_sub e_del e_acked e_dead e_wmax] in *.

(* ---- submit ---- *)
Lemma submit_sender o S R body sid now fj S' ob :
  dir_inv o S R -> ep_submit S body sid now fj = (S', ob) -> dir_inv o S' R.
Proof.
  intros [Hns [pre Hq] Hnr [rest Hp] HsS HsR Hack Hbase] H. unfold ep_submit in H.
  destruct (send_session (e_f S) (e_ch S) body sid now fj) as [[c' o'] er] eqn:E.
  inversion H; subst; clear H.
  apply send_session_spec in E. destruct E as (A & B & _ & _ & K & Em & _).
  assert (Hst : stamped o 0 (e_sub S ++ [body]) = pre ++ map key (c_q c')).
  { rewrite stamped_app, Hq, K, app_assoc. simpl. rewrite Hns. reflexivity. }
  constructor; ep_simpl.
  - rewrite A, Hns, u16_succ, app_length. simpl. f_equal. lia.
  - exists pre. exact Hst.
  - exact Hnr.
  - exists (rest ++ [body]). rewrite Hp, app_assoc. reflexivity.
  - intros pk b Hin Hb. apply in_app_or in Hin as [Hin|Hin].
    + rewrite stamped_app. apply in_or_app; left. eauto.
    + rewrite Hst, K. apply in_or_app; right. destruct (Em pk Hin) as [_ Y]. auto.
  - exact HsR.
  - exact Hack.
  - intros Hd. specialize (Hbase Hd).
    assert (length (c_q c') = (length (c_q (e_ch S)) + 1)%nat).
    { rewrite <- (map_length key), K, app_length, map_length. simpl. lia. }
    rewrite app_length. simpl. lia.
Qed.

Lemma submit_receiver o S R body sid now fj R' ob :
  dir_inv o S R -> ep_submit R body sid now fj = (R', ob) -> dir_inv o S R'.
Proof.
  intros [Hns Hq Hnr Hp HsS HsR Hack Hbase] H. unfold ep_submit in H.
  destruct (send_session (e_f R) (e_ch R) body sid now fj) as [[c' o'] er] eqn:E.
  inversion H; subst; clear H.
  apply send_session_spec in E. destruct E as (_ & B & _ & _ & _ & Em & _).
  constructor; ep_simpl; auto.
  - rewrite B; exact Hnr.
  - intros pk Hin. apply in_app_or in Hin as [Hin|Hin]; [auto|].
    destruct (Em pk Hin) as [X _]. exists (length (e_del R)). split; [lia|]. rewrite X; exact Hnr.
Qed.

(* ---- tick ---- *)
Lemma keep_ok_in drops : forall o i pk, In pk (keep_ok drops i o) -> In pk o.
Proof.
  induction o as [|p r IH]; intros i pk H; simpl in *; [exact H|].
  destruct (existsb (Nat.eqb i) drops); [right; eauto|]. destruct H as [<-|H]; [left; reflexivity|right; eauto].
Qed.

Lemma tick_sender o S R now drops S' ob :
  dir_inv o S R -> ep_tick S now drops = (S', ob) -> dir_inv o S' R.
Proof.
  intros [Hns [pre Hq] Hnr Hp HsS HsR Hack Hbase] H. unfold ep_tick in H.
  destruct (tick (e_f S) (e_ch S) now) as [[[c' o'] d] ret] eqn:E.
  inversion H; subst; clear H.
  apply tick_spec in E. destruct E as (A & B & _ & K & Em & _ & _ & _ & _ & _ & Kf).
  constructor; ep_simpl; auto.
  - rewrite A; exact Hns.
  - destruct K as [K|K].
    + exists pre. rewrite K. exact Hq.
    + exists (stamped o 0 (e_sub S)). rewrite K. simpl. rewrite app_nil_r. reflexivity.
  - intros pk b Hin Hb. apply in_app_or in Hin as [Hin|Hin]; [eauto|]. apply keep_ok_in in Hin.
    rewrite Hq. apply in_or_app; right. destruct (Em pk Hin) as [_ Y]. auto.
  - destruct d; [discriminate|]. intros Hd. specialize (Hbase Hd).
    assert (length (c_q c') = length (c_q (e_ch S))).
    { rewrite <- (map_length key), (Kf eq_refl), map_length. reflexivity. }
    lia.
Qed.

Lemma tick_receiver o S R now drops R' ob :
  dir_inv o S R -> ep_tick R now drops = (R', ob) -> dir_inv o S R'.
Proof.
  intros [Hns Hq Hnr Hp HsS HsR Hack Hbase] H. unfold ep_tick in H.
  destruct (tick (e_f R) (e_ch R) now) as [[[c' o'] d] ret] eqn:E.
  inversion H; subst; clear H.
  apply tick_spec in E. destruct E as (_ & B & _ & _ & Em & _).
  constructor; ep_simpl; auto.
  - rewrite B; exact Hnr.
  - intros pk Hin. apply in_app_or in Hin as [Hin|Hin]; [auto|]. apply keep_ok_in in Hin.
    destruct (Em pk Hin) as [X _]. exists (length (e_del R)). split; [lia|]. rewrite X; exact Hnr.
Qed.

(* ---- set window ---- *)
Lemma setwin_sender o S R rws S' ob :
  dir_inv o S R -> ep_setwin S rws = (S', ob) -> dir_inv o S' R.
Proof.
  intros [Hns Hq Hnr Hp HsS HsR Hack Hbase] H. unfold ep_setwin in H. inversion H; subst; clear H.
  constructor; ep_simpl; auto.
Qed.

Lemma setwin_receiver o S R rws R' ob :
  dir_inv o S R -> ep_setwin R rws = (R', ob) -> dir_inv o S R'.
Proof.
  intros [Hns Hq Hnr Hp HsS HsR Hack Hbase] H. unfold ep_setwin in H. inversion H; subst; clear H.
  constructor; ep_simpl; auto.
Qed.

(* ---- deliver (repaired dispatch rule) ---- *)
(* what the repaired dispatch does to a channel, for data and ZLB alike *)
Lemma dispatch_repaired_spec f c p now fj rc c' o e h : dispatch false f c p now fj rc = (c', o, e, h) ->
  c_ns c' = c_ns c /\
  (exists popped rest, c_q c = popped ++ rest /\ map key (c_q c') = map key rest /\
     (forall x, In x popped -> seq_less (p_ns x) (k_nr p) = true)) /\
  emits_ok (c_nr c) (c_q c) o /\
  match k_body p with
  | Some _ => h = (k_ns p =? c_nr c) /\ c_nr c' = (if h then u16 (c_nr c + 1) else c_nr c)
  | None => h = false /\ c_nr c' = c_nr c
  end.
Proof.
  unfold dispatch. destruct (k_body p) as [b|].
  - intros H. apply recv_spec in H. destruct H as (Hh & A & B & _ & Q & Em & _). splits; auto.
  - destruct (ack_through f c (k_nr p) now fj (r_ig rc)) as [[c1 o1] e1] eqn:E. intros H; inversion H; subst; clear H.
    apply ack_through_spec in E. destruct E as (A & B & _ & Q & Em & _). splits; auto.
Qed.

Lemma deliver_sender o S R pk now fj rc S' ob :
  dir_inv o S R -> In pk (e_sent R) -> Z.of_nat (length (e_sub S)) < 32768 ->
  ep_deliver false S pk now fj rc = (S', ob) -> dir_inv o S' R.
Proof.
  intros [Hns [pre Hq] Hnr [rest Hp] HsS HsR Hack Hbase] Hpk Hb H. unfold ep_deliver in H.
  destruct (dispatch false (e_f S) (e_ch S) pk now fj rc) as [[[c' o'] er] h] eqn:E.
  inversion H; subst; clear H.
  apply dispatch_repaired_spec in E. destruct E as (A & (popped & rst & Q1 & Q2 & Q3) & Em & _).
  assert (Hl : length (c_q c') = length rst).
  { rewrite <- (map_length key), Q2, map_length; reflexivity. }
  assert (Hlq : length (c_q (e_ch S)) = (length popped + length rst)%nat).
  { rewrite Q1, app_length; reflexivity. }
  assert (Hlp : length (e_sub S) = (length pre + length (c_q (e_ch S)))%nat).
  { rewrite <- (stamped_length o (e_sub S) 0), Hq, app_length, map_length; reflexivity. }
  (* every index popped by this acknowledgement had been handed over *)
  assert (Hnew : forall i, (length pre <= i < length pre + length popped)%nat -> (i < length (e_del R))%nat).
  { intros i Hi.
    set (j := (i - length pre)%nat).
    assert (Hj : (j < length popped)%nat) by (unfold j; lia).
    destruct (nth_error popped j) as [x|] eqn:Ex; [|apply nth_error_None in Ex; lia].
    assert (Hst : nth_error (stamped o 0 (e_sub S)) (length pre + j) = Some (key x)).
    { rewrite Hq, nth_error_app2 by lia. replace (length pre + j - length pre)%nat with j by lia.
      rewrite Q1, map_app, nth_error_app1 by (rewrite map_length; lia).
      rewrite nth_error_map, Ex. reflexivity. }
    apply stamped_nth in Hst. destruct Hst as [Hfst _]. cbn [key fst] in Hfst.
    pose proof (Q3 x (nth_error_In _ _ Ex)) as Hless.
    destruct (HsR pk Hpk) as (k & Hk & Hknr).
    assert (Hdel : (length (e_del R) <= length (e_sub S))%nat).
    { rewrite Hp, app_length; lia. }
    rewrite Hfst, Hknr, seq_less_window in Hless by lia.
    unfold j in *. lia. }
  constructor; ep_simpl; auto.
  - rewrite A; exact Hns.
  - exists (pre ++ map key popped). rewrite Hq, Q1, map_app, Q2, app_assoc. reflexivity.
  - exists rest; exact Hp.
  - intros p b Hin Hbody. apply in_app_or in Hin as [Hin|Hin]; [eauto|].
    rewrite Hq. apply in_or_app; right. destruct (Em p Hin) as [_ Y]. auto.
  - intros i Hin. apply in_app_or in Hin as [Hin|Hin]; [auto|].
    unfold acked_range in Hin. apply in_seq in Hin. apply Hnew. lia.
  - intros Hd. specialize (Hbase Hd).
    destruct popped as [|x0 pp]; [simpl in *; lia|].
    assert ((length pre + length (x0 :: pp) - 1 < length (e_del R))%nat) by (apply Hnew; simpl; lia).
    simpl in *. lia.
Qed.

Lemma deliver_receiver o S R pk now fj rc R' ob :
  dir_inv o S R -> In pk (e_sent S) -> Z.of_nat (length (e_sub S)) < 32768 ->
  ep_deliver false R pk now fj rc = (R', ob) -> dir_inv o S R'.
Proof.
  intros [Hns Hq Hnr [rest Hp] HsS HsR Hack Hbase] Hpk Hb H. unfold ep_deliver in H.
  destruct (dispatch false (e_f R) (e_ch R) pk now fj rc) as [[[c' o'] er] h] eqn:E.
  inversion H; subst; clear H.
  apply dispatch_repaired_spec in E. destruct E as (_ & _ & Em & Hbody).
  assert (Hdel : (length (e_del R) <= length (e_sub S))%nat).
  { rewrite Hp, app_length; lia. }
  (* the new delivery log, its length, and the prefix property *)
  set (del' := match k_body pk with
               | Some b => if h then e_del R ++ [b] else e_del R
               | None => e_del R end).
  assert (Hnew : c_nr c' = u16 (o + Z.of_nat (length del')) /\
                 (exists rest', e_sub S = del' ++ rest') /\
                 (length (e_del R) <= length del')%nat).
  { unfold del'. destruct (k_body pk) as [b|] eqn:Eb.
    - destruct Hbody as [Hh Hc]. destruct h.
      + symmetry in Hh. apply Z.eqb_eq in Hh.
        pose proof (HsS pk b Hpk Eb) as Hin. apply stamped_in in Hin.
        destruct Hin as (j & Hj & Hfst & Hnth). cbn [fst snd] in Hfst, Hnth.
        rewrite Hh, Hnr in Hfst. apply u16_inj_window in Hfst; [|lia|lia].
        assert (j = length (e_del R)) by lia. subst j.
        rewrite Hp, nth_error_app2, Nat.sub_diag in Hnth by lia.
        destruct rest as [|b' rest']; simpl in Hnth; [discriminate|]. inversion Hnth; subst b'.
        splits.
        * rewrite Hc, Hnr, u16_succ, app_length. simpl. f_equal. lia.
        * exists rest'. rewrite Hp, <- app_assoc. reflexivity.
        * rewrite app_length; lia.
      + splits; [rewrite Hc; exact Hnr | exists rest; exact Hp | lia].
    - destruct Hbody as [_ Hc]. splits; [rewrite Hc; exact Hnr | exists rest; exact Hp | lia]. }
  destruct Hnew as (N1 & N2 & N3).
  constructor; ep_simpl; auto.
  - intros p Hin. apply in_app_or in Hin as [Hin|Hin].
    + destruct (HsR p Hin) as (k & Hk & Hknr). exists k. split; [lia|exact Hknr].
    + destruct (Em p Hin) as [X _]. exists (length (e_del R)). split; [lia|].
      rewrite X; exact Hnr.
  - intros i Hin. specialize (Hack i Hin). lia.
  - intros Hd. specialize (Hbase Hd). lia.
Qed.

(* ---- packet lifetime instead of a bound on the history ----
   A packet's Ns / Nr denotes a submission index only modulo 2^16.  "Fresh" = among the indices it can denote there is
   one that is less than 2^15 away from where the receiving side currently is:
   data: a submission j of the sender with that Ns and that body, less than 2^15 away from the receiver's next expected
         index;
   acknowledgement: a k <= what the acknowledging side has been handed, with that Nr, less than 2^15 away from every
         message still in the acknowledged side's queue.
   With fewer than 2^15 submissions every packet the peer wrote is fresh (bounded_is_fresh); in general this says that no
   packet older than 2^15 submissions is still in the network and fewer than 2^15 messages are queued. *)
Definition fresh_data (o : Z) (S R : endpoint) (pk : pkt) : Prop :=
  forall b, k_body pk = Some b ->
  exists j, (j < length (e_sub S))%nat /\ k_ns pk = u16 (o + Z.of_nat j) /\ nth_error (e_sub S) j = Some b /\
            -32768 < Z.of_nat j - Z.of_nat (length (e_del R)) < 32768.
Definition fresh_ack (o : Z) (S R : endpoint) (pk : pkt) : Prop :=
  exists k, (k <= length (e_del R))%nat /\ k_nr pk = u16 (o + Z.of_nat k) /\
    forall h, (length (e_sub S) - length (c_q (e_ch S)) <= h < length (e_sub S))%nat ->
              -32768 < Z.of_nat h - Z.of_nat k < 32768.

Lemma seq_less_near o h k : -32768 < h - k < 32768 -> seq_less (u16 (o + h)) (u16 (o + k)) = (h <? k).
Proof. intros H. rewrite seq_less_arith. unfold u16. lia. Qed.

Lemma u16_inj_near o i k : -65536 < i - k < 65536 -> u16 (o + i) = u16 (o + k) -> i = k.
Proof. unfold u16. lia. Qed.

Lemma deliver_sender_fresh o S R pk now fj rc S' ob :
  dir_inv o S R -> In pk (e_sent R) -> fresh_ack o S R pk ->
  ep_deliver false S pk now fj rc = (S', ob) -> dir_inv o S' R.
Proof.
  intros [Hns [pre Hq] Hnr [rest Hp] HsS HsR Hack Hbase] Hpk Hb H. unfold ep_deliver in H.
  destruct (dispatch false (e_f S) (e_ch S) pk now fj rc) as [[[c' o'] er] h] eqn:E.
  inversion H; subst; clear H.
  apply dispatch_repaired_spec in E. destruct E as (A & (popped & rst & Q1 & Q2 & Q3) & Em & _).
  assert (Hl : length (c_q c') = length rst).
  { rewrite <- (map_length key), Q2, map_length; reflexivity. }
  assert (Hlq : length (c_q (e_ch S)) = (length popped + length rst)%nat).
  { rewrite Q1, app_length; reflexivity. }
  assert (Hlp : length (e_sub S) = (length pre + length (c_q (e_ch S)))%nat).
  { rewrite <- (stamped_length o (e_sub S) 0), Hq, app_length, map_length; reflexivity. }
  (* every index popped by this acknowledgement had been handed over *)
  assert (Hnew : forall i, (length pre <= i < length pre + length popped)%nat -> (i < length (e_del R))%nat).
  { intros i Hi.
    set (j := (i - length pre)%nat).
    assert (Hj : (j < length popped)%nat) by (unfold j; lia).
    destruct (nth_error popped j) as [x|] eqn:Ex; [|apply nth_error_None in Ex; lia].
    assert (Hst : nth_error (stamped o 0 (e_sub S)) (length pre + j) = Some (key x)).
    { rewrite Hq, nth_error_app2 by lia. replace (length pre + j - length pre)%nat with j by lia.
      rewrite Q1, map_app, nth_error_app1 by (rewrite map_length; lia).
      rewrite nth_error_map, Ex. reflexivity. }
    apply stamped_nth in Hst. destruct Hst as [Hfst _]. cbn [key fst] in Hfst.
    pose proof (Q3 x (nth_error_In _ _ Ex)) as Hless.
    destruct Hb as (k & Hk & Hknr & Hb).
    assert (Hdel : (length (e_del R) <= length (e_sub S))%nat).
    { rewrite Hp, app_length; lia. }
    assert (Hnear : -32768 < Z.of_nat (length pre + j) - Z.of_nat k < 32768).
    { apply (Hb (length pre + j)%nat). lia. }
    replace (Z.of_nat (0 + (length pre + j))) with (Z.of_nat (length pre + j)) in Hfst by (f_equal; lia).
    rewrite Hfst, Hknr, seq_less_near in Hless by exact Hnear.
    unfold j in *. lia. }
  constructor; ep_simpl; auto.
  - rewrite A; exact Hns.
  - exists (pre ++ map key popped). rewrite Hq, Q1, map_app, Q2, app_assoc. reflexivity.
  - exists rest; exact Hp.
  - intros p b Hin Hbody. apply in_app_or in Hin as [Hin|Hin]; [eauto|].
    rewrite Hq. apply in_or_app; right. destruct (Em p Hin) as [_ Y]. auto.
  - intros i Hin. apply in_app_or in Hin as [Hin|Hin]; [auto|].
    unfold acked_range in Hin. apply in_seq in Hin. apply Hnew. lia.
  - intros Hd. specialize (Hbase Hd).
    destruct popped as [|x0 pp]; [simpl in *; lia|].
    assert ((length pre + length (x0 :: pp) - 1 < length (e_del R))%nat) by (apply Hnew; simpl; lia).
    simpl in *. lia.
Qed.

Lemma deliver_receiver_fresh o S R pk now fj rc R' ob :
  dir_inv o S R -> In pk (e_sent S) -> fresh_data o S R pk ->
  ep_deliver false R pk now fj rc = (R', ob) -> dir_inv o S R'.
Proof.
  intros [Hns Hq Hnr [rest Hp] HsS HsR Hack Hbase] Hpk Hb H. unfold ep_deliver in H.
  destruct (dispatch false (e_f R) (e_ch R) pk now fj rc) as [[[c' o'] er] h] eqn:E.
  inversion H; subst; clear H.
  apply dispatch_repaired_spec in E. destruct E as (_ & _ & Em & Hbody).
  assert (Hdel : (length (e_del R) <= length (e_sub S))%nat).
  { rewrite Hp, app_length; lia. }
  (* the new delivery log, its length, and the prefix property *)
  set (del' := match k_body pk with
               | Some b => if h then e_del R ++ [b] else e_del R
               | None => e_del R end).
  assert (Hnew : c_nr c' = u16 (o + Z.of_nat (length del')) /\
                 (exists rest', e_sub S = del' ++ rest') /\
                 (length (e_del R) <= length del')%nat).
  { unfold del'. destruct (k_body pk) as [b|] eqn:Eb.
    - destruct Hbody as [Hh Hc]. destruct h.
      + symmetry in Hh. apply Z.eqb_eq in Hh.
        destruct (Hb b Eb) as (j & Hj & Hfst & Hnth & Hnear).
        rewrite Hh, Hnr in Hfst. symmetry in Hfst. apply u16_inj_near in Hfst; [|lia].
        assert (j = length (e_del R)) by lia. subst j.
        rewrite Hp, nth_error_app2, Nat.sub_diag in Hnth by lia.
        destruct rest as [|b' rest']; simpl in Hnth; [discriminate|]. inversion Hnth; subst b'.
        splits.
        * rewrite Hc, Hnr, u16_succ, app_length. simpl. f_equal. lia.
        * exists rest'. rewrite Hp, <- app_assoc. reflexivity.
        * rewrite app_length; lia.
      + splits; [rewrite Hc; exact Hnr | exists rest; exact Hp | lia].
    - destruct Hbody as [_ Hc]. splits; [rewrite Hc; exact Hnr | exists rest; exact Hp | lia]. }
  destruct Hnew as (N1 & N2 & N3).
  constructor; ep_simpl; auto.
  - intros p Hin. apply in_app_or in Hin as [Hin|Hin].
    + destruct (HsR p Hin) as (k & Hk & Hknr). exists k. split; [lia|exact Hknr].
    + destruct (Em p Hin) as [X _]. exists (length (e_del R)). split; [lia|].
      rewrite X; exact Hnr.
  - intros i Hin. specialize (Hack i Hin). lia.
  - intros Hd. specialize (Hbase Hd). lia.
Qed.

(* ---- the pair ---- *)
Definition sys_inv (oa ob : Z) (s : sys) : Prop :=
  dir_inv oa (s_a s) (s_b s) /\ dir_inv ob (s_b s) (s_a s).
Definition bounded (s : sys) : Prop :=
  Z.of_nat (length (e_sub (s_a s))) < 32768 /\ Z.of_nat (length (e_sub (s_b s))) < 32768.

Lemma ep_submit_sub e body sid now fj : e_sub (fst (ep_submit e body sid now fj)) = e_sub e ++ [body].
Proof. unfold ep_submit. destruct (send_session _ _ _ _ _ _) as [[? ?] ?]; reflexivity. Qed.
Lemma ep_deliver_sub z e p now fj rc : e_sub (fst (ep_deliver z e p now fj rc)) = e_sub e.
Proof. unfold ep_deliver. destruct (dispatch _ _ _ _ _ _ _) as [[[? ?] ?] ?]; reflexivity. Qed.
Lemma ep_tick_sub e now drops : e_sub (fst (ep_tick e now drops)) = e_sub e.
Proof. unfold ep_tick. destruct (tick _ _ _) as [[[? ?] ?] ?]; reflexivity. Qed.
Lemma ep_setwin_sub e w : e_sub (fst (ep_setwin e w)) = e_sub e.
Proof. reflexivity. Qed.

Lemma ep_set_same s x e : ep (set_ep s x e) x = e.
Proof. destruct x; reflexivity. Qed.
Lemma ep_set_other s x e : ep (set_ep s x e) (peer x) = ep s (peer x).
Proof. destruct x; reflexivity. Qed.

Lemma step_sub_mono z s ev y :
  (length (e_sub (ep s y)) <= length (e_sub (ep (fst (step z s ev)) y)))%nat.
Proof.
  assert (G : forall x e, (length (e_sub (ep s x)) <= length (e_sub e))%nat ->
              (length (e_sub (ep s y)) <= length (e_sub (ep (set_ep s x e) y)))%nat).
  { intros x e H. destruct x, y; simpl in *; auto. }
  destruct ev as [x body sid now fj rf|x idx now fj rc|x p now fj rc|x now drops|x w]; unfold step.
  - destruct (rf && (0 <? e_dead (ep s x))%nat); [simpl; lia|].
    pose proof (ep_submit_sub (ep s x) body sid now fj) as E.
    destruct (ep_submit (ep s x) body sid now fj) as [e ob]. simpl in *. apply G. rewrite E, app_length. lia.
  - destruct (nth_error _ idx) as [p|]; [|simpl; lia].
    pose proof (ep_deliver_sub z (ep s x) p now fj rc) as E.
    destruct (ep_deliver z (ep s x) p now fj rc) as [e ob]. simpl in *. apply G. rewrite E. lia.
  - pose proof (ep_deliver_sub z (ep s x) p now fj rc) as E.
    destruct (ep_deliver z (ep s x) p now fj rc) as [e ob]. simpl in *. apply G. rewrite E. lia.
  - pose proof (ep_tick_sub (ep s x) now drops) as E.
    destruct (ep_tick (ep s x) now drops) as [e ob]. simpl in *. apply G. rewrite E. lia.
  - simpl. apply G. simpl. lia.
Qed.

Lemma run_sub_mono z : forall evs s y,
  (length (e_sub (ep s y)) <= length (e_sub (ep (run z s evs) y)))%nat.
Proof.
  induction evs as [|ev r IH]; intros s y; simpl; [lia|].
  etransitivity; [apply (step_sub_mono z s ev y)|apply IH].
Qed.

Lemma step_inv oa ob s ev :
  sys_inv oa ob s -> is_inject ev = false -> bounded s -> sys_inv oa ob (fst (step false s ev)).
Proof.
  intros [IA IB] Hh [BA BB].
  destruct ev as [x body sid now fj rf|x idx now fj rc|x p now fj rc|x now drops|x w]; try discriminate; unfold step.
  - destruct (rf && (0 <? e_dead (ep s x))%nat); [split; assumption|].
    destruct (ep_submit (ep s x) body sid now fj) as [e ob'] eqn:E. destruct x; simpl in *; split;
      eauto using submit_sender, submit_receiver.
  - destruct (nth_error (e_sent (ep s (peer x))) idx) as [p|] eqn:En; [|split; assumption].
    apply nth_error_In in En.
    destruct (ep_deliver false (ep s x) p now fj rc) as [e ob'] eqn:E. destruct x; simpl in *; split;
      eauto using deliver_sender, deliver_receiver.
  - destruct (ep_tick (ep s x) now drops) as [e ob'] eqn:E. destruct x; simpl in *; split;
      eauto using tick_sender, tick_receiver.
  - destruct (ep_setwin (ep s x) w) as [e ob'] eqn:E. destruct x; simpl in *; split;
      eauto using setwin_sender, setwin_receiver.
Qed.

Lemma run_inv oa ob : forall evs s,
  sys_inv oa ob s -> honest evs = true -> bounded (run false s evs) -> sys_inv oa ob (run false s evs).
Proof.
  induction evs as [|ev r IH]; intros s Hi Hh Hb; simpl in *; [exact Hi|].
  apply andb_true_iff in Hh as [H1 H2]. apply negb_true_iff in H1.
  apply IH; auto. apply step_inv; auto.
  destruct Hb as [BA BB]. split.
  - pose proof (run_sub_mono false r (fst (step false s ev)) SA).
    pose proof (step_sub_mono false s ev SA). simpl in *. lia.
  - pose proof (run_sub_mono false r (fst (step false s ev)) SB).
    pose proof (step_sub_mono false s ev SB). simpl in *. lia.
Qed.

Lemma u16_idem z : u16 (u16 z) = u16 z.
Proof. unfold u16. lia. Qed.

Lemma init_inv ai am ar az aw bi bm br bz bw oa ob :
  sys_inv oa ob (init_sys (ai, am, ar, az, aw) (bi, bm, br, bz, bw) oa ob).
Proof.
  unfold init_sys, new_endpoint, sys_inv. cbn [s_a s_b].
  split; constructor; ep_simpl; cbn [with_origin new_chan c_ns c_nr c_q length Z.of_nat stamped map];
    rewrite ?Z.add_0_r; auto; try (intros ? []); try (intros ? ? []).
  all: try (exists []; reflexivity).
Qed.

(* For every execution of the pair under the repaired dispatch rule — any interleaving of submissions,
   deliveries of any packet the peer ever sent (any number of times, in any order, or never), ticks at
   any times and window changes — from any two origins, as long as fewer than 2^15 messages were
   submitted per direction:
     the messages handed to each protocol machine are a prefix of the peer's submissions, and
     every message a sender removed from its queue on an acknowledgement was handed over. *)
Lemma exactly_once_in_order ai am ar az aw bi bm br bz bw oa ob evs :
  honest evs = true ->
  let s := run false (init_sys (ai, am, ar, az, aw) (bi, bm, br, bz, bw) oa ob) evs in
  Z.of_nat (length (e_sub (s_a s))) < 32768 -> Z.of_nat (length (e_sub (s_b s))) < 32768 ->
  (exists rest, e_sub (s_a s) = e_del (s_b s) ++ rest) /\
  (exists rest, e_sub (s_b s) = e_del (s_a s) ++ rest) /\
  (forall i, In i (e_acked (s_a s)) -> (i < length (e_del (s_b s)))%nat) /\
  (forall i, In i (e_acked (s_b s)) -> (i < length (e_del (s_a s)))%nat).
Proof.
  intros Hh s BA BB.
  assert (I : sys_inv oa ob s).
  { apply run_inv; [apply init_inv|exact Hh|split; assumption]. }
  destruct I as [IA IB]. splits.
  - apply (di_prefix _ _ _ IA).
  - apply (di_prefix _ _ _ IB).
  - apply (di_acked _ _ _ IA).
  - apply (di_acked _ _ _ IB).
Qed.

(* ================= window and retransmission bounds: every endpoint, any input ================= *)
Record ep_ok (e : endpoint) : Prop := {
  ok_maxr : 1 <= f_maxr (e_f e);
  ok_w : 1 <= e_wmax e;
  ok_cwnd : c_cwnd (e_ch e) <= e_wmax e;
  ok_pw : c_pw (e_ch e) <= e_wmax e;
  ok_infl : count_inflight (c_q (e_ch e)) <= e_wmax e;
  ok_att : att_ok (f_maxr (e_f e)) (c_q (e_ch e)) }.

Lemma submit_ok e body sid now fj : ep_ok e -> ep_ok (fst (ep_submit e body sid now fj)).
Proof.
  intros [M W C P I A]. unfold ep_submit.
  destruct (send_session (e_f e) (e_ch e) body sid now fj) as [[c' o] er] eqn:E. simpl.
  apply send_session_spec in E. destruct E as (_ & _ & Pw & Cw & _ & _ & Cn & At & _).
  constructor; ep_simpl; auto; try lia.
Qed.

Lemma deliver_ok z e p now fj rc : ep_ok e -> ep_ok (fst (ep_deliver z e p now fj rc)).
Proof.
  intros [M W C P I A]. unfold ep_deliver.
  destruct (dispatch z (e_f e) (e_ch e) p now fj rc) as [[[c' o] er] h] eqn:E. simpl.
  assert (G : c_pw c' = c_pw (e_ch e) /\
              (c_cwnd c' = c_cwnd (e_ch e) \/ c_cwnd c' <= c_pw (e_ch e)) /\
              count_inflight (c_q c') <= Z.max (count_inflight (c_q (e_ch e))) (c_cwnd c') /\
              (forall maxr, 1 <= maxr -> att_ok maxr (c_q (e_ch e)) -> att_ok maxr (c_q c'))).
  { unfold dispatch in E. destruct (k_body p); [|destruct z].
    - apply recv_spec in E. destruct E as (_ & _ & _ & Pw & _ & _ & Cw & Cn & At & _). auto.
    - destruct (recv (e_f e) (e_ch e) (k_ns p) (k_nr p) now fj rc) as [[[c1 o1] e1] h1] eqn:E1.
      inversion E; subst. apply recv_spec in E1.
      destruct E1 as (_ & _ & _ & Pw & _ & _ & Cw & Cn & At & _). auto.
    - destruct (ack_through (e_f e) (e_ch e) (k_nr p) now fj (r_ig rc)) as [[c1 o1] e1] eqn:E1.
      inversion E; subst. apply ack_through_spec in E1.
      destruct E1 as (_ & _ & Pw & _ & _ & Cw & Cn & At & _). auto. }
  destruct G as (Pw & Cw & Cn & At).
  constructor; ep_simpl; auto; try lia.
Qed.

Lemma tick_ok e now drops : ep_ok e -> ep_ok (fst (ep_tick e now drops)).
Proof.
  intros [M W C P I A]. unfold ep_tick.
  destruct (tick (e_f e) (e_ch e) now) as [[[c' o] d] ret] eqn:E. simpl.
  apply tick_spec in E. destruct E as (_ & _ & Pw & _ & _ & Cw & Cn & At & _).
  constructor; ep_simpl; auto; try lia.
Qed.

Lemma setwin_ok e w : ep_ok e -> ep_ok (fst (ep_setwin e w)).
Proof.
  intros [M W C P I A]. unfold ep_setwin. cbn [fst].
  destruct (set_peer_window_spec (e_ch e) w) as (_ & _ & Q & _ & Cw & Pw & _).
  constructor; ep_simpl; auto; try lia.
  rewrite Q. lia.
Qed.

Definition sys_ok (s : sys) : Prop := ep_ok (s_a s) /\ ep_ok (s_b s).

Lemma step_ok z s ev : sys_ok s -> sys_ok (fst (step z s ev)).
Proof.
  intros [A B].
  assert (G : forall x e, ep_ok e -> sys_ok (set_ep s x e)).
  { intros x e H. destruct x; split; simpl; auto. }
  assert (Hx : forall x, ep_ok (ep s x)) by (intros []; assumption).
  destruct ev as [x body sid now fj rf|x idx now fj rc|x p now fj rc|x now drops|x w]; unfold step.
  - destruct (rf && (0 <? e_dead (ep s x))%nat); [split; assumption|].
    pose proof (submit_ok _ body sid now fj (Hx x)).
    destruct (ep_submit (ep s x) body sid now fj); simpl in *; auto.
  - destruct (nth_error _ idx) as [p|]; [|split; assumption].
    pose proof (deliver_ok z _ p now fj rc (Hx x)).
    destruct (ep_deliver z (ep s x) p now fj rc); simpl in *; auto.
  - pose proof (deliver_ok z _ p now fj rc (Hx x)).
    destruct (ep_deliver z (ep s x) p now fj rc); simpl in *; auto.
  - pose proof (tick_ok _ now drops (Hx x)).
    destruct (ep_tick (ep s x) now drops); simpl in *; auto.
  - pose proof (setwin_ok _ w (Hx x)). simpl in *; auto.
Qed.

Lemma run_ok z : forall evs s, sys_ok s -> sys_ok (run z s evs).
Proof. induction evs as [|ev r IH]; intros s H; simpl; auto using step_ok. Qed.

Lemma init_ok ai am ar az aw bi bm br bz bw oa ob :
  1 <= dflt ar 5 -> 1 <= dflt aw 4 -> 1 <= dflt br 5 -> 1 <= dflt bw 4 ->
  sys_ok (init_sys (ai, am, ar, az, aw) (bi, bm, br, bz, bw) oa ob).
Proof.
  intros. unfold init_sys, new_endpoint, new_conf, new_chan, with_origin.
  split; constructor; ep_simpl; cbn [s_a s_b e_f e_ch e_wmax f_maxr c_cwnd c_pw c_q count_inflight];
    try lia; intros ? [].
Qed.

(* the sender never has more messages in flight than the largest window it was told;
   no queued message has been transmitted more than MaxRetries times.  Holds for both
   dispatch rules and for arbitrary (also forged) inbound packets. *)
Lemma window_and_retries z ai am ar az aw bi bm br bz bw oa ob evs :
  1 <= dflt ar 5 -> 1 <= dflt aw 4 -> 1 <= dflt br 5 -> 1 <= dflt bw 4 ->
  let s := run z (init_sys (ai, am, ar, az, aw) (bi, bm, br, bz, bw) oa ob) evs in
  forall x, count_inflight (c_q (e_ch (ep s x))) <= e_wmax (ep s x) /\
            (forall p, In p (c_q (e_ch (ep s x))) -> 0 <= p_att p <= f_maxr (e_f (ep s x))).
Proof.
  intros H1 H2 H3 H4 s x.
  assert (K : sys_ok s) by (apply run_ok, init_ok; assumption).
  destruct K as [A B]. destruct x; simpl; split; try apply ok_infl; try apply ok_att; assumption.
Qed.

(* e_wmax is the largest window ever advertised: without SetPeerWindow it is the configured one *)
Definition is_setwin (ev : event) : bool := match ev with SetWin _ _ => true | _ => false end.

Lemma step_wmax z s ev y : is_setwin ev = false -> e_wmax (ep (fst (step z s ev)) y) = e_wmax (ep s y).
Proof.
  intros H.
  assert (G : forall x e, e_wmax e = e_wmax (ep s x) -> e_wmax (ep (set_ep s x e) y) = e_wmax (ep s y)).
  { intros x e E. destruct x, y; simpl in *; auto. }
  destruct ev as [x body sid now fj rf|x idx now fj rc|x p now fj rc|x now drops|x w]; try discriminate; unfold step.
  - destruct (rf && (0 <? e_dead (ep s x))%nat); [reflexivity|].
    unfold ep_submit. destruct (send_session _ _ _ _ _ _) as [[? ?] ?]; simpl. apply G; reflexivity.
  - destruct (nth_error _ idx) as [p|]; [|reflexivity].
    unfold ep_deliver. destruct (dispatch _ _ _ _ _ _ _) as [[[? ?] ?] ?]; simpl. apply G; reflexivity.
  - unfold ep_deliver. destruct (dispatch _ _ _ _ _ _ _) as [[[? ?] ?] ?]; simpl. apply G; reflexivity.
  - unfold ep_tick. destruct (tick _ _ _) as [[[? ?] ?] ?]; simpl. apply G; reflexivity.
Qed.

Lemma run_wmax z : forall evs s y, forallb (fun e => negb (is_setwin e)) evs = true ->
  e_wmax (ep (run z s evs) y) = e_wmax (ep s y).
Proof.
  induction evs as [|ev r IH]; intros s y H; simpl in *; [reflexivity|].
  apply andb_true_iff in H as [H1 H2]. apply negb_true_iff in H1.
  rewrite IH by assumption. apply step_wmax; assumption.
Qed.

Lemma window_const z ai am ar az aw bi bm br bz bw oa ob evs :
  1 <= dflt ar 5 -> 1 <= dflt aw 4 -> 1 <= dflt br 5 -> 1 <= dflt bw 4 ->
  forallb (fun e => negb (is_setwin e)) evs = true ->
  let s := run z (init_sys (ai, am, ar, az, aw) (bi, bm, br, bz, bw) oa ob) evs in
  count_inflight (c_q (e_ch (s_a s))) <= dflt aw 4 /\
  count_inflight (c_q (e_ch (s_b s))) <= dflt bw 4.
Proof.
  intros H1 H2 H3 H4 Hw s.
  pose proof (window_and_retries z ai am ar az aw bi bm br bz bw oa ob evs H1 H2 H3 H4) as K.
  cbv zeta in K. fold s in K.
  pose proof (run_wmax z evs (init_sys (ai, am, ar, az, aw) (bi, bm, br, bz, bw) oa ob) SA Hw) as WA.
  pose proof (run_wmax z evs (init_sys (ai, am, ar, az, aw) (bi, bm, br, bz, bw) oa ob) SB Hw) as WB.
  fold s in WA, WB. destruct (K SA) as [KA _]. destruct (K SB) as [KB _]. simpl in *.
  rewrite WA in KA. rewrite WB in KB. split; assumption.
Qed.

(* ================= acknowledgements are owed until sent ================= *)
(* the Nr most recently told to the peer (d before anything was sent) *)
Fixpoint last_nr (d : Z) (l : list pkt) : Z :=
  match l with [] => d | p :: r => last_nr (k_nr p) r end.

Lemma last_nr_app d l1 l2 : last_nr d (l1 ++ l2) = last_nr (last_nr d l1) l2.
Proof. revert d; induction l1 as [|p r IH]; intros d; simpl; auto. Qed.

Lemma last_nr_const d v l : l <> [] -> (forall p, In p l -> k_nr p = v) -> last_nr d l = v.
Proof.
  revert d; induction l as [|p r IH]; intros d Hn H; [congruence|]. simpl.
  destruct r as [|p' r']; [simpl; apply H; left; reflexivity|].
  apply IH; [discriminate|]. intros x Hx. apply H. right. exact Hx.
Qed.

(* either the peer has been told our current Nr, or the ZLB timer is armed *)
Definition ack_ok (nr0 : Z) (e : endpoint) : Prop :=
  c_nr (e_ch e) = last_nr nr0 (e_sent e) \/ c_zlb (e_ch e) <> None.

Lemma ack_ok_same nr0 e c' o :
  ack_ok nr0 e -> c_nr c' = c_nr (e_ch e) ->
  (forall p, In p o -> k_nr p = c_nr (e_ch e)) -> (o = [] -> c_zlb c' = c_zlb (e_ch e)) ->
  c_nr c' = last_nr nr0 (e_sent e ++ o) \/ c_zlb c' <> None.
Proof.
  intros H Hn Ho Hz. destruct o as [|p r].
  - rewrite app_nil_r, Hn, Hz by reflexivity. exact H.
  - left. rewrite last_nr_app, Hn. symmetry. apply last_nr_const; [discriminate|exact Ho].
Qed.

Lemma submit_ack nr0 e body sid now fj : ack_ok nr0 e -> ack_ok nr0 (fst (ep_submit e body sid now fj)).
Proof.
  intros H. unfold ep_submit.
  destruct (send_session (e_f e) (e_ch e) body sid now fj) as [[c' o] er] eqn:E. simpl.
  apply send_session_spec in E. destruct E as (_ & B & _ & _ & _ & Em & _ & _ & Z1 & _).
  unfold ack_ok; ep_simpl. apply ack_ok_same; auto. intros p Hp. apply (Em p Hp).
Qed.

Lemma deliver_ack z nr0 e p now fj rc : ack_ok nr0 e -> ack_ok nr0 (fst (ep_deliver z e p now fj rc)).
Proof.
  intros H. unfold ep_deliver.
  destruct (dispatch z (e_f e) (e_ch e) p now fj rc) as [[[c' o] er] h] eqn:E. simpl.
  unfold ack_ok; ep_simpl.
  assert (R : forall c1 o1 e1 h1, recv (e_f e) (e_ch e) (k_ns p) (k_nr p) now fj rc = (c1, o1, e1, h1) ->
              c_zlb c1 <> None).
  { intros c1 o1 e1 h1 E1. apply recv_spec in E1.
    destruct E1 as (_ & _ & _ & _ & _ & _ & _ & _ & _ & Zl). rewrite Zl; discriminate. }
  unfold dispatch in E. destruct (k_body p); [|destruct z].
  - right. eapply R; eauto.
  - destruct (recv (e_f e) (e_ch e) (k_ns p) (k_nr p) now fj rc) as [[[c1 o1] e1] h1] eqn:E1.
    inversion E; subst. right. eapply R; eauto.
  - destruct (ack_through (e_f e) (e_ch e) (k_nr p) now fj (r_ig rc)) as [[c1 o1] e1] eqn:E1.
    inversion E; subst. apply ack_through_spec in E1.
    destruct E1 as (_ & B & _ & _ & Em & _ & _ & _ & Z1 & _).
    apply ack_ok_same; auto. intros x Hx. apply (Em x Hx).
Qed.

Lemma keep_ok_nil : forall o i, keep_ok [] i o = o.
Proof. induction o as [|p r IH]; intros i; simpl; [reflexivity|]. rewrite IH; reflexivity. Qed.

(* a ZLB whose write fails inside Tick is forgotten by the channel (Tick ignores write errors and clears
   zlbDeadline): the invariant is about executions in which Tick's writes succeed *)
Lemma tick_ack nr0 e now : ack_ok nr0 e -> ack_ok nr0 (fst (ep_tick e now [])).
Proof.
  intros H. unfold ep_tick.
  destruct (tick (e_f e) (e_ch e) now) as [[[c' o] d] ret] eqn:E. simpl. rewrite keep_ok_nil.
  apply tick_spec in E. destruct E as (_ & B & _ & _ & Em & _ & _ & _ & Z1 & _).
  unfold ack_ok; ep_simpl. apply ack_ok_same; auto. intros x Hx. apply (Em x Hx).
Qed.

Lemma setwin_ack nr0 e w : ack_ok nr0 e -> ack_ok nr0 (fst (ep_setwin e w)).
Proof. intros H. exact H. Qed.

Definition tick_faultless (ev : event) : bool :=
  match ev with Tick _ _ (_ :: _) => false | _ => true end.

Lemma step_ack z na nb s ev :
  tick_faultless ev = true ->
  ack_ok na (s_a s) /\ ack_ok nb (s_b s) ->
  ack_ok na (s_a (fst (step z s ev))) /\ ack_ok nb (s_b (fst (step z s ev))).
Proof.
  intros Hf [A B].
  set (nrx := fun x => match x with SA => na | SB => nb end).
  assert (Hx : forall x, ack_ok (nrx x) (ep s x)) by (intros []; assumption).
  assert (G : forall x e, ack_ok (nrx x) e ->
              ack_ok na (s_a (set_ep s x e)) /\ ack_ok nb (s_b (set_ep s x e))).
  { intros x e H. destruct x; split; simpl; auto. }
  destruct ev as [x body sid now fj rf|x idx now fj rc|x p now fj rc|x now drops|x w]; unfold step.
  - destruct (rf && (0 <? e_dead (ep s x))%nat); [split; assumption|].
    pose proof (submit_ack _ _ body sid now fj (Hx x)).
    destruct (ep_submit (ep s x) body sid now fj); simpl in *; auto.
  - destruct (nth_error _ idx) as [p|]; [|split; assumption].
    pose proof (deliver_ack z _ _ p now fj rc (Hx x)).
    destruct (ep_deliver z (ep s x) p now fj rc); simpl in *; auto.
  - pose proof (deliver_ack z _ _ p now fj rc (Hx x)).
    destruct (ep_deliver z (ep s x) p now fj rc); simpl in *; auto.
  - destruct drops; [|discriminate]. pose proof (tick_ack _ _ now (Hx x)).
    destruct (ep_tick (ep s x) now []); simpl in *; auto.
  - pose proof (setwin_ack _ _ w (Hx x)). simpl in *; auto.
Qed.

(* after any execution: whenever an endpoint's Nr differs from the Nr it last sent to the peer
   (it has received something it has not acknowledged yet) its ZLB timer is armed *)
Lemma ack_owed z ai am ar az aw bi bm br bz bw oa ob evs :
  forallb tick_faultless evs = true ->
  let s := run z (init_sys (ai, am, ar, az, aw) (bi, bm, br, bz, bw) oa ob) evs in
  ack_ok (u16 ob) (s_a s) /\ ack_ok (u16 oa) (s_b s).
Proof.
  intros Hf. cbv zeta.
  assert (G : forall evs s, forallb tick_faultless evs = true ->
              ack_ok (u16 ob) (s_a s) /\ ack_ok (u16 oa) (s_b s) ->
              ack_ok (u16 ob) (s_a (run z s evs)) /\ ack_ok (u16 oa) (s_b (run z s evs))).
  { induction evs0 as [|ev r IH]; intros s Hfl H; simpl in *; auto.
    apply andb_true_iff in Hfl as [F1 F2]. apply IH; auto using step_ack. }
  apply G; [exact Hf|]. split; left; reflexivity.
Qed.

(* and an armed ZLB timer that has expired produces a packet carrying the current Nr at the next
   Tick (unless that Tick declares the tunnel dead) and disarms the timer *)
Lemma tick_sends_owed_ack f c now dl c' o ret :
  c_zlb c = Some dl -> dl <= now -> tick f c now = (c', o, false, ret) ->
  o <> [] /\ (forall p, In p o -> k_nr p = c_nr c) /\ c_zlb c' = None /\ c_nr c' = c_nr c.
Proof.
  intros Hz Hd H. pose proof (tick_spec _ _ _ _ _ _ _ H) as (_ & B & _ & _ & Em & _).
  unfold tick in H.
  destruct (tick_q f now (c_nr c) (c_cwnd c) (c_ssth c) (c_q c)) as [[[oq cw] ss] o1].
  destruct oq as [q'|]; [|inversion H].
  rewrite Hz in H. assert (Hf : negb (now <? dl) = true) by lia. rewrite Hf in H.
  inversion H; subst; clear H. cbn [c_zlb c_nr]. splits; auto.
  - intros E. apply app_eq_nil in E as [_ E]. discriminate.
  - intros p Hp. apply (Em p Hp).
Qed.

(* ================= dead after bounded retransmissions ================= *)
Definition expired_last (f : conf) (now : Z) (p : pending) : bool :=
  negb (p_att p =? 0) && negb (now <? p_dl p) && (f_maxr f <? p_att p + 1).

Lemma tick_q_dead f now nr : forall q cwnd ssth,
  fst (fst (fst (tick_q f now nr cwnd ssth q))) = None <-> existsb (expired_last f now) q = true.
Proof.
  induction q as [|p r IH]; intros cwnd ssth; simpl.
  - split; discriminate.
  - unfold expired_last at 1.
    destruct ((p_att p =? 0) || (now <? p_dl p)) eqn:Es.
    + specialize (IH cwnd ssth).
      destruct (tick_q f now nr cwnd ssth r) as [[[r' cw] ss] o]. simpl in *.
      assert (negb (p_att p =? 0) && negb (now <? p_dl p) = false) as ->
        by (destruct (p_att p =? 0), (now <? p_dl p); simpl in *; congruence).
      simpl. rewrite <- IH. destruct r'; simpl; split; congruence.
    + apply orb_false_iff in Es as [E1 E2]. rewrite E1, E2. simpl.
      destruct (f_maxr f <? p_att p + 1) eqn:Ed; simpl.
      * split; reflexivity.
      * match goal with |- context [tick_q f now nr 1 ?s r] => specialize (IH 1 s);
          destruct (tick_q f now nr 1 s r) as [[[r' cw] ss] o] end.
        simpl in *. rewrite <- IH. destruct r'; simpl; split; congruence.
Qed.

(* Tick fires the dead callback exactly when some in-flight message whose deadline has passed
   has already been transmitted MaxRetries times *)
Lemma tick_dead_iff f c now :
  snd (fst (tick f c now)) = true <-> existsb (expired_last f now) (c_q c) = true.
Proof.
  rewrite <- (tick_q_dead f now (c_nr c) (c_q c) (c_cwnd c) (c_ssth c)). unfold tick.
  destruct (tick_q f now (c_nr c) (c_cwnd c) (c_ssth c) (c_q c)) as [[[oq cw] ss] o].
  destruct oq; simpl; split; congruence.
Qed.

(* ================= historical: the dispatch rule before 96f9f16 violated exactly-once ================= *)
Definition witness : list event :=
  [ Submit SA 100 0 0 None false; Deliver SB 0 10 None head_choice; Tick SB 100 []; Deliver SA 0 110 None head_choice;
    Submit SB 200 0 120 None false; Deliver SA 1 130 None head_choice; Tick SA 400 []; Deliver SB 1 410 None head_choice ].
Definition witness_cfg : Z * Z * Z * Z * Z := (100, 400, 3, 50, 2).

Lemma pre_96f9f16_rule_loses_message :
  let s := run true (init_sys witness_cfg witness_cfg 0 0) witness in
  honest witness = true /\
  e_sub (s_b s) = [200] /\ e_del (s_a s) = [] /\ e_acked (s_b s) = [0%nat] /\
  c_q (e_ch (s_b s)) = [] /\ e_dead (s_b s) = 0%nat.
Proof. vm_compute. splits; reflexivity. Qed.

Lemma repaired_delivers_witness :
  let s := run false (init_sys witness_cfg witness_cfg 0 0) witness in
  e_del (s_a s) = [200] /\ e_del (s_b s) = [100] /\ e_acked (s_b s) = [0%nat] /\ e_acked (s_a s) = [0%nat].
Proof. vm_compute. splits; reflexivity. Qed.

(* a run across the 16-bit wrap with a lost packet, a retransmission and a duplicate delivery *)
Definition wrap_run : list event :=
  [ Submit SA 100 0 0 None false; Submit SA 101 0 5 None false;          (* Ns 65535 and 0; window 1: only the first goes out *)
    Tick SA 150 [];                                   (* first copy "lost": retransmit *)
    Deliver SB 1 160 None head_choice; Deliver SB 1 165 None head_choice;            (* the retransmission arrives twice *)
    Tick SB 300 []; Deliver SA 0 310 None head_choice;                 (* B's ZLB acknowledges; A sends 101 *)
    Deliver SB 2 320 None head_choice; Deliver SB 0 330 None head_choice;            (* 101 arrives; the delayed first copy of 100 arrives last *)
    Submit SB 200 7 340 None false; Deliver SA 1 350 None head_choice ].
Lemma wrap_run_ok :
  let s := run false (init_sys (100, 400, 3, 50, 1) (100, 400, 3, 50, 1) 65535 32767) wrap_run in
  honest wrap_run = true /\
  e_del (s_b s) = [100; 101] /\ e_del (s_a s) = [200] /\ e_acked (s_a s) = [0%nat; 1%nat] /\
  c_ns (e_ch (s_a s)) = 1 /\ c_nr (e_ch (s_b s)) = 1 /\ c_nr (e_ch (s_a s)) = 32768.
Proof. vm_compute. splits; reflexivity. Qed.

(* every real (non-ZLB) message that reaches the channel arms the ZLB timer, whether it is accepted,
   a duplicate or from the future, under both dispatch rules *)
Lemma data_arms_ack z f c p b now fj rc c' o e h :
  k_body p = Some b -> dispatch z f c p now fj rc = (c', o, e, h) ->
  exists d, c_zlb c' = Some d /\ d <= now + f_zlb f.
Proof.
  intros Hb H. unfold dispatch in H. rewrite Hb in H. apply recv_spec in H.
  destruct H as (_ & _ & _ & _ & _ & _ & _ & _ & _ & Z1).
  exists (zlb_choice f now (r_zd rc)). split; [exact Z1|apply zlb_choice_le].
Qed.

(* ---- bounded retransmission: an unacknowledged message kills the tunnel after MaxRetries expiries ---- *)
Fixpoint dead_within (f : conf) (c : chan) (ts : list Z) : bool :=
  match ts with
  | [] => false
  | t :: r => let '(c', _, d, _) := tick f c t in if d then true else dead_within f c' r
  end.

Fixpoint spaced (gap t : Z) (ts : list Z) : Prop :=
  match ts with [] => True | t' :: r => t + gap <= t' /\ spaced gap t' r end.

Lemma dead_after_max f : forall n c p r t ts,
  c_q c = p :: r -> 1 <= p_att p -> Z.of_nat n = f_maxr f - p_att p -> p_dl p <= t ->
  spaced (f_rto_max f) t ts -> length ts = n ->
  dead_within f c (t :: ts) = true.
Proof.
  induction n as [|n IH]; intros c p r t ts Hq Ha Hn Hd Hs Hl.
  - cbn [dead_within]. unfold tick. rewrite Hq. cbn [tick_q].
    assert ((p_att p =? 0) || (t <? p_dl p) = false) as -> by lia.
    assert (f_maxr f <? p_att p + 1 = true) as -> by lia. reflexivity.
  - destruct ts as [|t2 ts']; [discriminate|]. destruct Hs as [Hs1 Hs2].
    cbn [dead_within]. unfold tick at 1. rewrite Hq. cbn [tick_q].
    assert ((p_att p =? 0) || (t <? p_dl p) = false) as -> by lia.
    assert (f_maxr f <? p_att p + 1 = false) as -> by lia.
    match goal with |- context [tick_q f t ?nr 1 ?s r] =>
      destruct (tick_q f t nr 1 s r) as [[[r' cw] ss] o] end.
    destruct r' as [r'|]; cbn [option_map]; [|reflexivity].
    match goal with |- context [tick f ?c' t2] =>
      change (dead_within f c' (t2 :: ts') = true); eapply (IH c') end.
    + cbn [c_q]. reflexivity.
    + cbn [p_att]. lia.
    + cbn [p_att]. lia.
    + cbn [p_dl].
      destruct (f_rto_max f <? f_rto_init f * pow2 (p_att p + 1 - 1)) eqn:E; lia.
    + exact Hs2.
    + simpl in Hl. lia.
Qed.

Definition ex_conf : conf := new_conf 100 400 3 50.
Definition ex_chan : chan := fst (fst (send_session ex_conf (new_chan 1) 100 0 0 None)).
Lemma dead_example :
  (exists p r, c_q ex_chan = p :: r /\ p_att p = 1 /\ p_dl p = 100) /\
  dead_within ex_conf ex_chan [100; 500; 900] = true /\
  dead_within ex_conf ex_chan [100; 500] = false /\
  length (snd (fst (fst (tick ex_conf ex_chan 100)))) = 1%nat.
Proof. vm_compute. splits; try reflexivity. eexists; eexists; splits; reflexivity. Qed.

(* ================= the dispatch rule acknowledges everything it receives ================= *)
(* after a message reached the receive step: the ZLB timer is armed for now + zlbDelay, or a packet that
   left afterwards already carries the current Nr *)
Definition acked_since (f : conf) (now : Z) (old : list pkt) (e : endpoint) : Prop :=
  exists new, e_sent e = old ++ new /\
    ((exists d, c_zlb (e_ch e) = Some d /\ d <= now + f_zlb f) \/
     (new <> [] /\ forall d, last_nr d new = c_nr (e_ch e))).

Lemma ep_submit_acked f now old e body sid fj :
  e_f e = f -> acked_since f now old e ->
  acked_since f now old (fst (ep_submit e body sid now fj)) /\
  c_nr (e_ch (fst (ep_submit e body sid now fj))) = c_nr (e_ch e) /\
  e_f (fst (ep_submit e body sid now fj)) = f.
Proof.
  intros Hf (new & Hs & H). unfold ep_submit.
  destruct (send_session (e_f e) (e_ch e) body sid now fj) as [[c' o] er] eqn:E. cbn [fst]; ep_simpl.
  apply send_session_spec in E. destruct E as (_ & B & _ & _ & _ & Em & _ & _ & Z1 & Z2).
  splits; auto. exists (new ++ o). ep_simpl. split; [rewrite Hs, app_assoc; reflexivity|].
  destruct o as [|p r].
  - rewrite app_nil_r, Z1, B by reflexivity. exact H.
  - right. split; [destruct new; discriminate|]. intros d. rewrite last_nr_app, B.
    apply last_nr_const; [discriminate|]. intros x Hx. apply (Em x Hx).
Qed.

Lemma ep_submits_acked f now old rs : forall e,
  e_f e = f -> acked_since f now old e ->
  acked_since f now old (ep_submits e rs now) /\ c_nr (e_ch (ep_submits e rs now)) = c_nr (e_ch e).
Proof.
  unfold ep_submits. induction rs as [|r rs IH]; intros e Hf H; simpl; [auto|].
  destruct (ep_submit_acked f now old e (fst r) (snd r) None Hf H) as (A & B & C).
  destruct (IH _ C A) as [A' B']. split; [exact A'|congruence].
Qed.

Lemma ep_flush_spec e :
  c_nr (e_ch (ep_flush e [])) = c_nr (e_ch e) /\ e_f (ep_flush e []) = e_f e /\
  c_zlb (e_ch (ep_flush e [])) = None /\ c_pw (e_ch (ep_flush e [])) = c_pw (e_ch e) /\
  c_q (e_ch (ep_flush e [])) = c_q (e_ch e) /\ c_cwnd (e_ch (ep_flush e [])) = c_cwnd (e_ch e) /\
  e_wmax (ep_flush e []) = e_wmax e /\
  ((c_zlb (e_ch e) = None /\ e_sent (ep_flush e []) = e_sent e) \/
   (c_zlb (e_ch e) <> None /\ e_sent (ep_flush e []) = e_sent e ++ [mkK None 0 (c_ns (e_ch e)) (c_nr (e_ch e))])).
Proof.
  unfold ep_flush, flush_ack. destruct (c_zlb (e_ch e)) as [d|] eqn:E; cbn; splits; auto.
  - right. split; [discriminate|reflexivity].
  - left. split; [reflexivity|apply app_nil_r].
Qed.

(* flushed: a packet carrying the current Nr has been written since [old] and the ZLB timer is disarmed *)
Definition flushed_since (old : list pkt) (e : endpoint) : Prop :=
  c_zlb (e_ch e) = None /\
  exists new, e_sent e = old ++ new /\ new <> [] /\ forall d, last_nr d new = c_nr (e_ch e).

Lemma ep_flush_acked f now old e : acked_since f now old e -> flushed_since old (ep_flush e []).
Proof.
  intros (new & Hs & H). destruct (ep_flush_spec e) as (Nr & _ & Z0 & _ & _ & _ & _ & S).
  split; [exact Z0|]. destruct S as [[Hz Se]|[Hz Se]].
  - destruct H as [(d0 & H & _)|[Hn Hl]]; [congruence|]. exists new. rewrite Se, Nr. auto.
  - exists (new ++ [mkK None 0 (c_ns (e_ch e)) (c_nr (e_ch e))]).
    rewrite Se, Hs, app_assoc. splits; auto.
    + destruct new; discriminate.
    + intros d. rewrite last_nr_app, Nr. reflexivity.
Qed.

(* EVERY non-ZLB message for a registered tunnel passes through the receive step, whatever its type, its
   session id and whatever its handler does afterwards (m_replies, m_removes arbitrary): Nr moves exactly
   by the in-order rule and an acknowledgement is owed (timer armed) or already on its way. *)
Lemma dispatch_acks_everything n m now b :
  n_known n = true -> m_tid_ok m = true -> k_body (m_pkt m) = Some b ->
  let n' := node_dispatch n m now in
  let c := e_ch (n_ep n) in
  c_nr (e_ch (n_ep n')) = (if k_ns (m_pkt m) =? c_nr c then u16 (c_nr c + 1) else c_nr c) /\
  (if (k_ns (m_pkt m) =? c_nr c) && m_removes m
   then flushed_since (e_sent (n_ep n)) (n_ep n')        (* teardown: acknowledged before the tunnel goes *)
   else acked_since (e_f (n_ep n)) now (e_sent (n_ep n)) (n_ep n')).
Proof.
  intros Hk Ht Hb. unfold node_dispatch. rewrite Hk, Ht. cbn [andb].
  unfold ep_deliver.
  destruct (dispatch false (e_f (n_ep n)) (e_ch (n_ep n)) (m_pkt m) now None (m_rc m)) as [[[c' o] er] h] eqn:E.
  pose proof (data_arms_ack _ _ _ _ _ _ _ _ _ _ _ _ Hb E) as Hz.
  unfold dispatch in E. rewrite Hb in E. apply recv_spec in E.
  destruct E as (Hh & _ & Hnr & _).
  set (e1 := mkE (e_f (n_ep n)) c' (e_sent (n_ep n) ++ o) (e_sub (n_ep n))
                 (match k_body (m_pkt m) with
                  | Some b0 => if h then e_del (n_ep n) ++ [b0] else e_del (n_ep n)
                  | None => e_del (n_ep n) end)
                 (e_acked (n_ep n) ++ acked_range (n_ep n) (length (c_q c')))
                 (e_dead (n_ep n)) (e_wmax (n_ep n))).
  assert (A1 : acked_since (e_f (n_ep n)) now (e_sent (n_ep n)) e1).
  { exists o. split; [reflexivity|]. left. exact Hz. }
  assert (N1 : c_nr (e_ch e1) = (if k_ns (m_pkt m) =? c_nr (e_ch (n_ep n)) then u16 (c_nr (e_ch (n_ep n)) + 1)
                                 else c_nr (e_ch (n_ep n)))).
  { cbn [e1 e_ch]. rewrite Hnr, Hh. reflexivity. }
  rewrite <- Hh in N1 |- *. destruct h; cbn [n_ep andb].
  - destruct (ep_submits_acked (e_f (n_ep n)) now (e_sent (n_ep n)) (m_replies m) e1 eq_refl A1) as [A2 N2].
    destruct (m_removes m).
    + destruct (ep_flush_spec (ep_submits e1 (m_replies m) now)) as (Nr & _).
      split; [rewrite Nr, N2; exact N1|]. eapply ep_flush_acked; exact A2.
    + split; [rewrite N2; exact N1|exact A2].
  - split; [exact N1|exact A1].
Qed.

(* ZLBs and messages for a tunnel that is not registered never move Nr *)
Lemma dispatch_nr_unchanged n m now :
  (n_known n && m_tid_ok m = false \/ k_body (m_pkt m) = None) ->
  c_nr (e_ch (n_ep (node_dispatch n m now))) = c_nr (e_ch (n_ep n)).
Proof.
  intros H. unfold node_dispatch. destruct (n_known n && m_tid_ok m) eqn:Ek; [|reflexivity].
  destruct H as [H|H]; [discriminate|].
  unfold ep_deliver.
  destruct (dispatch false (e_f (n_ep n)) (e_ch (n_ep n)) (m_pkt m) now None (m_rc m)) as [[[c' o] er] h] eqn:E.
  apply dispatch_repaired_spec in E. rewrite H in E. destruct E as (_ & _ & _ & Hh & Hn).
  subst h. cbn [n_ep e_ch]. exact Hn.
Qed.

(* the owed acknowledgement is sent by the next Tick at/after the deadline *)
Definition full_msgs : list nevent :=
  [ NMsg (mkM head_choice true (mkK (Some 1) 0 0 0) [] false) 0; NTick 90;       (* first delivery *)
    NMsg (mkM head_choice true (mkK (Some 1) 5 0 0) [(7, 0)] true) 0; NTick 90 ]. (* retransmission: acknowledged again *)
Lemma full_example :
  let n0 := mkN true (new_endpoint 120 240 5 60 16 0 0) in
  map (fun p => (k_body p, k_nr p)) (e_sent (n_ep (node_run n0 full_msgs))) = [(None, 1); (None, 1)].
Proof. vm_compute. reflexivity. Qed.

(* ================= delivered, still queued, or dead ================= *)
Lemma prefix_full {A} (l d rest : list A) : l = d ++ rest -> (length l <= length d)%nat -> d = l.
Proof.
  intros H L. subst l. rewrite app_length in L. destruct rest; [rewrite app_nil_r; reflexivity|simpl in L; lia].
Qed.

(* For every execution (repaired rule, no forged packets, < 2^15 submissions per direction) and every
   submission index i of a side: the message was handed to the peer's protocol machine, or it is still in
   the sender's queue (its last |c_q| submissions), or the sender has fired its dead callback. *)
Lemma delivered_queued_or_dead ai am ar az aw bi bm br bz bw oa ob evs :
  honest evs = true ->
  let s := run false (init_sys (ai, am, ar, az, aw) (bi, bm, br, bz, bw) oa ob) evs in
  Z.of_nat (length (e_sub (s_a s))) < 32768 -> Z.of_nat (length (e_sub (s_b s))) < 32768 ->
  forall x i, (i < length (e_sub (ep s x)))%nat ->
    (i < length (e_del (ep s (peer x))))%nat \/
    (length (e_sub (ep s x)) - length (c_q (e_ch (ep s x))) <= i)%nat \/
    (0 < e_dead (ep s x))%nat.
Proof.
  intros Hh s BA BB x i Hi.
  assert (I : sys_inv oa ob s).
  { apply run_inv; [apply init_inv|exact Hh|split; assumption]. }
  destruct I as [IA IB].
  destruct (Nat.eq_dec (e_dead (ep s x)) 0) as [Hd|Hd]; [|right; right; lia].
  destruct x; simpl in *.
  - pose proof (di_base _ _ _ IA Hd). lia.
  - pose proof (di_base _ _ _ IB Hd). lia.
Qed.

(* when a sender's queue is empty and it never declared dead, the peer's machine has received exactly
   its submissions: everything, once, in order *)
Lemma quiescent_all_delivered ai am ar az aw bi bm br bz bw oa ob evs :
  honest evs = true ->
  let s := run false (init_sys (ai, am, ar, az, aw) (bi, bm, br, bz, bw) oa ob) evs in
  Z.of_nat (length (e_sub (s_a s))) < 32768 -> Z.of_nat (length (e_sub (s_b s))) < 32768 ->
  forall x, c_q (e_ch (ep s x)) = [] -> e_dead (ep s x) = 0%nat ->
  e_del (ep s (peer x)) = e_sub (ep s x).
Proof.
  intros Hh s BA BB x Hq Hd.
  assert (I : sys_inv oa ob s).
  { apply run_inv; [apply init_inv|exact Hh|split; assumption]. }
  destruct I as [IA IB].
  destruct x; simpl in *.
  - pose proof (di_base _ _ _ IA Hd) as Hb. rewrite Hq in Hb. simpl in Hb.
    destruct (di_prefix _ _ _ IA) as [rest Hp]. eapply prefix_full; [exact Hp|lia].
  - pose proof (di_base _ _ _ IB Hd) as Hb. rewrite Hq in Hb. simpl in Hb.
    destruct (di_prefix _ _ _ IB) as [rest Hp]. eapply prefix_full; [exact Hp|lia].
Qed.

(* ---- the two progress steps of the fair-loss argument ---- *)
(* (1) if ANY ONE transmission of the message at the head of S's queue reaches R, that message has been
       handed to R's machine (now or earlier) *)
Lemma head_delivery_progress o S R p r pk b now fj rc R' ob :
  dir_inv o S R -> Z.of_nat (length (e_sub S)) < 32768 -> e_dead S = 0%nat ->
  c_q (e_ch S) = p :: r -> k_body pk = Some b -> k_ns pk = p_ns p ->
  ep_deliver false R pk now fj rc = (R', ob) ->
  (length (e_sub S) - length (c_q (e_ch S)) < length (e_del R'))%nat.
Proof.
  intros I Hb Hd Hq Hbody Hns H.
  pose proof (di_base _ _ _ I Hd) as Hbase.
  destruct I as [_ [pre Hst] Hnr [rest Hp] _ _ _ _].
  assert (Hlp : length (e_sub S) = (length pre + length (c_q (e_ch S)))%nat).
  { rewrite <- (stamped_length o (e_sub S) 0), Hst, app_length, map_length; reflexivity. }
  assert (Hhead : p_ns p = u16 (o + Z.of_nat (length pre))).
  { assert (N : nth_error (stamped o 0 (e_sub S)) (length pre) = Some (key p)).
    { rewrite Hst, nth_error_app2, Nat.sub_diag, Hq by lia. reflexivity. }
    apply stamped_nth in N. destruct N as [N _]. exact N. }
  unfold ep_deliver in H.
  destruct (dispatch false (e_f R) (e_ch R) pk now fj rc) as [[[c' o'] er] h] eqn:E.
  inversion H; subst; clear H. ep_simpl.
  apply dispatch_repaired_spec in E. destruct E as (_ & _ & _ & Hx). rewrite Hbody in Hx |- *.
  destruct Hx as [Hh _].
  assert (Hcase : (length pre < length (e_del R))%nat \/ length pre = length (e_del R)) by lia.
  destruct Hcase as [Hlt|Heq].
  - destruct h; [rewrite app_length; simpl|]; lia.
  - assert (h = true) as ->.
    { rewrite Hh, Hns, Hhead, Hnr, Heq. apply Z.eqb_refl. }
    rewrite app_length. simpl. lia.
Qed.

(* (2) once it has been handed over, ANY ONE packet R sends from then on (all carry R's current Nr) that
       reaches S removes the message from S's queue *)
Lemma head_ack_progress o S R p r pk now fj rc S' ob :
  dir_inv o S R -> Z.of_nat (length (e_sub S)) < 32768 ->
  c_q (e_ch S) = p :: r -> 0 < p_att p ->
  (length (e_sub S) - length (c_q (e_ch S)) < length (e_del R))%nat ->
  k_nr pk = c_nr (e_ch R) ->
  ep_deliver false S pk now fj rc = (S', ob) ->
  (length (c_q (e_ch S')) < length (c_q (e_ch S)))%nat.
Proof.
  intros I Hb Hq Ha Hlt Hnr H.
  destruct I as [HnsS [pre Hst] HnrR [rest Hp] _ _ _ _].
  assert (Hlp : length (e_sub S) = (length pre + length (c_q (e_ch S)))%nat).
  { rewrite <- (stamped_length o (e_sub S) 0), Hst, app_length, map_length; reflexivity. }
  assert (Hhead : p_ns p = u16 (o + Z.of_nat (length pre))).
  { assert (N : nth_error (stamped o 0 (e_sub S)) (length pre) = Some (key p)).
    { rewrite Hst, nth_error_app2, Nat.sub_diag, Hq by lia. reflexivity. }
    apply stamped_nth in N. destruct N as [N _]. exact N. }
  assert (Hdel : (length (e_del R) <= length (e_sub S))%nat) by (rewrite Hp, app_length; lia).
  assert (Hless : seq_less (p_ns p) (k_nr pk) = true).
  { rewrite Hhead, Hnr, HnrR, seq_less_window by lia. lia. }
  (* R's Nr is never ahead of S's own Ns: the "ignore an Nr from the future" choice cannot apply *)
  assert (Hnotahead : seq_less (c_ns (e_ch S)) (k_nr pk) = false).
  { rewrite HnsS, Hnr, HnrR, seq_less_window by lia. lia. }
  unfold ep_deliver in H.
  destruct (dispatch false (e_f S) (e_ch S) pk now fj rc) as [[[c' o'] er] h] eqn:E.
  inversion H; subst; clear H. ep_simpl.
  assert (G : forall f c1 o1 e1, ack_through f (e_ch S) (k_nr pk) now fj (r_ig rc) = (c1, o1, e1) ->
              (length (c_q c1) < length (c_q (e_ch S)))%nat).
  { intros f c1 o1 e1 E1. unfold ack_through in E1. rewrite Hnotahead, andb_false_r in E1.
    rewrite Hq in E1 |- *. cbn [ack_q] in E1.
    assert (p_att p =? 0 = false) as Hz by lia. rewrite Hz, Hless in E1.
    match type of E1 with context [ack_q ?a ?cw ?ss ?pw r] =>
      destruct (ack_q a cw ss pw r) as [[q1 cw1] pr1] eqn:E2 end.
    destruct (ack_q_spec _ _ _ _ _ _ _ _ E2) as (pp & Hr & _).
    apply drive_send_spec in E1. cbn [c_q] in E1. destruct E1 as (_ & _ & _ & _ & _ & K & _).
    assert (length (c_q c1) = length q1) by (rewrite <- (map_length key), K, map_length; reflexivity).
    cbn [length]. rewrite Hr, app_length. lia. }
  unfold dispatch in E. destruct (k_body pk).
  - unfold recv in E. destruct (ack_through (e_f S) (e_ch S) (k_nr pk) now fj (r_ig rc)) as [[c1 o1] e1] eqn:E1.
    pose proof (G _ _ _ _ E1). destruct (negb (k_ns pk =? c_nr c1)); inversion E; subst; cbn [c_q]; assumption.
  - destruct (ack_through (e_f S) (e_ch S) (k_nr pk) now fj (r_ig rc)) as [[c1 o1] e1] eqn:E1.
    pose proof (G _ _ _ _ E1). inversion E; subst. assumption.
Qed.

(* ================= the advertised window ================= *)
Record win_ok (W : Z) (e : endpoint) : Prop := {
  wo_ok : ep_ok e; wo_wmax : e_wmax e = W; wo_pw : c_pw (e_ch e) = W }.

Lemma submit_win W e body sid now fj : win_ok W e -> win_ok W (fst (ep_submit e body sid now fj)).
Proof.
  intros [O M P]. constructor; [apply submit_ok; exact O| |]; unfold ep_submit;
    destruct (send_session (e_f e) (e_ch e) body sid now fj) as [[c' o] er] eqn:E; cbn [fst]; ep_simpl; auto.
  apply send_session_spec in E. destruct E as (_ & _ & Pw & _). congruence.
Qed.

Lemma deliver_win z W e p now fj rc : win_ok W e -> win_ok W (fst (ep_deliver z e p now fj rc)).
Proof.
  intros [O M P]. constructor; [apply deliver_ok; exact O| |]; unfold ep_deliver;
    destruct (dispatch z (e_f e) (e_ch e) p now fj rc) as [[[c' o] er] h] eqn:E; cbn [fst]; ep_simpl; auto.
  unfold dispatch in E. destruct (k_body p); [|destruct z].
  - apply recv_spec in E. destruct E as (_ & _ & _ & Pw & _). congruence.
  - destruct (recv (e_f e) (e_ch e) (k_ns p) (k_nr p) now fj rc) as [[[c1 o1] e1] h1] eqn:E1.
    inversion E; subst. apply recv_spec in E1. destruct E1 as (_ & _ & _ & Pw & _). congruence.
  - destruct (ack_through (e_f e) (e_ch e) (k_nr p) now fj (r_ig rc)) as [[c1 o1] e1] eqn:E1.
    inversion E; subst. apply ack_through_spec in E1. destruct E1 as (_ & _ & Pw & _). congruence.
Qed.

Lemma tick_win W e now drops : win_ok W e -> win_ok W (fst (ep_tick e now drops)).
Proof.
  intros [O M P]. constructor; [apply tick_ok; exact O| |]; unfold ep_tick;
    destruct (tick (e_f e) (e_ch e) now) as [[[c' o] d] ret] eqn:E; cbn [fst]; ep_simpl; auto.
  apply tick_spec in E. destruct E as (_ & _ & Pw & _). congruence.
Qed.

Lemma submits_win W now rs : forall e, win_ok W e -> win_ok W (ep_submits e rs now).
Proof. unfold ep_submits. induction rs as [|r rs IH]; intros e H; simpl; auto using submit_win. Qed.

Lemma flush_win W e : win_ok W e -> win_ok W (ep_flush e []).
Proof.
  intros [[M W1 C P I A] Wm Pw]. destruct (ep_flush_spec e) as (_ & F & _ & Pw' & Q & Cw & Wm' & _).
  constructor; [constructor|..]; try congruence; rewrite ?F, ?Q, ?Cw, ?Pw', ?Wm'; auto.
Qed.

Lemma node_step_win W n ev : win_ok W (n_ep n) -> win_ok W (n_ep (node_step n ev)).
Proof.
  intros H. destruct ev as [m now|now|body sid now fj]; cbn [node_step].
  2: { destruct (n_known n); cbn [n_ep]; [apply tick_win; exact H|exact H]. }
  2: { destruct (n_known n); cbn [n_ep]; [apply submit_win; exact H|exact H]. }
  unfold node_dispatch. destruct (n_known n && m_tid_ok m); [|exact H].
  pose proof (deliver_win false W _ (m_pkt m) now None (m_rc m) H) as D.
  destruct (ep_deliver false (n_ep n) (m_pkt m) now None (m_rc m)) as [e1 ob]. cbn [fst] in D.
  destruct ob as [| |h o er| | |]; cbn [n_ep]; auto. destruct h; cbn [n_ep]; auto.
  destruct (m_removes m); auto using submits_win, flush_win.
Qed.

Lemma node_run_win W : forall evs n, win_ok W (n_ep n) -> win_ok W (n_ep (node_run n evs)).
Proof.
  unfold node_run. induction evs as [|ev r IH]; intros n H; simpl; auto using node_step_win.
Qed.

(* Once the peer's advertised Receive Window Size has been applied to a channel with at most one
   message outstanding (LNS: none; LAC: its SCCRQ), then for every later sequence of inbound messages
   (any type, any handler replies) and Ticks the number of transmitted, unacknowledged messages never
   exceeds the advertised window (at least 1; 4 if the peer sent no AVP), and the channel's window
   stays that value. *)
Lemma window_advertised e adv evs known :
  1 <= f_maxr (e_f e) -> att_ok (f_maxr (e_f e)) (c_q (e_ch e)) -> count_inflight (c_q (e_ch e)) <= 1 ->
  let W := Z.max 1 (advertised adv) in
  let n := node_run (mkN known (apply_peer_window e adv)) evs in
  count_inflight (c_q (e_ch (n_ep n))) <= W /\ c_pw (e_ch (n_ep n)) = W /\ c_cwnd (e_ch (n_ep n)) <= W.
Proof.
  intros Hm Ha Hi W n.
  assert (Hpw : c_pw (set_peer_window (e_ch e) (advertised adv)) = W).
  { unfold set_peer_window, W. cbn [c_pw]. destruct (advertised adv <? 1) eqn:E; lia. }
  assert (Hcw : c_cwnd (set_peer_window (e_ch e) (advertised adv)) <= W).
  { unfold set_peer_window, W. cbn [c_cwnd].
    destruct (advertised adv <? 1) eqn:E; destruct (_ <? c_cwnd (e_ch e)) eqn:E2; lia. }
  assert (H0 : win_ok W (apply_peer_window e adv)).
  { unfold apply_peer_window. constructor; ep_simpl; auto.
    constructor; ep_simpl; auto; try lia.
    rewrite Hpw. change (c_q (set_peer_window (e_ch e) (advertised adv))) with (c_q (e_ch e)). lia. }
  pose proof (node_run_win W evs (mkN known (apply_peer_window e adv)) H0) as [O M P].
  fold n in O, M, P. splits; auto.
  - rewrite <- M. apply (ok_infl _ O).
  - rewrite <- M. apply (ok_cwnd _ O).
Qed.

(* the window is really reached: peer advertises 2, acknowledges two of our messages, then sends four
   requests whose replies it does not acknowledge: exactly 2 replies are outstanding, 2 wait in the queue *)
Definition win_msgs : list nevent :=
  let m ns nr rep := NMsg (mkM head_choice true (mkK (Some 1) 0 ns nr) rep false) 0 in
  [ m 0 0 [(1, 0)]; m 1 1 []; m 2 1 [(2, 0)]; m 3 2 [(3, 0)];
    m 4 3 [(4, 0)]; m 5 3 [(5, 0)]; m 6 3 [(6, 0)]; m 7 3 [(7, 0)] ].
Lemma window_reached :
  let n := node_run (mkN true (apply_peer_window (new_endpoint 0 0 0 0 16 0 0) (Some 2))) win_msgs in
  count_inflight (c_q (e_ch (n_ep n))) = 2 /\ length (c_q (e_ch (n_ep n))) = 4%nat /\
  c_pw (e_ch (n_ep n)) = 2.
Proof. vm_compute. splits; reflexivity. Qed.

(* ================= no accepted message is ever stranded (every send-fault pattern) ================= *)
Definition all_unsent (q : list pending) : bool := forallb (fun p => negb (0 <? p_att p)) q.
Fixpoint flight_sorted (q : list pending) : bool :=
  match q with
  | [] => true
  | p :: r => if 0 <? p_att p then flight_sorted r else all_unsent r
  end.
Definition head_live (q : list pending) : Prop :=
  match q with [] => True | p :: _ => 1 <= p_att p end.

(* the in-flight messages are a prefix of the queue, a non-empty queue has its head in flight (so Tick's
   retransmit/dead machinery is working on it), and the windows are at least 1 *)
Record live (c : chan) : Prop := {
  lv_sorted : flight_sorted (c_q c) = true;
  lv_head : head_live (c_q c);
  lv_cwnd : 1 <= c_cwnd c;
  lv_pw : 1 <= c_pw c }.

Lemma all_unsent_sorted q : all_unsent q = true -> flight_sorted q = true.
Proof.
  induction q as [|p r IH]; simpl; intros H; [reflexivity|].
  apply andb_true_iff in H as [H1 H2]. destruct (0 <? p_att p); [discriminate|exact H2].
Qed.

Lemma all_unsent_count q : all_unsent q = true -> count_inflight q = 0.
Proof.
  induction q as [|p r IH]; simpl; intros H; [reflexivity|].
  apply andb_true_iff in H as [H1 H2]. rewrite (IH H2). destruct (0 <? p_att p); [discriminate|reflexivity].
Qed.

Lemma sorted_suffix l1 : forall l2, flight_sorted (l1 ++ l2) = true -> flight_sorted l2 = true.
Proof.
  induction l1 as [|p r IH]; intros l2 H; simpl in *; [exact H|].
  destruct (0 <? p_att p); [auto|]. unfold all_unsent in H. rewrite forallb_app in H.
  apply andb_true_iff in H as [_ H]. apply all_unsent_sorted; exact H.
Qed.

Lemma sorted_snoc q m : flight_sorted q = true -> p_att m = 0 -> flight_sorted (q ++ [m]) = true.
Proof.
  intros H Hm. induction q as [|p r IH]; simpl in *; [rewrite Hm; reflexivity|].
  destruct (0 <? p_att p); [auto|]. unfold all_unsent in *. rewrite forallb_app, H. simpl. rewrite Hm. reflexivity.
Qed.

Lemma drive_q_sorted cwnd nr dl : forall q infl fj,
  flight_sorted q = true -> flight_sorted (fst (fst (drive_q cwnd nr dl infl fj q))) = true.
Proof.
  induction q as [|p r IH]; intros infl fj H; simpl in *; [reflexivity|].
  destruct (0 <? p_att p) eqn:Ea.
  - specialize (IH infl fj H). destruct (drive_q cwnd nr dl infl fj r) as [[r' o] e]. simpl in *. rewrite Ea. exact IH.
  - destruct (cwnd <=? infl); [simpl; rewrite Ea; exact H|].
    pose proof (all_unsent_sorted _ H) as Hs.
    destruct fj as [[|k]|].
    + simpl. exact Hs.
    + specialize (IH (infl + 1) (Some k) Hs).
      destruct (drive_q cwnd nr dl (infl + 1) (Some k) r) as [[r' o] e]. simpl in *. exact IH.
    + specialize (IH (infl + 1) None Hs).
      destruct (drive_q cwnd nr dl (infl + 1) None r) as [[r' o] e]. simpl in *. exact IH.
Qed.

(* whatever the write faults: after driveSend the head of a non-empty queue is in flight *)
Lemma drive_q_head cwnd nr dl q fj :
  flight_sorted q = true -> 1 <= cwnd ->
  head_live (fst (fst (drive_q cwnd nr dl (count_inflight q) fj q))).
Proof.
  intros H Hc. destruct q as [|p r]; [exact I|]. cbn [drive_q].
  destruct (0 <? p_att p) eqn:Ea.
  - destruct (drive_q cwnd nr dl (count_inflight (p :: r)) fj r) as [[r' o] e]. simpl. lia.
  - simpl in H. rewrite Ea in H. cbn [count_inflight]. rewrite Ea, (all_unsent_count _ H).
    assert (cwnd <=? 0 + 0 = false) as -> by lia.
    destruct fj as [[|k]|]; [simpl; lia| |].
    + destruct (drive_q cwnd nr dl (0 + 0 + 1) (Some k) r) as [[r' o] e]. simpl. lia.
    + destruct (drive_q cwnd nr dl (0 + 0 + 1) None r) as [[r' o] e]. simpl. lia.
Qed.

Lemma drive_send_live f c now fj :
  flight_sorted (c_q c) = true -> 1 <= c_cwnd c -> 1 <= c_pw c -> live (fst (fst (drive_send f c now fj))).
Proof.
  intros Hs Hc Hp. unfold drive_send.
  pose proof (drive_q_sorted (c_cwnd c) (c_nr c) (now + f_rto_init f) (c_q c) (count_inflight (c_q c)) fj Hs) as S1.
  pose proof (drive_q_head (c_cwnd c) (c_nr c) (now + f_rto_init f) (c_q c) fj Hs Hc) as H1.
  destruct (drive_q (c_cwnd c) (c_nr c) (now + f_rto_init f) (count_inflight (c_q c)) fj (c_q c)) as [[q' o] e].
  simpl in *. constructor; simpl; auto.
Qed.

Lemma ack_q_cwnd_ge ack ssth pw : forall q cwnd, 1 <= cwnd -> 1 <= pw ->
  1 <= snd (fst (ack_q ack cwnd ssth pw q)).
Proof.
  induction q as [|p r IH]; intros cwnd Hc Hp; simpl; [lia|].
  destruct (p_att p =? 0); [simpl; lia|]. destruct (seq_less (p_ns p) ack); [|simpl; lia].
  assert (G : 1 <= grow_cwnd cwnd ssth pw).
  { unfold grow_cwnd. destruct (cwnd <? ssth); destruct (pw <? cwnd + 1) eqn:E; lia. }
  specialize (IH _ G Hp). destruct (ack_q ack (grow_cwnd cwnd ssth pw) ssth pw r) as [[q1 cw] pr]. simpl in *. exact IH.
Qed.

Lemma ack_through_live f c ack now fj ig : live c -> live (fst (fst (ack_through f c ack now fj ig))).
Proof.
  intros [Hs Hh Hc Hp]. unfold ack_through.
  destruct (ig && seq_less (c_ns c) ack); [simpl; constructor; auto|].
  pose proof (ack_q_cwnd_ge ack (c_ssth c) (c_pw c) (c_q c) (c_cwnd c) Hc Hp) as Hcw.
  destruct (ack_q ack (c_cwnd c) (c_ssth c) (c_pw c) (c_q c)) as [[q1 cw] pr] eqn:E.
  destruct (ack_q_spec _ _ _ _ _ _ _ _ E) as (pp & Hq & _ & Hf & _). simpl in Hcw.
  destruct pr.
  - apply drive_send_live; cbn [c_q c_cwnd c_pw]; auto. rewrite Hq in Hs. eapply sorted_suffix; exact Hs.
  - destruct (Hf eq_refl) as [-> ->]. simpl in Hq. subst q1. simpl. constructor; simpl; auto.
Qed.

Lemma recv_live f c ns nr now fj rc : live c -> live (fst (fst (fst (recv f c ns nr now fj rc)))).
Proof.
  intros H. unfold recv. pose proof (ack_through_live f c nr now fj (r_ig rc) H) as [A B C D].
  destruct (ack_through f c nr now fj (r_ig rc)) as [[c1 o] e]. simpl in *.
  destruct (negb (ns =? c_nr c1)); simpl; constructor; simpl; auto.
Qed.

Lemma dispatch_live z f c p now fj rc : live c -> live (fst (fst (fst (dispatch z f c p now fj rc)))).
Proof.
  intros H. unfold dispatch. destruct (k_body p); [apply recv_live; exact H|]. destruct z.
  - pose proof (recv_live f c (k_ns p) (k_nr p) now fj rc H).
    destruct (recv f c (k_ns p) (k_nr p) now fj rc) as [[[c' o] e] h]. exact H0.
  - pose proof (ack_through_live f c (k_nr p) now fj (r_ig rc) H).
    destruct (ack_through f c (k_nr p) now fj (r_ig rc)) as [[c' o] e]. exact H0.
Qed.

Lemma send_session_live f c body sid now fj : live c -> live (fst (fst (send_session f c body sid now fj))).
Proof.
  intros [Hs Hh Hc Hp]. unfold send_session. apply drive_send_live; cbn [c_q c_cwnd c_pw]; auto.
  apply sorted_snoc; auto.
Qed.

(* Tick never changes which entries are in flight *)
Lemma tick_q_flags f now nr : forall q cwnd ssth q' cw ss o,
  tick_q f now nr cwnd ssth q = (Some q', cw, ss, o) ->
  Forall2 (fun p p' => (0 <? p_att p') = (0 <? p_att p) /\ p_att p <= p_att p') q q' /\ (1 <= cwnd -> 1 <= cw).
Proof.
  induction q as [|p r IH]; intros cwnd ssth q' cw ss o H; simpl in H.
  - inversion H; subst. split; [constructor|auto].
  - destruct ((p_att p =? 0) || (now <? p_dl p)) eqn:Es.
    + destruct (tick_q f now nr cwnd ssth r) as [[[r' cw1] ss1] o1] eqn:E.
      destruct r' as [r'|]; simpl in H; [|discriminate]. inversion H; subst.
      destruct (IH _ _ _ _ _ _ E) as [F C]. split; [constructor; [split; [reflexivity|lia]|exact F]|exact C].
    + destruct (f_maxr f <? p_att p + 1); [discriminate|].
      match type of H with context [tick_q f now nr 1 ?s r] =>
        destruct (tick_q f now nr 1 s r) as [[[r' cw1] ss1] o1] eqn:E end.
      destruct r' as [r'|]; simpl in H; [|discriminate]. inversion H; subst.
      destruct (IH _ _ _ _ _ _ E) as [F C]. apply orb_false_iff in Es as [E0 _].
      split; [constructor; [|exact F]|intros _; apply C; lia].
      cbn [p_att]. split; [|lia].
      destruct (0 <? p_att p + 1) eqn:E1; destruct (0 <? p_att p) eqn:E2; lia.
Qed.

Lemma flags_sorted q q' :
  Forall2 (fun p p' => (0 <? p_att p') = (0 <? p_att p) /\ p_att p <= p_att p') q q' ->
  flight_sorted q' = flight_sorted q /\ all_unsent q' = all_unsent q /\ (head_live q -> head_live q').
Proof.
  induction 1 as [|p p' r r' [Hf Hle] _ IH]; [auto|].
  destruct IH as (I1 & I2 & _). simpl. rewrite Hf, I1, I2. splits; auto. simpl. lia.
Qed.

Lemma tick_q_dead_cwnd f now nr : forall q cwnd ssth cw ss o,
  tick_q f now nr cwnd ssth q = (None, cw, ss, o) -> 1 <= cwnd -> 1 <= cw.
Proof.
  induction q as [|p r IH]; intros cwnd ssth cw ss o H Hc; simpl in H; [discriminate|].
  destruct ((p_att p =? 0) || (now <? p_dl p)).
  - destruct (tick_q f now nr cwnd ssth r) as [[[r' cw1] ss1] o1] eqn:E.
    destruct r'; simpl in H; [discriminate|]. inversion H; subst. eapply IH; eauto.
  - destruct (f_maxr f <? p_att p + 1); [inversion H; subst; exact Hc|].
    match type of H with context [tick_q f now nr 1 ?s r] =>
      destruct (tick_q f now nr 1 s r) as [[[r' cw1] ss1] o1] eqn:E end.
    destruct r'; simpl in H; [discriminate|]. inversion H; subst. eapply (IH 1); eauto. lia.
Qed.

Lemma tick_live f c now : live c -> live (fst (fst (fst (tick f c now)))).
Proof.
  intros [Hs Hh Hc Hp]. unfold tick.
  destruct (tick_q f now (c_nr c) (c_cwnd c) (c_ssth c) (c_q c)) as [[[oq cw] ss] o] eqn:E.
  destruct oq as [q'|]; simpl.
  - destruct (tick_q_flags _ _ _ _ _ _ _ _ _ _ E) as [F C].
    destruct (flags_sorted _ _ F) as (S1 & _ & H1). constructor; simpl; auto. congruence.
  - constructor; simpl; auto. eapply tick_q_dead_cwnd; eauto.
Qed.

Lemma set_peer_window_live c w : live c -> live (set_peer_window c w).
Proof.
  intros [Hs Hh Hc Hp]. unfold set_peer_window. constructor; cbn [c_q c_cwnd c_pw]; auto.
  - destruct (w <? 1) eqn:E0; destruct (_ <? c_cwnd c) eqn:E; lia.
  - destruct (w <? 1) eqn:E; lia.
Qed.

Definition sys_live (s : sys) : Prop := live (e_ch (s_a s)) /\ live (e_ch (s_b s)).

Lemma step_live z s ev : sys_live s -> sys_live (fst (step z s ev)).
Proof.
  intros [A B].
  assert (G : forall x e, live (e_ch e) -> sys_live (set_ep s x e)).
  { intros x e H. destruct x; split; simpl; auto. }
  assert (Hx : forall x, live (e_ch (ep s x))) by (intros []; assumption).
  destruct ev as [x body sid now fj rf|x idx now fj rc|x p now fj rc|x now drops|x w]; unfold step.
  - destruct (rf && (0 <? e_dead (ep s x))%nat); [split; assumption|].
    unfold ep_submit. pose proof (send_session_live (e_f (ep s x)) _ body sid now fj (Hx x)).
    destruct (send_session (e_f (ep s x)) (e_ch (ep s x)) body sid now fj) as [[c' o] er]. simpl in *. auto.
  - destruct (nth_error _ idx) as [p|]; [|split; assumption].
    unfold ep_deliver. pose proof (dispatch_live z (e_f (ep s x)) _ p now fj rc (Hx x)).
    destruct (dispatch z (e_f (ep s x)) (e_ch (ep s x)) p now fj rc) as [[[c' o] er] h]. simpl in *. auto.
  - unfold ep_deliver. pose proof (dispatch_live z (e_f (ep s x)) _ p now fj rc (Hx x)).
    destruct (dispatch z (e_f (ep s x)) (e_ch (ep s x)) p now fj rc) as [[[c' o] er] h]. simpl in *. auto.
  - unfold ep_tick. pose proof (tick_live (e_f (ep s x)) _ now (Hx x)).
    destruct (tick (e_f (ep s x)) (e_ch (ep s x)) now) as [[[c' o] d] ret]. simpl in *. auto.
  - simpl. apply G. simpl. apply set_peer_window_live. apply Hx.
Qed.

(* For BOTH dispatch rules, EVERY execution (incl. forged packets) and EVERY pattern of send-callback
   failures (first transmission from Send or from the ACK path, retransmissions, ZLBs): a non-empty queue
   always has its head in flight (attempts >= 1), the in-flight messages are a prefix of the queue, and
   cwnd >= 1.  Hence no accepted message can sit in the queue out of Tick's reach: the head is retransmitted
   and, unacknowledged, leads to the dead callback (C16_dead_after_max, whose Ticks ignore write errors). *)
Lemma run_live z : forall evs s, sys_live s -> sys_live (run z s evs).
Proof. induction evs as [|ev r IH]; intros s H; simpl; auto using step_live. Qed.

Lemma init_live ai am ar az aw bi bm br bz bw oa ob :
  1 <= dflt aw 4 -> 1 <= dflt bw 4 ->
  sys_live (init_sys (ai, am, ar, az, aw) (bi, bm, br, bz, bw) oa ob).
Proof.
  intros. unfold init_sys, new_endpoint, new_chan, with_origin.
  split; constructor; cbn [s_a s_b e_ch c_q c_cwnd c_pw flight_sorted head_live]; auto; lia.
Qed.

Lemma no_stranded_message z ai am ar az aw bi bm br bz bw oa ob evs :
  1 <= dflt aw 4 -> 1 <= dflt bw 4 ->
  let s := run z (init_sys (ai, am, ar, az, aw) (bi, bm, br, bz, bw) oa ob) evs in
  forall x, head_live (c_q (e_ch (ep s x))) /\ flight_sorted (c_q (e_ch (ep s x))) = true /\
            1 <= c_cwnd (e_ch (ep s x)).
Proof.
  intros Ha Hb s x.
  assert (K : sys_live s) by (apply run_live, init_live; assumption).
  destruct K as [[A1 A2 A3 A4] [B1 B2 B3 B4]]. destruct x; simpl; auto.
Qed.

(* ---- the runner's timer never parks and reaches every armed ZLB deadline ---- *)
Lemma runner_next_bounds poll ret now : 0 < poll ->
  now < runner_next poll ret now /\
  match ret with
  | None => runner_next poll ret now = now + poll
  | Some t => runner_next poll ret now = Z.max t (now + 50)
  end.
Proof. intros Hp. unfold runner_next. destruct ret as [t|]; [destruct (t - now <? 50) eqn:E|]; lia. Qed.

(* a Tick before the ZLB deadline keeps the timer armed and tells the runner to come back no later than it *)
Lemma tick_before_zlb f c now d c' o ret :
  c_zlb c = Some d -> now < d -> tick f c now = (c', o, false, ret) ->
  c_zlb c' = Some d /\ c_nr c' = c_nr c /\ exists r, ret = Some r /\ r <= d.
Proof.
  intros Hz Hlt H. unfold tick in H.
  destruct (tick_q f now (c_nr c) (c_cwnd c) (c_ssth c) (c_q c)) as [[[oq cw] ss] o1].
  destruct oq as [q'|]; [|inversion H].
  rewrite Hz in H. assert (negb (now <? d) = false) as Hf by lia. rewrite Hf in H.
  inversion H; subst; clear H. cbn [c_zlb c_nr]. splits; auto.
  unfold earliest. destruct (next_rto q' None) as [x|].
  - destruct (d <? x) eqn:E; eexists; (split; [reflexivity|lia]).
  - eexists; split; [reflexivity|lia].
Qed.

(* so: with the ZLB armed for d at a Tick at t1 < d that does not declare dead, the timer stays armed for d
   and the runner's next Tick is at t2 with t1 + 50 <= t2 <= max d (t1+50): the Ticks advance by at least
   50 ms and never jump past d by more than 50 ms, so one of them is at or after d within d + 50 and sends the
   acknowledgement (C16_tick_sends_owed_ack) unless a message sent in between already carried it *)
Lemma runner_reaches_zlb poll f c t1 d c' o ret :
  0 < poll -> c_zlb c = Some d -> t1 < d -> tick f c t1 = (c', o, false, ret) ->
  let t2 := runner_next poll ret t1 in
  t1 + 50 <= t2 <= Z.max d (t1 + 50) /\ c_zlb c' = Some d.
Proof.
  intros Hp Hz Hlt H. destruct (tick_before_zlb _ _ _ _ _ _ _ Hz Hlt H) as (Z1 & _ & r & -> & Hr).
  cbv zeta. destruct (runner_next_bounds poll (Some r) t1 Hp) as [_ E]. rewrite E. split; [lia|exact Z1].
Qed.

(* an in-order StopCCN (handler unregisters the tunnel) is acknowledged in the very step that accepts it,
   with no Tick at all; a later Tick event does nothing (the runner is gone) *)
Definition stop_msgs : list nevent :=
  [ NMsg (mkM head_choice true (mkK (Some 1) 0 0 0) [(7, 0)] false) 0;      (* SCCRQ-like, answered *)
    NMsg (mkM head_choice true (mkK (Some 4) 0 1 1) [] true) 5;              (* StopCCN *)
    NTick 500 ].
Lemma stop_example :
  let n := node_run (mkN true (new_endpoint 0 0 0 0 16 0 0)) stop_msgs in
  n_known n = false /\ c_zlb (e_ch (n_ep n)) = None /\
  map (fun p => (k_body p, k_ns p, k_nr p)) (e_sent (n_ep n)) = [(Some 7, 0, 1); (None, 1, 2)].
Proof. vm_compute. splits; reflexivity. Qed.

(* ================= dead under the runner's OWN schedule ================= *)
Lemma next_rto_le_acc : forall q a, exists x, next_rto q (Some a) = Some x /\ x <= a.
Proof.
  induction q as [|p r IH]; intros a; simpl; [exists a; split; [reflexivity|lia]|].
  destruct (p_att p =? 0); [apply IH|].
  destruct (p_dl p <? a) eqn:E.
  - destruct (IH (p_dl p)) as (x & Hx & Hl). exists x. split; [exact Hx|lia].
  - apply IH.
Qed.

Lemma earliest_le x z : exists rr, earliest (Some x) z = Some rr /\ rr <= x.
Proof.
  unfold earliest. destruct z as [y|]; [destruct (y <? x) eqn:E|]; eexists; (split; [reflexivity|lia]).
Qed.

Lemma ret_le_head p' r' z : 1 <= p_att p' ->
  exists rr, earliest (next_rto (p' :: r') None) z = Some rr /\ rr <= p_dl p'.
Proof.
  intros Ha. cbn [next_rto]. assert (p_att p' =? 0 = false) as -> by lia.
  destruct (next_rto_le_acc r' (p_dl p')) as (x & Hx & Hl). rewrite Hx.
  destruct (earliest_le x z) as (rr & Hr & Hle). exists rr. split; [exact Hr|lia].
Qed.

(* one Tick seen from the queue head: dead, or the head survives — untouched before its deadline, with one
   more attempt and a new deadline within rtoMax after it — and Tick tells the runner to come back no later
   than the head's (new) deadline *)
Lemma tick_head f c t p r c' o d ret :
  c_q c = p :: r -> 1 <= p_att p -> tick f c t = (c', o, d, ret) ->
  d = true \/
  (d = false /\ exists p' r', c_q c' = p' :: r' /\
     ((t < p_dl p /\ p' = p) \/
      (p_dl p <= t /\ p_att p' = p_att p + 1 /\ p_att p' <= f_maxr f /\ p_dl p' <= t + f_rto_max f)) /\
     exists rr, ret = Some rr /\ rr <= p_dl p').
Proof.
  intros Hq Ha H. unfold tick in H. rewrite Hq in H. cbn [tick_q] in H.
  destruct ((p_att p =? 0) || (t <? p_dl p)) eqn:Es.
  - assert (t < p_dl p) by lia.
    destruct (tick_q f t (c_nr c) (c_cwnd c) (c_ssth c) r) as [[[oq cw] ss] o1].
    destruct oq as [r'|]; cbn [option_map] in H; inversion H; subst; clear H; [|left; reflexivity].
    right. split; [reflexivity|]. exists p, r'. cbn [c_q]. splits; auto.
    apply ret_le_head; exact Ha.
  - assert (p_dl p <= t) by lia.
    destruct (f_maxr f <? p_att p + 1) eqn:Ed; [inversion H; subst; left; reflexivity|].
    match type of H with context [tick_q f t ?n 1 ?s r] =>
      destruct (tick_q f t n 1 s r) as [[[oq cw] ss] o1] end.
    destruct oq as [r'|]; cbn [option_map] in H; inversion H; subst; clear H; [|left; reflexivity].
    right. split; [reflexivity|]. eexists; exists r'. cbn [c_q]. splits; [reflexivity| |].
    + right. cbn [p_att p_dl]. splits; try lia.
      destruct (f_rto_max f <? f_rto_init f * pow2 (p_att p + 1 - 1)) eqn:E; lia.
    + assert (p_att p + 1 =? 0 = false) as -> by lia.
      match goal with |- context [next_rto r' (Some ?a)] =>
        destruct (next_rto_le_acc r' a) as (x & Hx & Hl); rewrite Hx end.
      match goal with |- context [earliest (Some x) ?z] =>
        destruct (earliest_le x z) as (rr & Hr & Hle) end.
      exists rr. split; [exact Hr|]. cbn [p_dl]. lia.
Qed.

(* the runner loop: Tick, then sleep until runner_next; between Ticks anything may happen to the channel that
   leaves the queue head alone ([g k]: submissions, duplicates, messages that acknowledge nothing new, ...) *)
Definition keeps_head (g : chan -> chan) : Prop :=
  forall c p r, c_q c = p :: r -> 1 <= p_att p -> exists r', c_q (g c) = p :: r'.

Fixpoint runner_dead (poll : Z) (f : conf) (g : nat -> chan -> chan) (c : chan) (t : Z) (fuel : nat) : option Z :=
  match fuel with
  | O => None
  | S k => let '(c', _, d, ret) := tick f c t in
           if d then Some t else runner_dead poll f g (g k c') (runner_next poll ret t) k
  end.

Definition rstep (f : conf) : Z := Z.max (f_rto_max f) 50 + 50.

Lemma dead_under_runner poll f g : 0 < poll -> (forall k, keeps_head (g k)) ->
  forall fuel c t p r,
  c_q c = p :: r -> 1 <= p_att p <= f_maxr f ->
  Z.max t (p_dl p + 50) + (f_maxr f - p_att p) * rstep f - t < Z.of_nat fuel * 50 ->
  exists td, runner_dead poll f g c t fuel = Some td /\
             t <= td <= Z.max t (p_dl p + 50) + (f_maxr f - p_att p) * rstep f.
Proof.
  intros Hpoll Hg. unfold rstep.
  induction fuel as [|k IH]; intros c t p r Hq Ha Hf.
  - exfalso. simpl in Hf. nia.
  - cbn [runner_dead].
    destruct (tick f c t) as [[[c' o] d] ret] eqn:E.
    destruct (tick_head _ _ _ _ _ _ _ _ _ Hq (proj1 Ha) E) as [->|(-> & p' & r' & Hq' & Hcase & rr & -> & Hrr)].
    + exists t. split; [reflexivity|]. nia.
    + assert (Hp' : 1 <= p_att p') by (destruct Hcase as [[_ ->]|(_ & Ea & _)]; lia).
      destruct (Hg k c' p' r' Hq' Hp') as (r'' & Hq'').
      destruct (runner_next_bounds poll (Some rr) t Hpoll) as [_ Hn].
      assert (Hstep : t + 50 <= runner_next poll (Some rr) t <= Z.max (p_dl p') (t + 50)) by (rewrite Hn; lia).
      destruct Hcase as [[Hlt ->]|(Hge & Hatt & Hmax & Hdl)].
      * destruct (IH (g k c') (runner_next poll (Some rr) t) p r'' Hq'' Ha) as (td & Htd & Hb); [nia|].
        exists td. split; [exact Htd|]. nia.
      * destruct (IH (g k c') (runner_next poll (Some rr) t) p' r'' Hq'' ltac:(lia)) as (td & Htd & Hb).
        { rewrite Hatt. nia. }
        exists td. split; [exact Htd|]. rewrite Hatt in Hb. nia.
Qed.

(* two instances of head-preserving interference: a submission (with any write fault), and an inbound
   message whose Nr does not acknowledge the head (duplicates, retransmissions of the peer, ZLBs with an old Nr) *)
Lemma submit_keeps_head f body sid now fj :
  keeps_head (fun c => fst (fst (send_session f c body sid now fj))).
Proof.
  intros c p r Hq Ha. unfold send_session, drive_send. cbn [c_q c_cwnd c_nr]. rewrite Hq. cbn [app drive_q].
  assert (0 <? p_att p = true) as -> by lia.
  match goal with |- context [drive_q ?a ?b ?d ?i fj ?q] => destruct (drive_q a b d i fj q) as [[r' o] e] end.
  cbn. eexists; reflexivity.
Qed.

Lemma recv_keeps_head f ns nr now fj rc :
  forall c p r, c_q c = p :: r -> 1 <= p_att p -> seq_less (p_ns p) nr = false ->
  exists r', c_q (fst (fst (fst (recv f c ns nr now fj rc)))) = p :: r'.
Proof.
  intros c p r Hq Ha Hs. unfold recv, ack_through.
  destruct (r_ig rc && seq_less (c_ns c) nr).
  - destruct (negb (ns =? c_nr c)); cbn; rewrite Hq; eexists; reflexivity.
  - rewrite Hq. cbn [ack_q].
    assert (p_att p =? 0 = false) as -> by lia. rewrite Hs. cbn.
    destruct (negb (ns =? c_nr c)); cbn; eexists; reflexivity.
Qed.

Lemma runner_dead_example :
  runner_dead 500 ex_conf (fun _ c => c) ex_chan 100 30 = Some 700 /\
  runner_dead 500 ex_conf (fun k c => fst (fst (send_session ex_conf c (Z.of_nat k) 0 0 None))) ex_chan 100 30 = Some 700.
Proof. vm_compute. split; reflexivity. Qed.

Lemma reachable_inv ai am ar az aw bi bm br bz bw oa ob evs :
  honest evs = true ->
  let s := run false (init_sys (ai, am, ar, az, aw) (bi, bm, br, bz, bw) oa ob) evs in
  Z.of_nat (length (e_sub (s_a s))) < 32768 -> Z.of_nat (length (e_sub (s_b s))) < 32768 ->
  dir_inv oa (s_a s) (s_b s) /\ dir_inv ob (s_b s) (s_a s).
Proof. intros Hh s BA BB. apply run_inv; [apply init_inv|exact Hh|split; assumption]. Qed.

(* the states the progress / accounting theorems talk about do occur: at the end of [wrap_run] A's queue is empty
   and A never declared dead (quiescent: everything delivered), B's only message is handed over but not yet
   acknowledged (still queued, in flight) *)
Lemma accounting_example :
  let s := run false (init_sys (100, 400, 3, 50, 1) (100, 400, 3, 50, 1) 65535 32767) wrap_run in
  c_q (e_ch (s_a s)) = [] /\ e_dead (s_a s) = 0%nat /\ e_del (s_b s) = e_sub (s_a s) /\
  map p_att (c_q (e_ch (s_b s))) = [1] /\ e_sub (s_b s) = [200] /\ e_del (s_a s) = [200] /\ e_acked (s_b s) = [].
Proof. vm_compute. splits; reflexivity. Qed.

(* a Tick before the ZLB deadline: armed at 250, Tick at 200 reports 250, the runner comes back at 250 *)
Lemma runner_zlb_example :
  let c := fst (fst (fst (recv ex_conf (new_chan 1) 0 0 200 None head_choice))) in
  c_zlb c = Some 250 /\
  (let '(c', o, d, ret) := tick ex_conf c 200 in o = [] /\ d = false /\ ret = Some 250 /\ runner_next 500 ret 200 = 250) /\
  (let '(c', o, d, ret) := tick ex_conf c 250 in map k_nr o = [1] /\ c_zlb c' = None).
Proof. vm_compute. splits; reflexivity. Qed.

(* ================= one control connection = one tunnel, whatever the network does to the SCCRQ ================= *)
Lemma conn_opens_seen evs : forall st, st <> CNone -> conn_opens true st evs = 0%nat.
Proof.
  induction evs as [|e r IH]; intros st H; simpl; [reflexivity|].
  destruct e, st; simpl; try congruence; apply IH; discriminate.
Qed.

Lemma sccrq_once evs : (conn_opens true CNone evs <= 1)%nat.
Proof.
  induction evs as [|e r IH]; simpl; [lia|].
  destruct e; simpl; auto. rewrite conn_opens_seen by discriminate. lia.
Qed.

Lemma sccrq_twice_without_linger : conn_opens false CNone [CSccrq; COther; CTeardown; CSccrq] = 2%nat.
Proof. reflexivity. Qed.

(* ================= the implementation's free choices ================= *)
(* between honest endpoints an Nr is never ahead of the receiver's own next Ns: the r_ig choice only ever matters
   for forged packets *)
Lemma honest_ack_never_ahead o S R pk :
  dir_inv o S R -> Z.of_nat (length (e_sub S)) < 32768 -> In pk (e_sent R) ->
  seq_less (c_ns (e_ch S)) (k_nr pk) = false.
Proof.
  intros [Hns _ _ [rest Hp] _ HsR _ _] Hb Hin.
  destruct (HsR pk Hin) as (k & Hk & ->). rewrite Hns.
  assert ((length (e_del R) <= length (e_sub S))%nat) by (rewrite Hp, app_length; lia).
  rewrite seq_less_window by lia. lia.
Qed.

(* both delayed-acknowledgement policies seen so far are admissible choices: re-arm at now + zlbDelay (r_zd = None),
   and keep an earlier pending deadline *)
Lemma zlb_policies_admissible f now prev :
  zlb_choice f now None = now + f_zlb f /\
  zlb_choice f now (Some (Z.min prev (now + f_zlb f))) = Z.min prev (now + f_zlb f).
Proof. unfold zlb_choice. split; [reflexivity|]. destruct (Z.min prev (now + f_zlb f) <=? now + f_zlb f) eqn:E; lia. Qed.

(* ================= the bring-up over a faulty network, end to end ================= *)
(* LAC = A, LNS = B.  Bodies: 1 SCCRQ, 2 SCCRP, 3 SCCCN, 4 ICRQ, 5 ICRP, 6 ICCN.  The first SCCRP is lost, the SCCRQ is
   retransmitted (a duplicate for B), the network duplicates the ICRQ: each protocol machine still receives every
   message of its peer exactly once, in order, and both queues drain. *)
Definition bringup : list event :=
  let hc := head_choice in
  [ Submit SA 1 0 0 None false; Deliver SB 0 1 None hc; Submit SB 2 0 1 None false;
    Tick SA 1000 []; Deliver SB 1 1001 None hc; Tick SB 1001 [];
    Deliver SA 1 1002 None hc; Submit SA 3 0 1002 None false; Submit SA 4 0 1002 None false;
    Deliver SB 2 1003 None hc; Deliver SB 3 1004 None hc; Submit SB 5 0 1004 None false;
    Deliver SB 3 1005 None hc;
    Deliver SA 2 1006 None hc; Submit SA 6 0 1006 None false;
    Deliver SB 4 1007 None hc; Tick SB 1300 []; Deliver SA 3 1301 None hc ].
Lemma bringup_example :
  let s := run false (init_sys (0, 0, 0, 0, 16) (0, 0, 0, 0, 16) 0 0) bringup in
  honest bringup = true /\
  e_del (s_b s) = [1; 3; 4; 6] /\ e_sub (s_a s) = [1; 3; 4; 6] /\ e_del (s_a s) = [2; 5] /\ e_sub (s_b s) = [2; 5] /\
  c_q (e_ch (s_a s)) = [] /\ c_q (e_ch (s_b s)) = [] /\ e_dead (s_a s) = 0%nat /\ e_dead (s_b s) = 0%nat.
Proof. vm_compute. splits; reflexivity. Qed.

(* ================= one write = one attempt ================= *)
(* [att_incs q q'] = the keys, in order, of the entries whose attempts went up by exactly one between q and q'
   (None if anything else changed) *)
Fixpoint att_incs (q q' : list pending) : option (list (Z * Z)) :=
  match q, q' with
  | [], [] => Some []
  | p :: r, p' :: r' =>
      if negb ((p_ns p' =? p_ns p) && (p_body p' =? p_body p)) then None
      else if p_att p' =? p_att p then att_incs r r'
      else if p_att p' =? p_att p + 1 then option_map (cons (key p)) (att_incs r r')
      else None
  | _, _ => None
  end.
Definition pkey (k : pkt) : Z * Z := (k_ns k, match k_body k with Some b => b | None => (-1) end).

Lemma att_incs_refl q : att_incs q q = Some [].
Proof.
  induction q as [|p r IH]; simpl; [reflexivity|].
  rewrite !Z.eqb_refl. simpl. exact IH.
Qed.

(* driveSend: the writes it attempts (successful ones, then the failing one) are exactly the entries it marks
   0 -> 1, in queue order *)
Lemma drive_q_writes cwnd nr dl : forall q infl fj q' o e,
  (forall p, In p q -> 0 <= p_att p) ->
  drive_q cwnd nr dl infl fj q = (q', o, e) ->
  att_incs q q' = Some (map pkey (o ++ opt_list e)).
Proof.
  induction q as [|p r IH]; intros infl fj q' o e Hn H; simpl in H.
  - inversion H; subst. reflexivity.
  - assert (Hr : forall x, In x r -> 0 <= p_att x) by (intros x Hx; apply Hn; right; exact Hx).
    pose proof (Hn p (or_introl eq_refl)) as Hp.
    destruct (0 <? p_att p) eqn:Ea.
    + destruct (drive_q cwnd nr dl infl fj r) as [[r' o'] e'] eqn:E. inversion H; subst.
      simpl. rewrite !Z.eqb_refl. simpl. eapply IH; eauto.
    + assert (p_att p = 0) by lia.
      destruct (cwnd <=? infl).
      * inversion H; subst. cbn [app opt_list map]. apply att_incs_refl.
      * destruct fj as [[|k]|].
        -- inversion H; subst. cbn [att_incs p_ns p_body p_att app opt_list map pkey k_ns k_body key].
           rewrite !Z.eqb_refl. cbn [andb negb]. rewrite H0. change (1 =? 0) with false. change (1 =? 0 + 1) with true.
           cbv iota. rewrite att_incs_refl. reflexivity.
        -- destruct (drive_q cwnd nr dl (infl + 1) (Some k) r) as [[r' o'] e'] eqn:E. inversion H; subst.
           cbn [att_incs p_ns p_body p_att app map pkey k_ns k_body key].
           rewrite !Z.eqb_refl. cbn [andb negb]. rewrite H0. change (1 =? 0) with false. change (1 =? 0 + 1) with true.
           cbv iota. rewrite (IH _ _ _ _ _ Hr E). reflexivity.
        -- destruct (drive_q cwnd nr dl (infl + 1) None r) as [[r' o'] e'] eqn:E. inversion H; subst.
           cbn [att_incs p_ns p_body p_att app map pkey k_ns k_body key].
           rewrite !Z.eqb_refl. cbn [andb negb]. rewrite H0. change (1 =? 0) with false. change (1 =? 0 + 1) with true.
           cbv iota. rewrite (IH _ _ _ _ _ Hr E). reflexivity.
Qed.

(* Tick (when it does not declare dead): the retransmissions it writes are exactly the entries whose attempts it
   increments, in queue order (write errors are ignored by Tick: every attempt is counted) *)
Lemma tick_q_writes f now nr : forall q cwnd ssth q' cw ss o,
  tick_q f now nr cwnd ssth q = (Some q', cw, ss, o) ->
  att_incs q q' = Some (map pkey o).
Proof.
  induction q as [|p r IH]; intros cwnd ssth q' cw ss o H; simpl in H.
  - inversion H; subst. reflexivity.
  - destruct ((p_att p =? 0) || (now <? p_dl p)).
    + destruct (tick_q f now nr cwnd ssth r) as [[[r' cw1] ss1] o1] eqn:E.
      destruct r' as [r'|]; simpl in H; [|discriminate]. inversion H; subst.
      simpl. rewrite !Z.eqb_refl. simpl. eapply IH; eauto.
    + destruct (f_maxr f <? p_att p + 1); [discriminate|].
      match type of H with context [tick_q f now nr 1 ?s r] =>
        destruct (tick_q f now nr 1 s r) as [[[r' cw1] ss1] o1] eqn:E end.
      destruct r' as [r'|]; simpl in H; [|discriminate]. inversion H; subst.
      cbn [att_incs p_ns p_body p_att map pkey k_ns k_body key].
      rewrite !Z.eqb_refl. cbn [andb negb].
      assert (p_att p + 1 =? p_att p = false) as -> by lia. rewrite (IH _ _ _ _ _ _ E). reflexivity.
Qed.

(* ================= exactly once for histories of any length, under the packet-lifetime hypothesis ================= *)
Definition fresh_step (oa ob : Z) (s : sys) (ev : event) : Prop :=
  match ev with
  | Deliver x idx _ _ _ =>
      match nth_error (e_sent (ep s (peer x))) idx with
      | Some pk =>
          match x with
          | SA => fresh_ack oa (s_a s) (s_b s) pk /\ fresh_data ob (s_b s) (s_a s) pk
          | SB => fresh_ack ob (s_b s) (s_a s) pk /\ fresh_data oa (s_a s) (s_b s) pk
          end
      | None => True
      end
  | _ => True
  end.
Fixpoint fresh_run (oa ob : Z) (s : sys) (evs : list event) : Prop :=
  match evs with
  | [] => True
  | ev :: r => fresh_step oa ob s ev /\ fresh_run oa ob (fst (step false s ev)) r
  end.

Lemma step_inv_fresh oa ob s ev :
  sys_inv oa ob s -> is_inject ev = false -> fresh_step oa ob s ev -> sys_inv oa ob (fst (step false s ev)).
Proof.
  intros [IA IB] Hh Hf.
  destruct ev as [x body sid now fj rf|x idx now fj rc|x p now fj rc|x now drops|x w]; try discriminate; unfold step.
  - destruct (rf && (0 <? e_dead (ep s x))%nat); [split; assumption|].
    destruct (ep_submit (ep s x) body sid now fj) as [e ob'] eqn:E. destruct x; simpl in *; split;
      eauto using submit_sender, submit_receiver.
  - cbn [fresh_step] in Hf.
    destruct (nth_error (e_sent (ep s (peer x))) idx) as [p|] eqn:En; [|split; assumption].
    apply nth_error_In in En.
    destruct (ep_deliver false (ep s x) p now fj rc) as [e ob'] eqn:E.
    destruct x; destruct Hf as [F1 F2]; simpl in *; split.
    + eapply deliver_sender_fresh; eauto.
    + eapply deliver_receiver_fresh; eauto.
    + eapply deliver_receiver_fresh; eauto.
    + eapply deliver_sender_fresh; eauto.
  - destruct (ep_tick (ep s x) now drops) as [e ob'] eqn:E. destruct x; simpl in *; split;
      eauto using tick_sender, tick_receiver.
  - destruct (ep_setwin (ep s x) w) as [e ob'] eqn:E. destruct x; simpl in *; split;
      eauto using setwin_sender, setwin_receiver.
Qed.

Lemma run_inv_fresh oa ob : forall evs s,
  sys_inv oa ob s -> honest evs = true -> fresh_run oa ob s evs -> sys_inv oa ob (run false s evs).
Proof.
  induction evs as [|ev r IH]; intros s Hi Hh Hf; simpl in *; [exact Hi|].
  apply andb_true_iff in Hh as [H1 H2]. apply negb_true_iff in H1. destruct Hf as [F1 F2].
  apply IH; auto. apply step_inv_fresh; auto.
Qed.

(* EXACTLY ONCE, IN ORDER for histories of ANY length (any number of submissions, any number of 16-bit wraps), provided
   every delivered packet is fresh at the moment it is delivered. *)
Lemma exactly_once_unbounded ai am ar az aw bi bm br bz bw oa ob evs :
  honest evs = true ->
  fresh_run oa ob (init_sys (ai, am, ar, az, aw) (bi, bm, br, bz, bw) oa ob) evs ->
  let s := run false (init_sys (ai, am, ar, az, aw) (bi, bm, br, bz, bw) oa ob) evs in
  (exists rest, e_sub (s_a s) = e_del (s_b s) ++ rest) /\
  (exists rest, e_sub (s_b s) = e_del (s_a s) ++ rest) /\
  (forall i, In i (e_acked (s_a s)) -> (i < length (e_del (s_b s)))%nat) /\
  (forall i, In i (e_acked (s_b s)) -> (i < length (e_del (s_a s)))%nat) /\
  (forall x, e_dead (ep s x) = 0%nat ->
     (length (e_sub (ep s x)) - length (c_q (e_ch (ep s x))) <= length (e_del (ep s (peer x))))%nat).
Proof.
  intros Hh Hf s.
  assert (I : sys_inv oa ob s) by (apply run_inv_fresh; [apply init_inv|exact Hh|exact Hf]).
  destruct I as [IA IB]. splits.
  - apply (di_prefix _ _ _ IA).
  - apply (di_prefix _ _ _ IB).
  - apply (di_acked _ _ _ IA).
  - apply (di_acked _ _ _ IB).
  - intros x Hd. destruct x; simpl in *; [apply (di_base _ _ _ IA Hd)|apply (di_base _ _ _ IB Hd)].
Qed.

(* the hypothesis is implied by the old bound: with fewer than 2^15 submissions per direction every packet is fresh *)
Lemma bounded_is_fresh_data o S R pk :
  dir_inv o S R -> Z.of_nat (length (e_sub S)) < 32768 -> In pk (e_sent S) -> fresh_data o S R pk.
Proof.
  intros [_ _ _ [rest Hp] HsS _ _ _] Hb Hin b Eb.
  assert ((length (e_del R) <= length (e_sub S))%nat) by (rewrite Hp, app_length; lia).
  pose proof (HsS pk b Hin Eb) as Hs. apply stamped_in in Hs. destruct Hs as (j & Hj & Hfst & Hnth).
  cbn [fst snd] in Hfst, Hnth. exists j. splits; auto; try lia.
Qed.

Lemma bounded_is_fresh_ack o S R pk :
  dir_inv o S R -> Z.of_nat (length (e_sub S)) < 32768 -> In pk (e_sent R) -> fresh_ack o S R pk.
Proof.
  intros [_ _ _ [rest Hp] _ HsR _ _] Hb Hin.
  assert ((length (e_del R) <= length (e_sub S))%nat) by (rewrite Hp, app_length; lia).
  destruct (HsR pk Hin) as (k & Hk & Hknr). exists k. splits; auto. intros h Hh. lia.
Qed.

Lemma bounded_run_is_fresh oa ob : forall evs s,
  sys_inv oa ob s -> honest evs = true -> bounded (run false s evs) -> fresh_run oa ob s evs.
Proof.
  induction evs as [|ev r IH]; intros s Hi Hh Hb; simpl in *; [exact I|].
  apply andb_true_iff in Hh as [H1 H2]. apply negb_true_iff in H1.
  assert (Bs : bounded s).
  { destruct Hb as [BA BB]. split.
    - pose proof (run_sub_mono false r (fst (step false s ev)) SA).
      pose proof (step_sub_mono false s ev SA). simpl in *. lia.
    - pose proof (run_sub_mono false r (fst (step false s ev)) SB).
      pose proof (step_sub_mono false s ev SB). simpl in *. lia. }
  split.
  - destruct Hi as [IA IB]. destruct Bs as [BA BB].
    destruct ev as [x body sid now fj rf|x idx now fj rc|x p now fj rc|x now drops|x w]; cbn [fresh_step]; auto.
    destruct (nth_error (e_sent (ep s (peer x))) idx) as [pk|] eqn:En; [|exact I].
    apply nth_error_In in En.
    destruct x; simpl in En; split;
      eauto using bounded_is_fresh_data, bounded_is_fresh_ack.
  - apply IH; auto. apply step_inv; auto.
Qed.
