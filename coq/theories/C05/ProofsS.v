(* C05/ProofsS.v — the session layer (Sess.v) *)
From OV Require Import Common.Base C05.Model C05.Proofs C05.Disp C05.Sess.
Open Scope Z_scope.

Definition echo_frame (id : Z) (data : list Z) : list Z :=
  [9; id; ((4 + len data) / 256) mod 256; (4 + len data) mod 256] ++ data.

Definition lower_down (s : St) : bool := match s with Initial | Starting => true | _ => false end.

(* Down always leaves an automaton in Initial or Starting *)
Lemma down_lower c v f : lower_down (st (step c v f EDown)) = true.
Proof. destruct f as [s i r fl l a o hl ns pk]; destruct s; reflexivity. Qed.

Lemma checkOpen_sys c s : sy (fst (checkOpen c s)) = sy s.
Proof.
  unfold checkOpen. destruct (ph s); try reflexivity.
  destruct ((ipcpOpen s || ip6Open s) && negb (lns c && published s)); reflexivity.
Qed.

Lemma ncp_callback_sys c t a s : sy (fst (ncp_callback c t a s)) = sy s.
Proof. destruct a, t; cbn [ncp_callback]; try reflexivity; rewrite checkOpen_sys; reflexivity. Qed.

Lemma ncp_react_sys c t acts : forall s, sy (fst (ncp_react c t acts s)) = sy s.
Proof.
  induction acts as [|a acts IH]; intros s; [reflexivity|]. cbn [ncp_react].
  pose proof (ncp_callback_sys c t a s) as C.
  destruct (ncp_callback c t a s) as [s1 o1]. cbn [fst] in C.
  pose proof (IH s1) as R. destruct (ncp_react c t acts s1) as [s2 o2]. cbn [fst] in *. congruence.
Qed.

Lemma ncp_apply_sys c v t e s :
  sy (fst (ncp_apply c v t e s)) = put t (step (ncp_cfg_of (s_cfg c)) v (get t (sy s)) e) (sy s).
Proof. unfold ncp_apply, ncp_event. rewrite ncp_react_sys. reflexivity. Qed.

(* onLCPDown: both NCP automata are taken Down and the phase falls back to Establish *)
Lemma lcp_down_callback c v s :
  (lns c = false \/ lns_down_fixed c = true) ->
  let s' := fst (lcp_callback c v Tld s) in
  ph s' = PhEstablish /\
  lower_down (st (s_ipcp (sy s'))) = true /\ lower_down (st (s_ip6 (sy s'))) = true /\
  s_lcp (sy s') = s_lcp (sy s).
Proof.
  intros OW. cbn zeta. unfold lcp_callback, seq2.
  replace (lns c && negb (lns_down_fixed c)) with false
    by (destruct OW as [-> | ->]; [reflexivity|rewrite andb_false_r; reflexivity]).
  pose proof (ncp_apply_sys c v TIpcp EDown s) as Y1.
  destruct (ncp_apply c v TIpcp EDown s) as [s1 o1]. cbn [fst] in Y1.
  pose proof (ncp_apply_sys c v TIp6 EDown s1) as Y2.
  destruct (ncp_apply c v TIp6 EDown s1) as [s2 o2]. cbn [fst] in Y2.
  cbn. rewrite Y2, Y1. cbn. repeat split; [apply (down_lower (ncp_cfg_of (s_cfg c)) v)|apply (down_lower (ncp_cfg_of (s_cfg c)) v)].
Qed.

(* RFC 1661 5.8 with the repaired host callback: the Echo-Request the dispatcher hands to the host
   (C05_dispatch_routes / handleLCP: LCP code 9) is answered exactly when the LCP automaton is in Opened (and the
   session has not been handed to an L2TP tunnel); nothing else changes *)
Lemma echo_reply_repaired c v s id data :
  echo_fixed c = true ->
  host_call c v (HEchoReq id data) s =
  (s, if st_eqb (st (s_lcp (sy s))) Opened && negb (match ph s with PhLACTunneled => true | _ => false end)
      then [OEchoReply id (skipn 4 data)] else []).
Proof.
  intros EF. unfold host_call, echo_reply_due. rewrite EF.
  destruct (st_eqb (st (s_lcp (sy s))) Opened && negb match ph s with PhLACTunneled => true | _ => false end); reflexivity.
Qed.

(* the closure before 1b41d89: LCP Opened, phase Authenticate, Echo-Request with a Magic-Number: no Echo-Reply *)
Definition scfg_head : scfg := mkScfg default_cfg true false false false.   (* internal/pppoe before 1b41d89 *)
Definition scfg_rep : scfg := mkScfg default_cfg true true false false.     (* internal/pppoe, /repo HEAD *)
Definition lcp_bringup : list XOp :=
  [XUp; XFrame ProtoLCP [1; 7; 0; 8; 1; 4; 5; 212] CGood; XFrame ProtoLCP [2; 1; 0; 4] CGood].
Definition echo_req : XOp := XFrame ProtoLCP (echo_frame 5 [1; 2; 3; 4; 170]) CGood.
Lemma echo_reply_refuted :
  let s := fst (sess_run scfg_head Repaired (sess_init (head_pick 0) (head_pick 0) (head_pick 0)) lcp_bringup) in
  st (s_lcp (sy s)) = Opened /\ ph s = PhAuthenticate /\
  snd (sess_step scfg_head Repaired s echo_req) = [] /\
  snd (sess_step scfg_rep Repaired s echo_req) = [OEchoReply 5 [170]].
Proof. vm_compute. repeat split; reflexivity. Qed.

(* non-vacuity of the session model: a full bring-up (LCP, authentication, IPCP) reaches phase Open, and a
   Terminate-Request on LCP then takes both NCPs down and marks the link ended *)
Lemma session_nonvac :
  let ops := lcp_bringup ++ [XAuth true; XFrame ProtoIPCP [1; 7; 0; 10; 3; 6; 10; 55; 0; 2] CGood;
                             XFrame ProtoIPCP [2; 1; 0; 4] CGood] in
  let s := fst (sess_run scfg_rep Repaired (sess_init (head_pick 0) (head_pick 0) (head_pick 0)) ops) in
  ph s = PhOpen /\ st (s_lcp (sy s)) = Opened /\ st (s_ipcp (sy s)) = Opened /\ ipcpOpen s = true /\
  let s' := fst (sess_step scfg_rep Repaired s (XFrame ProtoLCP [5; 9; 0; 4] CGood)) in
  ph s' = PhEstablish /\ st (s_lcp (sy s')) = Stopping /\ st (s_ipcp (sy s')) = Starting /\
  st (s_ip6 (sy s')) = Starting /\ ipcpOpen s' = false /\ linkEnded s' = true.
Proof. vm_compute. repeat split; reflexivity. Qed.

(* internal/l2tp (LNS sessions) before c99b5bd: onLCPDown only reset the phase, the NCP automata never got the Down event that
   this-layer-down of LCP stands for (RFC 1661 4.4): IPCP stays Opened across an LCP renegotiation although the
   link below it is down; with the callback repaired (as internal/pppoe) it goes Down *)
Definition scfg_lns_head : scfg := mkScfg default_cfg true true true false.
Definition scfg_lns_rep : scfg := mkScfg default_cfg true true true true.
Definition lns_open_ops : list XOp :=
  lcp_bringup ++ [XAuth true; XFrame ProtoIPCP [1; 7; 0; 10; 3; 6; 10; 55; 0; 2] CGood; XFrame ProtoIPCP [2; 1; 0; 4] CGood].
Lemma lns_lcp_down_refuted :
  let peer_renegotiates := XFrame ProtoLCP [1; 8; 0; 8; 1; 4; 5; 212] CGood in
  let s := fst (sess_run scfg_lns_head Repaired (sess_init (head_pick 0) (head_pick 0) (head_pick 0)) lns_open_ops) in
  let s' := fst (sess_step scfg_lns_head Repaired s peer_renegotiates) in
  ph s = PhOpen /\ st (s_ipcp (sy s)) = Opened /\
  st (s_lcp (sy s')) = AckSent /\ ph s' = PhEstablish /\
  st (s_ipcp (sy s')) = Opened /\ ipcpOpen s' = true /\
  (let r := fst (sess_run scfg_lns_rep Repaired (sess_init (head_pick 0) (head_pick 0) (head_pick 0))
                   (lns_open_ops ++ [peer_renegotiates])) in
   st (s_ipcp (sy r)) = Starting /\ ipcpOpen r = false /\ ph r = PhEstablish).
Proof. vm_compute. repeat split; reflexivity. Qed.
