From Coq Require Import Extraction ExtrOcamlBasic.
From OV Require Import Common.Base C05.Model C05.Disp C05.Sess C05.Adm.
Extraction Language OCaml.
Extraction "C05_model.ml" init init_id step outs obs default_cfg classify rfc1661 conformsb counter_after ids_okb
  trace alternates both_acked is_bad_cell waiting count_acts N.of_nat parse_opts confreq_content hlog serialize restore kill raw_timeout fire_still_valid handle_frame admin sys_init sess_step sess_init adm_item adm0.
