(* C05/Disp.v — the caller of the three automata: internal/ppp/dispatcher.go (package pppdisp), transcribed.
   One PPP session = an LCP, an IPCP and an IPv6CP automaton behind Dispatcher.HandleFrame, which parses
   the code/id/length header, enforces the phase rule of RFC 1661 section 3.4 for the NCPs, diverts the LCP
   codes that the host handles itself (Echo-Request/-Reply, Protocol-Reject) and hands everything else to
   FSM.Input of the automaton of that protocol. *)
From OV Require Import Common.Base C05.Model.
Open Scope Z_scope.

(* pkg/ppp/phase.go *)
Inductive Phase := PhDead | PhEstablish | PhAuthenticate | PhNetwork | PhOpen | PhTerminate
                 | PhLACTunnelPending | PhLACTunneled.

(* protocol numbers of pkg/ppp/protocol.go *)
Definition ProtoLCP := 49185.    (* 0xc021 *)
Definition ProtoPAP := 49187.    (* 0xc023 *)
Definition ProtoCHAP := 49699.   (* 0xc223 *)
Definition ProtoIPCP := 32801.   (* 0x8021 *)
Definition ProtoIPv6CP := 32855. (* 0x8057 *)
Definition ProtoIPv6 := 87.      (* 0x0057 *)

Record sys := mkSys { s_lcp : fsm; s_ipcp : fsm; s_ip6 : fsm }.

(* the host callbacks of type Dispatcher that a frame can trigger *)
Inductive HostCall :=
| HPap (code id : Z) (data : list Z) | HChap (code id : Z) (data : list Z)
| HEchoReq (id : Z) (data : list Z) | HEchoRep (id : Z) (data : list Z)
| HProtoRej (proto : Z)                      (* OnProtocolReject(rejectedProto) *)
| HSendProtoRej (proto : Z) (payload : list Z)
| HIPv6 (payload : list Z).

Inductive DErr := ErrFrameShort | ErrFrameLengthMismatch.

(* which automaton (if any) FSM.Input was called on *)
Inductive Target := TNone | TLcp | TIpcp | TIp6.

Record dres := mkDres { d_sys : sys; d_host : list HostCall; d_err : option DErr; d_target : Target }.

(* func (d *Dispatcher) inNetworkPhase() *)
Definition inNetworkPhase (p : Phase) : bool := match p with PhNetwork | PhOpen => true | _ => false end.

Definition lcp_cfg (c : cfg) : cfg := mkCfg (maxConf c) (maxTerm c) true.
Definition ncp_cfg_of (c : cfg) : cfg := mkCfg (maxConf c) (maxTerm c) false.

(* func (d *Dispatcher) handleLCP(code, id, data) *)
Definition handleLCP (c : cfg) (v : variant) (code id : Z) (k : Cls) (data : list Z) (s : sys) : dres :=
  if code =? 9 then mkDres s [HEchoReq id data] None TNone
  else if code =? 10 then mkDres s [HEchoRep id data] None TNone
  else if code =? 8 then
    (if len data >=? 2 then mkDres s [HProtoRej (be (firstn 2 data))] None TNone else mkDres s [] None TNone)
  else mkDres (mkSys (step (lcp_cfg c) v (s_lcp s) (EInput code id k data)) (s_ipcp s) (s_ip6 s)) [] None TLcp.

(* func (d *Dispatcher) HandleFrame(proto, payload); all callbacks and the three automata are non-nil
   (as in internal/pppoe initPPP and internal/l2tp); [k] is the option handler's answer class should the frame
   be a Configure-Request *)
Definition handle_frame (c : cfg) (v : variant) (ph : Phase) (proto : Z) (payload : list Z) (k : Cls)
                        (s : sys) : dres :=
  if proto =? ProtoIPv6 then
    (if inNetworkPhase ph && st_eqb (st (s_ip6 s)) Opened then mkDres s [HIPv6 payload] None TNone
     else mkDres s [] None TNone)
  else if len payload <? 4 then mkDres s [] (Some ErrFrameShort) TNone
  else
    let code := nth 0 payload 0 in
    let id := nth 1 payload 0 in
    let length := be (firstn 2 (skipn 2 payload)) in
    if (length <? 4) || (length >? len payload) then mkDres s [] (Some ErrFrameLengthMismatch) TNone
    else
      let data := firstn (Z.to_nat (length - 4)) (skipn 4 payload) in     (* payload[4:length] *)
      if proto =? ProtoLCP then handleLCP c v code id k data s
      else if proto =? ProtoPAP then mkDres s [HPap code id data] None TNone
      else if proto =? ProtoCHAP then mkDres s [HChap code id data] None TNone
      else if proto =? ProtoIPCP then
        (if inNetworkPhase ph
         then mkDres (mkSys (s_lcp s) (step (ncp_cfg_of c) v (s_ipcp s) (EInput code id k data)) (s_ip6 s)) [] None TIpcp
         else mkDres s [] None TNone)
      else if proto =? ProtoIPv6CP then
        (if inNetworkPhase ph
         then mkDres (mkSys (s_lcp s) (s_ipcp s) (step (ncp_cfg_of c) v (s_ip6 s) (EInput code id k data))) [] None TIp6
         else mkDres s [] None TNone)
      else mkDres s [HSendProtoRej proto payload] None TNone.

(* administrative events reach an automaton directly (session layer: FSM().Up/Open/Down/Close) *)
Definition admin (c : cfg) (v : variant) (t : Target) (e : Ev) (s : sys) : sys :=
  match t with
  | TLcp => mkSys (step (lcp_cfg c) v (s_lcp s) e) (s_ipcp s) (s_ip6 s)
  | TIpcp => mkSys (s_lcp s) (step (ncp_cfg_of c) v (s_ipcp s) e) (s_ip6 s)
  | TIp6 => mkSys (s_lcp s) (s_ipcp s) (step (ncp_cfg_of c) v (s_ip6 s) e)
  | TNone => s
  end.

Definition sys_init (pl pi pv : nat -> Z) : sys := mkSys (init_id 0 pl) (init_id 0 pi) (init_id 0 pv).

(* the frame as RFC 1661 section 5 reads it: Code, Identifier, Length, Data (Length counts the header) *)
Definition frame_ok (payload : list Z) : bool :=
  (4 <=? len payload) && (4 <=? be (firstn 2 (skipn 2 payload))) && (be (firstn 2 (skipn 2 payload)) <=? len payload).
Definition frame_code (payload : list Z) : Z := nth 0 payload 0.
Definition frame_id (payload : list Z) : Z := nth 1 payload 0.
Definition frame_data (payload : list Z) : list Z :=
  firstn (Z.to_nat (be (firstn 2 (skipn 2 payload)) - 4)) (skipn 4 payload).

Definition target_fsm (t : Target) (s : sys) : option fsm :=
  match t with TLcp => Some (s_lcp s) | TIpcp => Some (s_ipcp s) | TIp6 => Some (s_ip6 s) | TNone => None end.
Definition target_cfg (c : cfg) (t : Target) : cfg := match t with TLcp => lcp_cfg c | _ => ncp_cfg_of c end.

(* where the RFC sends a control-protocol frame: LCP frames always to LCP, NCP frames to their NCP in the
   Network phase only (3.4: "any non-LCP packets received during this phase MUST be silently discarded");
   the LCP codes the host answers itself go nowhere *)
Definition expected_target (ph : Phase) (proto : Z) (payload : list Z) : Target :=
  if negb (frame_ok payload) then TNone
  else if proto =? ProtoLCP then
    (let code := frame_code payload in if (code =? 8) || (code =? 9) || (code =? 10) then TNone else TLcp)
  else if proto =? ProtoIPCP then (if inNetworkPhase ph then TIpcp else TNone)
  else if proto =? ProtoIPv6CP then (if inNetworkPhase ph then TIp6 else TNone)
  else TNone.

(* ---- system histories ---- *)
Inductive SOp := SFrame (ph : Phase) (proto : Z) (payload : list Z) (k : Cls) | SAdmin (t : Target) (e : Ev).

Definition sys_step (c : cfg) (v : variant) (s : sys) (o : SOp) : sys :=
  match o with
  | SFrame ph proto payload k => d_sys (handle_frame c v ph proto payload k s)
  | SAdmin t e => admin c v t e s
  end.
Fixpoint sys_run (c : cfg) (v : variant) (s : sys) (ops : list SOp) : sys :=
  match ops with [] => s | o :: ops => sys_run c v (sys_step c v s o) ops end.

Definition target_eqb (a b : Target) : bool :=
  match a, b with TNone, TNone | TLcp, TLcp | TIpcp, TIpcp | TIp6, TIp6 => true | _, _ => false end.

(* the events that reach automaton t, read off the operations alone (routing does not depend on any
   automaton's state) *)
Definition events_for (t : Target) (o : SOp) : list Ev :=
  match o with
  | SFrame ph proto payload k =>
      if target_eqb (expected_target ph proto payload) t
      then [EInput (frame_code payload) (frame_id payload) k (frame_data payload)] else []
  | SAdmin t' e => if target_eqb t' t then [e] else []
  end.
Definition get (t : Target) (s : sys) : fsm :=
  match t with TLcp => s_lcp s | TIpcp => s_ipcp s | TIp6 => s_ip6 s | TNone => s_lcp s end.
