(* C05/Adm.v — which Identifier policies are ADMISSIBLE.  The model is parametric in the Identifiers of the packets an
   automaton originates (Model.pick); the clause "acknowledgements with a stale identifier are ignored" means something
   only if the Identifier of a new Configure-Request cannot coincide with that of an earlier request that may still be
   answered.  Admissibility, read off the observable trace:
     - a Configure-Request carries an Identifier that no Configure-Request among the last 255 originated packets
       (Configure-Request, Terminate-Request, Code-Reject) carried — except that a retransmission (sent by a timeout) may
       keep the Identifier of the request it repeats (RFC 1661 5.1);
     - a Code-Reject does not repeat the Identifier of the previous Code-Reject (RFC 1661 5.6);
     - Terminate-Request Identifiers are free (5.5).
   f.id++ modulo 256 (/repo HEAD) and every policy of period 256 satisfy it; a two-valued policy does not.
   The same executable definition is extracted and used by the correspondence driver for every case kind. *)
From OV Require Import Common.Base C05.Model.
Open Scope Z_scope.

Record adm := mkAdm { a_win : list (option Z);   (* last <= 255 originated packets, most recent first: Some id = a
                                                    Configure-Request, None = Terminate-Request / Code-Reject *)
                      a_last : option Z;          (* Identifier of the last Configure-Request *)
                      a_retx : bool;              (* the current event is a timeout *)
                      a_scj : option Z }.         (* Identifier of the last Code-Reject *)
Definition adm0 : adm := mkAdm [] None false None.

Definition reqs (w : list (option Z)) : list Z :=
  flat_map (fun o => match o with Some i => [i] | None => [] end) w.
Definition window : nat := 255.

Definition adm_item (a : adm) (it : Item) : option adm :=
  match it with
  | IEv e => Some (mkAdm (a_win a) (a_last a) (match e with ETimeout => true | _ => false end) (a_scj a))
  | IAct (Scr i) =>
      if a_retx a && oz_eqb (a_last a) i then Some a
      else if existsb (Z.eqb i) (reqs (a_win a)) then None
      else Some (mkAdm (firstn window (Some i :: a_win a)) (Some i) (a_retx a) (a_scj a))
  | IAct (Str _) => Some (mkAdm (firstn window (None :: a_win a)) (a_last a) (a_retx a) (a_scj a))
  | IAct (Scj i _ _) =>
      if oz_eqb (a_scj a) i then None
      else Some (mkAdm (firstn window (None :: a_win a)) (a_last a) (a_retx a) (Some i))
  | IAct _ => Some a
  end.

Fixpoint adm_run (a : adm) (t : list Item) : option adm :=
  match t with
  | [] => Some a
  | it :: t => match adm_item a it with Some a' => adm_run a' t | None => None end
  end.

Definition ids_admissible (t : list Item) : bool := match adm_run adm0 t with Some _ => true | None => false end.

(* the Configure-Requests of the window other than the most recent one: requests that may still be answered *)
Definition earlier_requests (t : list Item) : list Z :=
  match adm_run adm0 t with Some a => tl (reqs (a_win a)) | None => [] end.
