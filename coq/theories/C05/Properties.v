From OV Require Import Common.Base C05.Model C05.Proofs.
Open Scope Z_scope.
Example C05_placeholder : st init = Initial.
Proof. reflexivity. Qed.
Print Assumptions C05_placeholder.
