(* C05/Properties.v — the property theorems only.  Each is closed by [exact] of a lemma from
   Proofs.v / Proofs2.v and followed by Print Assumptions.

   [step c v f e] is the literal transcription of pkg/ppp/fsm.go (Model.v part 1).
   v = Repaired is what /repo HEAD implements for every event of the RFC alphabet (the fixes d6fc4b1
   and 488e192 are in); v = Defective is fsm.go before those fixes (kept for the _refuted witnesses).
   Two further findings were fixed later and have historical witnesses here: Restore() used to leave
   the restart counter at 0 ([restore false]; HEAD since fe05ccf: [restore true]) and the timer callback
   used to run Timeout() even when the timer had been stopped/restarted meanwhile ([raw_timeout]; HEAD
   since bbcb995: a timer expiry needs a pending timer, which is what ETimeout means in [step]).
   [raw_timeout] is also what the exported method Timeout() of HEAD does (it has no caller in /repo outside
   tests; the correspondence check drives it as op Y).
   No finding of this property is open; every _refuted theorem below is about code before the named commit
   (the last two: lcp-echo-reply-phase fixed in 1b41d89, lns-lcp-down-ncp-down fixed in c99b5bd).
   [rfc1661] is the table of RFC 1661 section 4.1 transcribed independently (Model.v part 2), and
   Rfc2.v a second transcription in the RFC's own row layout.
   All theorems hold for every configuration c = (maxConf, maxTerm, is-LCP), every value of the
   automaton's variables (hence every restart-counter class and identifier class) and every event.
   Which Identifiers the originated packets (Configure-Request, Terminate-Request, Code-Reject) carry is a
   choice the property leaves free: the automaton record carries an Identifier policy [pick] (Identifier of
   the k-th originated packet); theorems over all f cover every policy, theorems about histories start from
   [init_id i0 pk0] for EVERY start value i0 and EVERY policy pk0.  HEAD's policy (f.id++ from 0) is
   [head_pick 0]: C05_head_id_policy. *)
From OV Require Import Common.Base C05.Model C05.Rfc2 C05.Disp C05.Sess C05.Proofs C05.Proofs2 C05.ProofsD C05.ProofsS C05.Adm C05.ProofsA.
Open Scope Z_scope.

(* ---- the specification side is transcribed twice ------------------------------------------- *)

(* The block-per-state table of Model.v and the row-per-event table of Rfc2.v (typed in separately,
   in the RFC's layout, with numeric next states) agree in every cell: 10 states x the 16 rows of
   the RFC (RXR split into Echo-Request / Echo-Reply+Discard-Request, i.e. 17 classes). *)
Theorem C05_rfc_tables_agree :
  forall s e, cell_matches s e = true.
Proof. exact rfc_tables_agree. Qed.
Print Assumptions C05_rfc_tables_agree.

(* The mapping packet -> event class is transcribed twice as well: Model.classify (match on the decoded
   code) and Rfc2.packet_event (by code range / lookup list, over the facts the RFC text names) agree for
   every configuration, automaton, code, identifier, answer class and data. *)
Theorem C05_classify_agree :
  forall c f code id k data,
  verdict_of (classify c f (EInput code id k data)) =
  packet_event (lcp c) (st_eqb (st f) Opened) code (id =? lastReq f)
               (negb (is_malformed k)) (is_good k) (dlen_of data >=? 4).
Proof. exact classify_agree. Qed.
Print Assumptions C05_classify_agree.

(* The two readings the RFC leaves to the implementer (section 4.3, "acceptable" vs "catastrophic"), and
   the cells in which they matter: (A) every Code-Reject is RXJ- — differs from RXJ+ in every state with
   the link up; (B) a Protocol-Reject outside Opened is discarded (5.7) rather than RXJ+ — differs in
   Ack-Rcvd only (RXJ+ there is 7 -> 6, elsewhere "no action, same state"). *)
Theorem C05_classify_reading :
  (forall s, s <> Initial -> s <> Starting -> rfc1661 s RXJp <> rfc1661 s RXJm) /\
  (forall s, s <> Initial -> s <> Starting -> s <> AckRcvd -> rfc1661 s RXJp = Some ([], s)) /\
  rfc1661 AckRcvd RXJp = Some ([], ReqSent).
Proof. exact reading_cells. Qed.
Print Assumptions C05_classify_reading.

(* ---- conformance to the table -------------------------------------------------------------- *)

(* Every step agrees with the RFC cell: same next state, same action list (irc/zrc included), for
   every state x event x counter value x identifier; discarded packets (malformed Configure-Request,
   stale-identifier Ack/Nak/Reject, short Echo-Request, Protocol-Reject outside Opened) change
   nothing; "-" cells change nothing (an unknown code is still Code-Rejected). *)
Theorem C05_table :
  forall c f e, conformsb c f e (step c Repaired f e) = true.
Proof. exact table_repaired. Qed.
Print Assumptions C05_table.

(* With the cells patch alone the table already holds for every LCP instance. *)
Theorem C05_table_lcp_cells_patch :
  forall c v f e, fix_cells v = true -> lcp c = true -> conformsb c f e (step c v f e) = true.
Proof. exact table_lcp_cells_fixed. Qed.
Print Assumptions C05_table_lcp_cells_patch.

(* fsm.go before d6fc4b1/488e192 agrees with the table everywhere except in the eleven cells of [bad_cells] and
   except for the LCP-only codes 8-11 arriving at an NCP ... *)
Theorem C05_table_current_code_partial :
  forall c f e,
  conformsb c f e (step c Defective f e) = true \/
  (exists re, classify c f e = Some re /\ is_bad_cell (st f) re = true) \/
  ncp_lcp_code c e = true.
Proof. exact table_defective_off_bad. Qed.
Print Assumptions C05_table_current_code_partial.

(* ... and in each of those cells it does not: a reachable state and an event of that class whose
   step departs from the RFC cell. *)
Theorem C05_table_refuted :
  forall cell, In cell bad_cells ->
  exists es e, let f := run default_cfg Defective init es in
    st f = fst cell /\ classify default_cfg f e = Some (snd cell) /\
    conformsb default_cfg f e (step default_cfg Defective f e) = false.
Proof. exact table_defective_refuted. Qed.
Print Assumptions C05_table_refuted.

(* An IPCP/IPv6CP instance in Opened answers an Echo-Request (an unknown code to an NCP) with an
   Echo-Reply where the table says Code-Reject. *)
Theorem C05_ncp_codes_refuted :
  exists es e, let f := run ncp_cfg Defective init es in
    classify ncp_cfg f e = Some RUC /\
    outs (step ncp_cfg Defective f e) = [Ser 9] /\
    outs (step ncp_cfg Repaired f e) = [Scj 2 9 9] /\
    conformsb ncp_cfg f e (step ncp_cfg Defective f e) = false.
Proof. exact ncp_codes_refuted. Qed.
Print Assumptions C05_ncp_codes_refuted.

(* The restart counter is exactly what the irc/zrc actions of the step say (both variants). *)
Theorem C05_restart_counter :
  forall c v f e, restart (step c v f e) = counter_after c f e (outs (step c v f e)).
Proof. exact counter_ok. Qed.
Print Assumptions C05_restart_counter.

(* Replies carry the identifier of the packet answered; requests and Code-Rejects the next Identifier of
   the policy; a Code-Reject names the rejected packet (every variant, every policy). *)
Theorem C05_reply_ids :
  forall c v f e, ids_okb f e (outs (step c v f e)) = true.
Proof. exact ids_ok. Qed.
Print Assumptions C05_reply_ids.

(* The Identifier policy of /repo HEAD is an instance: with head_pick i0 the model's next Identifier is the
   literal nextID() of fsm.go, f.id++ modulo 256, along every history (i0 = 0 in NewFSM). *)
Theorem C05_head_id_policy :
  forall i0 c v es,
  0 <= i0 < 256 ->
  let f := run c v (init_id i0 (head_pick i0)) es in
  next_id f = (idc f + 1) mod 256.
Proof. exact head_id_policy. Qed.
Print Assumptions C05_head_id_policy.

(* ---- stale acknowledgements ---------------------------------------------------------------- *)

(* Configure-Ack / -Nak / -Reject whose identifier is not that of the last Configure-Request sent:
   no state change, no variable change, nothing sent (both variants) ... *)
Theorem C05_stale_ignored :
  forall c v f code id k data,
  is_ack_code code = true -> id <> lastReq f ->
  step c v f (EInput code id k data) = clear_out f.
Proof. exact stale_ignored. Qed.
Print Assumptions C05_stale_ignored.

(* ... and it is invisible to everything that follows: the log of calls into the option handler is
   unchanged (so for EVERY handler the option state, and with it the content of every later
   Configure-Request, is what it would have been without the packet), and the rest of the observable
   trace is the trace without the packet (both variants). *)
Theorem C05_stale_invisible :
  forall c v f code id k data es,
  is_ack_code code = true -> id <> lastReq f ->
  hlog (step c v f (EInput code id k data)) = hlog f /\
  clear_out (run c v f (EInput code id k data :: es)) = clear_out (run c v f es) /\
  trace c v f (EInput code id k data :: es) = IEv (EInput code id k data) :: trace c v f es.
Proof. exact stale_invisible. Qed.
Print Assumptions C05_stale_invisible.

(* The same for every packet the RFC tells an implementation to discard (malformed
   Configure-Request, short Echo-Request, Protocol-Reject outside Opened). *)
Theorem C05_discarded_invisible :
  forall c v f e es,
  classify c f e = None ->
  hlog (step c v f e) = hlog f /\
  clear_out (run c v f (e :: es)) = clear_out (run c v f es) /\
  trace c v f (e :: es) = IEv e :: trace c v f es.
Proof. exact discarded_invisible. Qed.
Print Assumptions C05_discarded_invisible.

(* The option handler is called exactly once for a Configure-Request/-Ack/-Nak/-Reject that is not
   discarded (with the parsed options of that packet) and never otherwise (both variants). *)
Theorem C05_handler_calls :
  forall c v f e, hlog (step c v f e) = hcalls_of c f e ++ hlog f.
Proof. exact hlog_step. Qed.
Print Assumptions C05_handler_calls.

Example C05_stale_invisible_nonvacuous :
  let f := run default_cfg Repaired init [EOpen; EUp; ETimeout] in
  let stale := EInput 4 1 CGood [3; 5; 194; 35; 5] in
  lastReq f = 2 /\ classify default_cfg f stale = None /\
  hlog (step default_cfg Repaired f stale) = [] /\
  hlog (step default_cfg Repaired f (EInput 4 2 CGood [3; 5; 194; 35; 5])) = [HRej [(3, [194; 35; 5])]] /\
  confreq_content 1 (hlog (step default_cfg Repaired f stale)) <>
  confreq_content 1 (hlog (step default_cfg Repaired f (EInput 4 2 CGood [3; 5; 194; 35; 5]))).
Proof. exact stale_nonvac. Qed.
Print Assumptions C05_stale_invisible_nonvacuous.

(* ... where "the last Configure-Request sent" is read off the observable trace. *)
Theorem C05_lastReq_is_last_request_sent :
  forall i0 pk0 c v es,
  match last_scr None (trace c v (init_id i0 pk0) es) with
  | Some i => lastReq (run c v (init_id i0 pk0) es) = i
  | None => lastReq (run c v (init_id i0 pk0) es) = 0
  end.
Proof. exact lastReq_is_last_scr. Qed.
Print Assumptions C05_lastReq_is_last_request_sent.

Example C05_stale_ignored_nonvacuous :
  st (step default_cfg Repaired (run default_cfg Repaired init [EOpen; EUp]) (EInput 2 1 CGood [])) = AckRcvd /\
  step default_cfg Repaired (run default_cfg Repaired init [EOpen; EUp]) (EInput 2 2 CGood [])
    = clear_out (run default_cfg Repaired init [EOpen; EUp]).
Proof. exact current_ack_not_ignored_nonvac. Qed.
Print Assumptions C05_stale_ignored_nonvacuous.

(* ---- up / down notifications ---------------------------------------------------------------- *)

(* For every event sequence from Initial the This-Layer-Up / This-Layer-Down notifications
   strictly alternate, starting with up (both variants) ... *)
Theorem C05_updown_alternate :
  forall i0 pk0 c v es, alternates false (trace c v (init_id i0 pk0) es) = true.
Proof. exact alternates_init. Qed.
Print Assumptions C05_updown_alternate.

(* ... and an up is outstanding exactly while the automaton is in Opened. *)
Theorem C05_up_iff_opened :
  forall i0 pk0 c v es, up_after false (trace c v (init_id i0 pk0) es) = is_opened (st (run c v (init_id i0 pk0) es)).
Proof. exact up_iff_opened_init. Qed.
Print Assumptions C05_up_iff_opened.

(* A This-Layer-Up is reported only when (ours) a Configure-Ack carrying the identifier of our
   latest Configure-Request has arrived after that request was sent and (theirs) our latest answer
   to the peer's latest well-formed Configure-Request was a Configure-Ack with its identifier —
   with neither a link Down nor a Terminate-Request from the peer in between (a Terminate-Ack
   voids "ours").  The monitor [both_acked] computes this from the observable trace alone. *)
Theorem C05_up_needs_both_acks :
  forall i0 pk0 c es, both_acked true (trace c Repaired (init_id i0 pk0) es) = true.
Proof. exact both_acked_strict_repaired. Qed.
Print Assumptions C05_up_needs_both_acks.

(* fsm.go before d6fc4b1 violates the Terminate clause (Terminate-Request in Ack-Rcvd is not honoured) ... *)
Theorem C05_up_needs_both_acks_refuted :
  exists es, both_acked true (trace default_cfg Defective init es) = false.
Proof. exact both_acked_strict_refuted. Qed.
Print Assumptions C05_up_needs_both_acks_refuted.

(* ... but satisfies the statement without it (acknowledgements voided by Down and by newer
   requests only). *)
Theorem C05_up_needs_both_acks_weak :
  forall i0 pk0 c v es, both_acked false (trace c v (init_id i0 pk0) es) = true.
Proof. exact both_acked_weak_any. Qed.
Print Assumptions C05_up_needs_both_acks_weak.

Example C05_updown_nonvacuous :
  st (run default_cfg Repaired init happy) = Opened /\
  count_acts (fun a => match a with Tlu => true | _ => false end) (trace default_cfg Repaired init happy) = 1%nat /\
  alternates false (trace default_cfg Repaired init (happy ++ [RTRe; ETimeout; RCRp; EInput 2 2 CGood []; EDown])) = true /\
  count_acts (fun a => match a with Tlu | Tld => true | _ => false end)
     (trace default_cfg Repaired init (happy ++ [RTRe; ETimeout; RCRp; EInput 2 2 CGood []; EDown])) = 4%nat.
Proof. exact happy_opens. Qed.
Print Assumptions C05_updown_nonvacuous.

(* ---- bounded retransmission ------------------------------------------------------------------ *)

(* In every reachable waiting state (Closing, Stopping, Req-Sent, Ack-Rcvd, Ack-Sent) the restart
   counter n is at most Max-Terminate resp. Max-Configure, and n+1 consecutive timeouts with no other
   input end the attempt: exactly n retransmissions, exactly one This-Layer-Finished, final state
   Closed or Stopped (every variant with the table cells fixed, i.e. HEAD; the timer events do happen:
   C05_timer_armed). *)
Theorem C05_bounded :
  forall i0 pk0 c v es,
  fix_cells v = true ->
  0 <= maxConf c -> 0 <= maxTerm c ->
  let f := run c v (init_id i0 pk0) es in
  waiting (st f) = true ->
  exists n : nat,
    Z.of_nat n = restart f /\
    Z.of_nat n <= (match st f with Closing | Stopping => maxTerm c | _ => maxConf c end) /\
    let ts := repeat ETimeout (S n) in
    (st (run c v f ts) = Closed \/ st (run c v f ts) = Stopped) /\
    count_acts is_retrans (trace c v f ts) = n /\
    count_acts is_tlf (trace c v f ts) = 1%nat.
Proof. exact bounded. Qed.
Print Assumptions C05_bounded.

Example C05_bounded_nonvacuous :
  let f := run default_cfg Repaired init [EOpen; EUp] in
  waiting (st f) = true /\ restart f = 10 /\
  st (run default_cfg Repaired f (repeat ETimeout 11)) = Stopped /\
  count_acts is_retrans (trace default_cfg Repaired f (repeat ETimeout 11)) = 10%nat.
Proof. exact bounded_nonvac. Qed.
Print Assumptions C05_bounded_nonvacuous.

(* The timeouts of C05_bounded do come: in every reachable waiting state the restart timer is
   pending. *)
Theorem C05_timer_armed :
  forall i0 pk0 c es,
  waiting (st (run c Repaired (init_id i0 pk0) es)) = true -> armed (run c Repaired (init_id i0 pk0) es) = true.
Proof. exact timer_armed. Qed.
Print Assumptions C05_timer_armed.

(* Before d6fc4b1: Terminate-Request in Opened enters Stopping with no timer — the termination never ends. *)
Theorem C05_timer_armed_refuted :
  exists es, let f := run default_cfg Defective init es in
    waiting (st f) = true /\ armed f = false.
Proof. exact timer_armed_refuted. Qed.
Print Assumptions C05_timer_armed_refuted.

Example C05_timer_armed_nonvacuous :
  let f := run default_cfg Repaired init [EOpen; EUp; RCRp; RCA1; RTRe] in
  st f = Stopping /\ armed f = true /\ st (step default_cfg Repaired f ETimeout) = Stopped.
Proof. exact timer_nonvac. Qed.
Print Assumptions C05_timer_armed_nonvacuous.

(* Every negotiation begun from Starting, Closed, Stopped or Opened starts with the full budget of
   Max-Configure retransmissions — for every history, from a fresh automaton or from one restored
   into Opened by the repaired Restore. *)
Theorem C05_fresh_negotiation_budget :
  forall i0 pk0 c restored es e,
  let f := run c Repaired (start i0 pk0 restored c) es in
  starts_negotiation (st f) = true ->
  existsb is_scr (outs (step c Repaired f e)) = true ->
  restart (step c Repaired f e) = maxConf c /\ negotiating (st (step c Repaired f e)) = true.
Proof. exact fresh_negotiation. Qed.
Print Assumptions C05_fresh_negotiation_budget.

(* Before d6fc4b1 (missing irc on Configure-Ack in Ack-Sent): a renegotiation from Opened can start with the
   counter at zero and is abandoned at the first timeout without a single retransmission. *)
Theorem C05_fresh_negotiation_budget_refuted :
  exists c es e, let f := run c Defective init es in
    0 < maxConf c /\ st f = Opened /\
    existsb is_scr (outs (step c Defective f e)) = true /\
    restart (step c Defective f e) = 0 /\
    st (run c Defective f [e; ETimeout]) = Stopped /\
    count_acts is_retrans (trace c Defective (step c Defective f e) [ETimeout]) = 0%nat.
Proof. exact fresh_negotiation_refuted. Qed.
Print Assumptions C05_fresh_negotiation_budget_refuted.

Example C05_fresh_negotiation_nonvacuous :
  let f := run (mkCfg 2 1 true) Repaired init [EOpen; EUp; RCRp; ETimeout; ETimeout; EInput 2 3 CGood []] in
  st f = Opened /\ existsb is_scr (outs (step (mkCfg 2 1 true) Repaired f RCRp)) = true /\
  restart (step (mkCfg 2 1 true) Repaired f RCRp) = 2.
Proof. exact fresh_nonvac. Qed.
Print Assumptions C05_fresh_negotiation_nonvacuous.

(* Historical (fixed in fe05ccf): Restore() left the restart counter at 0, so the first renegotiation of a
   restored session was abandoned at the first timeout without a retransmission. *)
Theorem C05_restore_budget_refuted :
  let f := step default_cfg Repaired (restore false default_cfg init) RCRp in
  st f = AckSent /\ restart f = 0 /\ armed f = true /\
  st (step default_cfg Repaired f ETimeout) = Stopped /\
  count_acts is_retrans (trace default_cfg Repaired f [ETimeout]) = 0%nat.
Proof. exact restore_budget_refuted. Qed.
Print Assumptions C05_restore_budget_refuted.

Example C05_restore_budget_nonvacuous :
  let f := step default_cfg Repaired (restore true default_cfg init) RCRp in
  st f = AckSent /\ restart f = 10 /\ st (step default_cfg Repaired f ETimeout) = AckSent /\
  count_acts is_retrans (trace default_cfg Repaired f [ETimeout]) = 1%nat.
Proof. exact restore_budget_nonvac. Qed.
Print Assumptions C05_restore_budget_nonvacuous.

(* Historical (fixed in bbcb995): the timer callback ran Timeout() although the timer was stopped while the
   callback waited for the mutex; in Opened that ate one retransmission of the next negotiation.
   As an event of the model a timer expiry needs a pending timer and otherwise does nothing. *)
Theorem C05_late_timer_fire_refuted :
  let f := run default_cfg Repaired init [EOpen; EUp; RCRp; RCA1] in
  st f = Opened /\ armed f = false /\
  restart (raw_timeout f) = 9 /\ step default_cfg Repaired f ETimeout = clear_out f /\
  restart (step default_cfg Repaired (raw_timeout f) RCRp) = 9 /\
  restart (step default_cfg Repaired (step default_cfg Repaired f ETimeout) RCRp) = 10.
Proof. exact late_fire_refuted. Qed.
Print Assumptions C05_late_timer_fire_refuted.

(* ---- Restore / Kill: the alphabet extended by the two administrative entry points -------------- *)

(* Both are silent, stop the timer, and leave the handler state and lastReqID alone. *)
Theorem C05_restore_kill_silent :
  forall fixed c f,
  outs (restore fixed c f) = [] /\ st (restore fixed c f) = Opened /\ armed (restore fixed c f) = false /\
  restart (restore fixed c f) = (if fixed then maxConf c else 0) /\
  hlog (restore fixed c f) = hlog f /\ lastReq (restore fixed c f) = lastReq f /\
  outs (kill f) = [] /\ st (kill f) = Closed /\ armed (kill f) = false /\ hlog (kill f) = hlog f.
Proof. exact restore_kill_silent. Qed.
Print Assumptions C05_restore_kill_silent.

(* Alternation over the extended alphabet {RFC events, Kill, Restore}, for histories that follow the
   discipline of the production call sites (internal/pppoe: Restore only on a freshly created
   automaton — installInMemoryState; Kill only as the last operation — terminate): tlu/tld strictly
   alternate; a restored automaton starts with an up outstanding (the session layer restores its own
   open flags), a killed one may end with an up outstanding (terminate is the session's layer-down). *)
Theorem C05_updown_alternate_ext :
  forall i0 pk0 c v fixed restored es killed,
  alternates restored (xtrace c v fixed (init_id i0 pk0) (prod_history restored es killed)) = true.
Proof. exact alternates_ext. Qed.
Print Assumptions C05_updown_alternate_ext.

Theorem C05_up_iff_opened_ext :
  forall i0 pk0 c v fixed restored es,
  up_after restored (xtrace c v fixed (init_id i0 pk0) (prod_history restored es false))
  = is_opened (st (xrun c v fixed (init_id i0 pk0) (prod_history restored es false))).
Proof. exact up_iff_opened_ext. Qed.
Print Assumptions C05_up_iff_opened_ext.

(* The exact caveat: outside that discipline alternation is false — Kill in Opened followed by a new
   negotiation reports up twice; Restore of a negotiating automaton followed by Down reports a down
   without an up. *)
Theorem C05_updown_alternate_ext_caveats :
  alternates false (xtrace default_cfg Repaired true init
     (map XE [EOpen; EUp; RCRp; RCA1] ++ [XKill] ++ map XE [EOpen; RCRp; EInput 2 2 CGood []])) = false /\
  alternates false (xtrace default_cfg Repaired true init
     (map XE [EOpen; EUp] ++ [XRestore] ++ map XE [EDown])) = false.
Proof. exact alternates_ext_caveats. Qed.
Print Assumptions C05_updown_alternate_ext_caveats.

(* ---- the caller: internal/ppp Dispatcher.HandleFrame and the three-automaton system (Disp.v) ------------ *)

(* HandleFrame delivers a frame where RFC 1661 sends it — LCP frames to the LCP automaton except the codes
   the host answers itself (8 Protocol-Reject, 9/10 Echo), NCP frames to their NCP in the Network/Open phase
   only, malformed Length nowhere — as the event Input(Code, Identifier, Data) cut out by the Length field;
   every automaton that is not the target is untouched. *)
Theorem C05_dispatch_routes :
  forall c v ph proto payload k s,
  let r := handle_frame c v ph proto payload k s in
  let e := EInput (frame_code payload) (frame_id payload) k (frame_data payload) in
  d_target r = expected_target ph proto payload /\
  d_sys r = match expected_target ph proto payload with
            | TNone => s
            | TLcp => mkSys (step (lcp_cfg c) v (s_lcp s) e) (s_ipcp s) (s_ip6 s)
            | TIpcp => mkSys (s_lcp s) (step (ncp_cfg_of c) v (s_ipcp s) e) (s_ip6 s)
            | TIp6 => mkSys (s_lcp s) (s_ipcp s) (step (ncp_cfg_of c) v (s_ip6 s) e)
            end.
Proof. exact dispatch_routes. Qed.
Print Assumptions C05_dispatch_routes.

(* RFC 1661 3.4: an NCP frame outside the Network phase changes nothing and calls nobody. *)
Theorem C05_dispatch_phase_gate :
  forall c v ph proto payload k s,
  (proto = ProtoIPCP \/ proto = ProtoIPv6CP) -> inNetworkPhase ph = false ->
  let r := handle_frame c v ph proto payload k s in
  d_sys r = s /\ d_host r = [] /\ d_target r = TNone.
Proof. exact dispatch_phase_gate. Qed.
Print Assumptions C05_dispatch_phase_gate.

(* End to end: whatever frame arrives, the automaton that receives it makes the step of its RFC cell (LCP
   with the LCP code set, the NCPs with codes 1-7), and nothing else moves. *)
Theorem C05_dispatch_conforms :
  forall c ph proto payload k s,
  let r := handle_frame c Repaired ph proto payload k s in
  let e := EInput (frame_code payload) (frame_id payload) k (frame_data payload) in
  match d_target r with
  | TNone => d_sys r = s
  | t => conformsb (target_cfg c t) (get t s) e (get t (d_sys r)) = true
  end.
Proof. exact dispatch_conforms. Qed.
Print Assumptions C05_dispatch_conforms.

(* Along every history of frames and administrative calls, each of the three automata is exactly a
   single automaton run over the events routed to it (routing depends on the operations only), so every
   single-automaton history theorem above lifts to the session: *)
Theorem C05_system_projection :
  forall c v t ops s,
  t <> TNone ->
  get t (sys_run c v s ops) = run (target_cfg c t) v (get t s) (flat_map (events_for t) ops).
Proof. intros c v t ops s. exact (system_projection c v t ops s). Qed.
Print Assumptions C05_system_projection.

Theorem C05_system_updown_alternate :
  forall c v t pl pi pv ops, alternates false (sys_trace c v t (sys_init pl pi pv) ops) = true.
Proof. exact system_alternates. Qed.
Print Assumptions C05_system_updown_alternate.

Theorem C05_system_up_iff_opened :
  forall c v t pl pi pv ops,
  t <> TNone ->
  up_after false (sys_trace c v t (sys_init pl pi pv) ops)
  = is_opened (st (get t (sys_run c v (sys_init pl pi pv) ops))).
Proof. exact system_up_iff_opened. Qed.
Print Assumptions C05_system_up_iff_opened.

Theorem C05_system_up_needs_both_acks :
  forall c t pl pi pv ops, both_acked true (sys_trace c Repaired t (sys_init pl pi pv) ops) = true.
Proof. exact system_both_acked. Qed.
Print Assumptions C05_system_up_needs_both_acks.

(* Through the dispatcher the LCP automaton never receives codes 8, 9, 10: its Echo/Protocol-Reject cells are
   implemented by the host callbacks, not by fsm.go. *)
Theorem C05_lcp_never_sees_host_codes :
  forall ph proto payload k e,
  In e (events_for TLcp (SFrame ph proto payload k)) ->
  exists code id data, e = EInput code id k data /\ code <> 8 /\ code <> 9 /\ code <> 10.
Proof. exact lcp_never_sees_host_codes. Qed.
Print Assumptions C05_lcp_never_sees_host_codes.

Example C05_system_nonvacuous :
  let s := sys_run default_cfg Repaired (sys_init (head_pick 0) (head_pick 0) (head_pick 0)) demo_ops in
  st (s_lcp s) = Opened /\ st (s_ipcp s) = Opened /\ st (s_ip6 s) = Initial /\
  flat_map (events_for TIpcp) (firstn 3 demo_ops) = [] /\
  expected_target PhEstablish ProtoLCP frameLcpReq = TLcp /\
  frame_data frameLcpReq = [1; 4; 5; 212].
Proof. exact system_nonvac. Qed.
Print Assumptions C05_system_nonvacuous.

(* ---- the session layer above the dispatcher: internal/pppoe/session.go (Sess.v) ----------------------- *)

(* this-layer-down of LCP (onLCPDown; internal/pppoe, and internal/l2tp since c99b5bd): both NCP automata receive Down - they end in Initial or Starting -
   and the phase falls back to Establish; the LCP automaton itself is not touched by its own callback. *)
Theorem C05_session_lcp_down_takes_ncps_down :
  forall c v s,
  (lns c = false \/ lns_down_fixed c = true) ->
  let s' := fst (lcp_callback c v Tld s) in
  ph s' = PhEstablish /\
  lower_down (st (s_ipcp (sy s'))) = true /\ lower_down (st (s_ip6 (sy s'))) = true /\
  s_lcp (sy s') = s_lcp (sy s).
Proof. exact lcp_down_callback. Qed.
Print Assumptions C05_session_lcp_down_takes_ncps_down.

(* RFC 1661 5.8 / table cell RXR in Opened for the LCP instance as deployed (its Echo cell is implemented by the
   host callback): with the repaired callback an Echo-Request is answered exactly when LCP is Opened. *)
Theorem C05_session_echo_reply :
  forall c v s id data,
  echo_fixed c = true ->
  host_call c v (HEchoReq id data) s =
  (s, if st_eqb (st (s_lcp (sy s))) Opened && negb (match ph s with PhLACTunneled => true | _ => false end)
      then [OEchoReply id (skipn 4 data)] else []).
Proof. exact echo_reply_repaired. Qed.
Print Assumptions C05_session_echo_reply.

(* Historical (fixed in 1b41d89, lcp-echo-reply-phase): the reply depended on the phase; after LCP had opened
   and while authentication was pending an Echo-Request carrying a Magic-Number got no Echo-Reply. *)
Theorem C05_session_echo_reply_before_1b41d89_refuted :
  let s := fst (sess_run scfg_head Repaired (sess_init (head_pick 0) (head_pick 0) (head_pick 0)) lcp_bringup) in
  st (s_lcp (sy s)) = Opened /\ ph s = PhAuthenticate /\
  snd (sess_step scfg_head Repaired s echo_req) = [] /\
  snd (sess_step scfg_rep Repaired s echo_req) = [OEchoReply 5 [170]].
Proof. exact echo_reply_refuted. Qed.
Print Assumptions C05_session_echo_reply_before_1b41d89_refuted.

Example C05_session_nonvacuous :
  let ops := lcp_bringup ++ [XAuth true; XFrame ProtoIPCP [1; 7; 0; 10; 3; 6; 10; 55; 0; 2] CGood;
                             XFrame ProtoIPCP [2; 1; 0; 4] CGood] in
  let s := fst (sess_run scfg_rep Repaired (sess_init (head_pick 0) (head_pick 0) (head_pick 0)) ops) in
  ph s = PhOpen /\ st (s_lcp (sy s)) = Opened /\ st (s_ipcp (sy s)) = Opened /\ ipcpOpen s = true /\
  let s' := fst (sess_step scfg_rep Repaired s (XFrame ProtoLCP [5; 9; 0; 4] CGood)) in
  ph s' = PhEstablish /\ st (s_lcp (sy s')) = Stopping /\ st (s_ipcp (sy s')) = Starting /\
  st (s_ip6 (sy s')) = Starting /\ ipcpOpen s' = false /\ linkEnded s' = true.
Proof. exact session_nonvac. Qed.
Print Assumptions C05_session_nonvacuous.

(* Historical (fixed in c99b5bd, lns-lcp-down-ncp-down, internal/l2tp onLCPDown): the NCP automata of an LNS session
   did not get the Down event when LCP left Opened; after the peer renegotiated LCP, IPCP was still Opened (and
   ipcpOpen set) while LCP was in Ack-Sent and the phase Establish.  HEAD: IPCP goes to Starting. *)
Theorem C05_session_lns_lcp_down_before_c99b5bd_refuted :
  let peer_renegotiates := XFrame ProtoLCP [1; 8; 0; 8; 1; 4; 5; 212] CGood in
  let s := fst (sess_run scfg_lns_head Repaired (sess_init (head_pick 0) (head_pick 0) (head_pick 0)) lns_open_ops) in
  let s' := fst (sess_step scfg_lns_head Repaired s peer_renegotiates) in
  ph s = PhOpen /\ st (s_ipcp (sy s)) = Opened /\
  st (s_lcp (sy s')) = AckSent /\ ph s' = PhEstablish /\
  st (s_ipcp (sy s')) = Opened /\ ipcpOpen s' = true /\
  (let r := fst (sess_run scfg_lns_rep Repaired (sess_init (head_pick 0) (head_pick 0) (head_pick 0))
                   (lns_open_ops ++ [peer_renegotiates])) in
   st (s_ipcp (sy r)) = Starting /\ ipcpOpen r = false /\ ph r = PhEstablish).
Proof. exact lns_lcp_down_refuted. Qed.
Print Assumptions C05_session_lns_lcp_down_before_c99b5bd_refuted.

(* ---- admissible Identifier policies (Adm.v): what gives the stale-identifier clause its meaning ------------ *)

(* Under an admissible Identifier policy (the Identifier of a Configure-Request was carried by no Configure-Request
   among the last 255 originated packets, a retransmission may keep its own), a Configure-Ack / -Nak / -Reject
   carrying the Identifier of ANY earlier Configure-Request of that window is ignored: no state change, no handler
   call, nothing sent - for every start value, policy, configuration and history. *)
Theorem C05_stale_earlier_request_ignored :
  forall i0 pk0 c v es j code k data,
  let t := trace c v (init_id i0 pk0) es in
  let f := run c v (init_id i0 pk0) es in
  ids_admissible t = true -> In j (earlier_requests t) -> is_ack_code code = true ->
  step c v f (EInput code j k data) = clear_out f.
Proof. exact stale_earlier_request_ignored. Qed.
Print Assumptions C05_stale_earlier_request_ignored.

(* /repo HEAD's policy (f.id++ modulo 256) is admissible, also across the wrap of the 8-bit counter: 300
   Configure-Naks, 301 Configure-Requests, 254 earlier requests in the window (non-vacuity of the theorem above). *)
Example C05_head_policy_admissible :
  let es := [EOpen; EUp] ++ naks 300 1 in
  ids_admissible (trace default_cfg Repaired init es) = true /\
  length (earlier_requests (trace default_cfg Repaired init es)) = 254%nat.
Proof. exact head_policy_admissible. Qed.
Print Assumptions C05_head_policy_admissible.

(* A two-valued policy (Identifier = previous xor 1) is NOT admissible - and under it the answer to request N-2 is
   taken for the answer to the current request (Ack-Rcvd). *)
Example C05_two_valued_policy_inadmissible :
  ids_admissible (trace default_cfg Repaired (init_id 0 xor_pick) [EOpen; EUp; rcn 1; rcn 0]) = false /\
  st (run default_cfg Repaired (init_id 0 xor_pick) [EOpen; EUp; rcn 1; rcn 0; EInput 2 1 CGood []]) = AckRcvd.
Proof. exact two_valued_policy_inadmissible. Qed.
Print Assumptions C05_two_valued_policy_inadmissible.
