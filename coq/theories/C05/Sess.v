(* C05/Sess.v — the session layer above the dispatcher, transcribed from internal/pppoe/session.go
   (initPPP, up, handlePPP, onLCPUp, onLCPDown, onAuthResult/onAuthSuccess, startNCP, onIPCPUp/Down,
   onIPv6CPUp/Down, checkOpen, handleProtocolReject, the OnEchoReq closure, terminate); internal/l2tp wires
   the same callbacks (ppp.go, lns_lifecycle.go) except that its onLCPDown only resets the phase.
   The automata call the session back from inside a transition (this-layer-up / -down); the callbacks change
   the phase and call Up/Open/Down/Close on the OTHER automata.  AAA, address allocation and the dataplane are
   outside: the AAA verdict is an operation, "an IPv4 address is available" a parameter. *)
From OV Require Import Common.Base C05.Model C05.Disp.
Open Scope Z_scope.

Record sess := mkSess { ph : Phase; sy : sys; ipcpOpen : bool; ip6Open : bool; linkEnded : bool;
                        published : bool (* internal/l2tp only: lifecyclePublished *) }.

(* what the session emits, in order *)
Inductive SOut :=
| OFsm (t : Target) (a : Act)          (* a send / notification of automaton t *)
| OChap (code : Z)                     (* CHAP Challenge (1) / Success (3) / Failure (4) sent *)
| OEchoReply (id : Z) (tail : list Z)  (* LCP Echo-Reply: local magic ++ tail *)
| OProtoRejSent (proto : Z)            (* LCP Protocol-Reject sent for an unknown protocol *)
| OSessionOpen.                        (* checkOpen: phase Open, lifecycle Active, dataplane add *)

(* lns = the owner is internal/l2tp (LNS session) instead of internal/pppoe; lns_down_fixed = its onLCPDown takes
   the NCPs Down as internal/pppoe's does (/repo HEAD since c99b5bd; false only in the historical witness) *)
Record scfg := mkScfg { s_cfg : cfg; has_v4 : bool; echo_fixed : bool; lns : bool; lns_down_fixed : bool }.

Definition set_sys (y : sys) (s : sess) : sess := mkSess (ph s) y (ipcpOpen s) (ip6Open s) (linkEnded s) (published s).
Definition set_ph (p : Phase) (s : sess) : sess := mkSess p (sy s) (ipcpOpen s) (ip6Open s) (linkEnded s) (published s).
Definition put (t : Target) (f : fsm) (y : sys) : sys :=
  match t with
  | TLcp => mkSys f (s_ipcp y) (s_ip6 y) | TIpcp => mkSys (s_lcp y) f (s_ip6 y)
  | TIp6 => mkSys (s_lcp y) (s_ipcp y) f | TNone => y
  end.
Definition visible (a : Act) : bool := match a with Irc | Zrc => false | _ => true end.
Definition fsm_outs (t : Target) (f : fsm) : list SOut := map (OFsm t) (filter visible (outs f)).

(* func (s *SessionState) checkOpen()  /  internal/l2tp checkSessionOpen (which opens the session only once:
   lifecyclePublished) *)
Definition checkOpen (c : scfg) (s : sess) : sess * list SOut :=
  match ph s with
  | PhNetwork =>
      if (ipcpOpen s || ip6Open s) && negb (lns c && published s)
      then (mkSess PhOpen (sy s) (ipcpOpen s) (ip6Open s) (linkEnded s) (lns c), [OSessionOpen]) else (s, [])
  | _ => (s, [])
  end.

(* the callbacks of an NCP: onIPCPUp / onIPCPDown / onIPv6CPUp / onIPv6CPDown, run in the order in which the
   automaton reports tlu / tld during one transition *)
Definition ncp_callback (c : scfg) (t : Target) (a : Act) (s : sess) : sess * list SOut :=
  match a, t with
  | Tlu, TIpcp => checkOpen c (mkSess (ph s) (sy s) true (ip6Open s) (linkEnded s) (published s))
  | Tlu, TIp6 => checkOpen c (mkSess (ph s) (sy s) (ipcpOpen s) true (linkEnded s) (published s))
  | Tld, TIpcp => (mkSess (ph s) (sy s) false (ip6Open s) (linkEnded s) (published s), [])
  | Tld, TIp6 => (mkSess (ph s) (sy s) (ipcpOpen s) false (linkEnded s) (published s), [])
  | _, _ => (s, [])
  end.
Fixpoint ncp_react (c : scfg) (t : Target) (acts : list Act) (s : sess) : sess * list SOut :=
  match acts with
  | [] => (s, [])
  | a :: acts =>
      let (s1, o1) := ncp_callback c t a s in
      let (s2, o2) := ncp_react c t acts s1 in
      (s2, (if visible a then [OFsm t a] else []) ++ o1 ++ o2)
  end.
(* an event delivered to an NCP automaton (t = TIpcp / TIp6), with its callbacks *)
Definition ncp_event (c : scfg) (v : variant) (t : Target) (f' : fsm) (s : sess) : sess * list SOut :=
  ncp_react c t (outs f') (set_sys (put t f' (sy s)) s).
Definition ncp_apply (c : scfg) (v : variant) (t : Target) (e : Ev) (s : sess) : sess * list SOut :=
  ncp_event c v t (step (ncp_cfg_of (s_cfg c)) v (get t (sy s)) e) s.
Definition seq2 (f g : sess -> sess * list SOut) (s : sess) : sess * list SOut :=
  let (s1, o1) := f s in let (s2, o2) := g s1 in (s2, o1 ++ o2).

(* func (s *SessionState) startNCP(): IPCP only with an address, IPv6CP always *)
Definition startNCP (c : scfg) (v : variant) : sess -> sess * list SOut :=
  seq2 (if has_v4 c then seq2 (ncp_apply c v TIpcp EUp) (ncp_apply c v TIpcp EOpen) else (fun s => (s, [])))
       (seq2 (ncp_apply c v TIp6 EUp) (ncp_apply c v TIp6 EOpen)).

(* onLCPUp (WantAuth is always set by initPPP: CHAP) / onLCPDown *)
Definition lcp_callback (c : scfg) (v : variant) (a : Act) (s : sess) : sess * list SOut :=
  match a with
  | Tlu => (set_ph PhAuthenticate s, [OChap 1])
  | Tld =>
      if lns c && negb (lns_down_fixed c)
      then (set_ph PhEstablish s, [])            (* internal/l2tp onLCPDown before c99b5bd: s.Phase = Establish *)
      else
      let (s1, o1) := seq2 (ncp_apply c v TIpcp EDown) (ncp_apply c v TIp6 EDown) s in
      let ended := if lns c then linkEnded s1
                   else match ph s1 with PhNetwork | PhOpen => true | _ => linkEnded s1 end in
      (mkSess PhEstablish (sy s1) (ipcpOpen s1) (ip6Open s1) ended (published s1), o1)
  | _ => (s, [])
  end.
Fixpoint lcp_react (c : scfg) (v : variant) (acts : list Act) (s : sess) : sess * list SOut :=
  match acts with
  | [] => (s, [])
  | a :: acts =>
      let (s1, o1) := lcp_callback c v a s in
      let (s2, o2) := lcp_react c v acts s1 in
      (s2, (if visible a then [OFsm TLcp a] else []) ++ o1 ++ o2)
  end.
Definition lcp_event (c : scfg) (v : variant) (f' : fsm) (s : sess) : sess * list SOut :=
  lcp_react c v (outs f') (set_sys (put TLcp f' (sy s)) s).
Definition lcp_apply (c : scfg) (v : variant) (e : Ev) (s : sess) : sess * list SOut :=
  lcp_event c v (step (lcp_cfg (s_cfg c)) v (s_lcp (sy s)) e) s.

Definition any_apply (c : scfg) (v : variant) (t : Target) (e : Ev) (s : sess) : sess * list SOut :=
  match t with TLcp => lcp_apply c v e s | TNone => (s, []) | _ => ncp_apply c v t e s end.

(* the OnEchoReq closure of initPPP: RFC 1661 5.8 makes the reply depend on the LCP automaton being in Opened
   (echo_fixed = true: /repo HEAD since 1b41d89); before that it depended on the PHASE (Open / Network) *)
Definition echo_reply_due (c : scfg) (s : sess) : bool :=
  if echo_fixed c
  then st_eqb (st (s_lcp (sy s))) Opened && negb (match ph s with PhLACTunneled => true | _ => false end)
  else match ph s with PhOpen | PhNetwork => true | _ => false end.

Definition host_call (c : scfg) (v : variant) (h : HostCall) (s : sess) : sess * list SOut :=
  match h with
  | HEchoReq id data => if echo_reply_due c s then (s, [OEchoReply id (skipn 4 data)]) else (s, [])
  | HProtoRej p =>                                    (* handleProtocolReject *)
      if p =? ProtoIPCP then ncp_apply c v TIpcp EClose s
      else if p =? ProtoIPv6CP then ncp_apply c v TIp6 EClose s else (s, [])
  | HSendProtoRej p _ => if lns c then (s, []) else (s, [OProtoRejSent p])   (* l2tp: no SendProtocolReject *)
  | _ => (s, [])                                      (* Echo-Reply bookkeeping, PAP/CHAP/IPv6: not modelled *)
  end.

Inductive XOp :=
| XUp                                                  (* up(): Phase = Establish; lcp Up; lcp Open *)
| XFrame (proto : Z) (payload : list Z) (k : Cls)      (* handlePPP *)
| XAuth (allowed : bool)                               (* onAuthResult (CHAP pending) *)
| XTimeout (t : Target)                                (* FSM().Timeout() of one automaton *)
| XLcpClose                                            (* lcp.FSM().Close(): dead peer, LAC, admin *)
| XTerminate.                                          (* terminate(): Kill the automata *)

Definition sess_step (c : scfg) (v : variant) (s : sess) (o : XOp) : sess * list SOut :=
  match o with
  | XUp => seq2 (lcp_apply c v EUp) (lcp_apply c v EOpen) (set_ph PhEstablish s)
  | XFrame proto payload k =>
      let r := handle_frame (s_cfg c) v (ph s) proto payload k (sy s) in
      match d_target r with
      | TLcp => lcp_event c v (s_lcp (d_sys r)) s
      | TIpcp => ncp_event c v TIpcp (s_ipcp (d_sys r)) s
      | TIp6 => ncp_event c v TIp6 (s_ip6 (d_sys r)) s
      | TNone => match d_host r with h :: _ => host_call c v h s | [] => (s, []) end
      end
  | XAuth true => let (s1, o1) := startNCP c v (set_ph PhNetwork s) in (s1, OChap 3 :: o1)
  | XAuth false => let (s1, o1) := lcp_apply c v EClose s in (s1, OChap 4 :: o1)
  | XTimeout t =>
      let f' := raw_timeout (get t (sy s)) in
      match t with TLcp => lcp_event c v f' s | TNone => (s, []) | _ => ncp_event c v t f' s end
  | XLcpClose => lcp_apply c v EClose s
  | XTerminate =>
      let y := sy s in
      let y1 := match ph s with
                | PhOpen | PhNetwork => mkSys (s_lcp y) (kill (s_ipcp y)) (kill (s_ip6 y))
                | _ => y end in
      (mkSess PhTerminate (mkSys (kill (s_lcp y1)) (s_ipcp y1) (s_ip6 y1)) (ipcpOpen s) (ip6Open s) (linkEnded s)
              (published s), [])
  end.

Fixpoint sess_run (c : scfg) (v : variant) (s : sess) (ops : list XOp) : sess * list (list SOut) :=
  match ops with
  | [] => (s, [])
  | o :: ops => let (s1, o1) := sess_step c v s o in
                let (s2, o2) := sess_run c v s1 ops in (s2, o1 :: o2)
  end.

Definition sess_init (pl pi pv : nat -> Z) : sess := mkSess PhDead (sys_init pl pi pv) false false false false.
