(* C05/Model.v — executable definitions only.

   Part 1: a literal transcription of /repo/pkg/ppp/fsm.go (type FSM and its entry points
           Up, Down, Open, Close, Input, Timeout and the per-event switches).  Every Go helper
           (irc, zrc, scr, sca, scn, scj, str, strRetransmit, sta, tlu, tld, tls, tlf, nextID,
           startTimer, stopTimer) is one Gallina function of the same name; every Go `switch
           f.state` is one Gallina `match st f`.  The model carries a [variant]:
             Defective = fsm.go before the fixes d6fc4b1 / 488e192 (kept for the _refuted witnesses),
             Repaired  = fsm.go of /repo HEAD (fixes d6fc4b1, 488e192, fe05ccf, bbcb995 are in); HEAD's
                         Restore is [restore true], HEAD's timer callback is ETimeout of [step]
           (they differ in the places marked  (* CELL *)  below and nowhere else).
   Part 2: an independent transcription of the RFC 1661 section 4.1 state transition table
           (from the RFC text, not from the code) and the classification of a concrete
           event into the RFC's event classes.
   Part 3: histories, and executable monitors over the observable trace.                     *)
From OV Require Import Common.Base.
Open Scope Z_scope.

(* ------------------------------------------------------------------ Part 1: fsm.go *)

Inductive St := Initial | Starting | Closed | Stopped | Closing | Stopping
              | ReqSent | AckRcvd | AckSent | Opened.

Definition st_num (s : St) : Z :=
  match s with Initial => 0 | Starting => 1 | Closed => 2 | Stopped => 3 | Closing => 4
             | Stopping => 5 | ReqSent => 6 | AckRcvd => 7 | AckSent => 8 | Opened => 9 end.

Definition st_eqb (a b : St) : bool := st_num a =? st_num b.

(* Historical flags, used only by the _refuted witnesses: fix_cells = commit d6fc4b1 (eleven table cells +
   timer on zrc), fix_ncp = commit 488e192 (codes 8-11 are unknown codes to an NCP).  /repo HEAD has both:
   the correspondence check runs [Repaired] only. *)
Record variant := mkVariant { fix_cells : bool; fix_ncp : bool }.
Definition Repaired : variant := mkVariant true true.      (* /repo HEAD *)
Definition Defective : variant := mkVariant false false.   (* fsm.go before d6fc4b1 / 488e192 *)

(* What the OptionHandler (and ParseOptions) make of a received Configure-Request:
   CMalformed = ParseOptions returned an error;
   CGood = len(nak)=0 && len(rej)=0; CRej = len(rej)>0, len(nak)=0; CNak = len(nak)>0, len(rej)=0;
   CBoth = both non-empty (the code then sends the Configure-Reject). *)
Inductive Cls := CGood | CNak | CRej | CBoth | CMalformed.

(* Input(code, id, data): [data] are the bytes after the 4-byte header; [cls] is the handler's answer
   class when the packet is a Configure-Request (CMalformed iff ParseOptions(data) fails). *)
Inductive Ev := EUp | EDown | EOpen | EClose | ETimeout
              | EInput (code id : Z) (cls : Cls) (data : list Z).
Definition dlen_of (data : list Z) : Z := Z.of_nat (length data).

(* An option (type, data) and func ParseOptions(data []byte) ([]Option, error) *)
Definition Opt := (Z * list Z)%type.
Fixpoint parse_opts_fuel (fuel : nat) (data : list Z) (acc : list Opt) : option (list Opt) :=
  match fuel with
  | O => Some (rev acc)
  | S fuel =>
    match data with
    | t :: l :: rest =>                                  (* for len(data) >= 2 *)
        if (l <? 2) || (l >? dlen_of data) then None     (* "invalid option length" *)
        else let n := Z.to_nat (l - 2) in
             parse_opts_fuel fuel (skipn n rest) ((t, firstn n rest) :: acc)
    | _ => Some (rev acc)
    end
  end.
Definition parse_opts (data : list Z) : option (list Opt) := parse_opts_fuel (S (length data)) data [].
Definition parse_or_nil (data : list Z) : list Opt :=   (* opts, _ := ParseOptions(data) *)
  match parse_opts data with Some o => o | None => [] end.

(* The calls the FSM makes into its OptionHandler that can change the handler's option state.  The
   handler's state, and therefore the content of every later Configure-Request (BuildConfReq), is a
   function of the initial configuration and of this log. *)
Inductive HCall := HReq (o : list Opt) | HAck (o : list Opt) | HNak (o : list Opt) | HRej (o : list Opt).

(* Observable actions.  Irc/Zrc are the restart-counter actions of the RFC; they are listed so
   that the action list of a step can be compared with the RFC cell (the harness observes them
   through the value of restartCount after the step).
   Scn = Configure-Nak, Screj = Configure-Reject, Scj = Code-Reject (RFC name "scj"). *)
Inductive Act :=
| Irc | Zrc
| Scr (id : Z) | Sca (id : Z) | Scn (id : Z) | Screj (id : Z)
| Str (id : Z) | Sta (id : Z)
| Scj (id rcode rid : Z)        (* Code-Reject with a fresh id, rejecting packet (rcode, rid) *)
| Ser (id : Z)                  (* Echo-Reply *)
| Tlu | Tld | Tls | Tlf.

(* lcp = (f.proto == ProtoLCP) *)
Record cfg := mkCfg { maxConf : Z; maxTerm : Z; lcp : bool }.
Definition default_cfg : cfg := mkCfg 10 2 true.     (* NewFSM: maxConf 10, maxTerm 2 *)

(* type FSM: state, id, restartCount, failCount, lastReqID; timer != nil (and not yet fired) is
   [armed]; [out] accumulates (in reverse) what the callbacks saw during the current event. *)
Record fsm := mkFsm {
  st : St; idc : Z; restart : Z; failc : Z; lastReq : Z; armed : bool; out : list Act;
  hlog : list HCall;                     (* handler calls so far, most recent first *)
  nsent : nat;                           (* number of packets originated so far (scr, str, Code-Reject) *)
  pick : nat -> Z                        (* the Identifier policy: Identifier of the k-th originated packet *) }.

(* NewFSM.  Which Identifier the packets the automaton originates carry is a choice the property leaves
   free (RFC 1661 5.1/5.5/5.6 only require it to CHANGE where a new exchange starts): the model is
   parametric in the start value i0 of the counter f.id and in the policy [pk] (Identifier of the k-th
   originated packet); every theorem holds for all of them.  /repo HEAD: f.id starts at 0 and nextID() is
   f.id++ (mod 256), i.e. [head_pick 0]; lemma Proofs2.head_id_policy shows that this policy is what the
   literal f.id++ computes.  lastReqID is 0 until the first Configure-Request has been sent. *)
Definition head_pick (i0 : Z) (k : nat) : Z := (i0 + Z.of_nat k + 1) mod 256.
Definition init_id (i0 : Z) (pk : nat -> Z) : fsm := mkFsm Initial i0 0 0 0 false [] [] O pk.
Definition init : fsm := init_id 0 (head_pick 0).

Definition set_st (s : St) (f : fsm) : fsm :=
  mkFsm s (idc f) (restart f) (failc f) (lastReq f) (armed f) (out f) (hlog f) (nsent f) (pick f).
Definition set_idc (i : Z) (f : fsm) : fsm :=
  mkFsm (st f) i (restart f) (failc f) (lastReq f) (armed f) (out f) (hlog f) (nsent f) (pick f).
Definition set_restart (r : Z) (f : fsm) : fsm :=
  mkFsm (st f) (idc f) r (failc f) (lastReq f) (armed f) (out f) (hlog f) (nsent f) (pick f).
Definition set_failc (n : Z) (f : fsm) : fsm :=
  mkFsm (st f) (idc f) (restart f) n (lastReq f) (armed f) (out f) (hlog f) (nsent f) (pick f).
Definition set_lastReq (i : Z) (f : fsm) : fsm :=
  mkFsm (st f) (idc f) (restart f) (failc f) i (armed f) (out f) (hlog f) (nsent f) (pick f).
Definition set_armed (b : bool) (f : fsm) : fsm :=
  mkFsm (st f) (idc f) (restart f) (failc f) (lastReq f) b (out f) (hlog f) (nsent f) (pick f).
Definition emit (a : Act) (f : fsm) : fsm :=
  mkFsm (st f) (idc f) (restart f) (failc f) (lastReq f) (armed f) (a :: out f) (hlog f) (nsent f) (pick f).
Definition hcall (h : HCall) (f : fsm) : fsm :=
  mkFsm (st f) (idc f) (restart f) (failc f) (lastReq f) (armed f) (out f) (h :: hlog f) (nsent f) (pick f).
Definition clear_out (f : fsm) : fsm :=
  mkFsm (st f) (idc f) (restart f) (failc f) (lastReq f) (armed f) [] (hlog f) (nsent f) (pick f).

Notation "x |> g" := (g x) (at level 55, left associativity, only parsing).

(* func (f *FSM) nextID() uint8: the Identifier of the next originated packet, by the policy; [take_id]
   records it in f.id.  (HEAD: f.id++; return f.id, uint8 wraps.) *)
Definition next_id (f : fsm) : Z := pick f (nsent f).
Definition take_id (f : fsm) : fsm :=
  mkFsm (st f) (next_id f) (restart f) (failc f) (lastReq f) (armed f) (out f) (hlog f) (S (nsent f)) (pick f).

Definition startTimer (f : fsm) : fsm := set_armed true f.     (* stopTimer(); AfterFunc(...) *)
Definition stopTimer (f : fsm) : fsm := set_armed false f.

Definition irc (c : cfg) (f : fsm) : fsm := f |> set_restart (maxConf c) |> emit Irc.
Definition zrc (f : fsm) : fsm := f |> set_restart 0 |> emit Zrc.

(* scr: id := nextID(); lastReqID = id; send(ConfReq, id, ...); startTimer() *)
Definition scr (f : fsm) : fsm :=
  let id := next_id f in
  f |> take_id |> set_lastReq id |> emit (Scr id) |> startTimer.
Definition sca (id : Z) (f : fsm) : fsm := emit (Sca id) f.
Definition scn (id : Z) (f : fsm) : fsm := f |> set_failc (failc f + 1) |> emit (Scn id).
Definition screj (id : Z) (f : fsm) : fsm := emit (Screj id) f.
(* str: restartCount = maxTerm; send(TermReq, nextID(), nil); startTimer() *)
Definition str (c : cfg) (f : fsm) : fsm :=
  let f := set_restart (maxTerm c) f in
  let id := next_id f in
  f |> take_id |> emit (Str id) |> startTimer.
Definition strRetransmit (f : fsm) : fsm :=
  let id := next_id f in
  f |> take_id |> emit (Str id) |> startTimer.
Definition sta (id : Z) (f : fsm) : fsm := emit (Sta id) f.
Definition tlu := emit Tlu.
Definition tld := emit Tld.
Definition tls := emit Tls.
Definition tlf := emit Tlf.

(* func (f *FSM) Up() *)
Definition up (c : cfg) (f : fsm) : fsm :=
  match st f with
  | Initial => set_st Closed f
  | Starting => f |> irc c |> scr |> set_st ReqSent
  | _ => f
  end.

(* func (f *FSM) Down() *)
Definition down (f : fsm) : fsm :=
  let f := stopTimer f in
  match st f with
  | Closed | Closing => set_st Initial f
  | Stopped => f |> tls |> set_st Starting
  | Stopping | ReqSent | AckRcvd | AckSent => set_st Starting f
  | Opened => f |> tld |> set_st Starting
  | _ => f
  end.

(* func (f *FSM) Open() *)
Definition open (c : cfg) (v : variant) (f : fsm) : fsm :=
  match st f with
  | Initial => f |> tls |> set_st Starting
  | Closed => f |> irc c |> scr |> set_st ReqSent
  | Closing =>                                               (* CELL Open/Closing *)
      if fix_cells v then set_st Stopping f else f
  | _ => f
  end.

(* func (f *FSM) Close() *)
Definition close (c : cfg) (f : fsm) : fsm :=
  match st f with
  | Starting => f |> tlf |> set_st Initial
  | Stopped => set_st Closed f
  | Stopping => set_st Closing f
  | Opened => f |> tld |> irc c |> str c |> set_st Closing
  | ReqSent | AckRcvd | AckSent => f |> irc c |> str c |> set_st Closing
  | _ => f
  end.

(* func (f *FSM) Timeout() *)
Definition timeout (f : fsm) : fsm :=
  if restart f >? 0 then
    let f := set_restart (restart f - 1) f in
    match st f with
    | Closing | Stopping => strRetransmit f
    | ReqSent | AckSent => scr f
    | AckRcvd => f |> scr |> set_st ReqSent
    | _ => f
    end
  else
    match st f with
    | Closing => f |> tlf |> set_st Closed
    | Stopping => f |> tlf |> set_st Stopped
    | ReqSent | AckRcvd | AckSent => f |> tlf |> set_st Stopped
    | _ => f
    end.

(* the three-way reply of rcrEvent: isGood -> sca; else len(rej)>0 -> scj(rej); else scn(nak) *)
Definition is_good (k : Cls) : bool := match k with CGood => true | _ => false end.
Definition has_rej (k : Cls) : bool := match k with CRej | CBoth => true | _ => false end.
Definition reply (id : Z) (k : Cls) (sGood sBad : St) (f : fsm) : fsm :=
  if is_good k then f |> sca id |> set_st sGood
  else if has_rej k then f |> screj id |> set_st sBad
  else f |> scn id |> set_st sBad.

(* func (f *FSM) rcrEvent(id, data) *)
Definition rcrEvent (c : cfg) (id : Z) (k : Cls) (data : list Z) (f : fsm) : fsm :=
  match k with
  | CMalformed => f                                  (* ParseOptions error: return *)
  | _ =>
    let f := hcall (HReq (parse_or_nil data)) f in   (* f.handler.ProcessConfReq(opts) *)
    match st f with
    | Closed => sta id f
    | Stopped => f |> irc c |> scr |> reply id k AckSent ReqSent
    | ReqSent => reply id k AckSent ReqSent f
    | AckRcvd =>
        if is_good k then f |> sca id |> stopTimer |> tlu |> set_st Opened
        else if has_rej k then screj id f
        else scn id f
    | AckSent => reply id k AckSent ReqSent f
    | Opened => f |> tld |> scr |> reply id k AckSent ReqSent
    | _ => f
    end
  end.

(* func (f *FSM) rcaEvent(id, data) *)
Definition rcaEvent (c : cfg) (v : variant) (id : Z) (data : list Z) (f : fsm) : fsm :=
  if negb (id =? lastReq f) then f else
  let f := hcall (HAck (parse_or_nil data)) f in     (* f.handler.ProcessConfAck(opts) *)
  match st f with
  | Closed | Stopped => sta id f
  | ReqSent => f |> irc c |> set_st AckRcvd
  | AckRcvd => f |> scr |> set_st ReqSent
  | AckSent =>                                               (* CELL RCA/Ack-Sent: irc *)
      if fix_cells v then f |> stopTimer |> irc c |> tlu |> set_st Opened
      else f |> stopTimer |> tlu |> set_st Opened
  | Opened => f |> tld |> scr |> set_st ReqSent
  | _ => f
  end.

(* func (f *FSM) rcnEvent(id, data, isRej) *)
Definition rcnEvent (c : cfg) (v : variant) (id : Z) (data : list Z) (isRej : bool) (f : fsm) : fsm :=
  if negb (id =? lastReq f) then f else
  let f := hcall (if isRej then HRej (parse_or_nil data) else HNak (parse_or_nil data)) f in
  match st f with
  | Closed | Stopped => sta id f
  | ReqSent => f |> irc c |> scr
  | AckRcvd => f |> scr |> set_st ReqSent
  | AckSent =>                                               (* CELL RCN/Ack-Sent *)
      if fix_cells v then f |> irc c |> scr
      else f |> irc c |> scr |> set_st ReqSent
  | Opened => f |> tld |> scr |> set_st ReqSent
  | _ => f
  end.

(* func (f *FSM) rtrEvent(id) *)
Definition rtrEvent (v : variant) (id : Z) (f : fsm) : fsm :=
  match st f with
  | Closed | Stopped | Closing | Stopping => sta id f
  | ReqSent => sta id f
  | AckRcvd | AckSent =>                                     (* CELL RTR/Ack-Rcvd, RTR/Ack-Sent *)
      if fix_cells v then f |> sta id |> set_st ReqSent
      else sta id f
  | Opened =>                                                (* CELL RTR/Opened: timer *)
      if fix_cells v then f |> tld |> zrc |> startTimer |> sta id |> set_st Stopping
      else f |> tld |> zrc |> sta id |> set_st Stopping
  | _ => f
  end.

(* func (f *FSM) rtaEvent() *)
Definition rtaEvent (v : variant) (f : fsm) : fsm :=
  match st f with
  | Closing => f |> stopTimer |> tlf |> set_st Closed
  | Stopping => f |> stopTimer |> tlf |> set_st Stopped
  | AckRcvd =>                                               (* CELL RTA/Ack-Rcvd *)
      if fix_cells v then set_st ReqSent f else f
  | AckSent =>                                               (* CELL RTA/Ack-Sent *)
      if fix_cells v then f else set_st ReqSent f
  | Opened => f |> tld |> scr |> set_st ReqSent
  | _ => f
  end.

(* func (f *FSM) rxjEvent(data)  — every Code-Reject is treated as catastrophic (RXJ-) *)
Definition rxjEvent (c : cfg) (v : variant) (f : fsm) : fsm :=
  match st f with
  | ReqSent | AckRcvd | AckSent => f |> tlf |> set_st Stopped
  | Opened => f |> tld |> irc c |> str c |> set_st Stopping
  | Closed | Stopped =>                                      (* CELL RXJ-/Closed, RXJ-/Stopped *)
      if fix_cells v then tlf f else f
  | Closing =>                                               (* CELL RXJ-/Closing *)
      if fix_cells v then f |> stopTimer |> tlf |> set_st Closed else f
  | Stopping =>                                              (* CELL RXJ-/Stopping *)
      if fix_cells v then f |> stopTimer |> tlf |> set_st Stopped else f
  | _ => f
  end.

(* func (f *FSM) rucEvent(code, id, data): f.send(CodeRej, f.nextID(), pkt) *)
Definition rucEvent (code id : Z) (f : fsm) : fsm :=
  let nid := next_id f in
  f |> take_id |> emit (Scj nid code id).

(* func (f *FSM) rxrEvent(id, data) *)
Definition rxrEvent (id : Z) (data : list Z) (f : fsm) : fsm :=
  if st_eqb (st f) Opened && (dlen_of data >=? 4) then emit (Ser id) f else f.

(* the codes of protocol.go *)
Inductive Code := KConfReq | KConfAck | KConfNak | KConfRej | KTermReq | KTermAck | KCodeRej
                | KProtoRej | KEchoReq | KEchoRep | KDiscReq | KUnknown.
Definition code_of (z : Z) : Code :=
  if z =? 1 then KConfReq else if z =? 2 then KConfAck else if z =? 3 then KConfNak
  else if z =? 4 then KConfRej else if z =? 5 then KTermReq else if z =? 6 then KTermAck
  else if z =? 7 then KCodeRej else if z =? 8 then KProtoRej else if z =? 9 then KEchoReq
  else if z =? 10 then KEchoRep else if z =? 11 then KDiscReq else KUnknown.

(* func (f *FSM) Input(code, id, data) *)
Definition lcp_only (k : Code) : bool :=
  match k with KProtoRej | KEchoReq | KEchoRep | KDiscReq => true | _ => false end.

Definition input (c : cfg) (v : variant) (code id : Z) (k : Cls) (data : list Z) (f : fsm) : fsm :=
  if fix_ncp v && negb (lcp c) && lcp_only (code_of code)
  then rucEvent code id f                                    (* CELL codes 8-11 at an NCP *)
  else
  match code_of code with
  | KConfReq => rcrEvent c id k data f
  | KConfAck => rcaEvent c v id data f
  | KConfNak => rcnEvent c v id data false f
  | KConfRej => rcnEvent c v id data true f
  | KTermReq => rtrEvent v id f
  | KTermAck => rtaEvent v f
  | KCodeRej => rxjEvent c v f
  | KProtoRej => f
  | KEchoReq => rxrEvent id data f
  | KEchoRep | KDiscReq => f
  | KUnknown => rucEvent code id f
  end.

(* One event.  ETimeout is "the restart timer expires": it can only happen while the timer is pending
   (f.timer != nil); the pending timer is consumed (time.AfterFunc fires once) and Timeout() runs.
   Without a pending timer there is no such event (the step is the identity).
   /repo HEAD's timer callback timerFired(gen) implements exactly this (it ignores a fire whose timer
   was stopped or restarted while the callback waited for f.mu).  Before bbcb995 the callback was
   Timeout() itself and ran regardless: [raw_timeout] below, kept for the historical witness. *)
Definition step (c : cfg) (v : variant) (f : fsm) (e : Ev) : fsm :=
  let f := clear_out f in
  match e with
  | EUp => up c f
  | EDown => down f
  | EOpen => open c v f
  | EClose => close c f
  | ETimeout => if armed f then timeout (set_armed false f) else f
  | EInput code id k data => input c v code id k data f
  end.

(* The exported method Timeout() of /repo HEAD (no caller outside tests), which was also the timer
   callback before bbcb995 (time.AfterFunc(f.restartTime, f.Timeout)): Timeout() runs
   whether or not the timer is still the pending one, and f.timer is left as it is. *)
Definition raw_timeout (f : fsm) : fsm := timeout (clear_out f).
(* A timer that was pending in state f before an event, where f' is the state after the event, is
   still the pending one iff the event neither stopped nor restarted it (startTimer is reached only
   through scr / str / strRetransmit from a state with a pending timer). *)
Definition is_scr_or_str (a : Act) : bool := match a with Scr _ | Str _ => true | _ => false end.
Definition fire_still_valid (f f' : fsm) : bool :=
  armed f && armed f' && negb (existsb is_scr_or_str (rev (out f'))).

(* func (f *FSM) Restore() and func (f *FSM) Kill(): administrative entry points outside the RFC's event
   set (session restore after a crash, session teardown); silent by design.  They are not events of
   [Ev]; the correspondence check drives them as ops R and K. *)
Definition restore (fixed : bool) (c : cfg) (f : fsm) : fsm :=
  clear_out f |> stopTimer |> set_st Opened
              |> set_restart (if fixed then maxConf c else 0)   (* fixed = true: HEAD (fe05ccf) *)
              |> set_failc 0.
Definition kill (f : fsm) : fsm := clear_out f |> stopTimer |> set_st Closed.

Definition outs (f : fsm) : list Act := rev (out f).

(* ------------------------------------------------------------------ Part 2: RFC 1661 4.1 *)

(* Events of the table.  RXR is split in two rows: RXRq (Echo-Request, answered by ser in Opened)
   and RXRo (Echo-Reply / Discard-Request: "there is no reply to an Echo-Reply or
   Discard-Request", RFC 1661 5.8/5.9) — same next states. *)
Inductive REv := RUp | RDown | ROpen | RClose | RTOp | RTOm | RCRp | RCRm | RCA | RCN
               | RTR | RTA | RUC | RXJp | RXJm | RXRq | RXRo.

Inductive RAct := a_tlu | a_tld | a_tls | a_tlf | a_irc | a_zrc | a_scr | a_sca | a_scn
                | a_str | a_sta | a_scj | a_ser.

(* None = "-" (the event cannot occur in that state).  The restart option "r" and the passive
   option "p" are not implemented (RFC: optional), so 3r, 5r, 9r, 3p read 3, 5, 9, 3.
   Transcribed column by column from the two halves of the table in RFC 1661 section 4.1. *)
Definition rfc1661 (s : St) (e : REv) : option (list RAct * St) :=
  match s with
  | Initial => match e with
      | RUp => Some ([], Closed)
      | ROpen => Some ([a_tls], Starting)
      | RClose => Some ([], Initial)
      | _ => None end
  | Starting => match e with
      | RUp => Some ([a_irc; a_scr], ReqSent)
      | ROpen => Some ([], Starting)
      | RClose => Some ([a_tlf], Initial)
      | _ => None end
  | Closed => match e with
      | RUp => None
      | RDown => Some ([], Initial)
      | ROpen => Some ([a_irc; a_scr], ReqSent)
      | RClose => Some ([], Closed)
      | RTOp | RTOm => None
      | RCRp | RCRm | RCA | RCN | RTR => Some ([a_sta], Closed)
      | RTA => Some ([], Closed)
      | RUC => Some ([a_scj], Closed)
      | RXJp => Some ([], Closed)
      | RXJm => Some ([a_tlf], Closed)
      | RXRq | RXRo => Some ([], Closed) end
  | Stopped => match e with
      | RUp => None
      | RDown => Some ([a_tls], Starting)
      | ROpen => Some ([], Stopped)
      | RClose => Some ([], Closed)
      | RTOp | RTOm => None
      | RCRp => Some ([a_irc; a_scr; a_sca], AckSent)
      | RCRm => Some ([a_irc; a_scr; a_scn], ReqSent)
      | RCA | RCN | RTR => Some ([a_sta], Stopped)
      | RTA => Some ([], Stopped)
      | RUC => Some ([a_scj], Stopped)
      | RXJp => Some ([], Stopped)
      | RXJm => Some ([a_tlf], Stopped)
      | RXRq | RXRo => Some ([], Stopped) end
  | Closing => match e with
      | RUp => None
      | RDown => Some ([], Initial)
      | ROpen => Some ([], Stopping)
      | RClose => Some ([], Closing)
      | RTOp => Some ([a_str], Closing)
      | RTOm => Some ([a_tlf], Closed)
      | RCRp | RCRm | RCA | RCN => Some ([], Closing)
      | RTR => Some ([a_sta], Closing)
      | RTA => Some ([a_tlf], Closed)
      | RUC => Some ([a_scj], Closing)
      | RXJp => Some ([], Closing)
      | RXJm => Some ([a_tlf], Closed)
      | RXRq | RXRo => Some ([], Closing) end
  | Stopping => match e with
      | RUp => None
      | RDown => Some ([], Starting)
      | ROpen => Some ([], Stopping)
      | RClose => Some ([], Closing)
      | RTOp => Some ([a_str], Stopping)
      | RTOm => Some ([a_tlf], Stopped)
      | RCRp | RCRm | RCA | RCN => Some ([], Stopping)
      | RTR => Some ([a_sta], Stopping)
      | RTA => Some ([a_tlf], Stopped)
      | RUC => Some ([a_scj], Stopping)
      | RXJp => Some ([], Stopping)
      | RXJm => Some ([a_tlf], Stopped)
      | RXRq | RXRo => Some ([], Stopping) end
  | ReqSent => match e with
      | RUp => None
      | RDown => Some ([], Starting)
      | ROpen => Some ([], ReqSent)
      | RClose => Some ([a_irc; a_str], Closing)
      | RTOp => Some ([a_scr], ReqSent)
      | RTOm => Some ([a_tlf], Stopped)
      | RCRp => Some ([a_sca], AckSent)
      | RCRm => Some ([a_scn], ReqSent)
      | RCA => Some ([a_irc], AckRcvd)
      | RCN => Some ([a_irc; a_scr], ReqSent)
      | RTR => Some ([a_sta], ReqSent)
      | RTA => Some ([], ReqSent)
      | RUC => Some ([a_scj], ReqSent)
      | RXJp => Some ([], ReqSent)
      | RXJm => Some ([a_tlf], Stopped)
      | RXRq | RXRo => Some ([], ReqSent) end
  | AckRcvd => match e with
      | RUp => None
      | RDown => Some ([], Starting)
      | ROpen => Some ([], AckRcvd)
      | RClose => Some ([a_irc; a_str], Closing)
      | RTOp => Some ([a_scr], ReqSent)
      | RTOm => Some ([a_tlf], Stopped)
      | RCRp => Some ([a_sca; a_tlu], Opened)
      | RCRm => Some ([a_scn], AckRcvd)
      | RCA => Some ([a_scr], ReqSent)
      | RCN => Some ([a_scr], ReqSent)
      | RTR => Some ([a_sta], ReqSent)
      | RTA => Some ([], ReqSent)
      | RUC => Some ([a_scj], AckRcvd)
      | RXJp => Some ([], ReqSent)
      | RXJm => Some ([a_tlf], Stopped)
      | RXRq | RXRo => Some ([], AckRcvd) end
  | AckSent => match e with
      | RUp => None
      | RDown => Some ([], Starting)
      | ROpen => Some ([], AckSent)
      | RClose => Some ([a_irc; a_str], Closing)
      | RTOp => Some ([a_scr], AckSent)
      | RTOm => Some ([a_tlf], Stopped)
      | RCRp => Some ([a_sca], AckSent)
      | RCRm => Some ([a_scn], ReqSent)
      | RCA => Some ([a_irc; a_tlu], Opened)
      | RCN => Some ([a_irc; a_scr], AckSent)
      | RTR => Some ([a_sta], ReqSent)
      | RTA => Some ([], AckSent)
      | RUC => Some ([a_scj], AckSent)
      | RXJp => Some ([], AckSent)
      | RXJm => Some ([a_tlf], Stopped)
      | RXRq | RXRo => Some ([], AckSent) end
  | Opened => match e with
      | RUp => None
      | RDown => Some ([a_tld], Starting)
      | ROpen => Some ([], Opened)
      | RClose => Some ([a_tld; a_irc; a_str], Closing)
      | RTOp | RTOm => None
      | RCRp => Some ([a_tld; a_scr; a_sca], AckSent)
      | RCRm => Some ([a_tld; a_scr; a_scn], ReqSent)
      | RCA => Some ([a_tld; a_scr], ReqSent)
      | RCN => Some ([a_tld; a_scr], ReqSent)
      | RTR => Some ([a_tld; a_zrc; a_sta], Stopping)
      | RTA => Some ([a_tld; a_scr], ReqSent)
      | RUC => Some ([a_scj], Opened)
      | RXJp => Some ([], Opened)
      | RXJm => Some ([a_tld; a_irc; a_str], Stopping)
      | RXRq => Some ([a_ser], Opened)
      | RXRo => Some ([], Opened) end
  end.

(* Which RFC event a concrete event is, given the automaton's variables; None = the packet is one
   the RFC tells an implementation to discard silently:
   - a Configure-Request that does not parse;
   - Configure-Ack/Nak/Reject whose Identifier is not that of the last Configure-Request sent
     (RFC 1661 5.2-5.4);
   - Echo-Request without a Magic-Number field;
   - (not a packet) a timer expiry without a pending timer does not exist;
   - Protocol-Reject outside Opened (5.7); in Opened it is a non-catastrophic RXJ+.
   Protocol-Reject, Echo-Request, Echo-Reply and Discard-Request are LCP codes (RFC 1661 5.7-5.9); IPCP
   and IPv6CP define codes 1-7 only and treat every other code as unknown (RFC 1332 section 3,
   RFC 5072 section 3): for an NCP they are RUC.
   Every Code-Reject is RXJ- : this implementation sends codes 1-7 and 10 only, a rejection of any
   of which is catastrophic. *)
Definition classify (c : cfg) (f : fsm) (e : Ev) : option REv :=
  match e with
  | EUp => Some RUp | EDown => Some RDown | EOpen => Some ROpen | EClose => Some RClose
  | ETimeout => if armed f then Some (if restart f >? 0 then RTOp else RTOm) else None
  | EInput code id k data =>
    if negb (lcp c) && lcp_only (code_of code) then Some RUC else
    match code_of code with
    | KConfReq => match k with CMalformed => None | CGood => Some RCRp | _ => Some RCRm end
    | KConfAck => if id =? lastReq f then Some RCA else None
    | KConfNak | KConfRej => if id =? lastReq f then Some RCN else None
    | KTermReq => Some RTR
    | KTermAck => Some RTA
    | KCodeRej => Some RXJm
    | KProtoRej => if st_eqb (st f) Opened then Some RXJp else None
    | KEchoReq => if dlen_of data >=? 4 then Some RXRq else None
    | KEchoRep | KDiscReq => Some RXRo
    | KUnknown => Some RUC
    end
  end.

Definition abs_act (a : Act) : RAct :=
  match a with
  | Irc => a_irc | Zrc => a_zrc | Scr _ => a_scr | Sca _ => a_sca | Scn _ => a_scn
  | Screj _ => a_scn            (* RFC: scn = "a Configure-Nak or Configure-Reject is transmitted" *)
  | Str _ => a_str | Sta _ => a_sta | Scj _ _ _ => a_scj | Ser _ => a_ser
  | Tlu => a_tlu | Tld => a_tld | Tls => a_tls | Tlf => a_tlf
  end.

Definition ract_num (a : RAct) : Z :=
  match a with a_tlu => 0 | a_tld => 1 | a_tls => 2 | a_tlf => 3 | a_irc => 4 | a_zrc => 5
             | a_scr => 6 | a_sca => 7 | a_scn => 8 | a_str => 9 | a_sta => 10 | a_scj => 11
             | a_ser => 12 end.
Fixpoint racts_eqb (x y : list RAct) : bool :=
  match x, y with
  | [], [] => true
  | a :: x, b :: y => (ract_num a =? ract_num b) && racts_eqb x y
  | _, _ => false
  end.

(* Does the step f --e--> f' agree with the RFC cell?
   - discarded packet: nothing sent, same state;
   - legal cell: same next state, same action list;
   - "-" cell: nothing happens, except that an unknown code is still answered by a Code-Reject
     (Initial/Starting; the RFC leaves these cells open). *)
Definition conformsb (c : cfg) (f : fsm) (e : Ev) (f' : fsm) : bool :=
  match classify c f e with
  | None => st_eqb (st f') (st f) && racts_eqb (map abs_act (outs f')) []
  | Some re =>
    match rfc1661 (st f) re with
    | Some (acts, s') => st_eqb (st f') s' && racts_eqb (map abs_act (outs f')) acts
    | None => st_eqb (st f') (st f) &&
              racts_eqb (map abs_act (outs f'))
                        (match re with RUC => [a_scj] | _ => [] end)
    end
  end.

(* the restart counter after a step, as the RFC actions define it *)
Definition is_irc (a : Act) := match a with Irc => true | _ => false end.
Definition is_zrc (a : Act) := match a with Zrc => true | _ => false end.
Definition is_str (a : Act) := match a with Str _ => true | _ => false end.
Definition is_scr (a : Act) := match a with Scr _ => true | _ => false end.
Definition is_tlf (a : Act) := match a with Tlf => true | _ => false end.
Definition counter_after (c : cfg) (f : fsm) (e : Ev) (acts : list Act) : Z :=
  if existsb is_zrc acts then 0
  else if existsb is_irc acts then (if existsb is_str acts then maxTerm c else maxConf c)
  else match e with
       | ETimeout => if armed f && (restart f >? 0) then restart f - 1 else restart f
       | _ => restart f
       end.

(* identifiers: replies echo the identifier of the packet answered; requests and Code-Rejects
   take the next identifier modulo 256 *)
Definition ev_id (e : Ev) : Z := match e with EInput _ id _ _ => id | _ => -1 end.
Definition ev_code (e : Ev) : Z := match e with EInput code _ _ _ => code | _ => -1 end.
Definition ids_okb (f : fsm) (e : Ev) (acts : list Act) : bool :=
  forallb (fun a => match a with
     | Sca i | Scn i | Screj i | Sta i | Ser i => i =? ev_id e
     | Scr i | Str i => i =? next_id f
     | Scj i rc ri => (i =? next_id f) && (rc =? ev_code e) && (ri =? ev_id e)
     | _ => true end) acts.

(* ------------------------------------------------------------------ Part 3: histories *)

Inductive Item := IEv (e : Ev) | IAct (a : Act).

Fixpoint run (c : cfg) (v : variant) (f : fsm) (es : list Ev) : fsm :=
  match es with [] => f | e :: es => run c v (step c v f e) es end.

(* observable trace: every event followed by the actions it caused *)
Fixpoint trace (c : cfg) (v : variant) (f : fsm) (es : list Ev) : list Item :=
  match es with
  | [] => []
  | e :: es => let f' := step c v f e in
               IEv e :: map IAct (outs f') ++ trace c v f' es
  end.

(* Monitor 1: This-Layer-Up / This-Layer-Down strictly alternate.  [up] = a tlu is outstanding. *)
Fixpoint alternates (up : bool) (t : list Item) : bool :=
  match t with
  | [] => true
  | IAct Tlu :: t => negb up && alternates true t
  | IAct Tld :: t => up && alternates false t
  | _ :: t => alternates up t
  end.

(* Monitor 2: a tlu is reported only when both directions' current Configure-Requests are
   acknowledged.  Computed from the trace alone:
     ours   = a Configure-Ack carrying the id of our latest Configure-Request has arrived since
              that request was sent (and the peer has not since sent Terminate-Request/-Ack,
              and the link has not gone down)  — [strict] adds the Terminate clause;
     theirs = our latest reply to the peer's latest well-formed Configure-Request was a
              Configure-Ack with that request's id (and no Terminate-Request / Down since). *)
Record mon := mkMon { m_lastScr : option Z; m_ours : bool; m_lastRcr : option Z; m_theirs : bool }.
Definition mon0 : mon := mkMon None false None false.
Definition oz_eqb (a : option Z) (b : Z) : bool := match a with Some x => x =? b | None => false end.

Definition mon_item (strict : bool) (m : mon) (i : Item) : option mon :=
  match i with
  | IEv EDown => Some (mkMon (m_lastScr m) false (m_lastRcr m) false)
  | IEv (EInput code id k _) =>
    match code_of code with
    | KConfReq => match k with
                  | CMalformed => Some m
                  | _ => Some (mkMon (m_lastScr m) (m_ours m) (Some id) false) end
    | KConfAck => if oz_eqb (m_lastScr m) id
                  then Some (mkMon (m_lastScr m) true (m_lastRcr m) (m_theirs m)) else Some m
    | KTermReq => if strict then Some (mkMon (m_lastScr m) false (m_lastRcr m) false) else Some m
    | KTermAck => if strict then Some (mkMon (m_lastScr m) false (m_lastRcr m) (m_theirs m)) else Some m
    | _ => Some m
    end
  | IEv _ => Some m
  | IAct (Scr i) => Some (mkMon (Some i) false (m_lastRcr m) (m_theirs m))
  | IAct (Sca i) => Some (mkMon (m_lastScr m) (m_ours m) (m_lastRcr m) (oz_eqb (m_lastRcr m) i))
  | IAct (Scn _) | IAct (Screj _) => Some (mkMon (m_lastScr m) (m_ours m) (m_lastRcr m) false)
  | IAct Tlu => if m_ours m && m_theirs m then Some m else None
  | IAct _ => Some m
  end.

Fixpoint mon_run (strict : bool) (m : mon) (t : list Item) : option mon :=
  match t with
  | [] => Some m
  | i :: t => match mon_item strict m i with Some m' => mon_run strict m' t | None => None end
  end.
Definition both_acked (strict : bool) (t : list Item) : bool :=
  match mon_run strict mon0 t with Some _ => true | None => false end.

(* counting transmissions in a trace *)
Definition count_acts (p : Act -> bool) (t : list Item) : nat :=
  length (filter (fun i => match i with IAct a => p a | _ => false end) t).

Definition waiting (s : St) : bool :=       (* the states in which the restart timer must run *)
  match s with Closing | Stopping | ReqSent | AckRcvd | AckSent => true | _ => false end.

(* the cells in which fsm.go departed from the table before d6fc4b1 *)
Definition bad_cells : list (St * REv) :=
  [ (Closing, ROpen); (AckSent, RCA); (AckSent, RCN); (AckRcvd, RTR); (AckSent, RTR);
    (AckRcvd, RTA); (AckSent, RTA); (Closed, RXJm); (Stopped, RXJm); (Closing, RXJm);
    (Stopping, RXJm) ].
Definition rev_num (e : REv) : Z :=
  match e with RUp => 0 | RDown => 1 | ROpen => 2 | RClose => 3 | RTOp => 4 | RTOm => 5
             | RCRp => 6 | RCRm => 7 | RCA => 8 | RCN => 9 | RTR => 10 | RTA => 11 | RUC => 12
             | RXJp => 13 | RXJm => 14 | RXRq => 15 | RXRo => 16 end.
Definition is_bad_cell (s : St) (e : REv) : bool :=
  existsb (fun p => st_eqb (fst p) s && (rev_num (snd p) =? rev_num e)) bad_cells.

(* what the driver prints for a state *)
Definition obs (f : fsm) : Z * Z * bool * Z * Z * Z :=
  (st_num (st f), restart f, armed f, lastReq f, idc f, failc f).

(* ------------------------------------------------------------------ Part 4: the real handlers *)
(* BuildConfReq of lcp.go / ipcp.go / ipv6cp.go as a function of the handler-call log, for the
   configurations the harness sets up.  Used by the correspondence check to predict the content of
   every Configure-Request; no theorem depends on these definitions (C05_discarded_invisible is
   about the log itself, i.e. holds for every handler). *)
Definition be (l : list Z) : Z := fold_left (fun a b => a * 256 + b) l 0.
Definition put16 (x : Z) : list Z := [(x / 256) mod 256; x mod 256].
Definition put32 (x : Z) : list Z := [(x / 16777216) mod 256; (x / 65536) mod 256; (x / 256) mod 256; x mod 256].
Definition len (l : list Z) : Z := Z.of_nat (length l).
Definition zmem (x : Z) (l : list Z) : bool := existsb (Z.eqb x) l.
Definition serialize (o : list Opt) : list Z :=          (* SerializeOptions *)
  flat_map (fun p => fst p :: ((2 + len (snd p)) mod 256) :: snd p) o.

(* LCP: local MRU, Magic, AuthProto, AuthAlgo, WantAuth, rejected *)
Record lcp_h := mkLcpH { l_mru : Z; l_magic : Z; l_auth : Z; l_algo : Z; l_want : bool; l_rej : list Z }.
Definition lcp_ack1 (h : lcp_h) (o : Opt) : lcp_h :=
  let (t, d) := o in
  if (t =? 1) && (len d =? 2) then mkLcpH (be d) (l_magic h) (l_auth h) (l_algo h) (l_want h) (l_rej h)
  else if (t =? 5) && (len d =? 4) then mkLcpH (l_mru h) (be d) (l_auth h) (l_algo h) (l_want h) (l_rej h)
  else h.
Definition lcp_nak1 (h : lcp_h) (o : Opt) : lcp_h :=
  let (t, d) := o in
  if (t =? 3) && (len d >=? 2)
  then mkLcpH (l_mru h) (l_magic h) (be (firstn 2 d)) (if len d >? 2 then nth 2 d 0 else l_algo h) (l_want h) (l_rej h)
  else lcp_ack1 h o.
Definition lcp_rej1 (h : lcp_h) (o : Opt) : lcp_h :=
  mkLcpH (l_mru h) (l_magic h) (l_auth h) (l_algo h) (l_want h) (fst o :: l_rej h).
Definition lcp_call (h : lcp_h) (c : HCall) : lcp_h :=
  match c with
  | HReq _ => h                     (* ProcessConfReq writes l.peer only *)
  | HAck o => fold_left lcp_ack1 o h
  | HNak o => fold_left lcp_nak1 o h
  | HRej o => fold_left lcp_rej1 o h
  end.
Definition lcp_build (h : lcp_h) : list Opt :=
  (if zmem 1 (l_rej h) then [] else [(1, put16 (l_mru h))]) ++
  (if negb (zmem 5 (l_rej h)) && negb (l_magic h =? 0) then [(5, put32 (l_magic h))] else []) ++
  (if negb (zmem 3 (l_rej h)) && l_want h
   then [(3, if l_auth h =? 49699 then put16 (l_auth h) ++ [l_algo h mod 256] else put16 (l_auth h))] else []).
(* harness: NewLCP; SetMagic(0x01020304); SetAuthProto(ProtoCHAP, CHAPMD5) *)
Definition lcp_h0 : lcp_h := mkLcpH 1492 16909060 49699 5 true [].

(* IPCP: local Address, PrimaryDNS, SecondaryDNS (byte lists), rejected *)
Record ipcp_h := mkIpcpH { i_addr : list Z; i_dns1 : list Z; i_dns2 : list Z; i_rej : list Z }.
Definition usable4 (a : list Z) : bool := (len a =? 4) && negb (forallb (Z.eqb 0) a).
Definition ipcp_set1 (h : ipcp_h) (o : Opt) : ipcp_h :=
  let (t, d) := o in
  if negb (len d =? 4) then h
  else if t =? 3 then mkIpcpH d (i_dns1 h) (i_dns2 h) (i_rej h)
  else if t =? 129 then mkIpcpH (i_addr h) d (i_dns2 h) (i_rej h)
  else if t =? 131 then mkIpcpH (i_addr h) (i_dns1 h) d (i_rej h)
  else h.
Definition ipcp_call (h : ipcp_h) (c : HCall) : ipcp_h :=
  match c with
  | HReq _ => h
  | HAck o | HNak o => fold_left ipcp_set1 o h
  | HRej o => mkIpcpH (i_addr h) (i_dns1 h) (i_dns2 h) (map fst o ++ i_rej h)
  end.
Definition ipcp_build (h : ipcp_h) : list Opt :=
  (if negb (zmem 3 (i_rej h)) && usable4 (i_addr h) then [(3, i_addr h)] else []) ++
  (if negb (zmem 129 (i_rej h)) && usable4 (i_dns1 h) then [(129, i_dns1 h)] else []) ++
  (if negb (zmem 131 (i_rej h)) && usable4 (i_dns2 h) then [(131, i_dns2 h)] else []).
(* harness: SetAddress(10.0.0.1); SetDNS(9.9.9.9, 8.8.8.8) *)
Definition ipcp_h0 : ipcp_h := mkIpcpH [10; 0; 0; 1] [9; 9; 9; 9] [8; 8; 8; 8] [].

(* IPv6CP: local interface identifier, rejected *)
Record ip6cp_h := mkIp6H { v_iid : list Z; v_rej : list Z }.
Definition ip6_set1 (h : ip6cp_h) (o : Opt) : ip6cp_h :=
  let (t, d) := o in if (t =? 1) && (len d =? 8) then mkIp6H d (v_rej h) else h.
Definition ip6_call (h : ip6cp_h) (c : HCall) : ip6cp_h :=
  match c with
  | HReq _ => h
  | HAck o | HNak o => fold_left ip6_set1 o h
  | HRej o => mkIp6H (v_iid h) (map fst o ++ v_rej h)
  end.
Definition ip6_build (h : ip6cp_h) : list Opt := if zmem 1 (v_rej h) then [] else [(1, v_iid h)].
Definition ip6_h0 : ip6cp_h := mkIp6H [2; 0; 0; 0; 0; 0; 0; 1] [].

(* content of the Configure-Request a handler of the given kind builds after the calls in [log]
   (most recent first); kind 0 = mock (constant request), 1 = LCP, 2 = IPCP, 3 = IPv6CP *)
Definition confreq_content (kind : Z) (log : list HCall) : list Z :=
  let calls := rev log in
  if kind =? 1 then serialize (lcp_build (fold_left lcp_call calls lcp_h0))
  else if kind =? 2 then serialize (ipcp_build (fold_left ipcp_call calls ipcp_h0))
  else if kind =? 3 then serialize (ip6_build (fold_left ip6_call calls ip6_h0))
  else [1; 4; 5; 212].
