(* C05/Rfc2.v — a second, independent transcription of the state transition table of RFC 1661
   section 4.1, typed in from the RFC text in the RFC's own layout: one ROW per event, one column per
   state 0..9, each cell "actions/next-state-number" or "-".  (Model.rfc1661 is organised the other
   way round: one block per state, symbolic state names.)  Proofs2.rfc_tables_agree shows by
   computation that the two transcriptions agree on all 16 x 10 cells.

         | State
         |    0         1         2         3         4         5         6         7         8         9
   Events| Initial   Starting  Closed    Stopped   Closing   Stopping  Req-Sent  Ack-Rcvd  Ack-Sent  Opened   *)
From OV Require Import Common.Base C05.Model.

Inductive cell := X | C (acts : list RAct) (next : nat).

(* the 16 event rows of the RFC, in the RFC's order *)
Inductive Row := rUp | rDown | rOpen | rClose | rTOp | rTOm | rRCRp | rRCRm | rRCA | rRCN
               | rRTR | rRTA | rRUC | rRXJp | rRXJm | rRXR.

Local Notation tlu := a_tlu. Local Notation tld := a_tld. Local Notation tls := a_tls.
Local Notation tlf := a_tlf. Local Notation irc := a_irc. Local Notation zrc := a_zrc.
Local Notation scr := a_scr. Local Notation sca := a_sca. Local Notation scn := a_scn.
Local Notation str := a_str. Local Notation sta := a_sta. Local Notation scj := a_scj.
Local Notation ser := a_ser.

(* "r" (restart option) and "p" (passive option) are not implemented: 3r 5r 9r 3p read 3 5 9 3 *)
Definition row (e : Row) : list cell :=
  match e with
  (*             0            1                 2                 3                      4             5             6                 7                 8                 9                    *)
  | rUp    => [ C [] 2;      C [irc;scr] 6;    X;                X;                     X;            X;            X;                X;                X;                X ]
  | rDown  => [ X;           X;                C [] 0;           C [tls] 1;             C [] 0;       C [] 1;       C [] 1;           C [] 1;           C [] 1;           C [tld] 1 ]
  | rOpen  => [ C [tls] 1;   C [] 1;           C [irc;scr] 6;    C [] 3;                C [] 5;       C [] 5;       C [] 6;           C [] 7;           C [] 8;           C [] 9 ]
  | rClose => [ C [] 0;      C [tlf] 0;        C [] 2;           C [] 2;                C [] 4;       C [] 4;       C [irc;str] 4;    C [irc;str] 4;    C [irc;str] 4;    C [tld;irc;str] 4 ]
  | rTOp   => [ X;           X;                X;                X;                     C [str] 4;    C [str] 5;    C [scr] 6;        C [scr] 6;        C [scr] 8;        X ]
  | rTOm   => [ X;           X;                X;                X;                     C [tlf] 2;    C [tlf] 3;    C [tlf] 3;        C [tlf] 3;        C [tlf] 3;        X ]
  | rRCRp  => [ X;           X;                C [sta] 2;        C [irc;scr;sca] 8;     C [] 4;       C [] 5;       C [sca] 8;        C [sca;tlu] 9;    C [sca] 8;        C [tld;scr;sca] 8 ]
  | rRCRm  => [ X;           X;                C [sta] 2;        C [irc;scr;scn] 6;     C [] 4;       C [] 5;       C [scn] 6;        C [scn] 7;        C [scn] 6;        C [tld;scr;scn] 6 ]
  | rRCA   => [ X;           X;                C [sta] 2;        C [sta] 3;             C [] 4;       C [] 5;       C [irc] 7;        C [scr] 6;        C [irc;tlu] 9;    C [tld;scr] 6 ]
  | rRCN   => [ X;           X;                C [sta] 2;        C [sta] 3;             C [] 4;       C [] 5;       C [irc;scr] 6;    C [scr] 6;        C [irc;scr] 8;    C [tld;scr] 6 ]
  | rRTR   => [ X;           X;                C [sta] 2;        C [sta] 3;             C [sta] 4;    C [sta] 5;    C [sta] 6;        C [sta] 6;        C [sta] 6;        C [tld;zrc;sta] 5 ]
  | rRTA   => [ X;           X;                C [] 2;           C [] 3;                C [tlf] 2;    C [tlf] 3;    C [] 6;           C [] 6;           C [] 8;           C [tld;scr] 6 ]
  | rRUC   => [ X;           X;                C [scj] 2;        C [scj] 3;             C [scj] 4;    C [scj] 5;    C [scj] 6;        C [scj] 7;        C [scj] 8;        C [scj] 9 ]
  | rRXJp  => [ X;           X;                C [] 2;           C [] 3;                C [] 4;       C [] 5;       C [] 6;           C [] 6;           C [] 8;           C [] 9 ]
  | rRXJm  => [ X;           X;                C [tlf] 2;        C [tlf] 3;             C [tlf] 2;    C [tlf] 3;    C [tlf] 3;        C [tlf] 3;        C [tlf] 3;        C [tld;irc;str] 5 ]
  | rRXR   => [ X;           X;                C [] 2;           C [] 3;                C [] 4;       C [] 5;       C [] 6;           C [] 7;           C [] 8;           C [ser] 9 ]
  end.

Definition all_states : list St :=
  [Initial; Starting; Closed; Stopped; Closing; Stopping; ReqSent; AckRcvd; AckSent; Opened].
Definition all_revs : list REv :=
  [RUp; RDown; ROpen; RClose; RTOp; RTOm; RCRp; RCRm; RCA; RCN; RTR; RTA; RUC; RXJp; RXJm; RXRq; RXRo].

(* the row of an event class of Model.v; RXRo (Echo-Reply / Discard-Request) is the RXR row without
   the Echo-Reply action *)
Definition row_of (e : REv) : Row * bool (* drop ser *) :=
  match e with
  | RUp => (rUp, false) | RDown => (rDown, false) | ROpen => (rOpen, false) | RClose => (rClose, false)
  | RTOp => (rTOp, false) | RTOm => (rTOm, false) | RCRp => (rRCRp, false) | RCRm => (rRCRm, false)
  | RCA => (rRCA, false) | RCN => (rRCN, false) | RTR => (rRTR, false) | RTA => (rRTA, false)
  | RUC => (rRUC, false) | RXJp => (rRXJp, false) | RXJm => (rRXJm, false)
  | RXRq => (rRXR, false) | RXRo => (rRXR, true)
  end.

Definition cell_matches (s : St) (e : REv) : bool :=
  let (r, drop) := row_of e in
  match nth (Z.to_nat (st_num s)) (row r) X, rfc1661 s e with
  | X, None => true
  | C acts n, Some (acts', s') =>
      racts_eqb (if drop then filter (fun a => negb (ract_num a =? ract_num a_ser)%Z) acts else acts) acts'
      && (Z.of_nat n =? st_num s')%Z
  | _, _ => false
  end.

Definition tables_agree : bool :=
  forallb (fun s => forallb (cell_matches s) all_revs) all_states
  && forallb (fun r => Nat.eqb (length (row r)) 10)
       [rUp; rDown; rOpen; rClose; rTOp; rTOm; rRCRp; rRCRm; rRCA; rRCN; rRTR; rRTA; rRUC; rRXJp; rRXJm; rRXR].

(* ---------------------------------------------------------------------------------------------
   Second transcription of the mapping packet -> event class (Model.classify is organised as a match
   on the decoded code; this one is organised by code RANGE and as a lookup list indexed by code - 1,
   following the packet-format sections 5.1-5.9 of RFC 1661, RFC 1332 section 3 / RFC 5072 section 3
   for the NCPs, and section 4.3 "Events" for RXJ+/RXJ-).  Inputs are the facts the RFC text talks
   about, not the automaton record. *)
Inductive verdict := Discarded | Is (r : Row) (reply : bool (* for RXR: is an Echo-Reply due *)).

Definition packet_event
  (is_lcp : bool)        (* the control protocol is LCP *)
  (opened : bool)        (* the automaton is in Opened *)
  (code : Z)
  (id_is_last_request : bool)  (* Identifier = that of the last Configure-Request sent (5.2-5.4) *)
  (parses good : bool)   (* the option list parses; every option is acceptable as it stands *)
  (has_magic : bool)     (* at least the 4-byte Magic-Number field follows the header (5.8) *)
  : verdict :=
  if ((1 <=? code) && (code <=? 7))%Z then
    nth (Z.to_nat (code - 1))
      [ (* 1 Configure-Request 5.1 *) if parses then (if good then Is rRCRp false else Is rRCRm false) else Discarded;
        (* 2 Configure-Ack     5.2 *) if id_is_last_request then Is rRCA false else Discarded;
        (* 3 Configure-Nak     5.3 *) if id_is_last_request then Is rRCN false else Discarded;
        (* 4 Configure-Reject  5.4 *) if id_is_last_request then Is rRCN false else Discarded;
        (* 5 Terminate-Request 5.5 *) Is rRTR false;
        (* 6 Terminate-Ack     5.5 *) Is rRTA false;
        (* 7 Code-Reject       5.6 *) Is rRXJm false   (* reading A: every rejected code is one we need *) ]
      Discarded
  else if ((8 <=? code) && (code <=? 11))%Z then
    if is_lcp then
      nth (Z.to_nat (code - 8))
        [ (* 8  Protocol-Reject 5.7: only in Opened; of an NCP, never of LCP itself: RXJ+ (reading B) *)
          if opened then Is rRXJp false else Discarded;
          (* 9  Echo-Request    5.8 *) if has_magic then Is rRXR true else Discarded;
          (* 10 Echo-Reply      5.8 *) Is rRXR false;
          (* 11 Discard-Request 5.9 *) Is rRXR false ]
        Discarded
    else Is rRUC false      (* IPCP / IPv6CP: codes 1-7 only *)
  else Is rRUC false.

Definition verdict_of (o : option REv) : verdict :=
  match o with
  | None => Discarded
  | Some RCRp => Is rRCRp false | Some RCRm => Is rRCRm false | Some RCA => Is rRCA false
  | Some RCN => Is rRCN false | Some RTR => Is rRTR false | Some RTA => Is rRTA false
  | Some RUC => Is rRUC false | Some RXJp => Is rRXJp false | Some RXJm => Is rRXJm false
  | Some RXRq => Is rRXR true | Some RXRo => Is rRXR false
  | Some RUp => Is rUp false | Some RDown => Is rDown false | Some ROpen => Is rOpen false
  | Some RClose => Is rClose false | Some RTOp => Is rTOp false | Some RTOm => Is rTOm false
  end.

Definition is_malformed (k : Cls) : bool := match k with CMalformed => true | _ => false end.
