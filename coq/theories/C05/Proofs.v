(* C05/Proofs.v — lemmas about the model in Model.v *)
From OV Require Import Common.Base C05.Model.
Open Scope Z_scope.

Ltac brk := repeat match goal with
  | |- context [if ?b then _ else _] => let E := fresh "E" in destruct b eqn:E
  end.
Ltac unfold_events :=
  unfold step, input, up, down, open, close, timeout, rcrEvent, rcaEvent, rcnEvent, rtrEvent, rtaEvent,
         rxjEvent, rucEvent, rxrEvent, reply.

(* ------------------------------------------------------------ 1. the table *)

Lemma table_repaired c f e : conformsb c f e (step c Repaired f e) = true.
Proof.
  destruct c as [mc mt lc]; destruct lc;
  destruct f as [s i r fl l a o hl ns pk]; destruct e as [| | | | |code id k data].
  all: try (destruct s; reflexivity).
  all: try (unfold conformsb, classify, step, timeout; cbn; destruct a; destruct (r >? 0); destruct s; reflexivity).
  all: unfold conformsb, classify; unfold_events; cbn;
    destruct (code_of code); destruct s; try destruct k; cbn; brk; cbn in *; try discriminate; try reflexivity.
Qed.

(* today's code agrees with the table in every cell that is not listed in bad_cells, except that
   it does not treat the LCP-only codes 8-11 as unknown codes when it runs an NCP *)
Definition ncp_lcp_code (c : cfg) (e : Ev) : bool :=
  match e with EInput code _ _ _ => negb (lcp c) && lcp_only (code_of code) | _ => false end.

Lemma table_defective_off_bad c f e :
  conformsb c f e (step c Defective f e) = true \/
  (exists re, classify c f e = Some re /\ is_bad_cell (st f) re = true) \/
  ncp_lcp_code c e = true.
Proof.
  destruct c as [mc mt lc]; destruct lc;
  destruct f as [s i r fl l a o hl ns pk]; destruct e as [| | | | |code id k data].
  all: try (left; destruct s; reflexivity).
  all: try (destruct s; try (left; reflexivity); right; left; exists ROpen; split; reflexivity).
  all: try (left; unfold conformsb, classify, step, timeout; cbn; destruct a; destruct (r >? 0); destruct s; reflexivity).
  all: unfold conformsb, classify, ncp_lcp_code; unfold_events; cbn;
    destruct (code_of code); destruct s; try destruct k; cbn; brk; cbn in *; try discriminate;
      try (left; reflexivity); try (right; right; reflexivity); right; left; eexists; split; reflexivity.
Qed.

(* with only the NCP patch missing, the table holds for LCP instances *)
Lemma table_lcp_cells_fixed c v f e :
  fix_cells v = true -> lcp c = true -> conformsb c f e (step c v f e) = true.
Proof.
  destruct c as [mc mt lc]; cbn; intros FC ->; destruct v as [fc fn]; cbn in FC; subst fc; destruct fn;
  destruct f as [s i r fl l a o hl ns pk]; destruct e as [| | | | |code id k data].
  all: try (destruct s; reflexivity).
  all: try (unfold conformsb, classify, step, timeout; cbn; destruct a; destruct (r >? 0); destruct s; reflexivity).
  all: unfold conformsb, classify; unfold_events; cbn;
    destruct (code_of code); destruct s; try destruct k; cbn; brk; cbn in *; try discriminate; try reflexivity.
Qed.

(* ------------------------------------------------------------ 2. counter and identifiers *)

Lemma counter_ok c v f e :
  restart (step c v f e) = counter_after c f e (outs (step c v f e)).
Proof.
  destruct f as [s i r fl l a o hl ns pk]; destruct e as [| | | | |code id k data].
  1-4: destruct s; destruct v as [[|] [|]]; reflexivity.
  - unfold counter_after, step, timeout; cbn. destruct a; destruct (r >? 0); destruct s; reflexivity.
  - unfold counter_after; unfold_events; cbn.
    destruct (code_of code); destruct s; try destruct k; try (destruct v as [[|] [|]]); cbn; brk; cbn in *;
      try discriminate; try reflexivity.
Qed.

Lemma ids_ok c v f e : ids_okb f e (outs (step c v f e)) = true.
Proof.
  destruct f as [s i r fl l a o hl ns pk]; destruct e as [| | | | |code id k data].
  1-4: destruct s; destruct v as [[|] [|]]; cbn; rewrite ?Z.eqb_refl; reflexivity.
  - unfold ids_okb, step, timeout; cbn. destruct a; destruct (r >? 0); destruct s; cbn; rewrite ?Z.eqb_refl; reflexivity.
  - unfold ids_okb; unfold_events; cbn.
    destruct (code_of code); destruct s; try destruct k; try (destruct v as [[|] [|]]); cbn; brk; cbn in *;
      rewrite ?Z.eqb_refl; try discriminate; try reflexivity.
Qed.

(* ------------------------------------------------------------ 3. stale acknowledgements *)

Definition is_ack_code (code : Z) : bool :=
  match code_of code with KConfAck | KConfNak | KConfRej => true | _ => false end.

Lemma stale_ignored c v f code id k data :
  is_ack_code code = true -> id <> lastReq f ->
  step c v f (EInput code id k data) = clear_out f.
Proof.
  intros H N. apply Z.eqb_neq in N. unfold is_ack_code in H.
  unfold step, input, rcaEvent, rcnEvent.
  destruct (code_of code); try discriminate; cbn; rewrite ?andb_false_r, N; reflexivity.
Qed.

Lemma current_ack_not_ignored_nonvac :
  st (step default_cfg Repaired (run default_cfg Repaired init [EOpen; EUp]) (EInput 2 1 CGood [])) = AckRcvd /\
  step default_cfg Repaired (run default_cfg Repaired init [EOpen; EUp]) (EInput 2 2 CGood [])
    = clear_out (run default_cfg Repaired init [EOpen; EUp]).
Proof. split; vm_compute; reflexivity. Qed.

(* lastReq is the identifier of the last Configure-Request in the trace *)
Fixpoint last_scr (acc : option Z) (t : list Item) : option Z :=
  match t with
  | [] => acc
  | IAct (Scr i) :: t => last_scr (Some i) t
  | _ :: t => last_scr acc t
  end.

Lemma last_scr_app acc a b : last_scr acc (a ++ b) = last_scr (last_scr acc a) b.
Proof. revert acc; induction a as [|x a IH]; intros acc; [reflexivity|]. destruct x as [e|[]]; cbn; apply IH. Qed.

Lemma step_last_scr c v f e acc :
  (acc = None \/ acc = Some (lastReq f)) ->
  let f' := step c v f e in
  let acc' := last_scr acc (IEv e :: map IAct (outs f')) in
  (acc' = None /\ acc = None /\ lastReq f' = lastReq f) \/ acc' = Some (lastReq f').
Proof.
  intros H; destruct f as [s i r fl l a o hl ns pk]; cbn in H.
  destruct e as [| | | | |code id k data].
  1-4: destruct s; destruct v as [[|] [|]]; cbn; destruct H as [->| ->]; auto.
  - unfold step, timeout; cbn. destruct a; destruct (r >? 0); destruct s; cbn; destruct H as [->| ->]; auto.
  - unfold_events; cbn.
    destruct (code_of code); destruct s; try destruct k; try (destruct v as [[|] [|]]); cbn; brk; cbn in *;
      try discriminate; destruct H as [->| ->]; auto.
Qed.

Lemma last_scr_some_not_none t : forall a, last_scr (Some a) t <> None.
Proof. induction t as [|x t IHt]; intros a0; cbn; [discriminate|]. destruct x as [e0|[]]; apply IHt. Qed.

Lemma trace_last_scr c v es : forall f acc,
  (acc = None \/ acc = Some (lastReq f)) ->
  (last_scr acc (trace c v f es) = None /\ lastReq (run c v f es) = lastReq f) \/
  last_scr acc (trace c v f es) = Some (lastReq (run c v f es)).
Proof.
  induction es as [|e es IH]; intros f acc H.
  - cbn. destruct H as [->| ->]; auto.
  - cbn [trace run].
    change (IEv e :: map IAct (outs (step c v f e)) ++ trace c v (step c v f e) es)
      with ((IEv e :: map IAct (outs (step c v f e))) ++ trace c v (step c v f e) es).
    rewrite last_scr_app.
    pose proof (step_last_scr c v f e acc H) as S; cbn zeta in S.
    destruct S as [(A & B & C)|A]; rewrite A.
    + destruct (IH (step c v f e) None (or_introl eq_refl)) as [(X & Y)|X].
      * left; split; [exact X|congruence].
      * right; exact X.
    + destruct (IH (step c v f e) _ (or_intror eq_refl)) as [(X & Y)|X].
      * exfalso; exact (last_scr_some_not_none _ _ X).
      * right; exact X.
Qed.

Lemma lastReq_is_last_scr i0 pk0 c v es :
  match last_scr None (trace c v (init_id i0 pk0) es) with
  | Some i => lastReq (run c v (init_id i0 pk0) es) = i
  | None => lastReq (run c v (init_id i0 pk0) es) = 0
  end.
Proof.
  destruct (trace_last_scr c v es (init_id i0 pk0) None (or_introl eq_refl)) as [(A & B)|A]; rewrite A; [exact B|reflexivity].
Qed.

(* ------------------------------------------------------------ 4. tlu / tld alternate *)

Fixpoint alt_acts (up : bool) (l : list Act) : option bool :=
  match l with
  | [] => Some up
  | Tlu :: l => if up then None else alt_acts true l
  | Tld :: l => if up then alt_acts false l else None
  | _ :: l => alt_acts up l
  end.

Lemma alternates_acts acts : forall up rest,
  alternates up (map IAct acts ++ rest) =
  match alt_acts up acts with Some up' => alternates up' rest | None => false end.
Proof.
  induction acts as [|a acts IH]; intros up rest; [reflexivity|].
  destruct a; cbn; try apply IH; destruct up; cbn; try reflexivity; apply IH.
Qed.

Definition is_opened (s : St) : bool := st_eqb s Opened.

Lemma step_alt c v f e :
  alt_acts (is_opened (st f)) (outs (step c v f e)) = Some (is_opened (st (step c v f e))).
Proof.
  destruct f as [s i r fl l a o hl ns pk]; destruct e as [| | | | |code id k data].
  1-4: destruct s; destruct v as [[|] [|]]; reflexivity.
  - unfold step, timeout; cbn. destruct a; destruct (r >? 0); destruct s; reflexivity.
  - unfold_events; cbn.
    destruct (code_of code); destruct s; try destruct k; try (destruct v as [[|] [|]]); cbn; brk; cbn in *;
      try discriminate; try reflexivity.
Qed.

Lemma alternates_from c v es : forall f,
  alternates (is_opened (st f)) (trace c v f es) = true.
Proof.
  induction es as [|e es IH]; intros f; [reflexivity|].
  cbn [trace]. change (alternates (is_opened (st f)) (IEv e :: ?t)) with (alternates (is_opened (st f)) t).
  rewrite alternates_acts, step_alt. apply IH.
Qed.

Lemma alternates_init i0 pk0 c v es : alternates false (trace c v (init_id i0 pk0) es) = true.
Proof. exact (alternates_from c v es (init_id i0 pk0)). Qed.

(* a layer is "up" (tlu outstanding) exactly in Opened *)
Fixpoint up_after (up : bool) (t : list Item) : bool :=
  match t with
  | [] => up
  | IAct Tlu :: t => up_after true t
  | IAct Tld :: t => up_after false t
  | _ :: t => up_after up t
  end.
Lemma up_after_acts acts : forall up rest b,
  alt_acts up acts = Some b -> up_after up (map IAct acts ++ rest) = up_after b rest.
Proof.
  induction acts as [|a acts IH]; intros up rest b H; cbn in *; [congruence|].
  destruct a; cbn; try (apply IH; exact H); destruct up; try discriminate; apply IH; exact H.
Qed.
Lemma up_iff_opened_from c v es : forall f,
  up_after (is_opened (st f)) (trace c v f es) = is_opened (st (run c v f es)).
Proof.
  induction es as [|e es IH]; intros f; [reflexivity|].
  cbn [trace run]. change (up_after (is_opened (st f)) (IEv e :: ?t)) with (up_after (is_opened (st f)) t).
  rewrite (up_after_acts _ _ _ _ (step_alt c v f e)). apply IH.
Qed.

Lemma up_iff_opened_init i0 pk0 c v es :
  up_after false (trace c v (init_id i0 pk0) es) = is_opened (st (run c v (init_id i0 pk0) es)).
Proof. exact (up_iff_opened_from c v es (init_id i0 pk0)). Qed.

(* ------------------------------------------------------------ 5. tlu needs both acknowledgements *)

Lemma mon_run_app s a : forall m b,
  mon_run s m (a ++ b) = match mon_run s m a with Some m' => mon_run s m' b | None => None end.
Proof.
  induction a as [|x a IH]; intros m b; [reflexivity|]. cbn.
  destruct (mon_item s m x); [apply IH|reflexivity].
Qed.

Definition negotiating (s : St) : bool :=
  match s with ReqSent | AckRcvd | AckSent | Opened => true | _ => false end.

Definition MInv (m : mon) (f : fsm) : Prop :=
  (negotiating (st f) = true -> m_lastScr m = Some (lastReq f)) /\
  (st f = AckRcvd \/ st f = Opened -> m_ours m = true) /\
  (st f = AckSent \/ st f = Opened -> m_theirs m = true).

Ltac minv_solve :=
  unfold MInv; cbn; repeat split; intros;
  repeat match goal with
         | H : _ \/ _ |- _ => destruct H
         | H : _ /\ _ |- _ => destruct H
         end; try discriminate; try reflexivity; auto.

Ltac use_minv H1 H2 H3 :=
  try (rewrite H1 by reflexivity); try (rewrite H2 by (auto; fail)); try (rewrite H3 by (auto; fail)).

Lemma mon_step_ok strict c v f e m :
  (strict = true -> v = Repaired) ->
  MInv m f ->
  exists m', mon_run strict m (IEv e :: map IAct (outs (step c v f e))) = Some m' /\
             MInv m' (step c v f e).
Proof.
  intros SV (H1 & H2 & H3).
  destruct m as [ls ou lr th]; destruct f as [s i r fl l a o hl ns pk]; cbn in H1, H2, H3.
  destruct e as [| | | | |code id k data].
  1-4: destruct s; destruct v as [[|] [|]]; cbn; eexists; (split; [reflexivity|]); minv_solve.
  - unfold step, timeout; cbn. destruct a; destruct (r >? 0); destruct s; cbn; eexists; (split; [reflexivity|]); minv_solve.
  - assert (SV' : strict = false \/ v = Repaired) by (destruct strict; auto).
    unfold step, input.
    destruct (fix_ncp v && negb (lcp c) && lcp_only (code_of code)) eqn:NCP.
    { apply andb_true_iff in NCP; destruct NCP as (_ & LO).
      unfold rucEvent; cbn.
      destruct (code_of code) eqn:EC; try discriminate LO; cbn; rewrite ?EC; cbn;
        eexists; (split; [reflexivity|]); minv_solve. }
    clear NCP. unfold_events; cbn.
    destruct (code_of code) eqn:EC; cbn; rewrite ?EC; cbn.
    + (* ConfReq *)
      destruct s; destruct k; cbn; rewrite ?Z.eqb_refl; cbn;
        try (rewrite H2 by auto); cbn;
        try (eexists; (split; [reflexivity|]); minv_solve; fail).
    + (* ConfAck *)
      destruct (id =? l) eqn:E; cbn.
      * apply Z.eqb_eq in E; subst id.
        destruct s; try (destruct v as [[|] [|]]); cbn; try (rewrite H1 by reflexivity); cbn; rewrite ?Z.eqb_refl; cbn;
          try (rewrite H3 by auto); cbn;
          try (destruct (oz_eqb ls l)); cbn;
          try (eexists; (split; [reflexivity|]); minv_solve; fail).
      * destruct (oz_eqb ls id) eqn:F.
        -- destruct s; cbn in *; try (eexists; (split; [reflexivity|]); minv_solve; fail);
             (rewrite H1 in F by reflexivity; cbn in F; rewrite Z.eqb_sym in F; congruence).
        -- eexists; (split; [reflexivity|]); minv_solve.
    + destruct (id =? l) eqn:E; cbn;
        destruct s; try (destruct v as [[|] [|]]); cbn; eexists; (split; [reflexivity|]); minv_solve.
    + destruct (id =? l) eqn:E; cbn;
        destruct s; try (destruct v as [[|] [|]]); cbn; eexists; (split; [reflexivity|]); minv_solve.
    + (* TermReq *)
      destruct SV' as [-> | ->]; destruct s; try (destruct v as [[|] [|]]); try destruct strict; cbn;
        eexists; (split; [reflexivity|]); minv_solve.
    + (* TermAck *)
      destruct SV' as [-> | ->]; destruct s; try (destruct v as [[|] [|]]); try destruct strict; cbn;
        eexists; (split; [reflexivity|]); minv_solve.
    + destruct s; try (destruct v as [[|] [|]]); cbn; eexists; (split; [reflexivity|]); minv_solve.
    + eexists; (split; [reflexivity|]); minv_solve.
    + unfold st_eqb; destruct s; cbn; destruct (dlen_of data >=? 4); cbn; eexists; (split; [reflexivity|]); minv_solve.
    + eexists; (split; [reflexivity|]); minv_solve.
    + eexists; (split; [reflexivity|]); minv_solve.
    + eexists; (split; [reflexivity|]); minv_solve.
Qed.

Lemma mon_trace_ok strict c v es :
  (strict = true -> v = Repaired) ->
  forall f m, MInv m f -> exists m', mon_run strict m (trace c v f es) = Some m'.
Proof.
  intros SV; induction es as [|e es IH]; intros f m I; cbn [trace].
  - eexists; reflexivity.
  - destruct (mon_step_ok strict c v f e m SV I) as (m' & R & I').
    change (IEv e :: map IAct (outs (step c v f e)) ++ trace c v (step c v f e) es)
      with ((IEv e :: map IAct (outs (step c v f e))) ++ trace c v (step c v f e) es).
    rewrite mon_run_app, R. exact (IH _ _ I').
Qed.

Lemma MInv_init i0 pk0 : MInv mon0 (init_id i0 pk0).
Proof. unfold MInv; cbn; repeat split; intros; try discriminate; destruct H; discriminate. Qed.

Lemma both_acked_strict_repaired i0 pk0 c es : both_acked true (trace c Repaired (init_id i0 pk0) es) = true.
Proof.
  unfold both_acked. destruct (mon_trace_ok true c Repaired es (fun _ => eq_refl) (init_id i0 pk0) mon0 (MInv_init i0 pk0)) as (m & ->).
  reflexivity.
Qed.

Lemma both_acked_weak_any i0 pk0 c v es : both_acked false (trace c v (init_id i0 pk0) es) = true.
Proof.
  unfold both_acked.
  destruct (mon_trace_ok false c v es (fun H => ltac:(discriminate)) (init_id i0 pk0) mon0 (MInv_init i0 pk0)) as (m & ->).
  reflexivity.
Qed.

(* ------------------------------------------------------------ 5b. the restart timer runs while waiting *)

Definition TInv (f : fsm) : Prop := waiting (st f) = true -> armed f = true.

Lemma tinv_step c v f e : fix_cells v = true -> TInv f -> TInv (step c v f e).
Proof.
  intros FC; destruct v as [fc fn]; cbn in FC; subst fc.
  unfold TInv; destruct f as [s i r fl l a o hl ns pk]; cbn; intros H.
  destruct fn; destruct e as [| | | | |code id k data].
  all: try (destruct s; cbn; intros; try discriminate; auto; fail).
  all: try (unfold step, timeout; cbn; destruct a; destruct (r >? 0); destruct s; cbn; intros; try discriminate; auto; fail).
  all: unfold_events; cbn;
    destruct (code_of code); destruct s; try destruct k; cbn; brk; cbn in *; intros;
      try discriminate; auto.
Qed.

Lemma tinv_run c v es : fix_cells v = true -> forall f, TInv f -> TInv (run c v f es).
Proof. intros FC; induction es as [|e es IH]; intros f I; [exact I|]. cbn. apply IH, tinv_step; assumption. Qed.

Lemma timer_armed i0 pk0 c es :
  waiting (st (run c Repaired (init_id i0 pk0) es)) = true -> armed (run c Repaired (init_id i0 pk0) es) = true.
Proof. apply (tinv_run c Repaired es eq_refl (init_id i0 pk0)). intros H; discriminate. Qed.

(* ------------------------------------------------------------ 6. bounded retransmission *)

Definition is_retrans (a : Act) : bool := is_scr a || is_str a.

Lemma count_acts_cons_ev p e t : count_acts p (IEv e :: t) = count_acts p t.
Proof. reflexivity. Qed.
Lemma count_acts_app p a b : count_acts p (a ++ b) = (count_acts p a + count_acts p b)%nat.
Proof. unfold count_acts. rewrite filter_app, app_length. reflexivity. Qed.

(* one Timeout in a waiting state: with the counter at zero the negotiation/termination is given up,
   otherwise exactly one request is retransmitted and the counter goes down by one *)
Lemma timeout_step c v f :
  waiting (st f) = true -> armed f = true ->
  let f' := step c v f ETimeout in
  if restart f >? 0
  then waiting (st f') = true /\ restart f' = restart f - 1 /\ armed f' = true /\
       count_acts is_retrans (map IAct (outs f')) = 1%nat /\ count_acts is_tlf (map IAct (outs f')) = 0%nat
  else (st f' = Closed \/ st f' = Stopped) /\ restart f' = restart f /\
       count_acts is_retrans (map IAct (outs f')) = 0%nat /\ count_acts is_tlf (map IAct (outs f')) = 1%nat.
Proof.
  destruct f as [s i r fl l a o hl ns pk]; cbn; intros W ->; unfold step, timeout; cbn.
  destruct (r >? 0); destruct s; try discriminate; cbn; auto 10.
Qed.

Lemma timeouts_end c v (n : nat) : forall f,
  waiting (st f) = true -> armed f = true -> restart f = Z.of_nat n ->
  let ts := repeat ETimeout (S n) in
  (st (run c v f ts) = Closed \/ st (run c v f ts) = Stopped) /\
  count_acts is_retrans (trace c v f ts) = n /\
  count_acts is_tlf (trace c v f ts) = 1%nat /\
  (forall k, (k <= n)%nat -> waiting (st (run c v f (repeat ETimeout k))) = true).
Proof.
  induction n as [|n IH]; intros f W AR R; cbn zeta.
  - pose proof (timeout_step c v f W AR) as T; cbn zeta in T. rewrite R in T. cbn in T.
    destruct T as (A & _ & B & C).
    cbn [repeat run trace]. rewrite app_nil_r, !count_acts_cons_ev. repeat split; auto.
    intros k Hk. assert (k = 0%nat) by lia; subst; exact W.
  - pose proof (timeout_step c v f W AR) as T; cbn zeta in T. rewrite R in T.
    replace (Z.of_nat (S n) >? 0) with true in T by (symmetry; apply Z.gtb_lt; lia).
    destruct T as (W' & R' & AR' & B & C).
    assert (R'' : restart (step c v f ETimeout) = Z.of_nat n) by lia.
    specialize (IH _ W' AR' R''); cbn zeta in IH. destruct IH as (I1 & I2 & I3 & I4).
    change (repeat ETimeout (S (S n))) with (ETimeout :: repeat ETimeout (S n)).
    cbn [run trace]. rewrite !count_acts_cons_ev, !count_acts_app, B, C, I2, I3.
    repeat split; auto.
    intros k Hk. destruct k as [|k]; [exact W|]. cbn [repeat run]. apply I4; lia.
Qed.

(* the restart counter stays within its bounds along every history *)
Definition RInv (c : cfg) (f : fsm) : Prop :=
  0 <= restart f <= Z.max (maxConf c) (maxTerm c) /\
  (st f = Closing \/ st f = Stopping -> restart f <= maxTerm c) /\
  (negotiating (st f) = true -> restart f <= maxConf c).

Ltac rinv_solve :=
  unfold RInv; cbn in *; repeat split; intros;
  repeat match goal with H : _ \/ _ |- _ => destruct H end; try discriminate; try lia;
  try (match goal with H : _ -> ?r <= _ |- _ => let X := fresh in assert (X := H ltac:(auto)); lia end);
  try (match goal with H : _ -> ?r <= _, H' : _ -> ?r <= _ |- _ =>
         let X := fresh in first [assert (X := H ltac:(auto)) | assert (X := H' ltac:(auto))]; lia end).

Lemma rinv_step c v f e :
  0 <= maxConf c -> 0 <= maxTerm c -> RInv c f -> RInv c (step c v f e).
Proof.
  intros HC HT (H1 & H2 & H3).
  destruct f as [s i r fl l a o hl ns pk]; cbn in H1, H2, H3.
  destruct e as [| | | | |code id k data].
  1-4: destruct s; destruct v as [[|] [|]]; rinv_solve.
  - unfold step, timeout; cbn. destruct a; (destruct (r >? 0) eqn:E; [apply Z.gtb_lt in E|]);
      destruct s; rinv_solve.
  - unfold_events; cbn.
    destruct (code_of code); destruct s; try destruct k; try (destruct v as [[|] [|]]); cbn; brk; cbn in *;
      try discriminate; rinv_solve.
Qed.

Lemma rinv_run c v es : 0 <= maxConf c -> 0 <= maxTerm c ->
  forall f, RInv c f -> RInv c (run c v f es).
Proof.
  intros HC HT; induction es as [|e es IH]; intros f I; [exact I|].
  cbn. apply IH, rinv_step; assumption.
Qed.

Lemma rinv_init i0 pk0 c : 0 <= maxConf c -> 0 <= maxTerm c -> RInv c (init_id i0 pk0).
Proof. intros; rinv_solve. Qed.

Lemma bounded i0 pk0 c v es :
  fix_cells v = true ->
  0 <= maxConf c -> 0 <= maxTerm c ->
  let f := run c v (init_id i0 pk0) es in
  waiting (st f) = true ->
  exists n : nat,
    Z.of_nat n = restart f /\
    Z.of_nat n <= (match st f with Closing | Stopping => maxTerm c | _ => maxConf c end) /\
    let ts := repeat ETimeout (S n) in
    (st (run c v f ts) = Closed \/ st (run c v f ts) = Stopped) /\
    count_acts is_retrans (trace c v f ts) = n /\
    count_acts is_tlf (trace c v f ts) = 1%nat.
Proof.
  intros FC HC HT f W.
  assert (AR : armed f = true) by (apply (tinv_run c v es FC (init_id i0 pk0)); [intros X; discriminate|exact W]).
  pose proof (rinv_run c v es HC HT (init_id i0 pk0) (rinv_init i0 pk0 c HC HT)) as (R1 & R2 & R3). fold f in R1, R2, R3.
  exists (Z.to_nat (restart f)). rewrite Z2Nat.id by lia. split; [reflexivity|]. split.
  - destruct (st f) eqn:S; try discriminate; try (apply R2; auto; fail); apply R3; reflexivity.
  - destruct (timeouts_end c v (Z.to_nat (restart f)) f W AR) as (A & B & C & _).
    + rewrite Z2Nat.id by lia; reflexivity.
    + auto.
Qed.

(* ------------------------------------------------------------ 8. a new negotiation starts with a full counter *)

Definition FInv (c : cfg) (f : fsm) : Prop :=
  (st f = AckRcvd \/ st f = Opened -> restart f = maxConf c) /\ (st f = Opened -> armed f = false).

Ltac finv_solve :=
  unfold FInv; cbn in *; repeat split; intros;
  repeat match goal with H : _ \/ _ |- _ => destruct H end; try discriminate;
  repeat match goal with H : ?x = ?x -> _ |- _ => specialize (H eq_refl) end;
  repeat match goal with H : ?x = ?x \/ _ -> _ |- _ => specialize (H (or_introl eq_refl)) end;
  repeat match goal with H : _ \/ ?x = ?x -> _ |- _ => specialize (H (or_intror eq_refl)) end;
  try congruence; auto.

Lemma finv_step c f e : FInv c f -> FInv c (step c Repaired f e).
Proof.
  destruct f as [s i r fl l a o hl ns pk]; cbn; intros (H & H'); cbn in H, H'.
  destruct e as [| | | | |code id k data].
  1-4: destruct s; finv_solve.
  - unfold step, timeout; cbn. destruct a; destruct (r >? 0); destruct s; finv_solve.
  - unfold_events; cbn.
    destruct (code_of code); destruct s; try destruct k; cbn; brk; cbn in *; try discriminate; finv_solve.
Qed.

Lemma finv_run c es : forall f, FInv c f -> FInv c (run c Repaired f es).
Proof. induction es as [|e es IH]; intros f I; [exact I|]. cbn. apply IH, finv_step, I. Qed.

Lemma finv_init i0 pk0 c : FInv c (init_id i0 pk0).
Proof. split; cbn; [intros [X|X]; discriminate|discriminate]. Qed.
Lemma finv_restored c f : FInv c (restore true c f).
Proof. split; cbn; auto. Qed.

Definition starts_negotiation (s : St) : bool :=
  match s with Starting | Closed | Stopped | Opened => true | _ => false end.

Lemma fresh_negotiation_step c f e :
  FInv c f -> starts_negotiation (st f) = true ->
  existsb is_scr (outs (step c Repaired f e)) = true ->
  restart (step c Repaired f e) = maxConf c /\ negotiating (st (step c Repaired f e)) = true.
Proof.
  destruct f as [s i r fl l a o hl ns pk]; cbn; intros (H & H') S; cbn in H, H'.
  destruct e as [| | | | |code id k data].
  1-4: destruct s; try discriminate; cbn; intros; try discriminate; auto.
  - unfold step, timeout; cbn. destruct a; destruct (r >? 0); destruct s; try discriminate; cbn; intros; try discriminate; auto.
  - unfold_events; cbn.
    destruct (code_of code); destruct s; try discriminate; try destruct k; cbn; brk; cbn in *; intros;
      try discriminate; auto.
Qed.

(* [start] = a fresh automaton, or one restored into Opened by the (repaired) Restore *)
Definition start (i0 : Z) (pk0 : nat -> Z) (restored : bool) (c : cfg) : fsm :=
  if restored then restore true c (init_id i0 pk0) else init_id i0 pk0.

Lemma fresh_negotiation i0 pk0 c restored es e :
  let f := run c Repaired (start i0 pk0 restored c) es in
  starts_negotiation (st f) = true ->
  existsb is_scr (outs (step c Repaired f e)) = true ->
  restart (step c Repaired f e) = maxConf c /\ negotiating (st (step c Repaired f e)) = true.
Proof.
  intros f. apply fresh_negotiation_step. apply finv_run.
  destruct restored; [apply finv_restored|apply finv_init].
Qed.

(* ------------------------------------------------------------ 9. witnesses against today's code *)

Definition RCRp := EInput 1 7 CGood [].
Definition RCA1 := EInput 2 1 CGood [].
Definition RXJ := EInput 7 9 CGood [].
Definition RTRe := EInput 5 9 CGood [].
Definition RTAe := EInput 6 9 CGood [].

Definition dwit : list (list Ev * Ev) :=
  [ ([EOpen; EUp; EClose], EOpen);
    ([EOpen; EUp; RCRp], RCA1);
    ([EOpen; EUp; RCRp], EInput 3 1 CGood []);
    ([EOpen; EUp; RCA1], RTRe);
    ([EOpen; EUp; RCRp], RTRe);
    ([EOpen; EUp; RCA1], RTAe);
    ([EOpen; EUp; RCRp], RTAe);
    ([EUp], RXJ);
    ([EOpen; EUp; RXJ], RXJ);
    ([EOpen; EUp; EClose], RXJ);
    ([EOpen; EUp; RCRp; RCA1; RXJ], RXJ) ].

Definition refutes (w : list Ev * Ev) : bool :=
  let f := run default_cfg Defective init (fst w) in
  negb (conformsb default_cfg f (snd w) (step default_cfg Defective f (snd w))).
Definition wit_cell (w : list Ev * Ev) : St * option REv :=
  let f := run default_cfg Defective init (fst w) in (st f, classify default_cfg f (snd w)).

Lemma dwit_refute :
  forallb refutes dwit = true /\
  map wit_cell dwit = map (fun p => (fst p, Some (snd p))) bad_cells.
Proof. split; vm_compute; reflexivity. Qed.

Lemma table_defective_refuted :
  forall cell, In cell bad_cells ->
  exists es e, let f := run default_cfg Defective init es in
    st f = fst cell /\ classify default_cfg f e = Some (snd cell) /\
    conformsb default_cfg f e (step default_cfg Defective f e) = false.
Proof.
  intros cell H. cbn in H.
  repeat (destruct H as [<-|H];
    [ first
      [ exists [EOpen; EUp; EClose], EOpen; vm_compute; repeat split; reflexivity
      | exists [EOpen; EUp; RCRp], RCA1; vm_compute; repeat split; reflexivity
      | exists [EOpen; EUp; RCRp], (EInput 3 1 CGood []); vm_compute; repeat split; reflexivity
      | exists [EOpen; EUp; RCA1], RTRe; vm_compute; repeat split; reflexivity
      | exists [EOpen; EUp; RCRp], RTRe; vm_compute; repeat split; reflexivity
      | exists [EOpen; EUp; RCA1], RTAe; vm_compute; repeat split; reflexivity
      | exists [EOpen; EUp; RCRp], RTAe; vm_compute; repeat split; reflexivity
      | exists [EUp], RXJ; vm_compute; repeat split; reflexivity
      | exists [EOpen; EUp; RXJ], RXJ; vm_compute; repeat split; reflexivity
      | exists [EOpen; EUp; EClose], RXJ; vm_compute; repeat split; reflexivity
      | exists [EOpen; EUp; RCRp; RCA1; RXJ], RXJ; vm_compute; repeat split; reflexivity ] | ]).
  contradiction.
Qed.

(* an NCP answers an Echo-Request with an Echo-Reply instead of a Code-Reject *)
Definition ncp_cfg : cfg := mkCfg 10 2 false.
Lemma ncp_codes_refuted :
  exists es e, let f := run ncp_cfg Defective init es in
    classify ncp_cfg f e = Some RUC /\
    outs (step ncp_cfg Defective f e) = [Ser 9] /\
    outs (step ncp_cfg Repaired f e) = [Scj 2 9 9] /\
    conformsb ncp_cfg f e (step ncp_cfg Defective f e) = false.
Proof. exists [EOpen; EUp; RCRp; RCA1], (EInput 9 9 CGood [1;2;3;4]). vm_compute. repeat split; reflexivity. Qed.

(* Terminate-Request in Opened: Stopping without a running timer *)
Lemma timer_armed_refuted :
  exists es, let f := run default_cfg Defective init es in
    waiting (st f) = true /\ armed f = false.
Proof. exists [EOpen; EUp; RCRp; RCA1; RTRe]. vm_compute. split; reflexivity. Qed.

(* strict both-acks: the layer comes up on an acknowledgement older than the peer's Terminate-Request *)
Lemma both_acked_strict_refuted :
  exists es, both_acked true (trace default_cfg Defective init es) = false.
Proof. exists [EOpen; EUp; RCA1; RTRe; RCRp]. vm_compute. reflexivity. Qed.

(* missing irc: a renegotiation started from Opened has no retransmission left *)
Lemma fresh_negotiation_refuted :
  exists c es e, let f := run c Defective init es in
    0 < maxConf c /\ st f = Opened /\
    existsb is_scr (outs (step c Defective f e)) = true /\
    restart (step c Defective f e) = 0 /\
    st (run c Defective f [e; ETimeout]) = Stopped /\
    count_acts is_retrans (trace c Defective (step c Defective f e) [ETimeout]) = 0%nat.
Proof.
  exists (mkCfg 2 1 true), [EOpen; EUp; RCRp; ETimeout; ETimeout; EInput 2 3 CGood []], RCRp.
  vm_compute. repeat split; reflexivity.
Qed.

(* ------------------------------------------------------------ 10. non-vacuity *)

Definition happy : list Ev := [EOpen; EUp; RCRp; RCA1].
Lemma happy_opens :
  st (run default_cfg Repaired init happy) = Opened /\
  count_acts (fun a => match a with Tlu => true | _ => false end) (trace default_cfg Repaired init happy) = 1%nat /\
  alternates false (trace default_cfg Repaired init (happy ++ [RTRe; ETimeout; RCRp; EInput 2 2 CGood []; EDown])) = true /\
  count_acts (fun a => match a with Tlu | Tld => true | _ => false end)
     (trace default_cfg Repaired init (happy ++ [RTRe; ETimeout; RCRp; EInput 2 2 CGood []; EDown])) = 4%nat.
Proof. vm_compute. repeat split; reflexivity. Qed.

Lemma bounded_nonvac :
  let f := run default_cfg Repaired init [EOpen; EUp] in
  waiting (st f) = true /\ restart f = 10 /\
  st (run default_cfg Repaired f (repeat ETimeout 11)) = Stopped /\
  count_acts is_retrans (trace default_cfg Repaired f (repeat ETimeout 11)) = 10%nat.
Proof. vm_compute. repeat split; reflexivity. Qed.

Lemma fresh_nonvac :
  let f := run (mkCfg 2 1 true) Repaired init [EOpen; EUp; RCRp; ETimeout; ETimeout; EInput 2 3 CGood []] in
  st f = Opened /\ existsb is_scr (outs (step (mkCfg 2 1 true) Repaired f RCRp)) = true /\
  restart (step (mkCfg 2 1 true) Repaired f RCRp) = 2.
Proof. vm_compute. repeat split; reflexivity. Qed.

Lemma timer_nonvac :
  let f := run default_cfg Repaired init [EOpen; EUp; RCRp; RCA1; RTRe] in
  st f = Stopping /\ armed f = true /\ st (step default_cfg Repaired f ETimeout) = Stopped.
Proof. vm_compute. repeat split; reflexivity. Qed.
