(* C05/Proofs.v — lemmas about the model in Model.v *)
From OV Require Import Common.Base C05.Model.
Open Scope Z_scope.
