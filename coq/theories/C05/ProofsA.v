(* C05/ProofsA.v — admissible Identifier policies and the stale-identifier clause *)
From OV Require Import Common.Base C05.Model C05.Proofs C05.Proofs2 C05.Adm.
Open Scope Z_scope.

Lemma reqs_cons_some i w : reqs (Some i :: w) = i :: reqs w.
Proof. reflexivity. Qed.
Lemma reqs_cons_none w : reqs (None :: w) = reqs w.
Proof. reflexivity. Qed.

(* the requests of a truncated window are a prefix of the requests of the window *)
Lemma reqs_firstn n : forall w, exists r, reqs w = reqs (firstn n w) ++ r.
Proof.
  induction n as [|n IH]; intros w; [exists (reqs w); reflexivity|].
  destruct w as [|o w]; [exists []; reflexivity|]. cbn [firstn].
  destruct (IH w) as (r & E). exists r. destruct o; cbn [reqs flat_map app] in *; fold (reqs w); fold (reqs (firstn n w)).
  - rewrite E at 1. reflexivity.
  - exact E.
Qed.

Local Opaque firstn.

Lemma nodup_prefix {A} (a b : list A) : NoDup (a ++ b) -> NoDup a.
Proof. induction a as [|x a IH]; intros H; [constructor|]. inversion H; subst. constructor; [intro; apply H2, in_or_app; auto|auto]. Qed.

Lemma hd_prefix (a b : list Z) x : hd_error a = Some x -> hd_error (a ++ b) = Some x.
Proof. destruct a; [discriminate|auto]. Qed.

(* invariant of the admissibility fold: the Configure-Request Identifiers in the window are pairwise distinct, and if
   the Identifier of the last Configure-Request is still in the window it is the most recent one *)
Definition AInv (a : adm) : Prop :=
  NoDup (reqs (a_win a)) /\
  (forall l, a_last a = Some l -> In l (reqs (a_win a)) -> hd_error (reqs (a_win a)) = Some l) /\
  (a_last a = None -> reqs (a_win a) = []).

Lemma ainv_trunc w last retx scj :
  AInv (mkAdm w last retx scj) -> AInv (mkAdm (firstn window w) last retx scj).
Proof.
  intros (N & H & Z). destruct (reqs_firstn window w) as (r & E). unfold AInv. cbn [a_win a_last] in *.
  remember (reqs (firstn window w)) as q eqn:Q. split; [|split].
  - rewrite E in N. exact (nodup_prefix _ _ N).
  - intros l L I. assert (I' : In l (reqs w)) by (rewrite E; apply in_or_app; auto).
    specialize (H l L I'). rewrite E in H. destruct q as [|x q]; [contradiction|]. exact H.
  - intros L. specialize (Z L). rewrite Z in E. destruct q; [reflexivity|discriminate].
Qed.

Lemma existsb_in i l : existsb (Z.eqb i) l = false -> ~ In i l.
Proof.
  intros E I. assert (existsb (Z.eqb i) l = true) by (apply existsb_exists; exists i; split; [exact I|apply Z.eqb_refl]). congruence.
Qed.

Lemma ainv_item a it a' : AInv a -> adm_item a it = Some a' -> AInv a'.
Proof.
  intros I E. destruct it as [e|act]; cbn in E.
  - inversion E; subst. exact I.
  - destruct act; try (inversion E; subst; exact I).
    + (* Scr *)
      destruct (a_retx a && oz_eqb (a_last a) id); [inversion E; subst; exact I|].
      destruct (existsb (Z.eqb id) (reqs (a_win a))) eqn:X; [discriminate|].
      inversion E; subst. apply ainv_trunc. destruct I as (N & H & Z). unfold AInv. cbn [a_win a_last]. rewrite reqs_cons_some.
      split; [|split].
      * constructor; [apply existsb_in; exact X|exact N].
      * intros l L _. inversion L; subst. reflexivity.
      * discriminate.
    + (* Str *)
      inversion E; subst. apply ainv_trunc. destruct a as [w l r s]; exact I.
    + (* Scj *)
      destruct (oz_eqb (a_scj a) id); [discriminate|]. inversion E; subst. apply ainv_trunc.
      destruct a as [w l r s]; exact I.
Qed.

Lemma ainv_run t : forall a a', AInv a -> adm_run a t = Some a' -> AInv a'.
Proof.
  induction t as [|it t IH]; intros a a' I E; cbn in E; [inversion E; subst; exact I|].
  destruct (adm_item a it) as [a1|] eqn:X; [|discriminate]. exact (IH _ _ (ainv_item _ _ _ I X) E).
Qed.

Lemma ainv0 : AInv adm0.
Proof. split; [|split]; cbn; [constructor|intros; contradiction|reflexivity]. Qed.

(* the fold's "last Configure-Request" is the last Scr of the trace *)
Lemma adm_last_is_last_scr t : forall a a', adm_run a t = Some a' -> a_last a' = last_scr (a_last a) t.
Proof.
  induction t as [|it t IH]; intros a a' E; cbn in E; [inversion E; reflexivity|].
  destruct (adm_item a it) as [a1|] eqn:X; [|discriminate]. rewrite (IH _ _ E).
  destruct it as [e|act]; cbn in X |- *.
  - inversion X; subst; reflexivity.
  - destruct act; try (inversion X; subst; reflexivity).
    + destruct (a_retx a && oz_eqb (a_last a) id) eqn:R.
      * inversion X; subst. apply andb_true_iff in R. destruct R as (_ & R).
        unfold oz_eqb in R. destruct (a_last a1) as [x|]; [|discriminate]. apply Z.eqb_eq in R; subst. reflexivity.
      * destruct (existsb (Z.eqb id) (reqs (a_win a))); [discriminate|]. inversion X; subst. reflexivity.
    + destruct (oz_eqb (a_scj a) id); [discriminate|]. inversion X; subst. reflexivity.
Qed.

(* Under an admissible Identifier policy, a Configure-Ack / -Nak / -Reject that carries the Identifier of an EARLIER
   Configure-Request of the window (any request among the last 255 originated packets other than the most recent one)
   is ignored: no state change, no handler call, nothing sent. *)
Lemma stale_earlier_request_ignored i0 pk0 c v es j code k data :
  let t := trace c v (init_id i0 pk0) es in
  let f := run c v (init_id i0 pk0) es in
  ids_admissible t = true -> In j (earlier_requests t) -> is_ack_code code = true ->
  step c v f (EInput code j k data) = clear_out f.
Proof.
  cbn zeta. unfold ids_admissible, earlier_requests.
  destruct (adm_run adm0 (trace c v (init_id i0 pk0) es)) as [a|] eqn:R; [|discriminate].
  intros _ J A. apply stale_ignored; [exact A|].
  pose proof (ainv_run _ _ _ ainv0 R) as (N & H & Z).
  pose proof (adm_last_is_last_scr _ _ _ R) as L. cbn [adm0 a_last] in L.
  pose proof (lastReq_is_last_scr i0 pk0 c v es) as Q. rewrite <- L in Q.
  destruct (reqs (a_win a)) as [|x q] eqn:W; [contradiction|]. cbn [tl] in J.
  inversion N as [|? ? NX NQ]; subst.
  intros ->. destruct (a_last a) as [l|] eqn:AL.
  - rewrite Q in J. specialize (H l eq_refl (or_intror J)). cbn in H. inversion H; subst. exact (NX J).
  - specialize (Z eq_refl). discriminate.
Qed.

(* /repo HEAD's policy is admissible on a history that wraps the 8-bit counter (and the requests of that history are
   all "earlier requests" but the last); a two-valued policy (Identifier = previous xor 1) is not *)
Definition rcn (i : Z) : Ev := EInput 3 i CGood [].
Fixpoint naks (n : nat) (i : Z) : list Ev := match n with O => [] | S n => rcn i :: naks n ((i + 1) mod 256) end.
Lemma head_policy_admissible :
  let es := [EOpen; EUp] ++ naks 300 1 in
  ids_admissible (trace default_cfg Repaired init es) = true /\
  length (earlier_requests (trace default_cfg Repaired init es)) = 254%nat.
Proof. vm_compute. split; reflexivity. Qed.

Definition xor_pick (k : nat) : Z := if Nat.even k then 1 else 0.
Lemma two_valued_policy_inadmissible :
  ids_admissible (trace default_cfg Repaired (init_id 0 xor_pick) [EOpen; EUp; rcn 1; rcn 0]) = false /\
  (* ... and under it the answer to request N-2 is taken for current *)
  st (run default_cfg Repaired (init_id 0 xor_pick) [EOpen; EUp; rcn 1; rcn 0; EInput 2 1 CGood []]) = AckRcvd.
Proof. vm_compute. split; reflexivity. Qed.
