(* C05/Proofs2.v — discarded packets and the handler-call log *)
From OV Require Import Common.Base C05.Model C05.Rfc2 C05.Proofs.
Open Scope Z_scope.

(* ------------------------------------------------------------ 11. discarded packets are invisible *)

Lemma step_clear_out c v f e : step c v (clear_out f) e = step c v f e.
Proof. reflexivity. Qed.

Lemma discarded_unchanged c v f e : classify c f e = None -> step c v f e = clear_out f.
Proof.
  destruct c as [mc mt lc]; destruct f as [s i r fl l a o hl ns pk]; destruct e as [| | | | |code id k data];
    try discriminate.
  { cbn. destruct a; [destruct (r >? 0); discriminate|reflexivity]. }
  unfold classify; unfold_events; cbn.
    destruct lc; destruct v as [[|] [|]]; destruct (code_of code); cbn; try discriminate;
      try (destruct k; cbn; try discriminate; reflexivity);
      try (destruct (id =? l); cbn; try discriminate; reflexivity);
      try (unfold st_eqb; destruct s; cbn; try discriminate; reflexivity);
      try (destruct (dlen_of data >=? 4); cbn; try discriminate; rewrite ?andb_false_r; reflexivity);
      try reflexivity.
Qed.

Lemma run_clear_out c v es : forall f, clear_out (run c v (clear_out f) es) = clear_out (run c v f es).
Proof. destruct es; intros f; reflexivity. Qed.
Lemma trace_clear_out c v es : forall f, trace c v (clear_out f) es = trace c v f es.
Proof. destruct es; intros f; reflexivity. Qed.

(* a discarded packet changes no variable (handler-call log included) and no later output *)
Lemma discarded_invisible c v f e es :
  classify c f e = None ->
  hlog (step c v f e) = hlog f /\
  clear_out (run c v f (e :: es)) = clear_out (run c v f es) /\
  trace c v f (e :: es) = IEv e :: trace c v f es.
Proof.
  intros H. pose proof (discarded_unchanged c v f e H) as U.
  cbn [run trace]. rewrite U. repeat split.
  - apply run_clear_out.
  - cbn. f_equal. apply trace_clear_out.
Qed.

Lemma stale_is_discarded c f code id k data :
  is_ack_code code = true -> id <> lastReq f -> classify c f (EInput code id k data) = None.
Proof.
  intros H N. apply Z.eqb_neq in N. unfold is_ack_code in H. unfold classify.
  destruct (code_of code); try discriminate; cbn; rewrite ?andb_false_r, N; reflexivity.
Qed.

Lemma stale_invisible c v f code id k data es :
  is_ack_code code = true -> id <> lastReq f ->
  hlog (step c v f (EInput code id k data)) = hlog f /\
  clear_out (run c v f (EInput code id k data :: es)) = clear_out (run c v f es) /\
  trace c v f (EInput code id k data :: es) = IEv (EInput code id k data) :: trace c v f es.
Proof. intros H N. apply discarded_invisible, stale_is_discarded; assumption. Qed.

(* which handler calls an event makes: one call for a Configure-Request/Ack/Nak/Reject that is not
   discarded, none otherwise *)
Definition hcalls_of (c : cfg) (f : fsm) (e : Ev) : list HCall :=
  match e with
  | EInput code id k data =>
    match classify c f e with
    | None => []
    | Some _ =>
      match code_of code with
      | KConfReq => [HReq (parse_or_nil data)]
      | KConfAck => [HAck (parse_or_nil data)]
      | KConfNak => [HNak (parse_or_nil data)]
      | KConfRej => [HRej (parse_or_nil data)]
      | _ => []
      end
    end
  | _ => []
  end.

Lemma hlog_step c v f e : hlog (step c v f e) = hcalls_of c f e ++ hlog f.
Proof.
  destruct c as [mc mt lc]; destruct f as [s i r fl l a o hl ns pk]; destruct e as [| | | | |code id k data].
  1-4: destruct s; destruct v as [[|] [|]]; reflexivity.
  - unfold step, timeout; cbn. destruct a; destruct (r >? 0); destruct s; reflexivity.
  - unfold hcalls_of, classify; unfold_events; cbn.
    destruct (id =? l); destruct lc; destruct v as [[|] [|]]; destruct (code_of code); destruct s;
      try destruct k; cbn; brk; cbn in *; try discriminate; try reflexivity.
Qed.

Lemma stale_nonvac :
  let f := run default_cfg Repaired init [EOpen; EUp; ETimeout] in
  let stale := EInput 4 1 CGood [3; 5; 194; 35; 5] in
  lastReq f = 2 /\ classify default_cfg f stale = None /\
  hlog (step default_cfg Repaired f stale) = [] /\
  hlog (step default_cfg Repaired f (EInput 4 2 CGood [3; 5; 194; 35; 5])) = [HRej [(3, [194; 35; 5])]] /\
  confreq_content 1 (hlog (step default_cfg Repaired f stale)) <>
  confreq_content 1 (hlog (step default_cfg Repaired f (EInput 4 2 CGood [3; 5; 194; 35; 5]))).
Proof. vm_compute. repeat split; try reflexivity. discriminate. Qed.

(* ------------------------------------------------------------ 12. Restore / Kill: the extended alphabet *)

Lemma restore_kill_silent fixed c f :
  outs (restore fixed c f) = [] /\ st (restore fixed c f) = Opened /\ armed (restore fixed c f) = false /\
  restart (restore fixed c f) = (if fixed then maxConf c else 0) /\
  hlog (restore fixed c f) = hlog f /\ lastReq (restore fixed c f) = lastReq f /\
  outs (kill f) = [] /\ st (kill f) = Closed /\ armed (kill f) = false /\ hlog (kill f) = hlog f.
Proof. repeat split; reflexivity. Qed.

Inductive XEv := XE (e : Ev) | XKill | XRestore.
Definition xstep (c : cfg) (v : variant) (fixed : bool) (f : fsm) (x : XEv) : fsm :=
  match x with XE e => step c v f e | XKill => kill f | XRestore => restore fixed c f end.
Fixpoint xrun c v fixed f (xs : list XEv) : fsm :=
  match xs with [] => f | x :: xs => xrun c v fixed (xstep c v fixed f x) xs end.
(* Restore and Kill are silent: they contribute nothing to the observable trace *)
Fixpoint xtrace c v fixed f (xs : list XEv) : list Item :=
  match xs with
  | [] => []
  | x :: xs => let f' := xstep c v fixed f x in
               (match x with XE e => IEv e :: map IAct (outs f') | _ => [] end) ++ xtrace c v fixed f' xs
  end.

(* the discipline of the production call sites (internal/pppoe): Restore only on a freshly created
   automaton (installInMemoryState: initPPP, then Restore), Kill only as the last operation
   (terminate) *)
Definition prod_history (restored : bool) (es : list Ev) (killed : bool) : list XEv :=
  (if restored then [XRestore] else []) ++ map XE es ++ (if killed then [XKill] else []).

Lemma xtrace_events c v fixed es : forall f tail,
  xtrace c v fixed f (map XE es ++ tail) = trace c v f es ++ xtrace c v fixed (run c v f es) tail.
Proof.
  induction es as [|e es IH]; intros f tail; [reflexivity|].
  cbn [map app xtrace xstep trace run]. rewrite IH. rewrite <- !app_assoc. reflexivity.
Qed.

Lemma xtrace_prod i0 pk0 c v fixed restored es killed :
  xtrace c v fixed (init_id i0 pk0) (prod_history restored es killed)
  = trace c v (if restored then restore fixed c (init_id i0 pk0) else init_id i0 pk0) es.
Proof.
  unfold prod_history. destruct restored; cbn [app xtrace xstep]; rewrite xtrace_events;
    destruct killed; cbn; rewrite ?app_nil_r; reflexivity.
Qed.

(* alternation over the extended alphabet, under the production discipline; a restored automaton
   starts with an up outstanding (the session layer restores its own "open" flags) *)
Lemma alternates_ext i0 pk0 c v fixed restored es killed :
  alternates restored (xtrace c v fixed (init_id i0 pk0) (prod_history restored es killed)) = true.
Proof.
  rewrite xtrace_prod. destruct restored.
  - exact (alternates_from c v es (restore fixed c (init_id i0 pk0))).
  - exact (alternates_from c v es (init_id i0 pk0)).
Qed.

Lemma up_iff_opened_ext i0 pk0 c v fixed restored es :
  up_after restored (xtrace c v fixed (init_id i0 pk0) (prod_history restored es false))
  = is_opened (st (xrun c v fixed (init_id i0 pk0) (prod_history restored es false))).
Proof.
  rewrite xtrace_prod.
  assert (R : forall f tail, xrun c v fixed f (map XE es ++ tail) = xrun c v fixed (run c v f es) tail).
  { induction es as [|e es IH]; intros f tail; [reflexivity|]. cbn. apply IH. }
  unfold prod_history. destruct restored; cbn [app xrun xstep]; rewrite R; cbn [xrun].
  - exact (up_iff_opened_from c v es (restore fixed c (init_id i0 pk0))).
  - exact (up_iff_opened_from c v es (init_id i0 pk0)).
Qed.

(* outside that discipline alternation fails: Kill in Opened followed by a new negotiation reports
   up twice; Restore of an automaton that is negotiating, then Down, reports a down without an up *)
Lemma alternates_ext_caveats :
  alternates false (xtrace default_cfg Repaired true init
     (map XE [EOpen; EUp; RCRp; RCA1] ++ [XKill] ++ map XE [EOpen; RCRp; EInput 2 2 CGood []])) = false /\
  alternates false (xtrace default_cfg Repaired true init
     (map XE [EOpen; EUp] ++ [XRestore] ++ map XE [EDown])) = false.
Proof. vm_compute. split; reflexivity. Qed.

(* Restore before fe05ccf (restart counter 0): the first renegotiation of a restored session gets no
   retransmission (before fe05ccf); with the counter initialised (HEAD) it gets
   Max-Configure *)
Lemma restore_budget_refuted :
  let f := step default_cfg Repaired (restore false default_cfg init) RCRp in
  st f = AckSent /\ restart f = 0 /\ armed f = true /\
  st (step default_cfg Repaired f ETimeout) = Stopped /\
  count_acts is_retrans (trace default_cfg Repaired f [ETimeout]) = 0%nat.
Proof. vm_compute. repeat split; reflexivity. Qed.

Lemma restore_budget_nonvac :
  let f := step default_cfg Repaired (restore true default_cfg init) RCRp in
  st f = AckSent /\ restart f = 10 /\ st (step default_cfg Repaired f ETimeout) = AckSent /\
  count_acts is_retrans (trace default_cfg Repaired f [ETimeout]) = 1%nat.
Proof. vm_compute. repeat split; reflexivity. Qed.

(* the timer callback before bbcb995, run late in Opened, eats one retransmission of the next
   negotiation; as an event of the model (a timer expiry needs a pending timer) it does nothing *)
Lemma late_fire_refuted :
  let f := run default_cfg Repaired init [EOpen; EUp; RCRp; RCA1] in
  st f = Opened /\ armed f = false /\
  restart (raw_timeout f) = 9 /\ step default_cfg Repaired f ETimeout = clear_out f /\
  restart (step default_cfg Repaired (raw_timeout f) RCRp) = 9 /\
  restart (step default_cfg Repaired (step default_cfg Repaired f ETimeout) RCRp) = 10.
Proof. vm_compute. repeat split; reflexivity. Qed.

(* ------------------------------------------------------------ 13. the two transcriptions of the table agree *)

Lemma rfc_tables_agree : forall s e, cell_matches s e = true.
Proof. intros s e; destruct s; destruct e; vm_compute; reflexivity. Qed.

Lemma rfc_tables_agree_all : tables_agree = true.
Proof. vm_compute. reflexivity. Qed.

(* ------------------------------------------------------------ 14. the two packet -> event mappings agree *)

Lemma code_of_range code :
  (code = 1 \/ code = 2 \/ code = 3 \/ code = 4 \/ code = 5 \/ code = 6 \/ code = 7 \/ code = 8 \/
   code = 9 \/ code = 10 \/ code = 11) \/ ((code < 1 \/ code > 11) /\ code_of code = KUnknown).
Proof.
  destruct (Z_lt_dec code 1) as [L|L]; [right|].
  { split; [auto|]. unfold code_of.
    repeat match goal with |- context [?a =? ?b] => destruct (Z.eqb_spec a b); [lia|] end. reflexivity. }
  destruct (Z_lt_dec 11 code) as [G|G]; [right|left; lia].
  split; [lia|]. unfold code_of.
  repeat match goal with |- context [?a =? ?b] => destruct (Z.eqb_spec a b); [lia|] end. reflexivity.
Qed.

Lemma classify_agree c f code id k data :
  verdict_of (classify c f (EInput code id k data)) =
  packet_event (lcp c) (st_eqb (st f) Opened) code (id =? lastReq f)
               (negb (is_malformed k)) (is_good k) (dlen_of data >=? 4).
Proof.
  destruct (code_of_range code) as [H|[H U]].
  - repeat (destruct H as [->|H]); try subst code; unfold classify, packet_event; cbn;
      destruct (lcp c); cbn; try destruct k; cbn; try destruct (id =? lastReq f); cbn;
      try destruct (st_eqb (st f) Opened); cbn; try destruct (dlen_of data >=? 4); reflexivity.
  - unfold classify, packet_event. rewrite U.
    replace ((1 <=? code) && (code <=? 7)) with false by (symmetry; apply andb_false_iff; destruct H; [left; apply Z.leb_gt|right; apply Z.leb_gt]; lia).
    replace ((8 <=? code) && (code <=? 11)) with false by (symmetry; apply andb_false_iff; destruct H; [left; apply Z.leb_gt|right; apply Z.leb_gt]; lia).
    cbn. rewrite andb_false_r. reflexivity.
Qed.

(* where the two readings that the RFC leaves to the implementer matter *)
Lemma reading_cells :
  (* A: Code-Reject read as RXJ- instead of RXJ+ makes a difference in every state with the link up *)
  (forall s, s <> Initial -> s <> Starting -> rfc1661 s RXJp <> rfc1661 s RXJm) /\
  (* B: Protocol-Reject outside Opened discarded instead of RXJ+ makes a difference in Ack-Rcvd only *)
  (forall s, s <> Initial -> s <> Starting -> s <> AckRcvd -> rfc1661 s RXJp = Some ([], s)) /\
  rfc1661 AckRcvd RXJp = Some ([], ReqSent).
Proof.
  repeat split.
  - intros s H1 H2; destruct s; try contradiction; cbn; discriminate.
  - intros s H1 H2 H3; destruct s; try contradiction; reflexivity.
Qed.

(* ------------------------------------------------------------ 15. the Identifier policy of /repo HEAD *)

(* With the policy head_pick i0 the model's counter behaves as the literal nextID() of fsm.go:
   f.id++ modulo 256, starting from i0. *)
Definition IdInv (i0 : Z) (f : fsm) : Prop :=
  pick f = head_pick i0 /\ idc f = (i0 + Z.of_nat (nsent f)) mod 256.

Lemma head_pick_succ i0 n : head_pick i0 n = (i0 + Z.of_nat (S n)) mod 256.
Proof. unfold head_pick. f_equal. lia. Qed.

Lemma idinv_step i0 c v f e : IdInv i0 f -> IdInv i0 (step c v f e).
Proof.
  destruct f as [s i r fl l a o hl ns pk]; unfold IdInv; cbn; intros (-> & ->).
  destruct e as [| | | | |code id k data].
  1-4: destruct s; destruct v as [[|] [|]]; cbn; unfold next_id; cbn; rewrite ?head_pick_succ; auto.
  - unfold step, timeout; cbn. destruct a; destruct (r >? 0); destruct s; cbn; unfold next_id; cbn;
      rewrite ?head_pick_succ; auto.
  - unfold step, input, rcrEvent, rcaEvent, rcnEvent, rtrEvent, rtaEvent, rxjEvent, rucEvent, rxrEvent, reply; cbn.
    destruct (lcp c); destruct v as [[|] [|]]; destruct (code_of code); destruct s; try destruct k; cbn;
      repeat match goal with |- context [if ?b then _ else _] => destruct b end; cbn; unfold next_id; cbn;
      rewrite ?head_pick_succ; auto.
Qed.

Lemma idinv_run i0 c v es : forall f, IdInv i0 f -> IdInv i0 (run c v f es).
Proof. induction es as [|e es IH]; intros f I; [exact I|]. cbn. apply IH, idinv_step, I. Qed.

Lemma head_id_policy i0 c v es :
  0 <= i0 < 256 ->
  let f := run c v (init_id i0 (head_pick i0)) es in
  next_id f = (idc f + 1) mod 256.
Proof.
  intros R f.
  assert (I : IdInv i0 f).
  { apply idinv_run. split; cbn; [reflexivity|]. rewrite Z.add_0_r. symmetry; apply Z.mod_small; exact R. }
  destruct I as (P & Q). unfold next_id. rewrite P, Q. unfold head_pick.
  rewrite Zplus_mod_idemp_l. reflexivity.
Qed.
