(* C05/Proofs2.v — discarded packets and the handler-call log *)
From OV Require Import Common.Base C05.Model C05.Proofs.
Open Scope Z_scope.

(* ------------------------------------------------------------ 11. discarded packets are invisible *)

Lemma step_clear_out c v f e : step c v (clear_out f) e = step c v f e.
Proof. reflexivity. Qed.

Lemma discarded_unchanged c v f e : classify c f e = None -> step c v f e = clear_out f.
Proof.
  destruct c as [mc mt lc]; destruct f as [s i r fl l a o hl]; destruct e as [| | | | |code id k data];
    try discriminate.
  unfold classify; unfold_events; cbn.
    destruct lc; destruct v as [[|] [|]]; destruct (code_of code); cbn; try discriminate;
      try (destruct k; cbn; try discriminate; reflexivity);
      try (destruct (id =? l); cbn; try discriminate; reflexivity);
      try (unfold st_eqb; destruct s; cbn; try discriminate; reflexivity);
      try (destruct (dlen_of data >=? 4); cbn; try discriminate; rewrite ?andb_false_r; reflexivity);
      try reflexivity.
Qed.

Lemma run_clear_out c v es : forall f, clear_out (run c v (clear_out f) es) = clear_out (run c v f es).
Proof. destruct es; intros f; reflexivity. Qed.
Lemma trace_clear_out c v es : forall f, trace c v (clear_out f) es = trace c v f es.
Proof. destruct es; intros f; reflexivity. Qed.

(* a discarded packet changes no variable (handler-call log included) and no later output *)
Lemma discarded_invisible c v f e es :
  classify c f e = None ->
  hlog (step c v f e) = hlog f /\
  clear_out (run c v f (e :: es)) = clear_out (run c v f es) /\
  trace c v f (e :: es) = IEv e :: trace c v f es.
Proof.
  intros H. pose proof (discarded_unchanged c v f e H) as U.
  cbn [run trace]. rewrite U. repeat split.
  - apply run_clear_out.
  - cbn. f_equal. apply trace_clear_out.
Qed.

Lemma stale_is_discarded c f code id k data :
  is_ack_code code = true -> id <> lastReq f -> classify c f (EInput code id k data) = None.
Proof.
  intros H N. apply Z.eqb_neq in N. unfold is_ack_code in H. unfold classify.
  destruct (code_of code); try discriminate; cbn; rewrite ?andb_false_r, N; reflexivity.
Qed.

Lemma stale_invisible c v f code id k data es :
  is_ack_code code = true -> id <> lastReq f ->
  hlog (step c v f (EInput code id k data)) = hlog f /\
  clear_out (run c v f (EInput code id k data :: es)) = clear_out (run c v f es) /\
  trace c v f (EInput code id k data :: es) = IEv (EInput code id k data) :: trace c v f es.
Proof. intros H N. apply discarded_invisible, stale_is_discarded; assumption. Qed.

(* which handler calls an event makes: one call for a Configure-Request/Ack/Nak/Reject that is not
   discarded, none otherwise *)
Definition hcalls_of (c : cfg) (f : fsm) (e : Ev) : list HCall :=
  match e with
  | EInput code id k data =>
    match classify c f e with
    | None => []
    | Some _ =>
      match code_of code with
      | KConfReq => [HReq (parse_or_nil data)]
      | KConfAck => [HAck (parse_or_nil data)]
      | KConfNak => [HNak (parse_or_nil data)]
      | KConfRej => [HRej (parse_or_nil data)]
      | _ => []
      end
    end
  | _ => []
  end.

Lemma hlog_step c v f e : hlog (step c v f e) = hcalls_of c f e ++ hlog f.
Proof.
  destruct c as [mc mt lc]; destruct f as [s i r fl l a o hl]; destruct e as [| | | | |code id k data].
  1-4: destruct s; destruct v as [[|] [|]]; reflexivity.
  - unfold step, timeout; cbn. destruct (r >? 0); destruct s; reflexivity.
  - unfold hcalls_of, classify; unfold_events; cbn.
    destruct (id =? l); destruct lc; destruct v as [[|] [|]]; destruct (code_of code); destruct s;
      try destruct k; cbn; brk; cbn in *; try discriminate; try reflexivity.
Qed.

Lemma stale_nonvac :
  let f := run default_cfg Repaired init [EOpen; EUp; ETimeout] in
  let stale := EInput 4 1 CGood [3; 5; 194; 35; 5] in
  lastReq f = 2 /\ classify default_cfg f stale = None /\
  hlog (step default_cfg Repaired f stale) = [] /\
  hlog (step default_cfg Repaired f (EInput 4 2 CGood [3; 5; 194; 35; 5])) = [HRej [(3, [194; 35; 5])]] /\
  confreq_content 1 (hlog (step default_cfg Repaired f stale)) <>
  confreq_content 1 (hlog (step default_cfg Repaired f (EInput 4 2 CGood [3; 5; 194; 35; 5]))).
Proof. vm_compute. repeat split; try reflexivity. discriminate. Qed.

(* ------------------------------------------------------------ 12. Restore / Kill (outside the event set) *)

Lemma restore_kill_silent f :
  outs (restore f) = [] /\ st (restore f) = Opened /\ armed (restore f) = false /\
  restart (restore f) = 0 /\ hlog (restore f) = hlog f /\ lastReq (restore f) = lastReq f /\
  outs (kill f) = [] /\ st (kill f) = Closed /\ armed (kill f) = false /\ hlog (kill f) = hlog f.
Proof. repeat split; reflexivity. Qed.

(* observation: a restored session renegotiates with no retransmission budget, and Kill leaves an
   outstanding This-Layer-Up without This-Layer-Down *)
Lemma restore_kill_observations :
  (let f := step default_cfg Repaired (restore init) (EInput 1 7 CGood []) in
   st f = AckSent /\ restart f = 0 /\ st (step default_cfg Repaired f ETimeout) = Stopped) /\
  (let f := run default_cfg Repaired init [EOpen; EUp; EInput 1 7 CGood []; EInput 2 1 CGood []] in
   st f = Opened /\ st (kill f) = Closed /\ outs (kill f) = []).
Proof. vm_compute. repeat split; reflexivity. Qed.
