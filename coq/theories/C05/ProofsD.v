(* C05/ProofsD.v — the dispatcher and the three-automaton system *)
From OV Require Import Common.Base C05.Model C05.Proofs C05.Disp.
Open Scope Z_scope.

Lemma frame_ok_spec payload :
  frame_ok payload =
  negb (len payload <? 4) &&
  negb ((be (firstn 2 (skipn 2 payload)) <? 4) || (be (firstn 2 (skipn 2 payload)) >? len payload)).
Proof.
  unfold frame_ok. set (L := be (firstn 2 (skipn 2 payload))). set (N := len payload).
  destruct (Z.leb_spec 4 N), (Z.ltb_spec N 4), (Z.leb_spec 4 L), (Z.ltb_spec L 4), (Z.leb_spec L N), (Z.gtb_spec L N);
    cbn; try reflexivity; lia.
Qed.

(* what HandleFrame does to the three automata: the frame goes where RFC 1661 sends it, as the event
   Input(Code, Identifier, Data) read off the frame by the Length field; every other automaton, and all
   three when the frame goes nowhere, are untouched *)
Lemma dispatch_routes c v ph proto payload k s :
  let r := handle_frame c v ph proto payload k s in
  let e := EInput (frame_code payload) (frame_id payload) k (frame_data payload) in
  d_target r = expected_target ph proto payload /\
  d_sys r = match expected_target ph proto payload with
            | TNone => s
            | TLcp => mkSys (step (lcp_cfg c) v (s_lcp s) e) (s_ipcp s) (s_ip6 s)
            | TIpcp => mkSys (s_lcp s) (step (ncp_cfg_of c) v (s_ipcp s) e) (s_ip6 s)
            | TIp6 => mkSys (s_lcp s) (s_ipcp s) (step (ncp_cfg_of c) v (s_ip6 s) e)
            end.
Proof.
  cbn zeta. unfold handle_frame, expected_target. rewrite frame_ok_spec.
  destruct s as [fl fi fv]; cbn [s_lcp s_ipcp s_ip6].
  destruct (Z.eqb_spec proto ProtoIPv6) as [->|N6].
  { cbn. destruct (inNetworkPhase ph && st_eqb (st fv) Opened);
      destruct (negb (len payload <? 4) && _); cbn; auto. }
  destruct (len payload <? 4); cbn [negb andb]; [split; reflexivity|].
  destruct ((be (firstn 2 (skipn 2 payload)) <? 4) || (be (firstn 2 (skipn 2 payload)) >? len payload));
    cbn [negb andb]; [split; reflexivity|].
  destruct (Z.eqb_spec proto ProtoLCP) as [->|NL].
  { unfold handleLCP, frame_code, frame_id, frame_data.
    destruct (nth 0 payload 0 =? 9) eqn:E9; [rewrite orb_true_r; cbn; auto|].
    destruct (nth 0 payload 0 =? 10) eqn:E10; [rewrite !orb_true_r; cbn; auto|].
    destruct (nth 0 payload 0 =? 8) eqn:E8; cbn; [destruct (len _ >=? 2); auto|]. auto. }
  destruct (Z.eqb_spec proto ProtoPAP) as [->|NP]; [cbn; auto|].
  destruct (Z.eqb_spec proto ProtoCHAP) as [->|NC]; [cbn; auto|].
  destruct (Z.eqb_spec proto ProtoIPCP) as [->|NI].
  { cbn. destruct (inNetworkPhase ph); cbn; auto. }
  destruct (Z.eqb_spec proto ProtoIPv6CP) as [->|NV].
  { cbn. destruct (inNetworkPhase ph); cbn; auto. }
  cbn. auto.
Qed.

(* RFC 1661 3.4: an NCP frame outside the Network phase changes nothing and calls nobody *)
Lemma dispatch_phase_gate c v ph proto payload k s :
  (proto = ProtoIPCP \/ proto = ProtoIPv6CP) -> inNetworkPhase ph = false ->
  let r := handle_frame c v ph proto payload k s in
  d_sys r = s /\ d_host r = [] /\ d_target r = TNone.
Proof.
  intros [-> | ->] P; cbn zeta;
    unfold handle_frame, ProtoIPv6, ProtoLCP, ProtoPAP, ProtoCHAP, ProtoIPCP, ProtoIPv6CP; cbn; rewrite P;
    repeat match goal with |- context [if ?b then _ else _] => destruct b end; cbn; auto.
Qed.

(* the automaton that received the frame made a step that is the RFC cell of its own table *)
Lemma dispatch_conforms c ph proto payload k s :
  let r := handle_frame c Repaired ph proto payload k s in
  let e := EInput (frame_code payload) (frame_id payload) k (frame_data payload) in
  match d_target r with
  | TNone => d_sys r = s
  | t => conformsb (target_cfg c t) (get t s) e (get t (d_sys r)) = true
  end.
Proof.
  cbn zeta. destruct (dispatch_routes c Repaired ph proto payload k s) as (T & S). cbn zeta in T, S.
  rewrite T, S. destruct (expected_target ph proto payload); cbn; try reflexivity; apply table_repaired.
Qed.

(* ---- histories: each automaton of the system sees exactly the events routed to it ---- *)

Lemma get_step_same c v t s o :
  t <> TNone ->
  get t (sys_step c v s o) = run (target_cfg c t) v (get t s) (events_for t o).
Proof.
  intros NT. destruct o as [ph proto payload k|t' e]; cbn [sys_step events_for].
  - destruct (dispatch_routes c v ph proto payload k s) as (_ & S). cbn zeta in S. rewrite S.
    destruct (expected_target ph proto payload); destruct t; try contradiction; reflexivity.
  - destruct t', t; try contradiction; reflexivity.
Qed.

Lemma run_app c v es1 : forall f es2, run c v f (es1 ++ es2) = run c v (run c v f es1) es2.
Proof. induction es1 as [|e es1 IH]; intros f es2; [reflexivity|]. cbn. apply IH. Qed.

Lemma system_projection c v t ops : forall s,
  t <> TNone ->
  get t (sys_run c v s ops) = run (target_cfg c t) v (get t s) (flat_map (events_for t) ops).
Proof.
  induction ops as [|o ops IH]; intros s NT; [reflexivity|].
  cbn [sys_run flat_map]. rewrite run_app, IH by exact NT. rewrite (get_step_same c v t s o NT). reflexivity.
Qed.

(* the observable trace of automaton t along a system history *)
Definition sys_trace (c : cfg) (v : variant) (t : Target) (s : sys) (ops : list SOp) : list Item :=
  trace (target_cfg c t) v (get t s) (flat_map (events_for t) ops).

Lemma system_alternates c v t pl pi pv ops :
  alternates false (sys_trace c v t (sys_init pl pi pv) ops) = true.
Proof.
  unfold sys_trace. destruct t; cbn [get sys_init s_lcp s_ipcp s_ip6]; apply alternates_init.
Qed.

Lemma system_up_iff_opened c v t pl pi pv ops :
  t <> TNone ->
  up_after false (sys_trace c v t (sys_init pl pi pv) ops)
  = is_opened (st (get t (sys_run c v (sys_init pl pi pv) ops))).
Proof.
  intros NT. rewrite (system_projection c v t ops _ NT). unfold sys_trace.
  destruct t; try contradiction; cbn [get sys_init s_lcp s_ipcp s_ip6]; apply up_iff_opened_init.
Qed.

Lemma system_both_acked c t pl pi pv ops :
  both_acked true (sys_trace c Repaired t (sys_init pl pi pv) ops) = true.
Proof.
  unfold sys_trace. destruct t; cbn [get sys_init s_lcp s_ipcp s_ip6]; apply both_acked_strict_repaired.
Qed.

(* through the dispatcher the LCP automaton never receives Protocol-Reject, Echo-Request or Echo-Reply *)
Lemma lcp_never_sees_host_codes ph proto payload k e :
  In e (events_for TLcp (SFrame ph proto payload k)) ->
  exists code id data, e = EInput code id k data /\ code <> 8 /\ code <> 9 /\ code <> 10.
Proof.
  cbn. unfold expected_target.
  destruct (negb (frame_ok payload)); cbn; [contradiction|].
  destruct (proto =? ProtoLCP).
  - destruct (frame_code payload =? 8) eqn:E8; cbn; [contradiction|].
    destruct (frame_code payload =? 9) eqn:E9; cbn; [contradiction|].
    destruct (frame_code payload =? 10) eqn:E10; cbn; [contradiction|].
    intros [<-|[]]. do 3 eexists; split; [reflexivity|].
    apply Z.eqb_neq in E8, E9, E10. auto.
  - destruct (proto =? ProtoIPCP); [destruct (inNetworkPhase ph); cbn; contradiction|].
    destruct (proto =? ProtoIPv6CP); [destruct (inNetworkPhase ph); cbn; contradiction|]. cbn; contradiction.
Qed.

(* non-vacuity: an LCP + IPCP bring-up through frames; an IPCP frame in the Establish phase is dropped *)
Definition frameLcpReq : list Z := [1; 7; 0; 8; 1; 4; 5; 212].          (* Configure-Request id 7, MRU 1492 *)
Definition frameAck1 : list Z := [2; 1; 0; 4].                            (* Configure-Ack id 1 *)
Definition demo_ops : list SOp :=
  [ SAdmin TLcp EUp; SAdmin TLcp EOpen;
    SFrame PhEstablish ProtoIPCP frameLcpReq CGood;                       (* dropped: not in Network phase *)
    SFrame PhEstablish ProtoLCP frameLcpReq CGood; SFrame PhEstablish ProtoLCP frameAck1 CGood;
    SAdmin TIpcp EUp; SAdmin TIpcp EOpen;
    SFrame PhNetwork ProtoIPCP frameLcpReq CGood; SFrame PhNetwork ProtoIPCP frameAck1 CGood ].
Lemma system_nonvac :
  let s := sys_run default_cfg Repaired (sys_init (head_pick 0) (head_pick 0) (head_pick 0)) demo_ops in
  st (s_lcp s) = Opened /\ st (s_ipcp s) = Opened /\ st (s_ip6 s) = Initial /\
  flat_map (events_for TIpcp) (firstn 3 demo_ops) = [] /\
  expected_target PhEstablish ProtoLCP frameLcpReq = TLcp /\
  frame_data frameLcpReq = [1; 4; 5; 212].
Proof. vm_compute. repeat split; reflexivity. Qed.
