(* C19/Properties.v — the property theorems.  Repaired = behaviour after fixes/C19_*.patch (full theorems);
   Defective = today's /repo (the _refuted witnesses).  Specification-side definitions (item, enc, wf_pkt,
   frame4_ok, ...) live at the top of the sections of Proofs.v. *)
From OV Require Import Common.Base C19.Model C19.Proofs.
Open Scope N_scope.

(* ---------------------------------------------------------------- checksums *)
(* the uint32 fold loop "for sum > 0xFFFF { sum = sum>>16 + sum&0xFFFF }" terminates within 3 rounds and
   computes the ones-complement (mod 65535) representative in 1..0xFFFF *)
Theorem C19_ones_complement : forall s, 0 < s -> s < 4294967296 ->
  exists r, fold_loop fold_fuel s = Ok r /\ 0 < r /\ r <= 65535 /\ r mod 65535 = s mod 65535.
Proof. exact fold_loop_spec. Qed.
Print Assumptions C19_ones_complement.

(* BuildIPv4UDPFrame: for every payload that fits the 16-bit length the frame exists (no panic, no fuel
   exhaustion), total/UDP lengths are consistent, the IPv4 header checksum and the UDP checksum verify under the
   RFC 1071 reference verifier, the payload is carried unchanged; after the fix the UDP checksum field is never 0 *)
Theorem C19_ipv4_frame_verifies : forall v src dst sp dp payload s4 d4,
  to4 src = Some s4 -> to4 dst = Some d4 -> ip_ok src -> ip_ok dst -> bytes_ok payload ->
  sp < 65536 -> dp < 65536 -> blen payload <= 65507 ->
  exists f, build_ipv4_udp_frame v src dst sp dp payload = Ok (Some f) /\ frame4_ok f payload /\
            (v = Repaired -> firstn 2 (skipn 26 f) <> [0; 0]).
Proof. exact build_ipv4_udp_frame_ok. Qed.
Print Assumptions C19_ipv4_frame_verifies.

Example C19_ipv4_frame_nonvacuous :
  exists f, build_ipv4_udp_frame Repaired (Some [10;0;0;1]) (Some [255;255;255;255]) 67 68 [1;2;3] = Ok (Some f) /\
            length f = 31%nat /\ verifies (firstn 20 f) = true /\ verifies (pseudo4 f ++ skipn 20 f) = true.
Proof. eexists. vm_compute. repeat split. Qed.
Print Assumptions C19_ipv4_frame_nonvacuous.

(* today's code sends a UDP checksum that computes to zero as 0x0000, i.e. "no checksum" (RFC 768) *)
Theorem C19_udp4_checksum_nonzero_refuted :
  exists src dst sp dp payload f, bytes_ok payload /\
    build_ipv4_udp_frame Defective (Some src) (Some dst) sp dp payload = Ok (Some f) /\ firstn 2 (skipn 26 f) = [0; 0].
Proof.
  exists [10;0;0;1], [255;255;255;255], 67, 68, [245; 82]. eexists. split.
  - repeat constructor.
  - vm_compute. split; reflexivity.
Qed.
Print Assumptions C19_udp4_checksum_nonzero_refuted.

Theorem C19_ipv6_frame_verifies : forall src dst sp dp payload s16 d16,
  to16 src = Some s16 -> to16 dst = Some d16 -> ip_ok src -> ip_ok dst -> bytes_ok payload ->
  sp < 65536 -> dp < 65536 -> blen payload <= 65527 ->
  exists f, build_ipv6_udp_frame src dst sp dp payload = Ok (Some f) /\ frame6_ok f payload /\
            firstn 2 (skipn 46 f) <> [0; 0].
Proof. exact build_ipv6_udp_frame_ok. Qed.
Print Assumptions C19_ipv6_frame_verifies.

(* ---------------------------------------------------------------- option 82 *)
(* InsertOption82 (all three policies) and StripOption82 on every well-formed options area (pads and complete
   options in any order, any number of pre-existing option 82, END, arbitrary bytes after END): byte-exact result *)
Theorem C19_opt82_insert_bytes : forall hdr its trail o82 pol, length hdr = 240%nat -> Forall item_ok its ->
  insert_option82 Repaired (wf_pkt hdr its trail) o82 pol =
  Ok (match pol with
      | Replace => replaced82 hdr its o82 trail
      | Drop => wf_pkt hdr (drop_code 82 its) trail
      | Keep => if existsb (is_code 82) its then wf_pkt hdr its trail else replaced82 hdr its o82 trail
      end).
Proof. exact insert_option82_repaired. Qed.
Print Assumptions C19_opt82_insert_bytes.

Theorem C19_opt82_strip_bytes : forall hdr its trail, length hdr = 240%nat -> Forall item_ok its ->
  strip_option82 Repaired (wf_pkt hdr its trail) = Ok (wf_pkt hdr (drop_code 82 its) trail).
Proof. exact strip_option82_repaired. Qed.
Print Assumptions C19_opt82_strip_bytes.

(* faithfulness, stated with the independent RFC 2131 decoder: the fixed header (xid, chaddr, ...) is untouched,
   all other options keep their order and value, option 82 appears exactly once with the relay's value, END and
   the bytes after it are preserved *)
Theorem C19_opt82_replace_faithful : forall hdr its trail d, length hdr = 240%nat -> Forall item_ok its -> (length d <= 255)%nat ->
  exists out, insert_option82 Repaired (wf_pkt hdr its trail) (82 :: blen d :: d) Replace = Ok out /\
    firstn 240 out = hdr /\
    ref_options out = (filter (not_code 82) (opts_of its) ++ [(82, d)], EndSeen trail).
Proof. exact opt82_replace_faithful. Qed.
Print Assumptions C19_opt82_replace_faithful.

Example C19_opt82_nonvacuous :
  length ex_hdr = 240%nat /\ Forall item_ok ex_two82 /\
  exists out, insert_option82 Repaired (wf_pkt ex_hdr ex_two82 [0;0]) [82;3;1;1;90] Replace = Ok out /\
              ref_options out = ([(53, [1]); (82, [1;1;90])], EndSeen [0;0]).
Proof. split; [reflexivity|]. split; [exact ex_two82_ok|]. eexists. vm_compute. split; reflexivity. Qed.
Print Assumptions C19_opt82_nonvacuous.

(* today's code: with two pre-existing option 82 the "replace" policy leaves one of the client's in place *)
Theorem C19_opt82_replace_refuted :
  exists hdr its trail d out, length hdr = 240%nat /\ Forall item_ok its /\ (length d <= 255)%nat /\
    insert_option82 Defective (wf_pkt hdr its trail) (82 :: blen d :: d) Replace = Ok out /\
    count_opt 82 (fst (ref_options out)) = 2%nat /\ opt_value 82 (fst (ref_options out)) <> d.
Proof.
  exists ex_hdr, ex_two82, [], [1;1;90]. eexists. split; [reflexivity|]. split; [exact ex_two82_ok|].
  split; [cbn; lia|]. vm_compute. split; [reflexivity|]. split; [reflexivity|discriminate].
Qed.
Print Assumptions C19_opt82_replace_refuted.

Theorem C19_opt82_strip_refuted :
  exists hdr its trail out, length hdr = 240%nat /\ Forall item_ok its /\
    strip_option82 Defective (wf_pkt hdr its trail) = Ok out /\ count_opt 82 (fst (ref_options out)) = 1%nat.
Proof.
  exists ex_hdr, ex_two82, []. eexists. split; [reflexivity|]. split; [exact ex_two82_ok|]. vm_compute. split; reflexivity.
Qed.
Print Assumptions C19_opt82_strip_refuted.

(* ---------------------------------------------------------------- generic option rewrite *)
(* SetOptionUint32 / SetOptionIP (4-byte value) on every well-formed options area, whatever the number and length
   of pre-existing instances of the target: the result is again well-formed with the same fixed header and trailer,
   all other options are preserved in order, the target appears exactly once with the intended value *)
Theorem C19_rewrite_faithful : forall hdr its trail code val4, length hdr = 240%nat -> Forall item_ok its ->
  code <> 0 -> code <> 255 -> length val4 = 4%nat ->
  exists out, set_option4 Repaired (wf_pkt hdr its trail) code val4 = Ok out /\
    exists its', out = wf_pkt hdr its' trail /\ Forall item_ok its' /\
      filter (not_code code) (opts_of its') = filter (not_code code) (opts_of its) /\
      filter (has_code code) (opts_of its') = [(code, val4)].
Proof. exact set_option4_repaired. Qed.
Print Assumptions C19_rewrite_faithful.

(* the decoded view of such a result (independent decoder) *)
Theorem C19_wf_decodes : forall hdr its trail, length hdr = 240%nat -> Forall item_ok its ->
  ref_options (wf_pkt hdr its trail) = (opts_of its, EndSeen trail).
Proof. exact ref_options_wf. Qed.
Print Assumptions C19_wf_decodes.

Example C19_rewrite_nonvacuous :
  Forall item_ok ex_badlen /\
  exists out, set_option4 Repaired (wf_pkt ex_hdr ex_badlen []) 51 (put32 3600) = Ok out /\
              ref_options out = ([(53, [5]); (54, [1;2;3;4]); (51, [0;0;14;16])], EndSeen []).
Proof. split; [exact ex_badlen_ok|]. eexists. vm_compute. split; reflexivity. Qed.
Print Assumptions C19_rewrite_nonvacuous.

(* today's code: a target option of another length gets a second copy *)
Theorem C19_rewrite_faithful_refuted :
  exists hdr its trail code val4 out, length hdr = 240%nat /\ Forall item_ok its /\ length val4 = 4%nat /\
    set_option4 Defective (wf_pkt hdr its trail) code val4 = Ok out /\
    count_opt code (fst (ref_options out)) = 2%nat.
Proof.
  exists ex_hdr, ex_badlen, [], 51, (put32 3600). eexists. split; [reflexivity|]. split; [exact ex_badlen_ok|].
  split; [reflexivity|]. vm_compute. split; reflexivity.
Qed.
Print Assumptions C19_rewrite_faithful_refuted.

(* RewriteForProxy: server-id, lease, T1, T2 each exactly once with the intended values (T2 = 7/8 lease computed
   without wrap-around), everything else preserved in order *)
Theorem C19_proxy_faithful : forall hdr its trail sid ip4 lease, length hdr = 240%nat -> Forall item_ok its ->
  to4 sid = Some ip4 ->
  exists out its', rewrite_for_proxy Repaired (wf_pkt hdr its trail) sid lease = Ok out /\
    out = wf_pkt hdr its' trail /\ Forall item_ok its' /\
    filter (has_code 54) (opts_of its') = [(54, ip4)] /\
    filter (has_code 51) (opts_of its') = [(51, put32 lease)] /\
    filter (has_code 58) (opts_of its') = [(58, put32 (lease / 2))] /\
    filter (has_code 59) (opts_of its') = [(59, put32 (lease * 7 / 8))] /\
    filter proxy_other (opts_of its') = filter proxy_other (opts_of its).
Proof. exact rewrite_for_proxy_repaired. Qed.
Print Assumptions C19_proxy_faithful.

Example C19_proxy_nonvacuous :
  Forall item_ok ex_server /\
  exists out, rewrite_for_proxy Repaired (wf_pkt ex_hdr ex_server [0]) (Some [10;0;0;1]) 4294967295 = Ok out /\
    ref_options out = ([(53, [5]); (54, [10;0;0;1]); (51, [255;255;255;255]); (58, [127;255;255;255]);
                        (59, [223;255;255;255]); (1, [255;255;255;0])], EndSeen [0]).
Proof. split; [exact ex_server_ok|]. eexists. vm_compute. split; reflexivity. Qed.
Print Assumptions C19_proxy_nonvacuous.

(* today's code: for the infinite lease T2 (option 59) comes out smaller than T1 (option 58) *)
Theorem C19_proxy_t2_refuted :
  exists hdr its trail sid lease out, length hdr = 240%nat /\ Forall item_ok its /\ lease < 4294967296 /\
    rewrite_for_proxy Defective (wf_pkt hdr its trail) sid lease = Ok out /\
    be_num (opt_value 59 (fst (ref_options out))) < be_num (opt_value 58 (fst (ref_options out))).
Proof.
  exists ex_hdr, ex_server, [], (Some [10;0;0;1]), 4294967295. eexists. split; [reflexivity|]. split; [exact ex_server_ok|].
  split; [reflexivity|]. vm_compute. split; reflexivity.
Qed.
Print Assumptions C19_proxy_t2_refuted.

(* SetGIAddr / IncrementHops touch exactly bytes 24..27 / byte 3 *)
Theorem C19_giaddr_local : forall pkt gi g, to4 gi = Some g -> (28 <= length pkt)%nat ->
  set_giaddr pkt gi = firstn 24 pkt ++ g ++ skipn 28 pkt.
Proof. exact set_giaddr_spec. Qed.
Print Assumptions C19_giaddr_local.
Theorem C19_hops_local : forall pkt, (3 < length pkt)%nat ->
  increment_hops pkt = firstn 3 pkt ++ [(nth 3 pkt 0 + 1) mod 256] ++ skipn 4 pkt.
Proof. exact increment_hops_spec. Qed.
Print Assumptions C19_hops_local.

(* ---------------------------------------------------------------- DHCPv4 reply builder *)
(* buildDHCPv4Reply (after the RFC 3396 fix), all xid / addresses / chaddr (<= 16 bytes) / option lists with values of
   ANY length: the message exists and the independent decoder gets op=BOOTREPLY, the request's xid, ciaddr and
   chaddr, the offered yiaddr, the magic cookie, END directly after the last option; every decoded option has a
   1-byte-representable length (no overlap) and for every code the RFC 3396 value is the concatenation of the intended
   values (message type first) *)
Theorem C19_reply_decodes : forall xid ci yi si hw mt opts,
  xid < 4294967296 -> (length hw <= 16)%nat -> Forall opt_code_ok opts ->
  exists p view, build_dhcp4_reply Repaired xid ci yi si hw mt opts = Ok p /\ ref_decode4 p = Some view /\
    v_op view = 2 /\ v_xid view = xid /\ v_yiaddr view = ip4_field yi /\ v_ciaddr view = ip4_field ci /\
    v_chaddr view = hw ++ zeros (16 - length hw) /\
    v_cookie_ok view = true /\ v_end view = EndSeen [] /\
    Forall (fun o => (length (snd o) <= 255)%nat /\ fst o <> 0 /\ fst o <> 255) (v_opts view) /\
    forall code, opt_value code (v_opts view) = concat (map snd (filter (has_code code) ((53, [mt mod 256]) :: opts))).
Proof. exact reply_decodes. Qed.
Print Assumptions C19_reply_decodes.

Example C19_reply_nonvacuous :
  exists p view, build_dhcp4_reply Repaired 305419896 None (Some [10;0;0;2]) (Some [10;0;0;1]) [170;187;204;221;238;255] 5
                   [(54, [10;0;0;1]); (51, [0;0;14;16]); (6, [8;8;8;8;1;1;1;1])] = Ok p /\
    ref_decode4 p = Some view /\ v_xid view = 305419896 /\ v_yiaddr view = [10;0;0;2] /\
    v_opts view = [(53, [5]); (54, [10;0;0;1]); (51, [0;0;14;16]); (6, [8;8;8;8;1;1;1;1])].
Proof. eexists. eexists. vm_compute. repeat split. Qed.
Print Assumptions C19_reply_nonvacuous.

(* today's code: a 256-byte value (64 DNS servers) is written with length byte 0; the decoder then reads the value
   bytes as further options: the DNS value is lost and the message does not end in END *)
Theorem C19_reply_decodes_refuted :
  exists xid hw mt opts p view, Forall opt_code_ok opts /\
    build_dhcp4_reply Defective xid None None None hw mt opts = Ok p /\ ref_decode4 p = Some view /\
    (opt_value 6 (v_opts view) <> concat (map snd (filter (has_code 6) opts)) /\ v_end view <> EndSeen []).
Proof.
  exists 1, [1;2;3;4;5;6], 5, [(6, concat (repeat [8;8;8;8] 64))]. eexists. eexists.
  split; [repeat constructor; cbn; lia|]. vm_compute. repeat split; discriminate.
Qed.
Print Assumptions C19_reply_decodes_refuted.

(* ---------------------------------------------------------------- DHCPv6 *)
(* Response.Serialize: message type, transaction id and exactly the intended option list (client-id, server-id,
   IA_NA, IA_PD, DNS, status, extras, in this order) come back from the reference TLV decoder, nothing else *)
Theorem C19_dhcp6_roundtrip : forall r, length (r_txid r) = 3%nat -> r_type r < 256 -> Forall opt6_ok (options6 r) ->
  nth 0 (serialize6 r) 0 = r_type r /\ firstn 3 (skipn 1 (serialize6 r)) = r_txid r /\
  tlv6_all (skipn 4 (serialize6 r)) = options6 r.
Proof. exact dhcp6_roundtrip. Qed.
Print Assumptions C19_dhcp6_roundtrip.

Example C19_dhcp6_roundtrip_nonvacuous :
  let r := {| r_type := 7; r_txid := [1;2;3]; r_client := [0;1;9]; r_server := [0;3;7;7];
              r_iana := Some {| na_iaid := 1; na_t1 := 10; na_t2 := 16; na_addr := Some (zeros 15 ++ [1]); na_pref := 20; na_valid := 30 |};
              r_iapd := None; r_dns := [Some (zeros 15 ++ [53])]; r_status := Some (0, [111;107]); r_extras := [(24, [1;97;0])] |} in
  Forall opt6_ok (options6 r) /\
  exists q, parse_message6 (serialize6 r) = Some q /\ q_client q = Some [0;1;9] /\ q_server q = Some [0;3;7;7] /\
            q_dns q = [zeros 15 ++ [53]] /\ q_status q = Some (0, [111;107]) /\
            bind_opt (q_iana q) p_addr = Some (zeros 15 ++ [1]).
Proof. cbv zeta. split; [repeat constructor; cbn; lia|]. eexists. vm_compute. repeat split. Qed.
Print Assumptions C19_dhcp6_roundtrip_nonvacuous.

(* BuildRelayForward / extractRelayMessage / BuildRelayReply / UnwrapRelayReply: the wrapped message comes back
   byte for byte, the relay header carries hop/link/peer, the relay options are exactly the configured ones *)
Theorem C19_relay_wrap_unwrap : forall msg p,
  blen msg < 65536 -> blen (rp_ifid p) < 65536 -> blen (rp_remote p) + 4 < 65536 -> blen (rp_sub p) < 65536 ->
  extract_relay_message (build_relay_forward msg p) = Some msg /\
  tlv6_all (skipn 34 (build_relay_forward msg p)) = relay_opts p ++ [(9, msg)] /\
  firstn 34 (build_relay_forward msg p) = relay_hdr 12 (rp_hop p) (rp_link p) (rp_peer p).
Proof. exact relay_forward_unwrap. Qed.
Print Assumptions C19_relay_wrap_unwrap.

Theorem C19_relay_reply_unwrap : forall inner hop link peer ifid, blen inner < 65536 -> blen ifid < 65536 ->
  unwrap_relay_reply (build_relay_reply inner hop link peer ifid) = Ok inner.
Proof. exact relay_reply_unwrap. Qed.
Print Assumptions C19_relay_reply_unwrap.

(* today's code: RewriteV6Lifetimes with the infinite preferred lifetime writes T2 < T1 *)
Theorem C19_v6_t2_refuted :
  exists pref, pref < 4294967296 /\ pref_t2 Defective pref < pref_t1 pref /\ pref_t1 pref <= pref_t2 Repaired pref.
Proof. exists 4294967295. vm_compute. repeat split; discriminate. Qed.
Print Assumptions C19_v6_t2_refuted.

(* after the fix the renewal times are ordered for every lease / preferred lifetime: T1 <= T2 <= lifetime *)
Theorem C19_t1_le_t2 : forall x, x / 2 <= t2_of Repaired x /\ pref_t1 x <= pref_t2 Repaired x /\
                                 t2_of Repaired x <= x /\ pref_t2 Repaired x <= x.
Proof. exact t1_le_t2. Qed.
Print Assumptions C19_t1_le_t2.
