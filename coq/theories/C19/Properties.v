(* C19/Properties.v — the property theorems.  Coq [variant]: Repaired = /repo HEAD (all nine C19 fixes are committed:
   e92fcd5, de0488c, b498cfb, c73561e, 35c2549, 703d203, b01cb01, bd61667); the full theorems are about it and the
   correspondence check compares with it only.  Head = the code before the last three fixes, Defective = the code before
   every fix: both serve only the historical _refuted witnesses (each says which commit fixed it).  Specification-side
   definitions (item, enc, wf_pkt, wf_tail, frame4_ok, opt6s, spec_o, ...) live in Proofs.v.  A "well-formed" DHCPv4
   message is wf_pkt hdr its tl with wf_tail tl: 240 header bytes, pads and complete options in any order, then EITHER the
   end of the packet (missing END) OR END + arbitrary trailer; C19_decodable_is_wf shows that this is every message the
   reference decoder can decode, and C19_opt82_replace_any_message needs no such hypothesis at all. *)
From OV Require Import Common.Base C19.Model C19.Proofs.
Open Scope N_scope.

(* ---------------------------------------------------------------- checksums *)
(* the uint32 fold loop "for sum > 0xFFFF { sum = sum>>16 + sum&0xFFFF }" terminates within 3 rounds and
   computes the ones-complement (mod 65535) representative in 1..0xFFFF *)
Theorem C19_ones_complement : forall s, 0 < s -> s < 4294967296 ->
  exists r, fold_loop fold_fuel s = Ok r /\ 0 < r /\ r <= 65535 /\ r mod 65535 = s mod 65535.
Proof. exact fold_loop_spec. Qed.
Print Assumptions C19_ones_complement.

(* BuildIPv4UDPFrame: for every payload that fits the 16-bit length the frame exists (no panic, no fuel
   exhaustion), total/UDP lengths are consistent, the IPv4 header checksum and the UDP checksum verify under the
   RFC 1071 reference verifier, the payload is carried unchanged; after the fix the UDP checksum field is never 0 *)
Theorem C19_ipv4_frame_verifies : forall v ovf src dst sp dp payload s4 d4,
  to4 src = Some s4 -> to4 dst = Some d4 -> ip_ok src -> ip_ok dst -> bytes_ok payload ->
  sp < 65536 -> dp < 65536 -> blen payload <= 65507 ->
  exists f, build_ipv4_udp_frame v ovf src dst sp dp payload = Ok (Some f) /\ frame4_ok f payload /\
            (v = Repaired -> firstn 2 (skipn 26 f) <> [0; 0]).
Proof. exact build_ipv4_udp_frame_ok. Qed.
Print Assumptions C19_ipv4_frame_verifies.

Example C19_ipv4_frame_nonvacuous :
  exists f, build_ipv4_udp_frame Repaired false (Some [10;0;0;1]) (Some [255;255;255;255]) 67 68 [1;2;3] = Ok (Some f) /\
            length f = 31%nat /\ verifies (firstn 20 f) = true /\ verifies (pseudo4 f ++ skipn 20 f) = true.
Proof. eexists. vm_compute. repeat split. Qed.
Print Assumptions C19_ipv4_frame_nonvacuous.

(* before c73561e the code sent a UDP checksum that computes to zero as 0x0000, i.e. "no checksum" (RFC 768) *)
Theorem C19_udp4_checksum_nonzero_refuted :
  exists src dst sp dp payload f, bytes_ok payload /\
    build_ipv4_udp_frame Defective false (Some src) (Some dst) sp dp payload = Ok (Some f) /\ firstn 2 (skipn 26 f) = [0; 0].
Proof.
  exists [10;0;0;1], [255;255;255;255], 67, 68, [245; 82]. eexists. split.
  - repeat constructor.
  - vm_compute. split; reflexivity.
Qed.
Print Assumptions C19_udp4_checksum_nonzero_refuted.

Theorem C19_ipv6_frame_verifies : forall ovf src dst sp dp payload s16 d16,
  to16 src = Some s16 -> to16 dst = Some d16 -> ip_ok src -> ip_ok dst -> bytes_ok payload ->
  sp < 65536 -> dp < 65536 -> blen payload <= 65527 ->
  exists f, build_ipv6_udp_frame ovf src dst sp dp payload = Ok (Some f) /\ frame6_ok f payload /\
            firstn 2 (skipn 46 f) <> [0; 0].
Proof. exact build_ipv6_udp_frame_ok. Qed.
Print Assumptions C19_ipv6_frame_verifies.

(* ---------------------------------------------------------------- option 82 *)
(* InsertOption82 (all three policies) and StripOption82 on every well-formed options area (pads and complete
   options in any order, any number of pre-existing option 82, END, arbitrary bytes after END): byte-exact result *)
Theorem C19_opt82_insert_bytes : forall hdr its tl o82 pol, length hdr = 240%nat -> Forall item_ok its -> wf_tail tl ->
  insert_option82 Repaired (wf_pkt hdr its tl) o82 pol =
  Ok (match pol with
      | Replace => replaced82 hdr its o82 tl
      | Drop => wf_pkt hdr (drop_code 82 its) tl
      | Keep => if existsb (is_code 82) its then wf_pkt hdr its tl else replaced82 hdr its o82 tl
      end).
Proof. exact insert_option82_repaired. Qed.
Print Assumptions C19_opt82_insert_bytes.

Theorem C19_opt82_strip_bytes : forall hdr its tl, length hdr = 240%nat -> Forall item_ok its -> wf_tail tl ->
  strip_option82 Repaired (wf_pkt hdr its tl) = Ok (wf_pkt hdr (drop_code 82 its) tl).
Proof. exact strip_option82_repaired. Qed.
Print Assumptions C19_opt82_strip_bytes.

(* faithfulness, stated with the independent RFC 2131 decoder: the fixed header (xid, chaddr, ...) is untouched,
   all other options keep their order and value, option 82 appears exactly once with the relay's value, END and
   the bytes after it are preserved *)
Theorem C19_opt82_replace_faithful : forall hdr its tl d, length hdr = 240%nat -> Forall item_ok its -> wf_tail tl -> (length d <= 255)%nat ->
  exists out, insert_option82 Repaired (wf_pkt hdr its tl) (82 :: blen d :: d) Replace = Ok out /\
    firstn 240 out = hdr /\
    ref_options out = (filter (not_code 82) (opts_of its) ++ [(82, d)], tail_end tl).
Proof. exact opt82_replace_faithful. Qed.
Print Assumptions C19_opt82_replace_faithful.

Example C19_opt82_nonvacuous :
  length ex_hdr = 240%nat /\ Forall item_ok ex_two82 /\
  exists out, insert_option82 Repaired (wf_pkt ex_hdr ex_two82 [255;0;0]) [82;3;1;1;90] Replace = Ok out /\
              ref_options out = ([(53, [1]); (82, [1;1;90])], EndSeen [0;0]).
Proof. split; [reflexivity|]. split; [exact ex_two82_ok|]. eexists. vm_compute. split; reflexivity. Qed.
Print Assumptions C19_opt82_nonvacuous.

(* before e92fcd5: with two pre-existing option 82 the "replace" policy leaves one of the client's in place *)
Theorem C19_opt82_replace_refuted :
  exists hdr its trail d out, length hdr = 240%nat /\ Forall item_ok its /\ (length d <= 255)%nat /\
    insert_option82 Defective (wf_pkt hdr its (255 :: trail)) (82 :: blen d :: d) Replace = Ok out /\
    count_opt 82 (fst (ref_options out)) = 2%nat /\ opt_value 82 (fst (ref_options out)) <> d.
Proof.
  exists ex_hdr, ex_two82, [], [1;1;90]. eexists. split; [reflexivity|]. split; [exact ex_two82_ok|].
  split; [cbn; lia|]. vm_compute. split; [reflexivity|]. split; [reflexivity|discriminate].
Qed.
Print Assumptions C19_opt82_replace_refuted.

Theorem C19_opt82_strip_refuted :
  exists hdr its trail out, length hdr = 240%nat /\ Forall item_ok its /\
    strip_option82 Defective (wf_pkt hdr its (255 :: trail)) = Ok out /\ count_opt 82 (fst (ref_options out)) = 1%nat.
Proof.
  exists ex_hdr, ex_two82, []. eexists. split; [reflexivity|]. split; [exact ex_two82_ok|]. vm_compute. split; reflexivity.
Qed.
Print Assumptions C19_opt82_strip_refuted.

(* ---------------------------------------------------------------- generic option rewrite *)
(* SetOptionUint32 / SetOptionIP (4-byte value) on every well-formed options area, whatever the number and length
   of pre-existing instances of the target: the result is again well-formed with the same fixed header and trailer,
   all other options are preserved in order, the target appears exactly once with the intended value *)
Theorem C19_rewrite_faithful : forall hdr its tl code val4, length hdr = 240%nat -> Forall item_ok its -> wf_tail tl ->
  code <> 0 -> code <> 255 -> length val4 = 4%nat ->
  exists out, set_option4 Repaired (wf_pkt hdr its tl) code val4 = Ok out /\
    exists its', out = wf_pkt hdr its' tl /\ Forall item_ok its' /\
      filter (not_code code) (opts_of its') = filter (not_code code) (opts_of its) /\
      filter (has_code code) (opts_of its') = [(code, val4)].
Proof. exact set_option4_repaired. Qed.
Print Assumptions C19_rewrite_faithful.

(* the decoded view of such a result (independent decoder) *)
Theorem C19_wf_decodes : forall hdr its tl, length hdr = 240%nat -> Forall item_ok its -> wf_tail tl ->
  ref_options (wf_pkt hdr its tl) = (opts_of its, tail_end tl).
Proof. exact ref_options_wf. Qed.
Print Assumptions C19_wf_decodes.

Example C19_rewrite_nonvacuous :
  Forall item_ok ex_badlen /\
  exists out, set_option4 Repaired (wf_pkt ex_hdr ex_badlen [255]) 51 (put32 3600) = Ok out /\
              ref_options out = ([(53, [5]); (54, [1;2;3;4]); (51, [0;0;14;16])], EndSeen []).
Proof. split; [exact ex_badlen_ok|]. eexists. vm_compute. split; reflexivity. Qed.
Print Assumptions C19_rewrite_nonvacuous.

(* before de0488c: a target option of another length gets a second copy *)
Theorem C19_rewrite_faithful_refuted :
  exists hdr its trail code val4 out, length hdr = 240%nat /\ Forall item_ok its /\ length val4 = 4%nat /\
    set_option4 Defective (wf_pkt hdr its (255 :: trail)) code val4 = Ok out /\
    count_opt code (fst (ref_options out)) = 2%nat.
Proof.
  exists ex_hdr, ex_badlen, [], 51, (put32 3600). eexists. split; [reflexivity|]. split; [exact ex_badlen_ok|].
  split; [reflexivity|]. vm_compute. split; reflexivity.
Qed.
Print Assumptions C19_rewrite_faithful_refuted.

(* RewriteForProxy: server-id, lease, T1, T2 each exactly once with the intended values (T2 = 7/8 lease computed
   without wrap-around), everything else preserved in order *)
Theorem C19_proxy_faithful : forall hdr its tl sid ip4 lease, length hdr = 240%nat -> Forall item_ok its -> wf_tail tl ->
  to4 sid = Some ip4 ->
  exists out its', rewrite_for_proxy Repaired (wf_pkt hdr its tl) sid lease = Ok out /\
    out = wf_pkt hdr its' tl /\ Forall item_ok its' /\
    filter (has_code 54) (opts_of its') = [(54, ip4)] /\
    filter (has_code 51) (opts_of its') = [(51, put32 lease)] /\
    filter (has_code 58) (opts_of its') = [(58, put32 (lease / 2))] /\
    filter (has_code 59) (opts_of its') = [(59, put32 (lease * 7 / 8))] /\
    filter proxy_other (opts_of its') = filter proxy_other (opts_of its).
Proof. exact rewrite_for_proxy_repaired. Qed.
Print Assumptions C19_proxy_faithful.

Example C19_proxy_nonvacuous :
  Forall item_ok ex_server /\
  exists out, rewrite_for_proxy Repaired (wf_pkt ex_hdr ex_server [255;0]) (Some [10;0;0;1]) 4294967295 = Ok out /\
    ref_options out = ([(53, [5]); (54, [10;0;0;1]); (51, [255;255;255;255]); (58, [127;255;255;255]);
                        (59, [223;255;255;255]); (1, [255;255;255;0])], EndSeen [0]).
Proof. split; [exact ex_server_ok|]. eexists. vm_compute. split; reflexivity. Qed.
Print Assumptions C19_proxy_nonvacuous.

(* before b498cfb: for the infinite lease T2 (option 59) comes out smaller than T1 (option 58) *)
Theorem C19_proxy_t2_refuted :
  exists hdr its trail sid lease out, length hdr = 240%nat /\ Forall item_ok its /\ lease < 4294967296 /\
    rewrite_for_proxy Defective (wf_pkt hdr its (255 :: trail)) sid lease = Ok out /\
    be_num (opt_value 59 (fst (ref_options out))) < be_num (opt_value 58 (fst (ref_options out))).
Proof.
  exists ex_hdr, ex_server, [], (Some [10;0;0;1]), 4294967295. eexists. split; [reflexivity|]. split; [exact ex_server_ok|].
  split; [reflexivity|]. vm_compute. split; reflexivity.
Qed.
Print Assumptions C19_proxy_t2_refuted.

(* SetGIAddr / IncrementHops touch exactly bytes 24..27 / byte 3 *)
Theorem C19_giaddr_local : forall pkt gi g, to4 gi = Some g -> (28 <= length pkt)%nat ->
  set_giaddr pkt gi = firstn 24 pkt ++ g ++ skipn 28 pkt.
Proof. exact set_giaddr_spec. Qed.
Print Assumptions C19_giaddr_local.
Theorem C19_hops_local : forall pkt, (3 < length pkt)%nat ->
  increment_hops pkt = firstn 3 pkt ++ [(nth 3 pkt 0 + 1) mod 256] ++ skipn 4 pkt.
Proof. exact increment_hops_spec. Qed.
Print Assumptions C19_hops_local.

(* ---------------------------------------------------------------- DHCPv4 reply builder *)
(* buildDHCPv4Reply (after the RFC 3396 fix), all xid / addresses / chaddr (<= 16 bytes) / option lists with values of
   ANY length: the message exists and the independent decoder gets op=BOOTREPLY, the request's xid, ciaddr and
   chaddr, the offered yiaddr, the magic cookie, END directly after the last option; every decoded option has a
   1-byte-representable length (no overlap) and for every code the RFC 3396 value is the concatenation of the intended
   values (message type first) *)
Theorem C19_reply_decodes : forall pad xid ci yi si hw mt opts,
  xid < 4294967296 -> (length hw <= 16)%nat -> Forall opt_code_ok opts ->
  exists p view, build_dhcp4_reply Repaired pad xid ci yi si hw mt opts = Ok p /\ ref_decode4 p = Some view /\
    v_op view = 2 /\ v_xid view = xid /\ v_yiaddr view = ip4_field yi /\ v_ciaddr view = ip4_field ci /\
    v_chaddr view = hw ++ zeros (16 - length hw) /\
    v_cookie_ok view = true /\ v_end view = EndSeen (zeros pad) /\
    Forall (fun o => (length (snd o) <= 255)%nat /\ fst o <> 0 /\ fst o <> 255) (v_opts view) /\
    forall code, opt_value code (v_opts view) = concat (map snd (filter (has_code code) ((53, [mt mod 256]) :: opts))).
Proof. exact reply_decodes. Qed.
Print Assumptions C19_reply_decodes.

Example C19_reply_nonvacuous :
  exists p view, build_dhcp4_reply Repaired 0 305419896 None (Some [10;0;0;2]) (Some [10;0;0;1]) [170;187;204;221;238;255] 5
                   [(54, [10;0;0;1]); (51, [0;0;14;16]); (6, [8;8;8;8;1;1;1;1])] = Ok p /\
    ref_decode4 p = Some view /\ v_xid view = 305419896 /\ v_yiaddr view = [10;0;0;2] /\
    v_opts view = [(53, [5]); (54, [10;0;0;1]); (51, [0;0;14;16]); (6, [8;8;8;8;1;1;1;1])].
Proof. eexists. eexists. vm_compute. repeat split. Qed.
Print Assumptions C19_reply_nonvacuous.

(* before 35c2549: a 256-byte value (64 DNS servers) is written with length byte 0; the decoder then reads the value
   bytes as further options: the DNS value is lost and the message does not end in END *)
Theorem C19_reply_decodes_refuted :
  exists xid hw mt opts p view, Forall opt_code_ok opts /\
    build_dhcp4_reply Defective 0 xid None None None hw mt opts = Ok p /\ ref_decode4 p = Some view /\
    (opt_value 6 (v_opts view) <> concat (map snd (filter (has_code 6) opts)) /\ v_end view <> EndSeen []).
Proof.
  exists 1, [1;2;3;4;5;6], 5, [(6, concat (repeat [8;8;8;8] 64))]. eexists. eexists.
  split; [repeat constructor; cbn; lia|]. vm_compute. repeat split; discriminate.
Qed.
Print Assumptions C19_reply_decodes_refuted.

(* ---------------------------------------------------------------- DHCPv6 *)
(* Response.Serialize: message type, transaction id and exactly the intended option list (client-id, server-id,
   IA_NA, IA_PD, DNS, status, extras, in this order) come back from the reference TLV decoder, nothing else *)
Theorem C19_dhcp6_roundtrip : forall r, length (r_txid r) = 3%nat -> r_type r < 256 -> Forall opt6_ok (options6 r) ->
  nth 0 (serialize6 r) 0 = r_type r /\ firstn 3 (skipn 1 (serialize6 r)) = r_txid r /\
  tlv6_all (skipn 4 (serialize6 r)) = options6 r.
Proof. exact dhcp6_roundtrip. Qed.
Print Assumptions C19_dhcp6_roundtrip.

Example C19_dhcp6_roundtrip_nonvacuous :
  let r := {| r_type := 7; r_txid := [1;2;3]; r_client := [0;1;9]; r_server := [0;3;7;7];
              r_iana := Some {| na_iaid := 1; na_t1 := 10; na_t2 := 16; na_addr := Some (zeros 15 ++ [1]); na_pref := 20; na_valid := 30 |};
              r_iapd := None; r_dns := [Some (zeros 15 ++ [53])]; r_status := Some (0, [111;107]); r_extras := [(24, [1;97;0])] |} in
  Forall opt6_ok (options6 r) /\
  exists q, parse_message6 (serialize6 r) = Some q /\ q_client q = Some [0;1;9] /\ q_server q = Some [0;3;7;7] /\
            q_dns q = [zeros 15 ++ [53]] /\ q_status q = Some (0, [111;107]) /\
            bind_opt (q_iana q) p_addr = Some (zeros 15 ++ [1]).
Proof. cbv zeta. split; [repeat constructor; cbn; lia|]. eexists. vm_compute. repeat split. Qed.
Print Assumptions C19_dhcp6_roundtrip_nonvacuous.

(* BuildRelayForward / extractRelayMessage / BuildRelayReply / UnwrapRelayReply: the wrapped message comes back
   byte for byte, the relay header carries hop/link/peer, the relay options are exactly the configured ones *)
Theorem C19_relay_wrap_unwrap : forall msg p,
  blen msg < 65536 -> blen (rp_ifid p) < 65536 -> blen (rp_remote p) + 4 < 65536 -> blen (rp_sub p) < 65536 ->
  extract_relay_message (build_relay_forward msg p) = Some msg /\
  tlv6_all (skipn 34 (build_relay_forward msg p)) = relay_opts p ++ [(9, msg)] /\
  firstn 34 (build_relay_forward msg p) = relay_hdr 12 (rp_hop p) (rp_link p) (rp_peer p).
Proof. exact relay_forward_unwrap. Qed.
Print Assumptions C19_relay_wrap_unwrap.

Theorem C19_relay_reply_unwrap : forall inner hop link peer ifid, blen inner < 65536 -> blen ifid < 65536 ->
  unwrap_relay_reply (build_relay_reply inner hop link peer ifid) = Ok inner.
Proof. exact relay_reply_unwrap. Qed.
Print Assumptions C19_relay_reply_unwrap.

(* before b498cfb: RewriteV6Lifetimes with the infinite preferred lifetime writes T2 < T1 *)
Theorem C19_v6_t2_refuted :
  exists pref, pref < 4294967296 /\ pref_t2 Defective pref < pref_t1 pref /\ pref_t1 pref <= pref_t2 Repaired pref.
Proof. exists 4294967295. vm_compute. repeat split; discriminate. Qed.
Print Assumptions C19_v6_t2_refuted.

(* after the fix the renewal times are ordered for every lease / preferred lifetime: T1 <= T2 <= lifetime *)
Theorem C19_t1_le_t2 : forall x, x / 2 <= t2_of Repaired x /\ pref_t1 x <= pref_t2 Repaired x /\
                                 t2_of Repaired x <= x /\ pref_t2 Repaired x <= x.
Proof. exact t1_le_t2. Qed.
Print Assumptions C19_t1_le_t2.

(* ================================================================ audit round *)
(* ---------------------------------------------------------------- domain of the DHCPv4 rewrite theorems *)
(* every message of at least 240 bytes whose options area the reference decoder can walk without hitting a cut-off
   option IS a wf_pkt (pads anywhere, any option order, with or without END): the rewrite theorems above therefore
   cover every decodable client/server message.  Messages with a truncated last option are not decodable DHCP
   messages (gopacket refuses them, too) and are outside the property's domain. *)
Theorem C19_decodable_is_wf : forall pkt, bytes_ok pkt -> (240 <= length pkt)%nat -> snd (ref_options pkt) <> Truncated ->
  exists hdr its tl, pkt = wf_pkt hdr its tl /\ length hdr = 240%nat /\ Forall item_ok its /\ wf_tail tl /\
                     ref_options pkt = (opts_of its, tail_end tl).
Proof. exact decodable_is_wf. Qed.
Print Assumptions C19_decodable_is_wf.

(* messages WITHOUT an END option (options run to the end of the packet): the rewriters append at the end of the packet
   and do not add END; the result decodes (NoEnd) to the old options minus the target plus the new one *)
Example C19_noend_nonvacuous :
  wf_tail [] /\
  exists o1 o2, insert_option82 Repaired (wf_pkt ex_hdr ex_two82 []) [82;3;1;1;90] Replace = Ok o1 /\
                ref_options o1 = ([(53, [1]); (82, [1;1;90])], NoEnd) /\
                set_option4 Repaired (wf_pkt ex_hdr ex_badlen []) 51 (put32 3600) = Ok o2 /\
                ref_options o2 = ([(53, [5]); (54, [1;2;3;4]); (51, [0;0;14;16])], NoEnd).
Proof. split; [left; reflexivity|]. eexists. eexists. vm_compute. repeat split. Qed.
Print Assumptions C19_noend_nonvacuous.

Example C19_opt82_keep_drop_strip_nonvacuous :
  insert_option82 Repaired (wf_pkt ex_hdr ex_two82 [255]) [82;1;9] Keep = Ok (wf_pkt ex_hdr ex_two82 [255]) /\
  insert_option82 Repaired (wf_pkt ex_hdr ex_two82 [255]) [82;1;9] Drop = Ok (wf_pkt ex_hdr [Opt 53 [1]; Pad] [255]) /\
  strip_option82 Repaired (wf_pkt ex_hdr ex_two82 [255]) = Ok (wf_pkt ex_hdr [Opt 53 [1]; Pad] [255]) /\
  insert_option82 Repaired (wf_pkt ex_hdr [Opt 53 [1]] [255]) [82;1;9] Keep = Ok (wf_pkt ex_hdr [Opt 53 [1]; Opt 82 [9]] [255]).
Proof. vm_compute. repeat split. Qed.
Print Assumptions C19_opt82_keep_drop_strip_nonvacuous.

(* ---------------------------------------------------------------- the other IPv4 framers *)
(* WrapIPUDP (the relay/proxy framer, ports 67->68) and BuildUDPPacket: as C19_ipv4_frame_verifies, plus the header
   fields are the requested ones (0x45, TTL 64, protocol 17, addresses, ports) and the UDP checksum is never 0 *)
Theorem C19_wrap_frame_verifies : forall v ovf payload src dst s4 d4,
  to4 src = Some s4 -> to4 dst = Some d4 -> ip_ok src -> ip_ok dst -> bytes_ok payload -> blen payload <= 65507 ->
  exists f, wrap_ip_udp v ovf payload src dst = Ok f /\ frame4_ok f payload /\ frame4_fields f s4 d4 67 68 /\
            firstn 2 (skipn 26 f) <> [0; 0].
Proof. exact wrap_ip_udp_ok. Qed.
Print Assumptions C19_wrap_frame_verifies.

Theorem C19_udp_packet_verifies : forall ovf src dst sp dp payload s4 d4,
  to4 src = Some s4 -> to4 dst = Some d4 -> ip_ok src -> ip_ok dst -> bytes_ok payload ->
  sp < 65536 -> dp < 65536 -> blen payload <= 65507 ->
  exists f, build_udp_packet ovf src dst sp dp payload = Ok f /\ frame4_ok f payload /\ frame4_fields f s4 d4 sp dp /\
            firstn 2 (skipn 26 f) <> [0; 0].
Proof. exact build_udp_packet_ok. Qed.
Print Assumptions C19_udp_packet_verifies.

Theorem C19_ipv4_frame_fields : forall v ovf src dst sp dp payload s4 d4 f,
  to4 src = Some s4 -> to4 dst = Some d4 -> build_ipv4_udp_frame v ovf src dst sp dp payload = Ok (Some f) ->
  frame4_fields f s4 d4 sp dp.
Proof. exact build_ipv4_udp_frame_fields. Qed.
Print Assumptions C19_ipv4_frame_fields.

(* non-vacuity on the hard paths: a payload whose 32-bit sum needs the SECOND end-around-carry fold, and one whose
   checksum computes to zero (sent as 0xFFFF), through all three IPv4 framers *)
Example C19_frames_carry_nonvacuous :
  let s := Some [255;255;122;210] in let d := Some [255;255;255;255] in
  fold_loop 1 (sum_words [255;255;122;210] + sum_words [255;255;255;255] + 17 + 10 + (0 + 68 + 10 + sum_words [132;199])) = OutOfFuel /\
  (exists f, build_ipv4_udp_frame Repaired false s d 0 68 [132;199] = Ok (Some f) /\ verifies (pseudo4 f ++ skipn 20 f) = true) /\
  (exists f, build_udp_packet false s d 0 68 [132;199] = Ok f /\ verifies (pseudo4 f ++ skipn 20 f) = true) /\
  (exists f, wrap_ip_udp Repaired false [132;199] s d = Ok f /\ verifies (firstn 20 f) = true /\ verifies (pseudo4 f ++ skipn 20 f) = true) /\
  (exists f, build_ipv4_udp_frame Repaired false (Some [10;0;0;1]) d 67 68 [245;82] = Ok (Some f) /\ firstn 2 (skipn 26 f) = [255;255] /\
             verifies (pseudo4 f ++ skipn 20 f) = true).
Proof. cbv zeta. split; [vm_compute; reflexivity|]. repeat split; eexists; vm_compute; repeat split. Qed.
Print Assumptions C19_frames_carry_nonvacuous.

(* ---------------------------------------------------------------- BuildOption82 *)
(* the built option is 82, one length byte equal to the body length (<= 255 including the 3 flag bytes), and the body is
   exactly the sub-options circuit-id, remote-id[, flags] under a strict TLV decoder; above 255 bytes an error *)
Theorem C19_option82_build : forall fl un circuit remote,
  ((o82_len fl circuit remote <= 255)%nat ->
     exists body, build_option82 fl un circuit remote = Ok (82 :: blen body :: body) /\
                  length body = o82_len fl circuit remote /\ sub_tlv 4 body = Some (o82_subs fl un circuit remote)) /\
  ((255 < o82_len fl circuit remote)%nat -> exists e, build_option82 fl un circuit remote = Err e).
Proof. exact build_option82_spec. Qed.
Print Assumptions C19_option82_build.

(* the relay path InsertOption82(pkt, BuildOption82(...), replace): option 82 exactly once, its value decodes to the
   configured sub-options, everything else preserved (END-terminated or not) *)
Theorem C19_option82_build_insert : forall hdr its tl fl un circuit remote,
  length hdr = 240%nat -> Forall item_ok its -> wf_tail tl -> (o82_len fl circuit remote <= 255)%nat ->
  exists o82 out body, build_option82 fl un circuit remote = Ok o82 /\
    insert_option82 Repaired (wf_pkt hdr its tl) o82 Replace = Ok out /\ firstn 240 out = hdr /\
    ref_options out = (filter (not_code 82) (opts_of its) ++ [(82, body)], tail_end tl) /\
    sub_tlv 4 body = Some (o82_subs fl un circuit remote).
Proof. exact build_and_insert_option82. Qed.
Print Assumptions C19_option82_build_insert.

Example C19_option82_build_nonvacuous :
  build_option82 true true [101;116;104;48] [170;187] = Ok [82;13; 1;4;101;116;104;48; 2;2;170;187; 10;1;1] /\
  (exists e, build_option82 true false (repeat 65 125) (repeat 66 124) = Err e) /\
  (exists b, build_option82 false false (repeat 65 125) (repeat 66 126) = Ok b /\ length b = 257%nat).
Proof. split; [reflexivity|]. split; eexists; vm_compute; repeat split. Qed.
Print Assumptions C19_option82_build_nonvacuous.

(* ---------------------------------------------------------------- lease parameters -> reply (resolved path and pool path) *)
(* buildResponseFromResolved for ALL lease parameters (any mask, 0..n DNS servers, any valid RFC 3442 routes, any
   per-pool raw options that pass config validation ip.DHCPOption.Validate = raw_option_valid): the DHCP payload
   exists; framed (when it fits 65507 bytes) its lengths/checksums verify and addresses/ports are server -> broadcast,
   67 -> 68; decoded with the reference decoder: xid, yiaddr, siaddr, chaddr, cookie, END; for every option code the
   RFC 3396 value is the intended one; the route bytes decode (RFC 3442) to the configured routes; when no value
   exceeds 255 bytes the decoded option list IS the intended list (nothing added, nothing lost, order kept) *)
Theorem C19_resolved_reply_decodes : forall ovf pad xid ci hw mt yip router sid mask dns lease routes extra src s4,
  xid < 4294967296 -> (length hw <= 16)%nat -> lease < 4294967296 ->
  ip_ok ci -> ip_ok yip -> ip_ok router -> ip_ok sid -> bytes_ok hw -> bytes_ok mask -> Forall ip_ok dns ->
  Forall route_ok routes -> Forall (fun r => ip_ok (snd (fst r)) /\ ip_ok (snd r)) routes -> Forall raw_ok extra ->
  src = match sid with Some _ => sid | None => router end -> to4 src = Some s4 ->
  exists rt payload view,
    (routes = [] -> rt = []) /\
    (routes <> [] -> classless routes = Ok rt /\ ref_routes (length routes + 1) rt = Some (map route_view routes)) /\
    build_dhcp4_reply Repaired pad xid ci yip src hw mt (resolved_opts lease mask sid router dns rt routes extra) = Ok payload /\
    bytes_ok payload /\
    (blen payload <= 65507 ->
       exists f, build_response_resolved Repaired ovf pad xid ci hw mt yip router sid mask dns lease routes extra = Ok (Some f) /\
                 frame4_ok f payload /\ frame4_fields f s4 bcast 67 68 /\ firstn 2 (skipn 26 f) <> [0; 0]) /\
    ref_decode4 payload = Some view /\ v_op view = 2 /\ v_xid view = xid /\ v_yiaddr view = ip4_field yip /\
    v_siaddr view = s4 /\ v_chaddr view = hw ++ zeros (16 - length hw) /\ v_cookie_ok view = true /\ v_end view = EndSeen (zeros pad) /\
    (forall code, opt_value code (v_opts view) =
                  concat (map snd (filter (has_code code) ((53, [mt mod 256]) :: resolved_opts lease mask sid router dns rt routes extra)))) /\
    ((length mask <= 255)%nat -> (length (dns_data dns) <= 255)%nat -> (length rt <= 255)%nat ->
       v_opts view = (53, [mt mod 256]) :: resolved_opts lease mask sid router dns rt routes extra).
Proof. exact resolved_reply. Qed.
Print Assumptions C19_resolved_reply_decodes.

(* "each targeted option exactly once": with validated raw options every option the server emits itself
   (53, 51, 1, 54, 3, 6, 121) occurs at most once in the intended list (53, 51, 1 exactly once) *)
Theorem C19_reply_std_once : forall mt lease mask sid router dns rt routes extra c, Forall raw_ok extra -> In c std_codes ->
  Nat.le (length (filter (has_code c) ((53, [mt mod 256]) :: resolved_opts lease mask sid router dns rt routes extra))) 1.
Proof. exact std_once. Qed.
Print Assumptions C19_reply_std_once.

(* without the config validation a raw option with a built-in code is simply emitted as well: two instances of
   option 51 (lease time).  Not a finding: config.validateDHCPOptions (pkg/config/validate_dhcp_options.go) rejects such a
   configuration at load time, which is exactly the hypothesis raw_ok of the theorems above. *)
Theorem C19_reply_unvalidated_raw_refuted :
  exists extra p view, raw_option_valid (51, [0;0;0;1]) = false /\ extra = [(51, [0;0;0;1])] /\
    build_dhcp4_reply Repaired 0 1 None None None [] 5 (resolved_opts 3600 [255;255;255;0] None None [] [] [] extra) = Ok p /\
    ref_decode4 p = Some view /\ count_opt 51 (v_opts view) = 2%nat.
Proof. eexists. eexists. eexists. vm_compute. repeat split. Qed.
Print Assumptions C19_reply_unvalidated_raw_refuted.

Theorem C19_pool_reply_decodes : forall ovf pad xid ci hw mt ip gateway g4 mask dns lease extra,
  xid < 4294967296 -> (length hw <= 16)%nat -> ip_ok ci -> ip_ok ip -> ip_ok gateway -> bytes_ok hw -> bytes_ok mask ->
  Forall ip_ok dns -> Forall raw_ok extra -> to4 gateway = Some g4 ->
  exists payload view,
    build_dhcp4_reply Repaired pad xid ci ip gateway hw mt (pool_opts lease mask g4 dns extra) = Ok payload /\ bytes_ok payload /\
    (blen payload <= 65507 ->
       exists f, build_response_pool Repaired ovf pad xid ci hw mt ip gateway mask dns lease extra = Ok (Some f) /\
                 frame4_ok f payload /\ frame4_fields f g4 bcast 67 68 /\ firstn 2 (skipn 26 f) <> [0; 0]) /\
    ref_decode4 payload = Some view /\ v_op view = 2 /\ v_xid view = xid /\ v_yiaddr view = ip4_field ip /\
    v_chaddr view = hw ++ zeros (16 - length hw) /\ v_cookie_ok view = true /\ v_end view = EndSeen (zeros pad) /\
    (forall code, opt_value code (v_opts view) =
                  concat (map snd (filter (has_code code) ((53, [mt mod 256]) :: pool_opts lease mask g4 dns extra)))).
Proof. exact pool_reply. Qed.
Print Assumptions C19_pool_reply_decodes.

Example C19_resolved_reply_nonvacuous :
  let routes := [(0, Some [0;0;0;0], Some [10;0;0;1]); (24, Some [192;168;7;0], Some [10;0;0;9])] in
  Forall route_ok routes /\ Forall raw_ok [(43, [1;2;3])] /\
  exists f, build_response_resolved Repaired false 0 7 None [170;187;204;221;238;255] 5 (Some [10;0;0;2]) (Some [10;0;0;1]) (Some [10;0;0;1])
              [255;255;255;255] [Some [8;8;8;8]] 3600 routes [(43, [1;2;3])] = Ok (Some f) /\
            verifies (firstn 20 f) = true /\ verifies (pseudo4 f ++ skipn 20 f) = true /\
            bind_opt (ref_decode4 (skipn 28 f)) (fun v => Some (v_opts v)) =
              Some [(53, [5]); (51, [0;0;14;16]); (1, [255;255;255;255]); (54, [10;0;0;1]); (3, [10;0;0;1]); (6, [8;8;8;8]);
                    (121, [0;10;0;0;1; 24;192;168;7;10;0;0;9]); (43, [1;2;3])].
Proof.
  cbv zeta. split; [repeat constructor; cbn; lia|]. split; [repeat constructor; cbn; lia|]. eexists. vm_compute. repeat split.
Qed.
Print Assumptions C19_resolved_reply_nonvacuous.

(* ---------------------------------------------------------------- DHCPv6 rewriters *)
(* General case (also IA nested in IA): the TLV framing of the top level is untouched.  NOTE: [rw_opt] refers to the
   model's own [rewrite6] for the IA body and [dp] is existential, so this theorem alone does not pin the nested
   lifetimes; the closed specification is C19_v6_lifetimes_nested / C19_v6_lifetimes_decoded below. *)
Theorem C19_v6_lifetimes_framing : forall v h4 os pref valid, length h4 = 4%nat -> Forall opt6_ok os ->
  exists dp, rewrite_v6_lifetimes v (h4 ++ enc6 os) pref valid = h4 ++ enc6 (map (rw_opt v dp pref valid) os).
Proof. exact rewrite_v6_lifetimes_spec. Qed.
Print Assumptions C19_v6_lifetimes_framing.

Theorem C19_v6_lifetimes_fields : forall v dp pref valid o,
  fst (rw_opt v dp pref valid o) = fst o /\ length (snd (rw_opt v dp pref valid o)) = length (snd o) /\
  (fst o <> 3 -> fst o <> 25 -> fst o <> 5 -> fst o <> 26 -> rw_opt v dp pref valid o = o) /\
  ((fst o = 3 \/ fst o = 25) -> (12 <= length (snd o))%nat ->
     firstn 4 (snd (rw_opt v dp pref valid o)) = firstn 4 (snd o) /\
     firstn 8 (skipn 4 (snd (rw_opt v dp pref valid o))) = put32 (pref_t1 pref) ++ put32 (pref_t2 v pref)) /\
  (fst o = 5 -> (24 <= length (snd o))%nat ->
     snd (rw_opt v dp pref valid o) = firstn 16 (snd o) ++ put32 pref ++ put32 valid ++ skipn 24 (snd o)) /\
  (fst o = 26 -> (8 <= length (snd o))%nat ->
     snd (rw_opt v dp pref valid o) = put32 pref ++ put32 valid ++ skipn 8 (snd o)).
Proof. exact rw_opt_facts. Qed.
Print Assumptions C19_v6_lifetimes_fields.

(* the IA body keeps its length through the nested rewrite *)
Theorem C19_v6_rewrite_length : forall v dp f pref valid l, length (rewrite6 v dp f pref valid l) = length l.
Proof. exact rewrite6_length. Qed.
Print Assumptions C19_v6_rewrite_length.

Example C19_v6_lifetimes_nonvacuous :
  let ia := [0;0;0;9; 0;0;0;1; 0;0;0;2] ++ opt6 5 (zeros 15 ++ [1] ++ [0;0;0;3; 0;0;0;4]) in
  rewrite_v6_lifetimes Repaired ([7;1;2;3] ++ enc6 [(1, [0;1]); (3, ia); (23, zeros 16)]) 4294967295 100 =
  [7;1;2;3] ++ enc6 [(1, [0;1]);
                     (3, [0;0;0;9; 127;255;255;255; 204;204;204;204] ++ opt6 5 (zeros 15 ++ [1] ++ [255;255;255;255; 0;0;0;100]));
                     (23, zeros 16)].
Proof. vm_compute. reflexivity. Qed.
Print Assumptions C19_v6_lifetimes_nonvacuous.

(* ReplaceServerDUID: only the first Server Identifier option changes, to exactly the new DUID (any length), and
   GetServerDUID reads it back *)
Theorem C19_v6_replace_duid : forall h4 a d b nd, length h4 = 4%nat -> Forall opt6_ok a -> Forall (fun o => fst o <> 2) a ->
  blen d < 65536 -> blen nd < 65536 ->
  replace_server_duid (h4 ++ enc6 (a ++ (2, d) :: b)) nd = h4 ++ enc6 (a ++ (2, nd) :: b) /\
  get_server_duid (h4 ++ enc6 (a ++ (2, nd) :: b)) = Some nd.
Proof. exact replace_server_duid_spec. Qed.
Print Assumptions C19_v6_replace_duid.

(* unwrapping ANY relay message (relay-forward or a server's relay-reply, options in any order, anything after the
   Relay-Message option): the first Relay-Message option's content is returned *)
Theorem C19_relay_unwrap_any : forall hdr os inner rest, length hdr = 34%nat -> Forall opt6_ok os -> Forall (fun o => fst o <> 9) os ->
  blen inner < 65536 -> extract_relay_message (hdr ++ enc6 os ++ opt6 9 inner ++ rest) = Some inner.
Proof. exact extract_any. Qed.
Print Assumptions C19_relay_unwrap_any.

Example C19_relay_nonvacuous :
  let inner := [7;1;2;3] ++ opt6 1 [0;1] in
  let p := {| rp_hop := 1; rp_link := Some (zeros 15 ++ [1]); rp_peer := None; rp_ifid := [101]; rp_remote := [9;9]; rp_ent := 3561; rp_sub := [] |} in
  extract_relay_message (build_relay_forward inner p) = Some inner /\
  unwrap_relay_reply (build_relay_reply inner 0 None None [101]) = Ok inner /\
  bind_opt (unwrap_relay_reply6 3 ([13;0] ++ zeros 32 ++ opt6 18 [5] ++ opt6 9 (build_relay_reply inner 0 None None []))) q_client = Some [0;1].
Proof. vm_compute. repeat split. Qed.
Print Assumptions C19_relay_nonvacuous.

Example C19_ipv6_frame_nonvacuous :
  exists f, build_ipv6_udp_frame false (Some (repeat 255 16)) (Some (repeat 255 16)) 547 546 [255;255;0;0] = Ok (Some f) /\
            length f = 52%nat /\ verifies (pseudo6 f ++ skipn 40 f) = true.
Proof. eexists. vm_compute. repeat split. Qed.
Print Assumptions C19_ipv6_frame_nonvacuous.

(* ---------------------------------------------------------------- value semantics of the DHCPv6 proxy sequence *)
(* learn the server DUID from the server's message, rewrite that message for the client, later put the learnt DUID
   into the client's REQUEST: with value semantics (the Go getters return copies — checked on every case by the
   harness observables al/im/gal/nal/rawmod) the REQUEST carries the SERVER's DUID and the client saw the proxy's *)
Theorem C19_v6_proxy_sequence : forall h a sd b pd h' a' x b',
  length h = 4%nat -> length h' = 4%nat -> Forall opt6_ok a -> Forall (fun o => fst o <> 2) a ->
  Forall opt6_ok a' -> Forall (fun o => fst o <> 2) a' ->
  blen sd < 65536 -> blen pd < 65536 -> blen x < 65536 ->
  let adv := h ++ enc6 (a ++ (2, sd) :: b) in
  let req := h' ++ enc6 (a' ++ (2, x) :: b') in
  get_server_duid adv = Some sd /\
  get_server_duid (replace_server_duid adv pd) = Some pd /\
  replace_server_duid req sd = h' ++ enc6 (a' ++ (2, sd) :: b') /\
  get_server_duid (replace_server_duid req sd) = Some sd.
Proof. exact v6_proxy_sequence. Qed.
Print Assumptions C19_v6_proxy_sequence.

(* ================================================================ audit round 2 *)
(* ---------------------------------------------------------------- RewriteV6Lifetimes: closed specification *)
(* For every message whose options are plain options or IA_NA / IA_PD with IAID, T1|T2 and a well-formed sub-option list
   (opt6s_ok; no IA inside an IA): the result is byte for byte the message in which every IA has T1 = pref/2,
   T2 = pref*4/5, every IAADDR (>= 24 bytes, inside an IA or at top level) has bytes 16..23 = pref|valid, every IAPREFIX
   (>= 8 bytes) has bytes 0..7 = pref|valid, and NOTHING else differs ([spec_o]/[leaf] do not mention the model). *)
Theorem C19_v6_lifetimes_nested : forall v h4 os pref valid, length h4 = 4%nat -> Forall opt6s_ok os ->
  rewrite_v6_lifetimes v (h4 ++ enc6 (map enc_o os)) pref valid =
  h4 ++ enc6 (map enc_o (map (spec_o (pref_t1 pref) (pref_t2 v pref) pref valid) os)).
Proof. exact rewrite_v6_lifetimes_nested. Qed.
Print Assumptions C19_v6_lifetimes_nested.

(* the same through the independent TLV decoder: header kept; top-level options decode to the specified list; inside
   every IA the decoder finds T1|T2 = pref/2 | pref*4/5 and exactly the old sub-options with [leaf] applied *)
Theorem C19_v6_lifetimes_decoded : forall v h4 os pref valid, length h4 = 4%nat -> Forall opt6s_ok os ->
  let out := rewrite_v6_lifetimes v (h4 ++ enc6 (map enc_o os)) pref valid in
  let os' := map (spec_o (pref_t1 pref) (pref_t2 v pref) pref valid) os in
  firstn 4 out = h4 /\ tlv6_all (skipn 4 out) = map enc_o os' /\
  forall c iaid t12 subs, In (IA c iaid t12 subs) os' ->
    t12 = put32 (pref_t1 pref) ++ put32 (pref_t2 v pref) /\
    tlv6_all (skipn 12 (snd (enc_o (IA c iaid t12 subs)))) = subs /\
    exists subs0 t0, In (IA c iaid t0 subs0) os /\ subs = map (leaf pref valid) subs0.
Proof. exact v6_lifetimes_decoded. Qed.
Print Assumptions C19_v6_lifetimes_decoded.

Example C19_v6_lifetimes_nested_nonvacuous :
  let addr := zeros 15 ++ [1] in
  let os := [Plain 1 [0;1]; IA 3 [0;0;0;9] [0;0;0;1;0;0;0;2] [(5, addr ++ [0;0;0;3;0;0;0;4]); (13, [0;0])]; IA 25 [0;0;0;7] (zeros 8) [(26, zeros 8 ++ [56] ++ addr)]] in
  Forall opt6s_ok os /\
  map (spec_o 50 80 100 200) os =
    [Plain 1 [0;1]; IA 3 [0;0;0;9] [0;0;0;50;0;0;0;80] [(5, addr ++ [0;0;0;100;0;0;0;200]); (13, [0;0])];
     IA 25 [0;0;0;7] [0;0;0;50;0;0;0;80] [(26, [0;0;0;100;0;0;0;200] ++ [56] ++ addr)]].
Proof.
  cbv zeta. split; [|vm_compute; reflexivity].
  assert (T : forall l : list (N * bytes), forallb (fun o => negb (fst o =? 3) && negb (fst o =? 25) && (fst o <? 65536) && (blen (snd o) <? 65536))%bool l = true ->
              Forall opt6_ok l /\ Forall not_ia l).
  { induction l as [|o r IH]; intros H; [split; constructor|]. cbn [forallb] in H. apply andb_true_iff in H. destruct H as [H Hr].
    repeat (apply andb_true_iff in H; destruct H as [H ?]). apply negb_true_iff in H. apply N.eqb_neq in H.
    match goal with E : negb (_ =? 25) = true |- _ => apply negb_true_iff in E; apply N.eqb_neq in E end.
    repeat match goal with E : (_ <? _) = true |- _ => apply N.ltb_lt in E end.
    destruct (IH Hr). split; constructor; try assumption; split; assumption. }
  constructor; [unfold opt6s_ok, not_ia, opt6_ok, blen; cbn [fst snd length]; repeat split; lia|].
  constructor; [cbn [opt6s_ok]; split; [left; reflexivity|]; split; [reflexivity|]; split; [reflexivity|];
                destruct (T [(5, (zeros 15 ++ [1]) ++ [0;0;0;3;0;0;0;4]); (13, [0;0])] eq_refl); repeat split; try assumption; try (vm_compute; reflexivity)|].
  constructor; [|constructor].
  cbn [opt6s_ok]; split; [right; reflexivity|]; split; [reflexivity|]; split; [reflexivity|].
  destruct (T [(26, zeros 8 ++ [56] ++ zeros 15 ++ [1])] eq_refl). repeat split; try assumption; try (vm_compute; reflexivity).
Qed.
Print Assumptions C19_v6_lifetimes_nested_nonvacuous.

(* ---------------------------------------------------------------- IPv6/UDP header fields *)
Theorem C19_ipv6_frame_fields : forall ovf src dst sp dp payload s16 d16 f,
  to16 src = Some s16 -> to16 dst = Some d16 -> ip_ok src -> ip_ok dst ->
  build_ipv6_udp_frame ovf src dst sp dp payload = Ok (Some f) -> frame6_fields f s16 d16 sp dp.
Proof. exact build_ipv6_udp_frame_fields. Qed.
Print Assumptions C19_ipv6_frame_fields.

(* ---------------------------------------------------------------- DHCPv6 reply of the local server, field level *)
(* plugins/dhcp6/local buildResponse (ADVERTISE / REPLY) for all resolved parameters — address, prefix (+ length),
   lifetimes, DNS list, raw options that pass config validation (raw_option6_valid = DHCPv6Option.Validate) — re-parsed
   with the model of dhcp6.ParseMessage: type, transaction id, client-id, server-id, IA_NA (IAID, T1 = pref/2,
   T2 = pref*4/5, address, lifetimes), IA_PD (IAID, T1, T2, prefix, length, lifetimes), DNS servers all come back; no
   status code *)
Theorem C19_dhcp6_reply_fields : forall ty txid client server iana pd dns extras,
  ty < 256 -> length txid = 3%nat -> blen client < 65536 -> blen server < 65536 ->
  match iana with Some (iaid, addr, pref, valid) => iaid < 4294967296 /\ pref < 4294967296 /\ valid < 4294967296 /\ length addr = 16%nat | None => True end ->
  match pd with Some (iaid, prefix, ones, pref, valid) => iaid < 4294967296 /\ pref < 4294967296 /\ valid < 4294967296 /\ length prefix = 16%nat /\ ones <= 128 | None => True end ->
  Forall (fun d => exists a, d = Some a /\ length a = 16%nat) dns -> (length dns < 4096)%nat -> Forall raw6_ok extras ->
  exists q, parse_message6 (build_response6 ty txid client server iana pd dns extras) = Some q /\
    q_type q = ty /\ q_txid q = txid /\ q_client q = Some client /\ q_server q = Some server /\
    q_iana q = match iana with Some (iaid, addr, pref, valid) => Some (ia_view iaid (pref / 2) (pref * 4 / 5) addr 0 pref valid) | None => None end /\
    q_iapd q = match pd with Some (iaid, prefix, ones, pref, valid) => Some (ia_view iaid (pref / 2) (pref * 4 / 5) prefix ones pref valid) | None => None end /\
    q_dns q = map opt_bytes dns /\ q_status q = None.
Proof. exact response6_fields. Qed.
Print Assumptions C19_dhcp6_reply_fields.

Example C19_dhcp6_reply_fields_nonvacuous :
  Forall raw6_ok [(24, [1;97;0])] /\
  exists q, parse_message6 (build_response6 7 [1;2;3] [0;1;9] [0;3;7;7] (Some (5, zeros 15 ++ [1], 100, 200))
                              (Some (6, [32;1;13;184] ++ zeros 12, 56, 100, 200)) [Some (zeros 15 ++ [53])] [(24, [1;97;0])]) = Some q /\
            q_iana q = Some (ia_view 5 50 80 (zeros 15 ++ [1]) 0 100 200) /\
            q_iapd q = Some (ia_view 6 50 80 ([32;1;13;184] ++ zeros 12) 56 100 200) /\ q_dns q = [zeros 15 ++ [53]].
Proof. split; [repeat constructor; cbn; lia|]. eexists. vm_compute. repeat split. Qed.
Print Assumptions C19_dhcp6_reply_fields_nonvacuous.

(* without config validation a raw option with a built-in code wins (ParseOptions keeps the LAST instance): the
   client-id the client reads is the raw option's.  Excluded by config.validateDHCPOptions, hence by raw6_ok. *)
Theorem C19_dhcp6_reply_unvalidated_raw_refuted :
  exists q, raw_option6_valid (1, [9;9]) = false /\
    parse_message6 (build_response6 7 [1;2;3] [0;1;9] [0;3] None None [] [(1, [9;9])]) = Some q /\ q_client q = Some [9;9].
Proof. eexists. vm_compute. repeat split. Qed.
Print Assumptions C19_dhcp6_reply_unvalidated_raw_refuted.

(* ---------------------------------------------------------------- the DHCPv4 relay pipeline, composed *)
(* client -> server (plugins/dhcp4/relay|proxy handleForward): SetGIAddr, IncrementHops, InsertOption82(replace) on one
   buffer, for every decodable client message: the options area is the old one without any option 82 plus the relay's
   option 82 (exactly once, last), END/trailer (or no END) kept; in the fixed header ONLY byte 3 (hops, +1 mod 256) and
   bytes 24..27 (giaddr) change — op, htype, hlen, xid, secs, flags, ciaddr..siaddr, chaddr, sname, file, cookie kept *)
Theorem C19_relay_forward_faithful : forall hdr its tl gi g d, length hdr = 240%nat -> Forall item_ok its -> wf_tail tl ->
  to4 gi = Some g -> (length d <= 255)%nat ->
  exists out, relay_forward4 Repaired (wf_pkt hdr its tl) gi (82 :: blen d :: d) Replace = Ok out /\
    out = wf_pkt (relay_hdr4 hdr g) (drop_code 82 its ++ [Opt 82 d]) tl /\
    ref_options out = (filter (not_code 82) (opts_of its) ++ [(82, d)], tail_end tl) /\
    firstn 4 (skipn 24 out) = g /\ nth 3 out 0 = (nth 3 hdr 0 + 1) mod 256 /\
    firstn 3 out = firstn 3 hdr /\ firstn 20 (skipn 4 out) = firstn 20 (skipn 4 hdr) /\ firstn 212 (skipn 28 out) = skipn 28 hdr.
Proof. exact relay_forward4_faithful. Qed.
Print Assumptions C19_relay_forward_faithful.

(* server -> client through the proxy: StripOption82 then RewriteForProxy: option 82 absent, 54/51/58/59 exactly once
   with the proxy's values, every other option preserved in order, header and tail untouched (the frame around it:
   C19_wrap_frame_verifies) *)
Theorem C19_proxy_back_faithful : forall hdr its tl gi g lease, length hdr = 240%nat -> Forall item_ok its -> wf_tail tl ->
  to4 gi = Some g ->
  exists r its', strip_option82 Repaired (wf_pkt hdr its tl) = Ok (wf_pkt hdr (drop_code 82 its) tl) /\
    rewrite_for_proxy Repaired (wf_pkt hdr (drop_code 82 its) tl) gi lease = Ok r /\ r = wf_pkt hdr its' tl /\ Forall item_ok its' /\
    filter (has_code 82) (opts_of its') = [] /\
    filter (has_code 54) (opts_of its') = [(54, g)] /\ filter (has_code 51) (opts_of its') = [(51, put32 lease)] /\
    filter (has_code 58) (opts_of its') = [(58, put32 (lease / 2))] /\
    filter (has_code 59) (opts_of its') = [(59, put32 (lease * 7 / 8))] /\
    filter back_other (opts_of its') = filter back_other (opts_of its).
Proof. exact proxy_back4_faithful. Qed.
Print Assumptions C19_proxy_back_faithful.

Example C19_relay_pipeline_nonvacuous :
  exists out fr, relay_forward4 Repaired (wf_pkt ex_hdr ex_two82 [255]) (Some [10;0;0;1]) [82;3;1;1;90] Replace = Ok out /\
    ref_options out = ([(53, [1]); (82, [1;1;90])], EndSeen []) /\ firstn 4 (skipn 24 out) = [10;0;0;1] /\ nth 3 out 0 = 1 /\
    proxy_reply4 Repaired false (wf_pkt ex_hdr (ex_server ++ [Opt 82 [1;1;90]]) [255]) (Some [10;0;0;1]) 3600 = Ok fr /\
    verifies (firstn 20 fr) = true /\ verifies (pseudo4 fr ++ skipn 20 fr) = true /\
    fst (ref_options (skipn 28 fr)) = [(53, [5]); (54, [10;0;0;1]); (51, [0;0;14;16]); (58, [0;0;7;8]); (59, [0;0;12;78]); (1, [255;255;255;0])].
Proof. eexists. eexists. vm_compute. repeat split. Qed.
Print Assumptions C19_relay_pipeline_nonvacuous.

(* the RFC 3396 split of HEAD through the whole resolved path: 65 DNS servers (260 bytes) come back as one value *)
Example C19_resolved_long_value_nonvacuous :
  exists f v, build_response_resolved Repaired false 0 7 None [1;2;3;4;5;6] 5 (Some [10;0;0;2]) (Some [10;0;0;1]) (Some [10;0;0;1])
                [255;255;255;0] (repeat (Some [8;8;4;4]) 65) 3600 [] [] = Ok (Some f) /\
    ref_decode4 (skipn 28 f) = Some v /\ v_end v = EndSeen [] /\ count_opt 6 (v_opts v) = 2%nat /\
    opt_value 6 (v_opts v) = concat (repeat [8;8;4;4] 65) /\ verifies (pseudo4 f ++ skipn 20 f) = true.
Proof. eexists. eexists. vm_compute. repeat split. Qed.
Print Assumptions C19_resolved_long_value_nonvacuous.

(* ================================================================ three findings of audit round 2 (fixed in 703d203, b01cb01, bd61667): repaired behaviour + historical witnesses (variant Head = the code before them) *)
(* (a) 703d203.  With the cut-off trailing option dropped first, InsertOption82(replace) works
   for EVERY client message of at least 240 bytes (bytes only; no decodability hypothesis): the result is decodable,
   carries the relay's option 82 exactly once (last), and the fixed header is untouched *)
Theorem C19_opt82_replace_any_message : forall pkt d, bytes_ok pkt -> (240 <= length pkt)%nat -> (length d <= 255)%nat ->
  exists out opts e, insert_option82 Repaired pkt (82 :: blen d :: d) Replace = Ok out /\
    firstn 240 out = firstn 240 pkt /\ ref_options out = (opts ++ [(82, d)], e) /\ e <> Truncated /\
    filter (has_code 82) opts = [].
Proof. exact opt82_replace_any_message. Qed.
Print Assumptions C19_opt82_replace_any_message.

(* before 703d203: a cut-off last option (60, declared 9 bytes, 4 present) swallows the head of the relay's option 82; what
   is forwarded decodes fine and contains NO option 82 *)
Theorem C19_opt82_truncated_swallow_refuted :
  exists pkt d out, bytes_ok pkt /\ (240 <= length pkt)%nat /\ (length d <= 255)%nat /\
    insert_option82 Head pkt (82 :: blen d :: d) Replace = Ok out /\
    snd (ref_options out) <> Truncated /\ count_opt 82 (fst (ref_options out)) = 0%nat /\
    (exists out', insert_option82 Repaired pkt (82 :: blen d :: d) Replace = Ok out' /\ count_opt 82 (fst (ref_options out')) = 1%nat).
Proof.
  exists (ex_hdr ++ [53;1;1; 60;9;49;181;69;150]), [1;1;124;2;6;175;90;68;109;227;186]. eexists.
  split; [apply Forall_forall; intros x Hx; vm_compute in Hx; unfold byte; repeat (destruct Hx as [<-|Hx]; [lia|]); contradiction|].
  split; [vm_compute; lia|]. split; [cbn; lia|]. vm_compute. split; [reflexivity|]. split; [discriminate|]. split; [reflexivity|].
  eexists. split; reflexivity.
Qed.
Print Assumptions C19_opt82_truncated_swallow_refuted.

(* (b) b01cb01.  No address-valued option (1, 3, 6, 54) of zero length in the reply,
   for all lease parameters and validated raw options *)
Theorem C19_reply_addr_options_nonempty : forall lease mask sid router dns rt routes extra o, Forall raw_ok extra ->
  In o (resolved_opts lease mask sid router dns rt routes extra) -> In (fst o) [1; 3; 6; 54] -> snd o <> [].
Proof. exact resolved_addr_options_nonempty. Qed.
Print Assumptions C19_reply_addr_options_nonempty.

(* before b01cb01: a DNS list with only an IPv6 entry, an IPv6 router and a nil mask give options 1, 3 and 6 of length 0
   (RFC 2132: minimum length 4) *)
Theorem C19_reply_zero_length_refuted :
  exists f v, build_response_resolved Head false 0 1 None [1;2;3;4;5;6] 5 (Some [10;0;0;2]) (Some (repeat 32 16)) (Some [10;0;0;1])
                [] [Some (repeat 32 16)] 3600 [] [] = Ok (Some f) /\
    ref_decode4 (skipn 28 f) = Some v /\ In (1, []) (v_opts v) /\ In (3, []) (v_opts v) /\ In (6, []) (v_opts v) /\
    (exists f' v', build_response_resolved Repaired false 0 1 None [1;2;3;4;5;6] 5 (Some [10;0;0;2]) (Some (repeat 32 16)) (Some [10;0;0;1])
                     [] [Some (repeat 32 16)] 3600 [] [] = Ok (Some f') /\ ref_decode4 (skipn 28 f') = Some v' /\
                   v_opts v' = [(53, [5]); (51, [0;0;14;16]); (54, [10;0;0;1])]).
Proof.
  eexists. eexists. vm_compute. split; [reflexivity|]. split; [reflexivity|]. repeat split; try tauto.
  eexists. eexists. repeat split.
Qed.
Print Assumptions C19_reply_zero_length_refuted.

(* (c) bd61667.  WrapIPUDP never panics and never runs out of fuel, for any addresses and any
   payload (for non-IPv4 addresses it returns no frame) *)
Theorem C19_wrap_never_crashes : forall ovf payload src dst, exists f, wrap_ip_udp Repaired ovf payload src dst = Ok f.
Proof. exact wrap_never_crashes. Qed.
Print Assumptions C19_wrap_never_crashes.

(* before bd61667: an IPv6 giaddr (accepted by net.ParseIP and by the config loader) makes the proxy's reply path panic *)
Theorem C19_wrap_ipv6_giaddr_refuted :
  proxy_reply4 Head false (wf_pkt ex_hdr ex_server [255]) (Some (repeat 32 16)) 3600 = Panic /\
  set_giaddr (wf_pkt ex_hdr ex_server [255]) (Some (repeat 32 16)) = wf_pkt ex_hdr ex_server [255].
Proof. vm_compute. split; reflexivity. Qed.
Print Assumptions C19_wrap_ipv6_giaddr_refuted.

(* ================================================================ round 4: options next to the rewritten ones *)
(* RewriteV6Lifetimes touches ONLY options with code 3 (IA_NA), 25 (IA_PD), 5 (IAADDR), 26 (IAPREFIX).  For any message
   with a well-formed option list — IA_TA (4, no T1/T2), unknown codes, payloads that merely look like an IA, IA inside IA —
   the option count is kept, every option keeps its code and length, and every option with another code is at the same
   position with exactly the same bytes. *)
Theorem C19_v6_lifetimes_other_options_identical : forall v h4 os pref valid, length h4 = 4%nat -> Forall opt6_ok os ->
  exists os', rewrite_v6_lifetimes v (h4 ++ enc6 os) pref valid = h4 ++ enc6 os' /\ length os' = length os /\
    (forall i o, nth_error os i = Some o -> lifetime_code (fst o) = false -> nth_error os' i = Some o) /\
    (forall i o o', nth_error os i = Some o -> nth_error os' i = Some o' -> fst o' = fst o /\ length (snd o') = length (snd o)).
Proof. exact v6_other_options_identical. Qed.
Print Assumptions C19_v6_lifetimes_other_options_identical.

(* in particular a message without any of those four codes comes back byte for byte *)
Theorem C19_v6_lifetimes_identity_without_lifetime_options : forall v h4 os pref valid, length h4 = 4%nat -> Forall opt6_ok os ->
  Forall (fun o => lifetime_code (fst o) = false) os ->
  rewrite_v6_lifetimes v (h4 ++ enc6 os) pref valid = h4 ++ enc6 os.
Proof. exact v6_identity_without_lifetime_options. Qed.
Print Assumptions C19_v6_lifetimes_identity_without_lifetime_options.

(* an IA_TA carrying an IAADDR (the witness of seeded change C19_r3), an option 4 with an IA_NA-shaped payload and an
   unknown code: untouched, while the IA_NA next to them is rewritten *)
Example C19_v6_ia_ta_nonvacuous :
  let addr := zeros 15 ++ [1] in
  let ta := (4, [0;0;0;7] ++ opt6 5 (addr ++ [0;0;0;3;0;0;0;4])) in
  let like := (4, [0;0;0;8; 0;0;0;1; 0;0;0;2] ++ opt6 5 (addr ++ [0;0;0;3;0;0;0;4])) in
  let na := (3, [0;0;0;9; 0;0;0;1; 0;0;0;2] ++ opt6 5 (addr ++ [0;0;0;3;0;0;0;4])) in
  rewrite_v6_lifetimes Repaired ([7;1;2;3] ++ enc6 [ta; like; (6403, zeros 30); na]) 100 200 =
  [7;1;2;3] ++ enc6 [ta; like; (6403, zeros 30); (3, [0;0;0;9; 0;0;0;50; 0;0;0;80] ++ opt6 5 (addr ++ [0;0;0;100;0;0;0;200]))].
Proof. vm_compute. reflexivity. Qed.
Print Assumptions C19_v6_ia_ta_nonvacuous.

(* ================================================================ admissible choices (neutral-change round) *)
(* The property leaves two things open, and the model takes them as parameters so that every theorem above holds for
   EVERY choice: [pad] = number of zero octets after END in a server reply (RFC 2131: octets after END are pad options;
   /repo HEAD appends none, C19_reply_decodes etc. are stated for all [pad] and show v_end = EndSeen (zeros pad));
   [ovf] = whether a frame builder refuses a payload whose lengths do not fit the 16-bit fields (the frame theorems are
   stated for all [ovf] and for the payloads that fit, where it has no influence). *)
Theorem C19_frame_oversize_may_be_refused : forall v src dst sp dp payload s4 d4, to4 src = Some s4 -> to4 dst = Some d4 ->
  65507 < blen payload -> build_ipv4_udp_frame v true src dst sp dp payload = Ok None.
Proof. exact frame_ovf_refuses. Qed.
Print Assumptions C19_frame_oversize_may_be_refused.

(* HEAD's policy (no padding) and another admissible one (pad to the 300-byte BOOTP minimum) decode to the same values *)
Example C19_reply_pad_nonvacuous :
  exists p0 p1 v0 v1,
    build_dhcp4_reply Repaired 0 7 None (Some [10;0;0;2]) (Some [10;0;0;1]) [1;2;3;4;5;6] 5 [(54, [10;0;0;1]); (51, [0;0;14;16])] = Ok p0 /\
    build_dhcp4_reply Repaired 44 7 None (Some [10;0;0;2]) (Some [10;0;0;1]) [1;2;3;4;5;6] 5 [(54, [10;0;0;1]); (51, [0;0;14;16])] = Ok p1 /\
    length p0 = 256%nat /\ length p1 = 300%nat /\ ref_decode4 p0 = Some v0 /\ ref_decode4 p1 = Some v1 /\
    v_opts v0 = v_opts v1 /\ v_xid v0 = v_xid v1 /\ v_end v0 = EndSeen [] /\ v_end v1 = EndSeen (zeros 44).
Proof. do 4 eexists. vm_compute. repeat split. Qed.
Print Assumptions C19_reply_pad_nonvacuous.

(* ================================================================ configuration -> wire (deepen round): pkg/dhcp.ResolveV4 *)
(* ResolveV4 (router / server-id / DNS / netmask / route / raw-option selection from the operator's profile and the AAA
   context) composed with the local server's reply builder.  Connected-subnet scenario, no AAA overrides, offered address
   inside a configured IPv4 pool that names its gateway: the client decodes message type, lease time (3600 when unset),
   the POOL's netmask, the server id (configured, else the router), the POOL's gateway, the profile's DNS servers, the
   pool's raw options — in this order and nothing else; the frame around it verifies. *)
Theorem C19_resolve_reply_connected : forall ovf pad xid ci hw mt addr pf p nip nmask g g4 sid s4 dl opts,
  xid < 4294967296 -> (length hw <= 16)%nat -> pf_lease pf < 4294967296 -> ip_ok ci -> bytes_ok hw -> bytes_ok addr ->
  find_pool addr (pf_pools pf) = Some p -> pl_net p = Some (nip, nmask) -> length nmask = 4%nat -> bytes_ok nmask ->
  pl_gw_set p = true -> pl_gw p = Some g -> bytes_ok g -> to4 (Some g) = Some g4 ->
  sid = first_some (pf_sid pf) (Some g) -> ip_ok sid -> to4 sid = Some s4 ->
  pf_unnumbered pf = false -> pf_dns pf = map Some dl -> Forall bytes_ok dl ->
  pl_opts p = map (fun o => (fst o, Some (snd o))) opts -> Forall raw_ok opts ->
  let cx := {| cx_addr := addr; cx_gw := None; cx_mask := None; cx_dns := [] |} in
  let lease := if pf_lease pf =? 0 then 3600 else pf_lease pf in
  let intended := [(51, put32 lease); (1, nmask); (54, s4); (3, g4)]
                  ++ (match dl with [] => [] | _ => nz 6 (dns_data (map Some dl)) end) ++ opts in
  exists payload view,
    (blen payload <= 65507 ->
       exists f, resolve_and_reply Repaired ovf pad xid ci hw mt cx pf = Ok (Some f) /\
                 frame4_ok f payload /\ frame4_fields f s4 bcast 67 68 /\ firstn 2 (skipn 26 f) <> [0; 0]) /\
    ref_decode4 payload = Some view /\ v_xid view = xid /\ v_yiaddr view = ip4_field (Some addr) /\ v_siaddr view = s4 /\
    v_chaddr view = hw ++ zeros (16 - length hw) /\ v_end view = EndSeen (zeros pad) /\
    (forall code, opt_value code (v_opts view) = concat (map snd (filter (has_code code) ((53, [mt mod 256]) :: intended)))) /\
    ((length (dns_data (map Some dl)) <= 255)%nat -> v_opts view = (53, [mt mod 256]) :: intended).
Proof. exact resolve_reply_connected. Qed.
Print Assumptions C19_resolve_reply_connected.

(* unnumbered point-to-point model: /32 netmask and an RFC 3442 default route through the pool's gateway *)
Theorem C19_resolve_reply_unnumbered : forall ovf pad xid ci hw mt addr pf p g g4 sid s4 dl opts,
  xid < 4294967296 -> (length hw <= 16)%nat -> pf_lease pf < 4294967296 -> ip_ok ci -> bytes_ok hw -> bytes_ok addr ->
  find_pool addr (pf_pools pf) = Some p -> pl_gw_set p = true -> pl_gw p = Some g -> bytes_ok g -> to4 (Some g) = Some g4 ->
  sid = first_some (pf_sid pf) (Some g) -> ip_ok sid -> to4 sid = Some s4 ->
  pf_unnumbered pf = true -> pf_dns pf = map Some dl -> Forall bytes_ok dl ->
  pl_opts p = map (fun o => (fst o, Some (snd o))) opts -> Forall raw_ok opts ->
  let cx := {| cx_addr := addr; cx_gw := None; cx_mask := None; cx_dns := [] |} in
  let lease := if pf_lease pf =? 0 then 3600 else pf_lease pf in
  let intended := [(51, put32 lease); (1, [255;255;255;255]); (54, s4); (3, g4)]
                  ++ (match dl with [] => [] | _ => nz 6 (dns_data (map Some dl)) end) ++ [(121, 0 :: g4)] ++ opts in
  ref_routes 2 (0 :: g4) = Some [(0, [], g4)] /\
  exists payload view,
    (blen payload <= 65507 ->
       exists f, resolve_and_reply Repaired ovf pad xid ci hw mt cx pf = Ok (Some f) /\
                 frame4_ok f payload /\ frame4_fields f s4 bcast 67 68 /\ firstn 2 (skipn 26 f) <> [0; 0]) /\
    ref_decode4 payload = Some view /\ v_xid view = xid /\ v_yiaddr view = ip4_field (Some addr) /\
    v_end view = EndSeen (zeros pad) /\
    ((length (dns_data (map Some dl)) <= 255)%nat -> v_opts view = (53, [mt mod 256]) :: intended).
Proof. exact resolve_reply_unnumbered. Qed.
Print Assumptions C19_resolve_reply_unnumbered.

(* a concrete profile: two pools, the second contains the address; precedence rules of ResolveV4 visible in the result *)
Example C19_resolve_nonvacuous :
  let m x := v4in6_prefix ++ x in
  let p1 := {| pl_net := Some ([192;168;1;0], [255;255;255;252]); pl_gw_set := true; pl_gw := Some (m [192;168;1;1]); pl_opts := [] |} in
  let p2 := {| pl_net := Some ([10;0;0;0], [255;255;255;0]); pl_gw_set := true; pl_gw := Some (m [10;0;0;254]);
               pl_opts := [(66, Some [116;102;116;112]); (43, None)] |} in
  let pf := {| pf_gw := Some (m [100;64;0;1]); pf_sid := None; pf_dns := [Some (m [8;8;8;8]); None; Some (m [10;0;0;1])];
               pf_unnumbered := false; pf_lease := 0; pf_pools := [p1; p2] |} in
  let cx := {| cx_addr := [10;0;0;7]; cx_gw := None; cx_mask := None; cx_dns := [] |} in
  find_pool [10;0;0;7] (pf_pools pf) = Some p2 /\
  rs_router (resolve_v4 cx pf) = Some (m [10;0;0;254]) /\ rs_sid (resolve_v4 cx pf) = Some (m [10;0;0;254]) /\
  rs_mask (resolve_v4 cx pf) = [255;255;255;0] /\ rs_lease (resolve_v4 cx pf) = 3600 /\
  exists f, resolve_and_reply Repaired false 0 7 None [1;2;3;4;5;6] 5 cx pf = Ok (Some f) /\
    bind_opt (ref_decode4 (skipn 28 f)) (fun v => Some (v_opts v)) =
      Some [(53, [5]); (51, [0;0;14;16]); (1, [255;255;255;0]); (54, [10;0;0;254]); (3, [10;0;0;254]);
            (6, [8;8;8;8;10;0;0;1]); (66, [116;102;116;112])] /\
    verifies (firstn 20 f) = true /\ verifies (pseudo4 f ++ skipn 20 f) = true /\
  exists f', resolve_and_reply Repaired false 0 7 None [1;2;3;4;5;6] 5 cx
               {| pf_gw := pf_gw pf; pf_sid := Some (m [10;9;9;9]); pf_dns := []; pf_unnumbered := true; pf_lease := 600; pf_pools := [p2] |} = Ok (Some f') /\
    bind_opt (ref_decode4 (skipn 28 f')) (fun v => Some (v_opts v)) =
      Some [(53, [5]); (51, [0;0;2;88]); (1, [255;255;255;255]); (54, [10;9;9;9]); (3, [10;0;0;254]); (121, [0;10;0;0;254]); (66, [116;102;116;112])].
Proof. cbv zeta. vm_compute. repeat split. eexists. repeat split. eexists. repeat split. Qed.
Print Assumptions C19_resolve_nonvacuous.

(* ================================================================ deepen round 2 *)
(* ---------------------------------------------------------------- DHCPv6 local server: client message + resolved lease -> ADVERTISE / REPLY *)
(* plugins/dhcp6/local HandlePacket for SOLICIT / REQUEST with a resolved lease on a fresh provider (handleSolicit ->
   handleSolicitResolved -> buildAdvertise, handleRequest -> handleRequestResolved -> buildReply): whatever the client's
   message parses to, the answer re-parses to ADVERTISE (for SOLICIT) / REPLY, the client's transaction id and DUID, the
   server DUID, an IA_NA / IA_PD exactly when the client asked for one AND the resolver supplied an address / prefix, with
   the CLIENT's IAID, the resolved address / prefix (+ length) and lifetimes, T1 = pref/2, T2 = pref*4/5; the resolved
   DNS servers; no status code *)
Theorem C19_dhcp6_server_end_to_end : forall sduid cmsg r qc duid,
  parse_message6 cmsg = Some qc -> q_client qc = Some duid -> length (q_txid qc) = 3%nat ->
  blen duid < 65536 -> blen sduid < 65536 ->
  match q_iana qc, r6_na r with Some ia, Some (a, pr, va) => p_iaid ia < 4294967296 /\ pr < 4294967296 /\ va < 4294967296 /\ length a = 16%nat | _, _ => True end ->
  match q_iapd qc, r6_pd r with Some ia, Some (ip, ones, pr, va) => p_iaid ia < 4294967296 /\ pr < 4294967296 /\ va < 4294967296 /\ length ip = 16%nat /\ ones <= 128 | _, _ => True end ->
  Forall (fun d => exists a, d = Some a /\ length a = 16%nat) (r6_dns r) -> (length (r6_dns r) < 4096)%nat -> Forall raw6_ok (r6_opts r) ->
  exists out q, handle_resolved6 sduid cmsg r = Some out /\ parse_message6 out = Some q /\
    q_type q = (if q_type qc =? 1 then 2 else 7) /\ q_txid q = q_txid qc /\ q_client q = Some duid /\ q_server q = Some sduid /\
    q_iana q = match q_iana qc, r6_na r with
               | Some ia, Some (a, pr, va) => Some (ia_view (p_iaid ia) (pr / 2) (pr * 4 / 5) a 0 pr va) | _, _ => None end /\
    q_iapd q = match q_iapd qc, r6_pd r with
               | Some ia, Some (ip, ones, pr, va) => Some (ia_view (p_iaid ia) (pr / 2) (pr * 4 / 5) ip ones pr va) | _, _ => None end /\
    q_dns q = map opt_bytes (r6_dns r) /\ q_status q = None.
Proof. exact handle_resolved6_fields. Qed.
Print Assumptions C19_dhcp6_server_end_to_end.

(* pkg/dhcp.ResolveV6: which address / prefix / lifetimes / DNS are resolved.  Lifetimes: the pool's value when > 0,
   otherwise the profile's, otherwise 3600 / 7200 (C19_resolve_v6_lifetimes) *)
Theorem C19_resolve_v6 : forall cx pf a,
  c6_addr cx = Some a ->
  exists r, resolve_v6 cx pf = Some r /\
    r6_na r = Some (a, fst (lifetimes6 pf (find_pool6 a (f6_iana pf))), snd (lifetimes6 pf (find_pool6 a (f6_iana pf)))) /\
    r6_pd r = match c6_prefix cx with
              | Some (ip, ones) => Some (ip, ones, fst (lifetimes6 pf (find_pool6 ip (f6_pd pf))), snd (lifetimes6 pf (find_pool6 ip (f6_pd pf))))
              | None => None end /\
    r6_dns r = match c6_dns cx with [] => filter (fun d : option bytes => match d with Some _ => true | None => false end) (f6_dns pf) | l => l end.
Proof. exact resolve_v6_spec. Qed.
Print Assumptions C19_resolve_v6.
Theorem C19_resolve_v6_lifetimes : forall pf pool,
  lifetimes6 pf pool =
  (match pool with Some p => if 0 <? p6_pref p then p6_pref p else dflt (f6_pref pf) 3600 | None => dflt (f6_pref pf) 3600 end,
   match pool with Some p => if 0 <? p6_valid p then p6_valid p else dflt (f6_valid pf) 7200 | None => dflt (f6_valid pf) 7200 end).
Proof. exact lifetimes6_spec. Qed.
Print Assumptions C19_resolve_v6_lifetimes.

(* profile (no lifetimes set), one IANA pool with preferred 600 and no valid time, one PD pool; a SOLICIT asking for both *)
Example C19_dhcp6_server_nonvacuous :
  let a := [32;1;13;184] ++ zeros 11 ++ [7] in
  let pfx := [32;1;13;184;0;1;0;9] ++ zeros 8 in
  let pf := {| f6_pref := 0; f6_valid := 0; f6_dns := [Some ([32;1;13;184] ++ zeros 11 ++ [83]); None];
               f6_iana := [{| p6_net := Some ([32;1;13;184] ++ zeros 12, repeat 255 8 ++ zeros 8); p6_pref := 600; p6_valid := 0;
                              p6_opts := [(24, Some [1;97;0]); (31, None)] |}];
               f6_pd := [{| p6_net := Some ([32;1;13;184;0;1] ++ zeros 10, repeat 255 6 ++ zeros 10); p6_pref := 0; p6_valid := 900; p6_opts := [] |}] |} in
  let cx := {| c6_addr := Some a; c6_prefix := Some (pfx, 64); c6_dns := [] |} in
  let cmsg := [1; 9;8;7] ++ opt6 1 [0;1;0;1] ++ opt6 3 ([0;0;0;42] ++ zeros 8) ++ opt6 25 ([0;0;0;43] ++ zeros 8) in
  exists r out q, resolve_v6 cx pf = Some r /\ handle_resolved6 [0;3;0;1] cmsg r = Some out /\ parse_message6 out = Some q /\
    q_type q = 2 /\ q_txid q = [9;8;7] /\ q_client q = Some [0;1;0;1] /\
    q_iana q = Some (ia_view 42 300 480 a 0 600 7200) /\ q_iapd q = Some (ia_view 43 1800 2880 pfx 64 3600 900) /\
    q_dns q = [[32;1;13;184] ++ zeros 11 ++ [83]].
Proof. cbv zeta. do 3 eexists. vm_compute. repeat split. Qed.
Print Assumptions C19_dhcp6_server_nonvacuous.

(* ---------------------------------------------------------------- ResolveV4: every branch *)
(* the precedence rules of ResolveV4 as equations: AAA gateway > the matching pool's gateway (no fallback when that pool
   names an unparseable one) > profile gateway; server-id = configured else router; AAA DNS > profile DNS; lease default
   3600; unnumbered-ptp: /32 and a default route iff a router exists; otherwise AAA netmask > pool netmask > none *)
Theorem C19_resolve_v4_precedence : forall cx pf,
  let r := resolve_v4 cx pf in let pool := find_pool (cx_addr cx) (pf_pools pf) in
  rs_yip r = Some (cx_addr cx) /\
  rs_router r = match cx_gw cx with
                | Some g => Some g
                | None => match pool with Some p => if pl_gw_set p then pl_gw p else pf_gw pf | None => pf_gw pf end end /\
  rs_sid r = first_some (pf_sid pf) (rs_router r) /\
  rs_dns r = match cx_dns cx with [] => filter (fun d : option bytes => match d with Some _ => true | None => false end) (pf_dns pf) | l => l end /\
  rs_lease r = (if pf_lease pf =? 0 then 3600 else pf_lease pf) /\
  (pf_unnumbered pf = true -> rs_mask r = [255;255;255;255] /\
     rs_routes r = match rs_router r with Some _ => [(0, Some (v4in6_prefix ++ [0;0;0;0]), rs_router r)] | None => [] end) /\
  (pf_unnumbered pf = false -> rs_routes r = [] /\
     rs_mask r = match cx_mask cx with
                 | Some m => m
                 | None => match pool with Some p => match pl_net p with Some n => snd n | None => [] end | None => [] end end).
Proof. exact resolve_v4_precedence. Qed.
Print Assumptions C19_resolve_v4_precedence.

(* and whichever branch was taken (AAA overrides, no pool, ...): when the resolved values are IPv4-typed the client decodes
   exactly them; together with C19_resolve_v4_precedence this is the end-to-end statement for every configuration *)
Theorem C19_resolve_reply_general : forall ovf pad xid ci hw mt cx pf s4,
  let r := resolve_v4 cx pf in
  xid < 4294967296 -> (length hw <= 16)%nat -> rs_lease r < 4294967296 -> ip_ok ci -> bytes_ok hw ->
  ip_ok (rs_yip r) -> ip_ok (rs_router r) -> ip_ok (rs_sid r) -> bytes_ok (rs_mask r) -> Forall ip_ok (rs_dns r) ->
  Forall route_ok (rs_routes r) -> Forall (fun x => ip_ok (snd (fst x)) /\ ip_ok (snd x)) (rs_routes r) -> Forall raw_ok (rs_opts r) ->
  to4 (match rs_sid r with Some _ => rs_sid r | None => rs_router r end) = Some s4 ->
  exists rt payload view,
    (blen payload <= 65507 ->
       exists f, resolve_and_reply Repaired ovf pad xid ci hw mt cx pf = Ok (Some f) /\
                 frame4_ok f payload /\ frame4_fields f s4 bcast 67 68 /\ firstn 2 (skipn 26 f) <> [0; 0]) /\
    ref_decode4 payload = Some view /\ v_xid view = xid /\ v_yiaddr view = ip4_field (rs_yip r) /\ v_siaddr view = s4 /\
    v_end view = EndSeen (zeros pad) /\
    (forall code, opt_value code (v_opts view) =
       concat (map snd (filter (has_code code) ((53, [mt mod 256]) ::
          resolved_opts (rs_lease r) (rs_mask r) (rs_sid r) (rs_router r) (rs_dns r) rt (rs_routes r) (rs_opts r))))) /\
    ((length (rs_mask r) <= 255)%nat -> (length (dns_data (rs_dns r)) <= 255)%nat -> (length rt <= 255)%nat ->
       v_opts view = (53, [mt mod 256]) :: resolved_opts (rs_lease r) (rs_mask r) (rs_sid r) (rs_router r) (rs_dns r) rt (rs_routes r) (rs_opts r)).
Proof. exact resolve_reply_general. Qed.
Print Assumptions C19_resolve_reply_general.

(* the allocation branch of ResolveV4: which free address the registry hands out is C01's business; here the model takes
   the implementation's answer and requires only that it is admissible — inside a configured pool — which is precisely the
   hypothesis [find_pool addr pools = Some p] of C19_resolve_reply_connected / _unnumbered; ResolveV4 then continues as
   with a given address (C19_resolve_v4_precedence, C19_resolve_reply_general hold for every address) *)
Theorem C19_resolve_alloc_admissible : forall addr pf, alloc_admissible addr pf = true ->
  exists p n, find_pool addr (pf_pools pf) = Some p /\ In p (pf_pools pf) /\ pl_net p = Some n /\ net_contains n addr = true.
Proof. exact alloc_admissible_pool. Qed.
Print Assumptions C19_resolve_alloc_admissible.
