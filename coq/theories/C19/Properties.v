From OV Require Import Common.Base C19.Model C19.Proofs.
Theorem C19_zeros_length : forall n, length (zeros n) = n.
Proof. exact zeros_length. Qed.
Print Assumptions C19_zeros_length.
