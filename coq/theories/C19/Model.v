(* C19/Model.v — executable model of the DHCP message builders / rewriters of osvbng.
   Transcribed from
     pkg/dhcp/udp.go, pkg/dhcp/packet.go                     (IP/UDP frames, checksums)
     pkg/dhcp/relay/option82.go, pkg/dhcp/relay/rewrite.go   (option 82, generic option rewrite, WrapIPUDP)
     plugins/dhcp4/local/provider.go                         (DHCPv4 reply builder, option writer)
     pkg/dhcp6/serialize.go, pkg/dhcp6/message.go            (DHCPv6 serializer, parser used for the round trip)
     pkg/dhcp/relay/v6relay.go, pkg/dhcp/relay/v6rewrite.go  (relay-forward / relay-reply, lifetime + DUID rewrite)
   Bytes are N (intended < 256), byte strings are lists, indices are nat.  Every Go loop is a
   fuel-bounded recursion over the *suffix* of the packet starting at the loop index i
   (rest = pkt[i:]), which is the same loop: pkt[i] = hd rest, i+1 >= len(pkt) <-> tl rest = [],
   i+2+n > len(pkt) <-> n > length (tl (tl rest)).
   [variant]: Repaired = /repo HEAD (fixes e92fcd5, de0488c, b498cfb, c73561e, 35c2549 committed); Defective = the code
   before those commits, kept only for the historical _refuted witnesses (the correspondence check uses Repaired only). *)
From OV Require Import Common.Base.
Open Scope N_scope.

Definition bytes := list N.
(* Repaired = /repo HEAD (all fixes committed); Head = the code before 703d203 / b01cb01 / bd61667; Defective = the code
   before every fix.  Head and Defective serve historical witnesses only. *)
Inductive variant := Repaired | Defective | Head.

Definition zeros (n : nat) : bytes := repeat 0 n.
Definition blen (b : bytes) : N := N.of_nat (length b).
Definition u32n (n : N) : N := n mod 4294967296.

Fixpoint bytes_eqb (a b : bytes) : bool :=
  match a, b with
  | [], [] => true
  | x :: a', y :: b' => (x =? y) && bytes_eqb a' b'
  | _, _ => false
  end.

(* ------------------------------------------------------------------ net.IP.To4 / To16 *)
Definition v4in6_prefix : bytes := [0;0;0;0;0;0;0;0;0;0;255;255].
(* an IP argument is None (Go nil) or Some bytes *)
Definition to4 (ip : option bytes) : option bytes :=
  match ip with
  | None => None
  | Some b =>
    if (length b =? 4)%nat then Some b
    else if ((length b =? 16)%nat && bytes_eqb (firstn 12 b) v4in6_prefix)%bool then Some (skipn 12 b)
    else None
  end.
Definition to16 (ip : option bytes) : option bytes :=
  match ip with
  | None => None
  | Some b =>
    if (length b =? 4)%nat then Some (v4in6_prefix ++ b)
    else if (length b =? 16)%nat then Some b
    else None
  end.
(* copy(dst[0:n], src) into a zeroed field of n bytes *)
Definition field (n : nat) (src : option bytes) : bytes :=
  match src with None => zeros n | Some b => firstn n (b ++ zeros n) end.

(* ------------------------------------------------------------------ ones-complement sums *)
(* for i := 0; i+1 < len(l); i += 2 { if i == skip {continue}; sum += l[i]<<8 | l[i+1] }
   if odd_tail && len(l)%2 == 1 { sum += l[len-1] << 8 } *)
Fixpoint sum_skip (skip : option N) (i : N) (odd_tail : bool) (l : bytes) : N :=
  match l with
  | a :: b :: r =>
    (match skip with Some k => if k =? i then 0 else a * 256 + b | None => a * 256 + b end)
    + sum_skip skip (i + 2) odd_tail r
  | [a] => if odd_tail then a * 256 else 0
  | [] => 0
  end.
Definition sum_words (l : bytes) : N := sum_skip None 0 true l.

(* for sum > 0xFFFF { sum = (sum >> 16) + (sum & 0xFFFF) }   (sum is a uint32) *)
Fixpoint fold_loop (fuel : nat) (s : N) : result N :=
  match fuel with
  | O => if s <=? 65535 then Ok s else OutOfFuel
  | S f => if s <=? 65535 then Ok s else fold_loop f (s / 65536 + s mod 65536)
  end.
Definition fold_fuel : nat := 3.
(* ^uint16(sum) after the fold; the running sum is a uint32 (wraps mod 2^32) *)
Definition csum_finish (s : N) : result N :=
  r <- fold_loop fold_fuel (u32n s) ;; Ok (65535 - r).

(* reference verification, RFC 1071: the ones-complement sum of all 16-bit words of the covered
   data (checksum field included) is 0xFFFF.  Written from the arithmetic definition
   (end-around carry = arithmetic modulo 65535), not with the fold loop above. *)
Definition ones_sum (s : N) : N := if s =? 0 then 0 else 1 + (s - 1) mod 65535.
Definition verifies (covered : bytes) : bool := ones_sum (sum_words covered) =? 65535.

(* ------------------------------------------------------------------ pkg/dhcp/udp.go *)
Definition ip4_header (total : N) (src dst : bytes) (csum : N) : bytes :=
  [69; 0] ++ put16 total ++ [0;0;0;0; 64; 17] ++ put16 csum ++ src ++ dst.
Definition udp_header (sport dport ulen csum : N) : bytes :=
  put16 sport ++ put16 dport ++ put16 ulen ++ put16 csum.

Definition udp4_csum (v : variant) (s4 d4 udp0 : bytes) : result N :=
  c <- csum_finish (sum_words s4 + sum_words d4 + 17 + blen udp0 + sum_skip (Some 6) 0 true udp0) ;;
  Ok (if c =? 0 then (match v with Defective => 0 | _ => 65535 end) else c).
Definition udp6_csum (s16 d16 udp0 : bytes) : result N :=
  c <- csum_finish (sum_words s16 + sum_words d16 + blen udp0 + 17 + sum_skip (Some 6) 0 true udp0) ;;
  Ok (if c =? 0 then 65535 else c).

(* BuildIPv4UDPFrame: None = Go returned nil *)
(* [ovf] is an admissible-choice oracle: when the lengths do not fit the 16-bit fields (no well-formed frame exists) the
   builder may either refuse (nil; ovf = true) or emit a frame with wrapped length fields (HEAD; ovf = false).  The
   property quantifies over payloads within the 16-bit length only, where [ovf] has no influence. *)
Definition build_ipv4_udp_frame (v : variant) (ovf : bool) (src dst : option bytes) (sport dport : N) (payload : bytes)
  : result (option bytes) :=
  match to4 src, to4 dst with
  | Some s4, Some d4 =>
    let ulen := 8 + blen payload in
    let total := 20 + ulen in
    if (ovf && (65535 <? total))%bool then Ok None else
    hc <- csum_finish (sum_skip (Some 10) 0 false (ip4_header total s4 d4 0)) ;;
    uc <- udp4_csum v s4 d4 (udp_header sport dport ulen 0 ++ payload) ;;
    Ok (Some (ip4_header total s4 d4 hc ++ udp_header sport dport ulen uc ++ payload))
  | _, _ => Ok None
  end.

Definition ip6_header (plen : N) (src dst : bytes) : bytes :=
  [96; 0; 0; 0] ++ put16 plen ++ [17; 64] ++ src ++ dst.
Definition build_ipv6_udp_frame (ovf : bool) (src dst : option bytes) (sport dport : N) (payload : bytes)
  : result (option bytes) :=
  match to16 src, to16 dst with
  | Some s16, Some d16 =>
    let ulen := 8 + blen payload in
    if (ovf && (65535 <? ulen))%bool then Ok None else
    uc <- udp6_csum s16 d16 (udp_header sport dport ulen 0 ++ payload) ;;
    Ok (Some (ip6_header ulen s16 d16 ++ udp_header sport dport ulen uc ++ payload))
  | _, _ => Ok None
  end.

(* ------------------------------------------------------------------ pkg/dhcp/packet.go *)
(* BuildUDPPacket: To4() results are only copied, nil copies nothing *)
Definition build_udp_packet (ovf : bool) (src dst : option bytes) (sport dport : N) (payload : bytes) : result bytes :=
  let s4 := field 4 (to4 src) in
  let d4 := field 4 (to4 dst) in
  let ulen := 8 + blen payload in
  let total := 20 + ulen in
  if (ovf && (65535 <? total))%bool then Ok [] else
  hc <- csum_finish (sum_words (ip4_header total s4 d4 0)) ;;
  let pseudo := s4 ++ d4 ++ [0; 17] ++ put16 ulen in
  c <- csum_finish (sum_words (pseudo ++ udp_header sport dport ulen 0 ++ payload)) ;;
  let uc := if c =? 0 then 65535 else c in
  Ok (ip4_header total s4 d4 hc ++ udp_header sport dport ulen uc ++ payload).

(* ------------------------------------------------------------------ relay/rewrite.go: WrapIPUDP *)
(* before bd61667 (Head, Defective): a non-IPv4 source or destination makes udpChecksum index a nil
   slice -> panic.  Repaired: WrapIPUDP returns nil (modelled as the empty byte string) like BuildIPv4UDPFrame does. *)
Definition wrap_ip_udp (v : variant) (ovf : bool) (payload : bytes) (src dst : option bytes) : result bytes :=
  let ulen := 8 + blen payload in
  let total := 20 + ulen in
  match to4 src, to4 dst with
  | Some s4, Some d4 =>
    if (ovf && (65535 <? total))%bool then Ok [] else
    hc <- csum_finish (sum_words (ip4_header total s4 d4 0)) ;;
    let udp0 := udp_header 67 68 ulen 0 ++ payload in
    c <- csum_finish (sum_words s4 + sum_words d4 + 17 + blen udp0 + sum_words udp0) ;;
    let uc := if c =? 0 then 65535 else c in
    Ok (ip4_header total s4 d4 hc ++ udp_header 67 68 ulen uc ++ payload)
  | _, _ => match v with Repaired => Ok [] | _ => Panic end
  end.

(* ------------------------------------------------------------------ relay/option82.go *)
Definition build_option82 (include_flags unicast : bool) (circuit remote : bytes) : result bytes :=
  if 255 <? blen circuit then Err 1
  else if 255 <? blen remote then Err 2
  else
    let total := 2 + blen circuit + 2 + blen remote + (if include_flags then 3 else 0) in
    if 255 <? total then Err 3
    else Ok ([82; total] ++ [1; blen circuit] ++ circuit ++ [2; blen remote] ++ remote
             ++ (if include_flags then [10; 1; if unicast then 1 else 0] else [])).

(* The option walk of InsertOption82 / StripOption82 (with the truncation check
   i+2+optLen > len(pkt)), collecting the [start,end) range of every complete option [code].
   Result: (index of END if one was reached, ranges in packet order). *)
Fixpoint scan_opts (code : N) (fuel i : nat) (rest : bytes) (acc : list (nat * nat))
  : result (option nat * list (nat * nat)) :=
  match fuel with
  | O => OutOfFuel
  | S f =>
    match rest with
    | [] => Ok (None, acc)
    | c :: r =>
      if c =? 0 then scan_opts code f (S i) r acc
      else if c =? 255 then Ok (Some i, acc)
      else match r with
           | [] => Ok (None, acc)
           | l :: r2 =>
             let n := N.to_nat l in
             if (length r2 <? n)%nat then Ok (None, acc)
             else scan_opts code f (i + 2 + n) (skipn n r2)
                            (if c =? code then acc ++ [(i, (i + 2 + n)%nat)] else acc)
           end
    end
  end.

Definition remove_range (p : bytes) (s e : nat) : bytes := firstn s p ++ skipn e p.
(* ranges are removed from the last one to the first so that earlier indices stay valid *)
Definition remove_ranges (p : bytes) (rs : list (nat * nat)) : bytes :=
  fold_right (fun r acc => remove_range acc (fst r) (snd r)) p rs.
Definition removed_total (rs : list (nat * nat)) : nat :=
  fold_right (fun r acc => (snd r - fst r + acc)%nat) O rs.
Definition last_range (rs : list (nat * nat)) : list (nat * nat) :=
  match rev rs with [] => [] | r :: _ => [r] end.
Definition first_range (rs : list (nat * nat)) : list (nat * nat) :=
  match rs with [] => [] | r :: _ => [r] end.
Definition insert_at (p : bytes) (i : nat) (x : bytes) : bytes := firstn i p ++ x ++ skipn i p.

(* where the option walk meets a cut-off option (length byte missing or value running past the end of the packet) *)
Fixpoint frag_at (fuel i : nat) (rest : bytes) : option nat :=
  match fuel with
  | O => None
  | S f =>
    match rest with
    | [] => None
    | c :: r =>
      if c =? 0 then frag_at f (S i) r
      else if c =? 255 then None
      else match r with
           | [] => Some i
           | l :: r2 => if (length r2 <? N.to_nat l)%nat then Some i
                        else frag_at f (i + 2 + N.to_nat l) (skipn (N.to_nat l) r2)
           end
    end
  end.
(* 703d203: InsertOption82 drops a cut-off trailing option before it works on the packet, so
   that the fragment's length byte cannot swallow the relay's option 82 *)
Definition cut_fragment (pkt : bytes) : bytes :=
  if (length pkt <? 240)%nat then pkt
  else match frag_at (S (length pkt)) 240 (skipn 240 pkt) with Some i => firstn i pkt | None => pkt end.

Inductive policy := Keep | Drop | Replace.

Definition opt_start : nat := 240.

(* InsertOption82.  Before e92fcd5 the code remembered only the LAST option 82 it saw (Defective); HEAD
   removes every one. *)
Definition insert_option82 (v : variant) (pkt0 opt82 : bytes) (pol : policy) : result bytes :=
  let pkt := match v with Repaired => cut_fragment pkt0 | _ => pkt0 end in
  if (length pkt <? opt_start)%nat then Ok pkt
  else
    sc <- scan_opts 82 (S (length pkt)) opt_start (skipn opt_start pkt) [] ;;
    let '(endo, rs) := sc in
    let end_idx := match endo with Some e => e | None => length pkt end in
    let sel := match v with Defective => last_range rs | _ => rs end in
    let replace :=
        let pkt' := remove_ranges pkt sel in
        insert_at pkt' (end_idx - removed_total sel) opt82 in
    match pol with
    | Keep => match rs with [] => Ok replace | _ => Ok pkt end
    | Drop => Ok (remove_ranges pkt sel)
    | Replace => Ok replace
    end.

(* StripOption82: before e92fcd5 only the FIRST option 82 was removed (Defective); HEAD removes all. *)
Definition strip_option82 (v : variant) (pkt : bytes) : result bytes :=
  if (length pkt <? opt_start)%nat then Ok pkt
  else
    sc <- scan_opts 82 (S (length pkt)) opt_start (skipn opt_start pkt) [] ;;
    let '(_, rs) := sc in
    Ok (remove_ranges pkt (match v with Defective => first_range rs | _ => rs end)).

(* ------------------------------------------------------------------ relay/rewrite.go *)
(* findOption: no truncation check; returns the offset of the first option [code] whose length
   byte exists *)
Fixpoint find_loop (code : N) (fuel i : nat) (rest : bytes) : result (option nat) :=
  match fuel with
  | O => OutOfFuel
  | S f =>
    match rest with
    | [] => Ok None
    | c :: r =>
      if c =? 0 then find_loop code f (S i) r
      else if c =? 255 then Ok None
      else match r with
           | [] => Ok None
           | l :: r2 => if c =? code then Ok (Some i)
                        else find_loop code f (i + 2 + N.to_nat l) (skipn (N.to_nat l) r2)
           end
    end
  end.
Definition find_option (pkt : bytes) (code : N) : result (option nat) :=
  if (length pkt <? opt_start)%nat then Ok None
  else find_loop code (S (length pkt)) opt_start (skipn opt_start pkt).

(* the END search of insertOption *)
Fixpoint end_loop (fuel i : nat) (rest : bytes) : result (option nat) :=
  match fuel with
  | O => OutOfFuel
  | S f =>
    match rest with
    | [] => Ok None
    | c :: r =>
      if c =? 0 then end_loop f (S i) r
      else if c =? 255 then Ok (Some i)
      else match r with
           | [] => Ok None
           | l :: r2 => end_loop f (i + 2 + N.to_nat l) (skipn (N.to_nat l) r2)
           end
    end
  end.
Definition insert_option (pkt : bytes) (code : N) (data : bytes) : result bytes :=
  eo <- (if (length pkt <? opt_start)%nat then Ok None
         else end_loop (S (length pkt)) opt_start (skipn opt_start pkt)) ;;
  let end_idx := match eo with Some e => e | None => length pkt end in
  Ok (insert_at pkt end_idx ([code; blen data mod 256] ++ data)).

Definition overwrite (pkt : bytes) (off : nat) (val : bytes) : bytes :=
  firstn off pkt ++ val ++ skipn (off + length val) pkt.

(* SetOptionUint32 / SetOptionIP with a 4-byte value *)
Definition set_option4 (v : variant) (pkt : bytes) (code : N) (val4 : bytes) : result bytes :=
  match v with
  | Defective =>
    fo <- find_option pkt code ;;
    match fo with
    | Some o =>
      if ((o + 5 <? length pkt)%nat && (nth (o + 1) pkt 0 =? 4))%bool
      then Ok (overwrite pkt (o + 2) val4)
      else insert_option pkt code val4
    | None => insert_option pkt code val4
    end
  | _ =>
    if (length pkt <? opt_start)%nat then insert_option pkt code val4
    else
      sc <- scan_opts code (S (length pkt)) opt_start (skipn opt_start pkt) [] ;;
      let '(_, rs) := sc in
      match rs with
      | [(s, e)] => if (e - s =? 6)%nat then Ok (overwrite pkt (s + 2) val4)
                    else insert_option (remove_ranges pkt rs) code val4
      | _ => insert_option (remove_ranges pkt rs) code val4
      end
  end.
Definition set_option_u32 (v : variant) (pkt : bytes) (code value : N) : result bytes :=
  set_option4 v pkt code (put32 value).
Definition set_option_ip (v : variant) (pkt : bytes) (code : N) (addr : option bytes) : result bytes :=
  match to4 addr with
  | None => Ok pkt
  | Some ip4 => set_option4 v pkt code ip4
  end.

(* GetOptionUint32 / GetOptionIP: the 4 value bytes *)
Definition get_option4 (pkt : bytes) (code : N) : result (option bytes) :=
  fo <- find_option pkt code ;;
  match fo with
  | Some o => if ((o + 5 <? length pkt)%nat && (nth (o + 1) pkt 0 =? 4))%bool
              then Ok (Some (firstn 4 (skipn (o + 2) pkt))) else Ok None
  | None => Ok None
  end.

(* RewriteForProxy; before b498cfb clientLease*7/8 was evaluated in uint32 (Defective); HEAD uses uint64 *)
Definition t2_of (v : variant) (lease : N) : N :=
  match v with Defective => u32n (lease * 7) / 8 | _ => lease * 7 / 8 end.
Definition rewrite_for_proxy (v : variant) (pkt : bytes) (server_id : option bytes) (lease : N) : result bytes :=
  p1 <- set_option_ip v pkt 54 server_id ;;
  p2 <- set_option_u32 v p1 51 lease ;;
  p3 <- set_option_u32 v p2 58 (lease / 2) ;;
  set_option_u32 v p3 59 (t2_of v lease).

Definition set_giaddr (pkt : bytes) (gi : option bytes) : bytes :=
  if (length pkt <? 28)%nat then pkt
  else match to4 gi with None => pkt | Some g => overwrite pkt 24 g end.
Definition increment_hops (pkt : bytes) : bytes :=
  if (3 <? length pkt)%nat then overwrite pkt 3 [(nth 3 pkt 0 + 1) mod 256] else pkt.

(* ------------------------------------------------------------------ the relay pipelines (plugins/dhcp4/relay, plugins/dhcp4/proxy
   provider.go handleForward): the calls they make on ONE buffer, composed *)
(* client -> server: SetGIAddr; IncrementHops; InsertOption82(BuildOption82(...), policy) *)
Definition relay_forward4 (v : variant) (pkt : bytes) (gi : option bytes) (o82 : bytes) (pol : policy) : result bytes :=
  insert_option82 v (increment_hops (set_giaddr pkt gi)) o82 pol.
(* server -> client, relay: StripOption82; source = option 54 if present else giaddr; WrapIPUDP *)
Definition relay_reply4 (v : variant) (ovf : bool) (reply : bytes) (gi : option bytes) : result bytes :=
  r <- strip_option82 v reply ;;
  sid <- get_option4 r 54 ;;
  wrap_ip_udp v ovf r (match sid with Some s => Some s | None => gi end) (Some [255;255;255;255]).
(* server -> client, proxy: StripOption82; RewriteForProxy(giaddr, lease); WrapIPUDP(giaddr) *)
Definition proxy_reply4 (v : variant) (ovf : bool) (reply : bytes) (gi : option bytes) (lease : N) : result bytes :=
  r <- strip_option82 v reply ;;
  r2 <- rewrite_for_proxy v r gi lease ;;
  wrap_ip_udp v ovf r2 gi (Some [255;255;255;255]).

(* ------------------------------------------------------------------ plugins/dhcp4/local/provider.go *)
(* optionWriter.addByte: before 35c2549 the length byte was uint8(len(data)) (Defective); HEAD: RFC 3396 split *)
Fixpoint add_opt_split (fuel : nat) (code : N) (data : bytes) : bytes :=
  match fuel with
  | O => [code; blen data mod 256] ++ data
  | S f => if (255 <? length data)%nat
           then [code; 255] ++ firstn 255 data ++ add_opt_split f code (skipn 255 data)
           else [code; blen data] ++ data
  end.
Definition add_opt (v : variant) (code : N) (data : bytes) : bytes :=
  match v with
  | Defective => [code; blen data mod 256] ++ data
  | _ => add_opt_split (length data) code data
  end.
Definition write_opts (v : variant) (opts : list (N * bytes)) : bytes :=
  concat (map (fun o => add_opt v (fst o) (snd o)) opts).

Definition magic : bytes := [99; 130; 83; 99].
(* a nil net.IP leaves the zeroed field; a non-nil one is copied through To4() *)
Definition ip4_field (ip : option bytes) : bytes := field 4 (to4 ip).

(* [pad] is an admissible-choice parameter: the number of zero octets (pad options, RFC 2131 s.4.1) the builder appends
   after END; /repo HEAD appends none. *)
Definition build_dhcp4_reply (v : variant) (pad : nat) (xid : N) (ciaddr yiaddr siaddr : option bytes) (hw : bytes)
           (msgtype : N) (opts : list (N * bytes)) : result bytes :=
  if (212 <? length hw)%nat then Panic     (* buf[28:28+len] beyond cap 240 *)
  else Ok ([2; 1; 6; 0] ++ put32 xid ++ zeros 4 ++ ip4_field ciaddr ++ ip4_field yiaddr ++ ip4_field siaddr
           ++ zeros 4 ++ firstn 208 (hw ++ zeros 208) ++ magic
           ++ add_opt v 53 [msgtype mod 256] ++ write_opts v opts ++ [255] ++ zeros pad).

(* b01cb01: the address-valued options 1, 3, 6, 54 are not written when their value is empty (non-IPv4 router /
   server-id / DNS entries, nil netmask); before it (Head, Defective) they were written with length 0 *)
Definition nz (code : N) (data : bytes) : list (N * bytes) := match data with [] => [] | _ => [(code, data)] end.
Definition addr_opt (v : variant) (code : N) (data : bytes) : list (N * bytes) :=
  match v with Repaired => nz code data | _ => [(code, data)] end.
Definition dns_data (dns : list (option bytes)) : bytes :=
  concat (map (fun d => match to4 d with Some b => b | None => [] end) dns).
Definition opt_bytes (ip : option bytes) : bytes := match ip with Some b => b | None => [] end.

(* buildResponse (pool path): returns the IPv4/UDP frame *)
Definition build_response_pool (v : variant) (ovf : bool) (pad : nat) (xid : N) (ciaddr : option bytes) (hw : bytes) (msgtype : N)
           (ip gateway : option bytes) (mask : bytes) (dns : list (option bytes)) (lease : N)
           (extra : list (N * bytes)) : result (option bytes) :=
  let gw4 := opt_bytes (to4 gateway) in
  let opts := addr_opt v 54 gw4 ++ [(51, put32 lease)] ++ addr_opt v 1 mask ++ addr_opt v 3 gw4
              ++ (match dns with [] => [] | _ => addr_opt v 6 (dns_data dns) end) ++ extra in
  payload <- build_dhcp4_reply v pad xid ciaddr ip gateway hw msgtype opts ;;
  build_ipv4_udp_frame v ovf gateway (Some [255;255;255;255]) 67 68 payload.

(* encodeClasslessRoutes; a route is (prefix length given to net.CIDRMask(ones,32), destination, next hop).
   CIDRMask returns nil for ones > 32 and Mask.Size() of nil is (0,0).  Destination.IP.To4()[:n] panics only when
   n exceeds the length of the To4 result (nil[:0] is fine). *)
Fixpoint classless (routes : list (N * option bytes * option bytes)) : result bytes :=
  match routes with
  | [] => Ok []
  | (ones0, dst, nh) :: r =>
    let ones := if ones0 <=? 32 then ones0 else 0 in
    let d4 := opt_bytes (to4 dst) in
    let sb := N.to_nat ((ones + 7) / 8) in
    if (length d4 <? sb)%nat then Panic
    else
      rest <- classless r ;;
      Ok ([ones] ++ firstn sb d4 ++ opt_bytes (to4 nh) ++ rest)
  end.

(* reference RFC 3442 decoder: (width, significant destination octets, router) *)
Fixpoint ref_routes (fuel : nat) (l : bytes) : option (list (N * bytes * bytes)) :=
  match fuel with
  | O => None
  | S f =>
    match l with
    | [] => Some []
    | w :: r =>
      if 32 <? w then None
      else
        let sb := N.to_nat ((w + 7) / 8) in
        if (length r <? sb + 4)%nat then None
        else match ref_routes f (skipn (sb + 4) r) with
             | Some rs => Some ((w, firstn sb r, firstn 4 (skipn sb r)) :: rs)
             | None => None
             end
    end
  end.

(* pkg/config/ip/dhcp_options.go DHCPOption.Validate (run by config.validateDHCPOptions at load time):
   reserved tags, the deny list of tags the server emits itself, payload <= 255 *)
Definition raw_option_valid (o : N * bytes) : bool :=
  negb (existsb (N.eqb (fst o)) [0; 255; 1; 3; 6; 51; 53; 54; 82; 121]) && (length (snd o) <=? 255)%nat.

(* buildResponseFromResolved *)
Definition build_response_resolved (v : variant) (ovf : bool) (pad : nat) (xid : N) (ciaddr : option bytes) (hw : bytes) (msgtype : N)
           (yip router server_id : option bytes) (mask : bytes) (dns : list (option bytes)) (lease : N)
           (routes : list (N * option bytes * option bytes)) (extra : list (N * bytes)) : result (option bytes) :=
  let src := match server_id with Some _ => server_id | None => router end in
  rt <- (match routes with [] => Ok [] | _ => classless routes end) ;;
  let opts := [(51, put32 lease)] ++ addr_opt v 1 mask
              ++ (match server_id with Some _ => addr_opt v 54 (opt_bytes (to4 server_id)) | None => [] end)
              ++ (match router with Some _ => addr_opt v 3 (opt_bytes (to4 router)) | None => [] end)
              ++ (match dns with [] => [] | _ => addr_opt v 6 (dns_data dns) end)
              ++ (match routes with [] => [] | _ => [(121, rt)] end)
              ++ extra in
  payload <- build_dhcp4_reply v pad xid ciaddr yip src hw msgtype opts ;;
  build_ipv4_udp_frame v ovf src (Some [255;255;255;255]) 67 68 payload.

(* ------------------------------------------------------------------ pkg/dhcp/resolve.go ResolveV4 (address already chosen) *)
(* Strings of the configuration are represented by what net.ParseIP / net.ParseCIDR / DHCPOption.Decode make of them:
   an address string is None when empty or unparseable, Some 16-byte value otherwise (ParseIP returns the 16-byte form
   also for dotted IPv4); a pool is (network ip, network mask) when its CIDR parses (4+4 bytes for IPv4, 16+16 for
   IPv6) or None; a raw option is (tag, Some payload) or (tag, None) when Decode fails. *)
Record pool4 := { pl_net : option (bytes * bytes); pl_gw_set : bool (* pool.Gateway != "" *); pl_gw : option bytes;
                  pl_opts : list (N * option bytes) }.
Record profile4 := { pf_gw : option bytes; pf_sid : option bytes; pf_dns : list (option bytes);
                     pf_unnumbered : bool (* address model "unnumbered-ptp" *); pf_lease : N (* DHCP.LeaseTime, 0 = unset *);
                     pf_pools : list pool4 }.
Record ctx4 := { cx_addr : bytes; cx_gw : option bytes; cx_mask : option bytes; cx_dns : list (option bytes) }.
Record resolved4 := { rs_yip : option bytes; rs_mask : bytes; rs_router : option bytes; rs_dns : list (option bytes);
                      rs_lease : N; rs_sid : option bytes; rs_routes : list (N * option bytes * option bytes);
                      rs_opts : list (N * bytes) }.

Fixpoint and_bytes (a m : bytes) : bytes :=
  match a, m with x :: a', y :: m' => N.land x y :: and_bytes a' m' | _, _ => [] end.
(* net.IPNet.Contains *)
Definition net_contains (n : bytes * bytes) (ip : bytes) : bool :=
  let ip' := match to4 (Some ip) with Some x => x | None => ip end in
  ((length ip' =? length (fst n))%nat && (length (snd n) =? length (fst n))%nat
   && bytes_eqb (and_bytes (fst n) (snd n)) (and_bytes ip' (snd n)))%bool.
Definition find_pool (addr : bytes) (pools : list pool4) : option pool4 :=
  find (fun p => match pl_net p with Some n => net_contains n addr | None => false end) pools.
Definition first_some {A} (a b : option A) : option A := match a with Some _ => a | None => b end.

Definition resolve_v4 (cx : ctx4) (pf : profile4) : resolved4 :=
  let pool := find_pool (cx_addr cx) (pf_pools pf) in
  let router :=
      match cx_gw cx with
      | Some g => Some g
      | None => match pool with
                | Some p => if pl_gw_set p then pl_gw p else pf_gw pf
                | None => pf_gw pf
                end
      end in
  let sid := first_some (pf_sid pf) router in
  let dns := match cx_dns cx with [] => filter (fun d => match d with Some _ => true | None => false end) (pf_dns pf) | l => l end in
  let mask_routes :=
      if pf_unnumbered pf then
        ([255;255;255;255],
         match router with Some _ => [(0, Some (v4in6_prefix ++ [0;0;0;0]), router)] | None => [] end)
      else
        (match cx_mask cx with
         | Some m => m
         | None => match pool with Some p => match pl_net p with Some n => snd n | None => [] end | None => [] end
         end, []) in
  {| rs_yip := Some (cx_addr cx); rs_mask := fst mask_routes; rs_router := router; rs_dns := dns;
     rs_lease := (if pf_lease pf =? 0 then 3600 else pf_lease pf); rs_sid := sid; rs_routes := snd mask_routes;
     rs_opts := match pool with
                | Some p => concat (map (fun o => match snd o with Some d => [(fst o, d)] | None => [] end) (pl_opts p))
                | None => [] end |}.

(* the allocation branch of ResolveV4 (ctx.IPv4Address == nil): WHICH free address the allocator registry hands out is not
   constrained by this property (C01 owns it); the model takes the implementation's choice and only requires it to be
   admissible: it lies in a configured pool of the profile.  ResolveV4 then continues exactly as with a given address. *)
Definition alloc_admissible (addr : bytes) (pf : profile4) : bool :=
  match find_pool addr (pf_pools pf) with Some _ => true | None => false end.
Definition has_usable_pool (pf : profile4) : bool :=
  existsb (fun p => match pl_net p with Some _ => true | None => false end) (pf_pools pf).

(* ResolveV4 followed by the local server's buildResponseFromResolved: configuration + AAA context -> frame on the wire *)
Definition resolve_and_reply (v : variant) (ovf : bool) (pad : nat) (xid : N) (ciaddr : option bytes) (hw : bytes) (msgtype : N)
           (cx : ctx4) (pf : profile4) : result (option bytes) :=
  let r := resolve_v4 cx pf in
  build_response_resolved v ovf pad xid ciaddr hw msgtype (rs_yip r) (rs_router r) (rs_sid r) (rs_mask r) (rs_dns r)
                          (rs_lease r) (rs_routes r) (rs_opts r).

(* ------------------------------------------------------------------ reference DHCPv4 decoder (RFC 2131/2132) *)
(* independent of the Go walkers above: plain RFC option walk over the options area *)
Inductive opt_end := EndSeen (trailing : bytes) | NoEnd | Truncated.
Fixpoint ref_walk (fuel : nat) (l : bytes) : list (N * bytes) * opt_end :=
  match fuel with
  | O => ([], Truncated)
  | S f =>
    match l with
    | [] => ([], NoEnd)
    | c :: r =>
      if c =? 0 then ref_walk f r
      else if c =? 255 then ([], EndSeen r)
      else match r with
           | [] => ([], Truncated)
           | n :: r2 =>
             if (length r2 <? N.to_nat n)%nat then ([], Truncated)
             else let '(os, e) := ref_walk f (skipn (N.to_nat n) r2) in
                  ((c, firstn (N.to_nat n) r2) :: os, e)
           end
    end
  end.
Definition ref_options (pkt : bytes) : list (N * bytes) * opt_end :=
  ref_walk (S (length pkt)) (skipn opt_start pkt).
Definition be_num (l : bytes) : N := fold_left (fun acc b => acc * 256 + b) l 0.
Record dhcp4_view := { v_op : N; v_xid : N; v_ciaddr : bytes; v_yiaddr : bytes; v_siaddr : bytes;
                       v_giaddr : bytes; v_chaddr : bytes; v_cookie_ok : bool;
                       v_opts : list (N * bytes); v_end : opt_end }.
Definition ref_decode4 (pkt : bytes) : option dhcp4_view :=
  if (length pkt <? opt_start)%nat then None
  else let '(os, e) := ref_options pkt in
       Some {| v_op := nth 0 pkt 0; v_xid := be_num (firstn 4 (skipn 4 pkt));
               v_ciaddr := firstn 4 (skipn 12 pkt); v_yiaddr := firstn 4 (skipn 16 pkt);
               v_siaddr := firstn 4 (skipn 20 pkt); v_giaddr := firstn 4 (skipn 24 pkt);
               v_chaddr := firstn 16 (skipn 28 pkt);
               v_cookie_ok := bytes_eqb (firstn 4 (skipn 236 pkt)) magic;
               v_opts := os; v_end := e |}.

(* RFC 3396: the value of an option is the concatenation of all its instances, in order *)
Definition opt_value (code : N) (os : list (N * bytes)) : bytes :=
  concat (map snd (filter (fun o => fst o =? code) os)).
Definition count_opt (code : N) (os : list (N * bytes)) : nat :=
  length (filter (fun o => fst o =? code) os).

(* ------------------------------------------------------------------ pkg/dhcp6/serialize.go *)
Definition opt6 (code : N) (data : bytes) : bytes := put16 code ++ put16 (blen data) ++ data.
Definition ip16_field (ip : option bytes) : bytes := field 16 (to16 ip).

Record iana := { na_iaid : N; na_t1 : N; na_t2 : N; na_addr : option bytes; na_pref : N; na_valid : N }.
Record iapd := { pd_iaid : N; pd_t1 : N; pd_t2 : N; pd_plen : N; pd_prefix : option bytes;
                 pd_pref : N; pd_valid : N }.
Record response6 := { r_type : N; r_txid : bytes (* 3 *); r_client : bytes; r_server : bytes;
                      r_iana : option iana; r_iapd : option iapd; r_dns : list (option bytes);
                      r_status : option (N * bytes); r_extras : list (N * bytes) }.

Definition iana_payload (o : iana) : bytes :=
  put32 (na_iaid o) ++ put32 (na_t1 o) ++ put32 (na_t2 o)
  ++ put16 5 ++ put16 24 ++ ip16_field (na_addr o) ++ put32 (na_pref o) ++ put32 (na_valid o).
Definition iapd_payload (o : iapd) : bytes :=
  put32 (pd_iaid o) ++ put32 (pd_t1 o) ++ put32 (pd_t2 o)
  ++ put16 26 ++ put16 25 ++ put32 (pd_pref o) ++ put32 (pd_valid o) ++ [pd_plen o mod 256]
  ++ ip16_field (pd_prefix o).
Definition has_addr (o : option iana) : bool :=
  match o with Some i => match na_addr i with Some _ => true | None => false end | None => false end.
Definition has_prefix (o : option iapd) : bool :=
  match o with Some i => match pd_prefix i with Some _ => true | None => false end | None => false end.

Definition serialize6 (r : response6) : bytes :=
  [r_type r mod 256] ++ firstn 3 (r_txid r ++ zeros 3)
  ++ opt6 1 (r_client r) ++ opt6 2 (r_server r)
  ++ (match r_iana r with Some i => if has_addr (r_iana r) then opt6 3 (iana_payload i) else [] | None => [] end)
  ++ (match r_iapd r with Some i => if has_prefix (r_iapd r) then opt6 25 (iapd_payload i) else [] | None => [] end)
  ++ (match r_dns r with [] => [] | _ => opt6 23 (concat (map ip16_field (r_dns r))) end)
  ++ (match r_status r with Some (c, m) => opt6 13 (put16 c ++ m) | None => [] end)
  ++ concat (map (fun e => opt6 (fst e) (snd e)) (r_extras r)).

(* ------------------------------------------------------------------ plugins/dhcp6/local/provider.go buildResponse *)
(* iana = (IAID, address, preferred, valid) when ianaAddr != nil && ianaPool != nil;
   pd = (IAID, prefix IP, ones of the prefix mask, preferred, valid); T1 = pref/2, T2 = uint32(float64(pref)*0.8)
   (= pref*4/5 for every uint32, see notes); prefix length = Mask.Size() of net.CIDRMask(ones,128) (nil, i.e. 0, above 128) *)
Definition build_response6 (ty : N) (txid client server : bytes) (iana : option (N * bytes * N * N))
           (pd : option (N * bytes * N * N * N)) (dns : list (option bytes)) (extras : list (N * bytes)) : bytes :=
  serialize6
    {| r_type := ty; r_txid := txid; r_client := client; r_server := server;
       r_iana := match iana with
                 | Some (iaid, addr, pref, valid) =>
                   Some {| na_iaid := iaid; na_t1 := pref / 2; na_t2 := pref * 4 / 5; na_addr := Some addr;
                           na_pref := pref; na_valid := valid |}
                 | None => None end;
       r_iapd := match pd with
                 | Some (iaid, prefix, ones, pref, valid) =>
                   Some {| pd_iaid := iaid; pd_t1 := pref / 2; pd_t2 := pref * 4 / 5;
                           pd_plen := (if ones <=? 128 then ones else 0); pd_prefix := Some prefix;
                           pd_pref := pref; pd_valid := valid |}
                 | None => None end;
       r_dns := dns; r_status := None; r_extras := extras |}.
(* pkg/config/ip/dhcp_options.go DHCPv6Option.Validate (config.validateDHCPOptions): code 0 and the deny list *)
Definition raw_option6_valid (o : N * bytes) : bool :=
  negb (existsb (N.eqb (fst o)) [0; 1; 2; 3; 5; 13; 23; 25; 26]) && (blen (snd o) <=? 65535).

(* ------------------------------------------------------------------ reference DHCPv6 TLV decoder (RFC 8415 s.21.1) *)
Fixpoint tlv6 (fuel : nat) (l : bytes) : list (N * bytes) :=
  match fuel with
  | O => []
  | S f =>
    match l with
    | c1 :: c2 :: l1 :: l2 :: r =>
      let n := N.to_nat (be16 l1 l2) in
      if (length r <? n)%nat then []
      else (be16 c1 c2, firstn n r) :: tlv6 f (skipn n r)
    | _ => []
    end
  end.
Definition tlv6_all (l : bytes) : list (N * bytes) := tlv6 (S (length l)) l.
(* Go's ParseOptions keeps the LAST instance of each known option *)
Definition last_opt (code : N) (os : list (N * bytes)) : option bytes :=
  match rev (filter (fun o => fst o =? code) os) with [] => None | o :: _ => Some (snd o) end.

(* pkg/dhcp6/message.go: ParseMessage / ParseOptions projected on the fields Serialize writes *)
Record parsed_ia := { p_iaid : N; p_t1 : N; p_t2 : N; p_addr : option bytes; p_plen : N; p_pref : N; p_valid : N }.
Definition parse_ia (sub_code : N) (min_len : nat) (is_pd : bool) (d : bytes) : option parsed_ia :=
  if (length d <? 12)%nat then None
  else
    let subs := tlv6_all (skipn 12 d) in
    let base := {| p_iaid := be_num (firstn 4 d); p_t1 := be_num (firstn 4 (skipn 4 d));
                   p_t2 := be_num (firstn 4 (skipn 8 d)); p_addr := None; p_plen := 0; p_pref := 0; p_valid := 0 |} in
    Some (fold_left (fun acc o =>
            if ((fst o =? sub_code) && (min_len <=? length (snd o))%nat)%bool then
              let s := snd o in
              if is_pd then
                {| p_iaid := p_iaid acc; p_t1 := p_t1 acc; p_t2 := p_t2 acc;
                   p_addr := Some (firstn 16 (skipn 9 s)); p_plen := nth 8 s 0;
                   p_pref := be_num (firstn 4 s); p_valid := be_num (firstn 4 (skipn 4 s)) |}
              else
                {| p_iaid := p_iaid acc; p_t1 := p_t1 acc; p_t2 := p_t2 acc;
                   p_addr := Some (firstn 16 s); p_plen := 0;
                   p_pref := be_num (firstn 4 (skipn 16 s)); p_valid := be_num (firstn 4 (skipn 20 s)) |}
            else acc) subs base).
Fixpoint chunks16 (fuel : nat) (d : bytes) : list bytes :=
  match fuel with
  | O => []
  | S f => if (length d <? 16)%nat then [] else firstn 16 d :: chunks16 f (skipn 16 d)
  end.
Record parsed6 := { q_type : N; q_txid : bytes; q_client : option bytes; q_server : option bytes;
                    q_iana : option parsed_ia; q_iapd : option parsed_ia; q_dns : list bytes;
                    q_status : option (N * bytes); q_ifid : option bytes; q_remote : option bytes }.
Definition bind_opt {A B} (o : option A) (f : A -> option B) : option B :=
  match o with Some a => f a | None => None end.
Definition parse_options6 (body : bytes) (ty : N) (tx : bytes) : parsed6 :=
  let os := tlv6_all body in
  {| q_type := ty; q_txid := tx;
     q_client := last_opt 1 os; q_server := last_opt 2 os;
     q_iana := bind_opt (last_opt 3 os) (parse_ia 5 24 false);
     q_iapd := bind_opt (last_opt 25 os) (parse_ia 26 25 true);
     q_dns := match last_opt 23 os with Some d => chunks16 (length d) d | None => [] end;
     q_status := (* only instances of length >= 2 assign *)
       match rev (filter (fun o => (fst o =? 13) && (2 <=? length (snd o))%nat)%bool os) with
       | [] => None | o :: _ => Some (be_num (firstn 2 (snd o)), skipn 2 (snd o)) end;
     q_ifid := last_opt 18 os;
     q_remote := match last_opt 37 os with
                 | Some d => if (4 <? length d)%nat then Some (skipn 4 d) else Some d
                 | None => None end |}.
Definition parse_message6 (data : bytes) : option parsed6 :=
  if (length data <? 4)%nat then None
  else Some (parse_options6 (skipn 4 data) (nth 0 data 0) (firstn 3 (skipn 1 data))).

(* ------------------------------------------------------------------ pkg/dhcp/resolve.go ResolveV6 (address / prefix already chosen) and
   plugins/dhcp6/local HandlePacket for SOLICIT / REQUEST with a resolved lease (handleSolicit -> handleSolicitResolved ->
   buildAdvertise; handleRequest -> handleRequestResolved -> buildReply) on a fresh provider *)
Record pool6 := { p6_net : option (bytes * bytes); p6_pref : N; p6_valid : N; p6_opts : list (N * option bytes) }.
Record profile6 := { f6_pref : N (* DHCPv6.PreferredTime, 0 = unset -> 3600 *); f6_valid : N (* 0 = unset -> 7200 *);
                     f6_dns : list (option bytes); f6_iana : list pool6; f6_pd : list pool6 }.
Record ctx6 := { c6_addr : option bytes; c6_prefix : option (bytes * N) (* prefix IP, ones of its mask *); c6_dns : list (option bytes) }.
Record resolved6 := { r6_na : option (bytes * N * N); r6_pd : option (bytes * N * N * N); r6_dns : list (option bytes);
                      r6_opts : list (N * bytes) }.
Definition dflt (x d : N) : N := if x =? 0 then d else x.
Definition find_pool6 (ip : bytes) (pools : list pool6) : option pool6 :=
  find (fun p => match p6_net p with Some n => net_contains n ip | None => false end) pools.
(* pool value if > 0, else the profile's (with its default) *)
Definition lifetimes6 (pf : profile6) (pool : option pool6) : N * N :=
  let pr := dflt (f6_pref pf) 3600 in let va := dflt (f6_valid pf) 7200 in
  match pool with
  | Some p => ((if 0 <? p6_pref p then p6_pref p else pr), (if 0 <? p6_valid p then p6_valid p else va))
  | None => (pr, va)
  end.
Definition resolve_v6 (cx : ctx6) (pf : profile6) : option resolved6 :=
  match c6_addr cx, c6_prefix cx with
  | None, None => None
  | _, _ =>
    let na := match c6_addr cx with
              | Some a => let l := lifetimes6 pf (find_pool6 a (f6_iana pf)) in Some (a, fst l, snd l)
              | None => None end in
    let opts := match c6_addr cx with
                | Some a => match find_pool6 a (f6_iana pf) with
                            | Some p => concat (map (fun o => match snd o with Some d => [(fst o, d)] | None => [] end) (p6_opts p))
                            | None => [] end
                | None => [] end in
    let pd := match c6_prefix cx with
              | Some (ip, ones) => let l := lifetimes6 pf (find_pool6 ip (f6_pd pf)) in Some (ip, ones, fst l, snd l)
              | None => None end in
    let dns := match c6_dns cx with [] => filter (fun d => match d with Some _ => true | None => false end) (f6_dns pf) | l => l end in
    Some {| r6_na := na; r6_pd := pd; r6_dns := dns; r6_opts := opts |}
  end.
(* the provider: client DUID and IAIDs are echoed from the client's message; an IA is answered only when the client asked
   for it AND the resolver supplied an address / prefix.  None = no response (no client DUID / message too short). *)
Definition handle_resolved6 (server_duid client_msg : bytes) (r : resolved6) : option bytes :=
  match parse_message6 client_msg with
  | None => None
  | Some q =>
    match q_client q with
    | None => None
    | Some duid =>
      let ty := if q_type q =? 1 then 2 else 7 in
      let na := match q_iana q, r6_na r with
                | Some ia, Some (a, pr, va) => Some (p_iaid ia, a, pr, va)
                | _, _ => None end in
      let pd := match q_iapd q, r6_pd r with
                | Some ia, Some (ip, ones, pr, va) => Some (p_iaid ia, ip, ones, pr, va)
                | _, _ => None end in
      Some (build_response6 ty (q_txid q) duid server_duid na pd (r6_dns r) (r6_opts r))
    end
  end.

(* ------------------------------------------------------------------ relay/v6relay.go *)
Record relay_params := { rp_hop : N; rp_link : option bytes; rp_peer : option bytes; rp_ifid : bytes;
                         rp_remote : bytes; rp_ent : N; rp_sub : bytes }.
Definition build_relay_forward (msg : bytes) (p : relay_params) : bytes :=
  [12; rp_hop p mod 256] ++ ip16_field (rp_link p) ++ ip16_field (rp_peer p)
  ++ (match rp_ifid p with [] => [] | d => opt6 18 d end)
  ++ (match rp_remote p with [] => [] | d => put16 37 ++ put16 (4 + blen d) ++ put32 (rp_ent p) ++ d end)
  ++ (match rp_sub p with [] => [] | d => opt6 38 d end)
  ++ opt6 9 msg.
(* BuildRelayReply (info != nil) *)
Definition build_relay_reply (inner : bytes) (hop : N) (link peer : option bytes) (ifid : bytes) : bytes :=
  [13; hop mod 256] ++ ip16_field link ++ ip16_field peer
  ++ (match ifid with [] => [] | d => opt6 18 d end)
  ++ opt6 9 inner.

(* extractRelayMessage *)
Fixpoint extract_loop (fuel : nat) (l : bytes) : option bytes :=
  match fuel with
  | O => None
  | S f =>
    match l with
    | c1 :: c2 :: l1 :: l2 :: r =>
      let n := N.to_nat (be16 l1 l2) in
      if (length r <? n)%nat then None
      else if be16 c1 c2 =? 9 then Some (firstn n r)
      else extract_loop f (skipn n r)
    | _ => None
    end
  end.
Definition extract_relay_message (pkt : bytes) : option bytes :=
  if (length pkt <? 34)%nat then None else extract_loop (S (length pkt)) (skipn 34 pkt).
(* relay.UnwrapRelayReply: Err 1 short, Err 2 not a relay-reply, Err 3 no relay-message option *)
Definition unwrap_relay_reply (pkt : bytes) : result bytes :=
  if (length pkt <? 34)%nat then Err 1
  else if negb (nth 0 pkt 0 =? 13) then Err 2
  else match extract_relay_message pkt with Some i => Ok i | None => Err 3 end.
Definition relay_txid (pkt : bytes) : option bytes :=
  match extract_relay_message pkt with
  | Some i => if (length i <? 4)%nat then None else Some (firstn 3 (skipn 1 i))
  | None => None
  end.

(* dhcp6.UnwrapRelay (message.go): returns (inner message, relay info of the innermost relay header) *)
Record relay_info := { ri_hop : N; ri_link : bytes; ri_peer : bytes; ri_ifid : option bytes;
                       ri_remote : option bytes }.
Fixpoint unwrap_relay (depth : nat) (data : bytes) : option parsed6 * option relay_info :=
  match depth with
  | O => (None, None)
  | S d =>
    if ((length data <? 34)%nat || negb (nth 0 data 0 =? 12))%bool then (None, None)
    else
      let ro := parse_options6 (skipn 34 data) 0 [] in
      let info := {| ri_hop := nth 1 data 0; ri_link := firstn 16 (skipn 2 data);
                     ri_peer := firstn 16 (skipn 18 data); ri_ifid := q_ifid ro; ri_remote := q_remote ro |} in
      match extract_loop (S (length data)) (skipn 34 data) with
      | Some inner =>
        if ((0 <? length inner)%nat && (nth 0 inner 0 =? 12))%bool then unwrap_relay d inner
        else (parse_message6 inner, Some info)
      | None => (None, Some info)
      end
  end.

(* dhcp6.UnwrapRelayReply (message.go): first Relay-Message option, recursing into nested relay-replies *)
Fixpoint unwrap_relay_reply6 (depth : nat) (data : bytes) : option parsed6 :=
  match depth with
  | O => None
  | S d =>
    if ((length data <? 34)%nat || negb (nth 0 data 0 =? 13))%bool then None
    else match extract_loop (S (length data)) (skipn 34 data) with
         | Some inner =>
           if ((0 <? length inner)%nat && (nth 0 inner 0 =? 13))%bool then unwrap_relay_reply6 d inner
           else parse_message6 inner
         | None => None
         end
  end.

(* strict 1-byte-code / 1-byte-length TLV decoder (RFC 3046 sub-options): None unless the bytes are exactly a
   sequence of complete TLVs *)
Fixpoint sub_tlv (fuel : nat) (l : bytes) : option (list (N * bytes)) :=
  match fuel with
  | O => None
  | S f =>
    match l with
    | [] => Some []
    | [_] => None
    | c :: n :: r =>
      if (length r <? N.to_nat n)%nat then None
      else match sub_tlv f (skipn (N.to_nat n) r) with
           | Some os => Some ((c, firstn (N.to_nat n) r) :: os)
           | None => None
           end
    end
  end.

(* ------------------------------------------------------------------ relay/v6rewrite.go *)
Definition pref_t1 (pref : N) : N := pref / 2.
Definition pref_t2 (v : variant) (pref : N) : N :=
  match v with Defective => u32n (pref * 4) / 5 | _ => pref * 4 / 5 end.

(* rewriteV6Options on a byte list; depth bounds the IA nesting *)
Fixpoint rewrite6 (v : variant) (depth fuel : nat) (pref valid : N) (l : bytes) : bytes :=
  match depth with
  | O => l
  | S dp =>
    (fix go (fuel : nat) (l : bytes) : bytes :=
       match fuel with
       | O => l
       | S f =>
         match l with
         | c1 :: c2 :: l1 :: l2 :: r =>
           let n := N.to_nat (be16 l1 l2) in
           if (length r <? n)%nat then l
           else
             let code := be16 c1 c2 in
             let d := firstn n r in
             let d' :=
                 if ((code =? 3) || (code =? 25))%bool then
                   if (12 <=? n)%nat then
                     firstn 4 d ++ put32 (pref_t1 pref) ++ put32 (pref_t2 v pref)
                     ++ rewrite6 v dp (length d) pref valid (skipn 12 d)
                   else d
                 else if code =? 5 then
                   if (24 <=? n)%nat then firstn 16 d ++ put32 pref ++ put32 valid ++ skipn 24 d else d
                 else if code =? 26 then
                   if (8 <=? n)%nat then put32 pref ++ put32 valid ++ skipn 8 d else d
                 else d in
             [c1; c2; l1; l2] ++ d' ++ go f (skipn n r)
         | _ => l
         end
       end) fuel l
  end.
Definition rewrite_v6_lifetimes (v : variant) (pkt : bytes) (pref valid : N) : bytes :=
  if (length pkt <? 4)%nat then pkt
  else firstn 4 pkt ++ rewrite6 v (S (length pkt)) (S (length pkt)) pref valid (skipn 4 pkt).

Fixpoint duid_loop (fuel : nat) (l : bytes) (nd : bytes) : bytes :=
  match fuel with
  | O => l
  | S f =>
    match l with
    | c1 :: c2 :: l1 :: l2 :: r =>
      let n := N.to_nat (be16 l1 l2) in
      if (length r <? n)%nat then l
      else if be16 c1 c2 =? 2 then [c1; c2] ++ put16 (blen nd) ++ nd ++ skipn n r
      else [c1; c2; l1; l2] ++ firstn n r ++ duid_loop f (skipn n r) nd
    | _ => l
    end
  end.
Definition replace_server_duid (pkt nd : bytes) : bytes :=
  if (length pkt <? 4)%nat then pkt else firstn 4 pkt ++ duid_loop (S (length pkt)) (skipn 4 pkt) nd.
Fixpoint get_duid_loop (fuel : nat) (l : bytes) : option bytes :=
  match fuel with
  | O => None
  | S f =>
    match l with
    | c1 :: c2 :: l1 :: l2 :: r =>
      let n := N.to_nat (be16 l1 l2) in
      if (length r <? n)%nat then None
      else if be16 c1 c2 =? 2 then Some (firstn n r)
      else get_duid_loop f (skipn n r)
    | _ => None
    end
  end.
Definition get_server_duid (pkt : bytes) : option bytes :=
  if (length pkt <? 4)%nat then None else get_duid_loop (S (length pkt)) (skipn 4 pkt).
