(* C19/Proofs.v — lemmas for Properties.v *)
From Coq Require Import ZifyBool ZifyNat ZifyN.
From OV Require Import Common.Base C19.Model.
Open Scope N_scope.
Ltac Zify.zify_post_hook ::= Z.div_mod_to_equations.

Definition byte (b : N) : Prop := b < 256.
Definition bytes_ok (l : bytes) : Prop := Forall byte l.
Definition ip_ok (ip : option bytes) : Prop := match ip with Some b => bytes_ok b | None => True end.

(* ================================================================== ones-complement *)
Lemma fold_loop_spec : forall s, 0 < s -> s < 4294967296 ->
  exists r, fold_loop fold_fuel s = Ok r /\ 0 < r /\ r <= 65535 /\ r mod 65535 = s mod 65535.
Proof.
  intros s Hp Hs. unfold fold_fuel. cbn [fold_loop].
  destruct (N.leb_spec s 65535) as [H1|H1]; [exists s; repeat split; lia|].
  set (s1 := s / 65536 + s mod 65536).
  assert (E1 : s1 mod 65535 = s mod 65535 /\ 0 < s1 /\ s1 <= 131070) by (subst s1; lia).
  destruct (N.leb_spec s1 65535) as [H2|H2]; [exists s1; repeat split; lia|].
  set (s2 := s1 / 65536 + s1 mod 65536).
  assert (E2 : s2 mod 65535 = s mod 65535 /\ 0 < s2 /\ s2 <= 65535) by (subst s2; lia).
  destruct (N.leb_spec s2 65535) as [H3|H3]; [exists s2; repeat split; lia|lia].
Qed.

(* a checksum c' stored for a covered sum s0 makes the RFC 1071 verification succeed; c' is the
   complement of the folded sum, or 0xFFFF / 0 when that complement is 0 *)
Lemma csum_verifies : forall s0 c c', 0 < s0 -> s0 < 4294967296 -> csum_finish s0 = Ok c ->
  (c' = c \/ (c = 0 /\ (c' = 65535 \/ c' = 0))) ->
  c <= 65535 /\ ones_sum (s0 + c') = 65535.
Proof.
  intros s0 c c' Hp Hs Hc Hc'. unfold csum_finish, u32n in Hc.
  replace (s0 mod 4294967296) with s0 in Hc by lia.
  destruct (fold_loop_spec s0 Hp Hs) as [r [Hr [R0 [R1 R2]]]]. rewrite Hr in Hc. cbn [rbind] in Hc. assert (Ec : c = 65535 - r) by congruence. clear Hc. subst c.
  split; [clear - R1; lia|]. unfold ones_sum.
  assert (Hm : (s0 + c') mod 65535 = 0 /\ 0 < s0 + c').
  { destruct Hc' as [->|[Hz [->| ->]]]; clear Hr; split; lia. }
  destruct Hm as [Hm Hq]. clear - Hm Hq.
  destruct (N.eqb_spec (s0 + c') 0) as [E|E]; [lia|]. lia.
Qed.

Lemma csum_finish_total : forall s0, 0 < s0 -> s0 < 4294967296 -> exists c, csum_finish s0 = Ok c /\ c <= 65535.
Proof.
  intros s0 Hp Hs. unfold csum_finish, u32n. replace (s0 mod 4294967296) with s0 by lia.
  destruct (fold_loop_spec s0 Hp Hs) as [r [Hr [R0 [R1 R2]]]]. rewrite Hr. cbn [rbind]. eexists; split; [reflexivity|lia].
Qed.

(* induction two bytes at a time *)
Lemma pair_ind (P : list N -> Prop) :
  P [] -> (forall a, P [a]) -> (forall a b r, P r -> P (a :: b :: r)) -> forall l, P l.
Proof.
  intros H0 H1 H2. fix IH 1. intros [|a [|b r]]; [exact H0|apply H1|apply H2, IH].
Qed.

Lemma sum_skip_none_i : forall t l i, sum_skip None i t l = sum_skip None 0 t l.
Proof.
  intros t l. induction l as [|a|a b r IH] using pair_ind; intros i; cbn [sum_skip]; try reflexivity.
  rewrite (IH (i + 2)), (IH (0 + 2)). reflexivity.
Qed.
Lemma sum_skip_past : forall k t l i, k < i -> sum_skip (Some k) i t l = sum_skip None 0 t l.
Proof.
  intros k t l. induction l as [|a|a b r IH] using pair_ind; intros i Hi; cbn [sum_skip]; try reflexivity.
  destruct (N.eqb_spec k i); [lia|]. rewrite (IH (i + 2)) by lia. rewrite (sum_skip_none_i t r (0 + 2)). reflexivity.
Qed.
Lemma sum_words_cons2 : forall a b r, sum_words (a :: b :: r) = a * 256 + b + sum_words r.
Proof. intros. unfold sum_words. cbn [sum_skip]. rewrite (sum_skip_none_i true r (0 + 2)). reflexivity. Qed.
Lemma sum_words_app : forall a b, Nat.even (length a) = true -> sum_words (a ++ b) = sum_words a + sum_words b.
Proof.
  intros a. induction a as [|x|x y r IH] using pair_ind; intros b He.
  - reflexivity.
  - discriminate.
  - cbn [app]. rewrite !sum_words_cons2, IH by exact He. lia.
Qed.
Lemma sum_words_bound : forall l, bytes_ok l -> sum_words l <= 65535 * N.of_nat ((length l + 1) / 2).
Proof.
  induction l as [|x|x y r IH] using pair_ind; intros Hb.
  - cbn. lia.
  - inversion Hb; subst. unfold byte in *. cbn. lia.
  - inversion Hb as [|? ? Hx Hb1]; subst. inversion Hb1 as [|? ? Hy Hb2]; subst. unfold byte in *.
    rewrite sum_words_cons2. specialize (IH Hb2). cbn [length].
    replace ((S (S (length r)) + 1) / 2)%nat with (S ((length r + 1) / 2)) by lia. lia.
Qed.
Lemma put16_exact : forall n, n < 65536 -> sum_words (put16 n) = n.
Proof. intros n Hn. unfold put16, byte_of, sum_words. cbn. lia. Qed.
Lemma put16_bytes : forall n, bytes_ok (put16 n).
Proof. intros n. unfold put16, byte_of, bytes_ok, byte. repeat constructor; lia. Qed.
Lemma put32_bytes : forall n, bytes_ok (put32 n).
Proof. intros n. unfold put32, byte_of, bytes_ok, byte. repeat constructor; lia. Qed.

Lemma to4_some : forall ip b, to4 ip = Some b -> ip_ok ip -> length b = 4%nat /\ bytes_ok b.
Proof.
  intros [x|] b H Hok; [|discriminate]. unfold to4 in H. cbn [ip_ok] in Hok.
  destruct (Nat.eqb_spec (length x) 4); [inversion H; subst; auto|].
  destruct (Nat.eqb_spec (length x) 16); cbn [andb] in H; [|discriminate].
  destruct (bytes_eqb _ _); [|discriminate]. assert (Eb : b = skipn 12 x) by congruence. subst b. clear H. split.
  - rewrite skipn_length. lia.
  - apply Forall_forall. intros y Hy. eapply Forall_forall; [exact Hok|]. rewrite <- (firstn_skipn 12 x). apply in_or_app. auto.
Qed.
Lemma to16_some : forall ip b, to16 ip = Some b -> ip_ok ip -> length b = 16%nat /\ bytes_ok b.
Proof.
  intros [x|] b H Hok; [|discriminate]. unfold to16 in H. cbn [ip_ok] in Hok.
  destruct (Nat.eqb_spec (length x) 4).
  - assert (Eb : b = v4in6_prefix ++ x) by congruence. subst b. clear H. split; [rewrite app_length; cbn [length v4in6_prefix]; lia|].
    apply Forall_app. split; [unfold v4in6_prefix, byte; repeat constructor; lia|exact Hok].
  - destruct (Nat.eqb_spec (length x) 16); [|discriminate]. inversion H; subst; auto.
Qed.

(* ================================================================== frames *)
Lemma sum_false_even : forall l, Nat.even (length l) = true -> sum_skip None 0 false l = sum_words l.
Proof.
  unfold sum_words. induction l as [|x|x y r IH] using pair_ind; intros He; [reflexivity|discriminate|].
  cbn [sum_skip]. rewrite (sum_skip_none_i false r (0+2)), (sum_skip_none_i true r (0+2)), IH by exact He. reflexivity.
Qed.
(* the Go loops skip the checksum word at byte offset k *)
Lemma sum_skip_split : forall pre i k w1 w2 post t, Nat.even (length pre) = true -> k = i + N.of_nat (length pre) ->
  sum_skip (Some k) i t (pre ++ w1 :: w2 :: post) = sum_words pre + sum_skip None 0 t post.
Proof.
  induction pre as [|x|x y r IH] using pair_ind; intros i k w1 w2 post t He Hk.
  - cbn [app sum_skip length] in *. replace (k =? i) with true by lia. rewrite sum_skip_past by lia. reflexivity.
  - discriminate.
  - cbn [app sum_skip]. cbn [length] in Hk. replace (k =? i) with false by lia.
    rewrite (IH (i + 2) k) by (try exact He; lia). rewrite sum_words_cons2. lia.
Qed.
Lemma field_csum : forall pre post c, Nat.even (length pre) = true -> c < 65536 ->
  sum_words (pre ++ put16 c ++ post) = sum_words pre + c + sum_words post.
Proof.
  intros. rewrite sum_words_app by assumption. rewrite (sum_words_app (put16 c)) by reflexivity.
  rewrite put16_exact by assumption. lia.
Qed.
Lemma firstn_exact {A} : forall (a b : list A) n, length a = n -> firstn n (a ++ b) = a.
Proof. intros a b n <-. rewrite firstn_app, Nat.sub_diag, firstn_all. cbn. apply app_nil_r. Qed.
Lemma skipn_exact {A} : forall (a b : list A) n, length a = n -> skipn n (a ++ b) = b.
Proof. intros a b n <-. rewrite skipn_app, Nat.sub_diag, skipn_all. reflexivity. Qed.
Lemma skipn_plus {A} : forall (a b : list A) n, skipn (length a + n) (a ++ b) = skipn n b.
Proof. intros. rewrite skipn_app. rewrite skipn_all2 by lia. replace (length a + n - length a)%nat with n by lia. reflexivity. Qed.
Lemma blen_app : forall a b, blen (a ++ b) = blen a + blen b.
Proof. intros. unfold blen. rewrite app_length. lia. Qed.
Lemma put16_length : forall n, length (put16 n) = 2%nat. Proof. reflexivity. Qed.
Lemma put32_length : forall n, length (put32 n) = 4%nat. Proof. reflexivity. Qed.
Lemma be16_put16 : forall n, n < 65536 -> be16 (nth 0 (put16 n) 0) (nth 1 (put16 n) 0) = n.
Proof. intros. unfold put16, byte_of, be16. cbn [nth]. lia. Qed.

(* what the independent verifier of the harness checks on an IPv4/UDP frame *)
Definition pseudo4 (f : bytes) : bytes := firstn 8 (skipn 12 f) ++ [0; 17] ++ firstn 2 (skipn 24 f).
Definition frame4_ok (f payload : bytes) : Prop :=
  length f = (28 + length payload)%nat /\
  firstn 2 (skipn 2 f) = put16 (blen f) /\ firstn 2 (skipn 24 f) = put16 (blen f - 20) /\
  verifies (firstn 20 f) = true /\ verifies (pseudo4 f ++ skipn 20 f) = true /\ skipn 28 f = payload.
Definition pseudo6 (f : bytes) : bytes := firstn 32 (skipn 8 f) ++ [0; 0] ++ firstn 2 (skipn 44 f) ++ [0; 0; 0; 17].
Definition frame6_ok (f payload : bytes) : Prop :=
  length f = (48 + length payload)%nat /\
  firstn 2 (skipn 4 f) = put16 (blen f - 40) /\ firstn 2 (skipn 44 f) = put16 (blen f - 40) /\
  verifies (pseudo6 f ++ skipn 40 f) = true /\ skipn 48 f = payload.

Definition ip4_pre (total : N) : bytes := [69; 0] ++ put16 total ++ [0;0;0;0; 64; 17].
Lemma ip4_header_split : forall total s d c, ip4_header total s d c = ip4_pre total ++ put16 c ++ (s ++ d).
Proof. intros. unfold ip4_header, ip4_pre. rewrite <- !app_assoc. reflexivity. Qed.
Lemma ip4_pre_props : forall total, length (ip4_pre total) = 10%nat /\ bytes_ok (ip4_pre total) /\ 0 < sum_words (ip4_pre total).
Proof.
  intros. split; [reflexivity|]. split.
  - unfold ip4_pre, put16, byte_of, bytes_ok, byte. cbn [app]. repeat constructor; lia.
  - unfold ip4_pre, put16. cbn [app]. rewrite sum_words_cons2. lia.
Qed.

(* common part: the IPv4 header built around a correct header checksum verifies *)
Lemma ip4_header_verifies : forall total s4 d4 hc hc',
  length s4 = 4%nat -> length d4 = 4%nat -> bytes_ok s4 -> bytes_ok d4 ->
  csum_finish (sum_words (ip4_header total s4 d4 0)) = Ok hc -> hc' = hc ->
  hc < 65536 /\ verifies (ip4_header total s4 d4 hc') = true.
Proof.
  intros total s4 d4 hc hc' Ls Ld Bs Bd Hc ->. destruct (ip4_pre_props total) as [Lp [Bp Pp]].
  assert (Hev : Nat.even (length (ip4_pre total)) = true) by (rewrite Lp; reflexivity).
  rewrite ip4_header_split in Hc. rewrite field_csum in Hc by (try exact Hev; lia).
  assert (Hb : sum_words (ip4_pre total) + 0 + sum_words (s4 ++ d4) < 4294967296).
  { pose proof (sum_words_bound (ip4_pre total) Bp) as B1. rewrite Lp in B1.
    assert (B2 : bytes_ok (s4 ++ d4)) by (apply Forall_app; auto).
    pose proof (sum_words_bound _ B2) as B3. rewrite app_length, Ls, Ld in B3.
    change ((10 + 1) / 2)%nat with 5%nat in B1. change ((4 + 4 + 1) / 2)%nat with 4%nat in B3. lia. }
  assert (Hpos : 0 < sum_words (ip4_pre total) + 0 + sum_words (s4 ++ d4)) by lia.
  destruct (csum_verifies _ hc hc Hpos Hb Hc (or_introl eq_refl)) as [Hle Hv].
  split; [lia|]. unfold verifies. rewrite ip4_header_split, field_csum by (try exact Hev; lia).
  replace (sum_words (ip4_pre total) + hc + sum_words (s4 ++ d4))
    with (sum_words (ip4_pre total) + 0 + sum_words (s4 ++ d4) + hc) by lia.
  rewrite Hv. reflexivity.
Qed.
Lemma ip4_header_skip : forall total s4 d4, length s4 = 4%nat -> length d4 = 4%nat ->
  sum_skip (Some 10) 0 false (ip4_header total s4 d4 0) = sum_words (ip4_header total s4 d4 0).
Proof.
  intros total s4 d4 Ls Ld. rewrite ip4_header_split. change (put16 0) with [0; 0]. cbn [app].
  rewrite sum_skip_split with (pre := ip4_pre total) by reflexivity.
  rewrite sum_false_even by (rewrite app_length, Ls, Ld; reflexivity).
  change (ip4_pre total ++ 0 :: 0 :: s4 ++ d4) with (ip4_pre total ++ put16 0 ++ (s4 ++ d4)).
  rewrite field_csum by (try reflexivity; lia). lia.
Qed.

Definition udp_pre (sp dp ulen : N) : bytes := put16 sp ++ put16 dp ++ put16 ulen.
Lemma udp_header_split : forall sp dp ulen c p, udp_header sp dp ulen c ++ p = udp_pre sp dp ulen ++ put16 c ++ p.
Proof. intros. unfold udp_header, udp_pre. rewrite <- !app_assoc. reflexivity. Qed.
Lemma udp_pre_sum : forall sp dp ulen, sp < 65536 -> dp < 65536 -> ulen < 65536 -> sum_words (udp_pre sp dp ulen) = sp + dp + ulen.
Proof.
  intros. unfold udp_pre. rewrite !sum_words_app by reflexivity. rewrite !put16_exact by assumption. lia.
Qed.
Lemma udp_seg_sum : forall sp dp ulen c p, sp < 65536 -> dp < 65536 -> ulen < 65536 -> c < 65536 ->
  sum_words (udp_header sp dp ulen c ++ p) = sp + dp + ulen + c + sum_words p.
Proof.
  intros. rewrite udp_header_split, field_csum by (try reflexivity; assumption). rewrite udp_pre_sum by assumption. lia.
Qed.
Lemma udp_seg_skip : forall sp dp ulen p, sp < 65536 -> dp < 65536 -> ulen < 65536 ->
  sum_skip (Some 6) 0 true (udp_header sp dp ulen 0 ++ p) = sp + dp + ulen + sum_words p.
Proof.
  intros. rewrite udp_header_split. change (put16 0) with [0; 0]. cbn [app].
  rewrite sum_skip_split with (pre := udp_pre sp dp ulen) by reflexivity. rewrite udp_pre_sum by assumption. reflexivity.
Qed.
Lemma payload_sum_bound : forall p, bytes_ok p -> blen p <= 65535 -> sum_words p <= 2147450880.
Proof.
  intros p Hb Hl. pose proof (sum_words_bound p Hb) as B. unfold blen in Hl. lia.
Qed.
Lemma sum4_bound : forall s, length s = 4%nat -> bytes_ok s -> sum_words s <= 131070.
Proof. intros s L B. pose proof (sum_words_bound s B) as H. rewrite L in H. change ((4 + 1) / 2)%nat with 2%nat in H. lia. Qed.
Lemma sum16_bound : forall s, length s = 16%nat -> bytes_ok s -> sum_words s <= 524280.
Proof. intros s L B. pose proof (sum_words_bound s B) as H. rewrite L in H. change ((16 + 1) / 2)%nat with 8%nat in H. lia. Qed.

Ltac cells4 s L := destruct s as [|? [|? [|? [|? [|? ?]]]]]; try (cbn in L; discriminate L).

Lemma build_ipv4_udp_frame_ok : forall v ovf src dst sp dp payload s4 d4,
  to4 src = Some s4 -> to4 dst = Some d4 -> ip_ok src -> ip_ok dst -> bytes_ok payload ->
  sp < 65536 -> dp < 65536 -> blen payload <= 65507 ->
  exists f, build_ipv4_udp_frame v ovf src dst sp dp payload = Ok (Some f) /\ frame4_ok f payload /\
            (v = Repaired -> firstn 2 (skipn 26 f) <> [0; 0]).
Proof.
  intros v ovf src dst sp dp payload s4 d4 Hs Hd Os Od Bp Hsp Hdp Hl.
  destruct (to4_some _ _ Hs Os) as [Ls Bs]. destruct (to4_some _ _ Hd Od) as [Ld Bd].
  unfold build_ipv4_udp_frame. rewrite Hs, Hd. cbn zeta.
  replace (ovf && (65535 <? 20 + (8 + blen payload)))%bool with false
    by (destruct ovf; cbn [andb]; [symmetry; apply N.ltb_ge; lia|reflexivity]).
  set (ulen := 8 + blen payload). set (total := 20 + ulen).
  assert (Hul : ulen < 65536) by (subst ulen; lia).
  rewrite ip4_header_skip by assumption.
  destruct (ip4_pre_props total) as [Lp [Bpre Pp]].
  (* header checksum exists *)
  assert (Hh : exists hc, csum_finish (sum_words (ip4_header total s4 d4 0)) = Ok hc).
  { destruct (csum_finish_total (sum_words (ip4_header total s4 d4 0))) as [c [Hc _]]; [| |eauto].
    - rewrite ip4_header_split, field_csum by (try (rewrite Lp; reflexivity); lia). lia.
    - rewrite ip4_header_split, field_csum by (try (rewrite Lp; reflexivity); lia).
      pose proof (sum_words_bound _ Bpre) as B1. rewrite Lp in B1. change ((10 + 1) / 2)%nat with 5%nat in B1.
      assert (B2 : bytes_ok (s4 ++ d4)) by (apply Forall_app; auto).
      pose proof (sum_words_bound _ B2) as B3. rewrite app_length, Ls, Ld in B3. change ((4 + 4 + 1) / 2)%nat with 4%nat in B3. lia. }
  destruct Hh as [hc Hhc]. rewrite Hhc. cbn [rbind].
  destruct (ip4_header_verifies total s4 d4 hc hc Ls Ld Bs Bd Hhc eq_refl) as [Hhc16 Hhv].
  (* UDP checksum *)
  unfold udp4_csum. rewrite udp_seg_skip by assumption.
  assert (Ebl : blen (udp_header sp dp ulen 0 ++ payload) = ulen).
  { rewrite blen_app. subst ulen. unfold blen. cbn [udp_header put16 app length]. lia. }
  rewrite Ebl.
  pose proof (payload_sum_bound payload Bp ltac:(lia)) as Bpl.
  pose proof (sum4_bound s4 Ls Bs) as B4s. pose proof (sum4_bound d4 Ld Bd) as B4d.
  set (s0 := sum_words s4 + sum_words d4 + 17 + ulen + (sp + dp + ulen + sum_words payload)).
  assert (Hs0 : 0 < s0 /\ s0 < 4294967296) by (subst s0; lia).
  destruct (csum_finish_total s0) as [uc0 [Huc0 Huc16]]; try tauto. rewrite Huc0. cbn [rbind].
  set (uc := if uc0 =? 0 then match v with Defective => 0 | _ => 65535 end else uc0).
  assert (Huc : uc < 65536 /\ (uc = uc0 \/ (uc0 = 0 /\ (uc = 65535 \/ uc = 0)))).
  { subst uc. destruct (N.eqb_spec uc0 0); [destruct v|]; split; try lia; auto. }
  destruct (csum_verifies s0 uc0 uc (proj1 Hs0) (proj2 Hs0) Huc0 (proj2 Huc)) as [_ Hv].
  eexists. split; [reflexivity|].
  cells4 s4 Ls. cells4 d4 Ld.
  unfold frame4_ok, pseudo4, ip4_header, udp_header, put16. cbn [app firstn skipn length].
  assert (Eblen : forall x, blen (69 :: 0 :: x ++ payload) = 2 + blen (x ++ payload)) by (intros; unfold blen; cbn [length]; lia).
  split.
  { split; [lia|]. split.
    { unfold blen. cbn [length]. f_equal; [|f_equal]; f_equal; subst total ulen; unfold blen; lia. }
    split.
    { unfold blen. cbn [length]. f_equal; [|f_equal]; f_equal; subst total ulen; unfold blen; lia. }
    split; [exact Hhv|]. split; [|reflexivity].
    unfold verifies.
    match goal with |- ones_sum (sum_words ?l) =? _ = true =>
      change l with (([n; n0; n1; n2] ++ [n3; n4; n5; n6]) ++ [0; 17] ++ put16 ulen ++ (udp_header sp dp ulen uc ++ payload)) end.
    rewrite sum_words_app by reflexivity. rewrite (sum_words_app [0; 17]) by reflexivity.
    rewrite (sum_words_app (put16 ulen)) by reflexivity. rewrite (sum_words_app [n; n0; n1; n2]) by reflexivity.
    rewrite put16_exact, udp_seg_sum by (try assumption; lia).
    change (sum_words [0; 17]) with 17.
    replace (sum_words [n; n0; n1; n2] + sum_words [n3; n4; n5; n6] + (17 + (ulen + (sp + dp + ulen + uc + sum_words payload))))
      with (s0 + uc) by (subst s0; lia).
    rewrite Hv. reflexivity. }
  intros ->. subst uc. unfold byte_of.
  destruct (N.eqb_spec uc0 0) as [E|E].
  - cbn. discriminate.
  - intros Hz. injection Hz as H1 H2. lia.
Qed.

Ltac cells16 s L := do 16 (destruct s as [|? s]; [cbn in L; discriminate L|]); destruct s; [|cbn in L; discriminate L].

Lemma build_ipv6_udp_frame_ok : forall ovf src dst sp dp payload s16 d16,
  to16 src = Some s16 -> to16 dst = Some d16 -> ip_ok src -> ip_ok dst -> bytes_ok payload ->
  sp < 65536 -> dp < 65536 -> blen payload <= 65527 ->
  exists f, build_ipv6_udp_frame ovf src dst sp dp payload = Ok (Some f) /\ frame6_ok f payload /\
            firstn 2 (skipn 46 f) <> [0; 0].
Proof.
  intros ovf src dst sp dp payload s16 d16 Hs Hd Os Od Bp Hsp Hdp Hl.
  destruct (to16_some _ _ Hs Os) as [Ls Bs]. destruct (to16_some _ _ Hd Od) as [Ld Bd].
  unfold build_ipv6_udp_frame. rewrite Hs, Hd. cbn zeta.
  replace (ovf && (65535 <? 8 + blen payload))%bool with false
    by (destruct ovf; cbn [andb]; [symmetry; apply N.ltb_ge; lia|reflexivity]).
  set (ulen := 8 + blen payload).
  assert (Hul : ulen < 65536) by (subst ulen; lia).
  unfold udp6_csum. rewrite udp_seg_skip by assumption.
  assert (Ebl : blen (udp_header sp dp ulen 0 ++ payload) = ulen).
  { rewrite blen_app. subst ulen. unfold blen. cbn [udp_header put16 app length]. lia. }
  rewrite Ebl.
  pose proof (payload_sum_bound payload Bp ltac:(lia)) as Bpl.
  pose proof (sum16_bound s16 Ls Bs) as B4s. pose proof (sum16_bound d16 Ld Bd) as B4d.
  set (s0 := sum_words s16 + sum_words d16 + ulen + 17 + (sp + dp + ulen + sum_words payload)).
  assert (Hs0 : 0 < s0 /\ s0 < 4294967296) by (subst s0; lia).
  destruct (csum_finish_total s0) as [uc0 [Huc0 Huc16]]; try tauto. rewrite Huc0. cbn [rbind].
  set (uc := if uc0 =? 0 then 65535 else uc0).
  assert (Huc : uc < 65536 /\ (uc = uc0 \/ (uc0 = 0 /\ (uc = 65535 \/ uc = 0)))).
  { subst uc. destruct (N.eqb_spec uc0 0); split; try lia; auto. }
  destruct (csum_verifies s0 uc0 uc (proj1 Hs0) (proj2 Hs0) Huc0 (proj2 Huc)) as [_ Hv].
  eexists. split; [reflexivity|].
  assert (Hsum : sum_words ((s16 ++ d16) ++ [0; 0] ++ put16 ulen ++ [0; 0; 0; 17] ++ (udp_header sp dp ulen uc ++ payload)) = s0 + uc).
  { rewrite sum_words_app by (rewrite app_length, Ls, Ld; reflexivity).
    rewrite (sum_words_app s16) by (rewrite Ls; reflexivity).
    rewrite (sum_words_app [0; 0]) by reflexivity. rewrite (sum_words_app (put16 ulen)) by reflexivity.
    rewrite (sum_words_app [0; 0; 0; 17]) by reflexivity.
    rewrite put16_exact, udp_seg_sum by (try assumption; lia).
    change (sum_words [0; 0]) with 0. change (sum_words [0; 0; 0; 17]) with 17. subst s0. lia. }
  cells16 s16 Ls. cells16 d16 Ld.
  unfold frame6_ok, pseudo6, ip6_header, udp_header, put16 in *. cbn [app firstn skipn length] in *.
  split.
  { split; [lia|]. split.
    { unfold blen. cbn [length]. f_equal; [|f_equal]; f_equal; subst ulen; unfold blen; lia. }
    split.
    { unfold blen. cbn [length]. f_equal; [|f_equal]; f_equal; subst ulen; unfold blen; lia. }
    split; [|reflexivity].
    unfold verifies. rewrite Hsum, Hv. reflexivity. }
  subst uc. unfold byte_of.
  destruct (N.eqb_spec uc0 0) as [E|E].
  - cbn. discriminate.
  - intros Hz. injection Hz as H1 H2. lia.
Qed.

(* ================================================================== DHCPv4 options: specification side *)
Inductive item := Pad | Opt (c : N) (d : bytes).
Definition enc_item (it : item) : bytes := match it with Pad => [0] | Opt c d => c :: blen d :: d end.
Definition enc (its : list item) : bytes := concat (map enc_item its).
Definition item_ok (it : item) : Prop :=
  match it with Pad => True | Opt c d => c <> 0 /\ c <> 255 /\ (length d <= 255)%nat end.
Fixpoint opts_of (its : list item) : list (N * bytes) :=
  match its with [] => [] | Pad :: r => opts_of r | Opt c d :: r => (c, d) :: opts_of r end.
Definition is_code (code : N) (it : item) : bool := match it with Opt c _ => c =? code | Pad => false end.
Fixpoint ranges_of (code : N) (i : nat) (its : list item) : list (nat * nat) :=
  match its with
  | [] => []
  | it :: r => (if is_code code it then [(i, (i + length (enc_item it))%nat)] else [])
               ++ ranges_of code (i + length (enc_item it)) r
  end.
Definition drop_code (code : N) (its : list item) : list item := filter (fun it => negb (is_code code it)) its.
(* a decodable options area: pads and complete options in any order, then EITHER the end of the packet (no END
   option: "missing END") OR END followed by arbitrary bytes *)
Definition wf_pkt (hdr : bytes) (its : list item) (tl : bytes) : bytes := hdr ++ enc its ++ tl.
Definition wf_tail (tl : bytes) : Prop := tl = [] \/ exists trail, tl = 255 :: trail.
Definition tail_end (tl : bytes) : opt_end := match tl with [] => NoEnd | _ :: trail => EndSeen trail end.
Definition endo_of (tl : bytes) (i : nat) : option nat := match tl with [] => None | _ => Some i end.

Lemma enc_cons : forall it r, enc (it :: r) = enc_item it ++ enc r. Proof. reflexivity. Qed.
Lemma enc_app : forall a b, enc (a ++ b) = enc a ++ enc b.
Proof. intros. unfold enc. rewrite map_app, concat_app. reflexivity. Qed.
Lemma to_nat_blen : forall d, N.to_nat (blen d) = length d. Proof. intros. unfold blen. lia. Qed.
Lemma ltb_app_false : forall (d r : bytes), (length (d ++ r) <? length d)%nat = false.
Proof. intros. rewrite app_length. apply Nat.ltb_ge. lia. Qed.

Lemma scan_opts_enc : forall code its f i tl acc, Forall item_ok its ->
  scan_opts code (length its + f) i (enc its ++ tl) acc =
  scan_opts code f (i + length (enc its)) tl (acc ++ ranges_of code i its).
Proof.
  intros code its. induction its as [|it r IH]; intros f i tl acc Hok.
  - cbn [length enc concat map app ranges_of plus]. rewrite Nat.add_0_r, app_nil_r. reflexivity.
  - inversion Hok as [|? ? Hit Hr]; subst. rewrite enc_cons, <- app_assoc. cbn [length plus].
    destruct it as [|c d].
    + cbn [enc_item app scan_opts ranges_of is_code length]. change (0 =? 0) with true. cbn iota.
      replace (i + 1)%nat with (S i) by lia. rewrite IH by assumption. f_equal; lia.
    + destruct Hit as [H0 [H255 Hlen]].
      cbn [enc_item app scan_opts ranges_of is_code length].
      destruct (N.eqb_spec c 0); [contradiction|]. destruct (N.eqb_spec c 255); [contradiction|].
      rewrite to_nat_blen, ltb_app_false, skipn_exact by reflexivity.
      replace (i + S (S (length (d ++ enc r))))%nat with ((i + 2 + length d) + length (enc r))%nat by (rewrite app_length; lia).
      replace (i + S (S (length d)))%nat with (i + 2 + length d)%nat by lia.
      rewrite IH by assumption.
      destruct (c =? code); rewrite <- ?app_assoc; reflexivity.
Qed.

Lemma find_loop_enc_absent : forall code its f i tl, Forall item_ok its -> ranges_of code i its = [] ->
  find_loop code (length its + f) i (enc its ++ tl) = find_loop code f (i + length (enc its)) tl.
Proof.
  intros code its. induction its as [|it r IH]; intros f i tl Hok Hr.
  - cbn [length enc concat map app plus]. rewrite Nat.add_0_r. reflexivity.
  - inversion Hok as [|? ? Hit Hr']; subst. rewrite enc_cons, <- app_assoc. cbn [length plus].
    destruct it as [|c d].
    + cbn [enc_item app find_loop length]. change (0 =? 0) with true. cbn iota.
      cbn [ranges_of is_code enc_item length app] in Hr. replace (i + 1)%nat with (S i) in Hr by lia.
      rewrite IH by assumption. f_equal; lia.
    + destruct Hit as [H0 [H255 Hlen]]. cbn [ranges_of is_code] in Hr.
      cbn [enc_item app find_loop length].
      destruct (N.eqb_spec c 0); [contradiction|]. destruct (N.eqb_spec c 255); [contradiction|].
      destruct (N.eqb_spec c code); [discriminate Hr|]. cbn [app] in Hr.
      rewrite to_nat_blen, skipn_exact by reflexivity.
      cbn [enc_item length] in Hr. replace (i + S (S (length d)))%nat with (i + 2 + length d)%nat in Hr by lia.
      replace (i + S (S (length (d ++ enc r))))%nat with ((i + 2 + length d) + length (enc r))%nat by (rewrite app_length; lia).
      apply IH; assumption.
Qed.

Lemma end_loop_enc : forall its f i tl, Forall item_ok its ->
  end_loop (length its + f) i (enc its ++ tl) = end_loop f (i + length (enc its)) tl.
Proof.
  induction its as [|it r IH]; intros f i tl Hok.
  - cbn [length enc concat map app plus]. rewrite Nat.add_0_r. reflexivity.
  - inversion Hok as [|? ? Hit Hr']; subst. rewrite enc_cons, <- app_assoc. cbn [length plus].
    destruct it as [|c d].
    + cbn [enc_item app end_loop length]. change (0 =? 0) with true. cbn iota. rewrite IH by assumption. f_equal; lia.
    + destruct Hit as [H0 [H255 Hlen]]. cbn [enc_item app end_loop length].
      destruct (N.eqb_spec c 0); [contradiction|]. destruct (N.eqb_spec c 255); [contradiction|].
      rewrite to_nat_blen, skipn_exact by reflexivity.
      replace (i + S (S (length (d ++ enc r))))%nat with ((i + 2 + length d) + length (enc r))%nat by (rewrite app_length; lia).
      apply IH; assumption.
Qed.

Lemma ref_walk_enc : forall its f tl, Forall item_ok its ->
  ref_walk (length its + f) (enc its ++ tl) =
  (opts_of its ++ fst (ref_walk f tl), snd (ref_walk f tl)).
Proof.
  induction its as [|it r IH]; intros f tl Hok.
  - cbn [length enc concat map app plus opts_of]. destruct (ref_walk f tl); reflexivity.
  - inversion Hok as [|? ? Hit Hr']; subst. rewrite enc_cons, <- app_assoc. cbn [length plus].
    destruct it as [|c d].
    + cbn [enc_item app ref_walk opts_of]. change (0 =? 0) with true. cbn iota. apply IH; assumption.
    + destruct Hit as [H0 [H255 Hlen]]. cbn [enc_item app ref_walk opts_of].
      destruct (N.eqb_spec c 0); [contradiction|]. destruct (N.eqb_spec c 255); [contradiction|].
      rewrite to_nat_blen, ltb_app_false, skipn_exact, firstn_exact by reflexivity.
      rewrite IH by assumption. reflexivity.
Qed.

Lemma enc_item_length_pos : forall it, (1 <= length (enc_item it))%nat.
Proof. destruct it; cbn [enc_item length]; lia. Qed.
Lemma enc_length_ge : forall its, (length its <= length (enc its))%nat.
Proof.
  induction its as [|it r IH]; [cbn; lia|]. rewrite enc_cons, app_length. cbn [length].
  pose proof (enc_item_length_pos it). lia.
Qed.

Lemma remove_ranges_enc : forall code its pre rest,
  remove_ranges (pre ++ enc its ++ rest) (ranges_of code (length pre) its) = pre ++ enc (drop_code code its) ++ rest.
Proof.
  intros code its. induction its as [|it r IH]; intros pre rest; [reflexivity|].
  cbn [ranges_of]. rewrite enc_cons.
  assert (E : pre ++ (enc_item it ++ enc r) ++ rest = (pre ++ enc_item it) ++ enc r ++ rest) by (rewrite <- !app_assoc; reflexivity).
  specialize (IH (pre ++ enc_item it) rest). rewrite app_length in IH.
  unfold drop_code. cbn [filter]. fold (drop_code code r).
  destruct (is_code code it); cbn [negb app].
  - unfold remove_ranges in *. cbn [fold_right fst snd]. rewrite E, IH. unfold remove_range.
    rewrite <- !app_assoc. rewrite firstn_exact by reflexivity.
    rewrite (app_assoc pre (enc_item it)). rewrite skipn_exact by (rewrite app_length; reflexivity). reflexivity.
  - rewrite E, IH, enc_cons, <- !app_assoc. reflexivity.
Qed.
Lemma removed_total_enc : forall code its i,
  (removed_total (ranges_of code i its) + length (enc (drop_code code its)) = length (enc its))%nat.
Proof.
  intros code its. induction its as [|it r IH]; intros i; [reflexivity|].
  cbn [ranges_of]. unfold drop_code. cbn [filter]. fold (drop_code code r). rewrite enc_cons, app_length.
  specialize (IH (i + length (enc_item it))%nat).
  destruct (is_code code it); cbn [negb app].
  - unfold removed_total in *. cbn [fold_right fst snd]. lia.
  - rewrite enc_cons, app_length. lia.
Qed.
Lemma ranges_nil_iff : forall code its i, ranges_of code i its = [] <-> existsb (is_code code) its = false.
Proof.
  intros code its. induction its as [|it r IH]; intros i; [cbn; tauto|].
  cbn [ranges_of existsb]. destruct (is_code code it); cbn [app orb].
  - split; discriminate.
  - apply IH.
Qed.
Lemma drop_code_absent : forall code its, existsb (is_code code) its = false -> drop_code code its = its.
Proof.
  intros code its. induction its as [|it r IH]; intros H; [reflexivity|].
  cbn [existsb] in H. apply orb_false_iff in H. destruct H as [H1 H2].
  unfold drop_code. cbn [filter]. rewrite H1. cbn [negb]. fold (drop_code code r). rewrite IH by assumption. reflexivity.
Qed.
Lemma drop_code_ok : forall code its, Forall item_ok its -> Forall item_ok (drop_code code its).
Proof. intros. unfold drop_code. apply Forall_forall. intros x Hx. apply filter_In in Hx. eapply Forall_forall; [eassumption|tauto]. Qed.
Lemma opts_of_drop : forall code its,
  opts_of (drop_code code its) = filter (fun o => negb (fst o =? code)) (opts_of its).
Proof.
  intros code its. induction its as [|[|c d] r IH]; [reflexivity| |].
  - unfold drop_code. cbn [filter is_code negb opts_of]. exact IH.
  - unfold drop_code. cbn [filter is_code opts_of fst]. fold (drop_code code r).
    destruct (c =? code); cbn [negb opts_of]; rewrite IH; reflexivity.
Qed.
Lemma opts_of_app : forall a b, opts_of (a ++ b) = opts_of a ++ opts_of b.
Proof. induction a as [|[|c d] r IH]; intros b; cbn [app opts_of]; rewrite ?IH; reflexivity. Qed.

Lemma scan_wf : forall code hdr its tl, length hdr = 240%nat -> Forall item_ok its -> wf_tail tl ->
  scan_opts code (S (length (wf_pkt hdr its tl))) opt_start (skipn opt_start (wf_pkt hdr its tl)) [] =
  Ok (endo_of tl (240 + length (enc its))%nat, ranges_of code 240 its).
Proof.
  intros code hdr its tl Lh Hok Htl. unfold wf_pkt, opt_start. rewrite skipn_exact by assumption.
  pose proof (enc_length_ge its) as Hge.
  set (P := hdr ++ enc its ++ tl).
  replace (S (length P)) with (length its + S (length P - length its))%nat
    by (subst P; rewrite !app_length; lia).
  rewrite scan_opts_enc by assumption. destruct Htl as [->|[trail ->]]; cbn [scan_opts app endo_of]; reflexivity.
Qed.
Lemma end_idx_eq : forall hdr its tl, length hdr = 240%nat -> wf_tail tl ->
  match endo_of tl (240 + length (enc its))%nat with Some e => e | None => length (wf_pkt hdr its tl) end
  = (240 + length (enc its))%nat.
Proof.
  intros hdr its tl Lh [->|[trail ->]]; cbn [endo_of]; [|reflexivity]. unfold wf_pkt. rewrite !app_length, Lh. cbn [length]. lia.
Qed.
Lemma wf_pkt_len : forall hdr its tl, length hdr = 240%nat -> (length (wf_pkt hdr its tl) <? opt_start)%nat = false.
Proof. intros. unfold wf_pkt, opt_start. rewrite app_length. apply Nat.ltb_ge. lia. Qed.

Lemma frag_at_enc : forall its f i tl, Forall item_ok its ->
  frag_at (length its + f) i (enc its ++ tl) = frag_at f (i + length (enc its)) tl.
Proof.
  induction its as [|it r IH]; intros f i tl Hok.
  - cbn [length enc concat map app plus]. rewrite Nat.add_0_r. reflexivity.
  - inversion Hok as [|? ? Hit Hr']; subst. rewrite enc_cons, <- app_assoc. cbn [length plus].
    destruct it as [|c d].
    + cbn [enc_item app frag_at length]. change (0 =? 0) with true. cbn iota. rewrite IH by assumption. f_equal; lia.
    + destruct Hit as [H0 [H255 Hlen]]. cbn [enc_item app frag_at length].
      destruct (N.eqb_spec c 0); [contradiction|]. destruct (N.eqb_spec c 255); [contradiction|].
      rewrite to_nat_blen, ltb_app_false, skipn_exact by reflexivity.
      replace (i + S (S (length (d ++ enc r))))%nat with ((i + 2 + length d) + length (enc r))%nat by (rewrite app_length; lia).
      apply IH; assumption.
Qed.
Lemma cut_fragment_wf : forall hdr its tl, length hdr = 240%nat -> Forall item_ok its -> wf_tail tl ->
  cut_fragment (wf_pkt hdr its tl) = wf_pkt hdr its tl.
Proof.
  intros hdr its tl Lh Hok Htl. unfold cut_fragment.
  assert (Hl : (length (wf_pkt hdr its tl) <? 240)%nat = false) by (apply (wf_pkt_len hdr its tl Lh)).
  rewrite Hl. unfold wf_pkt at 2. rewrite skipn_exact by assumption.
  pose proof (enc_length_ge its) as Hge.
  set (P := wf_pkt hdr its tl).
  replace (S (length P)) with (length its + S (length P - length its))%nat by (subst P; unfold wf_pkt; rewrite !app_length; lia).
  rewrite frag_at_enc by assumption. destruct Htl as [->|[trail ->]]; reflexivity.
Qed.

Definition replaced82 (hdr : bytes) (its : list item) (o82 tl : bytes) : bytes :=
  hdr ++ enc (drop_code 82 its) ++ o82 ++ tl.

Lemma insert_option82_repaired : forall hdr its tl o82 pol, length hdr = 240%nat -> Forall item_ok its -> wf_tail tl ->
  insert_option82 Repaired (wf_pkt hdr its tl) o82 pol =
  Ok (match pol with
      | Replace => replaced82 hdr its o82 tl
      | Drop => wf_pkt hdr (drop_code 82 its) tl
      | Keep => if existsb (is_code 82) its then wf_pkt hdr its tl else replaced82 hdr its o82 tl
      end).
Proof.
  intros hdr its tl o82 pol Lh Hok Htl. unfold insert_option82. rewrite cut_fragment_wf by assumption. cbn zeta.
  rewrite wf_pkt_len, scan_wf by assumption. cbn [rbind]. rewrite end_idx_eq by assumption.
  assert (Erm : remove_ranges (wf_pkt hdr its tl) (ranges_of 82 240 its) = wf_pkt hdr (drop_code 82 its) tl).
  { unfold wf_pkt. rewrite <- Lh. apply remove_ranges_enc. }
  assert (Erep : insert_at (remove_ranges (wf_pkt hdr its tl) (ranges_of 82 240 its))
                           (240 + length (enc its) - removed_total (ranges_of 82 240 its)) o82 = replaced82 hdr its o82 tl).
  { rewrite Erm. pose proof (removed_total_enc 82 its 240) as Hrt.
    replace (240 + length (enc its) - removed_total (ranges_of 82 240 its))%nat with (length (hdr ++ enc (drop_code 82 its)))
      by (rewrite app_length; lia).
    unfold insert_at, wf_pkt, replaced82.
    replace (hdr ++ enc (drop_code 82 its) ++ tl) with ((hdr ++ enc (drop_code 82 its)) ++ tl)
      by (rewrite <- app_assoc; reflexivity).
    rewrite firstn_exact, skipn_exact by reflexivity.
    rewrite <- !app_assoc. reflexivity. }
  destruct pol.
  - destruct (ranges_of 82 240 its) eqn:Er.
    + pose proof (proj1 (ranges_nil_iff 82 its 240) Er) as Ee. rewrite Ee. try rewrite Er in Erep. rewrite Erep. reflexivity.
    + assert (Hex : existsb (is_code 82) its = true).
      { destruct (existsb (is_code 82) its) eqn:E; [reflexivity|]. apply (ranges_nil_iff 82 its 240) in E. congruence. }
      rewrite Hex. reflexivity.
  - rewrite Erm. reflexivity.
  - rewrite Erep. reflexivity.
Qed.

Lemma strip_option82_repaired : forall hdr its tl, length hdr = 240%nat -> Forall item_ok its -> wf_tail tl ->
  strip_option82 Repaired (wf_pkt hdr its tl) = Ok (wf_pkt hdr (drop_code 82 its) tl).
Proof.
  intros hdr its tl Lh Hok Htl. unfold strip_option82. rewrite wf_pkt_len, scan_wf by assumption. cbn [rbind].
  unfold wf_pkt. rewrite <- Lh. rewrite remove_ranges_enc. reflexivity.
Qed.

(* decoding a well-formed packet with the reference decoder *)
Lemma ref_options_wf : forall hdr its tl, length hdr = 240%nat -> Forall item_ok its -> wf_tail tl ->
  ref_options (wf_pkt hdr its tl) = (opts_of its, tail_end tl).
Proof.
  intros hdr its tl Lh Hok Htl. unfold ref_options, wf_pkt, opt_start. rewrite skipn_exact by assumption.
  pose proof (enc_length_ge its) as Hge.
  set (P := hdr ++ enc its ++ tl).
  replace (S (length P)) with (length its + S (length P - length its))%nat
    by (subst P; rewrite !app_length; lia).
  rewrite ref_walk_enc by assumption. destruct Htl as [->|[trail ->]]; cbn [ref_walk fst snd tail_end].
  - rewrite app_nil_r. reflexivity.
  - change (255 =? 0) with false. change (255 =? 255) with true. cbn iota. cbn [fst snd]. rewrite app_nil_r. reflexivity.
Qed.

Definition not_code (code : N) (o : N * bytes) : bool := negb (fst o =? code).

Lemma opt82_replace_faithful : forall hdr its tl d, length hdr = 240%nat -> Forall item_ok its -> wf_tail tl -> (length d <= 255)%nat ->
  exists out, insert_option82 Repaired (wf_pkt hdr its tl) (82 :: blen d :: d) Replace = Ok out /\
    firstn 240 out = hdr /\
    ref_options out = (filter (not_code 82) (opts_of its) ++ [(82, d)], tail_end tl).
Proof.
  intros hdr its tl d Lh Hok Htl Hd. rewrite insert_option82_repaired by assumption. eexists. split; [reflexivity|].
  unfold replaced82. split; [apply firstn_exact; assumption|].
  replace (82 :: blen d :: d) with (enc [Opt 82 d]) by (unfold enc; cbn [map concat enc_item]; apply app_nil_r).
  replace (hdr ++ enc (drop_code 82 its) ++ enc [Opt 82 d] ++ tl) with (wf_pkt hdr (drop_code 82 its ++ [Opt 82 d]) tl)
    by (unfold wf_pkt; rewrite enc_app, <- !app_assoc; reflexivity).
  rewrite ref_options_wf; [|assumption| |assumption].
  - rewrite opts_of_app, opts_of_drop. reflexivity.
  - apply Forall_app. split; [apply drop_code_ok; assumption|]. constructor; [|constructor]. cbn [item_ok]. repeat split; [lia|lia|exact Hd].
Qed.

(* ================================================================== SetOption / RewriteForProxy *)
Definition has_code (code : N) (o : N * bytes) : bool := fst o =? code.

Lemma insert_option_wf : forall hdr its tl code data, length hdr = 240%nat -> Forall item_ok its -> wf_tail tl ->
  insert_option (wf_pkt hdr its tl) code data = Ok (hdr ++ enc its ++ (code :: blen data mod 256 :: data) ++ tl).
Proof.
  intros hdr its tl code data Lh Hok Htl. unfold insert_option. rewrite wf_pkt_len by assumption.
  unfold wf_pkt, opt_start. rewrite skipn_exact by assumption.
  pose proof (enc_length_ge its) as Hge.
  set (P := hdr ++ enc its ++ tl).
  replace (S (length P)) with (length its + S (length P - length its))%nat by (subst P; rewrite !app_length; lia).
  rewrite end_loop_enc by assumption.
  assert (Ee : end_loop (S (length P - length its)) (opt_start + length (enc its)) tl = Ok (endo_of tl (240 + length (enc its))%nat))
    by (destruct Htl as [->|[trail ->]]; reflexivity).
  unfold opt_start in Ee. rewrite Ee. cbn [rbind]. subst P.
  change (length (hdr ++ enc its ++ tl)) with (length (wf_pkt hdr its tl)). rewrite end_idx_eq by assumption.
  unfold insert_at.
  replace (hdr ++ enc its ++ tl) with ((hdr ++ enc its) ++ tl) by (rewrite <- app_assoc; reflexivity).
  rewrite firstn_exact, skipn_exact by (rewrite app_length; lia). rewrite <- !app_assoc. reflexivity.
Qed.

Lemma ranges_single : forall code its i s e, ranges_of code i its = [(s, e)] ->
  exists its1 d its2, its = its1 ++ Opt code d :: its2 /\ existsb (is_code code) its1 = false /\ existsb (is_code code) its2 = false /\ s = (i + length (enc its1))%nat /\ e = (s + 2 + length d)%nat.
Proof.
  intros code its. induction its as [|it r IH]; intros i s e H; [discriminate|].
  cbn [ranges_of] in H. destruct (is_code code it) eqn:Ec; cbn [app] in H.
  - injection H as Hs He Hr. destruct it as [|c d]; [discriminate|]. cbn [is_code] in Ec. apply N.eqb_eq in Ec. subst c.
    exists [], d, r. cbn [app existsb enc concat map length enc_item] in *. repeat split; try lia.
    apply (ranges_nil_iff code r (i + S (S (length d)))). exact Hr.
  - destruct (IH _ _ _ H) as [its1 [d [its2 [E [H1 [H2 [Hs He]]]]]]]. exists (it :: its1), d, its2.
    subst r. cbn [app existsb]. rewrite Ec, H1. repeat split; try assumption. rewrite enc_cons, app_length. lia.
Qed.
Lemma absent_filters : forall code its, existsb (is_code code) its = false ->
  filter (has_code code) (opts_of its) = [] /\ filter (not_code code) (opts_of its) = opts_of its.
Proof.
  intros code its. induction its as [|[|c d] r IH]; intros H; [split; reflexivity| |].
  - cbn [existsb is_code orb] in H. cbn [opts_of]. auto.
  - cbn [existsb is_code] in H. apply orb_false_iff in H. destruct H as [Hc Hr]. destruct (IH Hr) as [I1 I2].
    cbn [opts_of filter]. change (has_code code (c, d)) with (c =? code). change (not_code code (c, d)) with (negb (c =? code)).
    rewrite Hc. cbn [negb]. rewrite I1, I2. split; reflexivity.
Qed.
Lemma filter_not_has : forall code l, filter (has_code code) (filter (not_code code) l) = [].
Proof.
  intros code l. induction l as [|o r IH]; [reflexivity|]. cbn [filter]. unfold not_code at 1.
  destruct (fst o =? code) eqn:E; cbn [negb]; [exact IH|]. cbn [filter]. unfold has_code at 1. rewrite E. exact IH.
Qed.
Lemma filter_not_not : forall code l, filter (not_code code) (filter (not_code code) l) = filter (not_code code) l.
Proof.
  intros code l. induction l as [|o r IH]; [reflexivity|]. cbn [filter].
  destruct (not_code code o) eqn:E; [|exact IH]. cbn [filter]. rewrite E, IH. reflexivity.
Qed.

(* Result of SetOptionUint32/SetOptionIP on a well-formed packet: again a well-formed packet with the same fixed
   header and trailer whose decoded options are the old ones without [code], plus exactly one (code, val4). *)
Definition set_result (hdr : bytes) (its : list item) (tl : bytes) (code : N) (val4 : bytes) (out : bytes) : Prop :=
  exists its', out = wf_pkt hdr its' tl /\ Forall item_ok its' /\ filter (not_code code) (opts_of its') = filter (not_code code) (opts_of its) /\ filter (has_code code) (opts_of its') = [(code, val4)].

Lemma set_option4_repaired : forall hdr its tl code val4, length hdr = 240%nat -> Forall item_ok its -> wf_tail tl ->
  code <> 0 -> code <> 255 -> length val4 = 4%nat ->
  exists out, set_option4 Repaired (wf_pkt hdr its tl) code val4 = Ok out /\ set_result hdr its tl code val4 out.
Proof.
  intros hdr its tl code val4 Lh Hok Htl H0 H255 Lv. unfold set_option4.
  rewrite wf_pkt_len, scan_wf by assumption. cbn [rbind].
  assert (Hins : exists out, insert_option (remove_ranges (wf_pkt hdr its tl) (ranges_of code 240 its)) code val4 = Ok out /\                           set_result hdr its tl code val4 out).
  { assert (Erm : remove_ranges (wf_pkt hdr its tl) (ranges_of code 240 its) = wf_pkt hdr (drop_code code its) tl)
      by (unfold wf_pkt; rewrite <- Lh; apply remove_ranges_enc).
    rewrite Erm, insert_option_wf by (try assumption; apply drop_code_ok; assumption).
    eexists. split; [reflexivity|]. exists (drop_code code its ++ [Opt code val4]).
    assert (Eb : blen val4 mod 256 = blen val4) by (unfold blen; rewrite Lv; reflexivity).
    split; [|split; [|split]].
    - unfold wf_pkt. rewrite enc_app, Eb. unfold enc at 3. cbn [map concat enc_item]. rewrite app_nil_r, <- !app_assoc. reflexivity.
    - apply Forall_app. split; [apply drop_code_ok; assumption|]. constructor; [|constructor]. cbn [item_ok]. repeat split; try assumption. lia.
    - rewrite opts_of_app, filter_app, opts_of_drop. fold (not_code code). rewrite filter_not_not. cbn [opts_of filter].
      change (not_code code (code, val4)) with (negb (code =? code)). rewrite N.eqb_refl. cbn [negb]. apply app_nil_r.
    - rewrite opts_of_app, filter_app, opts_of_drop. fold (not_code code). rewrite filter_not_has. cbn [opts_of filter app].
      change (has_code code (code, val4)) with (code =? code). rewrite N.eqb_refl. reflexivity. }
  destruct (ranges_of code 240 its) as [|[s e] [|r2 rs]] eqn:Er; try exact Hins.
  destruct (Nat.eqb_spec (e - s) 6) as [E6|E6]; [|exact Hins]. clear Hins.
  destruct (ranges_single _ _ _ _ _ Er) as [its1 [d [its2 [Eits [A1 [A2 [Hs He]]]]]]].
  assert (Ld : length d = 4%nat) by lia.
  eexists. split; [reflexivity|]. exists (its1 ++ Opt code val4 :: its2). subst its.
  apply Forall_app in Hok. destruct Hok as [Ok1 Ok2]. inversion Ok2 as [|? ? Okd Ok3]; subst.
  destruct (absent_filters _ _ A1) as [F1 G1]. destruct (absent_filters _ _ A2) as [F2 G2].
  split; [|split; [|split]].
  - unfold overwrite, wf_pkt. rewrite !enc_app, !enc_cons. cbn [enc_item]. rewrite Lv.
    assert (Eb : blen d = blen val4) by (unfold blen; rewrite Ld, Lv; reflexivity).
    replace (hdr ++ (enc its1 ++ (code :: blen d :: d) ++ enc its2) ++ tl)
      with ((hdr ++ enc its1 ++ [code; blen d]) ++ d ++ enc its2 ++ tl) by (rewrite <- !app_assoc; reflexivity).
    rewrite firstn_exact by (rewrite !app_length; cbn [length]; lia).
    replace (240 + length (enc its1) + 2 + 4)%nat with (length (hdr ++ enc its1 ++ [code; blen d]) + length d)%nat
      by (rewrite !app_length; cbn [length]; lia).
    rewrite skipn_plus. rewrite skipn_exact by reflexivity.
    rewrite Eb, <- !app_assoc. reflexivity.
  - apply Forall_app. split; [assumption|]. constructor; [|assumption]. cbn [item_ok] in *. repeat split; try tauto. lia.
  - rewrite !opts_of_app. cbn [opts_of]. rewrite !filter_app. cbn [filter].
    change (not_code code (code, val4)) with (negb (code =? code)). change (not_code code (code, d)) with (negb (code =? code)).
    rewrite N.eqb_refl. reflexivity.
  - rewrite !opts_of_app. cbn [opts_of]. rewrite !filter_app. cbn [filter].
    change (has_code code (code, val4)) with (code =? code). rewrite N.eqb_refl, F1, F2. reflexivity.
Qed.

Lemma filter_filter_imp {A} : forall (g f : A -> bool) l, (forall o, g o = true -> f o = true) ->
  filter g (filter f l) = filter g l.
Proof.
  intros g f l H. induction l as [|o r IH]; [reflexivity|]. cbn [filter].
  destruct (f o) eqn:Ef; cbn [filter]; [rewrite IH; reflexivity|].
  destruct (g o) eqn:Eg; [rewrite (H o Eg) in Ef; discriminate|exact IH].
Qed.
Lemma set_result_other : forall hdr its tl code val4 out (g : N * bytes -> bool),
  set_result hdr its tl code val4 out -> (forall o, g o = true -> not_code code o = true) ->
  exists its', out = wf_pkt hdr its' tl /\ Forall item_ok its' /\
    filter (has_code code) (opts_of its') = [(code, val4)] /\
    filter g (opts_of its') = filter g (opts_of its).
Proof.
  intros hdr its tl code val4 out g [its' [E [Hok [Hn Hh]]]] Hg. exists its'. repeat split; try assumption.
  rewrite <- (filter_filter_imp g (not_code code) (opts_of its')) by assumption.
  rewrite <- (filter_filter_imp g (not_code code) (opts_of its)) by assumption. rewrite Hn. reflexivity.
Qed.
Lemma has_not : forall c1 c2 o, c1 <> c2 -> has_code c1 o = true -> not_code c2 o = true.
Proof.
  intros c1 c2 o Hne H. unfold has_code, not_code in *. apply N.eqb_eq in H. rewrite H.
  destruct (N.eqb_spec c1 c2); [contradiction|reflexivity].
Qed.
Lemma to4_length : forall ip b, to4 ip = Some b -> length b = 4%nat.
Proof.
  intros [x|] b H; [|discriminate]. unfold to4 in H.
  destruct (Nat.eqb_spec (length x) 4); [congruence|].
  destruct (Nat.eqb_spec (length x) 16); cbn [andb] in H; [|discriminate].
  destruct (bytes_eqb _ _); [|discriminate]. assert (Eb : b = skipn 12 x) by congruence. subst b. rewrite skipn_length. lia.
Qed.

Definition proxy_other (o : N * bytes) : bool :=
  not_code 54 o && not_code 51 o && not_code 58 o && not_code 59 o.

Lemma rewrite_for_proxy_repaired : forall hdr its tl sid ip4 lease, length hdr = 240%nat -> Forall item_ok its -> wf_tail tl ->
  to4 sid = Some ip4 ->
  exists out its', rewrite_for_proxy Repaired (wf_pkt hdr its tl) sid lease = Ok out /\
    out = wf_pkt hdr its' tl /\ Forall item_ok its' /\
    filter (has_code 54) (opts_of its') = [(54, ip4)] /\
    filter (has_code 51) (opts_of its') = [(51, put32 lease)] /\
    filter (has_code 58) (opts_of its') = [(58, put32 (lease / 2))] /\
    filter (has_code 59) (opts_of its') = [(59, put32 (lease * 7 / 8))] /\
    filter proxy_other (opts_of its') = filter proxy_other (opts_of its).
Proof.
  intros hdr its tl sid ip4 lease Lh Hok Htl Hsid. pose proof (to4_length _ _ Hsid) as L4.
  assert (Hpo : forall c o, (c = 54 \/ c = 51 \/ c = 58 \/ c = 59) -> proxy_other o = true -> not_code c o = true).
  { intros c o Hc H. unfold proxy_other in H. repeat (apply andb_true_iff in H; destruct H as [H ?]).
    destruct Hc as [->|[->|[->| ->]]]; assumption. }
  unfold rewrite_for_proxy, set_option_ip, set_option_u32, t2_of. rewrite Hsid.
  destruct (set_option4_repaired hdr its tl 54 ip4 Lh Hok Htl ltac:(lia) ltac:(lia) L4) as [o1 [E1 R1]]. rewrite E1. cbn [rbind].
  destruct R1 as [i1 [-> [K1 [N1 H1]]]].
  destruct (set_option4_repaired hdr i1 tl 51 (put32 lease) Lh K1 Htl ltac:(lia) ltac:(lia) eq_refl) as [o2 [E2 R2]]. rewrite E2. cbn [rbind].
  destruct R2 as [i2 [-> [K2 [N2 H2]]]].
  destruct (set_option4_repaired hdr i2 tl 58 (put32 (lease / 2)) Lh K2 Htl ltac:(lia) ltac:(lia) eq_refl) as [o3 [E3 R3]]. rewrite E3. cbn [rbind].
  destruct R3 as [i3 [-> [K3 [N3 H3]]]].
  destruct (set_option4_repaired hdr i3 tl 59 (put32 (lease * 7 / 8)) Lh K3 Htl ltac:(lia) ltac:(lia) eq_refl) as [o4 [E4 R4]].
  destruct R4 as [i4 [-> [K4 [N4 H4]]]].
  exists (wf_pkt hdr i4 tl), i4. split; [exact E4|]. split; [reflexivity|]. split; [exact K4|].
  (* transport each filter through the later rewrites *)
  assert (T : forall (g : N * bytes -> bool) a b c, (forall o, g o = true -> not_code c o = true) ->
              filter (not_code c) (opts_of a) = filter (not_code c) (opts_of b) -> filter g (opts_of a) = filter g (opts_of b)).
  { intros g a b c Hg Hn. rewrite <- (filter_filter_imp g (not_code c) (opts_of a)) by assumption.
    rewrite <- (filter_filter_imp g (not_code c) (opts_of b)) by assumption. rewrite Hn. reflexivity. }
  repeat split.
  - rewrite (T _ i4 i3 59) by (first [assumption | intros; eapply has_not; [|eassumption]; lia]).
    rewrite (T _ i3 i2 58) by (first [assumption | intros; eapply has_not; [|eassumption]; lia]).
    rewrite (T _ i2 i1 51) by (first [assumption | intros; eapply has_not; [|eassumption]; lia]). exact H1.
  - rewrite (T _ i4 i3 59) by (first [assumption | intros; eapply has_not; [|eassumption]; lia]).
    rewrite (T _ i3 i2 58) by (first [assumption | intros; eapply has_not; [|eassumption]; lia]). exact H2.
  - rewrite (T _ i4 i3 59) by (first [assumption | intros; eapply has_not; [|eassumption]; lia]). exact H3.
  - exact H4.
  - rewrite (T _ i4 i3 59) by (first [assumption | intros; apply Hpo; auto]).
    rewrite (T _ i3 i2 58) by (first [assumption | intros; apply Hpo; auto]).
    rewrite (T _ i2 i1 51) by (first [assumption | intros; apply Hpo; auto]).
    rewrite (T _ i1 its 54) by (first [assumption | intros; apply Hpo; auto]). reflexivity.
Qed.

Lemma set_giaddr_spec : forall pkt gi g, to4 gi = Some g -> (28 <= length pkt)%nat ->
  set_giaddr pkt gi = firstn 24 pkt ++ g ++ skipn 28 pkt.
Proof.
  intros pkt gi g Hg Hl. unfold set_giaddr. rewrite Hg. destruct (Nat.ltb_spec (length pkt) 28); [lia|].
  unfold overwrite. rewrite (to4_length _ _ Hg). reflexivity.
Qed.
Lemma increment_hops_spec : forall pkt, (3 < length pkt)%nat ->
  increment_hops pkt = firstn 3 pkt ++ [(nth 3 pkt 0 + 1) mod 256] ++ skipn 4 pkt.
Proof.
  intros pkt Hl. unfold increment_hops. destruct (Nat.ltb_spec 3 (length pkt)); [|lia]. reflexivity.
Qed.

(* ================================================================== DHCPv6 *)
Definition enc6 (os : list (N * bytes)) : bytes := concat (map (fun o => opt6 (fst o) (snd o)) os).
Definition opt6_ok (o : N * bytes) : Prop := fst o < 65536 /\ blen (snd o) < 65536.

Lemma be16_bytes : forall n, n < 65536 -> be16 (byte_of (n / 256)) (byte_of n) = n.
Proof. intros. unfold be16, byte_of. lia. Qed.
Lemma opt6_cells : forall c d, opt6 c d = byte_of (c / 256) :: byte_of c :: byte_of (blen d / 256) :: byte_of (blen d) :: d.
Proof. reflexivity. Qed.
Lemma enc6_cons : forall o r, enc6 (o :: r) = opt6 (fst o) (snd o) ++ enc6 r. Proof. reflexivity. Qed.

Lemma tlv6_enc6 : forall os f rest, Forall opt6_ok os -> tlv6 (length os + f) (enc6 os ++ rest) = os ++ tlv6 f rest.
Proof.
  induction os as [|[c d] r IH]; intros f rest Hok; [reflexivity|].
  inversion Hok as [|? ? [Hc Hd] Hr]; subst. cbn [fst snd] in Hc, Hd.
  rewrite enc6_cons. cbn [fst snd length plus]. rewrite opt6_cells, <- app_comm_cons. cbn [app tlv6].
  rewrite !be16_bytes by assumption. rewrite <- app_assoc. rewrite to_nat_blen, ltb_app_false, firstn_exact, skipn_exact by reflexivity.
  rewrite IH by assumption. reflexivity.
Qed.
Lemma extract_enc6 : forall os f m rest, Forall opt6_ok os -> Forall (fun o => fst o <> 9) os -> blen m < 65536 ->
  extract_loop (length os + S f) (enc6 os ++ opt6 9 m ++ rest) = Some m.
Proof.
  induction os as [|[c d] r IH]; intros f m rest Hok Hn Hm.
  - cbn [length plus enc6 concat map app]. rewrite opt6_cells. cbn [app extract_loop].
    rewrite !be16_bytes by (try assumption; lia). rewrite to_nat_blen, ltb_app_false, firstn_exact by reflexivity. reflexivity.
  - inversion Hok as [|? ? [Hc Hd] Hr]; subst. inversion Hn as [|? ? Hc9 Hn']; subst. cbn [fst snd] in Hc, Hd, Hc9.
    rewrite enc6_cons. cbn [fst snd length plus]. rewrite opt6_cells, <- app_comm_cons. cbn [app extract_loop].
    rewrite !be16_bytes by assumption. rewrite <- app_assoc. rewrite to_nat_blen, ltb_app_false, skipn_exact by reflexivity.
    destruct (N.eqb_spec c 9); [contradiction|]. apply IH; assumption.
Qed.

Lemma field_length : forall n src, length (field n src) = n.
Proof.
  intros n [b|]; unfold field; [|apply repeat_length]. rewrite firstn_length, app_length. unfold zeros. rewrite repeat_length. lia.
Qed.

Definition relay_opts (p : relay_params) : list (N * bytes) :=
  (match rp_ifid p with [] => [] | d => [(18, d)] end)
  ++ (match rp_remote p with [] => [] | d => [(37, put32 (rp_ent p) ++ d)] end)
  ++ (match rp_sub p with [] => [] | d => [(38, d)] end).
Definition relay_hdr (ty hop : N) (link peer : option bytes) : bytes := [ty; hop mod 256] ++ ip16_field link ++ ip16_field peer.
Lemma relay_hdr_length : forall ty hop link peer, length (relay_hdr ty hop link peer) = 34%nat.
Proof. intros. unfold relay_hdr, ip16_field. rewrite !app_length, !field_length. reflexivity. Qed.

Lemma remote_piece : forall e d, put16 37 ++ put16 (4 + blen d) ++ put32 e ++ d = opt6 37 (put32 e ++ d).
Proof. intros. unfold opt6. rewrite blen_app. reflexivity. Qed.
Lemma build_relay_forward_shape : forall msg p,
  build_relay_forward msg p = relay_hdr 12 (rp_hop p) (rp_link p) (rp_peer p) ++ enc6 (relay_opts p) ++ opt6 9 msg.
Proof.
  intros msg p. unfold build_relay_forward, relay_hdr, relay_opts, enc6.
  destruct (rp_ifid p) as [|i0 ifid]; destruct (rp_remote p) as [|r0 rem]; destruct (rp_sub p) as [|s0 sub];
    rewrite ?remote_piece; cbn [app map concat fst snd]; rewrite ?app_nil_r, <- ?app_assoc; reflexivity.
Qed.
Lemma relay_opts_ok : forall p, blen (rp_ifid p) < 65536 -> blen (rp_remote p) + 4 < 65536 -> blen (rp_sub p) < 65536 ->
  Forall opt6_ok (relay_opts p) /\ Forall (fun o => fst o <> 9) (relay_opts p).
Proof.
  intros p H1 H2 H3. unfold relay_opts.
  destruct (rp_ifid p) as [|i0 ifid]; destruct (rp_remote p) as [|r0 rem]; destruct (rp_sub p) as [|s0 sub]; cbn [app];
    split; repeat constructor; cbn [fst snd]; try lia; rewrite blen_app; unfold blen at 1; cbn [put32 length]; lia.
Qed.

Lemma relay_forward_unwrap : forall msg p,
  blen msg < 65536 -> blen (rp_ifid p) < 65536 -> blen (rp_remote p) + 4 < 65536 -> blen (rp_sub p) < 65536 ->
  extract_relay_message (build_relay_forward msg p) = Some msg /\
  tlv6_all (skipn 34 (build_relay_forward msg p)) = relay_opts p ++ [(9, msg)] /\
  firstn 34 (build_relay_forward msg p) = relay_hdr 12 (rp_hop p) (rp_link p) (rp_peer p).
Proof.
  intros msg p Hm H1 H2 H3. destruct (relay_opts_ok p H1 H2 H3) as [Hok Hn9].
  rewrite build_relay_forward_shape. set (H := relay_hdr 12 (rp_hop p) (rp_link p) (rp_peer p)).
  pose proof (relay_hdr_length 12 (rp_hop p) (rp_link p) (rp_peer p)) as LH. fold H in LH.
  assert (Lopts : (length (relay_opts p) <= 3)%nat).
  { unfold relay_opts. destruct (rp_ifid p); destruct (rp_remote p); destruct (rp_sub p); cbn; lia. }
  split; [|split].
  - unfold extract_relay_message. rewrite skipn_exact by assumption. rewrite app_length, LH.
    set (L := length (enc6 (relay_opts p) ++ opt6 9 msg)).
    destruct (Nat.ltb_spec (34 + L) 34); [lia|].
    replace (S (34 + L)) with (length (relay_opts p) + S (34 + L - length (relay_opts p)))%nat by lia.
    rewrite <- (app_nil_r (opt6 9 msg)). apply extract_enc6; assumption.
  - rewrite skipn_exact by assumption. unfold tlv6_all.
    set (L := length (enc6 (relay_opts p) ++ opt6 9 msg)).
    replace (enc6 (relay_opts p) ++ opt6 9 msg) with (enc6 (relay_opts p ++ [(9, msg)]) ++ [])
      by (unfold enc6; rewrite map_app, concat_app; cbn [map concat fst snd]; rewrite !app_nil_r; reflexivity).
    set (os' := relay_opts p ++ [(9, msg)]).
    assert (Los : (length os' <= 4)%nat) by (subst os'; rewrite app_length; cbn [length]; lia).
    assert (LL : (4 <= L)%nat) by (subst L; rewrite app_length; unfold opt6; rewrite !app_length; cbn [length put16]; lia).
    replace (S L) with (length os' + (S L - length os'))%nat by lia.
    rewrite tlv6_enc6.
    + destruct (S L - _)%nat; cbn [tlv6]; apply app_nil_r.
    + apply Forall_app. split; [assumption|]. repeat constructor; cbn [fst snd]; lia.
  - apply firstn_exact. assumption.
Qed.

Lemma relay_reply_unwrap : forall inner hop link peer ifid, blen inner < 65536 -> blen ifid < 65536 ->
  unwrap_relay_reply (build_relay_reply inner hop link peer ifid) = Ok inner.
Proof.
  intros inner hop link peer ifid Hi Hf.
  assert (Shape : build_relay_reply inner hop link peer ifid =
                  relay_hdr 13 hop link peer ++ enc6 (match ifid with [] => [] | d => [(18, d)] end) ++ opt6 9 inner).
  { unfold build_relay_reply, relay_hdr, enc6. destruct ifid; cbn [app map concat fst snd]; rewrite ?app_nil_r, <- ?app_assoc; reflexivity. }
  rewrite Shape. set (os := match ifid with [] => [] | d => [(18, d)] end).
  pose proof (relay_hdr_length 13 hop link peer) as LH.
  assert (Hos : Forall opt6_ok os /\ Forall (fun o => fst o <> 9) os /\ (length os <= 1)%nat).
  { subst os. destruct ifid; cbn [length]; repeat split; repeat constructor; cbn [fst snd]; lia. }
  destruct Hos as [Hok [Hn9 Lo]].
  unfold unwrap_relay_reply, extract_relay_message.
  change (nth 0 (relay_hdr 13 hop link peer ++ enc6 os ++ opt6 9 inner) 0) with 13. change (13 =? 13) with true. cbn [negb].
  rewrite skipn_exact by assumption. rewrite app_length, LH.
  set (L := length (enc6 os ++ opt6 9 inner)).
  destruct (Nat.ltb_spec (34 + L) 34); [lia|].
  replace (S (34 + L)) with (length os + S (34 + L - length os))%nat by lia.
  rewrite <- (app_nil_r (opt6 9 inner)). rewrite extract_enc6 by assumption. reflexivity.
Qed.

(* Response.Serialize: the option list it is supposed to carry *)
Definition options6 (r : response6) : list (N * bytes) :=
  [(1, r_client r); (2, r_server r)]
  ++ (match r_iana r with Some i => if has_addr (r_iana r) then [(3, iana_payload i)] else [] | None => [] end)
  ++ (match r_iapd r with Some i => if has_prefix (r_iapd r) then [(25, iapd_payload i)] else [] | None => [] end)
  ++ (match r_dns r with [] => [] | _ => [(23, concat (map ip16_field (r_dns r)))] end)
  ++ (match r_status r with Some (c, m) => [(13, put16 c ++ m)] | None => [] end)
  ++ r_extras r.
Lemma enc6_app : forall a b, enc6 (a ++ b) = enc6 a ++ enc6 b.
Proof. intros. unfold enc6. rewrite map_app, concat_app. reflexivity. Qed.
Lemma serialize6_shape : forall r,
  serialize6 r = ([r_type r mod 256] ++ firstn 3 (r_txid r ++ zeros 3)) ++ enc6 (options6 r).
Proof.
  intros r. unfold serialize6, options6. rewrite !enc6_app.
  assert (E0 : enc6 [(1, r_client r); (2, r_server r)] = opt6 1 (r_client r) ++ opt6 2 (r_server r))
    by (unfold enc6; cbn [map concat fst snd]; rewrite app_nil_r; reflexivity).
  assert (E1 : enc6 (match r_iana r with Some i => if has_addr (r_iana r) then [(3, iana_payload i)] else [] | None => [] end)
               = match r_iana r with Some i => if has_addr (r_iana r) then opt6 3 (iana_payload i) else [] | None => [] end)
    by (destruct (r_iana r); [destruct (has_addr _)|]; unfold enc6; cbn [map concat fst snd]; rewrite ?app_nil_r; reflexivity).
  assert (E2 : enc6 (match r_iapd r with Some i => if has_prefix (r_iapd r) then [(25, iapd_payload i)] else [] | None => [] end)
               = match r_iapd r with Some i => if has_prefix (r_iapd r) then opt6 25 (iapd_payload i) else [] | None => [] end)
    by (destruct (r_iapd r); [destruct (has_prefix _)|]; unfold enc6; cbn [map concat fst snd]; rewrite ?app_nil_r; reflexivity).
  rewrite E0, E1, E2. clear E0 E1 E2.
  destruct (r_dns r); destruct (r_status r) as [[c m]|]; unfold enc6; cbn [map concat fst snd];
    rewrite ?app_nil_r, <- ?app_assoc; reflexivity.
Qed.
Lemma dhcp6_roundtrip : forall r, length (r_txid r) = 3%nat -> r_type r < 256 -> Forall opt6_ok (options6 r) ->
  nth 0 (serialize6 r) 0 = r_type r /\ firstn 3 (skipn 1 (serialize6 r)) = r_txid r /\
  tlv6_all (skipn 4 (serialize6 r)) = options6 r.
Proof.
  intros r Lt Hty Hok. rewrite serialize6_shape.
  assert (Etx : firstn 3 (r_txid r ++ zeros 3) = r_txid r) by (apply firstn_exact; assumption).
  rewrite Etx. split; [|split].
  - cbn [app nth]. lia.
  - cbn [app skipn]. rewrite <- ?app_assoc. apply firstn_exact. assumption.
  - rewrite skipn_exact by (rewrite app_length, Lt; reflexivity). unfold tlv6_all.
    set (L := length (enc6 (options6 r))).
    assert (Hl : (length (options6 r) <= L)%nat).
    { subst L. clear. induction (options6 r) as [|o q IH]; [cbn; lia|]. rewrite enc6_cons, app_length. unfold opt6.
      rewrite !app_length. cbn [length put16]. lia. }
    replace (S L) with (length (options6 r) + (S L - length (options6 r)))%nat by lia.
    rewrite <- (app_nil_r (enc6 (options6 r))). rewrite tlv6_enc6 by assumption.
    destruct (S L - _)%nat; cbn [tlv6]; apply app_nil_r.
Qed.

(* ================================================================== DHCPv4 reply builder *)
Fixpoint split_items (fuel : nat) (c : N) (d : bytes) : list item :=
  match fuel with
  | O => [Opt c d]
  | S f => if (255 <? length d)%nat then Opt c (firstn 255 d) :: split_items f c (skipn 255 d) else [Opt c d]
  end.
Lemma enc_single : forall c d, enc [Opt c d] = c :: blen d :: d.
Proof. intros. unfold enc. cbn [map concat enc_item]. apply app_nil_r. Qed.
Lemma add_opt_split_enc : forall f c d, (length d <= f)%nat -> c <> 0 -> c <> 255 ->
  add_opt_split f c d = enc (split_items f c d) /\ Forall item_ok (split_items f c d) /\
  concat (map snd (opts_of (split_items f c d))) = d /\
  Forall (fun o => fst o = c) (opts_of (split_items f c d)).
Proof.
  induction f as [|f IH]; intros c d Hl H0 H255.
  - assert (d = []) by (destruct d; [reflexivity|cbn in Hl; lia]). subst d. cbn [add_opt_split split_items].
    rewrite enc_single. split; [reflexivity|]. split; [constructor; [cbn [item_ok length]; repeat split; try assumption; lia|constructor]|].
      split; [cbn [opts_of map concat snd]; apply app_nil_r|]. cbn [opts_of]. constructor; [reflexivity|constructor].
  - cbn [add_opt_split split_items]. destruct (Nat.ltb_spec 255 (length d)) as [Hb|Hs].
    + destruct (IH c (skipn 255 d)) as [E [Ok' [Cc Fc]]]; try assumption; [rewrite skipn_length; lia|].
      rewrite E. assert (L255 : length (firstn 255 d) = 255%nat) by (rewrite firstn_length; lia).
      split; [|split; [|split]].
      * rewrite enc_cons. cbn [enc_item]. unfold blen. rewrite L255. rewrite <- ?app_assoc. reflexivity.
      * constructor; [|assumption]. cbn [item_ok]. repeat split; try assumption. lia.
      * cbn [opts_of map concat snd]. rewrite Cc. apply firstn_skipn.
      * cbn [opts_of]. constructor; [reflexivity|assumption].
    + rewrite enc_single. split; [reflexivity|]. split; [constructor; [cbn [item_ok length]; repeat split; try assumption; lia|constructor]|].
      split; [cbn [opts_of map concat snd]; apply app_nil_r|]. cbn [opts_of]. constructor; [reflexivity|constructor].
Qed.

Definition reply_items (mt : N) (opts : list (N * bytes)) : list item :=
  concat (map (fun o => split_items (length (snd o)) (fst o) (snd o)) ((53, [mt mod 256]) :: opts)).
Definition opt_code_ok (o : N * bytes) : Prop := fst o <> 0 /\ fst o <> 255.

Lemma write_opts_enc : forall opts, Forall opt_code_ok opts ->
  let its := concat (map (fun o => split_items (length (snd o)) (fst o) (snd o)) opts) in
  write_opts Repaired opts = enc its /\ Forall item_ok its /\
  forall code, opt_value code (opts_of its) = concat (map snd (filter (has_code code) opts)).
Proof.
  induction opts as [|[c d] r IH]; intros Hok.
  - cbn. repeat split; constructor.
  - inversion Hok as [|? ? [H0 H255] Hr]; subst. cbn [fst snd] in H0, H255.
    destruct (IH Hr) as [E [Ok' V]]. cbn zeta in *.
    destruct (add_opt_split_enc (length d) c d (le_n _) H0 H255) as [E1 [Ok1 [C1 F1]]].
    cbn [map concat fst snd]. split; [|split].
    + unfold write_opts in *. cbn [map concat]. change (add_opt Repaired (fst (c, d)) (snd (c, d))) with (add_opt_split (length d) c d).
      rewrite E1, E, enc_app. reflexivity.
    + apply Forall_app. split; assumption.
    + intros code. rewrite opts_of_app. unfold opt_value in *. rewrite filter_app, map_app, concat_app, V.
      cbn [filter]. change (has_code code (c, d)) with (c =? code).
      assert (Hf : forall l, Forall (fun o : N * bytes => fst o = c) l ->
                   filter (fun o => fst o =? code) l = if c =? code then l else []).
      { induction l as [|o q IHl]; intros Hq; [destruct (c =? code); reflexivity|].
        apply Forall_cons_iff in Hq. destruct Hq as [Ho Hq']. cbn [filter]. rewrite Ho, (IHl Hq'). destruct (c =? code); reflexivity. }
      rewrite (Hf _ F1). destruct (c =? code); cbn [map concat snd]; rewrite ?C1; reflexivity.
Qed.

Lemma be_num_put32 : forall n, n < 4294967296 -> be_num (put32 n) = n.
Proof. intros n H. unfold be_num, put32, byte_of. cbn [fold_left]. lia. Qed.
Lemma block {A} : forall (a b c : list A) n k, length a = n -> length b = k -> firstn k (skipn n (a ++ b ++ c)) = b.
Proof. intros a b c n k Ha Hb. rewrite skipn_exact by assumption. apply firstn_exact. assumption. Qed.

Definition reply_hdr (xid : N) (ci yi si : option bytes) (hw : bytes) : bytes :=
  [2; 1; 6; 0] ++ put32 xid ++ zeros 4 ++ ip4_field ci ++ ip4_field yi ++ ip4_field si
  ++ zeros 4 ++ firstn 208 (hw ++ zeros 208) ++ magic.
Lemma mid_length : forall hw, length (firstn 208 (hw ++ zeros 208)) = 208%nat.
Proof. intros. rewrite firstn_length, app_length. unfold zeros. rewrite repeat_length. lia. Qed.
Lemma reply_hdr_length : forall xid ci yi si hw, length (reply_hdr xid ci yi si hw) = 240%nat.
Proof.
  intros. unfold reply_hdr, ip4_field. rewrite !app_length, !field_length, mid_length. reflexivity.
Qed.

Lemma opts_of_ok : forall its, Forall item_ok its ->
  Forall (fun o => (length (snd o) <= 255)%nat /\ fst o <> 0 /\ fst o <> 255) (opts_of its).
Proof.
  induction its as [|[|c d] r IH]; intros H; [constructor| |].
  - inversion H; subst. apply IH; assumption.
  - inversion H as [|? ? Hit Hr]; subst. cbn [item_ok] in Hit. cbn [opts_of]. constructor; [cbn [fst snd]; tauto|apply IH; assumption].
Qed.
Lemma firstn_zeros : forall k m, (k <= m)%nat -> firstn k (zeros m) = zeros k.
Proof. induction k; intros m H; [reflexivity|]. destruct m; [lia|]. cbn. f_equal. apply IHk. lia. Qed.
Lemma firstn_pad : forall (hw : bytes) n m, (length hw <= n)%nat -> (n <= length hw + m)%nat ->
  firstn n (hw ++ zeros m) = hw ++ zeros (n - length hw).
Proof. intros. rewrite firstn_app, firstn_all2 by lia. rewrite firstn_zeros by lia. reflexivity. Qed.

Lemma reply_decodes : forall pad xid ci yi si hw mt opts,
  xid < 4294967296 -> (length hw <= 16)%nat -> Forall opt_code_ok opts ->
  exists p view, build_dhcp4_reply Repaired pad xid ci yi si hw mt opts = Ok p /\ ref_decode4 p = Some view /\
    v_op view = 2 /\ v_xid view = xid /\ v_yiaddr view = ip4_field yi /\ v_ciaddr view = ip4_field ci /\
    v_chaddr view = hw ++ zeros (16 - length hw) /\
    v_cookie_ok view = true /\ v_end view = EndSeen (zeros pad) /\
    Forall (fun o => (length (snd o) <= 255)%nat /\ fst o <> 0 /\ fst o <> 255) (v_opts view) /\
    forall code, opt_value code (v_opts view) = concat (map snd (filter (has_code code) ((53, [mt mod 256]) :: opts))).
Proof.
  intros pad xid ci yi si hw mt opts Hx Hhw Hok.
  assert (Hok' : Forall opt_code_ok ((53, [mt mod 256]) :: opts)) by (constructor; [split; cbn; lia|assumption]).
  destruct (write_opts_enc _ Hok') as [E [Oki V]]. cbn zeta in E, Oki, V. fold (reply_items mt opts) in E, Oki, V.
  unfold build_dhcp4_reply. destruct (Nat.ltb_spec 212 (length hw)); [lia|].
  assert (Ep : [2; 1; 6; 0] ++ put32 xid ++ zeros 4 ++ ip4_field ci ++ ip4_field yi ++ ip4_field si ++ zeros 4 ++
               firstn 208 (hw ++ zeros 208) ++ magic ++ add_opt Repaired 53 [mt mod 256] ++ write_opts Repaired opts ++ [255] ++ zeros pad
               = wf_pkt (reply_hdr xid ci yi si hw) (reply_items mt opts) (255 :: zeros pad)).
  { unfold wf_pkt, reply_hdr. rewrite <- E. unfold write_opts. cbn [map concat fst snd]. rewrite <- !app_assoc. reflexivity. }
  rewrite Ep. pose proof (reply_hdr_length xid ci yi si hw) as LH.
  eexists. eexists. split; [reflexivity|]. unfold ref_decode4. rewrite wf_pkt_len by assumption.
  rewrite ref_options_wf by (try assumption; right; eexists; reflexivity). split; [reflexivity|]. cbn [v_op v_xid v_yiaddr v_ciaddr v_chaddr v_cookie_ok v_end v_opts].
  set (tail := enc (reply_items mt opts) ++ 255 :: zeros pad).
  assert (Fl : forall ip, length (ip4_field ip) = 4%nat) by (intros; apply field_length).
  split; [reflexivity|]. split; [|split; [|split; [|split; [|split; [|split; [|split]]]]]].
  - unfold wf_pkt, reply_hdr. rewrite <- !app_assoc.
    rewrite (block [2; 1; 6; 0] (put32 xid) _ 4 4) by reflexivity. apply be_num_put32. assumption.
  - unfold wf_pkt, reply_hdr. rewrite <- !app_assoc.
    replace ([2; 1; 6; 0] ++ put32 xid ++ zeros 4 ++ ip4_field ci ++ ip4_field yi ++ ip4_field si ++ zeros 4 ++ firstn 208 (hw ++ zeros 208) ++ magic ++ enc (reply_items mt opts) ++ 255 :: zeros pad)
      with (([2; 1; 6; 0] ++ put32 xid ++ zeros 4 ++ ip4_field ci) ++ ip4_field yi ++ (ip4_field si ++ zeros 4 ++ firstn 208 (hw ++ zeros 208) ++ magic ++ enc (reply_items mt opts) ++ 255 :: zeros pad))
      by (rewrite <- !app_assoc; reflexivity).
    apply block; [rewrite !app_length, Fl; reflexivity|apply Fl].
  - unfold wf_pkt, reply_hdr. rewrite <- !app_assoc.
    replace ([2; 1; 6; 0] ++ put32 xid ++ zeros 4 ++ ip4_field ci ++ ip4_field yi ++ ip4_field si ++ zeros 4 ++ firstn 208 (hw ++ zeros 208) ++ magic ++ enc (reply_items mt opts) ++ 255 :: zeros pad)
      with (([2; 1; 6; 0] ++ put32 xid ++ zeros 4) ++ ip4_field ci ++ (ip4_field yi ++ ip4_field si ++ zeros 4 ++ firstn 208 (hw ++ zeros 208) ++ magic ++ enc (reply_items mt opts) ++ 255 :: zeros pad))
      by (rewrite <- !app_assoc; reflexivity).
    apply block; [reflexivity|apply Fl].
  - unfold wf_pkt, reply_hdr. rewrite <- !app_assoc.
    replace ([2; 1; 6; 0] ++ put32 xid ++ zeros 4 ++ ip4_field ci ++ ip4_field yi ++ ip4_field si ++ zeros 4 ++ firstn 208 (hw ++ zeros 208) ++ magic ++ enc (reply_items mt opts) ++ 255 :: zeros pad)
      with (([2; 1; 6; 0] ++ put32 xid ++ zeros 4 ++ ip4_field ci ++ ip4_field yi ++ ip4_field si ++ zeros 4) ++ (firstn 208 (hw ++ zeros 208) ++ magic ++ enc (reply_items mt opts) ++ 255 :: zeros pad))
      by (rewrite <- !app_assoc; reflexivity).
    rewrite skipn_exact by (rewrite !app_length, !Fl; reflexivity).
    rewrite firstn_app, mid_length. change (16 - 208)%nat with 0%nat. rewrite firstn_O, app_nil_r.
    rewrite firstn_firstn. change (Nat.min 16 208) with 16%nat. apply firstn_pad; lia.
  - unfold wf_pkt, reply_hdr. rewrite <- !app_assoc.
    replace ([2; 1; 6; 0] ++ put32 xid ++ zeros 4 ++ ip4_field ci ++ ip4_field yi ++ ip4_field si ++ zeros 4 ++ firstn 208 (hw ++ zeros 208) ++ magic ++ enc (reply_items mt opts) ++ 255 :: zeros pad)
      with (([2; 1; 6; 0] ++ put32 xid ++ zeros 4 ++ ip4_field ci ++ ip4_field yi ++ ip4_field si ++ zeros 4 ++ firstn 208 (hw ++ zeros 208)) ++ magic ++ (enc (reply_items mt opts) ++ 255 :: zeros pad))
      by (rewrite <- !app_assoc; reflexivity).
    rewrite block; [reflexivity| |reflexivity]. rewrite !app_length, !Fl, mid_length. reflexivity.
  - reflexivity.
  - apply opts_of_ok. assumption.
  - exact V.
Qed.

(* concrete packets used by the non-vacuity examples and the refutation witnesses *)
Definition ex_hdr : bytes := zeros 236 ++ magic.
Definition ex_two82 : list item := [Opt 53 [1]; Pad; Opt 82 [1;1;65]; Opt 82 [1;1;66]].
Lemma ex_two82_ok : Forall item_ok ex_two82.
Proof. unfold ex_two82. repeat (constructor; [cbn [item_ok length]; try exact I; repeat split; lia|]). constructor. Qed.

Definition ex_badlen : list item := [Opt 53 [5]; Opt 51 [0; 9]; Opt 54 [1;2;3;4]].
Lemma ex_badlen_ok : Forall item_ok ex_badlen.
Proof. unfold ex_badlen. repeat (constructor; [cbn [item_ok length]; try exact I; repeat split; lia|]). constructor. Qed.
Definition ex_server : list item := [Opt 53 [5]; Opt 54 [1;2;3;4]; Opt 51 [0;0;0;9]; Pad; Opt 58 [0;0;0;4]; Opt 59 [0;0;0;7]; Opt 1 [255;255;255;0]].
Lemma ex_server_ok : Forall item_ok ex_server.
Proof. unfold ex_server. repeat (constructor; [cbn [item_ok length]; try exact I; repeat split; lia|]). constructor. Qed.

Lemma t1_le_t2 : forall x, x / 2 <= t2_of Repaired x /\ pref_t1 x <= pref_t2 Repaired x /\
                           t2_of Repaired x <= x /\ pref_t2 Repaired x <= x.
Proof. intros x. unfold t2_of, pref_t1, pref_t2. repeat split; lia. Qed.

(* ================================================================== domain: every decodable options area is a wf_pkt *)
(* If the reference decoder does not report a truncated option, the bytes ARE pads/complete options followed by
   end-of-packet or END+trailer: the wf_pkt theorems therefore cover every decodable client message. *)
Lemma decodable_wf : forall fuel l os e, bytes_ok l -> ref_walk fuel l = (os, e) -> e <> Truncated ->
  exists its tl, l = enc its ++ tl /\ Forall item_ok its /\ opts_of its = os /\ wf_tail tl /\ e = tail_end tl.
Proof.
  induction fuel as [|f IH]; intros l os e Hb Hw Hne; cbn [ref_walk] in Hw.
  - inversion Hw; subst. contradiction.
  - destruct l as [|c r].
    + inversion Hw; subst. exists [], []. repeat split; try reflexivity; try apply Forall_nil. left; reflexivity.
    + destruct (N.eqb_spec c 0) as [E0|E0].
      * inversion Hb; subst. destruct (IH r os e) as [its [tl [E [Ok' [Eo [Ht Ee]]]]]]; try assumption.
        exists (Pad :: its), tl. rewrite enc_cons. cbn [enc_item app opts_of]. subst r. repeat split; try assumption. constructor; [exact I|assumption].
      * destruct (N.eqb_spec c 255) as [E255|E255].
        { inversion Hw; subst. exists [], (255 :: r). repeat split; try reflexivity; try apply Forall_nil. right; eexists; reflexivity. }
        destruct r as [|n r2]; [inversion Hw; subst; contradiction|].
        destruct (Nat.ltb_spec (length r2) (N.to_nat n)) as [Hlt|Hge]; [inversion Hw; subst; contradiction|].
        destruct (ref_walk f (skipn (N.to_nat n) r2)) as [os' e'] eqn:Er. inversion Hw; subst.
        inversion Hb as [|? ? Hc Hb1]; subst. inversion Hb1 as [|? ? Hn Hb2]; subst. unfold byte in Hn.
        assert (Hb3 : bytes_ok (skipn (N.to_nat n) r2)).
        { apply Forall_forall. intros x Hx. eapply Forall_forall; [exact Hb2|]. rewrite <- (firstn_skipn (N.to_nat n) r2). apply in_or_app. auto. }
        destruct (IH _ _ _ Hb3 Er Hne) as [its [tl [E [Ok' [Eo [Ht Ee]]]]]].
        exists (Opt c (firstn (N.to_nat n) r2) :: its), tl.
        assert (Lf : length (firstn (N.to_nat n) r2) = N.to_nat n) by (rewrite firstn_length; lia).
        rewrite enc_cons. cbn [enc_item opts_of]. unfold blen. rewrite Lf, N2Nat.id. cbn [app]. rewrite <- app_assoc, <- E, firstn_skipn.
        repeat split; try assumption; try (rewrite Eo; reflexivity). constructor; [|assumption]. cbn [item_ok]. repeat split; try assumption. lia.
Qed.
Lemma decodable_is_wf : forall pkt, bytes_ok pkt -> (240 <= length pkt)%nat -> snd (ref_options pkt) <> Truncated ->
  exists hdr its tl, pkt = wf_pkt hdr its tl /\ length hdr = 240%nat /\ Forall item_ok its /\ wf_tail tl /\
                     ref_options pkt = (opts_of its, tail_end tl).
Proof.
  intros pkt Hb Hl Hne. unfold ref_options in *. destruct (ref_walk (S (length pkt)) (skipn opt_start pkt)) as [os e] eqn:Ew.
  cbn [snd] in Hne.
  assert (Hb' : bytes_ok (skipn opt_start pkt)).
  { apply Forall_forall. intros x Hx. eapply Forall_forall; [exact Hb|]. rewrite <- (firstn_skipn opt_start pkt). apply in_or_app. auto. }
  destruct (decodable_wf _ _ _ _ Hb' Ew Hne) as [its [tl [E [Ok' [Eo [Ht Ee]]]]]].
  exists (firstn opt_start pkt), its, tl. unfold wf_pkt. rewrite <- E, firstn_skipn. repeat split; try assumption.
  - rewrite firstn_length. unfold opt_start. lia.
  - subst. reflexivity.
Qed.

(* ================================================================== the other IPv4 framers: WrapIPUDP, BuildUDPPacket *)
(* header fields are the requested ones: version/IHL 0x45, TTL 64, protocol 17, addresses, ports *)
Definition frame4_fields (f s4 d4 : bytes) (sp dp : N) : Prop :=
  firstn 2 f = [69; 0] /\ firstn 6 (skipn 4 f) = [0; 0; 0; 0; 64; 17] /\
  firstn 4 (skipn 12 f) = s4 /\ firstn 4 (skipn 16 f) = d4 /\
  firstn 2 (skipn 20 f) = put16 sp /\ firstn 2 (skipn 22 f) = put16 dp.

Lemma frame4_assemble : forall s4 d4 sp dp payload hc uc,
  length s4 = 4%nat -> length d4 = 4%nat -> sp < 65536 -> dp < 65536 -> blen payload <= 65507 ->
  let ulen := 8 + blen payload in let total := 20 + ulen in
  verifies (ip4_header total s4 d4 hc) = true -> uc < 65536 ->
  ones_sum (sum_words s4 + sum_words d4 + 17 + ulen + (sp + dp + ulen + sum_words payload) + uc) = 65535 ->
  let f := ip4_header total s4 d4 hc ++ udp_header sp dp ulen uc ++ payload in
  frame4_ok f payload /\ frame4_fields f s4 d4 sp dp /\ firstn 2 (skipn 26 f) = put16 uc.
Proof.
  intros s4 d4 sp dp payload hc uc Ls Ld Hsp Hdp Hl ulen total Hhv Huc Hv f.
  assert (Hul : ulen < 65536) by (subst ulen; lia).
  subst f. cells4 s4 Ls. cells4 d4 Ld.
  unfold frame4_ok, frame4_fields, pseudo4, ip4_header, udp_header, put16 in *. cbn [app firstn skipn length] in *.
  split; [|split; [repeat split|reflexivity]].
  split; [lia|]. split.
  { unfold blen. cbn [length]. f_equal; [|f_equal]; f_equal; subst total ulen; unfold blen; lia. }
  split.
  { unfold blen. cbn [length]. f_equal; [|f_equal]; f_equal; subst total ulen; unfold blen; lia. }
  split; [exact Hhv|]. split; [|reflexivity].
  unfold verifies.
  match goal with |- ones_sum (sum_words ?l) =? _ = true =>
    change l with (([n; n0; n1; n2] ++ [n3; n4; n5; n6]) ++ [0; 17] ++ put16 ulen ++ (udp_header sp dp ulen uc ++ payload)) end.
  rewrite sum_words_app by reflexivity. rewrite (sum_words_app [0; 17]) by reflexivity.
  rewrite (sum_words_app (put16 ulen)) by reflexivity. rewrite (sum_words_app [n; n0; n1; n2]) by reflexivity.
  rewrite put16_exact, udp_seg_sum by (try assumption; lia).
  change (sum_words [0; 17]) with 17.
  replace (sum_words [n; n0; n1; n2] + sum_words [n3; n4; n5; n6] + (17 + (ulen + (sp + dp + ulen + uc + sum_words payload))))
    with (sum_words [n; n0; n1; n2] + sum_words [n3; n4; n5; n6] + 17 + ulen + (sp + dp + ulen + sum_words payload) + uc) by lia.
  rewrite Hv. reflexivity.
Qed.

Lemma field4_id : forall ip b, to4 ip = Some b -> field 4 (to4 ip) = b.
Proof.
  intros ip b H. rewrite H. unfold field. pose proof (to4_length _ _ H) as L. apply firstn_exact. exact L.
Qed.
Lemma header_csum_exists : forall total s4 d4, length s4 = 4%nat -> length d4 = 4%nat -> bytes_ok s4 -> bytes_ok d4 ->
  exists hc, csum_finish (sum_words (ip4_header total s4 d4 0)) = Ok hc.
Proof.
  intros total s4 d4 Ls Ld Bs Bd. destruct (ip4_pre_props total) as [Lp [Bpre Pp]].
  destruct (csum_finish_total (sum_words (ip4_header total s4 d4 0))) as [c [Hc _]]; [| |eauto].
  - rewrite ip4_header_split, field_csum by (try (rewrite Lp; reflexivity); lia). lia.
  - rewrite ip4_header_split, field_csum by (try (rewrite Lp; reflexivity); lia).
    pose proof (sum_words_bound _ Bpre) as B1. rewrite Lp in B1. change ((10 + 1) / 2)%nat with 5%nat in B1.
    assert (B2 : bytes_ok (s4 ++ d4)) by (apply Forall_app; auto).
    pose proof (sum_words_bound _ B2) as B3. rewrite app_length, Ls, Ld in B3. change ((4 + 4 + 1) / 2)%nat with 4%nat in B3. lia.
Qed.

(* the UDP checksum computed over "pseudo-header sum + all words of the datagram with a zero checksum field",
   with the zero result replaced by 0xFFFF *)
Lemma udp_csum_generic : forall s4 d4 sp dp payload s0,
  length s4 = 4%nat -> length d4 = 4%nat -> bytes_ok s4 -> bytes_ok d4 -> bytes_ok payload ->
  sp < 65536 -> dp < 65536 -> blen payload <= 65507 ->
  s0 = sum_words s4 + sum_words d4 + 17 + (8 + blen payload) + (sp + dp + (8 + blen payload) + sum_words payload) ->
  exists c, csum_finish s0 = Ok c /\
    let uc := if c =? 0 then 65535 else c in uc < 65536 /\ uc <> 0 /\ ones_sum (s0 + uc) = 65535.
Proof.
  intros s4 d4 sp dp payload s0 Ls Ld Bs Bd Bp Hsp Hdp Hl ->.
  pose proof (payload_sum_bound payload Bp ltac:(lia)) as Bpl.
  pose proof (sum4_bound s4 Ls Bs) as B4s. pose proof (sum4_bound d4 Ld Bd) as B4d.
  set (s0 := sum_words s4 + sum_words d4 + 17 + (8 + blen payload) + (sp + dp + (8 + blen payload) + sum_words payload)).
  assert (Hs0 : 0 < s0 /\ s0 < 4294967296) by (subst s0; lia).
  destruct (csum_finish_total s0) as [c [Hc Hc16]]; try tauto. exists c. split; [exact Hc|]. cbn zeta.
  assert (Huc : (if c =? 0 then 65535 else c) = c \/ (c = 0 /\ ((if c =? 0 then 65535 else c) = 65535 \/ (if c =? 0 then 65535 else c) = 0)))
    by (destruct (N.eqb_spec c 0); auto).
  destruct (csum_verifies s0 c _ (proj1 Hs0) (proj2 Hs0) Hc Huc) as [_ Hv].
  repeat split; try exact Hv; destruct (N.eqb_spec c 0); lia.
Qed.

Lemma wrap_ip_udp_ok : forall v ovf payload src dst s4 d4,
  to4 src = Some s4 -> to4 dst = Some d4 -> ip_ok src -> ip_ok dst -> bytes_ok payload -> blen payload <= 65507 ->
  exists f, wrap_ip_udp v ovf payload src dst = Ok f /\ frame4_ok f payload /\ frame4_fields f s4 d4 67 68 /\
            firstn 2 (skipn 26 f) <> [0; 0].
Proof.
  intros v ovf payload src dst s4 d4 Hs Hd Os Od Bp Hl.
  destruct (to4_some _ _ Hs Os) as [Ls Bs]. destruct (to4_some _ _ Hd Od) as [Ld Bd].
  unfold wrap_ip_udp. rewrite Hs, Hd. cbn zeta.
  replace (ovf && (65535 <? 20 + (8 + blen payload)))%bool with false
    by (destruct ovf; cbn [andb]; [symmetry; apply N.ltb_ge; lia|reflexivity]).
  set (ulen := 8 + blen payload). set (total := 20 + ulen).
  destruct (header_csum_exists total s4 d4 Ls Ld Bs Bd) as [hc Hhc]. rewrite Hhc. cbn [rbind].
  destruct (ip4_header_verifies total s4 d4 hc hc Ls Ld Bs Bd Hhc eq_refl) as [Hhc16 Hhv].
  assert (Ebl : blen (udp_header 67 68 ulen 0 ++ payload) = ulen).
  { rewrite blen_app. subst ulen. unfold blen. cbn [udp_header put16 app length]. lia. }
  rewrite Ebl, udp_seg_sum by (subst ulen; lia).
  destruct (udp_csum_generic s4 d4 67 68 payload _ Ls Ld Bs Bd Bp ltac:(lia) ltac:(lia) Hl eq_refl) as [c [Hc [U1 [U2 U3]]]].
  fold ulen in Hc, U3.
  replace (sum_words s4 + sum_words d4 + 17 + ulen + (67 + 68 + ulen + 0 + sum_words payload))
    with (sum_words s4 + sum_words d4 + 17 + ulen + (67 + 68 + ulen + sum_words payload)) by lia.
  rewrite Hc. cbn [rbind]. eexists. split; [reflexivity|].
  destruct (frame4_assemble s4 d4 67 68 payload hc (if c =? 0 then 65535 else c) Ls Ld ltac:(lia) ltac:(lia) Hl Hhv U1 U3) as [A [B C]].
  split; [exact A|]. split; [exact B|]. subst total ulen. rewrite C.
  unfold put16, byte_of. intros Hz. injection Hz as H1 H2. lia.
Qed.

Lemma build_udp_packet_ok : forall ovf src dst sp dp payload s4 d4,
  to4 src = Some s4 -> to4 dst = Some d4 -> ip_ok src -> ip_ok dst -> bytes_ok payload ->
  sp < 65536 -> dp < 65536 -> blen payload <= 65507 ->
  exists f, build_udp_packet ovf src dst sp dp payload = Ok f /\ frame4_ok f payload /\ frame4_fields f s4 d4 sp dp /\
            firstn 2 (skipn 26 f) <> [0; 0].
Proof.
  intros ovf src dst sp dp payload s4 d4 Hs Hd Os Od Bp Hsp Hdp Hl.
  destruct (to4_some _ _ Hs Os) as [Ls Bs]. destruct (to4_some _ _ Hd Od) as [Ld Bd].
  unfold build_udp_packet. rewrite (field4_id _ _ Hs), (field4_id _ _ Hd). cbn zeta.
  replace (ovf && (65535 <? 20 + (8 + blen payload)))%bool with false
    by (destruct ovf; cbn [andb]; [symmetry; apply N.ltb_ge; lia|reflexivity]).
  set (ulen := 8 + blen payload). set (total := 20 + ulen).
  assert (Hul : ulen < 65536) by (subst ulen; lia).
  destruct (header_csum_exists total s4 d4 Ls Ld Bs Bd) as [hc Hhc]. rewrite Hhc. cbn [rbind].
  destruct (ip4_header_verifies total s4 d4 hc hc Ls Ld Bs Bd Hhc eq_refl) as [Hhc16 Hhv].
  assert (Es : sum_words ((s4 ++ d4 ++ [0; 17] ++ put16 ulen) ++ udp_header sp dp ulen 0 ++ payload)
               = sum_words s4 + sum_words d4 + 17 + ulen + (sp + dp + ulen + sum_words payload)).
  { rewrite sum_words_app by (rewrite !app_length, Ls, Ld; reflexivity).
    rewrite (sum_words_app s4) by (rewrite Ls; reflexivity). rewrite (sum_words_app d4) by (rewrite Ld; reflexivity).
    rewrite (sum_words_app [0; 17]) by reflexivity. rewrite put16_exact, udp_seg_sum by (try assumption; lia).
    change (sum_words [0; 17]) with 17. lia. }
  rewrite Es.
  destruct (udp_csum_generic s4 d4 sp dp payload _ Ls Ld Bs Bd Bp Hsp Hdp Hl eq_refl) as [c [Hc [U1 [U2 U3]]]].
  fold ulen in Hc, U3. rewrite Hc. cbn [rbind]. eexists. split; [reflexivity|].
  destruct (frame4_assemble s4 d4 sp dp payload hc (if c =? 0 then 65535 else c) Ls Ld Hsp Hdp Hl Hhv U1 U3) as [A [B C]].
  split; [exact A|]. split; [exact B|]. subst total ulen. rewrite C.
  unfold put16, byte_of. intros Hz. injection Hz as H1 H2. lia.
Qed.

Lemma build_ipv4_udp_frame_fields : forall v ovf src dst sp dp payload s4 d4 f,
  to4 src = Some s4 -> to4 dst = Some d4 -> build_ipv4_udp_frame v ovf src dst sp dp payload = Ok (Some f) ->
  frame4_fields f s4 d4 sp dp.
Proof.
  intros v ovf src dst sp dp payload s4 d4 f Hs Hd H. pose proof (to4_length _ _ Hs) as Ls. pose proof (to4_length _ _ Hd) as Ld.
  unfold build_ipv4_udp_frame in H. rewrite Hs, Hd in H. cbn zeta in H.
  destruct (ovf && (65535 <? 20 + (8 + blen payload)))%bool; [discriminate|].
  destruct (csum_finish _) as [hc| | |]; cbn [rbind] in H; try discriminate.
  destruct (udp4_csum _ _ _ _) as [uc| | |]; cbn [rbind] in H; try discriminate.
  assert (E : f = ip4_header (20 + (8 + blen payload)) s4 d4 hc ++ udp_header sp dp (8 + blen payload) uc ++ payload) by congruence.
  subst f. cells4 s4 Ls. cells4 d4 Ld. unfold frame4_fields, ip4_header, udp_header, put16. cbn [app firstn skipn]. repeat split.
Qed.

(* ================================================================== BuildOption82 *)
Lemma sub_tlv_cons : forall f c d rest, (length d <= 255)%nat ->
  sub_tlv (S f) (c :: blen d :: d ++ rest) =
  match sub_tlv f rest with Some os => Some ((c, d) :: os) | None => None end.
Proof.
  intros f c d rest Hd. cbn [sub_tlv]. rewrite to_nat_blen, ltb_app_false, skipn_exact, firstn_exact by reflexivity. reflexivity.
Qed.
Definition o82_subs (fl un : bool) (circuit remote : bytes) : list (N * bytes) :=
  [(1, circuit); (2, remote)] ++ (if fl then [(10, [if un then 1 else 0])] else []).
Definition o82_len (fl : bool) (circuit remote : bytes) : nat :=
  (2 + length circuit + 2 + length remote + (if fl then 3 else 0))%nat.

Lemma build_option82_spec : forall fl un circuit remote,
  ((o82_len fl circuit remote <= 255)%nat ->
     exists body, build_option82 fl un circuit remote = Ok (82 :: blen body :: body) /\
                  length body = o82_len fl circuit remote /\ sub_tlv 4 body = Some (o82_subs fl un circuit remote)) /\
  ((255 < o82_len fl circuit remote)%nat -> exists e, build_option82 fl un circuit remote = Err e).
Proof.
  intros fl un circuit remote. unfold build_option82, o82_len. split; intros H.
  - destruct (N.ltb_spec 255 (blen circuit)) as [H1|H1]; [unfold blen in H1; lia|].
    destruct (N.ltb_spec 255 (blen remote)) as [H2|H2]; [unfold blen in H2; lia|].
    destruct (N.ltb_spec 255 (2 + blen circuit + 2 + blen remote + (if fl then 3 else 0))) as [H3|H3];
      [unfold blen in H3; destruct fl; lia|].
    set (body := [1; blen circuit] ++ circuit ++ [2; blen remote] ++ remote ++ (if fl then [10; 1; if un then 1 else 0] else [])).
    exists body.
    assert (Lb : length body = (2 + length circuit + 2 + length remote + (if fl then 3 else 0))%nat)
      by (subst body; rewrite !app_length; destruct fl; cbn [length]; lia).
    assert (Eblen : blen body = 2 + blen circuit + 2 + blen remote + (if fl then 3 else 0))
      by (unfold blen; rewrite Lb; destruct fl; lia).
    split; [|split; [exact Lb|]].
    + rewrite Eblen. reflexivity.
    + subst body. unfold o82_subs. cbn [app]. rewrite sub_tlv_cons by (unfold blen in H1; lia).
      rewrite sub_tlv_cons by (unfold blen in H2; lia).
      destruct fl; cbn [app].
      * change [10; 1; if un then 1 else 0] with (10 :: blen [if un then 1 else 0] :: [if un then 1 else 0] ++ []).
        rewrite sub_tlv_cons by (cbn; lia). reflexivity.
      * reflexivity.
  - destruct (N.ltb_spec 255 (blen circuit)); [eauto|]. destruct (N.ltb_spec 255 (blen remote)); [eauto|].
    destruct (N.ltb_spec 255 (2 + blen circuit + 2 + blen remote + (if fl then 3 else 0))) as [H3|H3]; [eauto|].
    unfold blen in H3. destruct fl; lia.
Qed.

(* what the relay does with it: InsertOption82(pkt, BuildOption82(...), "replace") *)
Lemma build_and_insert_option82 : forall hdr its tl fl un circuit remote,
  length hdr = 240%nat -> Forall item_ok its -> wf_tail tl -> (o82_len fl circuit remote <= 255)%nat ->
  exists o82 out body, build_option82 fl un circuit remote = Ok o82 /\
    insert_option82 Repaired (wf_pkt hdr its tl) o82 Replace = Ok out /\ firstn 240 out = hdr /\
    ref_options out = (filter (not_code 82) (opts_of its) ++ [(82, body)], tail_end tl) /\
    sub_tlv 4 body = Some (o82_subs fl un circuit remote).
Proof.
  intros hdr its tl fl un circuit remote Lh Hok Htl Hlen.
  destruct (proj1 (build_option82_spec fl un circuit remote) Hlen) as [body [Eb [Lb Hs]]].
  destruct (opt82_replace_faithful hdr its tl body Lh Hok Htl ltac:(lia)) as [out [Eo [Eh Er]]].
  exists (82 :: blen body :: body), out, body. auto.
Qed.

(* ================================================================== lease parameters -> reply options *)
Lemma split_items_small : forall f c d, (length d <= 255)%nat -> split_items f c d = [Opt c d].
Proof. intros [|f] c d H; cbn [split_items]; [reflexivity|]. destruct (Nat.ltb_spec 255 (length d)); [lia|reflexivity]. Qed.
Lemma reply_items_small : forall mt opts, Forall (fun o => (length (snd o) <= 255)%nat) opts ->
  opts_of (reply_items mt opts) = (53, [mt mod 256]) :: opts.
Proof.
  intros mt opts H. unfold reply_items. cbn [map concat fst snd]. rewrite split_items_small by (cbn; lia). cbn [app opts_of]. f_equal.
  induction opts as [|[c d] r IH]; [reflexivity|]. inversion H; subst. cbn [map concat fst snd] in *.
  rewrite split_items_small by assumption. cbn [app opts_of]. f_equal. apply IH. assumption.
Qed.
Lemma reply_shape : forall pad xid ci yi si hw mt opts, (length hw <= 212)%nat -> Forall opt_code_ok opts ->
  build_dhcp4_reply Repaired pad xid ci yi si hw mt opts = Ok (wf_pkt (reply_hdr xid ci yi si hw) (reply_items mt opts) (255 :: zeros pad)) /\
  Forall item_ok (reply_items mt opts).
Proof.
  intros pad xid ci yi si hw mt opts Hhw Hok.
  assert (Hok' : Forall opt_code_ok ((53, [mt mod 256]) :: opts)) by (constructor; [split; cbn; lia|assumption]).
  destruct (write_opts_enc _ Hok') as [E [Oki V]]. cbn zeta in E, Oki. fold (reply_items mt opts) in E, Oki.
  split; [|exact Oki]. unfold build_dhcp4_reply. destruct (Nat.ltb_spec 212 (length hw)); [lia|]. f_equal.
  unfold wf_pkt, reply_hdr. rewrite <- E. unfold write_opts. cbn [map concat fst snd]. rewrite <- !app_assoc. reflexivity.
Qed.

Lemma zeros_bytes : forall n, bytes_ok (zeros n).
Proof. intros. apply Forall_forall. intros x Hx. apply repeat_spec in Hx. subst. unfold byte. lia. Qed.
Lemma firstn_bytes : forall n l, bytes_ok l -> bytes_ok (firstn n l).
Proof. intros n l H. apply Forall_forall. intros x Hx. eapply Forall_forall; [exact H|]. rewrite <- (firstn_skipn n l). apply in_or_app. auto. Qed.
Lemma skipn_bytes : forall n l, bytes_ok l -> bytes_ok (skipn n l).
Proof. intros n l H. apply Forall_forall. intros x Hx. eapply Forall_forall; [exact H|]. rewrite <- (firstn_skipn n l). apply in_or_app. auto. Qed.
Lemma ip4_field_bytes : forall ip, ip_ok ip -> bytes_ok (ip4_field ip).
Proof.
  intros ip H. unfold ip4_field, field. destruct (to4 ip) as [b|] eqn:E; [|apply zeros_bytes].
  apply firstn_bytes. apply Forall_app. split; [exact (proj2 (to4_some _ _ E H))|apply zeros_bytes].
Qed.
Lemma to4_bytes : forall ip, ip_ok ip -> bytes_ok (opt_bytes (to4 ip)).
Proof. intros ip H. destruct (to4 ip) as [b|] eqn:E; [exact (proj2 (to4_some _ _ E H))|constructor]. Qed.
Lemma add_opt_split_bytes : forall f c d, c < 256 -> bytes_ok d -> bytes_ok (add_opt_split f c d).
Proof.
  induction f as [|f IH]; intros c d Hc Hd; cbn [add_opt_split].
  - apply Forall_app. split; [|exact Hd]. repeat constructor; unfold byte; lia.
  - destruct (Nat.ltb_spec 255 (length d)).
    + apply Forall_app. split; [repeat constructor; unfold byte; lia|]. apply Forall_app. split; [apply firstn_bytes; exact Hd|].
      apply IH; [exact Hc|apply skipn_bytes; exact Hd].
    + apply Forall_app. split; [|exact Hd]. repeat constructor; unfold byte, blen; lia.
Qed.
Definition opt_bytes_ok (o : N * bytes) : Prop := fst o < 256 /\ bytes_ok (snd o).
Lemma write_opts_bytes : forall opts, Forall opt_bytes_ok opts -> bytes_ok (write_opts Repaired opts).
Proof.
  induction opts as [|[c d] r IH]; intros H; [constructor|]. inversion H as [|? ? [Hc Hd] Hr]; subst.
  unfold write_opts. cbn [map concat]. apply Forall_app. split; [apply add_opt_split_bytes; assumption|apply IH; assumption].
Qed.
Lemma reply_bytes : forall pad xid ci yi si hw mt opts p, ip_ok ci -> ip_ok yi -> ip_ok si -> bytes_ok hw -> Forall opt_bytes_ok opts ->
  build_dhcp4_reply Repaired pad xid ci yi si hw mt opts = Ok p -> bytes_ok p.
Proof.
  intros pad xid ci yi si hw mt opts p Hci Hyi Hsi Hhw Hopts H. unfold build_dhcp4_reply in H.
  destruct (212 <? length hw)%nat; [discriminate|]. match type of H with Ok ?x = Ok _ => assert (E : p = x) by congruence end. subst p. clear H.
  unfold magic, add_opt.
  repeat (apply Forall_app; split);
    first [ apply put32_bytes | apply zeros_bytes | apply ip4_field_bytes; assumption
          | apply firstn_bytes; apply Forall_app; split; [assumption|apply zeros_bytes]
          | apply write_opts_bytes; assumption
          | apply add_opt_split_bytes; [lia|repeat constructor; unfold byte; lia]
          | repeat constructor; unfold byte; lia ].
Qed.

(* RFC 3442 *)
Definition route_ok (r : N * option bytes * option bytes) : Prop :=
  let '(ones, dst, nh) := r in ones <= 32 /\ length (opt_bytes (to4 dst)) = 4%nat /\ length (opt_bytes (to4 nh)) = 4%nat.
Definition route_view (r : N * option bytes * option bytes) : N * bytes * bytes :=
  let '(ones, dst, nh) := r in (ones, firstn (N.to_nat ((ones + 7) / 8)) (opt_bytes (to4 dst)), opt_bytes (to4 nh)).
Lemma classless_roundtrip : forall routes f, Forall route_ok routes ->
  exists rt, classless routes = Ok rt /\ ref_routes (length routes + S f) rt = Some (map route_view routes).
Proof.
  induction routes as [|[[ones dst] nh] r IH]; intros f H.
  - exists []. split; reflexivity.
  - inversion H as [|? ? Hro Hr]; subst. unfold route_ok in Hro. destruct Hro as [Ho [Ld Ln]]. destruct (IH f Hr) as [rt [E R]].
    cbn [classless]. destruct (N.leb_spec ones 32); [|lia].
    set (sb := N.to_nat ((ones + 7) / 8)). assert (Hsb : (sb <= 4)%nat) by (subst sb; lia).
    destruct (Nat.ltb_spec (length (opt_bytes (to4 dst))) sb); [lia|]. rewrite E. cbn [rbind].
    eexists. split; [reflexivity|]. cbn [length plus app ref_routes map route_view].
    destruct (N.ltb_spec 32 ones); [lia|]. fold sb.
    assert (Lf : length (firstn sb (opt_bytes (to4 dst))) = sb) by (rewrite firstn_length; lia).
    destruct (Nat.ltb_spec (length (firstn sb (opt_bytes (to4 dst)) ++ opt_bytes (to4 nh) ++ rt)) (sb + 4)) as [Hlt|Hge];
      [rewrite !app_length, Lf, Ln in Hlt; lia|].
    replace (firstn sb (opt_bytes (to4 dst)) ++ opt_bytes (to4 nh) ++ rt)
      with ((firstn sb (opt_bytes (to4 dst)) ++ opt_bytes (to4 nh)) ++ rt) by (rewrite <- app_assoc; reflexivity).
    rewrite skipn_exact by (rewrite app_length, Lf, Ln; reflexivity). rewrite R.
    rewrite <- app_assoc. rewrite firstn_exact by exact Lf.
    rewrite skipn_exact by exact Lf. rewrite firstn_exact by exact Ln. reflexivity.
Qed.

Definition resolved_opts (lease : N) (mask : bytes) (sid router : option bytes) (dns : list (option bytes)) (rt : bytes)
           (routes : list (N * option bytes * option bytes)) (extra : list (N * bytes)) : list (N * bytes) :=
  [(51, put32 lease)] ++ nz 1 mask
  ++ (match sid with Some _ => nz 54 (opt_bytes (to4 sid)) | None => [] end)
  ++ (match router with Some _ => nz 3 (opt_bytes (to4 router)) | None => [] end)
  ++ (match dns with [] => [] | _ => nz 6 (dns_data dns) end)
  ++ (match routes with [] => [] | _ => [(121, rt)] end)
  ++ extra.
Lemma nz_Forall : forall (P : N * bytes -> Prop) c d, Forall P [(c, d)] -> Forall P (nz c d).
Proof. intros P c d H. destruct d; [constructor|exact H]. Qed.
Lemma nz_nonempty : forall c d o, In o (nz c d) -> o = (c, d) /\ d <> [].
Proof. intros c d o H. destruct d; [contradiction|]. cbn [nz In] in H. destruct H as [<-|[]]. split; [reflexivity|discriminate]. Qed.
Definition std_codes : list N := [53; 51; 1; 54; 3; 6; 121].
Definition raw_ok (o : N * bytes) : Prop := raw_option_valid o = true /\ fst o < 256 /\ bytes_ok (snd o).

Lemma raw_ok_code : forall o, raw_option_valid o = true -> opt_code_ok o /\ (forall c, In c std_codes -> has_code c o = false) /\ (length (snd o) <= 255)%nat.
Proof.
  intros [c d] H. unfold raw_option_valid in H. cbn [fst snd] in H. apply andb_true_iff in H. destruct H as [H1 H2].
  apply negb_true_iff in H1. cbn [existsb] in H1. repeat (apply orb_false_iff in H1; destruct H1 as [? H1]).
  repeat match goal with E : (_ =? _) = false |- _ => apply N.eqb_neq in E end.
  split; [split; cbn [fst]; congruence|]. split; [|apply Nat.leb_le; exact H2].
  intros c0 Hc. unfold has_code, std_codes in *. cbn [fst In] in *. apply N.eqb_neq.
  repeat (destruct Hc as [<-|Hc]; [congruence|]). contradiction.
Qed.
Lemma piece_bound : forall c k (l : list (N * bytes)), (forall o, In o l -> fst o = k) -> (length l <= 1)%nat ->
  (length (filter (has_code c) l) <= if (c =? k)%N then 1 else 0)%nat.
Proof.
  intros c k l Hk Hl. destruct l as [|o [|o2 r]]; [destruct (c =? k); cbn; lia| |cbn in Hl; lia].
  cbn [filter]. unfold has_code. rewrite (Hk o (or_introl eq_refl)). rewrite N.eqb_sym. destruct (c =? k); cbn [length]; lia.
Qed.
Lemma std_once : forall mt lease mask sid router dns rt routes extra c, Forall raw_ok extra -> In c std_codes ->
  Nat.le (length (filter (has_code c) ((53, [mt mod 256]) :: resolved_opts lease mask sid router dns rt routes extra))) 1.
Proof.
  intros mt lease mask sid router dns rt routes extra c Hex Hc.
  assert (Fe : filter (has_code c) extra = []).
  { induction extra as [|o r IH]; [reflexivity|]. inversion Hex as [|? ? [Hv _] Hr]; subst. cbn [filter].
    rewrite (proj1 (proj2 (raw_ok_code o Hv)) c Hc). apply IH. assumption. }
  unfold resolved_opts. change ((53, [mt mod 256]) :: ?x) with ([(53, [mt mod 256])] ++ x). rewrite !filter_app, !app_length, Fe.
  assert (NZk : forall k d, (forall o, In o (nz k d) -> fst o = k) /\ (length (nz k d) <= 1)%nat)
    by (intros k d; destruct d; cbn [nz In length fst]; split; try lia; intros o [<-|[]]; reflexivity).
  pose proof (piece_bound c 53 [(53, [mt mod 256])] ltac:(intros o [<-|[]]; reflexivity) ltac:(cbn; lia)) as B53.
  pose proof (piece_bound c 51 [(51, put32 lease)] ltac:(intros o [<-|[]]; reflexivity) ltac:(cbn; lia)) as B51.
  pose proof (piece_bound c 1 (nz 1 mask) (proj1 (NZk 1 mask)) (proj2 (NZk 1 mask))) as B1.
  assert (B54 : (length (filter (has_code c) match sid with Some _ => nz 54%N (opt_bytes (to4 sid)) | None => [] end) <= if (c =? 54)%N then 1 else 0)%nat)
    by (destruct sid; [apply piece_bound; apply NZk|destruct (c =? 54); cbn; lia]).
  assert (B3 : (length (filter (has_code c) match router with Some _ => nz 3%N (opt_bytes (to4 router)) | None => [] end) <= if (c =? 3)%N then 1 else 0)%nat)
    by (destruct router; [apply piece_bound; apply NZk|destruct (c =? 3); cbn; lia]).
  assert (B6 : (length (filter (has_code c) match dns with [] => [] | _ => nz 6%N (dns_data dns) end) <= if (c =? 6)%N then 1 else 0)%nat)
    by (destruct dns; [destruct (c =? 6); cbn; lia|apply piece_bound; apply NZk]).
  assert (B121 : (length (filter (has_code c) match routes with [] => [] | _ => [(121%N, rt)] end) <= if (c =? 121)%N then 1 else 0)%nat)
    by (destruct routes; [destruct (c =? 121); cbn; lia|apply piece_bound; [intros o [<-|[]]; reflexivity|cbn; lia]]).
  unfold std_codes in Hc. cbn [In] in Hc. cbn [length] in *.
  repeat (destruct Hc as [<-|Hc]; [cbn [N.eqb Pos.eqb] in *; unfold bytes in *; cbn [length] in *; lia|]). contradiction.
Qed.

Definition bcast : bytes := [255; 255; 255; 255].

Lemma resolved_reply : forall ovf pad xid ci hw mt yip router sid mask dns lease routes extra src s4,
  xid < 4294967296 -> (length hw <= 16)%nat -> lease < 4294967296 ->
  ip_ok ci -> ip_ok yip -> ip_ok router -> ip_ok sid -> bytes_ok hw -> bytes_ok mask -> Forall ip_ok dns ->
  Forall route_ok routes -> Forall (fun r => ip_ok (snd (fst r)) /\ ip_ok (snd r)) routes -> Forall raw_ok extra ->
  src = match sid with Some _ => sid | None => router end -> to4 src = Some s4 ->
  exists rt payload view,
    (routes = [] -> rt = []) /\
    (routes <> [] -> classless routes = Ok rt /\ ref_routes (length routes + 1) rt = Some (map route_view routes)) /\
    build_dhcp4_reply Repaired pad xid ci yip src hw mt (resolved_opts lease mask sid router dns rt routes extra) = Ok payload /\
    bytes_ok payload /\
    (blen payload <= 65507 ->
       exists f, build_response_resolved Repaired ovf pad xid ci hw mt yip router sid mask dns lease routes extra = Ok (Some f) /\
                 frame4_ok f payload /\ frame4_fields f s4 bcast 67 68 /\ firstn 2 (skipn 26 f) <> [0; 0]) /\
    ref_decode4 payload = Some view /\ v_op view = 2 /\ v_xid view = xid /\ v_yiaddr view = ip4_field yip /\
    v_siaddr view = s4 /\ v_chaddr view = hw ++ zeros (16 - length hw) /\ v_cookie_ok view = true /\ v_end view = EndSeen (zeros pad) /\
    (forall code, opt_value code (v_opts view) =
                  concat (map snd (filter (has_code code) ((53, [mt mod 256]) :: resolved_opts lease mask sid router dns rt routes extra)))) /\
    ((length mask <= 255)%nat -> (length (dns_data dns) <= 255)%nat -> (length rt <= 255)%nat ->
       v_opts view = (53, [mt mod 256]) :: resolved_opts lease mask sid router dns rt routes extra).
Proof.
  intros ovf pad xid ci hw mt yip router sid mask dns lease routes extra src s4 Hx Hhw Hlease Oci Oyi Orouter Osid Bhw Bmask Odns Hroutes Broutes Hextra Esrc Hsrc.
  (* the classless-route bytes *)
  destruct (classless_roundtrip routes 0 Hroutes) as [rt0 [Ert0 Rrt0]].
  set (rt := match routes with [] => [] | _ => rt0 end).
  assert (Hrt : (match routes with [] => Ok [] | _ => classless routes end) = Ok rt) by (subst rt; destruct routes; [reflexivity|exact Ert0]).
  assert (Brt : bytes_ok rt0).
  { clear - Ert0 Broutes Hroutes. revert rt0 Ert0. induction routes as [|[[ones dst] nh] r IH]; intros rt0 E.
    - cbn in E. injection E as <-. constructor.
    - inversion Broutes as [|? ? [Bd Bn] Br]; subst. inversion Hroutes as [|? ? Hro Hr]; subst. unfold route_ok in Hro. cbn [fst snd] in Bd, Bn.
      cbn [classless] in E. destruct (N.leb_spec ones 32); [|lia].
      destruct (length (opt_bytes (to4 dst)) <? _)%nat; [discriminate|].
      destruct (classless r) as [rest| | |] eqn:Er; cbn [rbind] in E; try discriminate.
      match type of E with Ok ?x = Ok _ => assert (E' : rt0 = x) by congruence end. subst rt0.
      repeat (apply Forall_app; split);
        first [ apply firstn_bytes; apply to4_bytes; assumption | apply to4_bytes; assumption
              | solve [repeat constructor; unfold byte; lia] | eapply IH; eauto ]. }
  set (opts := resolved_opts lease mask sid router dns rt routes extra).
  assert (Hsrc_ok : ip_ok src) by (subst src; destruct sid; assumption).
  assert (Hcodes : Forall opt_code_ok opts /\ Forall opt_bytes_ok opts).
  { subst opts. unfold resolved_opts.
    assert (Hx1 : Forall opt_code_ok extra /\ Forall opt_bytes_ok extra).
    { clear - Hextra. induction extra as [|o r IH]; [split; constructor|]. inversion Hextra as [|? ? [Hv [Hc Hb]] Hr]; subst.
      destruct (IH Hr). split; constructor; auto. exact (proj1 (raw_ok_code o Hv)). split; assumption. }
    destruct Hx1 as [X1 X2].
    assert (Bdns : bytes_ok (dns_data dns)).
    { clear - Odns. unfold dns_data. induction dns as [|d r IH]; [constructor|]. inversion Odns; subst. cbn [map concat].
      apply Forall_app. split; [|apply IH; assumption]. pose proof (to4_bytes d ltac:(assumption)) as B. destruct (to4 d); [exact B|constructor]. }
    assert (Brt' : bytes_ok rt) by (subst rt; destruct routes; [constructor|exact Brt]).
    assert (T : forall c d, c <> 0 -> c <> 255 -> c < 256 -> bytes_ok d ->
                Forall opt_code_ok [(c, d)] /\ Forall opt_bytes_ok [(c, d)]).
    { intros c d A B C D. split; (constructor; [split; cbn [fst snd]; assumption|constructor]). }
    destruct (T 51 (put32 lease)) as [a1 b1]; try lia; [apply put32_bytes|].
    destruct (T 1 mask) as [a2 b2]; try lia; [assumption|].
    destruct (T 54 (opt_bytes (to4 sid))) as [a3 b3]; try lia; [apply to4_bytes; assumption|].
    destruct (T 3 (opt_bytes (to4 router))) as [a4 b4]; try lia; [apply to4_bytes; assumption|].
    destruct (T 6 (dns_data dns)) as [a5 b5]; try lia; [assumption|].
    destruct (T 121 rt) as [a6 b6]; try lia; [assumption|].
    split; repeat (apply Forall_app; split); try assumption;
      first [ solve [apply nz_Forall; assumption]
            | solve [destruct sid; [apply nz_Forall; assumption|constructor]] | solve [destruct router; [apply nz_Forall; assumption|constructor]]
            | solve [destruct dns; [constructor|apply nz_Forall; assumption]] | solve [destruct routes; [constructor|assumption]] ]. }
  destruct Hcodes as [Hco Hbo].
  destruct (reply_decodes pad xid ci yip src hw mt opts Hx Hhw Hco) as [payload [view [Ep [Ev [V1 [V2 [V3 [V4 [V5 [V6 [V7 [V8 V9]]]]]]]]]]]].
  exists rt, payload, view. split; [intros E0; subst rt; rewrite E0; reflexivity|].
  pose proof (reply_bytes _ _ _ _ _ _ _ _ _ Oci Oyi Hsrc_ok Bhw Hbo Ep) as Bpayload.
  split; [|split; [exact Ep|split; [exact Bpayload|split; [|split; [exact Ev|]]]]].
  - intros Hne. subst rt. destruct routes as [|r0 rs]; [contradiction|]. split; [exact Ert0|exact Rrt0].
  - intros Hlen. unfold build_response_resolved. rewrite <- Esrc, Hrt. cbn [rbind].
    match goal with |- context [build_dhcp4_reply Repaired pad xid ci yip src hw mt ?o] => change o with opts end.
    rewrite Ep. cbn [rbind]. change [255; 255; 255; 255] with bcast.
    assert (Hb : to4 (Some bcast) = Some bcast) by reflexivity.
    destruct (build_ipv4_udp_frame_ok Repaired ovf src (Some bcast) 67 68 payload s4 bcast Hsrc Hb Hsrc_ok) as [f [Ef [Fok Fnz]]];
      try assumption; try lia; [unfold bcast; repeat constructor; unfold byte; lia|].
    exists f. split; [exact Ef|]. split; [exact Fok|]. split; [|apply Fnz; reflexivity].
    eapply build_ipv4_udp_frame_fields; eassumption.
  - destruct (reply_shape pad xid ci yip src hw mt opts ltac:(lia) Hco) as [Esh Oki]. rewrite Ep in Esh.
    assert (Epay : payload = wf_pkt (reply_hdr xid ci yip src hw) (reply_items mt opts) (255 :: zeros pad)) by congruence.
    pose proof (reply_hdr_length xid ci yip src hw) as LH.
    assert (Etl : wf_tail (255 :: zeros pad)) by (right; eexists; reflexivity).
    assert (Evo : v_opts view = opts_of (reply_items mt opts) /\ v_siaddr view = firstn 4 (skipn 20 payload)).
    { clear - Ev Epay LH Oki Etl. subst payload. unfold ref_decode4 in Ev. rewrite wf_pkt_len in Ev by assumption.
      rewrite ref_options_wf in Ev by assumption. injection Ev as <-. cbn [v_opts v_siaddr]. split; reflexivity. }
    destruct Evo as [Evo Esi].
    repeat split; try assumption.
    + rewrite Esi, Epay. unfold wf_pkt, reply_hdr. rewrite <- !app_assoc.
      assert (Fl : forall ip, length (ip4_field ip) = 4%nat) by (intros; apply field_length).
      match goal with |- firstn 4 (skipn 20 ?l) = _ =>
        replace l with (([2; 1; 6; 0] ++ put32 xid ++ zeros 4 ++ ip4_field ci ++ ip4_field yip) ++ ip4_field src ++
                        (zeros 4 ++ firstn 208 (hw ++ zeros 208) ++ magic ++ enc (reply_items mt opts) ++ 255 :: zeros pad))
          by (rewrite <- !app_assoc; reflexivity) end.
      rewrite block; [|rewrite !app_length, !Fl; reflexivity|apply Fl]. unfold ip4_field. apply field4_id. exact Hsrc.
    + intros L1 L2 L3. rewrite Evo. apply reply_items_small. subst opts. unfold resolved_opts.
      assert (Hex : Forall (fun o : N * bytes => (length (snd o) <= 255)%nat) extra).
      { clear - Hextra. induction extra as [|o r IH]; [constructor|]. inversion Hextra as [|? ? [Hv _] Hr]; subst.
        constructor; [exact (proj2 (proj2 (raw_ok_code o Hv)))|apply IH; assumption]. }
      assert (H4 : forall ip, (length (opt_bytes (to4 ip)) <= 255)%nat).
      { intros ip. destruct (to4 ip) eqn:E4; cbn [opt_bytes]; [rewrite (to4_length _ _ E4)|cbn]; lia. }
      repeat (apply Forall_app; split); try exact Hex;
        first [ solve [constructor; [cbn [snd length put32]; lia|constructor]]
              | solve [apply nz_Forall; constructor; [exact L1|constructor]]
              | solve [destruct sid; [apply nz_Forall; constructor; [apply H4|constructor]|constructor]]
              | solve [destruct router; [apply nz_Forall; constructor; [apply H4|constructor]|constructor]]
              | solve [destruct dns; [constructor|apply nz_Forall; constructor; [exact L2|constructor]]]
              | solve [destruct routes; [constructor|constructor; [exact L3|constructor]]] ].
Qed.

Definition pool_opts (lease : N) (mask g4 : bytes) (dns : list (option bytes)) (extra : list (N * bytes)) : list (N * bytes) :=
  nz 54 g4 ++ [(51, put32 lease)] ++ nz 1 mask ++ nz 3 g4 ++ (match dns with [] => [] | _ => nz 6 (dns_data dns) end) ++ extra.

Lemma dns_data_bytes : forall dns, Forall ip_ok dns -> bytes_ok (dns_data dns).
Proof.
  intros dns Odns. unfold dns_data. induction dns as [|d r IH]; [constructor|]. inversion Odns; subst. cbn [map concat].
  apply Forall_app. split; [|apply IH; assumption]. pose proof (to4_bytes d ltac:(assumption)) as B. destruct (to4 d); [exact B|constructor].
Qed.

Lemma pool_reply : forall ovf pad xid ci hw mt ip gateway g4 mask dns lease extra,
  xid < 4294967296 -> (length hw <= 16)%nat -> ip_ok ci -> ip_ok ip -> ip_ok gateway -> bytes_ok hw -> bytes_ok mask ->
  Forall ip_ok dns -> Forall raw_ok extra -> to4 gateway = Some g4 ->
  exists payload view,
    build_dhcp4_reply Repaired pad xid ci ip gateway hw mt (pool_opts lease mask g4 dns extra) = Ok payload /\ bytes_ok payload /\
    (blen payload <= 65507 ->
       exists f, build_response_pool Repaired ovf pad xid ci hw mt ip gateway mask dns lease extra = Ok (Some f) /\
                 frame4_ok f payload /\ frame4_fields f g4 bcast 67 68 /\ firstn 2 (skipn 26 f) <> [0; 0]) /\
    ref_decode4 payload = Some view /\ v_op view = 2 /\ v_xid view = xid /\ v_yiaddr view = ip4_field ip /\
    v_chaddr view = hw ++ zeros (16 - length hw) /\ v_cookie_ok view = true /\ v_end view = EndSeen (zeros pad) /\
    (forall code, opt_value code (v_opts view) =
                  concat (map snd (filter (has_code code) ((53, [mt mod 256]) :: pool_opts lease mask g4 dns extra)))).
Proof.
  intros ovf pad xid ci hw mt ip gateway g4 mask dns lease extra Hx Hhw Oci Oip Ogw Bhw Bmask Odns Hextra Hgw.
  destruct (to4_some _ _ Hgw Ogw) as [Lg Bg].
  set (opts := pool_opts lease mask g4 dns extra).
  assert (Hx1 : Forall opt_code_ok extra /\ Forall opt_bytes_ok extra).
  { clear - Hextra. induction extra as [|o r IH]; [split; constructor|]. inversion Hextra as [|? ? [Hv [Hc Hb]] Hr]; subst.
    destruct (IH Hr). split; constructor; auto. exact (proj1 (raw_ok_code o Hv)). split; assumption. }
  destruct Hx1 as [X1 X2]. pose proof (dns_data_bytes dns Odns) as Bdns.
  assert (T : forall c d, c <> 0 -> c <> 255 -> c < 256 -> bytes_ok d -> opt_code_ok (c, d) /\ opt_bytes_ok (c, d))
    by (intros c d A B C D; split; split; cbn [fst snd]; assumption).
  assert (Hcodes : Forall opt_code_ok opts /\ Forall opt_bytes_ok opts).
  { subst opts. unfold pool_opts.
    destruct (T 54 g4) as [a1 b1]; try lia; [assumption|]. destruct (T 51 (put32 lease)) as [a2 b2]; try lia; [apply put32_bytes|].
    destruct (T 1 mask) as [a3 b3]; try lia; [assumption|]. destruct (T 3 g4) as [a4 b4]; try lia; [assumption|].
    destruct (T 6 (dns_data dns)) as [a5 b5]; try lia; [assumption|].
    assert (S1 : forall (P : N * bytes -> Prop) o, P o -> Forall P [o]) by (intros; constructor; [assumption|constructor]).
    split; repeat (apply Forall_app; split); try assumption;
      first [ solve [apply nz_Forall; apply S1; assumption] | solve [apply S1; assumption]
            | solve [destruct dns; [constructor|apply nz_Forall; apply S1; assumption]] ]. }
  destruct Hcodes as [Hco Hbo].
  destruct (reply_decodes pad xid ci ip gateway hw mt opts Hx Hhw Hco) as [payload [view [Ep [Ev [V1 [V2 [V3 [V4 [V5 [V6 [V7 [V8 V9]]]]]]]]]]]].
  exists payload, view.
  pose proof (reply_bytes _ _ _ _ _ _ _ _ _ Oci Oip Ogw Bhw Hbo Ep) as Bpayload.
  split; [exact Ep|]. split; [exact Bpayload|]. split; [|repeat split; assumption].
  intros Hlen. unfold build_response_pool. rewrite Hgw. cbn [opt_bytes].
  match goal with |- context [build_dhcp4_reply Repaired pad xid ci ip gateway hw mt ?o] => change o with opts end.
  rewrite Ep. cbn [rbind]. change [255; 255; 255; 255] with bcast.
  assert (Hb : to4 (Some bcast) = Some bcast) by reflexivity.
  destruct (build_ipv4_udp_frame_ok Repaired ovf gateway (Some bcast) 67 68 payload g4 bcast Hgw Hb Ogw) as [f [Ef [Fok Fnz]]];
    try assumption; try lia; [unfold bcast; repeat constructor; unfold byte; lia|].
  exists f. split; [exact Ef|]. split; [exact Fok|]. split; [|apply Fnz; reflexivity].
  eapply build_ipv4_udp_frame_fields; eassumption.
Qed.

(* ================================================================== DHCPv6 rewriters *)
Definition rw_data (v : variant) (dp : nat) (pref valid code : N) (d : bytes) : bytes :=
  if ((code =? 3) || (code =? 25))%bool then
    if (12 <=? length d)%nat then
      firstn 4 d ++ put32 (pref_t1 pref) ++ put32 (pref_t2 v pref) ++ rewrite6 v dp (length d) pref valid (skipn 12 d)
    else d
  else if code =? 5 then
    if (24 <=? length d)%nat then firstn 16 d ++ put32 pref ++ put32 valid ++ skipn 24 d else d
  else if code =? 26 then
    if (8 <=? length d)%nat then put32 pref ++ put32 valid ++ skipn 8 d else d
  else d.
Definition rw_opt (v : variant) (dp : nat) (pref valid : N) (o : N * bytes) : N * bytes :=
  (fst o, rw_data v dp pref valid (fst o) (snd o)).

Lemma rewrite6_step : forall v dp f pref valid c1 c2 l1 l2 r,
  rewrite6 v (S dp) (S f) pref valid (c1 :: c2 :: l1 :: l2 :: r) =
  let n := N.to_nat (be16 l1 l2) in
  if (length r <? n)%nat then c1 :: c2 :: l1 :: l2 :: r
  else [c1; c2; l1; l2] ++ rw_data v dp pref valid (be16 c1 c2) (firstn n r) ++ rewrite6 v (S dp) f pref valid (skipn n r).
Proof.
  intros. cbn [rewrite6]. cbn zeta. destruct (Nat.ltb_spec (length r) (N.to_nat (be16 l1 l2))) as [H|H]; [reflexivity|].
  unfold rw_data. rewrite firstn_length, Nat.min_l by lia. reflexivity.
Qed.
Lemma rewrite6_short : forall v dp f pref valid l, (length l < 4)%nat -> rewrite6 v dp f pref valid l = l.
Proof.
  intros v [|dp] [|f] pref valid l H; try reflexivity.
  destruct l as [|a [|b [|c [|d r]]]]; try reflexivity. cbn [length] in H. lia.
Qed.
Lemma rewrite6_length : forall v dp f pref valid l, length (rewrite6 v dp f pref valid l) = length l.
Proof.
  intros v dp. induction dp as [|dp IHdp]; intros f pref valid l; [reflexivity|].
  revert l. induction f as [|f IHf]; intros l; [reflexivity|].
  destruct l as [|c1 [|c2 [|l1 [|l2 r]]]]; try reflexivity.
  rewrite rewrite6_step. cbn zeta. destruct (Nat.ltb_spec (length r) (N.to_nat (be16 l1 l2))) as [H|H]; [reflexivity|].
  set (n := N.to_nat (be16 l1 l2)) in *. rewrite !app_length, IHf. cbn [length].
  assert (Ld : length (rw_data v dp pref valid (be16 c1 c2) (firstn n r)) = n).
  { assert (Lf : length (firstn n r) = n) by (rewrite firstn_length; lia). unfold rw_data.
    destruct ((be16 c1 c2 =? 3) || (be16 c1 c2 =? 25))%bool.
    - destruct (Nat.leb_spec 12 (length (firstn n r))); [|exact Lf].
      rewrite !app_length, IHdp, firstn_length, skipn_length, !put32_length. lia.
    - destruct (be16 c1 c2 =? 5).
      + destruct (Nat.leb_spec 24 (length (firstn n r))); [|exact Lf].
        rewrite !app_length, firstn_length, skipn_length, !put32_length. lia.
      + destruct (be16 c1 c2 =? 26); [|exact Lf].
        destruct (Nat.leb_spec 8 (length (firstn n r))); [|exact Lf].
        rewrite !app_length, skipn_length, !put32_length. lia. }
  rewrite Ld, skipn_length. lia.
Qed.
Lemma rw_data_length : forall v dp pref valid c d, length (rw_data v dp pref valid c d) = length d.
Proof.
  intros. unfold rw_data. destruct ((c =? 3) || (c =? 25))%bool.
  - destruct (Nat.leb_spec 12 (length d)); [|reflexivity]. rewrite !app_length, rewrite6_length, firstn_length, skipn_length, !put32_length. lia.
  - destruct (c =? 5).
    + destruct (Nat.leb_spec 24 (length d)); [|reflexivity]. rewrite !app_length, firstn_length, skipn_length, !put32_length. lia.
    + destruct (c =? 26); [|reflexivity]. destruct (Nat.leb_spec 8 (length d)); [|reflexivity].
      rewrite !app_length, skipn_length, !put32_length. lia.
Qed.
Lemma rewrite6_enc6 : forall v dp pref valid os f, Forall opt6_ok os ->
  rewrite6 v (S dp) (length os + f) pref valid (enc6 os) = enc6 (map (rw_opt v dp pref valid) os).
Proof.
  intros v dp pref valid os. induction os as [|[c d] r IH]; intros f Hok.
  - cbn [enc6 map concat length plus]. apply rewrite6_short. cbn. lia.
  - inversion Hok as [|? ? [Hc Hd] Hr]; subst. cbn [fst snd] in Hc, Hd.
    rewrite enc6_cons. cbn [fst snd length plus map]. rewrite enc6_cons. cbn [fst snd rw_opt].
    rewrite !opt6_cells. rewrite <- !app_comm_cons. rewrite rewrite6_step. cbn zeta.
    rewrite !be16_bytes by assumption. rewrite to_nat_blen, ltb_app_false, firstn_exact, skipn_exact by reflexivity.
    rewrite IH by assumption. cbn [app].
    assert (Eb : blen (rw_data v dp pref valid c d) = blen d) by (unfold blen; rewrite rw_data_length; reflexivity).
    rewrite Eb. reflexivity.
Qed.

Lemma rewrite_v6_lifetimes_spec : forall v h4 os pref valid, length h4 = 4%nat -> Forall opt6_ok os ->
  exists dp, rewrite_v6_lifetimes v (h4 ++ enc6 os) pref valid = h4 ++ enc6 (map (rw_opt v dp pref valid) os).
Proof.
  intros v h4 os pref valid L4 Hok. unfold rewrite_v6_lifetimes. rewrite app_length, L4.
  destruct (Nat.ltb_spec (4 + length (enc6 os)) 4); [lia|].
  rewrite firstn_exact, skipn_exact by assumption.
  assert (Hl : (length os <= length (enc6 os))%nat).
  { clear. induction os as [|o q IH]; [cbn; lia|]. rewrite enc6_cons, app_length. unfold opt6. rewrite !app_length. cbn [length put16]. lia. }
  exists (4 + length (enc6 os))%nat.
  replace (S (4 + length (enc6 os))) with (length os + (S (4 + length (enc6 os)) - length os))%nat at 2 by lia.
  rewrite rewrite6_enc6 by assumption. reflexivity.
Qed.
(* what a rewritten option looks like *)
Lemma rw_opt_facts : forall v dp pref valid o,
  fst (rw_opt v dp pref valid o) = fst o /\ length (snd (rw_opt v dp pref valid o)) = length (snd o) /\
  (fst o <> 3 -> fst o <> 25 -> fst o <> 5 -> fst o <> 26 -> rw_opt v dp pref valid o = o) /\
  ((fst o = 3 \/ fst o = 25) -> (12 <= length (snd o))%nat ->
     firstn 4 (snd (rw_opt v dp pref valid o)) = firstn 4 (snd o) /\
     firstn 8 (skipn 4 (snd (rw_opt v dp pref valid o))) = put32 (pref_t1 pref) ++ put32 (pref_t2 v pref)) /\
  (fst o = 5 -> (24 <= length (snd o))%nat ->
     snd (rw_opt v dp pref valid o) = firstn 16 (snd o) ++ put32 pref ++ put32 valid ++ skipn 24 (snd o)) /\
  (fst o = 26 -> (8 <= length (snd o))%nat ->
     snd (rw_opt v dp pref valid o) = put32 pref ++ put32 valid ++ skipn 8 (snd o)).
Proof.
  intros v dp pref valid [c d]. unfold rw_opt. cbn [fst snd]. split; [reflexivity|]. split; [apply rw_data_length|].
  split; [|split; [|split]].
  - intros H3 H25 H5 H26. unfold rw_data.
    destruct (N.eqb_spec c 3); [contradiction|]. destruct (N.eqb_spec c 25); [contradiction|].
    destruct (N.eqb_spec c 5); [contradiction|]. destruct (N.eqb_spec c 26); [contradiction|]. reflexivity.
  - intros Hc Hl. unfold rw_data. assert (E : ((c =? 3) || (c =? 25))%bool = true) by (destruct Hc as [->| ->]; reflexivity).
    rewrite E. destruct (Nat.leb_spec 12 (length d)); [|lia]. split.
    + rewrite firstn_app, firstn_firstn, firstn_length. replace (4 - Nat.min 4 (length d))%nat with 0%nat by lia.
      rewrite firstn_O, app_nil_r. f_equal.
    + rewrite skipn_exact by (rewrite firstn_length; lia). rewrite app_assoc. apply firstn_exact. reflexivity.
  - intros -> Hl. unfold rw_data. cbn [N.eqb Pos.eqb orb]. destruct (Nat.leb_spec 24 (length d)); [reflexivity|lia].
  - intros -> Hl. unfold rw_data. cbn [N.eqb Pos.eqb orb]. destruct (Nat.leb_spec 8 (length d)); [reflexivity|lia].
Qed.

(* ReplaceServerDUID / GetServerDUID *)
Lemma duid_loop_enc6 : forall a f d b nd, Forall opt6_ok a -> Forall (fun o => fst o <> 2) a -> blen d < 65536 ->
  duid_loop (length a + S f) (enc6 a ++ opt6 2 d ++ b) nd = enc6 a ++ opt6 2 nd ++ b.
Proof.
  induction a as [|[c x] r IH]; intros f d b nd Hok Hn Hd.
  - cbn [length plus enc6 concat map app]. rewrite opt6_cells. cbn [app duid_loop].
    rewrite !be16_bytes by (try assumption; lia). rewrite to_nat_blen, ltb_app_false, skipn_exact by reflexivity. reflexivity.
  - inversion Hok as [|? ? [Hc Hx] Hr]; subst. inversion Hn as [|? ? Hc2 Hn']; subst. cbn [fst snd] in Hc, Hx, Hc2.
    rewrite enc6_cons. cbn [fst snd length plus]. rewrite opt6_cells, <- !app_comm_cons. cbn [app duid_loop].
    rewrite !be16_bytes by assumption. rewrite <- app_assoc. rewrite to_nat_blen, ltb_app_false, skipn_exact, firstn_exact by reflexivity.
    destruct (N.eqb_spec c 2); [contradiction|]. rewrite IH by assumption. rewrite <- !app_assoc. reflexivity.
Qed.
Lemma get_duid_loop_enc6 : forall a f d b, Forall opt6_ok a -> Forall (fun o => fst o <> 2) a -> blen d < 65536 ->
  get_duid_loop (length a + S f) (enc6 a ++ opt6 2 d ++ b) = Some d.
Proof.
  induction a as [|[c x] r IH]; intros f d b Hok Hn Hd.
  - cbn [length plus enc6 concat map app]. rewrite opt6_cells. cbn [app get_duid_loop].
    rewrite !be16_bytes by (try assumption; lia). rewrite to_nat_blen, ltb_app_false, firstn_exact by reflexivity. reflexivity.
  - inversion Hok as [|? ? [Hc Hx] Hr]; subst. inversion Hn as [|? ? Hc2 Hn']; subst. cbn [fst snd] in Hc, Hx, Hc2.
    rewrite enc6_cons. cbn [fst snd length plus]. rewrite opt6_cells, <- !app_comm_cons. cbn [app get_duid_loop].
    rewrite !be16_bytes by assumption. rewrite <- app_assoc. rewrite to_nat_blen, ltb_app_false, skipn_exact by reflexivity.
    destruct (N.eqb_spec c 2); [contradiction|]. apply IH; assumption.
Qed.
Lemma replace_server_duid_spec : forall h4 a d b nd, length h4 = 4%nat -> Forall opt6_ok a -> Forall (fun o => fst o <> 2) a ->
  blen d < 65536 -> blen nd < 65536 ->
  replace_server_duid (h4 ++ enc6 (a ++ (2, d) :: b)) nd = h4 ++ enc6 (a ++ (2, nd) :: b) /\
  get_server_duid (h4 ++ enc6 (a ++ (2, nd) :: b)) = Some nd.
Proof.
  intros h4 a d b nd L4 Hok Hn Hd Hnd.
  assert (Hl : forall x : bytes, Nat.le (length a) (length (enc6 (a ++ (2, x) :: b)))).
  { intros x. rewrite enc6_app, app_length. clear. induction a as [|o q IH]; [cbn; lia|]. rewrite enc6_cons, app_length. unfold opt6.
    rewrite !app_length. cbn [length put16]. lia. }
  assert (Esh : forall x, enc6 (a ++ (2, x) :: b) = enc6 a ++ opt6 2 x ++ enc6 b) by (intros; rewrite enc6_app, enc6_cons; reflexivity).
  split.
  - unfold replace_server_duid. rewrite app_length, L4. destruct (Nat.ltb_spec (4 + length (enc6 (a ++ (2, d) :: b))) 4); [lia|].
    rewrite firstn_exact, skipn_exact by assumption. f_equal. pose proof (Hl d) as Hld.
    set (L := length (enc6 (a ++ (2, d) :: b))) in *.
    replace (S (4 + L)) with (length a + S (4 + L - length a))%nat by lia.
    rewrite !Esh. apply duid_loop_enc6; assumption.
  - unfold get_server_duid. rewrite app_length, L4. destruct (Nat.ltb_spec (4 + length (enc6 (a ++ (2, nd) :: b))) 4); [lia|].
    rewrite skipn_exact by assumption. pose proof (Hl nd) as Hld.
    set (L := length (enc6 (a ++ (2, nd) :: b))) in *.
    replace (S (4 + L)) with (length a + S (4 + L - length a))%nat by lia.
    rewrite Esh. apply get_duid_loop_enc6; assumption.
Qed.

(* unwrapping ANY relay-reply / relay-forward whose options are well-formed: first Relay-Message option wins *)
Lemma extract_any : forall hdr os inner rest, length hdr = 34%nat -> Forall opt6_ok os -> Forall (fun o => fst o <> 9) os ->
  blen inner < 65536 -> extract_relay_message (hdr ++ enc6 os ++ opt6 9 inner ++ rest) = Some inner.
Proof.
  intros hdr os inner rest LH Hok Hn Hi. unfold extract_relay_message. rewrite skipn_exact by assumption. rewrite app_length, LH.
  set (L := length (enc6 os ++ opt6 9 inner ++ rest)). destruct (Nat.ltb_spec (34 + L) 34); [lia|].
  assert (Hl : (length os <= L)%nat).
  { subst L. rewrite app_length. generalize (length (opt6 9 inner ++ rest)). clear. intros X. induction os as [|o q IH]; [cbn; lia|]. rewrite enc6_cons, app_length. unfold opt6.
    rewrite !app_length. cbn [length put16]. lia. }
  replace (S (34 + L)) with (length os + S (34 + L - length os))%nat by lia. apply extract_enc6; assumption.
Qed.

(* the DHCPv6 proxy's two-message sequence (plugins/dhcp6/proxy handleForwardAndRewrite) with VALUE semantics: the
   learnt server DUID is the one in the server's message, survives rewriting that message, and is what the forwarded
   REQUEST carries; the client sees the proxy's DUID *)
Lemma v6_proxy_sequence : forall h a sd b pd h' a' x b',
  length h = 4%nat -> length h' = 4%nat -> Forall opt6_ok a -> Forall (fun o => fst o <> 2) a ->
  Forall opt6_ok a' -> Forall (fun o => fst o <> 2) a' ->
  blen sd < 65536 -> blen pd < 65536 -> blen x < 65536 ->
  let adv := h ++ enc6 (a ++ (2, sd) :: b) in
  let req := h' ++ enc6 (a' ++ (2, x) :: b') in
  get_server_duid adv = Some sd /\
  get_server_duid (replace_server_duid adv pd) = Some pd /\
  replace_server_duid req sd = h' ++ enc6 (a' ++ (2, sd) :: b') /\
  get_server_duid (replace_server_duid req sd) = Some sd.
Proof.
  intros h a sd b pd h' a' x b' Lh Lh' Oa Na Oa' Na' Hsd Hpd Hx adv req. subst adv req.
  destruct (replace_server_duid_spec h a sd b sd Lh Oa Na Hsd Hsd) as [_ G0].
  destruct (replace_server_duid_spec h a sd b pd Lh Oa Na Hsd Hpd) as [R1 G1].
  destruct (replace_server_duid_spec h' a' x b' sd Lh' Oa' Na' Hx Hsd) as [R2 G2].
  repeat split; try assumption; rewrite ?R1, ?R2; assumption.
Qed.

(* ================================================================== RewriteV6Lifetimes: closed specification *)
(* A DHCPv6 option list in which IA_NA / IA_PD (codes 3 / 25) carry IAID, T1|T2 and a well-formed list of sub-options
   (IAADDR 5, IAPREFIX 26, status, ...; no IA nested inside an IA), everything else is a plain option. *)
Inductive opt6s :=
| Plain (c : N) (d : bytes)
| IA (c : N) (iaid t12 : bytes) (subs : list (N * bytes)).
Definition enc_o (o : opt6s) : N * bytes :=
  match o with Plain c d => (c, d) | IA c iaid t12 subs => (c, iaid ++ t12 ++ enc6 subs) end.
Definition not_ia (o : N * bytes) : Prop := fst o <> 3 /\ fst o <> 25.
Definition opt6s_ok (o : opt6s) : Prop :=
  match o with
  | Plain c d => not_ia (c, d) /\ opt6_ok (c, d)
  | IA c iaid t12 subs => (c = 3 \/ c = 25) /\ length iaid = 4%nat /\ length t12 = 8%nat /\
                          Forall opt6_ok subs /\ Forall not_ia subs /\ blen (iaid ++ t12 ++ enc6 subs) < 65536
  end.
(* the intended rewrite, written without any reference to the model: IAADDR (>= 24 bytes): bytes 16..23 := pref|valid;
   IAPREFIX (>= 8 bytes): bytes 0..7 := pref|valid; everything else untouched *)
Definition leaf (pref valid : N) (o : N * bytes) : N * bytes :=
  let '(c, d) := o in
  if c =? 5 then (if (24 <=? length d)%nat then (c, firstn 16 d ++ put32 pref ++ put32 valid ++ skipn 24 d) else (c, d))
  else if c =? 26 then (if (8 <=? length d)%nat then (c, put32 pref ++ put32 valid ++ skipn 8 d) else (c, d))
  else (c, d).
Definition spec_o (t1 t2 pref valid : N) (o : opt6s) : opt6s :=
  match o with
  | Plain c d => let '(c', d') := leaf pref valid (c, d) in Plain c' d'
  | IA c iaid t12 subs => IA c iaid (put32 t1 ++ put32 t2) (map (leaf pref valid) subs)
  end.

Lemma rw_opt_leaf : forall v dp pref valid o, not_ia o -> rw_opt v dp pref valid o = leaf pref valid o.
Proof.
  intros v dp pref valid [c d] [H3 H25]. cbn [fst] in *. unfold rw_opt, rw_data, leaf. cbn [fst snd].
  destruct (N.eqb_spec c 3); [contradiction|]. destruct (N.eqb_spec c 25); [contradiction|]. cbn [orb].
  destruct (c =? 5).
  - destruct (24 <=? length d)%nat; reflexivity.
  - destruct (c =? 26); [destruct (8 <=? length d)%nat|]; reflexivity.
Qed.
Lemma map_rw_leaf : forall v dp pref valid subs, Forall not_ia subs ->
  map (rw_opt v dp pref valid) subs = map (leaf pref valid) subs.
Proof.
  intros v dp pref valid subs H. induction subs as [|o r IH]; [reflexivity|]. inversion H; subst. cbn [map].
  rewrite rw_opt_leaf by assumption. rewrite IH by assumption. reflexivity.
Qed.
Lemma leaf_fst : forall pref valid o, fst (leaf pref valid o) = fst o.
Proof.
  intros pref valid [c d]. unfold leaf. destruct (c =? 5); [destruct (24 <=? length d)%nat; reflexivity|].
  destruct (c =? 26); [destruct (8 <=? length d)%nat|]; reflexivity.
Qed.
Lemma enc6_length_ge : forall os, (length os <= length (enc6 os))%nat.
Proof.
  induction os as [|o q IH]; [cbn; lia|]. rewrite enc6_cons, app_length. unfold opt6. rewrite !app_length. cbn [length put16]. lia.
Qed.
Lemma rw_opt_enc_o : forall v dp pref valid o, opt6s_ok o ->
  rw_opt v (S dp) pref valid (enc_o o) = enc_o (spec_o (pref_t1 pref) (pref_t2 v pref) pref valid o).
Proof.
  intros v dp pref valid [c d|c iaid t12 subs] Hok; cbn [opt6s_ok] in Hok.
  - destruct Hok as [Hn _]. cbn [enc_o spec_o]. rewrite rw_opt_leaf by assumption. destruct (leaf pref valid (c, d)). reflexivity.
  - destruct Hok as [Hc [Li [Lt [Os [Ns Hb]]]]]. cbn [enc_o spec_o]. unfold rw_opt. cbn [fst snd]. f_equal. unfold rw_data.
    assert (E : ((c =? 3) || (c =? 25))%bool = true) by (destruct Hc as [->| ->]; reflexivity). rewrite E.
    assert (Ll : (12 <= length (iaid ++ t12 ++ enc6 subs))%nat) by (rewrite !app_length; lia).
    destruct (Nat.leb_spec 12 (length (iaid ++ t12 ++ enc6 subs))); [|lia].
    rewrite firstn_exact by assumption.
    replace (iaid ++ t12 ++ enc6 subs) with ((iaid ++ t12) ++ enc6 subs) at 2 by (rewrite <- app_assoc; reflexivity).
    rewrite skipn_exact by (rewrite app_length; lia).
    pose proof (enc6_length_ge subs) as Hge.
    replace (length (iaid ++ t12 ++ enc6 subs)) with (length subs + (length (iaid ++ t12 ++ enc6 subs) - length subs))%nat
      by (rewrite !app_length; lia).
    rewrite rewrite6_enc6 by assumption. rewrite map_rw_leaf by assumption. rewrite <- !app_assoc. reflexivity.
Qed.
Lemma enc_o_ok : forall o, opt6s_ok o -> opt6_ok (enc_o o).
Proof.
  intros [c d|c iaid t12 subs] H; cbn [opt6s_ok enc_o] in *; [tauto|]. destruct H as [Hc [_ [_ [_ [_ Hb]]]]].
  split; cbn [fst snd]; [destruct Hc as [->| ->]; lia|exact Hb].
Qed.

Lemma rewrite_v6_lifetimes_nested : forall v h4 os pref valid, length h4 = 4%nat -> Forall opt6s_ok os ->
  rewrite_v6_lifetimes v (h4 ++ enc6 (map enc_o os)) pref valid =
  h4 ++ enc6 (map enc_o (map (spec_o (pref_t1 pref) (pref_t2 v pref) pref valid) os)).
Proof.
  intros v h4 os pref valid L4 Hok.
  assert (Hok6 : Forall opt6_ok (map enc_o os)).
  { apply Forall_forall. intros x Hx. apply in_map_iff in Hx. destruct Hx as [o [<- Ho]]. apply enc_o_ok. eapply Forall_forall; eassumption. }
  unfold rewrite_v6_lifetimes. rewrite app_length, L4.
  destruct (Nat.ltb_spec (4 + length (enc6 (map enc_o os))) 4); [lia|].
  rewrite firstn_exact, skipn_exact by assumption. f_equal.
  pose proof (enc6_length_ge (map enc_o os)) as Hge.
  replace (S (4 + length (enc6 (map enc_o os)))) with (length (map enc_o os) + (S (4 + length (enc6 (map enc_o os))) - length (map enc_o os)))%nat at 2 by lia.
  change (S (4 + length (enc6 (map enc_o os)))) with (S (4 + length (enc6 (map enc_o os)))).
  rewrite rewrite6_enc6 by assumption. f_equal. rewrite !map_map. apply map_ext_in. intros o Ho.
  apply rw_opt_enc_o. eapply Forall_forall; eassumption.
Qed.

(* the same through the independent TLV decoder: top level and inside every IA *)
Lemma spec_o_ok : forall t1 t2 pref valid o, opt6s_ok o -> opt6_ok (enc_o (spec_o t1 t2 pref valid o)) /\
  match spec_o t1 t2 pref valid o with IA _ _ _ subs' => Forall opt6_ok subs' | Plain _ _ => True end.
Proof.
  assert (Hleaf : forall pref valid o, opt6_ok o -> opt6_ok (leaf pref valid o)).
  { intros pref valid [c d] [Hc Hd]. cbn [fst snd] in *. unfold leaf.
    destruct (c =? 5).
    - destruct (Nat.leb_spec 24 (length d)); split; cbn [fst snd]; try assumption.
      unfold blen in *. rewrite !app_length, firstn_length, skipn_length. cbn [length put32]. lia.
    - destruct (c =? 26); [|split; assumption].
      destruct (Nat.leb_spec 8 (length d)); split; cbn [fst snd]; try assumption.
      unfold blen in *. rewrite !app_length, skipn_length. cbn [length put32]. lia. }
  assert (Hlen : forall pref valid subs, length (enc6 (map (leaf pref valid) subs)) = length (enc6 subs)).
  { intros pref valid subs. induction subs as [|[c d] r IH]; [reflexivity|]. cbn [map]. rewrite !enc6_cons, !app_length, IH. f_equal.
    unfold opt6. rewrite !app_length. cbn [length put16]. cbn [snd]. f_equal. f_equal.
    unfold leaf. destruct (c =? 5).
    - destruct (Nat.leb_spec 24 (length d)); cbn [snd]; [|reflexivity]. rewrite !app_length, firstn_length, skipn_length. cbn [length put32]. lia.
    - destruct (c =? 26); [|reflexivity].
      destruct (Nat.leb_spec 8 (length d)); cbn [snd]; [|reflexivity]. rewrite !app_length, skipn_length. cbn [length put32]. lia. }
  intros t1 t2 pref valid [c d|c iaid t12 subs] H; cbn [opt6s_ok spec_o] in *.
  - destruct H as [_ H]. pose proof (Hleaf pref valid (c, d) H) as Hl. destruct (leaf pref valid (c, d)). split; [exact Hl|exact I].
  - destruct H as [Hc [Li [Lt [Os [Ns Hb]]]]]. split.
    + split; cbn [enc_o fst snd]; [destruct Hc as [->| ->]; lia|].
      unfold blen in *. rewrite !app_length in *. rewrite Hlen. cbn [length put32]. lia.
    + apply Forall_forall. intros x Hx. apply in_map_iff in Hx. destruct Hx as [o [<- Ho]]. apply Hleaf. eapply Forall_forall; eassumption.
Qed.
Lemma tlv6_all_enc6 : forall os, Forall opt6_ok os -> tlv6_all (enc6 os) = os.
Proof.
  intros os H. unfold tlv6_all. pose proof (enc6_length_ge os) as Hge.
  replace (S (length (enc6 os))) with (length os + (S (length (enc6 os)) - length os))%nat by lia.
  rewrite <- (app_nil_r (enc6 os)) at 2. rewrite tlv6_enc6 by assumption.
  destruct (S (length (enc6 os)) - length os)%nat; cbn [tlv6]; apply app_nil_r.
Qed.
Lemma v6_lifetimes_decoded : forall v h4 os pref valid, length h4 = 4%nat -> Forall opt6s_ok os ->
  let out := rewrite_v6_lifetimes v (h4 ++ enc6 (map enc_o os)) pref valid in
  let os' := map (spec_o (pref_t1 pref) (pref_t2 v pref) pref valid) os in
  firstn 4 out = h4 /\ tlv6_all (skipn 4 out) = map enc_o os' /\
  forall c iaid t12 subs, In (IA c iaid t12 subs) os' ->
    t12 = put32 (pref_t1 pref) ++ put32 (pref_t2 v pref) /\
    tlv6_all (skipn 12 (snd (enc_o (IA c iaid t12 subs)))) = subs /\
    exists subs0 t0, In (IA c iaid t0 subs0) os /\ subs = map (leaf pref valid) subs0.
Proof.
  intros v h4 os pref valid L4 Hok out os'. subst out. rewrite rewrite_v6_lifetimes_nested by assumption. fold os'.
  split; [apply firstn_exact; assumption|]. split.
  - rewrite skipn_exact by assumption. apply tlv6_all_enc6.
    apply Forall_forall. intros x Hx. apply in_map_iff in Hx. destruct Hx as [o' [<- Ho']].
    subst os'. apply in_map_iff in Ho'. destruct Ho' as [o [<- Ho]]. apply spec_o_ok. eapply Forall_forall; eassumption.
  - intros c iaid t12 subs Hin. subst os'. apply in_map_iff in Hin. destruct Hin as [o [Eo Ho]].
    pose proof (proj1 (Forall_forall _ _) Hok o Ho) as Oo.
    destruct o as [c0 d0|c0 iaid0 t0 subs0]; cbn [spec_o] in Eo; [destruct (leaf pref valid (c0, d0)); discriminate|].
    injection Eo as <- <- <- <-. split; [reflexivity|]. split.
    + cbn [enc_o snd]. cbn [opt6s_ok] in Oo. destruct Oo as [_ [Li [_ [Os [Ns _]]]]].
      match goal with |- context [iaid0 ++ ?t ++ enc6 _] => change t with (put32 (pref_t1 pref) ++ put32 (pref_t2 v pref)) end.
      replace (iaid0 ++ (put32 (pref_t1 pref) ++ put32 (pref_t2 v pref)) ++ enc6 (map (leaf pref valid) subs0))
        with ((iaid0 ++ put32 (pref_t1 pref) ++ put32 (pref_t2 v pref)) ++ enc6 (map (leaf pref valid) subs0))
        by (rewrite <- !app_assoc; reflexivity).
      rewrite skipn_exact by (rewrite !app_length, Li; reflexivity). apply tlv6_all_enc6.
      pose proof (spec_o_ok (pref_t1 pref) (pref_t2 v pref) pref valid (IA c0 iaid0 t0 subs0)) as S0. cbn [spec_o] in S0.
      apply S0. cbn [opt6s_ok]. cbn [opt6s_ok] in *. exact (proj1 (Forall_forall _ _) Hok _ Ho).
    + exists subs0, t0. split; [exact Ho|reflexivity].
Qed.

(* ================================================================== the DHCPv4 relay pipeline, composed *)
Definition relay_hdr4 (hdr g : bytes) : bytes :=
  firstn 3 hdr ++ [(nth 3 hdr 0 + 1) mod 256] ++ firstn 20 (skipn 4 hdr) ++ g ++ skipn 28 hdr.
Lemma relay_hdr4_length : forall hdr g, length hdr = 240%nat -> length g = 4%nat -> length (relay_hdr4 hdr g) = 240%nat.
Proof. intros. unfold relay_hdr4. rewrite !app_length, !firstn_length, !skipn_length. cbn [length]. lia. Qed.
Lemma giaddr_hops_wf : forall hdr its tl gi g, length hdr = 240%nat -> to4 gi = Some g ->
  increment_hops (set_giaddr (wf_pkt hdr its tl) gi) = wf_pkt (relay_hdr4 hdr g) its tl.
Proof.
  intros hdr its tl gi g Lh Hg. pose proof (to4_length _ _ Hg) as Lg.
  rewrite set_giaddr_spec with (g := g) by (try assumption; unfold wf_pkt; rewrite app_length; lia).
  unfold wf_pkt.
  rewrite firstn_app, Lh. change (24 - 240)%nat with 0%nat. rewrite firstn_O, app_nil_r.
  rewrite skipn_app, Lh. change (28 - 240)%nat with 0%nat. rewrite skipn_O.
  assert (Eh : firstn 24 hdr = firstn 3 hdr ++ [nth 3 hdr 0] ++ firstn 20 (skipn 4 hdr)).
  { rewrite <- (firstn_skipn 3 (firstn 24 hdr)). rewrite firstn_firstn. change (Nat.min 3 24) with 3%nat. f_equal.
    destruct hdr as [|h0 [|h1 [|h2 [|h3 r]]]]; try (cbn in Lh; lia). cbn [firstn skipn nth app]. reflexivity. }
  rewrite Eh. unfold relay_hdr4.
  set (A := firstn 3 hdr). set (bb := nth 3 hdr 0). set (M := firstn 20 (skipn 4 hdr)).
  set (R := (skipn 28 hdr ++ enc its ++ tl)).
  assert (LA : length A = 3%nat) by (subst A; rewrite firstn_length; lia).
  replace ((A ++ [bb] ++ M) ++ g ++ R) with (A ++ [bb] ++ M ++ g ++ R) by (rewrite <- !app_assoc; reflexivity).
  rewrite increment_hops_spec by (rewrite !app_length, LA; cbn [length]; lia).
  rewrite (firstn_exact A) by assumption.
  rewrite app_nth2 by lia. rewrite LA. change (nth (3 - 3) ([bb] ++ M ++ g ++ R) 0) with bb.
  replace (A ++ [bb] ++ M ++ g ++ R) with ((A ++ [bb]) ++ M ++ g ++ R) by (rewrite <- !app_assoc; reflexivity).
  rewrite skipn_exact by (rewrite app_length, LA; reflexivity).
  subst R. rewrite <- !app_assoc. reflexivity.
Qed.

Lemma relay_forward4_faithful : forall hdr its tl gi g d, length hdr = 240%nat -> Forall item_ok its -> wf_tail tl ->
  to4 gi = Some g -> (length d <= 255)%nat ->
  exists out, relay_forward4 Repaired (wf_pkt hdr its tl) gi (82 :: blen d :: d) Replace = Ok out /\
    out = wf_pkt (relay_hdr4 hdr g) (drop_code 82 its ++ [Opt 82 d]) tl /\
    ref_options out = (filter (not_code 82) (opts_of its) ++ [(82, d)], tail_end tl) /\
    firstn 4 (skipn 24 out) = g /\ nth 3 out 0 = (nth 3 hdr 0 + 1) mod 256 /\
    firstn 3 out = firstn 3 hdr /\ firstn 20 (skipn 4 out) = firstn 20 (skipn 4 hdr) /\ firstn 212 (skipn 28 out) = skipn 28 hdr.
Proof.
  intros hdr its tl gi g d Lh Hok Htl Hg Hd. pose proof (to4_length _ _ Hg) as Lg.
  pose proof (relay_hdr4_length hdr g Lh Lg) as Lh'.
  unfold relay_forward4. rewrite giaddr_hops_wf with (g := g) by assumption.
  destruct (opt82_replace_faithful (relay_hdr4 hdr g) its tl d Lh' Hok Htl Hd) as [out [Eo [Eh Er]]].
  exists out. split; [exact Eo|].
  assert (Eout : out = wf_pkt (relay_hdr4 hdr g) (drop_code 82 its ++ [Opt 82 d]) tl).
  { rewrite insert_option82_repaired in Eo by assumption. injection Eo as <-. unfold replaced82, wf_pkt. rewrite enc_app, enc_single, <- !app_assoc. reflexivity. }
  split; [exact Eout|]. split; [exact Er|].
  assert (L3 : length (firstn 3 hdr) = 3%nat) by (rewrite firstn_length; lia).
  assert (L20 : length (firstn 20 (skipn 4 hdr)) = 20%nat) by (rewrite firstn_length, skipn_length; lia).
  assert (L212 : length (skipn 28 hdr) = 212%nat) by (rewrite skipn_length; lia).
  rewrite Eout. unfold wf_pkt, relay_hdr4. rewrite <- !app_assoc. repeat split.
  - match goal with |- firstn 4 (skipn 24 ?l) = _ =>
      replace l with ((firstn 3 hdr ++ [(nth 3 hdr 0 + 1) mod 256] ++ firstn 20 (skipn 4 hdr)) ++ g ++
                      (skipn 28 hdr ++ enc (drop_code 82 its ++ [Opt 82 d]) ++ tl)) by (rewrite <- !app_assoc; reflexivity) end.
    apply block; [rewrite !app_length, L3, L20; reflexivity|assumption].
  - rewrite app_nth2 by lia. rewrite L3. reflexivity.
  - apply firstn_exact. assumption.
  - match goal with |- firstn 20 (skipn 4 ?l) = _ =>
      replace l with ((firstn 3 hdr ++ [(nth 3 hdr 0 + 1) mod 256]) ++ firstn 20 (skipn 4 hdr) ++
                      (g ++ skipn 28 hdr ++ enc (drop_code 82 its ++ [Opt 82 d]) ++ tl)) by (rewrite <- !app_assoc; reflexivity) end.
    apply block; [rewrite app_length, L3; reflexivity|assumption].
  - match goal with |- firstn 212 (skipn 28 ?l) = _ =>
      replace l with ((firstn 3 hdr ++ [(nth 3 hdr 0 + 1) mod 256] ++ firstn 20 (skipn 4 hdr) ++ g) ++ skipn 28 hdr ++
                      (enc (drop_code 82 its ++ [Opt 82 d]) ++ tl)) by (rewrite <- !app_assoc; reflexivity) end.
    apply block; [rewrite !app_length, L3, L20, Lg; reflexivity|assumption].
Qed.

(* way back: the server's reply (carrying the echoed option 82) through StripOption82 and the proxy rewrite *)
Definition back_other (o : N * bytes) : bool := (proxy_other o && not_code 82 o)%bool.
Lemma proxy_back4_faithful : forall hdr its tl gi g lease, length hdr = 240%nat -> Forall item_ok its -> wf_tail tl ->
  to4 gi = Some g ->
  exists r its', strip_option82 Repaired (wf_pkt hdr its tl) = Ok (wf_pkt hdr (drop_code 82 its) tl) /\
    rewrite_for_proxy Repaired (wf_pkt hdr (drop_code 82 its) tl) gi lease = Ok r /\ r = wf_pkt hdr its' tl /\ Forall item_ok its' /\
    filter (has_code 82) (opts_of its') = [] /\
    filter (has_code 54) (opts_of its') = [(54, g)] /\ filter (has_code 51) (opts_of its') = [(51, put32 lease)] /\
    filter (has_code 58) (opts_of its') = [(58, put32 (lease / 2))] /\
    filter (has_code 59) (opts_of its') = [(59, put32 (lease * 7 / 8))] /\
    filter back_other (opts_of its') = filter back_other (opts_of its).
Proof.
  intros hdr its tl gi g lease Lh Hok Htl Hg.
  pose proof (drop_code_ok 82 its Hok) as Hok'.
  destruct (rewrite_for_proxy_repaired hdr (drop_code 82 its) tl gi g lease Lh Hok' Htl Hg) as [r [its' [Er [E [K [H54 [H51 [H58 [H59 Ho]]]]]]]]].
  exists r, its'. split; [apply strip_option82_repaired; assumption|]. split; [exact Er|]. split; [exact E|]. split; [exact K|].
  assert (Hb : forall o, back_other o = true -> proxy_other o = true) by (intros o H; apply andb_true_iff in H; tauto).
  assert (F82 : forall l : list (N * bytes), filter (has_code 82) l = filter (has_code 82) (filter proxy_other l)).
  { intros l. symmetry. apply filter_filter_imp. intros o H. unfold has_code in H. apply N.eqb_eq in H.
    unfold proxy_other, not_code. rewrite H. reflexivity. }
  repeat split; try assumption.
  - rewrite F82, Ho, <- F82. rewrite opts_of_drop. fold (not_code 82). apply filter_not_has.
  - rewrite <- (filter_filter_imp back_other proxy_other (opts_of its')) by assumption. rewrite Ho.
    rewrite filter_filter_imp by assumption. rewrite opts_of_drop. fold (not_code 82).
    apply filter_filter_imp. intros o H. apply andb_true_iff in H. tauto.
Qed.

(* ================================================================== IPv6/UDP header fields *)
Definition frame6_fields (f s16 d16 : bytes) (sp dp : N) : Prop :=
  firstn 4 f = [96; 0; 0; 0] /\ firstn 2 (skipn 6 f) = [17; 64] /\
  firstn 16 (skipn 8 f) = s16 /\ firstn 16 (skipn 24 f) = d16 /\
  firstn 2 (skipn 40 f) = put16 sp /\ firstn 2 (skipn 42 f) = put16 dp.
Lemma build_ipv6_udp_frame_fields : forall ovf src dst sp dp payload s16 d16 f,
  to16 src = Some s16 -> to16 dst = Some d16 -> ip_ok src -> ip_ok dst ->
  build_ipv6_udp_frame ovf src dst sp dp payload = Ok (Some f) -> frame6_fields f s16 d16 sp dp.
Proof.
  intros ovf src dst sp dp payload s16 d16 f Hs Hd Os Od H.
  destruct (to16_some _ _ Hs Os) as [Ls _]. destruct (to16_some _ _ Hd Od) as [Ld _].
  unfold build_ipv6_udp_frame in H. rewrite Hs, Hd in H. cbn zeta in H.
  destruct (ovf && (65535 <? 8 + blen payload))%bool; [discriminate|].
  destruct (udp6_csum _ _ _) as [uc| | |]; cbn [rbind] in H; try discriminate.
  assert (E : f = ip6_header (8 + blen payload) s16 d16 ++ udp_header sp dp (8 + blen payload) uc ++ payload) by congruence.
  subst f. cells16 s16 Ls. cells16 d16 Ld. unfold frame6_fields, ip6_header, udp_header, put16. cbn [app firstn skipn]. repeat split.
Qed.

(* ================================================================== DHCPv6 reply, field level *)
Lemma last_opt_app : forall c a b, last_opt c (a ++ b) = match last_opt c b with Some x => Some x | None => last_opt c a end.
Proof.
  intros c a b. unfold last_opt. rewrite filter_app, rev_app_distr.
  destruct (rev (filter (fun o => fst o =? c) b)) as [|x r]; cbn [app]; reflexivity.
Qed.
Definition raw6_ok (o : N * bytes) : Prop := raw_option6_valid o = true /\ fst o < 65536.
Lemma raw6_none : forall extras c, Forall raw6_ok extras -> In c [1; 2; 3; 13; 23; 25] ->
  filter (fun o => fst o =? c) extras = [].
Proof.
  intros extras c H Hc. induction extras as [|[x d] r IH]; [reflexivity|]. inversion H as [|? ? [Hv _] Hr]; subst. cbn [filter fst].
  unfold raw_option6_valid in Hv. cbn [fst snd] in Hv. apply andb_true_iff in Hv. destruct Hv as [H1 _].
  apply negb_true_iff in H1. cbn [existsb] in H1. repeat (apply orb_false_iff in H1; destruct H1 as [? H1]).
  repeat match goal with E : (_ =? _) = false |- _ => apply N.eqb_neq in E end.
  replace (x =? c) with false; [apply IH; assumption|]. symmetry. apply N.eqb_neq. cbn [In] in Hc.
  repeat (destruct Hc as [<-|Hc]; [congruence|]). contradiction.
Qed.
Lemma raw6_opt_ok : forall extras, Forall raw6_ok extras -> Forall opt6_ok extras.
Proof.
  intros extras H. induction extras as [|[x d] r IH]; [constructor|]. inversion H as [|? ? [Hv Hc] Hr]; subst. constructor; [|apply IH; assumption].
  unfold raw_option6_valid in Hv. apply andb_true_iff in Hv. destruct Hv as [_ H2]. apply N.leb_le in H2. cbn [fst snd] in *. split; cbn [fst snd]; lia.
Qed.
Lemma be_num4 : forall a b c d rest, be_num (firstn 4 (a :: b :: c :: d :: rest)) = ((a * 256 + b) * 256 + c) * 256 + d.
Proof. intros. unfold be_num. cbn [firstn fold_left]. lia. Qed.

Definition ia_view (iaid t1 t2 : N) (addr : bytes) (plen pref valid : N) : parsed_ia :=
  {| p_iaid := iaid; p_t1 := t1; p_t2 := t2; p_addr := Some addr; p_plen := plen; p_pref := pref; p_valid := valid |}.

Lemma be_num_put32_app : forall n rest, n < 4294967296 -> be_num (firstn 4 (put32 n ++ rest)) = n.
Proof. intros. rewrite firstn_exact by reflexivity. apply be_num_put32. assumption. Qed.
Lemma ip16_field_id : forall addr, length addr = 16%nat -> ip16_field (Some addr) = addr.
Proof.
  intros addr La. unfold ip16_field, to16. destruct (Nat.eqb_spec (length addr) 4); [lia|]. rewrite La. cbn [Nat.eqb field].
  apply firstn_exact. assumption.
Qed.
Lemma enc6_single : forall c d, enc6 [(c, d)] = opt6 c d.
Proof. intros. unfold enc6. cbn [map concat fst snd]. apply app_nil_r. Qed.

Lemma parse_iana_payload : forall iaid t1 t2 addr pref valid, iaid < 4294967296 -> t1 < 4294967296 -> t2 < 4294967296 ->
  pref < 4294967296 -> valid < 4294967296 -> length addr = 16%nat ->
  parse_ia 5 24 false (iana_payload {| na_iaid := iaid; na_t1 := t1; na_t2 := t2; na_addr := Some addr; na_pref := pref; na_valid := valid |})
  = Some (ia_view iaid t1 t2 addr 0 pref valid).
Proof.
  intros iaid t1 t2 addr pref valid Hi H1 H2 Hp Hv La. unfold iana_payload. cbn [na_iaid na_t1 na_t2 na_addr na_pref na_valid].
  rewrite ip16_field_id by assumption. set (body := addr ++ put32 pref ++ put32 valid).
  assert (Lb : length body = 24%nat) by (subst body; rewrite !app_length, La; reflexivity).
  assert (Eo : put16 5 ++ put16 24 ++ body = enc6 [(5, body)]).
  { rewrite enc6_single. unfold opt6, blen. rewrite Lb. reflexivity. }
  rewrite Eo. set (P := put32 iaid ++ put32 t1 ++ put32 t2 ++ enc6 [(5, body)]).
  assert (LP : (12 <= length P)%nat) by (subst P; rewrite !app_length; cbn [length put32]; lia).
  unfold parse_ia. destruct (Nat.ltb_spec (length P) 12); [lia|].
  assert (Es : skipn 12 P = enc6 [(5, body)]).
  { subst P. replace (put32 iaid ++ put32 t1 ++ put32 t2 ++ enc6 [(5, body)]) with ((put32 iaid ++ put32 t1 ++ put32 t2) ++ enc6 [(5, body)])
      by (rewrite <- !app_assoc; reflexivity). apply skipn_exact. reflexivity. }
  rewrite Es, tlv6_all_enc6 by (constructor; [split; cbn [fst snd]; unfold blen; rewrite ?Lb; lia|constructor]).
  cbn [fold_left fst snd]. rewrite Lb. cbn [N.eqb Pos.eqb Nat.leb andb].
  cbn [p_iaid p_t1 p_t2]. unfold ia_view. f_equal.
  assert (E0 : be_num (firstn 4 P) = iaid) by (subst P; apply be_num_put32_app; assumption).
  assert (E1 : be_num (firstn 4 (skipn 4 P)) = t1).
  { subst P. rewrite (skipn_exact (put32 iaid)) by reflexivity. apply be_num_put32_app. assumption. }
  assert (E2 : be_num (firstn 4 (skipn 8 P)) = t2).
  { subst P. replace (put32 iaid ++ put32 t1 ++ put32 t2 ++ enc6 [(5, body)]) with ((put32 iaid ++ put32 t1) ++ put32 t2 ++ enc6 [(5, body)])
      by (rewrite <- !app_assoc; reflexivity). rewrite skipn_exact by reflexivity. apply be_num_put32_app. assumption. }
  rewrite E0, E1, E2. subst body.
  rewrite firstn_exact by assumption. rewrite (skipn_exact addr) by assumption.
  rewrite be_num_put32_app by assumption.
  replace (addr ++ put32 pref ++ put32 valid) with ((addr ++ put32 pref) ++ put32 valid) by (rewrite <- app_assoc; reflexivity).
  rewrite skipn_exact by (rewrite app_length, La; reflexivity).
  rewrite <- (app_nil_r (put32 valid)). rewrite be_num_put32_app by assumption. reflexivity.
Qed.

Lemma parse_iapd_payload : forall iaid t1 t2 addr plen pref valid, iaid < 4294967296 -> t1 < 4294967296 -> t2 < 4294967296 ->
  pref < 4294967296 -> valid < 4294967296 -> plen < 256 -> length addr = 16%nat ->
  parse_ia 26 25 true (iapd_payload {| pd_iaid := iaid; pd_t1 := t1; pd_t2 := t2; pd_plen := plen; pd_prefix := Some addr;
                                       pd_pref := pref; pd_valid := valid |})
  = Some (ia_view iaid t1 t2 addr plen pref valid).
Proof.
  intros iaid t1 t2 addr plen pref valid Hi H1 H2 Hp Hv Hl La. unfold iapd_payload.
  cbn [pd_iaid pd_t1 pd_t2 pd_plen pd_prefix pd_pref pd_valid].
  rewrite ip16_field_id by assumption. replace (plen mod 256) with plen by lia.
  set (body := put32 pref ++ put32 valid ++ [plen] ++ addr).
  assert (Lb : length body = 25%nat) by (subst body; rewrite !app_length, La; reflexivity).
  assert (Eo : put16 26 ++ put16 25 ++ body = enc6 [(26, body)]).
  { rewrite enc6_single. unfold opt6, blen. rewrite Lb. reflexivity. }
  rewrite Eo. set (P := put32 iaid ++ put32 t1 ++ put32 t2 ++ enc6 [(26, body)]).
  assert (LP : (12 <= length P)%nat) by (subst P; rewrite !app_length; cbn [length put32]; lia).
  unfold parse_ia. destruct (Nat.ltb_spec (length P) 12); [lia|].
  assert (Es : skipn 12 P = enc6 [(26, body)]).
  { subst P. replace (put32 iaid ++ put32 t1 ++ put32 t2 ++ enc6 [(26, body)]) with ((put32 iaid ++ put32 t1 ++ put32 t2) ++ enc6 [(26, body)])
      by (rewrite <- !app_assoc; reflexivity). apply skipn_exact. reflexivity. }
  rewrite Es, tlv6_all_enc6 by (constructor; [split; cbn [fst snd]; unfold blen; rewrite ?Lb; lia|constructor]).
  cbn [fold_left fst snd]. rewrite Lb. cbn [N.eqb Pos.eqb Nat.leb andb].
  cbn [p_iaid p_t1 p_t2]. unfold ia_view. f_equal.
  assert (E0 : be_num (firstn 4 P) = iaid) by (subst P; apply be_num_put32_app; assumption).
  assert (E1 : be_num (firstn 4 (skipn 4 P)) = t1).
  { subst P. rewrite (skipn_exact (put32 iaid)) by reflexivity. apply be_num_put32_app. assumption. }
  assert (E2 : be_num (firstn 4 (skipn 8 P)) = t2).
  { subst P. replace (put32 iaid ++ put32 t1 ++ put32 t2 ++ enc6 [(26, body)]) with ((put32 iaid ++ put32 t1) ++ put32 t2 ++ enc6 [(26, body)])
      by (rewrite <- !app_assoc; reflexivity). rewrite skipn_exact by reflexivity. apply be_num_put32_app. assumption. }
  rewrite E0, E1, E2.
  assert (A1 : firstn 16 (skipn 9 body) = addr).
  { subst body. replace (put32 pref ++ put32 valid ++ [plen] ++ addr) with ((put32 pref ++ put32 valid ++ [plen]) ++ addr)
      by (rewrite <- !app_assoc; reflexivity). rewrite skipn_exact by reflexivity. rewrite <- La. apply firstn_all. }
  assert (A2 : nth 8 body 0 = plen).
  { subst body. replace (put32 pref ++ put32 valid ++ [plen] ++ addr) with ((put32 pref ++ put32 valid) ++ [plen] ++ addr)
      by (rewrite <- !app_assoc; reflexivity). rewrite app_nth2 by (rewrite app_length; cbn [length put32]; lia). reflexivity. }
  assert (A3 : be_num (firstn 4 body) = pref) by (subst body; apply be_num_put32_app; assumption).
  assert (A4 : be_num (firstn 4 (skipn 4 body)) = valid).
  { subst body. rewrite (skipn_exact (put32 pref)) by reflexivity. apply be_num_put32_app. assumption. }
  rewrite A1, A2, A3, A4. reflexivity.
Qed.

Lemma chunks16_concat : forall (l : list bytes), Forall (fun a => length a = 16%nat) l ->
  forall f, (length l <= f)%nat -> chunks16 f (concat l) = l.
Proof.
  induction l as [|a r IH]; intros H f Hf.
  - destruct f; reflexivity.
  - inversion H as [|? ? La Hr]; subst. destruct f; [cbn in Hf; lia|]. cbn [concat chunks16].
    destruct (Nat.ltb_spec (length (a ++ concat r)) 16); [rewrite app_length in *; lia|].
    rewrite firstn_exact, skipn_exact by assumption. rewrite IH by (try assumption; cbn in Hf; lia). reflexivity.
Qed.

(* buildResponse of the local DHCPv6 server, re-parsed with the model of dhcp6.ParseMessage: every field comes back *)
Lemma response6_fields : forall ty txid client server iana pd dns extras,
  ty < 256 -> length txid = 3%nat -> blen client < 65536 -> blen server < 65536 ->
  match iana with Some (iaid, addr, pref, valid) => iaid < 4294967296 /\ pref < 4294967296 /\ valid < 4294967296 /\ length addr = 16%nat | None => True end ->
  match pd with Some (iaid, prefix, ones, pref, valid) => iaid < 4294967296 /\ pref < 4294967296 /\ valid < 4294967296 /\ length prefix = 16%nat /\ ones <= 128 | None => True end ->
  Forall (fun d => exists a, d = Some a /\ length a = 16%nat) dns -> (length dns < 4096)%nat -> Forall raw6_ok extras ->
  exists q, parse_message6 (build_response6 ty txid client server iana pd dns extras) = Some q /\
    q_type q = ty /\ q_txid q = txid /\ q_client q = Some client /\ q_server q = Some server /\
    q_iana q = match iana with Some (iaid, addr, pref, valid) => Some (ia_view iaid (pref / 2) (pref * 4 / 5) addr 0 pref valid) | None => None end /\
    q_iapd q = match pd with Some (iaid, prefix, ones, pref, valid) => Some (ia_view iaid (pref / 2) (pref * 4 / 5) prefix ones pref valid) | None => None end /\
    q_dns q = map opt_bytes dns /\ q_status q = None.
Proof.
  intros ty txid client server iana pd dns extras Hty Ltx Hcl Hsv Hia Hpd Hdns Ldns Hex.
  unfold build_response6. set (r := {| r_type := ty |}).
  assert (Edns : concat (map ip16_field dns) = concat (map opt_bytes dns) /\ Forall (fun a => length a = 16%nat) (map opt_bytes dns)).
  { clear - Hdns. induction dns as [|d q IH]; [split; constructor|]. inversion Hdns as [|? ? [a [-> La]] Hq]; subst. destruct (IH Hq) as [E F].
    cbn [map concat opt_bytes]. rewrite ip16_field_id by assumption. rewrite E. split; [reflexivity|constructor; assumption]. }
  destruct Edns as [Edns Fdns].
  assert (Ldd : length (concat (map opt_bytes dns)) = (16 * length dns)%nat).
  { clear - Fdns. induction dns as [|d q IH]; [reflexivity|]. inversion Fdns; subst. cbn [map concat length]. rewrite app_length, IH by assumption. lia. }
  assert (Hok : Forall opt6_ok (options6 r)).
  { unfold options6. subst r. cbn [r_client r_server r_iana r_iapd r_dns r_status r_extras].
    repeat (apply Forall_app; split); try (apply raw6_opt_ok; assumption).
    - repeat constructor; cbn [fst snd]; lia.
    - destruct iana as [[[[iaid addr] pref] valid]|]; [|constructor]. cbn [has_addr na_addr]. repeat constructor; cbn [fst snd]; try lia.
      unfold blen, iana_payload. rewrite !app_length. unfold ip16_field. rewrite field_length. cbn [length put32 put16]. lia.
    - destruct pd as [[[[[iaid prefix] ones] pref] valid]|]; [|constructor]. cbn [has_prefix pd_prefix]. repeat constructor; cbn [fst snd]; try lia.
      unfold blen, iapd_payload. rewrite !app_length. unfold ip16_field. rewrite field_length. cbn [length put32 put16]. lia.
    - destruct dns; [constructor|]. repeat constructor; cbn [fst snd]; try lia. rewrite Edns. unfold blen. rewrite Ldd. lia.
    - constructor. }
  destruct (dhcp6_roundtrip r Ltx Hty Hok) as [R0 [R1 R2]].
  assert (Ll : (4 <= length (serialize6 r))%nat).
  { rewrite serialize6_shape, !app_length. rewrite firstn_length, app_length. cbn [length zeros repeat]. lia. }
  unfold parse_message6. destruct (Nat.ltb_spec (length (serialize6 r)) 4); [lia|].
  eexists. split; [reflexivity|]. unfold parse_options6. rewrite R2. cbn [q_type q_txid q_client q_server q_iana q_iapd q_dns q_status].
  split; [exact R0|]. split; [exact R1|].
  assert (Fx : forall c, In c [1; 2; 3; 13; 23; 25] -> filter (fun o : N * bytes => fst o =? c) extras = []) by (intros; apply raw6_none; assumption).
  assert (Lx : forall c, In c [1; 2; 3; 13; 23; 25] -> last_opt c extras = None) by (intros c Hc; unfold last_opt; rewrite (Fx c Hc); reflexivity).
  assert (F13 : filter (fun o : N * bytes => (fst o =? 13) && (2 <=? length (snd o))%nat)%bool extras = []).
  { pose proof (Fx 13 ltac:(cbn; tauto)) as F. clear - F. induction extras as [|o q IH]; [reflexivity|]. cbn [filter] in *.
    destruct (fst o =? 13); [discriminate|]. cbn [andb]. apply IH. exact F. }
  assert (Edq : dns <> [] -> chunks16 (length (concat (map ip16_field dns))) (concat (map ip16_field dns)) = map opt_bytes dns).
  { intros _. rewrite Edns. apply chunks16_concat; [assumption|]. rewrite Ldd, map_length. unfold bytes in *. lia. }
  unfold options6. subst r. cbn [r_client r_server r_iana r_iapd r_dns r_status r_extras].
  destruct iana as [[[[iaid addr] pref] valid]|]; destruct pd as [[[[[iaid' prefix] ones] pref'] valid']|];
    (destruct dns as [|d0 dr] eqn:Ed; [|rewrite <- Ed in *]);
    cbn [has_addr has_prefix na_addr pd_prefix app];
    rewrite ?last_opt_app, ?filter_app, ?F13, ?(Lx 1), ?(Lx 2), ?(Lx 3), ?(Lx 25), ?(Lx 23) by (cbn; tauto);
    try (destruct dns; [discriminate Ed|]);
    unfold last_opt; cbn [filter fst snd rev app bind_opt N.eqb Pos.eqb andb]; unfold bytes in *;
    rewrite ?(Fx 1), ?(Fx 2), ?(Fx 3), ?(Fx 23), ?(Fx 25), ?F13 by (cbn; tauto); cbn [rev app bind_opt snd];
    repeat split;
    try (destruct Hia as [Hi [Hp [Hv La]]]; apply parse_iana_payload; try assumption; lia);
    try (destruct Hpd as (Hi' & Hp' & Hv' & La' & Ho); destruct (N.leb_spec ones 128); [|lia]; apply parse_iapd_payload; try assumption; lia);
    try (apply Edq; discriminate).
Qed.

(* ================================================================== findings of audit round 2, repaired behaviour *)
(* (c) WrapIPUDP never panics (and the fold loop never runs out of fuel), whatever the addresses *)
Lemma csum_finish_ok : forall s, exists c, csum_finish s = Ok c.
Proof.
  intros s. unfold csum_finish, u32n. set (m := s mod 4294967296). assert (Hm : m < 4294967296) by (subst m; lia).
  destruct (N.eq_dec m 0) as [->|Hz]; [eexists; reflexivity|].
  destruct (fold_loop_spec m ltac:(lia) Hm) as [r [Hr _]]. rewrite Hr. eexists. reflexivity.
Qed.
Lemma wrap_never_crashes : forall ovf payload src dst, exists f, wrap_ip_udp Repaired ovf payload src dst = Ok f.
Proof.
  intros. unfold wrap_ip_udp. destruct (to4 src) as [s4|]; [|eexists; reflexivity]. destruct (to4 dst) as [d4|]; [|eexists; reflexivity].
  cbn zeta. destruct (ovf && _)%bool; [eexists; reflexivity|].
  destruct (csum_finish_ok (sum_words (ip4_header (20 + (8 + blen payload)) s4 d4 0))) as [hc ->]. cbn [rbind].
  match goal with |- context [csum_finish ?x] => destruct (csum_finish_ok x) as [c ->] end. cbn [rbind]. eexists. reflexivity.
Qed.

(* (a) after the fragment cut every message of at least 240 bytes is decodable *)
Lemma frag_cut : forall fuel l i, bytes_ok l -> (length l < fuel)%nat ->
  match frag_at fuel i l with
  | Some j => exists its, (i <= j)%nat /\ (j - i <= length l)%nat /\ firstn (j - i) l = enc its /\ Forall item_ok its
  | None => exists its tl, l = enc its ++ tl /\ Forall item_ok its /\ wf_tail tl
  end.
Proof.
  induction fuel as [|f IH]; intros l i Hb Hf; [lia|]. cbn [frag_at]. destruct l as [|c r].
  - exists [], []. repeat split; [constructor|left; reflexivity].
  - inversion Hb as [|? ? Hc Hb1]; subst. cbn [length] in Hf. destruct (N.eqb_spec c 0) as [->|E0].
    + specialize (IH r (S i) Hb1 ltac:(lia)). destruct (frag_at f (S i) r) as [j|].
      * destruct IH as [its [Hij [Hl [Hf1 Hok]]]]. exists (Pad :: its). split; [lia|]. split; [cbn [length]; lia|].
        replace (j - i)%nat with (S (j - S i)) by lia. cbn [firstn]. rewrite Hf1, enc_cons. split; [reflexivity|constructor; [exact I|assumption]].
      * destruct IH as [its [tl [E [Hok Ht]]]]. exists (Pad :: its), tl. rewrite enc_cons, E. split; [reflexivity|]. split; [constructor; [exact I|assumption]|assumption].
    + destruct (N.eqb_spec c 255) as [->|E255].
      * exists [], (255 :: r). split; [reflexivity|]. split; [constructor|right; eexists; reflexivity].
      * destruct r as [|n r2].
        { exists []. rewrite Nat.sub_diag. repeat split; try lia. constructor. }
        destruct (Nat.ltb_spec (length r2) (N.to_nat n)) as [Hlt|Hge].
        { exists []. rewrite Nat.sub_diag. repeat split; try lia. constructor. }
        inversion Hb1 as [|? ? Hn Hb2]; subst. unfold byte in Hn.
        assert (Hb3 : bytes_ok (skipn (N.to_nat n) r2)) by (apply skipn_bytes; assumption).
        assert (Lf : length (firstn (N.to_nat n) r2) = N.to_nat n) by (rewrite firstn_length; lia).
        assert (Eit : enc_item (Opt c (firstn (N.to_nat n) r2)) = c :: n :: firstn (N.to_nat n) r2)
          by (cbn [enc_item]; unfold blen; rewrite Lf, N2Nat.id; reflexivity).
        assert (Oit : item_ok (Opt c (firstn (N.to_nat n) r2))) by (cbn [item_ok]; repeat split; try assumption; lia).
        specialize (IH (skipn (N.to_nat n) r2) (i + 2 + N.to_nat n)%nat Hb3 ltac:(cbn [length] in Hf; rewrite skipn_length; lia)).
        destruct (frag_at f (i + 2 + N.to_nat n) (skipn (N.to_nat n) r2)) as [j|].
        -- destruct IH as [its [Hij [Hl [Hf1 Hok]]]]. rewrite skipn_length in Hl. exists (Opt c (firstn (N.to_nat n) r2) :: its).
           split; [lia|]. split; [cbn [length]; lia|]. split; [|constructor; assumption].
           replace (j - i)%nat with (S (S (N.to_nat n + (j - (i + 2 + N.to_nat n))))) by lia. cbn [firstn].
           rewrite enc_cons, Eit. cbn [app]. do 2 f_equal.
           rewrite <- (firstn_skipn (N.to_nat n) r2) at 1. rewrite firstn_app, Lf.
           rewrite firstn_all2 by (rewrite Lf; lia). f_equal.
           replace (N.to_nat n + (j - (i + 2 + N.to_nat n)) - N.to_nat n)%nat with (j - (i + 2 + N.to_nat n))%nat by lia. exact Hf1.
        -- destruct IH as [its [tl [E [Hok Ht]]]]. exists (Opt c (firstn (N.to_nat n) r2) :: its), tl.
           rewrite enc_cons, Eit. cbn [app]. split; [|split; [constructor; assumption|assumption]].
           do 2 f_equal. rewrite <- app_assoc, <- E. symmetry. apply firstn_skipn.
Qed.
Lemma cut_fragment_is_wf : forall pkt, bytes_ok pkt -> (240 <= length pkt)%nat ->
  exists its tl, cut_fragment pkt = wf_pkt (firstn 240 pkt) its tl /\ Forall item_ok its /\ wf_tail tl.
Proof.
  intros pkt Hb Hl. unfold cut_fragment. destruct (Nat.ltb_spec (length pkt) 240); [lia|].
  pose proof (frag_cut (S (length pkt)) (skipn 240 pkt) 240 (skipn_bytes _ _ Hb) ltac:(rewrite skipn_length; lia)) as HF.
  destruct (frag_at (S (length pkt)) 240 (skipn 240 pkt)) as [j|].
  - destruct HF as [its [Hij [Hjl [Hf Hok]]]]. exists its, []. split; [|split; [assumption|left; reflexivity]].
    unfold wf_pkt. rewrite app_nil_r, <- Hf. rewrite <- (firstn_skipn 240 pkt) at 1. rewrite firstn_app.
    rewrite firstn_length. replace (Nat.min 240 (length pkt)) with 240%nat by lia.
    rewrite firstn_firstn. replace (Nat.min j 240) with 240%nat by lia. reflexivity.
  - destruct HF as [its [tl [E [Hok Ht]]]]. exists its, tl. split; [|split; assumption]. unfold wf_pkt. rewrite <- E. symmetry. apply firstn_skipn.
Qed.
Lemma opt82_replace_any_message : forall pkt d, bytes_ok pkt -> (240 <= length pkt)%nat -> (length d <= 255)%nat ->
  exists out opts e, insert_option82 Repaired pkt (82 :: blen d :: d) Replace = Ok out /\
    firstn 240 out = firstn 240 pkt /\ ref_options out = (opts ++ [(82, d)], e) /\ e <> Truncated /\
    filter (has_code 82) opts = [].
Proof.
  intros pkt d Hb Hl Hd. destruct (cut_fragment_is_wf pkt Hb Hl) as [its [tl [Ec [Hok Ht]]]].
  assert (Lh : length (firstn 240 pkt) = 240%nat) by (rewrite firstn_length; lia).
  destruct (opt82_replace_faithful (firstn 240 pkt) its tl d Lh Hok Ht Hd) as [out [Eo [Eh Er]]].
  exists out, (filter (not_code 82) (opts_of its)), (tail_end tl).
  split.
  - unfold insert_option82 in *. rewrite cut_fragment_wf in Eo by assumption. rewrite Ec. exact Eo.
  - split; [exact Eh|]. split; [exact Er|]. split; [destruct Ht as [->|[t ->]]; discriminate|apply filter_not_has].
Qed.

(* (b) no address-valued option of zero length in the intended reply *)
Lemma resolved_addr_options_nonempty : forall lease mask sid router dns rt routes extra o, Forall raw_ok extra ->
  In o (resolved_opts lease mask sid router dns rt routes extra) -> In (fst o) [1; 3; 6; 54] -> snd o <> [].
Proof.
  intros lease mask sid router dns rt routes extra o Hex Hin Hc. unfold resolved_opts in Hin.
  repeat (apply in_app_or in Hin; destruct Hin as [Hin|Hin]).
  - destruct Hin as [<-|[]]. cbn [fst In] in Hc. repeat (destruct Hc as [Hc|Hc]; [discriminate|]). contradiction.
  - apply nz_nonempty in Hin. destruct Hin as [-> H]. exact H.
  - destruct sid; [|contradiction]. apply nz_nonempty in Hin. destruct Hin as [-> H]. exact H.
  - destruct router; [|contradiction]. apply nz_nonempty in Hin. destruct Hin as [-> H]. exact H.
  - destruct dns; [contradiction|]. apply nz_nonempty in Hin. destruct Hin as [-> H]. exact H.
  - destruct routes; [contradiction|]. destruct Hin as [<-|[]]. cbn [fst In] in Hc. repeat (destruct Hc as [Hc|Hc]; [discriminate|]). contradiction.
  - exfalso. pose proof (proj1 (Forall_forall _ _) Hex o Hin) as [Hv _]. destruct (raw_ok_code o Hv) as [_ [Hs _]].
    assert (Hstd : In (fst o) std_codes) by (unfold std_codes; cbn [In] in *; tauto).
    specialize (Hs (fst o) Hstd). unfold has_code in Hs. rewrite N.eqb_refl in Hs. discriminate.
Qed.

(* ================================================================== RewriteV6Lifetimes leaves every other option alone *)
Definition lifetime_code (c : N) : bool := ((c =? 3) || (c =? 25) || (c =? 5) || (c =? 26))%bool.
Lemma rw_opt_other : forall v dp pref valid o, lifetime_code (fst o) = false -> rw_opt v dp pref valid o = o.
Proof.
  intros v dp pref valid o H. unfold lifetime_code in H. repeat (apply orb_false_iff in H; destruct H as [H ?]).
  repeat match goal with E : (_ =? _) = false |- _ => apply N.eqb_neq in E end.
  apply (proj1 (proj2 (proj2 (rw_opt_facts v dp pref valid o)))); assumption.
Qed.
(* any message with a well-formed option list (IA_TA, unknown codes, payloads that merely look like an IA, IA inside IA,
   anything): same number of options, and every option whose code is not 3, 25, 5 or 26 sits at the same position with the
   same bytes *)
Lemma v6_other_options_identical : forall v h4 os pref valid, length h4 = 4%nat -> Forall opt6_ok os ->
  exists os', rewrite_v6_lifetimes v (h4 ++ enc6 os) pref valid = h4 ++ enc6 os' /\ length os' = length os /\
    (forall i o, nth_error os i = Some o -> lifetime_code (fst o) = false -> nth_error os' i = Some o) /\
    (forall i o o', nth_error os i = Some o -> nth_error os' i = Some o' -> fst o' = fst o /\ length (snd o') = length (snd o)).
Proof.
  intros v h4 os pref valid L4 Hok. destruct (rewrite_v6_lifetimes_spec v h4 os pref valid L4 Hok) as [dp E].
  exists (map (rw_opt v dp pref valid) os). split; [exact E|]. split; [apply map_length|]. split.
  - intros i o Hi Hc. rewrite nth_error_map, Hi. cbn [option_map]. f_equal. apply rw_opt_other. exact Hc.
  - intros i o o' Hi Hi'. rewrite nth_error_map, Hi in Hi'. cbn [option_map] in Hi'. injection Hi' as <-.
    destruct (rw_opt_facts v dp pref valid o) as [A [B _]]. split; assumption.
Qed.
Lemma v6_identity_without_lifetime_options : forall v h4 os pref valid, length h4 = 4%nat -> Forall opt6_ok os ->
  Forall (fun o => lifetime_code (fst o) = false) os ->
  rewrite_v6_lifetimes v (h4 ++ enc6 os) pref valid = h4 ++ enc6 os.
Proof.
  intros v h4 os pref valid L4 Hok Hn. destruct (rewrite_v6_lifetimes_spec v h4 os pref valid L4 Hok) as [dp E]. rewrite E. do 2 f_equal. clear E.
  induction os as [|o r IH]; [reflexivity|]. inversion Hn; subst. inversion Hok; subst. cbn [map]. rewrite rw_opt_other by assumption.
  f_equal. apply IH; assumption.
Qed.

(* ================================================================== admissible choices left open by the property *)
(* an oversize payload (no well-formed frame exists) may be refused *)
Lemma frame_ovf_refuses : forall v src dst sp dp payload s4 d4, to4 src = Some s4 -> to4 dst = Some d4 -> 65507 < blen payload ->
  build_ipv4_udp_frame v true src dst sp dp payload = Ok None.
Proof.
  intros v src dst sp dp payload s4 d4 Hs Hd Hl. unfold build_ipv4_udp_frame. rewrite Hs, Hd. cbn zeta.
  replace (65535 <? 20 + (8 + blen payload)) with true by (symmetry; apply N.ltb_lt; lia). reflexivity.
Qed.

(* ================================================================== configuration -> wire: ResolveV4 + buildResponseFromResolved *)
Lemma nz_cons : forall c d, d <> [] -> nz c d = [(c, d)].
Proof. intros c [|x r] H; [contradiction|reflexivity]. Qed.
Lemma len4_nonempty : forall (b : bytes), length b = 4%nat -> b <> [].
Proof. intros [|x r] H; [discriminate|discriminate]. Qed.
Lemma filter_some_map : forall (dl : list bytes), filter (fun d : option bytes => match d with Some _ => true | None => false end) (map Some dl) = map Some dl.
Proof. induction dl as [|d r IH]; [reflexivity|]. cbn [map filter]. rewrite IH. reflexivity. Qed.

(* The connected-subnet scenario of a local DHCPv4 server: no AAA overrides, the offered address lies in a configured
   IPv4 pool that names its gateway, server-id configured or defaulting to the router, IPv4 DNS servers, validated raw
   pool options.  What the client decodes is exactly: message type, lease time (3600 when unset), the POOL's netmask,
   server id, the POOL's gateway as router, the profile's DNS servers, the pool's raw options — in this order, nothing
   else; and the frame verifies. *)
Lemma resolve_reply_connected : forall ovf pad xid ci hw mt addr pf p nip nmask g g4 sid s4 dl opts,
  xid < 4294967296 -> (length hw <= 16)%nat -> pf_lease pf < 4294967296 -> ip_ok ci -> bytes_ok hw -> bytes_ok addr ->
  find_pool addr (pf_pools pf) = Some p -> pl_net p = Some (nip, nmask) -> length nmask = 4%nat -> bytes_ok nmask ->
  pl_gw_set p = true -> pl_gw p = Some g -> bytes_ok g -> to4 (Some g) = Some g4 ->
  sid = first_some (pf_sid pf) (Some g) -> ip_ok sid -> to4 sid = Some s4 ->
  pf_unnumbered pf = false -> pf_dns pf = map Some dl -> Forall bytes_ok dl ->
  pl_opts p = map (fun o => (fst o, Some (snd o))) opts -> Forall raw_ok opts ->
  let cx := {| cx_addr := addr; cx_gw := None; cx_mask := None; cx_dns := [] |} in
  let lease := if pf_lease pf =? 0 then 3600 else pf_lease pf in
  let intended := [(51, put32 lease); (1, nmask); (54, s4); (3, g4)]
                  ++ (match dl with [] => [] | _ => nz 6 (dns_data (map Some dl)) end) ++ opts in
  exists payload view,
    (blen payload <= 65507 ->
       exists f, resolve_and_reply Repaired ovf pad xid ci hw mt cx pf = Ok (Some f) /\
                 frame4_ok f payload /\ frame4_fields f s4 bcast 67 68 /\ firstn 2 (skipn 26 f) <> [0; 0]) /\
    ref_decode4 payload = Some view /\ v_xid view = xid /\ v_yiaddr view = ip4_field (Some addr) /\ v_siaddr view = s4 /\
    v_chaddr view = hw ++ zeros (16 - length hw) /\ v_end view = EndSeen (zeros pad) /\
    (forall code, opt_value code (v_opts view) = concat (map snd (filter (has_code code) ((53, [mt mod 256]) :: intended)))) /\
    ((length (dns_data (map Some dl)) <= 255)%nat -> v_opts view = (53, [mt mod 256]) :: intended).
Proof.
  intros ovf pad xid ci hw mt addr pf p nip nmask g g4 sid s4 dl opts Hx Hhw Hlease Oci Bhw Baddr Hfind Hnet Lm Bm Hset Hgw Bg Hg4
         Esid Osid Hs4 Hunn Hdns Bdl Hopts Hraw cx lease intended.
  pose proof (to4_length _ _ Hg4) as Lg4. pose proof (to4_length _ _ Hs4) as Ls4.
  assert (Er : resolve_v4 cx pf =
               {| rs_yip := Some addr; rs_mask := nmask; rs_router := Some g; rs_dns := map Some dl; rs_lease := lease; rs_sid := sid;
                  rs_routes := []; rs_opts := opts |}).
  { unfold resolve_v4. subst cx. cbn [cx_addr cx_gw cx_mask cx_dns]. rewrite Hfind, Hset, Hgw, Hunn, Hnet, Hdns, Hopts, filter_some_map.
    cbn [fst snd]. rewrite <- Esid. f_equal.
    clear. induction opts as [|[c d] r IH]; [reflexivity|]. cbn [map concat fst snd app]. rewrite IH. reflexivity. }
  assert (Esrc : sid = match sid with Some _ => sid | None => Some g end).
  { destruct sid; [reflexivity|]. destruct (pf_sid pf); discriminate. }
  assert (Hsid_some : exists sb, sid = Some sb) by (destruct sid; [eauto|destruct (pf_sid pf); discriminate]).
  destruct Hsid_some as [sb Esb].
  assert (Odns : Forall ip_ok (map Some dl)) by (clear - Bdl; induction dl; [constructor|inversion Bdl; subst; constructor; auto]).
  assert (Hl32 : lease < 4294967296) by (subst lease; destruct (N.eqb_spec (pf_lease pf) 0); lia).
  destruct (resolved_reply ovf pad xid ci hw mt (Some addr) (Some g) sid nmask (map Some dl) lease [] opts sid s4
              Hx Hhw Hl32 Oci Baddr Bg Osid Bhw Bm Odns (Forall_nil _) (Forall_nil _) Hraw Esrc Hs4)
    as [rt [payload [view [Hrt0 [_ [Ep [Bp [Hframe [Ev [V1 [V2 [V3 [V4 [V5 [V6 [V7 [V8 V9]]]]]]]]]]]]]]]]].
  assert (Eint : resolved_opts lease nmask sid (Some g) (map Some dl) rt [] opts = intended).
  { unfold resolved_opts. subst intended. rewrite Esb. rewrite <- Esb. rewrite Hs4, Hg4. cbn [opt_bytes].
    rewrite (nz_cons 1 nmask) by (apply len4_nonempty; assumption).
    rewrite (nz_cons 54 s4) by (apply len4_nonempty; assumption). rewrite (nz_cons 3 g4) by (apply len4_nonempty; assumption).
    destruct dl; reflexivity. }
  rewrite Eint in *.
  exists payload, view. split.
  - intros Hl. destruct (Hframe Hl) as [f [Ef R]]. exists f. split; [|exact R]. unfold resolve_and_reply. rewrite Er.
    cbn [rs_yip rs_router rs_sid rs_mask rs_dns rs_lease rs_routes rs_opts]. exact Ef.
  - repeat split; try assumption. intros Hd. apply V9; [rewrite Lm; lia|exact Hd|rewrite (Hrt0 eq_refl); cbn; lia].
Qed.

(* The unnumbered point-to-point address model: /32 netmask and an RFC 3442 default route through the router *)
Lemma resolve_reply_unnumbered : forall ovf pad xid ci hw mt addr pf p g g4 sid s4 dl opts,
  xid < 4294967296 -> (length hw <= 16)%nat -> pf_lease pf < 4294967296 -> ip_ok ci -> bytes_ok hw -> bytes_ok addr ->
  find_pool addr (pf_pools pf) = Some p -> pl_gw_set p = true -> pl_gw p = Some g -> bytes_ok g -> to4 (Some g) = Some g4 ->
  sid = first_some (pf_sid pf) (Some g) -> ip_ok sid -> to4 sid = Some s4 ->
  pf_unnumbered pf = true -> pf_dns pf = map Some dl -> Forall bytes_ok dl ->
  pl_opts p = map (fun o => (fst o, Some (snd o))) opts -> Forall raw_ok opts ->
  let cx := {| cx_addr := addr; cx_gw := None; cx_mask := None; cx_dns := [] |} in
  let lease := if pf_lease pf =? 0 then 3600 else pf_lease pf in
  let intended := [(51, put32 lease); (1, [255;255;255;255]); (54, s4); (3, g4)]
                  ++ (match dl with [] => [] | _ => nz 6 (dns_data (map Some dl)) end) ++ [(121, 0 :: g4)] ++ opts in
  ref_routes 2 (0 :: g4) = Some [(0, [], g4)] /\
  exists payload view,
    (blen payload <= 65507 ->
       exists f, resolve_and_reply Repaired ovf pad xid ci hw mt cx pf = Ok (Some f) /\
                 frame4_ok f payload /\ frame4_fields f s4 bcast 67 68 /\ firstn 2 (skipn 26 f) <> [0; 0]) /\
    ref_decode4 payload = Some view /\ v_xid view = xid /\ v_yiaddr view = ip4_field (Some addr) /\
    v_end view = EndSeen (zeros pad) /\
    ((length (dns_data (map Some dl)) <= 255)%nat -> v_opts view = (53, [mt mod 256]) :: intended).
Proof.
  intros ovf pad xid ci hw mt addr pf p g g4 sid s4 dl opts Hx Hhw Hlease Oci Bhw Baddr Hfind Hset Hgw Bg Hg4
         Esid Osid Hs4 Hunn Hdns Bdl Hopts Hraw cx lease intended.
  pose proof (to4_length _ _ Hg4) as Lg4. pose proof (to4_length _ _ Hs4) as Ls4.
  destruct g4 as [|ga [|gb [|gc [|gd [|]]]]]; try discriminate Lg4. set (g4 := [ga; gb; gc; gd]) in *.
  set (z16 := Some (v4in6_prefix ++ [0; 0; 0; 0])).
  assert (Ez : to4 z16 = Some [0; 0; 0; 0]) by reflexivity.
  assert (Er : resolve_v4 cx pf =
               {| rs_yip := Some addr; rs_mask := [255;255;255;255]; rs_router := Some g; rs_dns := map Some dl; rs_lease := lease; rs_sid := sid;
                  rs_routes := [(0, z16, Some g)]; rs_opts := opts |}).
  { unfold resolve_v4. subst cx. cbn [cx_addr cx_gw cx_mask cx_dns]. rewrite Hfind, Hset, Hgw, Hunn, Hdns, Hopts, filter_some_map.
    cbn [fst snd]. rewrite <- Esid. f_equal.
    clear. induction opts as [|[c d] r IH]; [reflexivity|]. cbn [map concat fst snd app]. rewrite IH. reflexivity. }
  assert (Esrc : sid = match sid with Some _ => sid | None => Some g end).
  { destruct sid; [reflexivity|]. destruct (pf_sid pf); discriminate. }
  assert (Hsid_some : exists sb, sid = Some sb) by (destruct sid; [eauto|destruct (pf_sid pf); discriminate]).
  destruct Hsid_some as [sb Esb].
  assert (Odns : Forall ip_ok (map Some dl)) by (clear - Bdl; induction dl; [constructor|inversion Bdl; subst; constructor; auto]).
  assert (Hl32 : lease < 4294967296) by (subst lease; destruct (N.eqb_spec (pf_lease pf) 0); lia).
  assert (Hro : Forall route_ok [(0, z16, Some g)]).
  { constructor; [|constructor]. unfold route_ok. rewrite Ez, Hg4. cbn [opt_bytes length]. repeat split; try lia; try exact Lg4. }
  assert (Hrb : Forall (fun r : N * option bytes * option bytes => ip_ok (snd (fst r)) /\ ip_ok (snd r)) [(0, z16, Some g)]).
  { constructor; [|constructor]. cbn [fst snd ip_ok]. split; [|exact Bg]. subst z16. cbn [ip_ok]. unfold v4in6_prefix, bytes_ok, byte. repeat constructor; lia. }
  assert (B4 : bytes_ok [255; 255; 255; 255]) by (unfold bytes_ok, byte; repeat constructor; lia).
  destruct (resolved_reply ovf pad xid ci hw mt (Some addr) (Some g) sid [255;255;255;255] (map Some dl) lease [(0, z16, Some g)] opts sid s4
              Hx Hhw Hl32 Oci Baddr Bg Osid Bhw B4 Odns Hro Hrb Hraw Esrc Hs4)
    as [rt [payload [view [_ [Hrt [Ep [Bp [Hframe [Ev [V1 [V2 [V3 [V4 [V5 [V6 [V7 [V8 V9]]]]]]]]]]]]]]]]].
  destruct (Hrt ltac:(discriminate)) as [Ecl _].
  assert (Ert : rt = 0 :: g4).
  { cbn [classless] in Ecl. rewrite Ez, Hg4 in Ecl. vm_compute in Ecl. injection Ecl as <-. reflexivity. }
  subst rt.
  assert (Eint : resolved_opts lease [255;255;255;255] sid (Some g) (map Some dl) (0 :: g4) [(0, z16, Some g)] opts = intended).
  { unfold resolved_opts. subst intended. rewrite Esb. rewrite <- Esb. rewrite Hs4, Hg4. cbn [opt_bytes nz].
    rewrite (nz_cons 54 s4) by (apply len4_nonempty; assumption). rewrite (nz_cons 3 g4) by (apply len4_nonempty; assumption).
    destruct dl; reflexivity. }
  rewrite Eint in *.
  split.
  { reflexivity. }
  exists payload, view. split.
  - intros Hl. destruct (Hframe Hl) as [f [Ef R]]. exists f. split; [|exact R]. unfold resolve_and_reply. rewrite Er.
    cbn [rs_yip rs_router rs_sid rs_mask rs_dns rs_lease rs_routes rs_opts]. exact Ef.
  - repeat split; try assumption. intros Hd. apply V9; [cbn; lia|exact Hd|cbn; lia].
Qed.

(* ================================================================== DHCPv6: configuration + client message -> ADVERTISE / REPLY *)
Lemma handle_resolved6_fields : forall sduid cmsg r qc duid,
  parse_message6 cmsg = Some qc -> q_client qc = Some duid -> length (q_txid qc) = 3%nat ->
  blen duid < 65536 -> blen sduid < 65536 ->
  match q_iana qc, r6_na r with Some ia, Some (a, pr, va) => p_iaid ia < 4294967296 /\ pr < 4294967296 /\ va < 4294967296 /\ length a = 16%nat | _, _ => True end ->
  match q_iapd qc, r6_pd r with Some ia, Some (ip, ones, pr, va) => p_iaid ia < 4294967296 /\ pr < 4294967296 /\ va < 4294967296 /\ length ip = 16%nat /\ ones <= 128 | _, _ => True end ->
  Forall (fun d => exists a, d = Some a /\ length a = 16%nat) (r6_dns r) -> (length (r6_dns r) < 4096)%nat -> Forall raw6_ok (r6_opts r) ->
  exists out q, handle_resolved6 sduid cmsg r = Some out /\ parse_message6 out = Some q /\
    q_type q = (if q_type qc =? 1 then 2 else 7) /\ q_txid q = q_txid qc /\ q_client q = Some duid /\ q_server q = Some sduid /\
    q_iana q = match q_iana qc, r6_na r with
               | Some ia, Some (a, pr, va) => Some (ia_view (p_iaid ia) (pr / 2) (pr * 4 / 5) a 0 pr va) | _, _ => None end /\
    q_iapd q = match q_iapd qc, r6_pd r with
               | Some ia, Some (ip, ones, pr, va) => Some (ia_view (p_iaid ia) (pr / 2) (pr * 4 / 5) ip ones pr va) | _, _ => None end /\
    q_dns q = map opt_bytes (r6_dns r) /\ q_status q = None.
Proof.
  intros sduid cmsg r qc duid Hp Hc Ltx Hd Hs Hna Hpd Hdns Ldns Hopts.
  unfold handle_resolved6. rewrite Hp, Hc.
  set (na := match q_iana qc, r6_na r with Some ia, Some (a, pr, va) => Some (p_iaid ia, a, pr, va) | _, _ => None end).
  set (pd := match q_iapd qc, r6_pd r with Some ia, Some (ip, ones, pr, va) => Some (p_iaid ia, ip, ones, pr, va) | _, _ => None end).
  assert (Hna' : match na with Some (iaid, addr, pref, valid) => iaid < 4294967296 /\ pref < 4294967296 /\ valid < 4294967296 /\ length addr = 16%nat | None => True end).
  { subst na. destruct (q_iana qc); [|exact I]. destruct (r6_na r) as [[[a pr] va]|]; [exact Hna|exact I]. }
  assert (Hpd' : match pd with Some (iaid, prefix, ones, pref, valid) => iaid < 4294967296 /\ pref < 4294967296 /\ valid < 4294967296 /\ length prefix = 16%nat /\ ones <= 128 | None => True end).
  { subst pd. destruct (q_iapd qc); [|exact I]. destruct (r6_pd r) as [[[[ip ones] pr] va]|]; [exact Hpd|exact I]. }
  assert (Hty : (if q_type qc =? 1 then 2 else 7) < 256) by (destruct (q_type qc =? 1); lia).
  destruct (response6_fields _ (q_txid qc) duid sduid na pd (r6_dns r) (r6_opts r) Hty Ltx Hd Hs Hna' Hpd' Hdns Ldns Hopts)
    as [q [E [T1 [T2 [T3 [T4 [T5 [T6 [T7 T8]]]]]]]]].
  exists (build_response6 (if q_type qc =? 1 then 2 else 7) (q_txid qc) duid sduid na pd (r6_dns r) (r6_opts r)), q.
  split; [reflexivity|]. split; [exact E|]. repeat split; try assumption.
  - rewrite T5. subst na. destruct (q_iana qc); [|reflexivity]. destruct (r6_na r) as [[[a pr] va]|]; reflexivity.
  - rewrite T6. subst pd. destruct (q_iapd qc); [|reflexivity]. destruct (r6_pd r) as [[[[ip ones] pr] va]|]; reflexivity.
Qed.

(* ResolveV6: which lifetimes reach the wire *)
Lemma resolve_v6_spec : forall cx pf a,
  c6_addr cx = Some a ->
  exists r, resolve_v6 cx pf = Some r /\
    r6_na r = Some (a, fst (lifetimes6 pf (find_pool6 a (f6_iana pf))), snd (lifetimes6 pf (find_pool6 a (f6_iana pf)))) /\
    r6_pd r = match c6_prefix cx with
              | Some (ip, ones) => Some (ip, ones, fst (lifetimes6 pf (find_pool6 ip (f6_pd pf))), snd (lifetimes6 pf (find_pool6 ip (f6_pd pf))))
              | None => None end /\
    r6_dns r = match c6_dns cx with [] => filter (fun d : option bytes => match d with Some _ => true | None => false end) (f6_dns pf) | l => l end.
Proof.
  intros cx pf a Ha. unfold resolve_v6. rewrite Ha. destruct (c6_prefix cx) as [[ip ones]|]; eexists; repeat split.
Qed.
Lemma lifetimes6_spec : forall pf pool,
  lifetimes6 pf pool =
  (match pool with Some p => if 0 <? p6_pref p then p6_pref p else dflt (f6_pref pf) 3600 | None => dflt (f6_pref pf) 3600 end,
   match pool with Some p => if 0 <? p6_valid p then p6_valid p else dflt (f6_valid pf) 7200 | None => dflt (f6_valid pf) 7200 end).
Proof. intros pf [p|]; reflexivity. Qed.

(* ================================================================== ResolveV4: every branch *)
(* the precedence rules of ResolveV4, as equations *)
Lemma resolve_v4_precedence : forall cx pf,
  let r := resolve_v4 cx pf in let pool := find_pool (cx_addr cx) (pf_pools pf) in
  rs_yip r = Some (cx_addr cx) /\
  rs_router r = match cx_gw cx with
                | Some g => Some g
                | None => match pool with Some p => if pl_gw_set p then pl_gw p else pf_gw pf | None => pf_gw pf end end /\
  rs_sid r = first_some (pf_sid pf) (rs_router r) /\
  rs_dns r = match cx_dns cx with [] => filter (fun d : option bytes => match d with Some _ => true | None => false end) (pf_dns pf) | l => l end /\
  rs_lease r = (if pf_lease pf =? 0 then 3600 else pf_lease pf) /\
  (pf_unnumbered pf = true -> rs_mask r = [255;255;255;255] /\
     rs_routes r = match rs_router r with Some _ => [(0, Some (v4in6_prefix ++ [0;0;0;0]), rs_router r)] | None => [] end) /\
  (pf_unnumbered pf = false -> rs_routes r = [] /\
     rs_mask r = match cx_mask cx with
                 | Some m => m
                 | None => match pool with Some p => match pl_net p with Some n => snd n | None => [] end | None => [] end end).
Proof.
  intros cx pf. cbv zeta. unfold resolve_v4. cbn [rs_yip rs_router rs_sid rs_dns rs_lease rs_mask rs_routes].
  repeat split; try reflexivity; try (intros HH; rewrite HH; cbn [fst snd]; split; reflexivity); try (rewrite H; reflexivity).
Qed.

(* whatever branch ResolveV4 took: if what it resolved is IPv4-typed, the client decodes exactly those values *)
Lemma resolve_reply_general : forall ovf pad xid ci hw mt cx pf s4,
  let r := resolve_v4 cx pf in
  xid < 4294967296 -> (length hw <= 16)%nat -> rs_lease r < 4294967296 -> ip_ok ci -> bytes_ok hw ->
  ip_ok (rs_yip r) -> ip_ok (rs_router r) -> ip_ok (rs_sid r) -> bytes_ok (rs_mask r) -> Forall ip_ok (rs_dns r) ->
  Forall route_ok (rs_routes r) -> Forall (fun x => ip_ok (snd (fst x)) /\ ip_ok (snd x)) (rs_routes r) -> Forall raw_ok (rs_opts r) ->
  to4 (match rs_sid r with Some _ => rs_sid r | None => rs_router r end) = Some s4 ->
  exists rt payload view,
    (blen payload <= 65507 ->
       exists f, resolve_and_reply Repaired ovf pad xid ci hw mt cx pf = Ok (Some f) /\
                 frame4_ok f payload /\ frame4_fields f s4 bcast 67 68 /\ firstn 2 (skipn 26 f) <> [0; 0]) /\
    ref_decode4 payload = Some view /\ v_xid view = xid /\ v_yiaddr view = ip4_field (rs_yip r) /\ v_siaddr view = s4 /\
    v_end view = EndSeen (zeros pad) /\
    (forall code, opt_value code (v_opts view) =
       concat (map snd (filter (has_code code) ((53, [mt mod 256]) ::
          resolved_opts (rs_lease r) (rs_mask r) (rs_sid r) (rs_router r) (rs_dns r) rt (rs_routes r) (rs_opts r))))) /\
    ((length (rs_mask r) <= 255)%nat -> (length (dns_data (rs_dns r)) <= 255)%nat -> (length rt <= 255)%nat ->
       v_opts view = (53, [mt mod 256]) :: resolved_opts (rs_lease r) (rs_mask r) (rs_sid r) (rs_router r) (rs_dns r) rt (rs_routes r) (rs_opts r)).
Proof.
  intros ovf pad xid ci hw mt cx pf s4 r Hx Hhw Hl Oci Bhw Oy Or Os Bm Od Hro Hrb Hraw Hsrc.
  destruct (resolved_reply ovf pad xid ci hw mt (rs_yip r) (rs_router r) (rs_sid r) (rs_mask r) (rs_dns r) (rs_lease r) (rs_routes r) (rs_opts r)
              _ s4 Hx Hhw Hl Oci Oy Or Os Bhw Bm Od Hro Hrb Hraw eq_refl Hsrc)
    as [rt [payload [view [_ [_ [Ep [Bp [Hframe [Ev [V1 [V2 [V3 [V4 [V5 [V6 [V7 [V8 V9]]]]]]]]]]]]]]]]].
  exists rt, payload, view. repeat split; try assumption.
Qed.

(* the allocation branch: an admissible allocator answer is an address inside a configured pool — exactly the hypothesis
   [find_pool addr pools = Some p] of the end-to-end theorems *)
Lemma alloc_admissible_pool : forall addr pf, alloc_admissible addr pf = true ->
  exists p n, find_pool addr (pf_pools pf) = Some p /\ In p (pf_pools pf) /\ pl_net p = Some n /\ net_contains n addr = true.
Proof.
  intros addr pf H. unfold alloc_admissible in H. destruct (find_pool addr (pf_pools pf)) as [p|] eqn:E; [|discriminate].
  unfold find_pool in E. destruct (find_some _ _ E) as [Hin Hp]. destruct (pl_net p) as [n|] eqn:En; [|discriminate].
  exists p, n. unfold find_pool. repeat split; assumption.
Qed.
