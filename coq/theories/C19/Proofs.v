From OV Require Import Common.Base C19.Model.
Open Scope N_scope.
Lemma zeros_length n : length (zeros n) = n.
Proof. apply repeat_length. Qed.
