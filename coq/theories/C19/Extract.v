From Coq Require Import Extraction ExtrOcamlBasic.
From OV Require Import Common.Base C19.Model.
Extraction Language OCaml.
Extraction "C19_model.ml"
  build_ipv4_udp_frame build_ipv6_udp_frame build_udp_packet wrap_ip_udp verifies
  build_option82 insert_option82 strip_option82
  set_option_u32 set_option_ip get_option4 rewrite_for_proxy set_giaddr increment_hops
  build_dhcp4_reply build_response_pool build_response_resolved ref_decode4 opt_value count_opt
  serialize6 parse_message6 tlv6_all
  build_relay_forward build_relay_reply unwrap_relay_reply relay_txid unwrap_relay extract_relay_message
  rewrite_v6_lifetimes replace_server_duid get_server_duid unwrap_relay_reply6 raw_option_valid ref_routes sub_tlv relay_forward4 relay_reply4 proxy_reply4 build_response6 raw_option6_valid resolve_v4 resolve_and_reply.
