From Coq Require Import Extraction ExtrOcamlBasic.
From OV Require Import Common.Base C20.Model.
Extraction Language OCaml.
Extraction "C20_model.ml" hash_tuple hash_input tuple_eqb seq_op seq_run snapshot sys0 sys_step run_sched
  quiescent finished tstep orphan in_map sub_new sub_publish sub_publish_n sub_drain sub_unsub thread0 shared0
  sum_measure prog_weight eff_cap eff_cap_with default_cap bulk_ok xsys0 xsys_step xrun xstep_aux xstep_client xclients_done afinished auxthread0 sshared0 seq_thread rsys0 rsys_step rrun_sched rdone_all rstep.
