(* C20/Proofs3.v — the extended machine: metric clients + subscribe / unsubscribe / tick / snapshot / drain threads. *)
From OV Require Import Common.Base C20.Model C20.Proofs C20.Proofs2.
From Coq Require Import ZifyBool ZifyNat ZifyN.
Open Scope Z_scope.

Lemma map_fst_upd_same {A B} (l : list (A * B)) i a b :
  nth_error l i = Some (a, b) -> forall b', map fst (upd_nth l i (fun _ => (a, b'))) = map fst l.
Proof.
  revert i; induction l as [|x l IH]; intros [|i] H b'; simpl in *; try discriminate.
  - inversion H; subst. reflexivity.
  - f_equal. eapply IH; eauto.
Qed.
Lemma map_fst_upd {A B} (l : list (A * B)) i y :
  map fst (upd_nth l i (fun _ => y)) = upd_nth (map fst l) i (fun _ => fst y).
Proof. revert i; induction l as [|x l IH]; intros [|i]; simpl; auto. f_equal. apply IH. Qed.
Lemma nth_map_fst {A B} (l : list (A * B)) i a b : nth_error l i = Some (a, b) -> nth_error (map fst l) i = Some a.
Proof. revert i; induction l as [|x l IH]; intros [|i] H; simpl in *; try discriminate; [inversion H; subst; reflexivity | eauto]. Qed.

(* every step of the extended machine is, on the metric state and the metric clients, either nothing or one step of
   the metric machine: auxiliary threads and markDirty cannot be seen from the metric side *)
Lemma xsys_step_metric c mode x e :
  metric_of (xsys_step c mode x e) = metric_of x \/ exists i, metric_of (xsys_step c mode x e) = sys_step c (metric_of x) i.
Proof.
  destruct e as [[|] i]; unfold xsys_step.
  - destruct (nth_error (x_cl x) i) as [[th m]|] eqn:G; [|left; reflexivity].
    unfold xstep_client. destruct m.
    + destruct (finished th) eqn:F; [left; unfold metric_of; simpl; rewrite (map_fst_upd_same _ _ _ _ G); reflexivity|].
      destruct (tstep c (x_sh x) th) as [s' th'] eqn:St. right. exists i.
      unfold metric_of, sys_step; simpl. rewrite (nth_map_fst _ _ _ _ G), F, St. rewrite map_fst_upd. reflexivity.
    + left. unfold metric_of; simpl. rewrite (map_fst_upd_same _ _ _ _ G). reflexivity.
    + left. unfold metric_of; simpl. rewrite (map_fst_upd_same _ _ _ _ G). reflexivity.
    + left. unfold metric_of; simpl. rewrite (map_fst_upd_same _ _ _ _ G). reflexivity.
  - destruct (nth_error (x_aux x) i) as [a|]; [|left; reflexivity].
    destruct (xstep_aux mode (x_sh x) (x_ss x) a) as [[ss' a']|]; left; reflexivity.
Qed.

Lemma xrun_projects c mode sched : forall x, exists sched', metric_of (xrun c mode x sched) = run_sched c (metric_of x) sched'.
Proof.
  induction sched as [|e r IH]; intros x; simpl; [exists []; reflexivity|].
  destruct (IH (xsys_step c mode x e)) as [s' Hs]. destruct (xsys_step_metric c mode x e) as [E|[i E]].
  - exists s'. rewrite Hs, E. reflexivity.
  - exists (i :: s'). rewrite Hs, E. reflexivity.
Qed.

Lemma metric_of_xsys0 progs aprogs : metric_of (xsys0 progs aprogs) = sys0 progs.
Proof. unfold metric_of, xsys0, sys0; simpl. rewrite map_map. reflexivity. Qed.

Lemma xdone_quiescent x : xclients_done x = true -> quiescent (metric_of x) = true.
Proof.
  unfold xclients_done, quiescent, metric_of; simpl. rewrite !forallb_forall. intros H th Hin.
  apply in_map_iff in Hin as [[t m] [E Hin]]. simpl in E; subst. specialize (H _ Hin). simpl in H.
  apply andb_true_iff in H as [H _]. exact H.
Qed.

(* ---- no step of the code is ever disabled ---- *)
Lemma aux_always_enabled s ss a : xstep_aux SelectDefault s ss a <> None.
Proof.
  unfold xstep_aux. destruct (a_pc a); try discriminate.
  - destruct (a_prog a) as [|o r]; [discriminate|]. destruct o; try discriminate.
    + destruct (nth_error (ss_subs ss) k) as [b|]; [destruct (sb_unsub b)|]; discriminate.
    + destruct (ss_dirty ss); discriminate.
    + destruct (nth_error (ss_subs ss) k); discriminate.
  - destruct ids; discriminate.
  - destruct work as [|k r]; [discriminate|]. destruct (nth_error (ss_subs ss) k); discriminate.
  - destruct ids; discriminate.
Qed.

(* ---- emitters and subscribers do not interfere ---- *)
(* a client step never reads the subscribers' channels: its effect depends on the subscription state only through
   subscriberCount and the dirty flag, and it writes nothing but the dirty flag *)
Lemma client_ignores_channels c s ss1 ss2 cl :
  ss_nsubs ss1 = ss_nsubs ss2 -> ss_dirty ss1 = ss_dirty ss2 ->
  let '(s1, ss1', cl1) := xstep_client c s ss1 cl in
  let '(s2, ss2', cl2) := xstep_client c s ss2 cl in
  s1 = s2 /\ cl1 = cl2 /\ ss_dirty ss1' = ss_dirty ss2' /\
  ss_subs ss1' = ss_subs ss1 /\ ss_nsubs ss1' = ss_nsubs ss1 /\ ss_subs ss2' = ss_subs ss2.
Proof.
  intros En Ed. destruct cl as [th m]. unfold xstep_client. destruct m.
  - destruct (finished th); [repeat split; auto|]. destruct (tstep c s th) as [s' th']. repeat split; auto.
  - rewrite En. repeat split; auto.
  - rewrite Ed. repeat split; auto.
  - repeat split; auto.
Qed.

(* own steps of a client strictly decrease a bound that depends on the client alone (markDirty adds at most 3 steps) *)
Definition mcost (m : mpc) : nat := match m with MNone => 0 | M1 => 3 | M2 => 2 | M3 => 1 end%nat.
Definition xbudget (cl : thread * mpc) : nat := (4 * budget (fst cl) + mcost (snd cl))%nat.
Lemma client_progress c s ss cl :
  (finished (fst cl) && match snd cl with MNone => true | _ => false end) = false ->
  (xbudget (snd (xstep_client c s ss cl)) < xbudget cl)%nat.
Proof.
  destruct cl as [th m]. unfold xstep_client, xbudget. simpl. destruct m; simpl.
  - rewrite andb_true_r. intros F. rewrite F. pose proof (tstep_progress c s th F) as P.
    destruct (tstep c s th) as [s' th']. simpl in *. destruct (lands s th); simpl; lia.
  - intros _. destruct (ss_nsubs ss =? 0); simpl; lia.
  - intros _. destruct (ss_dirty ss); simpl; lia.
  - intros _. lia.
Qed.

(* ---- the metric theorems hold in the presence of any subscribe / tick / snapshot activity ---- *)
Lemma x_per_tuple c mode progs aprogs xsched :
  c_kind c <> KGauge -> c_variant c = Repaired -> wf_progs c progs = true ->
  let x := metric_of (xrun c mode (xsys0 progs aprogs) xsched) in
  xclients_done (xrun c mode (xsys0 progs aprogs) xsched) = true ->
  (forall t, (shown (c_kind c) (sh x) t + retired_of (c_kind c) (sh x) t + attributed x t) mod M64
             = emitted_to c progs t mod M64) /\
  (drops (sh x) + unknown (sh x) + stales (sh x)) mod M64 = attributed_all x mod M64 /\
  (c_cap c > 0 -> Z.of_nat (length (snapshot (sh x))) <= c_cap c).
Proof.
  intros Hk Hv W x Q. destruct (xrun_projects c mode xsched (xsys0 progs aprogs)) as [sched' E].
  rewrite metric_of_xsys0 in E. apply xdone_quiescent in Q. unfold x in *. rewrite E in *.
  destruct (conc_per_tuple c progs sched' Hk Hv W Q) as [A [B _]].
  destruct (conc_cap c progs sched' Hv) as [C _].
  split; [exact A|]. split; [exact B|]. intros Hc. apply C. lia.
Qed.
