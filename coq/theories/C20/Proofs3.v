(* C20/Proofs3.v — the extended machine: metric clients + subscribe / unsubscribe / tick / snapshot / drain threads. *)
From OV Require Import Common.Base C20.Model C20.Proofs C20.Proofs2.
From Coq Require Import ZifyBool ZifyNat ZifyN.
Open Scope Z_scope.

Lemma map_fst_upd_same {A B} (l : list (A * B)) i a b :
  nth_error l i = Some (a, b) -> forall b', map fst (upd_nth l i (fun _ => (a, b'))) = map fst l.
Proof.
  revert i; induction l as [|x l IH]; intros [|i] H b'; simpl in *; try discriminate.
  - inversion H; subst. reflexivity.
  - f_equal. eapply IH; eauto.
Qed.
Lemma map_fst_upd {A B} (l : list (A * B)) i y :
  map fst (upd_nth l i (fun _ => y)) = upd_nth (map fst l) i (fun _ => fst y).
Proof. revert i; induction l as [|x l IH]; intros [|i]; simpl; auto. f_equal. apply IH. Qed.
Lemma nth_map_fst {A B} (l : list (A * B)) i a b : nth_error l i = Some (a, b) -> nth_error (map fst l) i = Some a.
Proof. revert i; induction l as [|x l IH]; intros [|i] H; simpl in *; try discriminate; [inversion H; subst; reflexivity | eauto]. Qed.

(* every step of the extended machine is, on the metric state and the metric clients, either nothing or one step of
   the metric machine: auxiliary threads, markDirty and the tombstone Once cannot be seen from the metric side *)
Lemma xsys_step_metric c mode x e :
  metric_of (xsys_step c mode x e) = metric_of x \/ exists i, metric_of (xsys_step c mode x e) = sys_step c (metric_of x) i.
Proof.
  destruct e as [[|] i]; unfold xsys_step.
  - destruct (nth_error (x_cl x) i) as [[th m]|] eqn:G; [|left; reflexivity].
    unfold xstep_client. destruct m.
    + destruct (finished th) eqn:F; [left; unfold metric_of; simpl; rewrite (map_fst_upd_same _ _ _ _ G); reflexivity|].
      destruct (tstep c (x_sh x) th) as [s' th'] eqn:St. right. exists i.
      unfold metric_of, sys_step; simpl. rewrite (nth_map_fst _ _ _ _ G), F, St. rewrite map_fst_upd. reflexivity.
    + left. unfold metric_of; simpl. rewrite (map_fst_upd_same _ _ _ _ G). reflexivity.
    + left. unfold metric_of; simpl. rewrite (map_fst_upd_same _ _ _ _ G). reflexivity.
    + left. unfold metric_of; simpl. rewrite (map_fst_upd_same _ _ _ _ G). reflexivity.
    + left. destruct (ss_once (x_ss x)) as [|[|n]]; [|reflexivity|];
        unfold metric_of; simpl; rewrite (map_fst_upd_same _ _ _ _ G); reflexivity.
    + left. unfold metric_of; simpl. rewrite (map_fst_upd_same _ _ _ _ G). reflexivity.
  - destruct (nth_error (x_aux x) i) as [a|]; [|left; reflexivity].
    destruct (xstep_aux mode (x_sh x) (x_ss x) a) as [[ss' a']|]; left; reflexivity.
Qed.

Lemma xrun_projects c mode sched : forall x, exists sched', metric_of (xrun c mode x sched) = run_sched c (metric_of x) sched'.
Proof.
  induction sched as [|e r IH]; intros x; simpl; [exists []; reflexivity|].
  destruct (IH (xsys_step c mode x e)) as [s' Hs]. destruct (xsys_step_metric c mode x e) as [E|[i E]].
  - exists s'. rewrite Hs, E. reflexivity.
  - exists (i :: s'). rewrite Hs, E. reflexivity.
Qed.

Lemma metric_of_xsys0 progs aprogs : metric_of (xsys0 progs aprogs) = sys0 progs.
Proof. unfold metric_of, xsys0, sys0; simpl. rewrite map_map. reflexivity. Qed.

Lemma xdone_quiescent x : xclients_done x = true -> quiescent (metric_of x) = true.
Proof.
  unfold xclients_done, quiescent, metric_of; simpl. rewrite !forallb_forall. intros H th Hin.
  apply in_map_iff in Hin as [[t m] [E Hin]]. simpl in E; subst. specialize (H _ Hin). simpl in H.
  apply andb_true_iff in H as [H _]. exact H.
Qed.

(* ---- what can block, and on what ---- *)
(* an auxiliary step of the code (select/default send) is disabled ONLY when it is tickMu.Lock() and the mutex is held:
   never because of a full channel, a never-reading subscriber, an emitter or the metric state *)
Lemma aux_blocked_only_on_tickmu s ss a :
  xstep_aux SelectDefault s ss a = None -> ss_mu ss = true /\ (a_pc a = SSub2 \/ a_pc a = SUn4).
Proof.
  unfold xstep_aux. destruct (a_pc a); try discriminate.
  - destruct (a_prog a) as [|o r]; [discriminate|]. destruct o; try discriminate.
    + destruct (nth_error (ss_subs ss) k) as [b|]; [destruct (sb_unsub b)|]; discriminate.
    + destruct (ss_dirty ss); discriminate.
    + destruct (nth_error (ss_subs ss) k); discriminate.
  - destruct (ss_mu ss); [auto | discriminate].
  - destruct (ss_nsubs ss =? 0); discriminate.
  - destruct (ss_mu ss); [auto | discriminate].
  - destruct (next_entry (smap s) cur None) as [[k id]|]; discriminate.
  - destruct work as [|k r]; [discriminate|]. destruct (nth_error (ss_subs ss) k); discriminate.
  - destruct (next_entry (smap s) cur None) as [[k id]|]; discriminate.
Qed.
(* a client step is disabled ONLY inside tombstoneOnce.Do while ANOTHER CLIENT runs the initialiser: never because of a
   subscriber, a channel, the tick, a snapshot or tickMu *)
Lemma client_blocked_only_on_once c s ss cl :
  xstep_client c s ss cl = None -> snd cl = O1 /\ ss_once ss = 1%nat.
Proof.
  destruct cl as [th m]. unfold xstep_client. destruct m; try discriminate.
  - destruct (finished th); [discriminate|]. destruct (tstep c s th); discriminate.
  - destruct (ss_once ss) as [|[|n]]; try discriminate. auto.
Qed.

Definition lsum {A} (f : A -> Z) (l : list A) : Z := fold_right (fun a acc => f a + acc) 0 l.
Lemma lsum_upd {A} (f : A -> Z) l i a a' : nth_error l i = Some a -> lsum f (upd_nth l i (fun _ => a')) = lsum f l - f a + f a'.
Proof.
  revert i; induction l as [|x l IH]; intros [|i]; simpl; try discriminate.
  - intros H; inversion H; subst. lia.
  - intros H. rewrite (IH _ H). lia.
Qed.
Lemma lsum_pos {A} (f : A -> Z) l : (forall a, 0 <= f a) -> 0 < lsum f l -> exists i a, nth_error l i = Some a /\ 0 < f a.
Proof.
  intros Hf. induction l as [|x l IH]; simpl; [lia|]. intros H.
  destruct (Z_lt_le_dec 0 (f x)); [exists 0%nat, x; auto|].
  destruct IH as [i [a [G P]]]; [specialize (Hf x); lia|]. exists (S i), a. auto.
Qed.

(* threads inside the tickMu critical section / inside the Once initialiser *)
Definition crit (a : auxthread) : Z := match a_pc a with SSub3 | SSub4 | SUn5 | SUn6 => 1 | _ => 0 end.
Definition inonce (cl : thread * mpc) : Z := match snd cl with O2 => 1 | _ => 0 end.
Record LockInv (x : xsys) : Prop := {
  li_mu : lsum crit (x_aux x) = if ss_mu (x_ss x) then 1 else 0;
  li_once : lsum inonce (x_cl x) = if Nat.eqb (ss_once (x_ss x)) 1 then 1 else 0 }.

Lemma lsum_nonneg {A} (f : A -> Z) l : (forall a, 0 <= f a) -> 0 <= lsum f l.
Proof. intros Hf. induction l as [|x l IH]; simpl; [lia | specialize (Hf x); lia]. Qed.
Lemma lsum_ge {A} (f : A -> Z) l i a : (forall a, 0 <= f a) -> nth_error l i = Some a -> f a <= lsum f l.
Proof.
  intros Hf. revert i; induction l as [|x l IH]; intros [|i]; simpl; try discriminate.
  - intros H; inversion H; subst. pose proof (lsum_nonneg f l Hf). lia.
  - intros H. specialize (IH _ H). specialize (Hf x). lia.
Qed.
Lemma crit_nonneg a : 0 <= crit a. Proof. unfold crit; destruct (a_pc a); lia. Qed.
Lemma inonce_nonneg cl : 0 <= inonce cl. Proof. unfold inonce; destruct (snd cl); lia. Qed.

Definition b2z (b : bool) : Z := if b then 1 else 0.

Lemma aux_step_locks mode s ss a ss' a' :
  (crit a = 1 -> ss_mu ss = true) -> xstep_aux mode s ss a = Some (ss', a') ->
  ss_once ss' = ss_once ss /\ crit a' - crit a = b2z (ss_mu ss') - b2z (ss_mu ss).
Proof.
  intros Hc H. unfold xstep_aux in H. unfold crit in *.
  destruct (a_pc a) eqn:Epc; try (specialize (Hc eq_refl));
    repeat match type of H with
           | context [match ?x with _ => _ end] => destruct x eqn:?
           | context [if ?x then _ else _] => destruct x eqn:?
           end; inversion H; subst; simpl; rewrite ?Epc; simpl; split; try reflexivity;
    unfold b2z; try (rewrite Hc by reflexivity); try (destruct (ss_mu ss)); try lia; try discriminate.
Qed.

Lemma client_step_locks c s ss cl s' ss' cl' :
  (inonce cl = 1 -> ss_once ss = 1%nat) -> xstep_client c s ss cl = Some (s', ss', cl') ->
  ss_mu ss' = ss_mu ss /\ inonce cl' - inonce cl = b2z (Nat.eqb (ss_once ss') 1) - b2z (Nat.eqb (ss_once ss) 1).
Proof.
  intros Hc H. destruct cl as [th m]. unfold xstep_client in H. unfold inonce in *. simpl in *.
  destruct m; try (specialize (Hc eq_refl));
    repeat match type of H with
           | context [let (_, _) := tstep ?c ?s ?t in _] => destruct (tstep c s t) eqn:?
           | context [match ?x with _ => _ end] => destruct x eqn:?
           | context [if ?x then _ else _] => destruct x eqn:?
           end; inversion H; subst; simpl; split; try reflexivity; unfold b2z; try (rewrite Hc by reflexivity); simpl; try lia;
    try (destruct (Nat.eqb (ss_once ss) 1); lia);
    try (rewrite Heqn; simpl; lia).
Qed.

Lemma xsys_step_lockinv c mode x e : LockInv x -> LockInv (xsys_step c mode x e).
Proof.
  intros [L1 L2]. destruct e as [[|] i]; unfold xsys_step.
  - destruct (nth_error (x_cl x) i) as [cl|] eqn:G; [|constructor; auto].
    destruct (xstep_client c (x_sh x) (x_ss x) cl) as [[[s' ss'] cl']|] eqn:St; [|constructor; auto].
    assert (Hc : inonce cl = 1 -> ss_once (x_ss x) = 1%nat).
    { intros E. pose proof (lsum_ge inonce _ _ _ inonce_nonneg G) as Ge. rewrite L2 in Ge.
      destruct (Nat.eqb_spec (ss_once (x_ss x)) 1); [assumption | lia]. }
    destruct (client_step_locks _ _ _ _ _ _ _ Hc St) as [M D]. constructor; simpl.
    + rewrite M. exact L1.
    + rewrite (lsum_upd _ _ _ _ cl' G). unfold b2z in D. lia.
  - destruct (nth_error (x_aux x) i) as [a|] eqn:G; [|constructor; auto].
    destruct (xstep_aux mode (x_sh x) (x_ss x) a) as [[ss' a']|] eqn:St; [|constructor; auto].
    assert (Hc : crit a = 1 -> ss_mu (x_ss x) = true).
    { intros E. pose proof (lsum_ge crit _ _ _ crit_nonneg G) as Ge. rewrite L1 in Ge. destruct (ss_mu (x_ss x)); [reflexivity | lia]. }
    destruct (aux_step_locks _ _ _ _ _ _ Hc St) as [O D]. constructor; simpl.
    + rewrite (lsum_upd _ _ _ _ a' G). unfold b2z in D. lia.
    + rewrite O. exact L2.
Qed.

Lemma xrun_lockinv c mode sched : forall x, LockInv x -> LockInv (xrun c mode x sched).
Proof. induction sched as [|e r IH]; intros x H; simpl; [exact H|]. apply IH. apply xsys_step_lockinv. exact H. Qed.

Lemma LockInv0 progs aprogs : LockInv (xsys0 progs aprogs).
Proof.
  assert (Z1 : forall l : list (list sop), lsum crit (map auxthread0 l) = 0).
  { induction l as [|p l IH]; [reflexivity|]. change (lsum crit (map auxthread0 (p :: l))) with (crit (auxthread0 p) + lsum crit (map auxthread0 l)). rewrite IH. reflexivity. }
  assert (Z2 : forall l : list (list op), lsum inonce (map (fun p => (thread0 p, MNone)) l) = 0).
  { induction l as [|p l IH]; [reflexivity|]. change (lsum inonce (map (fun p => (thread0 p, MNone)) (p :: l))) with (inonce (thread0 p, MNone) + lsum inonce (map (fun p => (thread0 p, MNone)) l)). rewrite IH. reflexivity. }
  constructor; simpl; [apply Z1 | apply Z2].
Qed.

(* no deadlock on the two blocking primitives: whenever tickMu is held, its holder is an auxiliary thread inside the
   critical section, its next step is enabled whatever the send mode, and it releases the mutex after at most two own
   steps; whenever the Once initialiser is running, the client running it is enabled and finishes it with its next step *)
Lemma mu_holder_enabled c mode progs aprogs sched :
  let x := xrun c mode (xsys0 progs aprogs) sched in
  ss_mu (x_ss x) = true ->
  exists j a, nth_error (x_aux x) j = Some a /\ crit a = 1 /\
    (forall md, exists ss' a', xstep_aux md (x_sh x) (x_ss x) a = Some (ss', a') /\
                               (ss_mu ss' = false \/ (crit a' = 1 /\ forall s2 ss2 md2, ss_mu ss2 = true ->
                                  exists ss3 a3, xstep_aux md2 s2 ss2 a' = Some (ss3, a3) /\ ss_mu ss3 = false))).
Proof.
  intros x M. pose proof (xrun_lockinv c mode sched _ (LockInv0 progs aprogs)) as [L1 _]. fold x in L1. rewrite M in L1.
  assert (Pos : 0 < lsum crit (x_aux x)) by (rewrite L1; lia).
  destruct (lsum_pos crit _ crit_nonneg Pos) as [j [a [G P]]]. exists j, a. split; [exact G|].
  unfold crit in *. destruct (a_pc a) eqn:Epc; try lia; (split; [reflexivity|]); intros md; unfold xstep_aux; rewrite Epc;
    do 2 eexists; (split; [reflexivity|]); simpl.
  - right. split; [reflexivity|]. intros s2 ss2 md2 _. unfold xstep_aux; simpl. do 2 eexists. split; reflexivity.
  - left. reflexivity.
  - right. split; [reflexivity|]. intros s2 ss2 md2 _. unfold xstep_aux; simpl. do 2 eexists. split; reflexivity.
  - left. reflexivity.
Qed.

Lemma once_runner_enabled c mode progs aprogs sched :
  let x := xrun c mode (xsys0 progs aprogs) sched in
  ss_once (x_ss x) = 1%nat ->
  exists i cl, nth_error (x_cl x) i = Some cl /\ snd cl = O2 /\
    exists s' ss' cl', xstep_client c (x_sh x) (x_ss x) cl = Some (s', ss', cl') /\ ss_once ss' = 2%nat.
Proof.
  intros x M. pose proof (xrun_lockinv c mode sched _ (LockInv0 progs aprogs)) as [_ L2]. fold x in L2. rewrite M in L2. simpl in L2.
  assert (Pos : 0 < lsum inonce (x_cl x)) by (rewrite L2; lia).
  destruct (lsum_pos inonce _ inonce_nonneg Pos) as [i [[th m] [G P]]]. exists i, (th, m). split; [exact G|].
  unfold inonce in P. simpl in P. destruct m; try lia. split; [reflexivity|]. simpl. do 3 eexists. split; reflexivity.
Qed.

(* ---- emitters and subscribers do not interfere ---- *)
(* a client step never reads the subscribers' channels, tickMu or tickRunning: its enabledness and its effect depend on the
   subscription-side state only through subscriberCount, the dirty flag and the tombstone Once, and it writes only the
   latter two *)
Lemma client_ignores_channels c s ss1 ss2 cl :
  ss_nsubs ss1 = ss_nsubs ss2 -> ss_dirty ss1 = ss_dirty ss2 -> ss_once ss1 = ss_once ss2 ->
  match xstep_client c s ss1 cl, xstep_client c s ss2 cl with
  | Some (s1, ss1', cl1), Some (s2, ss2', cl2) =>
      s1 = s2 /\ cl1 = cl2 /\ ss_dirty ss1' = ss_dirty ss2' /\ ss_once ss1' = ss_once ss2' /\
      ss_subs ss1' = ss_subs ss1 /\ ss_nsubs ss1' = ss_nsubs ss1 /\ ss_mu ss1' = ss_mu ss1 /\ ss_running ss1' = ss_running ss1
  | None, None => True
  | _, _ => False
  end.
Proof.
  intros En Ed Eo. destruct cl as [th m]. unfold xstep_client. destruct m.
  - destruct (finished th); [repeat split; auto|]. destruct (tstep c s th) as [s' th']. repeat split; auto.
  - rewrite En. repeat split; auto.
  - rewrite Ed. repeat split; auto.
  - repeat split; simpl; auto.
  - rewrite Eo. destruct (ss_once ss2) as [|[|n]] eqn:E2; repeat split; simpl; auto; congruence.
  - repeat split; simpl; auto.
Qed.

(* own steps of a client strictly decrease a bound that depends on the client alone (markDirty adds at most 3 steps,
   the tombstone Once at most 2); MODEL-LEVEL: Observe / gauge Add are one step here, CAS loops in Go *)
Definition mcost (m : mpc) : nat := match m with MNone => 0 | M1 => 3 | M2 => 2 | M3 => 1 | O1 => 2 | O2 => 1 end%nat.
Definition xbudget (cl : thread * mpc) : nat := (4 * budget (fst cl) + mcost (snd cl))%nat.
Lemma client_progress c s ss cl s' ss' cl' :
  (finished (fst cl) && match snd cl with MNone => true | _ => false end) = false ->
  xstep_client c s ss cl = Some (s', ss', cl') -> (xbudget cl' < xbudget cl)%nat.
Proof.
  destruct cl as [th m]. unfold xstep_client, xbudget. simpl. destruct m; simpl.
  - rewrite andb_true_r. intros F. rewrite F. pose proof (tstep_progress c s th F) as P.
    destruct (tstep c s th) as [s1 th1]. simpl in *. intros H; inversion H; subst; simpl.
    destruct (lands s th); simpl; [lia|]. destruct (got_tomb th th1); simpl; lia.
  - intros _ H; inversion H; subst; simpl. match goal with |- context [if ?b then _ else _] => destruct b end; simpl; lia.
  - intros _ H; inversion H; subst; simpl. match goal with |- context [if ?b then _ else _] => destruct b end; simpl; lia.
  - intros _ H; inversion H; subst; simpl. lia.
  - intros _ H. destruct (ss_once ss) as [|[|n]]; inversion H; subst; simpl; lia.
  - intros _ H; inversion H; subst; simpl. lia.
Qed.

(* ---- the metric theorems hold in the presence of any subscribe / tick / snapshot activity ---- *)
Lemma x_per_tuple c mode progs aprogs xsched :
  c_kind c <> KGauge -> c_variant c = Repaired -> wf_progs c progs = true ->
  let x := metric_of (xrun c mode (xsys0 progs aprogs) xsched) in
  xclients_done (xrun c mode (xsys0 progs aprogs) xsched) = true ->
  (forall t, (shown (c_kind c) (sh x) t + retired_of (c_kind c) (sh x) t + attributed x t) mod M64
             = emitted_to c progs t mod M64) /\
  (drops (sh x) + unknown (sh x) + stales (sh x)) mod M64 = attributed_all x mod M64 /\
  (c_cap c > 0 -> Z.of_nat (length (snapshot (sh x))) <= c_cap c).
Proof.
  intros Hk Hv W x Q. destruct (xrun_projects c mode xsched (xsys0 progs aprogs)) as [sched' E].
  rewrite metric_of_xsys0 in E. apply xdone_quiescent in Q. unfold x in *. rewrite E in *.
  destruct (conc_per_tuple c progs sched' Hk Hv W Q) as [A [B _]].
  destruct (conc_cap c progs sched' Hv) as [C _].
  split; [exact A|]. split; [exact B|]. intros Hc. apply C. lia.
Qed.

(* ================================================================= gauges: an atomic register per series *)
(* the emission that thread th lands in a series with its next step, if any *)
Definition landing (s : shared) (th : thread) : option (nat * (emode * Z)) :=
  match t_pc th with
  | PE1 id m d => match get_handle s id with Some _ => Some (id, (m, d)) | None => None end
  | _ => None
  end.
(* all landings of a run, in the order in which they happen *)
Fixpoint ltrace (c : cfg) (x : sys) (sched : list nat) : list (nat * (emode * Z)) :=
  match sched with
  | [] => []
  | i :: r =>
      (match nth_error (ths x) i with
       | Some th => if finished th then [] else match landing (sh x) th with Some e => [e] | None => [] end
       | None => []
       end) ++ ltrace c (sys_step c x i) r
  end.
Definition on_id (id : nat) (l : list (nat * (emode * Z))) : list (emode * Z) :=
  map snd (filter (fun e => Nat.eqb (fst e) id) l).
Definition gapply (v : Z) (e : emode * Z) : Z := match fst e with EAdd => v + snd e | ESet => snd e end.
Definition gval (s : shared) (id : nat) : Z := match get_handle s id with Some h => v_main (h_val h) | None => 0 end.

Lemma gval_upd s id i f : (forall h, v_main (h_val (f h)) = v_main (h_val h)) ->
  gval (set_hs s (upd_nth (hs s) i f)) id = gval s id.
Proof.
  intros Hf. unfold gval, get_handle. simpl. rewrite nth_upd. destruct (Nat.eqb i id); [|reflexivity].
  destruct (nth_error (hs s) id); simpl; [apply Hf | reflexivity].
Qed.
Lemma gval_publish c s t id : gval (fst (publish c s t)) id = gval s id.
Proof.
  unfold gval, get_handle, publish. simpl. destruct (Nat.lt_ge_cases id (length (hs s))).
  - rewrite nth_error_app1 by assumption. reflexivity.
  - rewrite nth_error_app2 by assumption. assert (nth_error (hs s) id = None) as -> by (apply nth_error_None; lia).
    destruct (id - length (hs s))%nat as [|k]; simpl; [reflexivity | destruct k; reflexivity].
Qed.

Lemma tstep_gval c s th s' th' id :
  c_kind c = KGauge -> tstep c s th = (s', th') ->
  gval s' id = match landing s th with
               | Some (i, e) => if Nat.eqb i id then gapply (gval s id) e else gval s id
               | None => gval s id
               end.
Proof.
  intros Hk St. unfold tstep in St. unfold landing.
  destruct (t_pc th) eqn:Epc;
    try (destruct (t_prog th) as [|o rest] eqn:P; [|unfold start_op in St; destruct o]);
    repeat match type of St with
           | context [let (_, _) := publish ?c ?s ?t in _] => destruct (publish c s t) eqn:?
           | context [match ?x with _ => _ end] => destruct x eqn:?
           | context [if ?x then _ else _] => destruct x eqn:?
           end; inversion St; subst; clear St;
    try reflexivity;
    try (rewrite gval_upd by reflexivity; reflexivity);
    try (match goal with E : publish ?c ?s ?t = (?a, _) |- context [gval ?a _] =>
           replace a with (fst (publish c s t)) by (rewrite E; reflexivity); rewrite gval_publish; reflexivity end).
  (* PE1 with the handle present: the atomic update *)
  all: try (unfold gval, get_handle in *; simpl; rewrite nth_upd;
            destruct (Nat.eqb_spec id0 id); [subst;
              match goal with H : nth_error (hs ?s) ?i = Some _ |- _ => rewrite H end; simpl;
              unfold apply_emit, gapply; rewrite Hk; simpl; destruct m; reflexivity | reflexivity]).
  all: try (apply (gval_upd (set_map s (map_delete (smap s) (hash_tuple t))) id id0 retire); reflexivity).
Qed.

Lemma run_gval c sched : forall x id, c_kind c = KGauge ->
  gval (sh (run_sched c x sched)) id = fold_left gapply (on_id id (ltrace c x sched)) (gval (sh x) id).
Proof.
  induction sched as [|i r IH]; intros x id Hk; simpl; [reflexivity|].
  rewrite IH by assumption. unfold on_id. rewrite filter_app, map_app, fold_left_app. f_equal.
  unfold sys_step. destruct (nth_error (ths x) i) as [th|]; [|reflexivity].
  destruct (finished th); [reflexivity|]. destruct (tstep c (sh x) th) as [s' th'] eqn:St. simpl.
  rewrite (tstep_gval c _ _ _ _ id Hk St). destruct (landing (sh x) th) as [[j e]|]; simpl; [|reflexivity].
  destruct (Nat.eqb j id); reflexivity.
Qed.

(* A gauge series is an atomic register: for EVERY schedule (either variant) its value is the left fold of the Set/Add
   operations that landed in it, in the order of their landing steps, starting from 0. *)
Lemma gauge_register c progs sched id :
  c_kind c = KGauge ->
  gval (sh (run_sched c (sys0 progs) sched)) id = fold_left gapply (on_id id (ltrace c (sys0 progs) sched)) 0.
Proof. intros Hk. rewrite (run_gval c sched (sys0 progs) id Hk). f_equal. unfold gval, get_handle; simpl. destruct id; reflexivity. Qed.

(* last writer wins among concurrent Sets: the value is the last landed Set plus the Adds landed after it *)
Lemma gauge_last_set l1 d l2 v0 :
  Forall (fun e => fst e = EAdd) l2 ->
  fold_left gapply (l1 ++ (ESet, d) :: l2) v0 = d + fold_right (fun e a => snd e + a) 0 l2.
Proof.
  intros H. rewrite fold_left_app. simpl. unfold gapply at 2. simpl.
  generalize d. clear l1 v0 d. induction H as [|[m x] l Hm Hl IH]; intros d; simpl; [lia|].
  simpl in Hm; subst m. unfold gapply at 2; simpl. rewrite IH. lia.
Qed.
(* Add/Sub conservation: if only Adds landed, the value is their sum *)
Lemma gauge_adds l : Forall (fun e => fst e = EAdd) l -> fold_left gapply l 0 = fold_right (fun e a => snd e + a) 0 l.
Proof.
  intros H. assert (G : forall v, fold_left gapply l v = v + fold_right (fun e a => snd e + a) 0 l).
  { induction H as [|[m x] l Hm Hl IH]; intros v; simpl; [lia|]. simpl in Hm; subst m. unfold gapply at 2; simpl. rewrite IH. lia. }
  rewrite G. lia.
Qed.

(* ================================================================= tuple identity on every path (any kind) *)
Lemma sys_step_inv2 c x i : c_variant c = Repaired -> Inv2 c x -> Inv2 c (sys_step c x i).
Proof.
  intros Hv [HI HT]. pose proof (sys_step_inv c x i Hv HI) as HI'.
  unfold sys_step in *. destruct (nth_error (ths x) i) as [th|] eqn:G; [|constructor; assumption].
  destruct (finished th); [constructor; assumption|]. destruct (tstep c (sh x) th) as [s' th'] eqn:St.
  destruct HI as [HS HP HC HK].
  assert (Hpc : pc_ok (sh x) (t_pc th)) by (rewrite Forall_forall in HP; apply HP; eapply nth_error_In; eauto).
  assert (Hti : TI c (sh x) th) by (rewrite Forall_forall in HT; apply HT; eapply nth_error_In; eauto).
  pose proof (tsum_ge fover _ _ _ over_nonneg G) as G2.
  assert (E : ext (sh x) s').
  { destruct (tstep_inv c (sh x) th (tsum fcontrib (ths x) - fcontrib th) (tsum fover (ths x) - fover th) s' th')
      as [_ [_ [_ [_ E]]]]; auto.
    - lia.
    - change (contrib (t_pc th)) with (fcontrib th). lia.
    - change (over (t_pc th)) with (fover th). intros Hc. specialize (HK Hc). lia. }
  constructor; [exact HI'|]. simpl. apply Forall_upd.
  - eapply Forall_impl; [|exact HT]. intros a Ha. eapply TI_ext; eauto.
  - eapply tstep_TI; eauto.
Qed.

(* every series handle a client holds — whether it came from the Load fast path, from its own LoadOrStore or from somebody
   else's entry found by LoadOrStore — carries exactly the tuple of the WithLabelValues call that returned it *)
Lemma conc_handle_tuple c progs sched :
  c_variant c = Repaired -> wf_progs c progs = true ->
  let x := run_sched c (sys0 progs) sched in
  forall i th k id, nth_error (ths x) i = Some th -> nth_error (t_slots th) k = Some (RH id) ->
  exists h, get_handle (sh x) id = Some h /\ nth_error (t_asked th) k = Some (h_tuple h).
Proof.
  intros Hv W x. assert (H : Inv2 c x).
  { unfold x. generalize (Inv2_0 c progs W). generalize (sys0 progs). induction sched as [|j r IH]; intros y Hy; simpl; [exact Hy|].
    apply IH. apply sys_step_inv2; assumption. }
  intros i th k id G S. destruct H as [_ HT]. rewrite Forall_forall in HT.
  destruct (ti_slots _ _ _ (HT th (nth_error_In _ _ G)) k id S) as [h [A B]]. exists h. auto.
Qed.
